(* C20, threaded load = single-threaded load: scheduler independence of a pure task graph. *)
From Coq Require Import List Arith Bool Lia Permutation.
From KV Require Import Base.Sx Model.TaskGraph.
Import ListNotations.
Close Scope Z_scope.
Open Scope nat_scope.

Section P.
Variable V : Type.
Notation task := (task V). Notation graph := (graph V). Notation vmap := (vmap V).
Notation lookup_all := (lookup_all V). Notation run_task := (run_task V). Notation seq_upto := (seq_upto V).
Notation seq_run := (seq_run V). Notation vset := (vset V). Notation vempty := (vempty V).
Notation fire := (fire V). Notation cstep := (cstep V). Notation crun := (crun V). Notation c_init := (c_init V).
Notation wf := (wf V). Notation cstate := (cstate V).

Lemma vset_same (m : vmap) i v : vset m i v i = Some v.
Proof. unfold TaskGraph.vset. rewrite Nat.eqb_refl. reflexivity. Qed.
Lemma vset_other (m : vmap) i v j : j <> i -> vset m i v j = m j.
Proof. unfold TaskGraph.vset. intros H. apply Nat.eqb_neq in H. rewrite H. reflexivity. Qed.

Lemma lookup_all_mono (m m' : vmap) ds args :
  (forall d v, In d ds -> m d = Some v -> m' d = Some v) ->
  lookup_all m ds = Some args -> lookup_all m' ds = Some args.
Proof.
  revert args. induction ds as [|d r IH]; intros args H; simpl; [auto|].
  destruct (m d) as [v|] eqn:E; [|discriminate].
  destruct (TaskGraph.lookup_all V m r) as [vs|] eqn:E2; [|discriminate].
  intros X. injection X as <-.
  rewrite (H d v (or_introl eq_refl) E).
  rewrite (IH vs); [reflexivity| |reflexivity].
  intros d' v' Hin. apply H. right. exact Hin.
Qed.

Lemma lookup_all_defined (m : vmap) ds :
  (forall d, In d ds -> m d <> None) -> exists args, lookup_all m ds = Some args.
Proof.
  induction ds as [|d r IH]; intros H; simpl; [eexists; reflexivity|].
  destruct (m d) as [v|] eqn:E; [|exfalso; apply (H d (or_introl eq_refl)); exact E].
  destruct IH as (vs & ->); [intros d' Hd; apply H; right; exact Hd|]. eexists; reflexivity.
Qed.

(* ---------- the single-threaded run ---------- *)
Lemma run_task_other g (m : vmap) j i : i <> j -> run_task g m j i = m i.
Proof.
  intros H. unfold TaskGraph.run_task. destruct (nth_error g j) as [t|]; [|reflexivity].
  destruct (TaskGraph.lookup_all V m (t_deps t)); [|reflexivity]. apply vset_other. exact H.
Qed.

Lemma seq_upto_S g k : seq_upto g (S k) = run_task g (seq_upto g k) k.
Proof. unfold TaskGraph.seq_upto. rewrite seq_S, fold_left_app. reflexivity. Qed.

Lemma seq_upto_ge g k i : k <= i -> seq_upto g k i = None.
Proof.
  induction k as [|k IH]; intros H; [reflexivity|].
  rewrite seq_upto_S, run_task_other by lia. apply IH. lia.
Qed.

Lemma seq_upto_stable g k k' i : i < k -> k <= k' -> seq_upto g k' i = seq_upto g k i.
Proof.
  intros Hi Hk. induction Hk as [|k' Hk IH]; [reflexivity|].
  rewrite seq_upto_S, run_task_other by lia. exact IH.
Qed.

Lemma seq_upto_incl g k k' d v : k <= k' -> seq_upto g k d = Some v -> seq_upto g k' d = Some v.
Proof.
  intros Hk H. destruct (Nat.lt_ge_cases d k) as [Hd|Hd].
  - rewrite (seq_upto_stable g k k' d Hd Hk). exact H.
  - rewrite seq_upto_ge in H by exact Hd. discriminate.
Qed.

Lemma wf_from_nth b (g : graph) i t :
  wf_from V b g = true -> nth_error g i = Some t -> deps_below V (b + i) t = true.
Proof.
  revert b i. induction g as [|t0 r IH]; intros b i Hw Hn; [destruct i; discriminate|].
  simpl in Hw. apply andb_true_iff in Hw. destruct Hw as [H0 Hr].
  destruct i as [|i]; simpl in Hn.
  - injection Hn as <-. rewrite Nat.add_0_r. exact H0.
  - replace (b + S i) with (S b + i) by lia. apply IH; assumption.
Qed.

Lemma wf_deps g i t d : wf g = true -> nth_error g i = Some t -> In d (t_deps t) -> d < i.
Proof.
  intros Hw Hn Hd. pose proof (wf_from_nth 0 g i t Hw Hn) as H. simpl in H.
  unfold deps_below in H. rewrite forallb_forall in H. specialize (H d Hd). apply Nat.ltb_lt. exact H.
Qed.

Lemma seq_upto_defined g k : wf g = true -> k <= length g -> forall i, i < k -> seq_upto g k i <> None.
Proof.
  intros Hw. induction k as [|k IH]; intros Hk i Hi; [lia|].
  destruct (Nat.eq_dec i k) as [->|Hne].
  - rewrite seq_upto_S. unfold TaskGraph.run_task.
    destruct (nth_error g k) as [t|] eqn:En; [|apply nth_error_None in En; lia].
    destruct (lookup_all_defined (seq_upto g k) (t_deps t)) as (args & ->).
    { intros d Hd. apply IH; [lia|]. exact (wf_deps g k t d Hw En Hd). }
    rewrite vset_same. discriminate.
  - rewrite (seq_upto_stable g k (S k) i) by lia. apply IH; lia.
Qed.

(* every task has a value in the single-threaded run *)
Lemma seq_total g : wf g = true -> forall i, i < length g -> seq_run g i <> None.
Proof. intros Hw i Hi. apply seq_upto_defined; auto. Qed.

(* ... and that value is its function applied to the values of its dependencies (the fixpoint equation) *)
Lemma seq_fix g i t args : wf g = true -> nth_error g i = Some t ->
  lookup_all (seq_run g) (t_deps t) = Some args -> seq_run g i = Some (t_fn t args).
Proof.
  intros Hw En Hl.
  assert (Hi : i < length g) by (apply nth_error_Some; rewrite En; discriminate).
  unfold TaskGraph.seq_run. rewrite (seq_upto_stable g (S i) (length g) i) by lia.
  rewrite seq_upto_S. unfold TaskGraph.run_task. rewrite En.
  destruct (lookup_all_defined (seq_upto g i) (t_deps t)) as (args' & Ha).
  { intros d Hd. apply seq_upto_defined; [exact Hw|lia|exact (wf_deps g i t d Hw En Hd)]. }
  rewrite Ha. rewrite vset_same.
  assert (lookup_all (seq_run g) (t_deps t) = Some args') as Hb.
  { apply (lookup_all_mono (seq_upto g i)); [|exact Ha]. intros d v _ H. apply (seq_upto_incl g i); [lia|exact H]. }
  rewrite Hb in Hl. injection Hl as ->. reflexivity.
Qed.

(* ---------- the multi-threaded run: every published result is the single-threaded one ---------- *)
Record TInv (g : graph) (s : cstate) : Prop := {
  tinv_done : forall i v, c_done s i = Some v -> seq_run g i = Some v;
  tinv_run : forall w i args, In (w, (i, args)) (c_running s) ->
     In i (c_started s) /\ exists t, nth_error g i = Some t /\ lookup_all (seq_run g) (t_deps t) = Some args;
  tinv_once : NoDup (c_started s);
  tinv_started : forall i, In i (c_started s) ->
     c_done s i <> None \/ exists w args, In (w, (i, args)) (c_running s);
  tinv_pub : forall i, c_done s i <> None -> In i (c_started s)
}.

Lemma tinv_init g : TInv g c_init.
Proof.
  constructor; simpl; try (intros; discriminate); try (intros; contradiction); try constructor.
Qed.

Lemma take_worker_spec w (r : list (nat * (nat * list V))) y r' :
  take_worker V w r = Some (y, r') -> forall z, In z r <-> z = (w, y) \/ In z r'.
Proof.
  revert y r'. induction r as [|x r IH]; intros y r' H; simpl in H; [discriminate|].
  destruct (on_worker V w x) eqn:E.
  - injection H as <- <-. unfold on_worker in E. apply Nat.eqb_eq in E.
    intros z. simpl. destruct x as [xw xy]. simpl in E. subst xw. simpl. split; intros [A|A]; auto.
  - destruct (take_worker V w r) as [[y0 r0]|] eqn:E2; [|discriminate]. injection H as <- <-.
    intros z. simpl. rewrite (IH y0 r0 eq_refl z). tauto.
Qed.

Lemma take_worker_some w (r : list (nat * (nat * list V))) y :
  In (w, y) r -> take_worker V w r <> None.
Proof.
  induction r as [|x r IH]; intros H; simpl; [contradiction|].
  destruct (on_worker V w x) eqn:E; [discriminate|].
  destruct H as [->|H]; [unfold on_worker in E; simpl in E; rewrite Nat.eqb_refl in E; discriminate|].
  specialize (IH H). destruct (take_worker V w r) as [[y0 r0]|]; [discriminate|contradiction].
Qed.

Lemma tinv_fire g s e s' : wf g = true -> TInv g s -> fire g s e = Some s' -> TInv g s'.
Proof.
  intros Hw [Hd Hr Hn Hs Hds] Hf. destruct e as [w i|w]; simpl in Hf.
  - destruct (busy V (c_running s) w || was_started V s i) eqn:Eb; [discriminate|].
    apply orb_false_iff in Eb. destruct Eb as [_ Est].
    destruct (nth_error g i) as [t|] eqn:En; [|discriminate].
    destruct (TaskGraph.lookup_all V (c_done s) (t_deps t)) as [args|] eqn:El; [|discriminate].
    injection Hf as <-. constructor; simpl.
    + exact Hd.
    + intros w0 i0 a0 [H|H].
      * injection H as <- <- <-. split; [left; reflexivity|]. exists t. split; [exact En|].
        apply (lookup_all_mono (c_done s)); [|exact El]. intros d v _. apply Hd.
      * destruct (Hr w0 i0 a0 H) as [A B]. split; [right; exact A|exact B].
    + constructor; [|exact Hn]. intros Hin. unfold was_started in Est.
      assert (existsb (Nat.eqb i) (c_started s) = true) as X; [|congruence].
      apply existsb_exists. exists i. split; [exact Hin|apply Nat.eqb_refl].
    + intros j [<-|Hj].
      * right. exists w, args. left. reflexivity.
      * destruct (Hs j Hj) as [A|(w0 & a0 & A)]; [left; exact A|right; exists w0, a0; right; exact A].
    + intros j Hj. right. apply Hds. exact Hj.
  - destruct (take_worker V w (c_running s)) as [[[i args] r']|] eqn:Et; [|discriminate].
    destruct (nth_error g i) as [t|] eqn:En; [|discriminate].
    injection Hf as <-. pose proof (take_worker_spec w _ _ _ Et) as Hsp.
    assert (In (w, (i, args)) (c_running s)) as Hin by (apply Hsp; left; reflexivity).
    destruct (Hr w i args Hin) as (Hst & t' & En' & Hl). rewrite En in En'. injection En' as <-.
    constructor; simpl.
    + intros j v. destruct (Nat.eq_dec j i) as [->|Hne].
      * rewrite vset_same. intros X. injection X as <-. apply seq_fix; assumption.
      * rewrite vset_other by exact Hne. apply Hd.
    + intros w0 i0 a0 H. apply (Hr w0 i0 a0). apply Hsp. right. exact H.
    + exact Hn.
    + intros j Hj. destruct (Nat.eq_dec j i) as [->|Hne].
      * left. rewrite vset_same. discriminate.
      * rewrite vset_other by exact Hne. destruct (Hs j Hj) as [A|(w0 & a0 & A)]; [left; exact A|].
        right. exists w0, a0. apply Hsp in A. destruct A as [A|A]; [|exact A]. injection A as _ A _. contradiction.
    + intros j. destruct (Nat.eq_dec j i) as [->|Hne].
      * intros _. exact Hst.
      * rewrite vset_other by exact Hne. apply Hds.
Qed.

Lemma tinv_step g s e : wf g = true -> TInv g s -> TInv g (cstep g s e).
Proof.
  intros Hw H. unfold TaskGraph.cstep. destruct (fire g s e) as [s'|] eqn:E; [|exact H].
  exact (tinv_fire g s e s' Hw H E).
Qed.

Lemma inv_run_all g es : wf g = true -> TInv g (crun g es).
Proof.
  intros Hw. unfold TaskGraph.crun. generalize (tinv_init g). generalize c_init.
  induction es as [|e es IH]; intros s H; simpl; [exact H|]. apply IH. apply tinv_step; assumption.
Qed.

(* SCHEDULER INDEPENDENCE (safety): whatever the event list (any number of workers, any order of hand-outs and
   completions), every result in the cache is the result of the single-threaded run *)
Theorem sched_sound g es i v : wf g = true -> c_done (crun g es) i = Some v -> seq_run g i = Some v.
Proof. intros Hw. apply (tinv_done g _ (inv_run_all g es Hw)). Qed.

Lemma all_done_spec g (s : cstate) : all_done V g s = true <-> forall i, i < length g -> c_done s i <> None.
Proof.
  unfold all_done. rewrite forallb_forall. split.
  - intros H i Hi. specialize (H i). rewrite in_seq in H. specialize (H ltac:(lia)).
    destruct (c_done s i); [discriminate|discriminate].
  - intros H i Hi. apply in_seq in Hi. specialize (H i ltac:(lia)). destruct (c_done s i); [reflexivity|contradiction].
Qed.

(* ... hence a finished multi-threaded load has exactly the single-threaded results *)
Theorem sched_complete g es : wf g = true -> all_done V g (crun g es) = true ->
  forall i, i < length g -> c_done (crun g es) i = seq_run g i.
Proof.
  intros Hw Ha i Hi. rewrite all_done_spec in Ha. specialize (Ha i Hi).
  destruct (c_done (crun g es) i) as [v|] eqn:E; [|contradiction].
  symmetry. apply (sched_sound g es i v Hw E).
Qed.

(* no task is handed out twice *)
Theorem sched_once g es : wf g = true -> NoDup (c_started (crun g es)).
Proof. intros Hw. apply (tinv_once g _ (inv_run_all g es Hw)). Qed.

(* PROGRESS: a load that is not finished can always continue: no reachable state is a deadlock *)
Lemma least_undone (m : vmap) n : (exists i, i < n /\ m i = None) ->
  exists i, i < n /\ m i = None /\ forall j, j < i -> m j <> None.
Proof.
  induction n as [|n IH]; intros (i & Hi & Hm); [lia|].
  destruct (forallb (fun j => match m j with Some _ => true | None => false end) (seq 0 n)) eqn:E.
  - rewrite forallb_forall in E.
    assert (forall j, j < n -> m j <> None) as Hall.
    { intros j Hj. specialize (E j). rewrite in_seq in E. specialize (E ltac:(lia)). destruct (m j); discriminate. }
    assert (i = n) as -> by (destruct (Nat.eq_dec i n); [assumption|exfalso; apply (Hall i); [lia|exact Hm]]).
    exists n. repeat split; [lia|exact Hm|exact Hall].
  - assert (exists j, j < n /\ m j = None) as H.
    { apply Bool.not_true_iff_false in E. rewrite forallb_forall in E.
      destruct (existsb (fun j => match m j with Some _ => false | None => true end) (seq 0 n)) eqn:X.
      - apply existsb_exists in X. destruct X as (j & Hj & Hv). apply in_seq in Hj. exists j. split; [lia|].
        destruct (m j); [discriminate|reflexivity].
      - exfalso. apply E. intros j Hj. destruct (m j) eqn:Y; [reflexivity|].
        assert (existsb (fun j => match m j with Some _ => false | None => true end) (seq 0 n) = true); [|congruence].
        apply existsb_exists. exists j. rewrite Y. auto. }
    destruct (IH H) as (j & Hj & A & B). exists j. repeat split; [lia|exact A|exact B].
Qed.

Theorem sched_progress g es : wf g = true ->
  let s := crun g es in all_done V g s = true \/ exists e, fire g s e <> None.
Proof.
  intros Hw s. pose proof (inv_run_all g es Hw) as [Hd Hr Hn Hs Hds]. fold s in Hd, Hr, Hn, Hs, Hds.
  destruct (c_running s) as [|[w [i args]] r] eqn:Er.
  - destruct (all_done V g s) eqn:Ea; [left; reflexivity|right].
    assert (exists i, i < length g /\ c_done s i = None) as Hex.
    { apply Bool.not_true_iff_false in Ea. rewrite all_done_spec in Ea.
      destruct (least_undone (fun i => if Nat.ltb i (length g) then c_done s i else None) (S (length g))) as (i & Hi & A & B).
      - exists (length g). split; [lia|]. rewrite Nat.ltb_irrefl. reflexivity.
      - destruct (Nat.ltb i (length g)) eqn:L.
        + apply Nat.ltb_lt in L. exists i. split; assumption.
        + apply Nat.ltb_ge in L. exfalso. apply Ea. intros j Hj. specialize (B j ltac:(lia)).
          apply Nat.ltb_lt in Hj. rewrite Hj in B. exact B. }
    destruct (least_undone (c_done s) (length g) Hex) as (i & Hi & Hnone & Hlow).
    exists (Start 0 i). simpl. rewrite Er. simpl.
    assert (was_started V s i = false) as ->.
    { unfold was_started. destruct (existsb (Nat.eqb i) (c_started s)) eqn:X; [|reflexivity].
      apply existsb_exists in X. destruct X as (j & Hj & Hij). apply Nat.eqb_eq in Hij. subst j.
      destruct (Hs i Hj) as [A|(w0 & a0 & A)]; [contradiction|]. contradiction. }
    destruct (nth_error g i) as [t|] eqn:En; [|apply nth_error_None in En; lia].
    destruct (lookup_all_defined (c_done s) (t_deps t)) as (a & ->); [|discriminate].
    intros d Hdd. apply Hlow. exact (wf_deps g i t d Hw En Hdd).
  - right. exists (Finish w). simpl. rewrite Er.
    assert (In (w, (i, args)) (c_running s)) as Hin by (rewrite Er; left; reflexivity).
    pose proof (take_worker_some w (c_running s) (i, args) Hin) as Ht. rewrite Er in Ht.
    destruct (take_worker V w ((w, (i, args)) :: r)) as [[[i1 a1] r1]|] eqn:Et; [|contradiction].
    assert (In (w, (i1, a1)) (c_running s)) as Hin1.
    { rewrite Er. apply (take_worker_spec w _ _ _ Et). left. reflexivity. }
    rewrite Er in Hin1. destruct (Hr w i1 a1 Hin1) as (_ & t & En & _). rewrite En. discriminate.
Qed.

(* the single-threaded load is the same machine driven by one worker: hand out task 0, wait, task 1, wait, ... *)
Lemma lookup_all_ext (m m' : vmap) ds : (forall d, m d = m' d) -> lookup_all m ds = lookup_all m' ds.
Proof. intros H. induction ds as [|d r IH]; simpl; [reflexivity|]. rewrite H, IH. reflexivity. Qed.

Lemma sync_upto g k : wf g = true -> k <= length g ->
  let s := crun g (sync_events k) in
  (forall i, c_done s i = seq_upto g k i) /\ c_running s = [] /\ (forall i, In i (c_started s) <-> i < k).
Proof.
  intros Hw. induction k as [|k IH]; intros Hk.
  - simpl. repeat split; try reflexivity; [intros []|lia].
  - destruct (IH ltac:(lia)) as (Hd & Hr & Hs). clear IH.
    unfold sync_events in *. rewrite seq_S, flat_map_app. unfold TaskGraph.crun in *. rewrite fold_left_app.
    set (s := fold_left (cstep g) (flat_map (fun i => [Start 0 i; Finish 0]) (seq 0 k)) c_init) in *.
    simpl.
    destruct (nth_error g k) as [t|] eqn:En; [|apply nth_error_None in En; lia].
    destruct (lookup_all_defined (seq_upto g k) (t_deps t)) as (args & Ha).
    { intros d Hdd. apply seq_upto_defined; [exact Hw|lia|exact (wf_deps g k t d Hw En Hdd)]. }
    assert (lookup_all (c_done s) (t_deps t) = Some args) as Ha' by (rewrite (lookup_all_ext _ (seq_upto g k)); auto).
    assert (was_started V s k = false) as Hws.
    { unfold was_started. destruct (existsb (Nat.eqb k) (c_started s)) eqn:X; [|reflexivity].
      apply existsb_exists in X. destruct X as (j & Hj & E). apply Nat.eqb_eq in E. subst j. apply Hs in Hj. lia. }
    assert (cstep g s (Start 0 k) = mkC (c_done s) [(0, (k, args))] (k :: c_started s)) as E1.
    { unfold TaskGraph.cstep, TaskGraph.fire. rewrite Hr, Hws, En, Ha'. reflexivity. }
    rewrite E1. unfold TaskGraph.cstep, TaskGraph.fire. simpl. rewrite En. simpl. repeat split.
    + intros i. rewrite seq_upto_S. unfold TaskGraph.run_task. rewrite En, Ha.
      unfold TaskGraph.vset. destruct (Nat.eqb i k); [reflexivity|apply Hd].
    + intros [<-|H]; [lia|]. apply Hs in H. lia.
    + intros H. destruct (Nat.eq_dec k i) as [E|E]; [left; exact E|right; apply Hs; lia].
Qed.

Theorem sync_is_seq g : wf g = true -> forall i, c_done (crun g (sync_events (length g))) i = seq_run g i.
Proof. intros Hw i. destruct (sync_upto g (length g) Hw (le_n _)) as (H & _). apply H. Qed.

(* THE CLAUSE: a finished load under ANY schedule of ANY number of workers returns what the one-worker load returns *)
Theorem threaded_eq_single g es : wf g = true -> all_done V g (crun g es) = true ->
  forall i, i < length g -> c_done (crun g es) i = c_done (crun g (sync_events (length g))) i.
Proof. intros Hw Ha i Hi. rewrite sync_is_seq by exact Hw. apply sched_complete; assumption. Qed.

(* ---------- unsynchronised output writes ---------- *)
Notation apply_writes := (apply_writes V).

Lemma apply_writes_notin ws : forall (t : vmap) p, ~ In p (map fst ws) -> apply_writes ws t p = t p.
Proof.
  induction ws as [|[q u] r IH]; intros t p H; [reflexivity|]. simpl in *.
  unfold TaskGraph.apply_writes in *. simpl. rewrite IH by tauto. apply vset_other. intros E. apply H. left. congruence.
Qed.

Lemma apply_writes_in ws : forall (t : vmap) p v, NoDup (map fst ws) -> In (p, v) ws -> apply_writes ws t p = Some v.
Proof.
  induction ws as [|[q u] r IH]; intros t p v ND Hin; [contradiction|]. simpl in ND. inversion ND as [|? ? Hq Hr]; subst.
  unfold TaskGraph.apply_writes in *. simpl. destruct Hin as [E|Hin].
  - injection E as -> ->. fold (apply_writes r (vset t p v)). rewrite apply_writes_notin by exact Hq. apply vset_same.
  - apply IH; assumption.
Qed.

(* writes to pairwise distinct cells commute: ANY interleaving of the chunk tasks' cell writes gives the same array *)
Theorem writes_order_independent ws ws' (t : vmap) : NoDup (map fst ws) -> Permutation ws ws' ->
  forall p, apply_writes ws t p = apply_writes ws' t p.
Proof.
  intros ND HP p.
  assert (NoDup (map fst ws')) as ND' by (eapply Permutation_NoDup; [apply Permutation_map; exact HP|exact ND]).
  destruct (in_dec Nat.eq_dec p (map fst ws)) as [Hin|Hnin].
  - apply in_map_iff in Hin. destruct Hin as ([q v] & E & Hin). simpl in E. subst q.
    rewrite (apply_writes_in ws t p v ND Hin).
    rewrite (apply_writes_in ws' t p v ND' (Permutation_in _ HP Hin)). reflexivity.
  - rewrite apply_writes_notin by exact Hnin. rewrite apply_writes_notin; [reflexivity|].
    intros H. apply Hnin. eapply Permutation_in; [apply Permutation_sym; apply Permutation_map; exact HP|exact H].
Qed.

End P.

(* distinctness is necessary: two tasks writing the same cell make the result depend on the interleaving *)
Lemma writes_overlap_refuted :
  exists ws ws' p, Permutation ws ws' /\ apply_writes nat ws (vempty nat) p <> apply_writes nat ws' (vempty nat) p.
Proof.
  exists [(0, 1); (0, 2)], [(0, 2); (0, 1)], 0. split; [apply perm_swap|]. vm_compute. discriminate.
Qed.

(* purity is necessary too: a "task" whose result depends on how many tasks ran before it (shared mutable state) is not
   a function of its dependencies; the model cannot even express it -- t_fn : list V -> V -- which is the assumption the
   harness checks on the real load (chunk reads idempotent, no task mutates its inputs, results independent of order). *)
