(* Lemmas about Model/LostMap.v. *)
From Coq Require Import ZArith List Bool Lia ZifyBool.
From KV Require Import Base.Sx Model.Prune Model.LostMap Proofs.PruneP.
Import ListNotations.
Open Scope Z_scope.

Lemma data_lost_is_bit3 : DATA_LOST = 8.
Proof. reflexivity. Qed.

(* ================= 1-D: intersect_1d ================= *)
(* a piece is a non-empty slice of an existing old chunk *)
Definition piece_ok (old : list Z) (pc : piece) : Prop :=
  (fst (fst pc) < length old)%nat /\ 0 <= snd (fst pc) /\ snd (fst pc) < snd pc /\ snd pc <= nth (fst (fst pc)) old 0.
(* element x (global coordinate) lies in the piece *)
Definition gcovb (old : list Z) (pc : piece) (x : Z) : bool :=
  (cstart old (fst (fst pc)) + snd (fst pc) <=? x) && (x <? cstart old (fst (fst pc)) + snd pc).
Definition gcov (old : list Z) (ps : list piece) (x : Z) : bool := existsb (fun pc => gcovb old pc x) ps.
(* the piece names chunk I and its slice contains local position q *)
Definition covers (pc : piece) (Iq : nat * Z) : bool :=
  Nat.eqb (fst (fst pc)) (fst Iq) && in_slice pc (snd Iq).

Definition state_ok (old : list Z) (i : nat) (s : Z) : Prop :=
  ((i < length old)%nat /\ 0 <= s < nth i old 0) \/ (i = length old /\ s = 0).

Lemma cstart_all l : cstart l (length l) = zsum l.
Proof. unfold cstart. rewrite firstn_all. reflexivity. Qed.

Lemma nth_pos l i : allpos l -> (i < length l)%nat -> 0 < nth i l 0.
Proof. intros P H. unfold allpos in P. rewrite Forall_forall in P. apply P. apply nth_In. exact H. Qed.

Lemma cstart_mono l : allpos l -> forall j i, (i <= j)%nat -> (j <= length l)%nat -> cstart l i <= cstart l j.
Proof.
  intros P. induction j as [|j IH]; intros i Hi Hj.
  - replace i with 0%nat by lia. lia.
  - destruct (Nat.eq_dec i (S j)) as [->|N]; [lia|].
    rewrite cstart_S by lia. pose proof (nth_pos l j P ltac:(lia)). specialize (IH i ltac:(lia) ltac:(lia)). lia.
Qed.

Lemma take_spec : forall fuel old i s n ps i' s',
  allpos old -> (i < length old)%nat -> 0 <= s < nth i old 0 -> 0 < n ->
  cstart old i + s + n <= zsum old -> (length old - i <= fuel)%nat ->
  take fuel old i s n = (ps, (i', s')) ->
  Forall (piece_ok old) ps /\
  (forall x, gcov old ps x = ((cstart old i + s <=? x) && (x <? cstart old i + s + n))) /\
  cstart old i' + s' = cstart old i + s + n /\ state_ok old i' s'.
Proof.
  induction fuel as [|f IH]; intros old i s n ps i' s' P Hi Hs Hn Hfit Hfuel H; [lia|].
  cbn [take] in H.
  destruct (n <? nth i old 0 - s) eqn:E1.
  - inversion H; subst. repeat split.
    + constructor; [|constructor]. unfold piece_ok; simpl. lia.
    + intro x. unfold gcov, gcovb. simpl. lia.
    + lia.
    + left. lia.
  - destruct (n =? nth i old 0 - s) eqn:E2.
    + inversion H; subst. repeat split.
      * constructor; [|constructor]. unfold piece_ok; simpl. lia.
      * intro x. unfold gcov, gcovb. simpl. lia.
      * rewrite cstart_S by lia. lia.
      * unfold state_ok. destruct (Nat.eq_dec (S i) (length old)); [right; lia|left].
        split; [lia|]. pose proof (nth_pos old (S i) P ltac:(lia)). lia.
    + destruct (take f old (S i) 0 (n - (nth i old 0 - s))) as [ps1 st1] eqn:T.
      inversion H; subst. clear H.
      assert (HS : cstart old (S i) = cstart old i + nth i old 0) by (apply cstart_S; lia).
      assert (Hlt : (S i < length old)%nat).
      { destruct (Nat.eq_dec (S i) (length old)) as [Eq|]; [|lia].
        rewrite Eq, cstart_all in HS. lia. }
      pose proof (nth_pos old (S i) P Hlt).
      specialize (IH old (S i) 0 (n - (nth i old 0 - s)) ps1 i' s' P Hlt ltac:(lia) ltac:(lia) ltac:(lia) ltac:(lia) T).
      destruct IH as (A & B & C & D). repeat split.
      * constructor; [|exact A]. unfold piece_ok; simpl. lia.
      * intro x. unfold gcov in *. cbn [existsb]. rewrite B. unfold gcovb. simpl. lia.
      * lia.
      * exact D.
Qed.

Lemma inter_length : forall new old i s, length (inter new old i s) = length new.
Proof.
  induction new as [|n t IH]; intros old i s; [reflexivity|].
  cbn [inter]. destruct (take (S (length old)) old i s n) as [ps [i' s']]. cbn [length]. rewrite IH. reflexivity.
Qed.

Lemma inter_spec : forall new old i s, allpos old -> allpos new -> state_ok old i s ->
  cstart old i + s + zsum new <= zsum old ->
  forall j, (j < length new)%nat ->
    Forall (piece_ok old) (nth j (inter new old i s) []) /\
    forall x, gcov old (nth j (inter new old i s) []) x =
              ((cstart old i + s + cstart new j <=? x) && (x <? cstart old i + s + cstart new (S j))).
Proof.
  induction new as [|n t IH]; intros old i s Po Pn St Hfit j Hj; [simpl in Hj; lia|].
  inversion Pn; subst. pose proof (zsum_nonneg t H2). change (zsum (n :: t)) with (n + zsum t) in Hfit.
  destruct St as [[Hi Hs]|[Hi Hs]].
  2:{ subst. rewrite cstart_all in Hfit. lia. }
  cbn [inter].
  destruct (take (S (length old)) old i s n) as [ps [i' s']] eqn:T.
  destruct (take_spec (S (length old)) old i s n ps i' s' Po Hi Hs H1) as (A & B & C & D); [lia|lia|exact T|].
  destruct j as [|j].
  - cbn [nth]. split; [exact A|]. intro x. rewrite B. unfold cstart. simpl. lia.
  - cbn [nth]. simpl in Hj.
    destruct (IH old i' s' Po H2 D ltac:(lia) j ltac:(lia)) as [A' B']. split; [exact A'|].
    intro x. rewrite B'. rewrite !cstart_cons. lia.
Qed.

Lemma covers_gcov old pc x : allpos old -> piece_ok old pc -> 0 <= x < zsum old ->
  covers pc (loc old 0 x) = gcovb old pc x.
Proof.
  intros P [H1 [H2 [H3 H4]]] Hx. destruct pc as [[i s] e]. simpl in *.
  pose proof (loc_spec old x P Hx) as L. destruct (loc old 0 x) as [I q].
  destruct L as (L1 & L2 & L3). unfold covers, gcovb, in_slice. simpl.
  destruct (Nat.eqb_spec i I) as [->|N].
  - simpl. lia.
  - simpl. symmetry. apply andb_false_iff.
    destruct (Nat.lt_ge_cases i I) as [Lt|Ge].
    + pose proof (cstart_mono old P I (S i) ltac:(lia) ltac:(lia)). rewrite cstart_S in H by lia. lia.
    + pose proof (cstart_mono old P i (S I) ltac:(lia) ltac:(lia)). rewrite cstart_S in H by lia. lia.
Qed.

Definition cov1 (ps : list piece) (Iq : nat * Z) : bool := existsb (fun pc => covers pc Iq) ps.

Lemma existsb_ext_in {A} (f g : A -> bool) l : (forall a, In a l -> f a = g a) -> existsb f l = existsb g l.
Proof. induction l; simpl; intro H; [reflexivity|]. rewrite H by auto. rewrite IHl by auto. reflexivity. Qed.

(* THE 1-D FACT: the element x of the old chunking, seen as (old chunk, local position), is covered by a piece
   listed under new chunk j exactly when j is the new chunk that contains x. *)
Lemma intersect_1d_cov old new x : allpos old -> allpos new -> zsum old = zsum new -> 0 <= x < zsum old ->
  forall j, cov1 (nth j (intersect_1d old new) []) (loc old 0 x) = Nat.eqb j (fst (loc new 0 x)).
Proof.
  intros Po Pn Hsum Hx j. unfold intersect_1d.
  pose proof (loc_spec new x Pn ltac:(lia)) as L. destruct (loc new 0 x) as [J q]. destruct L as (L1 & L2 & L3).
  cbn [fst].
  destruct (Nat.lt_ge_cases j (length new)) as [Hj|Hj].
  2:{ rewrite nth_overflow by (rewrite inter_length; lia). simpl. symmetry. apply Nat.eqb_neq. lia. }
  assert (St : state_ok old 0 0).
  { unfold state_ok. destruct old as [|c t]; [right; auto|left]. inversion Po; subst. simpl. split; lia. }
  destruct (inter_spec new old 0%nat 0 Po Pn St ltac:(unfold cstart; simpl; lia) j Hj) as [A B].
  unfold cov1. rewrite (existsb_ext_in _ (fun pc => gcovb old pc x)).
  2:{ intros pc Hin. apply covers_gcov; auto. rewrite Forall_forall in A. apply A. exact Hin. }
  fold (gcov old (nth j (inter new old 0 0) []) x). rewrite B.
  change (cstart old 0) with 0.
  destruct (Nat.eqb_spec j J) as [->|N].
  - rewrite cstart_S by lia. lia.
  - destruct (Nat.lt_ge_cases j J) as [Lt|Ge].
    + pose proof (cstart_mono new Pn J (S j) ltac:(lia) ltac:(lia)). lia.
    + pose proof (cstart_mono new Pn j (S J) ltac:(lia) ltac:(lia)). rewrite cstart_S in H by lia. lia.
Qed.

(* ================= exactly one piece: the pieces PARTITION ================= *)
Definition gcount (old : list Z) (ps : list piece) (x : Z) : nat := length (filter (fun pc => gcovb old pc x) ps).

Lemma take_count : forall fuel old i s n ps i' s',
  allpos old -> (i < length old)%nat -> 0 <= s < nth i old 0 -> 0 < n ->
  cstart old i + s + n <= zsum old -> (length old - i <= fuel)%nat ->
  take fuel old i s n = (ps, (i', s')) ->
  forall x, gcount old ps x = if (cstart old i + s <=? x) && (x <? cstart old i + s + n) then 1%nat else 0%nat.
Proof.
  induction fuel as [|f IH]; intros old i s n ps i' s' P Hi Hs Hn Hfit Hfuel H; [lia|].
  cbn [take] in H.
  destruct (n <? nth i old 0 - s) eqn:E1.
  - injection H as <- <- <-. intro x. unfold gcount, gcovb. cbn [filter fst snd].
    destruct ((cstart old i + s <=? x) && (x <? cstart old i + (s + n))) eqn:C;
      destruct ((cstart old i + s <=? x) && (x <? cstart old i + s + n)) eqn:D; try reflexivity; lia.
  - destruct (n =? nth i old 0 - s) eqn:E2.
    + injection H as <- <- <-. intro x. unfold gcount, gcovb. cbn [filter fst snd].
      destruct ((cstart old i + s <=? x) && (x <? cstart old i + nth i old 0)) eqn:C;
        destruct ((cstart old i + s <=? x) && (x <? cstart old i + s + n)) eqn:D; try reflexivity; lia.
    + destruct (take f old (S i) 0 (n - (nth i old 0 - s))) as [ps1 st1] eqn:T.
      injection H as <- ->.
      assert (HS : cstart old (S i) = cstart old i + nth i old 0) by (apply cstart_S; lia).
      assert (Hlt : (S i < length old)%nat).
      { destruct (Nat.eq_dec (S i) (length old)) as [Eq|]; [|lia].
        rewrite Eq, cstart_all in HS. lia. }
      pose proof (nth_pos old (S i) P Hlt).
      assert (IH' := IH old (S i) 0 (n - (nth i old 0 - s)) ps1 i' s' P Hlt ltac:(lia) ltac:(lia) ltac:(lia) ltac:(lia) T).
      intro x. specialize (IH' x). unfold gcount in *. cbn [filter]. unfold gcovb at 1. cbn [fst snd].
      destruct ((cstart old i + s <=? x) && (x <? cstart old i + nth i old 0)) eqn:C; cbn [length]; rewrite IH';
        destruct ((cstart old (S i) + 0 <=? x) && (x <? cstart old (S i) + 0 + (n - (nth i old 0 - s)))) eqn:D;
        destruct ((cstart old i + s <=? x) && (x <? cstart old i + s + n)) eqn:F; try reflexivity; lia.
Qed.

Lemma inter_count : forall new old i s, allpos old -> allpos new -> state_ok old i s ->
  cstart old i + s + zsum new <= zsum old ->
  forall j, (j < length new)%nat -> forall x,
    gcount old (nth j (inter new old i s) []) x =
    if (cstart old i + s + cstart new j <=? x) && (x <? cstart old i + s + cstart new (S j)) then 1%nat else 0%nat.
Proof.
  induction new as [|n t IH]; intros old i s Po Pn St Hfit j Hj; [simpl in Hj; lia|].
  inversion Pn; subst. pose proof (zsum_nonneg t H2). change (zsum (n :: t)) with (n + zsum t) in Hfit.
  destruct St as [[Hi Hs]|[Hi Hs]].
  2:{ subst. rewrite cstart_all in Hfit. lia. }
  cbn [inter].
  destruct (take (S (length old)) old i s n) as [ps [i' s']] eqn:T.
  destruct (take_spec (S (length old)) old i s n ps i' s' Po Hi Hs H1) as (A & B & C & D); [lia|lia|exact T|].
  destruct j as [|j].
  - cbn [nth]. intro x. rewrite (take_count (S (length old)) old i s n ps i' s' Po Hi Hs H1 ltac:(lia) ltac:(lia) T x).
    unfold cstart. simpl.
    destruct ((zsum (firstn i old) + s <=? x) && (x <? zsum (firstn i old) + s + n)) eqn:E1;
      destruct ((zsum (firstn i old) + s + 0 <=? x) && (x <? zsum (firstn i old) + s + (n + 0))) eqn:E2;
      try reflexivity; lia.
  - cbn [nth]. simpl in Hj. intro x.
    rewrite (IH old i' s' Po H2 D ltac:(lia) j ltac:(lia) x). rewrite !cstart_cons.
    destruct ((cstart old i' + s' + cstart t j <=? x) && (x <? cstart old i' + s' + cstart t (S j))) eqn:E1;
      destruct ((cstart old i + s + (n + cstart t j) <=? x) && (x <? cstart old i + s + (n + cstart t (S j)))) eqn:E2;
      try reflexivity; lia.
Qed.

(* every element of the old chunking lies in exactly one piece, and that piece is listed under the new chunk
   containing the element *)
Lemma intersect_1d_partition old new x : allpos old -> allpos new -> zsum old = zsum new -> 0 <= x < zsum old ->
  forall j, length (filter (fun pc => covers pc (loc old 0 x)) (nth j (intersect_1d old new) [])) =
            if Nat.eqb j (fst (loc new 0 x)) then 1%nat else 0%nat.
Proof.
  intros Po Pn Hsum Hx j. unfold intersect_1d.
  pose proof (loc_spec new x Pn ltac:(lia)) as L. destruct (loc new 0 x) as [J q]. destruct L as (L1 & L2 & L3).
  cbn [fst].
  destruct (Nat.lt_ge_cases j (length new)) as [Hj|Hj].
  2:{ rewrite nth_overflow by (rewrite inter_length; lia). simpl.
      destruct (Nat.eqb_spec j J); [lia|reflexivity]. }
  assert (St : state_ok old 0 0).
  { unfold state_ok. destruct old as [|c t]; [right; auto|left]. inversion Po; subst. simpl. split; lia. }
  destruct (inter_spec new old 0%nat 0 Po Pn St ltac:(unfold cstart; simpl; lia) j Hj) as [A _].
  rewrite (filter_ext_in _ (fun pc => gcovb old pc x)).
  2:{ intros pc Hin. apply covers_gcov; auto. rewrite Forall_forall in A. apply A. exact Hin. }
  fold (gcount old (nth j (inter new old 0 0) []) x).
  rewrite (inter_count new old 0%nat 0 Po Pn St ltac:(unfold cstart; simpl; lia) j Hj x).
  change (cstart old 0) with 0.
  destruct (Nat.eqb_spec j J) as [->|N].
  - rewrite cstart_S by lia.
    destruct ((0 + 0 + cstart new J <=? x) && (x <? 0 + 0 + (cstart new J + nth J new 0))) eqn:E; [reflexivity|lia].
  - destruct ((0 + 0 + cstart new j <=? x) && (x <? 0 + 0 + cstart new (S j))) eqn:E; [|reflexivity].
    destruct (Nat.lt_ge_cases j J) as [Lt|Ge].
    + pose proof (cstart_mono new Pn J (S j) ltac:(lia) ltac:(lia)). lia.
    + pose proof (cstart_mono new Pn j (S J) ltac:(lia) ltac:(lia)). rewrite cstart_S in H by lia. lia.
Qed.
