From Coq Require Import ZArith List Bool Lia.
From KV Require Import Base.Sx Model.Prune Model.LostMap.
Import ListNotations.
Open Scope Z_scope.

Lemma data_lost_is_bit3 : DATA_LOST = 8.
Proof. reflexivity. Qed.
