(* C02: state equivalence modulo the order of _selection, keyword-order irrelevance, idempotence, reset laws. *)
From Coq Require Import ZArith List Bool String Ascii Lia Permutation PeanoNat.
From KV Require Import Base.Sx Base.Str Base.SelSlice Gen.Generated Model.Select Proofs.SelectBaseP Proofs.SelectP.
Import ListNotations.
Open Scope Z_scope.

(* two states are equivalent when they have the same masks, weights / flags selections and the same dictionary
   _selection up to the order of its (distinct) keys *)
Definition dict_equiv (l l' : kwargs) : Prop :=
  NoDup (keys l) /\ NoDup (keys l') /\ forall k, lookup k l = lookup k l'.
Definition st_equiv (s s' : st) : Prop :=
  (forall d, mget d s = mget d s') /\ wk s = wk s' /\ flk s = flk s' /\ dict_equiv (sel s) (sel s').
Definition res_equiv (r r' : res st) : Prop :=
  match r, r' with
  | Ok a, Ok b => st_equiv a b
  | Err e, Err e' => e = e'
  | _, _ => False
  end.

Lemma dict_equiv_perm : forall l l', dict_equiv l l' -> Permutation l l'.
Proof. intros l l' [A [B C]]. apply lookup_equiv_perm; assumption. Qed.

Lemma perm_dict_equiv : forall l l', Permutation l l' -> NoDup (keys l) -> dict_equiv l l'.
Proof.
  intros l l' P N. split; [exact N|]. split.
  - eapply Permutation_NoDup; [apply perm_keys; eassumption | assumption].
  - apply perm_lookup; assumption.
Qed.

Lemma dict_equiv_refl : forall l, NoDup (keys l) -> dict_equiv l l.
Proof. intros l N. repeat split; auto. Qed.

Lemma st_equiv_refl : forall s, NoDup (keys (sel s)) -> st_equiv s s.
Proof. intros s N. repeat split; auto. Qed.

Lemma dict_equiv_nil : forall l l', dict_equiv l l' -> (l = [] <-> l' = []).
Proof.
  intros l l' E. apply dict_equiv_perm in E. split; intro; subst.
  - apply Permutation_nil. exact E.
  - apply Permutation_nil. apply Permutation_sym. exact E.
Qed.

Lemma auto_reset_ext : forall a b, (forall g, hits a g = hits b g) -> auto_reset a = auto_reset b.
Proof. intros a b H. unfold auto_reset, sel_auto_table. cbn [fold_left fst snd]. rewrite !H. reflexivity. Qed.

Lemma kw3_equiv : forall kw kw', dict_equiv kw kw' -> dict_equiv (kw3_of kw) (kw3_of kw').
Proof.
  intros kw kw' [A [B C]]. split; [apply NoDup_kw3; exact A|]. split; [apply NoDup_kw3; exact B|].
  intro k. rewrite !lookup_kw3, !C. reflexivity.
Qed.

Lemma hits_equiv : forall a b g, dict_equiv a b -> hits a g = hits b g.
Proof. intros a b g E. unfold hits. apply existsb_perm. apply dict_equiv_perm. exact E. Qed.

Lemma reset_of_equiv : forall kw kw', dict_equiv kw kw' -> reset_of kw = reset_of kw'.
Proof.
  intros kw kw' E. pose proof (dict_equiv_nil _ _ E) as Hn.
  assert (HA : auto_reset (kw3_of kw) = auto_reset (kw3_of kw')).
  { apply auto_reset_ext. intro g. apply hits_equiv. apply kw3_equiv. exact E. }
  destruct E as [A [B C]]. unfold reset_of.
  destruct kw as [|p kw]; destruct kw' as [|p' kw'].
  - reflexivity.
  - destruct Hn as [Hn _]. discriminate (Hn eq_refl).
  - destruct Hn as [_ Hn]. discriminate (Hn eq_refl).
  - rewrite C, HA. reflexivity.
Qed.

Lemma precheck_equiv : forall kw kw', dict_equiv kw kw' -> precheck kw = precheck kw'.
Proof.
  intros kw kw' E. pose proof (dict_equiv_perm _ _ E) as P. destruct E as [A [B C]].
  unfold precheck, reset_wellformed. rewrite !C. rewrite (existsb_perm _ _ _ _ P). reflexivity.
Qed.

Lemma sel_of_equiv : forall s s' kw kw', dict_equiv (sel s) (sel s') -> dict_equiv kw kw' ->
  dict_equiv (sel_of s kw) (sel_of s' kw').
Proof.
  intros s s' kw kw' [A [B C]] E. split; [apply NoDup_sel_of; exact A|]. split; [apply NoDup_sel_of; exact B|].
  intro k. pose proof (kw3_equiv _ _ E) as [_ [_ K3]]. pose proof (reset_of_equiv _ _ E) as HR.
  destruct E as [Ak [Bk Ck]].
  rewrite !lookup_sel_of by assumption. rewrite K3, HR, C. reflexivity.
Qed.

Lemma all_ok_equiv : forall o l l', dict_equiv l l' -> all_ok o l = all_ok o l'.
Proof. intros. unfold all_ok. apply forallb_perm. apply dict_equiv_perm. assumption. Qed.

Lemma wk_select_fn : forall o s kw,
  wk (select_fn o s kw) = lastw "weights" (sel_of s kw) (wk s) /\
  flk (select_fn o s kw) = lastw "flags" (sel_of s kw) (flk s).
Proof. intros. split; reflexivity. Qed.

Lemma select_fn_equiv : forall o s s' kw kw', wf_st o s -> st_equiv s s' -> dict_equiv kw kw' ->
  st_equiv (select_fn o s kw) (select_fn o s' kw').
Proof.
  intros o s s' kw kw' W [M [Hw [Hf D]]] E.
  pose proof (sel_of_equiv s s' kw kw' D E) as L. pose proof (dict_equiv_perm _ _ L) as P.
  pose proof (reset_of_equiv _ _ E) as HR.
  assert (W' : wf_st o s') by (intro d; rewrite <- M; apply W).
  split; [|split; [|split]].
  - intro d. rewrite !mget_select_fn.
    assert (Hb : base o s' kw' d = base o s kw d) by (unfold base, R; rewrite HR, M; reflexivity).
    rewrite Hb. apply mask_ext.
    + rewrite !(length_fold_mand _ _ (dimlen o d)); auto using base_len; intros m H; eapply dmasks_len; eauto.
    + intro i. rewrite !nth_fold_mand, !forallb_dmasks. f_equal. apply forallb_perm. exact P.
  - destruct L as [A [B C]]. rewrite (proj1 (wk_select_fn o s kw)), (proj1 (wk_select_fn o s' kw')).
    rewrite !lastw_lookup by assumption. rewrite C, Hw. reflexivity.
  - destruct L as [A [B C]]. rewrite (proj2 (wk_select_fn o s kw)), (proj2 (wk_select_fn o s' kw')).
    rewrite !lastw_lookup by assumption. rewrite C, Hf. reflexivity.
  - rewrite !sel_select_fn. exact L.
Qed.

(* equivalent states and equivalent keyword dictionaries give equivalent results (same exception or
   equivalent states) *)
Lemma select_equiv : forall o s s' kw kw', wf_st o s -> st_equiv s s' -> dict_equiv kw kw' ->
  res_equiv (select o s kw) (select o s' kw').
Proof.
  intros o s s' kw kw' W S E. rewrite !select_closed. rewrite <- (precheck_equiv _ _ E).
  destruct (precheck kw); [reflexivity|].
  assert (L : dict_equiv (sel_of s kw) (sel_of s' kw')) by (apply sel_of_equiv; [apply S | exact E]).
  rewrite <- (all_ok_equiv o _ _ L). destruct (all_ok o (sel_of s kw)); [|reflexivity].
  simpl. apply select_fn_equiv; assumption.
Qed.

(* a history: calls applied in sequence, stopping at the first exception *)
Fixpoint run (o : obs) (s : st) (calls : list kwargs) : res st :=
  match calls with
  | [] => Ok s
  | c :: rest => match select o s c with Ok s' => run o s' rest | Err e => Err e end
  end.

Lemma wf_select : forall o s kw s', wf_st o s -> select o s kw = Ok s' -> wf_st o s'.
Proof.
  intros o s kw s' W H. rewrite select_closed in H. destruct (precheck kw); [discriminate|].
  destruct (all_ok o (sel_of s kw)); [|discriminate]. inversion H. apply wf_select_fn. exact W.
Qed.

Lemma run_equiv : forall o calls s s', wf_st o s -> st_equiv s s' -> Forall (fun c => NoDup (keys c)) calls ->
  res_equiv (run o s calls) (run o s' calls).
Proof.
  induction calls as [|c rest IH]; intros s s' W S F; simpl.
  - exact S.
  - inversion F as [|? ? Nc F']. subst.
    pose proof (select_equiv o s s' c c W S (dict_equiv_refl c Nc)) as H.
    destruct (select o s c) eqn:A; destruct (select o s' c) eqn:B; simpl in H; try contradiction.
    + apply IH; auto. eapply wf_select; eauto.
    + exact H.
Qed.

(* keyword order is irrelevant: now and after any common suffix of calls *)
Lemma kw_order : forall o s kw kw' rest, wf_st o s -> NoDup (keys (sel s)) ->
  Permutation kw kw' -> NoDup (keys kw) -> Forall (fun c => NoDup (keys c)) rest ->
  res_equiv (run o s (kw :: rest)) (run o s (kw' :: rest)).
Proof.
  intros o s kw kw' rest W N P Nk F. simpl.
  pose proof (select_equiv o s s kw kw' W (st_equiv_refl s N) (perm_dict_equiv _ _ P Nk)) as H.
  destruct (select o s kw) eqn:A; destruct (select o s kw') eqn:B; simpl in H; try contradiction.
  - apply run_equiv; auto. eapply wf_select; eauto.
  - exact H.
Qed.

(* ---------------------------------------------------------------- idempotence *)
Lemma idempotent_fn : forall o s kw, wf_st o s -> NoDup (keys (sel s)) -> NoDup (keys kw) ->
  st_equiv (select_fn o (select_fn o s kw) kw) (select_fn o s kw)
  /\ dict_equiv (sel_of (select_fn o s kw) kw) (sel_of s kw).
Proof.
  intros o s kw W N Nk.
  set (s1 := select_fn o s kw).
  assert (L : dict_equiv (sel_of s1 kw) (sel_of s kw)).
  { split; [apply NoDup_sel_of; unfold s1; rewrite sel_select_fn; apply NoDup_sel_of; exact N|].
    split; [apply NoDup_sel_of; exact N|].
    intro k. rewrite (lookup_sel_of s1) by exact Nk. unfold s1. rewrite sel_select_fn.
    rewrite !lookup_sel_of by exact Nk.
    destruct (lookup k (kw3_of kw)); auto. destruct (negb (popped (reset_of kw) k)); reflexivity. }
  split; [|exact L].
  pose proof (dict_equiv_perm _ _ L) as P.
  assert (W1 : wf_st o s1) by (apply wf_select_fn; exact W).
  split; [|split; [|split]].
  - intro d. apply mask_ext.
    + rewrite (wf_select_fn o s1 kw W1 d). symmetry. apply W1.
    + intro i. rewrite nth_select_fn. rewrite (forallb_perm _ _ _ _ P).
      unfold base. destruct (R kw d) eqn:E.
      * unfold s1. rewrite nth_select_fn. unfold base. rewrite E. reflexivity.
      * unfold s1. rewrite !nth_select_fn.
        destruct (nth i (base o s kw d) false); destruct (forallb (cbit o d i) (sel_of s kw)); reflexivity.
  - destruct L as [A [B C]].
    assert (H1 : wk s1 = match lookup "weights" (sel_of s kw) with Some v => v | None => wk s end)
      by (unfold s1; rewrite (proj1 (wk_select_fn o s kw)); apply lastw_lookup; assumption).
    rewrite (proj1 (wk_select_fn o s1 kw)), lastw_lookup by assumption. rewrite C, H1.
    destruct (lookup "weights" (sel_of s kw)); reflexivity.
  - destruct L as [A [B C]].
    assert (H1 : flk s1 = match lookup "flags" (sel_of s kw) with Some v => v | None => flk s end)
      by (unfold s1; rewrite (proj2 (wk_select_fn o s kw)); apply lastw_lookup; assumption).
    rewrite (proj2 (wk_select_fn o s1 kw)), lastw_lookup by assumption. rewrite C, H1.
    destruct (lookup "flags" (sel_of s kw)); reflexivity.
  - rewrite !sel_select_fn. exact L.
Qed.

Lemma idempotent : forall o s kw s1, wf_st o s -> NoDup (keys (sel s)) -> NoDup (keys kw) ->
  select o s kw = Ok s1 -> res_equiv (select o s1 kw) (Ok s1).
Proof.
  intros o s kw s1 W N Nk H. rewrite select_closed in H.
  destruct (precheck kw) eqn:P; [discriminate|].
  destruct (all_ok o (sel_of s kw)) eqn:A; [|discriminate]. inversion H. subst s1.
  rewrite select_closed, P.
  destruct (idempotent_fn o s kw W N Nk) as [E L].
  rewrite (all_ok_equiv o _ _ L), A. exact E.
Qed.

(* ---------------------------------------------------------------- reset laws *)
Definition all_ones (o : obs) : masks :=
  {| m_t := ones (dimlen o DT); m_f := ones (dimlen o DF); m_b := ones (dimlen o DB) |}.

Lemma select_dim : forall o s kw s' d, Inv o s -> NoDup (keys kw) -> select o s kw = Ok s' ->
  mget d s' = spec_dim o d (mget d s) kw.
Proof.
  intros o s kw s' d HI Nk H. rewrite select_closed in H.
  destruct (precheck kw) eqn:P; [discriminate|].
  destruct (all_ok o (sel_of s kw)); [|discriminate]. inversion H. subst.
  apply refine_dim; assumption.
Qed.

(* select() without arguments succeeds and clears everything *)
Lemma noarg_clears : forall o s, Inv o s -> exists s', select o s [] = Ok s' /\ masks_of s' = all_ones o.
Proof.
  intros o s HI. pose proof (refines_inv o s [] HI (NoDup_nil _)) as H.
  change (spec_select o (masks_of s) []) with (Ok (all_ones o)) in H.
  destruct (select o s []) as [s'|e]; simpl in H; [|discriminate].
  exists s'. split; [reflexivity | congruence].
Qed.

Lemma spec_reset_explicit : forall kw r d, lookup "reset" kw = Some (VStr r) -> r <> "auto"%string ->
  spec_reset kw d = has_char (doc_letter d) r.
Proof.
  intros kw r d H Hr. unfold spec_reset. destruct kw as [|p kw]; [discriminate|].
  rewrite H. destruct (String.eqb_spec r "auto"); [contradiction | reflexivity].
Qed.

Lemma spec_reset_auto : forall kw d, kw <> [] ->
  (lookup "reset" kw = None \/ lookup "reset" kw = Some (VStr "auto")) ->
  spec_reset kw d = hits kw (doc_group d).
Proof.
  intros kw d Hn H. unfold spec_reset. destruct kw as [|p kw]; [contradiction|].
  destruct H as [H|H]; rewrite H; reflexivity.
Qed.

Lemma no_hits_no_masks : forall o d kw, hits kw (doc_group d) = false -> spec_crit_masks o d kw = [].
Proof.
  intros o d kw H. unfold spec_crit_masks. unfold hits in H.
  induction kw as [|p kw IH]; simpl in *; auto.
  apply orb_false_iff in H. destruct H as [H1 H2]. rewrite H1. simpl. apply IH. exact H2.
Qed.

(* a dimension that is neither reset nor mentioned keeps its mask *)
Lemma untouched_dim : forall o d old kw, spec_reset kw d = false -> hits kw (doc_group d) = false ->
  spec_dim o d old kw = old.
Proof. intros o d old kw H1 H2. unfold spec_dim. rewrite H1, (no_hits_no_masks o d kw H2). reflexivity. Qed.

(* flags= / weights= alone never change the masks; they set the corresponding selection *)
Lemma flags_weights_only : forall o s kw, Inv o s -> NoDup (keys kw) -> kw <> [] ->
  (forall k, In k (keys kw) -> k = "flags"%string \/ k = "weights"%string) ->
  exists s', select o s kw = Ok s' /\ masks_of s' = masks_of s
             /\ (forall v, In ("flags"%string, v) kw -> flk s' = v)
             /\ (forall v, In ("weights"%string, v) kw -> wk s' = v)
             /\ (lookup "flags" kw = None -> flk s' = flk s) /\ (lookup "weights" kw = None -> wk s' = wk s).
Proof.
  intros o s kw HI Nk Hne Hk.
  assert (Hnot : forall k, k <> "flags"%string -> k <> "weights"%string -> lookup k kw = None).
  { intros k A B. apply lookup_none_notin. intro H. destruct (Hk k H); congruence. }
  assert (Hh : forall d, hits kw (doc_group d) = false).
  { intro d. destruct (hits kw (doc_group d)) eqn:E; auto. apply hits_iff in E. destruct E as [k [H1 H2]].
    destruct (Hk k H1); subst; destruct d; discriminate. }
  assert (Hp : precheck kw = None).
  { unfold precheck, reset_wellformed. rewrite !Hnot by discriminate.
    assert (E : existsb (fun p => negb (mem_string (fst p) doc_valid)) kw = false).
    { destruct (existsb _ kw) eqn:E; auto. apply existsb_exists in E. destruct E as [p [H1 H2]].
      assert (In (fst p) (keys kw)) by (apply in_map; exact H1). destruct (Hk _ H) as [K|K]; rewrite K in H2; discriminate. }
    rewrite E. reflexivity. }
  assert (Ha : all_ok o kw = true).
  { unfold all_ok. apply forallb_forall. intros p H.
    assert (In (fst p) (keys kw)) by (apply in_map; exact H). destruct (Hk _ H0) as [K|K]; rewrite K; reflexivity. }
  rewrite select_closed, Hp, (all_ok_sel_of o s kw HI Nk), Ha.
  exists (select_fn o s kw). split; [reflexivity|].
  assert (Hl : forall k, k = "flags"%string \/ k = "weights"%string ->
               lookup k (sel_of s kw) = match lookup k kw with Some v => Some v | None => lookup k (sel s) end).
  { intros k Hkk. rewrite lookup_sel_of, lookup_kw3 by exact Nk.
    assert (Hpop : popped (reset_of kw) k = false) by (destruct Hkk; subst; unfold popped; simpl; rewrite !andb_false_r; reflexivity).
    rewrite Hpop. destruct Hkk; subst; simpl; reflexivity. }
  pose proof (inv_nodup _ _ HI) as Ns. pose proof (NoDup_sel_of s kw Ns) as Nl.
  split; [|split; [|split; [|split]]].
  - apply masks_eq. intro d.
    assert (E : forall x, mk d (masks_of x) = mget d x) by (intro x; destruct d; reflexivity).
    rewrite !E. rewrite (refine_dim o s kw d HI Nk Hp). apply untouched_dim; [|apply Hh].
    rewrite spec_reset_auto; [apply Hh | exact Hne | left; apply Hnot; discriminate].
  - intros v H. rewrite (proj2 (wk_select_fn o s kw)), lastw_lookup by exact Nl.
    rewrite Hl by (left; reflexivity). rewrite (in_lookup _ _ _ Nk H). reflexivity.
  - intros v H. rewrite (proj1 (wk_select_fn o s kw)), lastw_lookup by exact Nl.
    rewrite Hl by (right; reflexivity). rewrite (in_lookup _ _ _ Nk H). reflexivity.
  - intro H. rewrite (proj2 (wk_select_fn o s kw)), lastw_lookup by exact Nl.
    rewrite Hl by (left; reflexivity). rewrite H.
    destruct (lookup "flags" (sel s)) eqn:E; auto. symmetry. apply (inv_flk _ _ HI). exact E.
  - intro H. rewrite (proj1 (wk_select_fn o s kw)), lastw_lookup by exact Nl.
    rewrite Hl by (right; reflexivity). rewrite H.
    destruct (lookup "weights" (sel s)) eqn:E; auto. symmetry. apply (inv_wk _ _ HI). exact E.
Qed.

(* a successful call that does not mention flags= (weights=) keeps the flags (weights) selection *)
Lemma flags_kept : forall o s kw s', Inv o s -> NoDup (keys kw) -> select o s kw = Ok s' ->
  (lookup "flags" kw = None -> flk s' = flk s) /\ (lookup "weights" kw = None -> wk s' = wk s).
Proof.
  intros o s kw s' HI Nk H. rewrite select_closed in H.
  destruct (precheck kw); [discriminate|]. destruct (all_ok o (sel_of s kw)); [|discriminate].
  inversion H. subst s'. pose proof (NoDup_sel_of s kw (inv_nodup _ _ HI)) as Nl.
  split; intro Hn.
  - rewrite (proj2 (wk_select_fn o s kw)), lastw_lookup by exact Nl.
    rewrite lookup_sel_of, lookup_kw3 by exact Nk. simpl. rewrite Hn.
    assert (Hpop : popped (reset_of kw) "flags" = false) by (unfold popped; simpl; rewrite !andb_false_r; reflexivity).
    rewrite Hpop. simpl. destruct (lookup "flags" (sel s)) eqn:E; auto. symmetry. apply (inv_flk _ _ HI). exact E.
  - rewrite (proj1 (wk_select_fn o s kw)), lastw_lookup by exact Nl.
    rewrite lookup_sel_of, lookup_kw3 by exact Nk. simpl. rewrite Hn.
    assert (Hpop : popped (reset_of kw) "weights" = false) by (unfold popped; simpl; rewrite !andb_false_r; reflexivity).
    rewrite Hpop. simpl. destruct (lookup "weights" (sel s)) eqn:E; auto. symmetry. apply (inv_wk _ _ HI). exact E.
Qed.

(* strict keyword checking *)
Lemma strict_unknown_rejected : forall o s kw k,
  (lookup "strict" kw = None \/ exists v, lookup "strict" kw = Some v /\ truthy v = true) ->
  In k (keys kw) -> mem_string k doc_valid = false -> select o s kw = Err ETypeError.
Proof.
  intros o s kw k Hs Hk Hu. rewrite select_closed. unfold precheck.
  assert (E : existsb (fun p => negb (mem_string (fst p) doc_valid)) kw = true).
  { apply existsb_exists. unfold keys in Hk. apply in_map_iff in Hk. destruct Hk as [p [E H]].
    exists p. split; auto. rewrite E, Hu. reflexivity. }
  rewrite E. destruct Hs as [Hs|[v [Hs Ht]]]; rewrite Hs; [|rewrite Ht]; reflexivity.
Qed.

Lemma nonstrict_never_typeerror : forall o s kw v, lookup "strict" kw = Some v -> truthy v = false ->
  select o s kw <> Err ETypeError.
Proof.
  intros o s kw v Hs Ht. rewrite select_closed. unfold precheck. rewrite Hs, Ht. simpl.
  destruct (negb _); [discriminate|]. destruct (all_ok _ _); discriminate.
Qed.

Lemma unknown_kw_no_mask : forall o k v, mem_string k doc_valid = false -> crit o k v = CNone.
Proof.
  intros o k v H. apply crit_none_of_key_dim. unfold key_dim.
  unfold doc_valid, mem_string in H. rewrite !existsb_app in H.
  apply orb_false_iff in H. destruct H as [A H]. apply orb_false_iff in H. destruct H as [B H].
  apply orb_false_iff in H. destruct H as [C _].
  unfold mem_string. rewrite A, B, C. reflexivity.
Qed.
