(* Lemmas about Model/Prune.v: _prune_chunks keeps boundaries, selects the same data and is minimal;
   the pruned-then-sliced axis addresses exactly the stored chunk / element the window element belongs to. *)
From Coq Require Import ZArith List Bool Lia.
From KV Require Import Model.Prune.
Import ListNotations.
Open Scope Z_scope.

Definition allpos (l : list Z) : Prop := Forall (fun c => 0 < c) l.

Lemma zsum_app a b : zsum (a ++ b) = zsum a + zsum b.
Proof. induction a; simpl; lia. Qed.

Lemma zsum_rev a : zsum (rev a) = zsum a.
Proof. induction a; simpl; [reflexivity|]. rewrite zsum_app. simpl. lia. Qed.

Lemma zsum_nonneg l : allpos l -> 0 <= zsum l.
Proof. induction 1; simpl; lia. Qed.

Lemma zsum_pos l : allpos l -> l <> [] -> 0 < zsum l.
Proof. intros H N. destruct l; [congruence|]. inversion H; subst. simpl. pose proof (zsum_nonneg _ H3). lia. Qed.

Lemma allpos_app a b : allpos (a ++ b) <-> allpos a /\ allpos b.
Proof. apply Forall_app. Qed.

(* ---------------- the two loops ---------------- *)
Lemma more_true t : more t = true <-> t <> [].
Proof. destruct t; simpl; split; congruence. Qed.

Lemma prune_front_spec : forall cs start stop shape off cs1 start1 stop1 shape1 off1,
  prune_front cs start stop shape off = (cs1, start1, stop1, shape1, off1) ->
  exists pre, cs = pre ++ cs1 /\ off1 = off + zsum pre /\ start1 = start - zsum pre /\
              stop1 = stop - zsum pre /\ shape1 = shape - zsum pre /\
              (0 <= start -> 0 <= start1) /\ (cs <> [] -> cs1 <> []) /\
              ((2 <= length cs1)%nat -> start1 < hd 0 cs1).
Proof.
  induction cs as [|c t IH]; intros start stop shape off cs1 start1 stop1 shape1 off1 H; simpl in H.
  - inversion H; subst. exists []. simpl. repeat split; try lia; auto.
  - destruct (more t) eqn:M; cbn [andb] in H.
    + destruct (c <=? start) eqn:E.
      * apply IH in H. destruct H as (pre & -> & -> & -> & -> & -> & Hs & Hn & Hh).
        exists (c :: pre). simpl. repeat split; try lia.
        -- intros _. apply Hn. intro X. apply app_eq_nil in X. destruct X as [-> ->]. simpl in M. discriminate.
      * inversion H; subst. exists []. simpl. repeat split; try lia; congruence.
    + inversion H; subst. exists []. destruct t; [|discriminate]. simpl. repeat split; try lia; congruence.
Qed.

Lemma prune_back_spec : forall rcs stop shape rcs2 shape2,
  prune_back rcs stop shape = (rcs2, shape2) ->
  exists post, rcs = post ++ rcs2 /\ shape2 = shape - zsum post /\
               (stop <= shape -> stop <= shape2) /\ (rcs <> [] -> rcs2 <> []) /\
               ((2 <= length rcs2)%nat -> shape2 - stop < hd 0 rcs2).
Proof.
  induction rcs as [|c t IH]; intros stop shape rcs2 shape2 H; simpl in H.
  - inversion H; subst. exists []. simpl. repeat split; try lia; auto.
  - destruct (more t) eqn:M; cbn [andb] in H.
    + destruct (c <=? shape - stop) eqn:E.
      * apply IH in H. destruct H as (post & -> & -> & Hs & Hn & Hh).
        exists (c :: post). simpl. repeat split; try lia.
        -- intros _. apply Hn. intro X. apply app_eq_nil in X. destruct X as [-> ->]. discriminate.
      * inversion H; subst. exists []. simpl. repeat split; try lia; congruence.
    + inversion H; subst. exists []. destruct t; [|discriminate]. simpl. repeat split; try lia; congruence.
Qed.

Lemma prune_core_spec cs start stop cs2 start1 stop1 off :
  prune_core cs start stop = (cs2, start1, stop1, off) ->
  exists pre post, cs = pre ++ cs2 ++ post /\ off = zsum pre /\ start1 = start - zsum pre /\ stop1 = stop - zsum pre /\
     (0 <= start -> 0 <= start1) /\ (stop <= zsum cs -> stop1 <= zsum cs2) /\ (cs <> [] -> cs2 <> []) /\
     ((2 <= length (cs2 ++ post))%nat -> start1 < hd 0 (cs2 ++ post)) /\
     ((2 <= length cs2)%nat -> zsum cs2 - last cs2 0 < stop1).
Proof.
  unfold prune_core.
  destruct (prune_front cs start stop (zsum cs) 0) as [[[[cs1 s1] e1] sh1] o1] eqn:F.
  destruct (prune_back (rev cs1) e1 sh1) as [rcs2 sh2] eqn:B.
  intro H. inversion H; subst. clear H.
  apply prune_front_spec in F. destruct F as (pre & -> & -> & -> & -> & -> & Hs & Hn & Hh).
  apply prune_back_spec in B. destruct B as (post & Hrev & -> & He & Hn2 & Hl).
  assert (Hcs1 : cs1 = rev rcs2 ++ rev post).
  { rewrite <- (rev_involutive cs1), Hrev, rev_app_distr. reflexivity. }
  exists pre, (rev post). subst cs1.
  rewrite !zsum_app, !zsum_rev in *.
  repeat split; try lia.
  - intros N. assert (N1 : rev rcs2 ++ rev post <> []).
    { apply Hn. exact N. }
    intro X. apply (f_equal (@rev Z)) in X. rewrite rev_involutive in X. simpl in X.
    apply Hn2; [|exact X]. rewrite Hrev. intro Y. apply N1.
    apply app_eq_nil in Y. destruct Y as [-> ->]. reflexivity.
  - rewrite rev_length. intro L. specialize (Hl L).
    destruct rcs2 as [|c r]; [simpl in L; lia|]. simpl rev. rewrite last_last. cbn [hd] in Hl. change (zsum (c :: r)) with (c + zsum r) in *. lia.
Qed.

(* result is a contiguous sub-list of the original chunk list; the offset is the start of the first kept chunk *)
Lemma prune_keeps_boundaries cs start stop :
  let '(cs2, _, _, off) := prune_core cs start stop in
  exists pre post, cs = pre ++ cs2 ++ post /\ off = zsum pre.
Proof.
  destruct (prune_core cs start stop) as [[[cs2 s1] e1] off] eqn:E.
  apply prune_core_spec in E. destruct E as (pre & post & H1 & H2 & _). eauto.
Qed.

(* the adjusted slice lies inside the pruned array and, shifted by the offset, is the requested slice *)
Lemma prune_selects_same_data cs start stop :
  0 <= start -> start <= stop -> stop <= zsum cs ->
  let '(cs2, start1, stop1, off) := prune_core cs start stop in
  off + start1 = start /\ off + stop1 = stop /\ 0 <= start1 /\ start1 <= stop1 /\ stop1 <= zsum cs2.
Proof.
  intros H0 H1 H2.
  destruct (prune_core cs start stop) as [[[cs2 s1] e1] off] eqn:E.
  apply prune_core_spec in E. destruct E as (pre & post & -> & -> & -> & -> & Ha & Hb & _).
  repeat split; lia.
Qed.

(* at least one existing chunk is always kept (so that no zero-size chunk is ever requested from the store) *)
Lemma prune_keeps_one cs start stop : cs <> [] -> let '(cs2, _, _, _) := prune_core cs start stop in cs2 <> [].
Proof.
  intro N. destruct (prune_core cs start stop) as [[[cs2 s1] e1] off] eqn:E.
  apply prune_core_spec in E. destruct E as (pre & post & _ & _ & _ & _ & _ & _ & Hn & _). auto.
Qed.

(* no kept chunk could have been dropped: the first and the last kept chunk both contain selected elements *)
Lemma prune_minimal cs start stop :
  0 <= start -> start < stop -> stop <= zsum cs ->
  let '(cs2, start1, stop1, _) := prune_core cs start stop in
  cs2 <> [] /\ start1 < hd 0 cs2 /\ zsum cs2 - last cs2 0 < stop1.
Proof.
  intros H0 H1 H2.
  destruct (prune_core cs start stop) as [[[cs2 s1] e1] off] eqn:E.
  apply prune_core_spec in E. destruct E as (pre & post & Hcs & -> & -> & -> & Ha & Hb & Hn & Hh & Hl).
  assert (N : cs2 <> []).
  { apply Hn. intro X. rewrite X in *. simpl in *. lia. }
  split; [exact N|]. subst cs. rewrite !zsum_app in *. split.
  - destruct cs2 as [|c r]; [congruence|]. simpl hd. simpl in Hh.
    destruct (r ++ post) as [|c' r'] eqn:R.
    + apply app_eq_nil in R. destruct R as [-> ->]. simpl in *. lia.
    + apply Hh. simpl. lia.
  - destruct cs2 as [|c r]; [congruence|]. destruct r as [|c' r].
    + simpl. lia.
    + apply Hl. simpl. lia.
Qed.

(* ---------------- loc / cstart ---------------- *)
Lemma loc_shift : forall l i x, loc l i x = (i + fst (loc l 0 x), snd (loc l 0 x))%nat.
Proof.
  induction l as [|c t IH]; intros i x; simpl.
  - f_equal. lia.
  - destruct (x <? c); simpl.
    + f_equal. lia.
    + rewrite (IH (S i)), (IH 1%nat). simpl. f_equal. lia.
Qed.

Lemma cstart_S l i : (i < length l)%nat -> cstart l (S i) = cstart l i + nth i l 0.
Proof.
  unfold cstart. revert i. induction l as [|c t IH]; intros i H; simpl in H; [lia|].
  destruct i as [|i].
  - simpl. lia.
  - change (c + zsum (firstn (S i) t) = c + zsum (firstn i t) + nth i t 0).
    rewrite (IH i) by lia. lia.
Qed.

Lemma loc_spec : forall l x, allpos l -> 0 <= x < zsum l ->
  let '(i, q) := loc l 0 x in (i < length l)%nat /\ cstart l i + q = x /\ 0 <= q < nth i l 0.
Proof.
  induction l as [|c t IH]; intros x P H; simpl in *; [lia|].
  inversion P; subst.
  destruct (x <? c) eqn:E.
  - unfold cstart. simpl. repeat split; lia.
  - rewrite loc_shift. specialize (IH (x - c) H3).
    destruct (loc t 0 (x - c)) as [i q]. simpl.
    destruct IH as (A & B & C); [lia|].
    unfold cstart in *. simpl. repeat split; lia.
Qed.

Lemma allpos_firstn l i : allpos l -> allpos (firstn i l).
Proof.
  intro P. apply Forall_forall. intros y Hy. unfold allpos in P. rewrite Forall_forall in P. apply P.
  rewrite <- (firstn_skipn i l). apply in_or_app. left. exact Hy.
Qed.

Lemma cstart_nonneg l i : allpos l -> 0 <= cstart l i.
Proof. intro P. apply zsum_nonneg, allpos_firstn, P. Qed.

Lemma cstart_cons c t i : cstart (c :: t) (S i) = c + cstart t i.
Proof. reflexivity. Qed.

Lemma loc_unique : forall l x i q, allpos l -> (i < length l)%nat -> 0 <= q < nth i l 0 -> cstart l i + q = x ->
  loc l 0 x = (i, q).
Proof.
  induction l as [|c t IH]; intros x i q P Hi Hq Hx; [simpl in Hi; lia|].
  inversion P; subst.
  destruct i as [|i].
  - simpl in Hq. change (cstart (c :: t) 0) with 0. cbn [loc].
    destruct (0 + q <? c) eqn:E; [f_equal; lia|lia].
  - rewrite cstart_cons. pose proof (cstart_nonneg t i H2). simpl in Hq, Hi. cbn [loc].
    replace (c + cstart t i + q <? c) with false by (symmetry; apply Z.ltb_ge; lia).
    rewrite loc_shift. rewrite (IH (c + cstart t i + q - c) i q); auto; try lia.
Qed.

(* ---------------- slicing ---------------- *)
Lemma slice_spec : forall cs k start stop x, allpos cs -> stop <= zsum cs -> 0 <= x < stop - Z.max 0 start ->
  loc cs k (Z.max 0 start + x) =
  (fst (fst (nth (fst (loc (map blk_size (slice_axis cs k start stop)) 0 x)) (slice_axis cs k start stop) dflt_blk)),
   snd (fst (nth (fst (loc (map blk_size (slice_axis cs k start stop)) 0 x)) (slice_axis cs k start stop) dflt_blk))
   + snd (loc (map blk_size (slice_axis cs k start stop)) 0 x)).
Proof.
  induction cs as [|c t IH]; intros k start stop x P Hs Hx; [simpl in Hs; lia|].
  inversion P; subst. simpl in Hs. cbn [slice_axis].
  destruct (Z.max 0 start <? Z.min c stop) eqn:E.
  - cbn [app map blk_size snd loc].
    destruct (x <? Z.min c stop - Z.max 0 start) eqn:E2.
    + cbn [fst snd nth]. destruct (Z.max 0 start + x <? c) eqn:E3; [reflexivity|lia].
    + rewrite (loc_shift _ 1%nat). cbn [fst snd]. cbn [Nat.add nth].
      destruct (Z.max 0 start + x <? c) eqn:E3; [lia|].
      specialize (IH (S k) (start - c) (stop - c) (x - (Z.min c stop - Z.max 0 start)) H2).
      replace (Z.max 0 (start - c)) with 0 in IH by lia.
      rewrite <- IH by lia. f_equal. lia.
  - cbn [app]. cbn [loc].
    destruct (Z.max 0 start + x <? c) eqn:E3; [lia|].
    specialize (IH (S k) (start - c) (stop - c) x H2).
    rewrite <- IH by lia. f_equal. lia.
Qed.

Lemma slice_sizes : forall cs k start stop, allpos cs -> stop <= zsum cs ->
  allpos (map blk_size (slice_axis cs k start stop)) /\
  zsum (map blk_size (slice_axis cs k start stop)) = Z.max 0 (stop - Z.max 0 start).
Proof.
  induction cs as [|c t IH]; intros k start stop P Hs.
  - simpl in *. split; [constructor|lia].
  - inversion P; subst. simpl in Hs. cbn [slice_axis].
    destruct (IH (S k) (start - c) (stop - c) H2) as [A B]; [lia|].
    destruct (Z.max 0 start <? Z.min c stop) eqn:E; cbn [app map blk_size snd].
    + split; [constructor; [lia|exact A]|].
      change (Z.min c stop - Z.max 0 start + zsum (map blk_size (slice_axis t (S k) (start - c) (stop - c)))
              = Z.max 0 (stop - Z.max 0 start)).
      rewrite B. lia.
    + split; [exact A|]. rewrite B. lia.
Qed.

Lemma slice_loc_in_range : forall cs k start stop x, allpos cs -> stop <= zsum cs -> 0 <= x < stop - Z.max 0 start ->
  (fst (loc (map blk_size (slice_axis cs k start stop)) 0 x) < length (slice_axis cs k start stop))%nat.
Proof.
  intros cs k start stop x P Hs Hx.
  destruct (slice_sizes cs k start stop P Hs) as [A B].
  pose proof (loc_spec (map blk_size (slice_axis cs k start stop)) x A) as L.
  destruct (loc (map blk_size (slice_axis cs k start stop)) 0 x) as [j q]. simpl.
  destruct L as (L1 & _); [lia|]. rewrite map_length in L1. exact L1.
Qed.

(* ---------------- prune + slice = the right stored chunk and element ---------------- *)
Lemma loc_app_pre : forall pre l i y, allpos pre -> 0 <= y ->
  loc (pre ++ l) i (zsum pre + y) = loc l (i + length pre) y.
Proof.
  induction pre as [|c t IH]; intros l i y P Hy; simpl.
  - f_equal; lia.
  - inversion P; subst. pose proof (zsum_nonneg t H2).
    destruct (c + zsum t + y <? c) eqn:E; [lia|].
    replace (c + zsum t + y - c) with (zsum t + y) by lia.
    rewrite IH by auto. f_equal. lia.
Qed.

Lemma loc_app_post : forall l post i y, allpos l -> 0 <= y < zsum l -> loc (l ++ post) i y = loc l i y.
Proof.
  induction l as [|c t IH]; intros post i y P Hy; simpl in *; [lia|].
  inversion P; subst. destruct (y <? c) eqn:E; [reflexivity|]. apply IH; auto. lia.
Qed.

Lemma cstart_app pre l post i : (i <= length l)%nat ->
  cstart (pre ++ l ++ post) (length pre + i) = zsum pre + cstart l i.
Proof.
  intro H. unfold cstart. rewrite firstn_app_2, zsum_app. f_equal.
  rewrite firstn_app. replace (i - length l)%nat with 0%nat by lia. simpl. rewrite app_nil_r. reflexivity.
Qed.

Lemma axis_spec cs w x : allpos cs -> win_ok cs w -> 0 <= x < wsize cs w ->
  ax_id (mk_axis cs w) (fst (loc (ax_sizes (mk_axis cs w)) 0 x)) = chunk_start cs (wlo w + x) /\
  ax_src (mk_axis cs w) (loc (ax_sizes (mk_axis cs w)) 0 x) = wlo w + x.
Proof.
  intros P W Hx. destruct w as [[lo hi]|]; simpl in W, Hx.
  - unfold mk_axis, prune_axis.
    destruct (prune_core cs lo hi) as [[[cs2 s1] e1] off] eqn:E.
    apply prune_core_spec in E.
    destruct E as (pre & post & Hcs & -> & -> & -> & Ha & Hb & Hn & _).
    assert (N : cs2 <> []).
    { apply Hn. intro X. rewrite X in *. simpl in *. lia. }
    assert (Hm : match cs2 with [] => [0] | _ :: _ => cs2 end = cs2) by (destruct cs2; congruence).
    rewrite Hm. clear Hm.
    assert (P2 : allpos cs2).
    { subst cs. apply allpos_app in P. destruct P as [_ P]. apply allpos_app in P. tauto. }
    assert (Ppre : allpos pre) by (subst cs; apply allpos_app in P; tauto).
    assert (He : hi - zsum pre <= zsum cs2) by (apply Hb; lia).
    assert (Hs : 0 <= lo - zsum pre) by (apply Ha; lia).
    unfold ax_sizes, ax_id, ax_src. cbn [ax_blocks ax_off ax_chunks].
    pose proof (slice_spec cs2 0 (lo - zsum pre) (hi - zsum pre) x P2 He) as S.
    replace (Z.max 0 (lo - zsum pre)) with (lo - zsum pre) in S by lia.
    specialize (S ltac:(lia)).
    pose proof (loc_spec cs2 (lo - zsum pre + x) P2 ltac:(lia)) as LS.
    set (bl := slice_axis cs2 0 (lo - zsum pre) (hi - zsum pre)) in *.
    destruct (loc (map blk_size bl) 0 x) as [j q]. cbn [fst snd] in *.
    destruct (nth j bl dflt_blk) as [[kk lob] sz]. cbn [fst snd] in *.
    rewrite S in LS. destruct LS as (L1 & L2 & L3).
    split; [|simpl; lia].
    unfold chunk_start, wlo. subst cs.
    replace (lo + x) with (zsum pre + (lo - zsum pre + x)) by lia.
    rewrite loc_app_pre by (auto; lia). rewrite loc_app_post by (auto; lia).
    rewrite loc_shift, S. cbn [fst]. rewrite cstart_app by lia. reflexivity.
  - unfold mk_axis, prune_axis. unfold ax_sizes, ax_id, ax_src. cbn [ax_blocks ax_off ax_chunks].
    pose proof (slice_spec cs 0 0 (zsum cs) x P ltac:(lia)) as S.
    replace (Z.max 0 0) with 0 in S by lia. specialize (S ltac:(lia)).
    pose proof (loc_spec cs (0 + x) P ltac:(lia)) as LS.
    set (bl := slice_axis cs 0 0 (zsum cs)) in *.
    destruct (loc (map blk_size bl) 0 x) as [j q]. cbn [fst snd] in *.
    destruct (nth j bl dflt_blk) as [[kk lob] sz]. cbn [fst snd] in *.
    rewrite S in LS. destruct LS as (L1 & L2 & L3).
    unfold chunk_start, wlo. rewrite S. cbn [fst]. split; lia.
Qed.

Lemma axis_sizes cs w : allpos cs -> win_ok cs w ->
  allpos (ax_sizes (mk_axis cs w)) /\ zsum (ax_sizes (mk_axis cs w)) = wsize cs w.
Proof.
  intros P W. destruct w as [[lo hi]|]; simpl in W.
  - unfold mk_axis, prune_axis.
    destruct (prune_core cs lo hi) as [[[cs2 s1] e1] off] eqn:E.
    apply prune_core_spec in E.
    destruct E as (pre & post & Hcs & -> & -> & -> & Ha & Hb & Hn & _).
    assert (N : cs2 <> []).
    { apply Hn. intro X. rewrite X in *. simpl in *. lia. }
    assert (Hm : match cs2 with [] => [0] | _ :: _ => cs2 end = cs2) by (destruct cs2; congruence).
    rewrite Hm. clear Hm.
    assert (P2 : allpos cs2).
    { subst cs. apply allpos_app in P. destruct P as [_ P]. apply allpos_app in P. tauto. }
    unfold ax_sizes. cbn [ax_blocks].
    destruct (slice_sizes cs2 0 (lo - zsum pre) (hi - zsum pre) P2 ltac:(lia)) as [A B].
    split; [exact A|]. rewrite B. simpl. lia.
  - unfold mk_axis, prune_axis, ax_sizes. cbn [ax_blocks].
    destruct (slice_sizes cs 0 0 (zsum cs) P ltac:(lia)) as [A B].
    split; [exact A|]. rewrite B. simpl. pose proof (zsum_nonneg cs P). lia.
Qed.
