(* C15, round 3: the Van Vleck lookup table as constructed by autocorr_lookup_table. *)
From Coq Require Import ZArith QArith Qcanon List Bool Lia Lqa.
From KV Require Import Base.Sx Gen.Generated Model.Interp Proofs.InterpP Model.Weights Proofs.WeightsP Proofs.WeightsNumP
  Model.VanVleckTable.
Import ListNotations.
Local Open Scope Q_scope.

Lemma sinc_cons : forall x0 y0 l,
  strictly_inc ((x0, y0) :: l) = (match l with [] => True | (x1, _) :: _ => x0 < x1 end /\ strictly_inc l).
Proof. reflexivity. Qed.
Lemma nondec_cons : forall x0 y0 l,
  nondec_y ((x0, y0) :: l) = (match l with [] => True | (_, y1) :: _ => y0 <= y1 end /\ nondec_y l).
Proof. reflexivity. Qed.

Lemma sinc_combine : forall xs ys, sincQ xs -> strictly_inc (combine xs ys).
Proof.
  induction xs as [|x0 t IH]; intros ys H; [exact Logic.I|].
  destruct ys as [|y0 ys]; [exact Logic.I|].
  cbn [combine]. rewrite sinc_cons. destruct H as [H0 H1]. split; [| apply IH; exact H1].
  destruct t as [|x1 t']; [exact Logic.I|]. destruct ys as [|y1 ys']; [exact Logic.I|]. exact H0.
Qed.

Lemma nondec_combine : forall xs ys, nondecQ ys -> nondec_y (combine xs ys).
Proof.
  induction xs as [|x0 t IH]; intros ys H; [exact Logic.I|].
  destruct ys as [|y0 ys]; [exact Logic.I|].
  cbn [combine]. rewrite nondec_cons. destruct H as [H0 H1]. split; [| apply IH; exact H1].
  destruct t as [|x1 t']; [exact Logic.I|]. destruct ys as [|y1 ys']; [exact Logic.I|]. exact H0.
Qed.

Lemma sincQ_map : forall f l, 0 < f -> sincQ l -> sincQ (map (Qmult f) l).
Proof.
  intros f l Hf. induction l as [|x0 t IH]; intros H; [exact Logic.I|].
  destruct H as [H0 H1]. cbn [map sincQ]. split; [| apply IH; exact H1].
  destruct t as [|x1 t']; [exact Logic.I|]. cbn [map]. apply Qmult_lt_l; assumption.
Qed.

Lemma nondecQ_map : forall f l, 0 < f -> nondecQ l -> nondecQ (map (Qmult f) l).
Proof.
  intros f l Hf. induction l as [|x0 t IH]; intros H; [exact Logic.I|].
  destruct H as [H0 H1]. cbn [map nondecQ]. split; [| apply IH; exact H1].
  destruct t as [|x1 t']; [exact Logic.I|]. cbn [map]. apply Qmult_le_l; assumption.
Qed.

Lemma sincQ_snoc : forall t x z, sincQ (x :: t) -> last t x < z -> sincQ ((x :: t) ++ [z]).
Proof.
  induction t as [|y t IH]; intros x z H Hl.
  - cbn in *. tauto.
  - rewrite last_cons_default in Hl. destruct H as [H0 H1].
    change (sincQ (x :: (y :: t) ++ [z])). cbn [sincQ app]. split; [exact H0|].
    apply (IH y z H1 Hl).
Qed.

Lemma nondecQ_snoc_last : forall t x, nondecQ (x :: t) -> nondecQ ((x :: t) ++ [last t x]).
Proof.
  induction t as [|y t IH]; intros x H.
  - cbn. split; [apply Qle_refl | tauto].
  - rewrite last_cons_default. destruct H as [H0 H1].
    change (nondecQ (x :: (y :: t) ++ [last t y])). cbn [nondecQ app]. split; [exact H0|].
    apply (IH y H1).
Qed.

Lemma sincQ_nondecQ : forall l, sincQ l -> nondecQ l.
Proof.
  induction l as [|x t IH]; intros H; [exact Logic.I|]. destruct H as [H0 H1]. split; [| apply IH; exact H1].
  destruct t; [exact Logic.I | apply Qlt_le_weak; exact H0].
Qed.

(* ------------------------------------------------------------------ the constructed table *)
(* abscissae: anchor < first expected quantised power, those strictly increasing, the last one below sxx_max *)
Lemma vv_table_sinc : forall ax ay fx fy grid mean smax,
  0 < fx -> sincQ mean -> match mean with [] => True | m :: _ => ax < m end -> last mean ax < smax ->
  strictly_inc (vv_table_gen ax ay fx fy grid mean smax).
Proof.
  intros ax ay fx fy grid mean smax Hf Hs Hh Hl. unfold vv_table_gen, vv_xs. apply sinc_combine. apply sincQ_map; [exact Hf|].
  destruct mean as [|m t].
  - cbn in *. tauto.
  - rewrite last_cons_default in Hl. split; [exact Hh|]. apply sincQ_snoc; assumption.
Qed.

(* ordinates: anchor <= first grid power, the grid non-decreasing; the clip repeats the last one *)
Lemma vv_table_nondec : forall ax ay fx fy g grid mean smax,
  0 < fy -> nondecQ (g :: grid) -> ay <= g -> nondec_y (vv_table_gen ax ay fx fy (g :: grid) mean smax).
Proof.
  intros ax ay fx fy g grid mean smax Hf Hs Hh. unfold vv_table_gen, vv_ys. apply nondec_combine. apply nondecQ_map; [exact Hf|].
  rewrite last_cons_default. split; [exact Hh|]. apply nondecQ_snoc_last; exact Hs.
Qed.

(* VV(anchor) = anchor: needs only that NO expected quantised power (nor sxx_max) coincides with the anchor abscissa *)
Lemma vv_anchor_kept : forall ax ay fx fy grid mean smax,
  ax == 0 -> 0 < fx -> match mean with [] => True | m :: _ => 0 < m end -> 0 < smax ->
  interp_d (vv_table_gen ax ay fx fy grid mean smax) 0 == fy * ay.
Proof.
  intros ax ay fx fy grid mean smax Ha Hf Hm Hs. unfold vv_table_gen, vv_xs, vv_ys.
  assert (E0 : fx * ax == 0) by (rewrite Ha; ring).
  assert (P : forall z, 0 < z -> fx * ax < fx * z) by (intros z Hz; rewrite E0; apply Qmult_lt_0_compat; assumption).
  destruct mean as [|m t]; destruct grid as [|g gt];
    cbn [map app combine]; unfold interp_d, interp; (rewrite qle_true by (rewrite E0; apply Qle_refl));
    cbn [interp_from]; rewrite qle_false by (rewrite <- E0; apply P; assumption);
    apply seg_at_left; try (apply P; assumption); symmetry; exact E0.
Qed.

(* the failure class of an underflowing grid: a SECOND zero abscissa shadows the anchor, np.interp answers with the
   true power paired with the LAST zero *)
Lemma vv_anchor_shadowed : forall ay fx fy g0 g1 grid m1 mean smax,
  0 < fx -> 0 < m1 ->
  interp_d (vv_table_gen 0 ay fx fy (g0 :: g1 :: grid) (0 :: m1 :: mean) smax) 0 == fy * g0.
Proof.
  intros ay fx fy g0 g1 grid m1 mean smax Hf Hm. unfold vv_table_gen, vv_xs, vv_ys.
  assert (E0 : fx * 0 == 0) by ring.
  assert (P : fx * 0 < fx * m1) by (rewrite E0; apply Qmult_lt_0_compat; assumption).
  cbn [map app combine]. unfold interp_d, interp. rewrite qle_true by (rewrite E0; apply Qle_refl).
  cbn [interp_from]. rewrite qle_true by (rewrite E0; apply Qle_refl).
  rewrite qle_false by (apply Qmult_lt_0_compat; assumption).
  apply seg_at_left; [exact P | symmetry; exact E0].
Qed.

Lemma combine_snoc : forall {A B} (l1 : list A) (l2 : list B) a b, List.length l1 = List.length l2 ->
  combine (l1 ++ [a]) (l2 ++ [b]) = combine l1 l2 ++ [(a, b)].
Proof.
  induction l1 as [|x t IH]; intros [|y u] a b H; try discriminate; [reflexivity|].
  cbn [app combine]. f_equal. apply IH. now injection H.
Qed.

(* the top is clipped: from sxx_max upwards the answer is the last grid power *)
Lemma vv_table_top : forall ax ay fx fy grid mean smax x,
  List.length grid = List.length mean ->
  strictly_inc (vv_table_gen ax ay fx fy grid mean smax) -> fx * smax <= x ->
  interp_d (vv_table_gen ax ay fx fy grid mean smax) x == fy * last grid 0.
Proof.
  intros ax ay fx fy grid mean smax x Hl Hs Hx. unfold vv_table_gen, vv_xs, vv_ys in *.
  change (ax :: mean ++ [smax]) with ((ax :: mean) ++ [smax]) in *.
  change (ay :: grid ++ [last grid 0]) with ((ay :: grid) ++ [last grid 0]) in *.
  rewrite !map_app in *. cbn [map] in *.
  rewrite combine_snoc in * by (cbn [List.length map]; rewrite !map_length; f_equal; symmetry; exact Hl).
  apply interp_right; assumption.
Qed.

(* ------------------------------------------------------------------ the decision procedure *)
Lemma Qlt_b_true : forall a b, Qlt_b a b = true -> a < b.
Proof.
  intros a b H. unfold Qlt_b in H. apply negb_true_iff in H. apply Qnot_le_lt. intro C.
  apply Qle_bool_iff in C. congruence.
Qed.

Lemma sinc_b_sound : forall l, sinc_b l = true -> strictly_inc l.
Proof.
  induction l as [|[x0 y0] t IH]; intros H; [exact Logic.I|].
  cbn [sinc_b] in H. apply andb_true_iff in H. destruct H as [H0 H1]. rewrite sinc_cons. split; [| apply IH; exact H1].
  destruct t as [|[x1 y1] t']; [exact Logic.I | apply Qlt_b_true; exact H0].
Qed.

Lemma nondec_b_sound : forall l, nondec_b l = true -> nondec_y l.
Proof.
  induction l as [|[x0 y0] t IH]; intros H; [exact Logic.I|].
  cbn [nondec_b] in H. apply andb_true_iff in H. destruct H as [H0 H1]. rewrite nondec_cons. split; [| apply IH; exact H1].
  destruct t as [|[x1 y1] t']; [exact Logic.I | apply Qle_bool_iff; exact H0].
Qed.

Lemma Q2Qc_eq : forall a b, a == b -> Q2Qc a = Q2Qc b.
Proof. intros. apply Q2Qc_eq_iff. assumption. Qed.

Lemma table_ok_sound : forall t, table_ok_b t = true ->
  strictly_inc t /\ nondec_y t /\
  vv_interp t (Fin 0%Qc) = Fin 0%Qc /\
  (forall q : Qc, (q <= 0)%Qc -> vv_interp t (Fin q) = Fin 0%Qc) /\
  (forall x y, ele x y -> ele (vv_interp t x) (vv_interp t y)).
Proof.
  intros t H. unfold table_ok_b in H. apply andb_true_iff in H. destruct H as [H Ho].
  apply andb_true_iff in H. destruct H as [Hs Hn].
  apply sinc_b_sound in Hs. apply nondec_b_sound in Hn.
  assert (Hneg : forall q : Qc, (q <= 0)%Qc -> vv_interp t (Fin q) = Fin 0%Qc).
  { intros q Hq. destruct t as [|[x0 y0] t']; [discriminate|]. cbn [origin_b] in Ho.
    apply andb_true_iff in Ho. destruct Ho as [Hx Hy]. apply Qeq_bool_iff in Hx. apply Qeq_bool_iff in Hy.
    cbn [vv_interp]. f_equal. apply Q2Qc_eq. rewrite interp_left; [exact Hy | exact Hs |].
    rewrite Hx. exact Hq. }
  split; [exact Hs|]. split; [exact Hn|]. split; [apply Hneg; apply Qcle_refl|]. split; [exact Hneg|].
  intros x y. apply vv_interp_mono; assumption.
Qed.

(* ------------------------------------------------------------------ the table of katdal (regenerated constants) *)
Lemma vv_anchor_is_origin : vv_ax == 0 /\ vv_ay == 0.
Proof. split; reflexivity. Qed.
Lemma vv_factors_positive : 0 < vv_fx /\ 0 < vv_fy.
Proof. split; reflexivity. Qed.

(* hypotheses on the numerics, in the source's words: the grid of true powers is positive and strictly increasing, the
   expected quantised powers on it are positive (no underflow to zero), strictly increasing and stay below sxx_max *)
Definition vv_numerics_ok (grid mean : list Q) (smax : Q) : Prop :=
  List.length grid = List.length mean /\ grid <> [] /\
  sincQ grid /\ match grid with [] => True | g :: _ => 0 < g end /\
  sincQ mean /\ match mean with [] => True | m :: _ => 0 < m end /\ last mean 0 < smax.

Lemma vv_katdal_table_ok : forall grid mean smax, vv_numerics_ok grid mean smax ->
  strictly_inc (vv_table grid mean smax) /\ nondec_y (vv_table grid mean smax).
Proof.
  intros grid mean smax (Hl & Hne & Hg & Hg0 & Hm & Hm0 & Hlast).
  destruct vv_anchor_is_origin as [Eax Eay]. destruct vv_factors_positive as [Hfx Hfy]. unfold vv_table. split.
  - apply vv_table_sinc; [exact Hfx | exact Hm | |].
    + destruct mean; [exact Logic.I | rewrite Eax; exact Hm0].
    + destruct mean as [|m t]; [destruct grid; [congruence | discriminate]|].
      rewrite last_cons_default in *. exact Hlast.
  - destruct grid as [|g gt]; [congruence|]. apply vv_table_nondec; [exact Hfy | apply sincQ_nondecQ; exact Hg |].
    rewrite Eay. apply Qlt_le_weak. exact Hg0.
Qed.

Lemma vv_katdal_zero : forall grid mean smax,
  match mean with [] => True | m :: _ => 0 < m end -> 0 < smax ->
  vv_interp (vv_table grid mean smax) (Fin 0%Qc) = Fin 0%Qc.
Proof.
  intros grid mean smax Hm Hs. destruct vv_anchor_is_origin as [Eax Eay]. destruct vv_factors_positive as [Hfx Hfy].
  cbn [vv_interp]. f_equal. apply Q2Qc_eq. change (this 0%Qc) with 0.
  unfold vv_table. rewrite vv_anchor_kept by assumption. rewrite Eay. ring.
Qed.

Lemma vv_katdal_monotone : forall grid mean smax x y, vv_numerics_ok grid mean smax ->
  ele x y -> ele (vv_interp (vv_table grid mean smax) x) (vv_interp (vv_table grid mean smax) y).
Proof. intros grid mean smax x y H. destruct (vv_katdal_table_ok _ _ _ H). apply vv_interp_mono; assumption. Qed.

Lemma vv_katdal_negative : forall grid mean smax (q : Qc), vv_numerics_ok grid mean smax -> (q <= 0)%Qc ->
  vv_interp (vv_table grid mean smax) (Fin q) = Fin 0%Qc.
Proof.
  intros grid mean smax q H Hq. destruct (vv_katdal_table_ok _ _ _ H) as [Hs _].
  destruct vv_anchor_is_origin as [Eax Eay].
  cbn [vv_interp]. f_equal. apply Q2Qc_eq. unfold vv_table, vv_table_gen, vv_xs, vv_ys in *. cbn [map combine] in *.
  rewrite interp_left; [rewrite Eay; ring | exact Hs |]. rewrite Eax.
  setoid_replace (vv_fx * 0) with 0 by ring. exact Hq.
Qed.

Lemma vv_katdal_top : forall grid mean smax (q : Qc), vv_numerics_ok grid mean smax -> vv_fx * smax <= q ->
  vv_interp (vv_table grid mean smax) (Fin q) = Fin (Q2Qc (vv_fy * last grid 0)).
Proof.
  intros grid mean smax q H Hq. destruct (vv_katdal_table_ok _ _ _ H) as [Hs _]. destruct H as [Hl _].
  cbn [vv_interp]. f_equal. apply Q2Qc_eq. apply vv_table_top; assumption.
Qed.

(* duplicate zero abscissa (expected quantised power underflowed to 0 at the first grid point): VV(0) is the first grid
   power times the factor - NOT zero *)
Lemma vv_katdal_underflow : forall g0 g1 grid m1 mean smax, 0 < g0 -> 0 < m1 ->
  exists y : Qc, vv_interp (vv_table (g0 :: g1 :: grid) (0 :: m1 :: mean) smax) (Fin 0%Qc) = Fin y /\ (0 < y)%Qc.
Proof.
  intros g0 g1 grid m1 mean smax Hg Hm. destruct vv_factors_positive as [Hfx Hfy].
  exists (Q2Qc (vv_fy * g0)). split.
  - cbn [vv_interp]. f_equal. apply Q2Qc_eq. change (this 0%Qc) with 0. unfold vv_table.
    change vv_ax with 0. apply vv_anchor_shadowed; assumption.
  - unfold Qclt. cbn [this Q2Qc]. rewrite !Qred_correct. apply Qmult_lt_0_compat; assumption.
Qed.

(* the size of the table: 1 + (size // 2 + size - 2 - size // 2) + 1 = size whenever numpy accepts the counts *)
Lemma vv_table_size_is_size : forall size n, vv_table_size size = Some n -> n = size.
Proof.
  intros size n H. unfold vv_table_size in H.
  destruct ((vv_low_count size <? 0)%Z || (vv_high_count size <? 0)%Z); [discriminate|].
  apply (f_equal (fun o => match o with Some z => z | None => 0%Z end)) in H. cbv beta iota in H. subst n.
  unfold vv_low_count, vv_high_count. lia.
Qed.

Lemma combine_len : forall {A B} (l1 : list A) (l2 : list B), List.length l1 = List.length l2 ->
  List.length (combine l1 l2) = List.length l1.
Proof.
  induction l1 as [|x t IH]; intros [|y u] H; try discriminate; [reflexivity|].
  cbn [combine List.length]. f_equal. apply IH. now injection H.
Qed.

Lemma vv_table_length : forall grid mean smax, List.length grid = List.length mean ->
  List.length (vv_table grid mean smax) = S (S (List.length mean)).
Proof.
  intros grid mean smax H. unfold vv_table, vv_table_gen, vv_xs, vv_ys.
  unfold node. rewrite combine_len; rewrite !map_length; cbn [List.length]; rewrite !app_length; cbn [List.length]; lia.
Qed.
