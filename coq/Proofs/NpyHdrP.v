(* C08: the concrete header text.  parse_hdr_c reads back every header print_hdr_c writes (numpy's canonical
   "{'descr': '<c8', 'fortran_order': False, 'shape': (2, 3, 2), }" ++ padding ++ "\n"), for every dtype descriptor
   made of printable characters other than the quote and the backslash, every shape (any rank, any sizes) and any
   padding.  This discharges the hypothesis `parse_hdr (print_hdr m) = Some m` of the framing theorems for the parser
   the executable model runs with. *)
From Coq Require Import ZArith List Bool Lia Arith.
From KV Require Import Base.Sx Model.Npy Proofs.NpyP.
Import ListNotations.
Open Scope Z_scope.

Definition descr_ok (d : bytes) : Prop := Forall (fun c => descr_char c = true) d.

(* ---------- prefixes ---------- *)
Lemma firstn_len_app {A} (p r : list A) : firstn (List.length p) (p ++ r) = p.
Proof. induction p; simpl; congruence. Qed.
Lemma skipn_len_app {A} (p r : list A) : skipn (List.length p) (p ++ r) = r.
Proof. induction p; simpl; congruence. Qed.

Lemma starts_with_app p r : starts_with p (p ++ r) = true.
Proof. unfold starts_with. rewrite firstn_len_app. apply bytes_eqb_refl. Qed.

Lemma expect_app p r : expect p (p ++ r) = Some r.
Proof. unfold expect. rewrite starts_with_app, skipn_len_app. reflexivity. Qed.

(* ---------- the descriptor ---------- *)
Lemma take_descr_app : forall d t, descr_ok d -> take_descr (d ++ 39 :: t) = Some (d, 39 :: t).
Proof.
  induction d as [|c d IH]; intros t H.
  - reflexivity.
  - inversion H as [|? ? Hc Hd]; subst. cbn [app take_descr].
    assert (c =? 39 = false) as ->.
    { unfold descr_char in Hc. destruct (c =? 39); [|reflexivity]. rewrite !andb_false_r in Hc. cbn in Hc.
      rewrite ?andb_false_r in Hc. discriminate. }
    rewrite Hc, (IH t Hd). reflexivity.
Qed.

(* ---------- decimal numbers ---------- *)
Lemma digits_val_app : forall l1 l2 a,
  digits_val (l1 ++ l2) a = match digits_val l1 a with Some a' => digits_val l2 a' | None => None end.
Proof.
  induction l1 as [|c l1 IH]; intros l2 a; [reflexivity|].
  cbn [app digits_val]. destruct ((48 <=? c) && (c <=? 57)); [apply IH|reflexivity].
Qed.

Definition is_digits (ds : bytes) : Prop := Forall (fun c => is_digit c = true) ds.

Lemma digit_of_mod n : is_digit (48 + Z.of_nat (n mod 10)) = true /\ Z.to_nat (48 + Z.of_nat (n mod 10) - 48) = (n mod 10)%nat.
Proof.
  pose proof (Nat.mod_upper_bound n 10 ltac:(lia)). unfold is_digit. split; [|lia].
  apply andb_true_iff. split; apply Z.leb_le; lia.
Qed.

(* nat_digits_aux with enough fuel: the digits of n in front of the accumulator *)
Lemma nat_digits_aux_spec : forall fuel n acc, (n < fuel)%nat ->
  exists ds, nat_digits_aux fuel n acc = ds ++ acc /\ is_digits ds /\
             (forall a, digits_val ds a = Some (a * 10 ^ List.length ds + n)%nat) /\
             (1 <= List.length ds)%nat /\ ((0 < n)%nat -> hd 0 ds <> 48) /\ ((n < 10)%nat -> List.length ds = 1%nat).
Proof.
  induction fuel as [|f IH]; intros n acc Hn; [lia|].
  cbn [nat_digits_aux]. destruct (digit_of_mod n) as [Dg Dv].
  set (d := 48 + Z.of_nat (n mod 10)) in *.
  pose proof (Nat.div_mod n 10 ltac:(lia)) as DM.
  destruct (Nat.eqb (n / 10) 0) eqn:E.
  - apply Nat.eqb_eq in E. exists [d]. split; [reflexivity|]. split; [constructor; [exact Dg|constructor]|].
    assert (n mod 10 = n)%nat by lia.
    split.
    { intro a. cbn [digits_val]. unfold is_digit in Dg. rewrite Dg, Dv. f_equal. cbn [List.length]. rewrite Nat.pow_1_r. lia. }
    split; [cbn; lia|]. split; [|reflexivity].
    intros Hp. cbn [hd]. unfold d. lia.
  - apply Nat.eqb_neq in E.
    assert (Hlt : (n / 10 < f)%nat).
    { assert (n / 10 < n)%nat by (apply Nat.div_lt; lia). lia. }
    destruct (IH (n / 10)%nat (d :: acc) Hlt) as (ds & Heq & Hd & Hv & Hl & Hh & _).
    exists (ds ++ [d]). split; [rewrite Heq, <- app_assoc; reflexivity|].
    split; [apply Forall_app; split; [exact Hd|constructor; [exact Dg|constructor]]|].
    split.
    { intro a. rewrite digits_val_app, Hv. cbn [digits_val]. unfold is_digit in Dg. rewrite Dg, Dv. f_equal.
      rewrite app_length. cbn [List.length]. rewrite Nat.add_1_r, Nat.pow_succ_r'. lia. }
    split; [rewrite app_length; cbn; lia|]. split; [|intro; lia].
    intros _. destruct ds as [|c ds]; [cbn in Hl; lia|]. cbn [app hd]. apply Hh. lia.
Qed.

Lemma nat_digits_spec n :
  is_digits (nat_digits n) /\ (forall a, digits_val (nat_digits n) a = Some (a * 10 ^ List.length (nat_digits n) + n)%nat) /\
  (1 <= List.length (nat_digits n))%nat /\ ((0 < n)%nat -> hd 0 (nat_digits n) <> 48) /\
  ((n < 10)%nat -> List.length (nat_digits n) = 1%nat).
Proof.
  unfold nat_digits. destruct (nat_digits_aux_spec (S n) n [] ltac:(lia)) as (ds & -> & H). rewrite app_nil_r. exact H.
Qed.

Definition nondigit_head (r : bytes) : Prop := match r with [] => True | c :: _ => is_digit c = false end.

Lemma take_digits_app : forall ds r, is_digits ds -> nondigit_head r -> take_digits (ds ++ r) = (ds, r).
Proof.
  induction ds as [|c ds IH]; intros r Hd Hr.
  - cbn [app]. destruct r as [|c r]; [reflexivity|]. cbn [take_digits]. cbn in Hr. rewrite Hr. reflexivity.
  - inversion Hd; subst. cbn [app take_digits]. rewrite H1, (IH r H2 Hr). reflexivity.
Qed.

Lemma parse_nat_digits n r : nondigit_head r -> parse_nat (nat_digits n ++ r) = Some (n, r).
Proof.
  intro Hr. destruct (nat_digits_spec n) as (Hd & Hv & Hl & Hh & H1).
  unfold parse_nat. rewrite (take_digits_app _ _ Hd Hr).
  destruct (nat_digits n) as [|d [|d2 ds]] eqn:E; [cbn in Hl; lia| |].
  - specialize (Hv 0%nat). cbn [digits_val List.length] in Hv. inversion Hd; subst.
    unfold is_digit in H2. rewrite H2 in Hv. injection Hv as Hv'.
    replace (Z.to_nat (d - 48)) with n by (cbn in Hv'; lia). reflexivity.
  - assert (10 <= n)%nat.
    { destruct (le_lt_dec 10 n); [assumption|]. specialize (H1 l). cbn in H1. lia. }
    assert (d =? 48 = false) as -> by (apply Z.eqb_neq; apply Hh; lia).
    rewrite (Hv 0%nat). cbn [Nat.mul Nat.add]. reflexivity.
Qed.

Lemma digit_cases d : is_digit d = true ->
  d = 48 \/ d = 49 \/ d = 50 \/ d = 51 \/ d = 52 \/ d = 53 \/ d = 54 \/ d = 55 \/ d = 56 \/ d = 57.
Proof. unfold is_digit. intro H. apply andb_true_iff in H. destruct H as [A B]. apply Z.leb_le in A, B. lia. Qed.

Lemma nat_digits_head n : exists d t, nat_digits n = d :: t /\ is_digit d = true.
Proof.
  destruct (nat_digits_spec n) as (Hd & _ & Hl & _). destruct (nat_digits n) as [|d t]; [cbn in Hl; lia|].
  inversion Hd; subst. eauto.
Qed.

(* ---------- shapes ---------- *)
Lemma tail_head_nondigit t r : nondigit_head (print_shape_tail t ++ r).
Proof. destruct t; reflexivity. Qed.

Lemma print_shape_tail_len t : (List.length t < List.length (print_shape_tail t))%nat.
Proof.
  induction t as [|n t IH]; [cbn; lia|]. cbn [print_shape_tail]. rewrite !app_length. cbn [List.length]. lia.
Qed.

Lemma parse_shape_rest_tail : forall t fuel r, (List.length t < fuel)%nat ->
  parse_shape_rest fuel (print_shape_tail t ++ r) = Some (t, r).
Proof.
  induction t as [|n t IH]; intros fuel r Hf; (destruct fuel as [|f]; [lia|]).
  - reflexivity.
  - cbn [print_shape_tail]. rewrite <- !app_assoc. cbn [app parse_shape_rest].
    rewrite (parse_nat_digits n _ (tail_head_nondigit t r)).
    rewrite (IH f r ltac:(cbn in Hf; lia)). reflexivity.
Qed.

Lemma parse_shape_print sh r : parse_shape (print_shape sh ++ r) = Some (sh, r).
Proof.
  destruct sh as [|n [|n2 t]].
  - reflexivity.
  - cbn [print_shape]. rewrite <- app_assoc.
    destruct (nat_digits_head n) as (d & ds & E & Dg).
    assert (P : parse_nat (nat_digits n ++ ([44; 41] ++ r)) = Some (n, [44; 41] ++ r))
      by (apply parse_nat_digits; reflexivity).
    rewrite E in *. cbn [app] in *.
    destruct (digit_cases d Dg) as [->|[->|[->|[->|[->|[->|[->|[->|[->| ->]]]]]]]]];
      unfold parse_shape; rewrite P; reflexivity.
  - cbn [print_shape]. rewrite <- app_assoc.
    destruct (nat_digits_head n) as (d & ds & E & Dg).
    set (rest := print_shape_tail (n2 :: t) ++ r).
    assert (P : parse_nat (nat_digits n ++ rest) = Some (n, rest))
      by (apply parse_nat_digits; apply tail_head_nondigit).
    assert (R : parse_shape_rest (List.length rest) rest = Some (n2 :: t, r)).
    { apply parse_shape_rest_tail. unfold rest. rewrite app_length.
      pose proof (print_shape_tail_len (n2 :: t)). lia. }
    assert (Hrest : exists r', rest = 44 :: 32 :: r').
    { unfold rest. cbn [print_shape_tail]. rewrite <- !app_assoc. cbn [app]. eauto. }
    destruct Hrest as [r' Hr']. rewrite E in *. cbn [app] in *.
    destruct (digit_cases d Dg) as [->|[->|[->|[->|[->|[->|[->|[->|[->| ->]]]]]]]]];
      unfold parse_shape; rewrite P; rewrite Hr' in *; rewrite R; reflexivity.
Qed.

Lemma spaces_nl pad : only_spaces_then_nl (repeat 32 pad ++ [10]) = true.
Proof. induction pad as [|p IH]; [reflexivity|]. cbn [repeat app only_spaces_then_nl]. exact IH. Qed.

(* ---------- the round trip ---------- *)
Theorem parse_print_c : forall pad m, descr_ok (h_descr m) -> parse_hdr_c (print_hdr_c pad m) = Some m.
Proof.
  intros pad [d fo sh] Hd. cbn [h_descr h_fortran h_shape] in *. unfold print_hdr_c, parse_hdr_c.
  cbn [h_descr h_fortran h_shape].
  rewrite expect_app.
  assert (S39 : exists t, s_fortran = 39 :: t) by (unfold s_fortran; eauto). destruct S39 as [t39 E39].
  assert (TD : forall rest, take_descr (d ++ s_fortran ++ rest) = Some (d, s_fortran ++ rest)).
  { intro rest. rewrite E39. cbn [app]. apply take_descr_app. exact Hd. }
  rewrite TD, expect_app.
  destruct fo.
  - rewrite starts_with_app. change 4%nat with (List.length s_true). rewrite skipn_len_app.
    rewrite expect_app, parse_shape_print, expect_app, spaces_nl. reflexivity.
  - assert (starts_with s_true (s_false ++ s_shape ++ print_shape sh ++ s_close ++ repeat 32 pad ++ [10]) = false) as ->
      by reflexivity.
    rewrite starts_with_app. change 5%nat with (List.length s_false). rewrite skipn_len_app.
    rewrite expect_app, parse_shape_print, expect_app, spaces_nl. reflexivity.
Qed.

(* ---------- the framing theorems for the concrete header (no hypothesis on the parser left) ---------- *)
Theorem truncation_never_data_c : forall pad major nb m body k,
  descr_ok (h_descr m) -> wf_file (print_hdr_c pad) major nb m body ->
  (k < List.length (encode (print_hdr_c pad) major nb m body))%nat ->
  np_load parse_hdr_c (firstn k (encode (print_hdr_c pad) major nb m body)) = Err (if Nat.eqb k 0 then EEOF else EValue)
  /\ (existsb (Z.eqb major) [1; 2] = true ->
      s3_read_array parse_hdr_c (firstn k (encode (print_hdr_c pad) major nb m body)) = Err EIncomplete).
Proof.
  intros pad major nb m body k Hd Hwf Hk. split.
  - exact (truncation_never_data_at parse_hdr_c (print_hdr_c pad) major nb m body k (parse_print_c pad m Hd) Hwf Hk).
  - intro Hv.
    exact (s3_truncation_never_data_at parse_hdr_c (print_hdr_c pad) major nb m body k (parse_print_c pad m Hd) Hwf Hv Hk).
Qed.

Theorem decode_encode_c : forall pad major nb m body,
  descr_ok (h_descr m) -> wf_file (print_hdr_c pad) major nb m body ->
  np_load parse_hdr_c (encode (print_hdr_c pad) major nb m body) = Ok (m, body).
Proof. intros. apply decode_encode_at; [apply parse_print_c|]; assumption. Qed.

(* non-vacuity: the 128-byte header numpy writes for a (2, 3, 2) complex64 chunk *)
Example ex_hdr_roundtrip :
  let m := mkhdr [60; 99; 56] false [2%nat; 3%nat; 2%nat] in
  descr_ok (h_descr m) /\ List.length (print_hdr_c 55 m) = 118%nat /\ parse_hdr_c (print_hdr_c 55 m) = Some m /\
  wf_file (print_hdr_c 55) 1 2 m (repeat 7 96).
Proof.
  cbv zeta. split; [repeat constructor|]. split; [reflexivity|]. split; [reflexivity|].
  split; [reflexivity|]. split; [vm_compute; discriminate|]. exists 8%nat. split; reflexivity.
Qed.
