(* C07: links between the clauses -- a chunking scheme produced by generate_chunks round-trips through a store, and
   the location of every dask block (what _put_map_blocks turns into the chunk name) is the cumulative sum of the sizes
   of the chunks before it, for irregular chunkings too. *)
From Coq Require Import ZArith List Bool Lia ZifyBool.
From KV Require Import Base.Sx Gen.Generated Model.Chunks Model.ChunksGenPy.
From KV Require Import Proofs.ChunksRtP Proofs.ChunksPruneP Proofs.ChunksTopP Proofs.ChunksGenP Proofs.ChunksGenPyP.
Import ListNotations. Open Scope Z_scope.

Lemma tiles_ok_facts : forall shape out, tiles_ok shape out = true ->
  chunks_shape out = shape /\ Forall (fun cs => Forall (fun c => 0 < c) cs) out.
Proof.
  intros shape out H. unfold tiles_ok in H. apply andb_true_iff in H. destruct H as [Hl H].
  apply Nat.eqb_eq in Hl. revert out Hl H. unfold chunks_shape.
  induction shape as [|s shape IH]; intros [|cs out] Hl H; cbn [length] in Hl; try discriminate.
  - split; [reflexivity | constructor].
  - cbn [combine forallb fst snd] in H. apply andb_true_iff in H. destruct H as [H1 H2].
    apply andb_true_iff in H1. destruct H1 as [Hs Hp].
    destruct (IH out ltac:(lia) H2) as [I1 I2]. split.
    + cbn [map]. rewrite I1. f_equal. lia.
    + constructor; [| assumption]. apply Forall_forall. intros c Hc.
      rewrite forallb_forall in Hp. specialize (Hp c Hc). lia.
Qed.

(* whatever generate_chunks returns can be used as the chunking of put_dask_array / get_dask_array: every block put
   succeeds and the array reads back element for element, for any offset, element type and prior store content *)
Lemma generated_chunks_round_trip : forall (A : Type) (d : A) (miss : option A) (st : store A) (arr : str) (dt : Z)
    (f : list Z -> A) shape mn md dims pow2 mde out (off : list Z),
  gc_domain_py shape mn md mde = true ->
  gen_chunks_py shape mn md dims pow2 mde = Ok out ->
  (off = [] \/ List.length off = List.length shape) ->
  Forall (fun r => r = None) (snd (put_array st arr dt f out off)) /\
  get_array d miss (fst (put_array st arr dt f out off)) arr dt out off = Ok (map f (enumerate shape)).
Proof.
  intros A d miss st arr dt f shape mn md dims pow2 mde out off Hdom Hout Hoff.
  pose proof (py_tiles shape mn md dims pow2 mde out Hdom Hout) as T.
  pose proof T as T'. unfold tiles_ok in T'. apply andb_true_iff in T'. destruct T' as [Hl _]. apply Nat.eqb_eq in Hl.
  destruct (tiles_ok_facts shape out T) as [Hs Hp].
  rewrite <- Hs. apply round_trip_top.
  - eapply Forall_impl; [| exact Hp]. intros cs Hcs. left. exact Hcs.
  - destruct Hoff as [-> | Hoff]; [left; reflexivity | right; lia].
Qed.

(* dask's "array-location" of block k of an axis, for ANY (irregular) chunking: it starts at the total size of the k
   chunks before it and has the size of chunk k *)
Lemma intervals_nth : forall cs a k, (k < List.length cs)%nat ->
  nth k (intervals a cs) (0, 0) = (a + sumZ (firstn k cs), a + sumZ (firstn (S k) cs)).
Proof.
  induction cs as [|c cs IH]; intros a k Hk; cbn [length] in Hk; [lia|].
  destruct k as [|k].
  - cbn [intervals nth firstn]. rewrite sumZ_cons, !sumZ_nil. f_equal; lia.
  - cbn [intervals nth]. rewrite IH by lia. cbn [firstn]. rewrite !sumZ_cons. f_equal; lia.
Qed.

Lemma intervals_length : forall cs a, List.length (intervals a cs) = List.length cs.
Proof. induction cs; intros; cbn [intervals length]; [reflexivity | rewrite IHcs; reflexivity]. Qed.

(* every block of a chunk specification is the product of such per-axis locations: block index (k1, .., kn) has start
   tuple (sum of the first k_i chunk sizes of axis i) -- the tuple the chunk name is printed from *)
Lemma blocks_locations : forall chunks b, In b (blocks chunks) ->
  Forall2 (fun cs se => exists k, (k < List.length cs)%nat /\ se = (sumZ (firstn k cs), sumZ (firstn (S k) cs))) chunks b.
Proof.
  induction chunks as [|cs chunks IH]; intros b Hb.
  - cbn in Hb. destruct Hb as [<- | []]. constructor.
  - rewrite rt_blocks_cons in Hb. apply rt_in_cons_cart in Hb. destruct Hb as [se [q [-> [Hse Hq]]]].
    constructor; [| apply IH; exact Hq].
    destruct (In_nth _ _ (0, 0) Hse) as [k [Hk E]]. rewrite intervals_length in Hk.
    exists k. split; [assumption|]. rewrite <- E, intervals_nth by assumption. f_equal; lia.
Qed.
