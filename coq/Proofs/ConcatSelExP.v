(* C19: non-vacuity of the selection theorems on the concatenation of Proofs/ConcatExP.v. *)
From Coq Require Import ZArith List Bool String Lia.
From KV Require Import Base.Sx Base.Str Base.SelSlice Model.Select Proofs.SelectLawsP Model.ConcatSel Proofs.ConcatSelP.
From KV Require Model.Categorical Model.Concat Proofs.ConcatP Proofs.ConcatExP.
Import ListNotations.
Open Scope Z_scope.

Definition ex_env : env :=
  mkEnv [ {| t_names := []; t_tags := [] |}; {| t_names := [101]; t_tags := [1] |};
          {| t_names := [102; 109]; t_tags := [2] |}; {| t_names := [103; 109]; t_tags := [1; 2] |} ]
        2 [10; 14; 18] 2 [((0, 0), (0, 0)); ((0, 0), (1, 0)); ((1, 1), (1, 1))].

Definition ex_mo : obs :=
  match merged_obs ex_env ConcatExP.ex_m with Some o => o
  | None => {| o_dumps := []; o_half := 0; o_targets := []; o_freqs := []; o_halfw := 0; o_cps := [] |} end.

(* scans 3 or state 0; then, stacked, target 0 of the MERGED catalogue or any target called 109; then every second
   dump from 1 and channel 1 *)
Definition ex_calls : list kwargs :=
  [ [("scans"%string, VScans [SIdx 3; SName 0])];
    [("targets"%string, VTargets [TIdx 0; TName 109]); ("reset"%string, VStr ""%string)];
    [("compscans"%string, VScans [SIdx 2; SIdx 0]); ("channels"%string, VIdx (IxInt 1)); ("reset"%string, VStr ""%string)] ].

Definition ex_trs : list tr := trs_of (Concat.m_cat ConcatExP.ex_m) ConcatExP.ex_sorted.

Definition tk_of (r : res st) : list bool := match r with Ok s => tk s | Err _ => [] end.
Definition fk_of (r : res st) : list bool := match r with Ok s => fk s | Err _ => [] end.

Lemma ex_select :
  merged_obs ex_env ConcatExP.ex_m = Some ex_mo /\
  Forall (fun c => NoDup (keys c)) ex_calls /\
  (exists S, run ex_mo (init ex_mo) ex_calls = Ok S) /\
  (* after the first call: the slews of every part and the first scan (number 3) of the second part *)
  tk_of (run ex_mo (init ex_mo) (firstn 1 ex_calls)) = [false; true; true; false;  true; true;  true; false; false] /\
  (* stacked target criterion: index 0 of the merged catalogue is target 2 (first part: index 0, last part: index 1) *)
  tk_of (run ex_mo (init ex_mo) (firstn 2 ex_calls)) = [false; true; true; false;  false; false;  false; false; false] /\
  tk_of (run ex_mo (init ex_mo) ex_calls) = [false; true; true; false;  false; false;  false; false; false] /\
  fk_of (run ex_mo (init ex_mo) ex_calls) = [false; true; false] /\
  (* the translated calls on the parts alone give the three segments *)
  map (fun pt => tk_of (run (part_obs ex_env (fst pt)) (init (part_obs ex_env (fst pt))) (map (tr_kwargs (snd pt)) ex_calls)))
      (combine ConcatExP.ex_sorted ex_trs)
  = [[false; true; true; false]; [false; false]; [false; false; false]] /\
  (* ... and the translation: merged target 0 is local target 0 of the first part, absent from the second, local 1 of the third *)
  map (fun t => tr_value t "targets" (VTargets [TIdx 0; TName 109])) ex_trs
  = [VTargets [TIdx 0; TName 109]; VTargets [TName 109]; VTargets [TIdx 1; TName 109]] /\
  map (fun t => tr_value t "scans" (VScans [SIdx 3; SName 0])) ex_trs
  = [VScans [SIdx 3; SName 0]; VScans [SIdx 0; SName 0]; VScans [SIdx (-1); SName 0]].
Proof.
  split; [vm_compute; reflexivity|]. split.
  { repeat constructor; cbn; intuition discriminate. }
  split; [eexists; vm_compute; reflexivity|].
  repeat split; vm_compute; reflexivity.
Qed.


Lemma ex_select_short :
  merged_obs ex_env ConcatExP.ex_m = Some ex_mo /\
  Forall (fun c => NoDup (keys c)) ex_calls /\
  (exists S, run ex_mo (init ex_mo) ex_calls = Ok S) /\
  tk_of (run ex_mo (init ex_mo) (firstn 1 ex_calls))
    = [false; true; true; false;  true; true;  true; false; false] /\
  tk_of (run ex_mo (init ex_mo) ex_calls)
    = [false; true; true; false;  false; false;  false; false; false] /\
  map (fun pt => tk_of (run (part_obs ex_env (fst pt)) (init (part_obs ex_env (fst pt)))
                                         (map (tr_kwargs (snd pt)) ex_calls)))
      (combine ConcatExP.ex_sorted ex_trs)
  = [[false; true; true; false]; [false; false]; [false; false; false]] /\
  map (fun t => tr_value t "targets" (VTargets [TIdx 0; TName 109])) ex_trs
  = [VTargets [TIdx 0; TName 109]; VTargets [TName 109]; VTargets [TIdx 1; TName 109]] /\
  map (fun t => tr_value t "scans" (VScans [SIdx 3; SName 0])) ex_trs
  = [VScans [SIdx 3; SName 0]; VScans [SIdx 0; SName 0]; VScans [SIdx (-1); SName 0]].
Proof.
  destruct ex_select as (A & B & C & D & _ & F & _ & H & I & J).
  repeat (split; [assumption|]). assumption.
Qed.
