(* C11: the tie between katdal/categorical.py and Model/Categorical.v through the translator.

   Part 1 (round 1): the decision constants cat_* have the values the model hard-wires.
   Part 2 (round 2): the statement-by-statement template match of harness/vh/items/c11.py emits every comparison
   operator, arithmetic operator, integer constant, searchsorted side, default argument and numpy reduction name
   of the mirrored functions as catg_* definitions.  Here the decision expressions of the source are written
   down again AS THE SOURCE HAS THEM (Python integers = Z, the generated operators and constants in the places
   where the source has them) -- lookup_g, add_g, remove_g, initf_g, part_g, rr_g -- and proved equal, for all
   arguments, to the functions of the Gallina model that the C11 theorems are about.  An edit of an operator or
   constant in the source changes a catg_* definition and one of these proofs no longer checks; any other edit of
   a mirrored function is refused by the translator.  (The definitions live here and not under Model/ so that a
   refused source never stops the extracted model from building.) *)
From Coq Require Import ZArith List Bool Arith Lia.
From KV Require Import Base.Sx Model.Categorical Model.CategoricalX Gen.Generated Proofs.CategoricalP
  Proofs.CategoricalXP Proofs.CategoricalXPartP.
Import ListNotations.

Lemma cat_constants_ok :
  cat_lookup_side_right = true /\ cat_add_side_left = true /\ cat_partition_side_right = true /\
  cat_match_dist_default = 1%Z /\ cat_unmatched_is_gt = true /\ cat_align_keeps_increasing = true /\
  cat_allow_repeats_default = false /\ cat_repeats_removed_unless_allowed = true.
Proof. repeat split; reflexivity. Qed.

Open Scope nat_scope.

(* numpy searchsorted on a sorted array *)
Definition ss (right : bool) (l : list nat) (p : nat) : nat := if right then count_le l p else count_lt l p.

Section Mirror.
Context {V : Type} (veqb : V -> V -> bool).
Notation cdV := (@cd V).

(* _lookup:  preceding_events = events.searchsorted(dumps, side=S) <op> D
             if any(preceding_events <lo> L) or any(preceding_events <hi> len(indices)): raise IndexError *)
Definition lookup_g (c : cdV) (p : nat) : option nat :=
  let k := catg_lookup_dec_op (Z.of_nat (ss catg_lookup_side_right (ev c) p)) catg_lookup_dec in
  if catg_lookup_lo_cmp k catg_lookup_lo || catg_lookup_hi_cmp k (Z.of_nat (length (idx c))) then None
  else nth_error (idx c) (Z.to_nat k).

Lemma lookup_g_ok (c : cdV) p : lookup_g c p = lookup c p.
Proof.
  unfold lookup_g, lookup, ss, catg_lookup_dec_op, catg_lookup_side_right, catg_lookup_dec, catg_lookup_lo_cmp,
    catg_lookup_lo, catg_lookup_hi_cmp.
  set (k := count_le (ev c) p). set (n := length (idx c)).
  destruct (Z.ltb_spec (Z.of_nat k - 1) 0), (Nat.eqb_spec k 0); simpl; try lia; auto.
  destruct (Z.leb_spec (Z.of_nat n) (Z.of_nat k - 1)), (Nat.leb_spec n (k - 1)); try lia; auto.
  f_equal. lia.
Qed.

(* add:  event_index = events.searchsorted(event, side=S)
         after = event_index <op> I if events[event_index] <cmp> event else event_index *)
Definition add_after_g (evs : list nat) (k e : nat) : option nat :=
  match nth_error evs k with
  | None => None                         (* events[event_index]: IndexError *)
  | Some x => Some (Z.to_nat (if catg_add_coincide_cmp (Z.of_nat x) (Z.of_nat e)
                              then catg_add_after_op (Z.of_nat k) catg_add_inc else Z.of_nat k))
  end.
Definition add_g (c : cdV) (e : nat) (val : option V) : option cdV :=
  let '(uv', vi) :=
    match val with
    | Some v => match index_of veqb v (uv c) with
                | Some i => (uv c, Some i)
                | None => (uv c ++ [v], Some (length (uv c)))
                end
    | None => (uv c, lookup_g c e)
    end in
  match vi with
  | None => None
  | Some vi =>
      let k := ss catg_add_side_right (ev c) e in
      match add_after_g (ev c) k e with
      | None => None
      | Some after => Some (mk uv' (firstn k (idx c) ++ [vi] ++ skipn after (idx c))
                                   (firstn k (ev c) ++ [e] ++ skipn after (ev c)))
      end
  end.

Lemma add_g_ok (c : cdV) e val : add_g c e val = add veqb c e val.
Proof.
  unfold add_g, add, add_after_g, ss, catg_add_side_right, catg_add_coincide_cmp, catg_add_after_op, catg_add_inc.
  rewrite lookup_g_ok.
  destruct (match val with
            | Some v => match index_of veqb v (uv c) with
                        | Some i => (uv c, Some i) | None => (uv c ++ [v], Some (length (uv c))) end
            | None => (uv c, lookup c e) end) as [uv' [vi|]]; [|reflexivity].
  destruct (nth_error (ev c) (count_lt (ev c) e)) as [x|]; [|reflexivity].
  replace (Z.to_nat (if (Z.of_nat x =? Z.of_nat e)%Z then (Z.of_nat (count_lt (ev c) e) + 1)%Z
                     else Z.of_nat (count_lt (ev c) e)))
    with (if x =? e then S (count_lt (ev c) e) else count_lt (ev c) e); [reflexivity|].
  destruct (Z.eqb_spec (Z.of_nat x) (Z.of_nat e)), (Nat.eqb_spec x e); lia.
Qed.

(* remove:  keep = indices <cmp> index;  remap = arange(M);  remap[index:] -= D;  indices = remap[indices[keep]] *)
Definition remove_g (c : cdV) (v : V) : cdV :=
  match index_of veqb v (uv c) with
  | None => c
  | Some j =>
      let kept := filter (fun p => catg_rm_keep_cmp (Z.of_nat (snd p)) (Z.of_nat j))
                         (combine (removelast (ev c)) (idx c)) in
      mk (firstn j (uv c) ++ skipn (S j) (uv c))
         (map (fun p => Z.to_nat (if (Z.of_nat j <=? Z.of_nat (snd p))%Z
                                  then (Z.of_nat (snd p) - catg_rm_dec)%Z else Z.of_nat (snd p))) kept)
         (map fst kept ++ [ndumps c])
  end.

Lemma remove_g_ok (c : cdV) v : remove_g c v = remove veqb c v.
Proof.
  unfold remove_g, remove, catg_rm_keep_cmp, catg_rm_dec. destruct (index_of veqb v (uv c)) as [j|]; [|reflexivity].
  assert (F : forall l : list (nat * nat),
            filter (fun p => negb (Z.of_nat (snd p) =? Z.of_nat j)%Z) l = filter (fun p => negb (snd p =? j)) l).
  { intros l. apply filter_ext. intros p. destruct (Z.eqb_spec (Z.of_nat (snd p)) (Z.of_nat j)), (Nat.eqb_spec (snd p) j); auto; lia. }
  rewrite F. f_equal. apply map_ext. intros p.
  destruct (Z.leb_spec (Z.of_nat j) (Z.of_nat (snd p))), (Nat.leb_spec j (snd p)); lia.
Qed.

(* partition:  initial_indices = indices[(events.searchsorted(segments[:-1], side=S) <op> D).clip(LO, len(events) <op> HI)]
   (numpy clip = minimum(hi, maximum(x, lo))) *)
Definition initf_g (c : cdV) (s : nat) : nat :=
  let events := removelast (ev c) in
  let x := catg_part_dec_op (Z.of_nat (ss catg_part_side_right events s)) catg_part_dec in
  let hi := catg_clip_hi_op (Z.of_nat (length events)) catg_clip_hi in
  nth (Z.to_nat (Z.min hi (Z.max x catg_clip_lo))) (idx c) 0.

Lemma initf_g_ok (c : cdV) s : initf_g c s = initf c s.
Proof.
  unfold initf_g, initf, ss, catg_part_dec_op, catg_part_side_right, catg_part_dec, catg_clip_hi_op, catg_clip_hi,
    catg_clip_lo. f_equal. lia.
Qed.

(*   segment_events = (events <lo> start) & (events <hi> end)
     if len(cat_data.events) <cmp> Z or cat_data.events[0] <cmp> F: insert the initial event *)
Definition part_g (c : cdV) (start end_ init : nat) : cdV :=
  let sel := filter (fun p => catg_part_lo_cmp (Z.of_nat (fst p)) (Z.of_nat start)
                              && catg_part_hi_cmp (Z.of_nat (fst p)) (Z.of_nat end_))
                    (combine (removelast (ev c)) (idx c)) in
  let evs := map (fun p => fst p - start) sel in
  let ids := map snd sel in
  if catg_part_empty_cmp (Z.of_nat (length evs)) catg_part_empty
     || catg_part_first_cmp (Z.of_nat (hd 0 evs)) catg_part_first
  then mk (uv c) (init :: ids) (0 :: evs ++ [end_ - start])
  else mk (uv c) ids (evs ++ [end_ - start]).

Lemma part_g_ok (c : cdV) a b init : part_g c a b init = part c a b init.
Proof.
  unfold part_g, part, catg_part_lo_cmp, catg_part_hi_cmp, catg_part_empty_cmp, catg_part_empty,
    catg_part_first_cmp, catg_part_first.
  assert (F : forall l : list (nat * nat),
            filter (fun p => (Z.of_nat a <=? Z.of_nat (fst p))%Z && (Z.of_nat (fst p) <? Z.of_nat b)%Z) l
            = filter (fun p => (a <=? fst p) && (fst p <? b)) l).
  { intros l. apply filter_ext. intros p.
    destruct (Z.leb_spec (Z.of_nat a) (Z.of_nat (fst p))), (Nat.leb_spec a (fst p)); try lia;
    destruct (Z.ltb_spec (Z.of_nat (fst p)) (Z.of_nat b)), (Nat.ltb_spec (fst p) b); try lia; reflexivity. }
  rewrite F. destruct (map (fun p : nat * nat => fst p - a) _) as [|[|n] t]; reflexivity.
Qed.

Definition partition_g (c : cdV) (segs : list nat) : list cdV :=
  map (fun q => part_g c (fst q) (snd q) (initf_g c (fst q))) (combine (removelast segs) (tl segs)).
Lemma partition_g_ok (c : cdV) segs : partition_g c segs = partition c segs.
Proof.
  unfold partition_g. rewrite partition_initf. apply map_ext. intros q. rewrite part_g_ok, initf_g_ok. reflexivity.
Qed.

(* remove_repeats:  changes = nonzero([FIRST] + diff(indices).tolist()) *)
Fixpoint flags_from (prev : option nat) (ix : list nat) : list bool :=
  match ix with
  | [] => []
  | i :: t => (match prev with
               | None => negb (catg_rr_first =? 0)%Z
               | Some j => negb (Z.of_nat i - Z.of_nat j =? 0)%Z
               end) :: flags_from (Some i) t
  end.
Definition rr_g (c : cdV) : option cdV :=
  match idx c with
  | [] => None
  | _ => let kept := map snd (filter fst (combine (flags_from None (idx c)) (combine (ev c) (idx c)))) in
         Some (mk (uv c) (map snd kept) (map fst kept ++ [ndumps c]))
  end.

Lemma flags_rr : forall (ix evs : list nat) prev, length ix <= length evs ->
  map snd (filter fst (combine (flags_from prev ix) (combine evs ix))) = rr_aux prev (combine evs ix).
Proof.
  induction ix as [|i ix IH]; intros evs prev L. { destruct evs; reflexivity. }
  destruct evs as [|e evs]; [simpl in L; lia|]. cbn [combine flags_from rr_aux].
  assert (L' : length ix <= length evs) by (simpl in L; lia).
  destruct prev as [j|].
  - destruct (Z.eqb_spec (Z.of_nat i - Z.of_nat j) 0), (Nat.eqb_spec i j); try lia; cbn [negb filter fst map snd];
      rewrite IH by auto; reflexivity.
  - unfold catg_rr_first. cbn [Z.eqb negb filter fst map snd]. rewrite IH by auto. reflexivity.
Qed.

Lemma rr_g_ok (c : cdV) : length (idx c) <= length (ev c) -> rr_g c = remove_repeats c.
Proof. intros L. unfold rr_g, remove_repeats. destruct (idx c) eqn:E; [reflexivity|]. rewrite <- E in *. rewrite flags_rr by auto. reflexivity. Qed.

End Mirror.

(* _bool_per_dump with the initial value of the SOURCE (np.zeros -> false; np.empty is refused by the translator) *)
Lemma cmp_full_g {V} (dflt : V) (c : @cd V) (f : V -> bool) : WF c ->
  bool_per_dump catg_bpd_init c f = spec_cmp_full (expand_full dflt c) f /\
  length (bool_per_dump catg_bpd_init c f) = ndumps c /\
  bool_per_dump catg_bpd_init c f = repeat false (hd 0 (ev c)) ++ cmp c f.
Proof.
  intros W. change catg_bpd_init with false. split; [exact (cmp_full_spec dflt c f W)|]. split.
  - rewrite (cmp_full_spec dflt c f W). unfold spec_cmp_full. rewrite map_length. exact (expand_full_length dflt c W).
  - exact (bool_per_dump_spec c false f W).
Qed.

(* the remaining decision pieces, pointwise / as values *)
Lemma catg_pointwise :
  (forall a b : nat, catg_mask_len_cmp (Z.of_nat a) (Z.of_nat b) = (a =? b)) /\            (* mask iff len(key) == N *)
  (forall m d : nat, catg_unmatched_cmp (Z.of_nat m) (Z.of_nat d) = (d <? m)) /\           (* unmatched iff min dist > match_dist *)
  (forall a b : nat, catg_align_keep_cmp (Z.of_nat b - Z.of_nat a) catg_align_zero = (a <? b)) /\   (* keep iff diff(events) > 0 *)
  (forall n : nat, catg_cc_single_cmp (Z.of_nat n) catg_cc_single = (n =? 1)) /\           (* one part: returned as is *)
  (forall n : Z, catg_cc_next_op n catg_cc_next = (n + 1)%Z) /\                            (* inverse_splits[n + 1] *)
  catg_match_dist = 1%Z /\ catg_um_axis = 1%Z /\ catg_um_reduce_is_min = true /\
  catg_align_axis = 0%Z /\ catg_align_reduce_is_argmin = true /\
  catg_bpd_init = false /\ catg_allow_repeats_default = false /\ catg_uio_inverse_default = false /\
  catg_add_value_default_is_none = true /\
  catg_cmp_methods = [0; 1; 2; 3; 4; 5]%Z /\ catg_wrapper_cmp_methods = [0; 1; 2; 3; 4; 5]%Z.
Proof.
  unfold catg_mask_len_cmp, catg_unmatched_cmp, catg_align_keep_cmp, catg_align_zero, catg_cc_single_cmp,
    catg_cc_single, catg_cc_next_op, catg_cc_next.
  repeat split; try reflexivity; intros.
  - destruct (Z.eqb_spec (Z.of_nat a) (Z.of_nat b)), (Nat.eqb_spec a b); auto; lia.
  - destruct (Z.ltb_spec (Z.of_nat d) (Z.of_nat m)), (Nat.ltb_spec d m); auto; lia.
  - destruct (Z.ltb_spec 0 (Z.of_nat b - Z.of_nat a)), (Nat.ltb_spec a b); auto; lia.
  - destruct (Z.eqb_spec (Z.of_nat n) 1), (Nat.eqb_spec n 1); auto; lia.
Qed.

(* the model's functions that use these pieces, written with the generated ones *)
Lemma catg_model_uses {V} (veqb : V -> V -> bool) (dflt : V) :
  (forall (c : @cd V) m, getitem dflt c (KMask m) =
     if catg_mask_len_cmp (Z.of_nat (length m)) (Z.of_nat (ndumps c))
     then glist dflt c (map Z.of_nat (true_positions m 0))
     else glist dflt c (map (fun b : bool => if b then 1%Z else 0%Z) m)) /\
  (forall (c : @cd V) segs, add_unmatched veqb c segs (Z.to_nat catg_match_dist) =
     fold_left (fun c s => match add veqb c s None with Some c' => c' | None => c end)
       (filter (fun s => catg_unmatched_cmp (Z.of_nat (list_min (map (absd s) (ev c)))) catg_match_dist) segs) c) /\
  (forall (parts : list (@cd V)),
     concatenate veqb dflt parts catg_allow_repeats_default =
     match parts with
     | [] => None
     | p :: _ => if catg_cc_single_cmp (Z.of_nat (length parts)) catg_cc_single then Some p
                 else concatenate veqb dflt parts false
     end).
Proof.
  destruct catg_pointwise as (P1 & P2 & _ & P4 & _ & P6 & _).
  split; [|split].
  - intros c m. cbn [getitem]. rewrite P1. reflexivity.
  - intros c segs. unfold add_unmatched. rewrite P6. f_equal. apply filter_ext. intros s.
    change 1%Z with (Z.of_nat 1). rewrite P2. reflexivity.
  - intros parts. unfold catg_allow_repeats_default. destruct parts as [|p [|q t]]; try reflexivity.
    rewrite P4. reflexivity.
Qed.
