(* C11: the decision constants re-read from katdal/categorical.py (Gen/Generated.v) have the values that
   Model/Categorical.v hard-wires (searchsorted sides, match_dist default and comparison, diff > 0, allow_repeats). *)
From Coq Require Import ZArith List Bool.
From KV Require Import Gen.Generated.
Open Scope Z_scope.

Lemma cat_constants_ok :
  cat_lookup_side_right = true /\ cat_add_side_left = true /\ cat_partition_side_right = true /\
  cat_match_dist_default = 1 /\ cat_unmatched_is_gt = true /\ cat_align_keeps_increasing = true /\
  cat_allow_repeats_default = false /\ cat_repeats_removed_unless_allowed = true.
Proof. repeat split; reflexivity. Qed.
