(* C01 (round 5): lemmas about Model/DataSetResyn.v (v3 timestamp resynthesis, wrap handling, open-time errors). *)
From Coq Require Import ZArith QArith Qround List Bool String Lia Lqa.
From KV Require Import Base.Sx Gen.Generated Model.DataSet Model.DataSetResyn.
From KV Require Model.TimeFreq Proofs.TimeFreqP.
Import ListNotations.
Open Scope Q_scope.

Lemma Qltb_iff x y : TimeFreq.Qltb x y = true <-> x < y.
Proof. destruct (TimeFreqP.Qltb_spec x y); split; auto; discriminate. Qed.
Lemma Qltb_false x y : TimeFreq.Qltb x y = false <-> y <= x.
Proof.
  destruct (TimeFreqP.Qltb_spec x y) as [H | H]; split; intro; try discriminate; auto.
  - exfalso. apply (Qlt_irrefl x). eapply Qlt_le_trans; eauto.
  - apply Qnot_lt_le; auto.
Qed.

(* the operators found in the source are the ones the theorems are about *)
Lemma cmps_translated : c_pick = 3%Z /\ c_loop = 3%Z /\ c_wraps = 1%Z.
Proof. vm_compute. auto. Qed.

(* ------------------------------------------------------------------------------------------------ *)
(* the while loop                                                                                    *)
Lemma origin_continue_iff ss origin wrap : origin_continue ss origin wrap = true <-> wrap < ss - origin.
Proof. unfold origin_continue. destruct cmps_translated as (_ & -> & _). cbn [cmpQ]. apply Qltb_iff. Qed.

Lemma inject_Z_minus1 z : inject_Z (z - 1) == inject_Z z - inject_Z 1.
Proof. unfold Z.sub. rewrite inject_Z_plus, inject_Z_opp. ring. Qed.

Lemma div_gt x w k : 0 < w -> (inject_Z k < x / w <-> inject_Z k * w < x).
Proof.
  intro Hw. split; intro H.
  - apply Qmult_lt_r with (z := / w). { apply Qinv_lt_0_compat; auto. }
    setoid_replace (inject_Z k * w * / w) with (inject_Z k) by (field; intro E; rewrite E in Hw; inversion Hw).
    exact H.
  - apply Qmult_lt_r with (z := w); auto.
    setoid_replace (x / w * w) with x by (field; intro E; rewrite E in Hw; inversion Hw). exact H.
Qed.
Lemma div_le x w k : 0 < w -> (x / w <= inject_Z k <-> x <= inject_Z k * w).
Proof.
  intro Hw. split; intro H.
  - apply Qnot_lt_le. intro C. apply div_gt in C; auto. apply (Qlt_irrefl (x / w)). eapply Qle_lt_trans; eauto.
  - apply Qnot_lt_le. intro C. apply div_gt in C; auto. apply (Qlt_irrefl x). eapply Qle_lt_trans; eauto.
Qed.

Lemma origin_steps_loop ss origin wrap :
  0 < wrap ->
  let k := origin_steps ss origin wrap in
  (0 <= k)%Z /\ origin_continue ss (origin + inject_Z k * wrap) wrap = false /\
  forall j : Z, (0 <= j < k)%Z -> origin_continue ss (origin + inject_Z j * wrap) wrap = true.
Proof.
  intros Hw k. unfold origin_steps in k.
  destruct (origin_continue ss origin wrap) eqn:E; subst k.
  - apply origin_continue_iff in E.
    set (x := (ss - origin) / wrap).
    assert (H1 : inject_Z 1 < x). { apply div_gt; auto. rewrite Qmult_1_l. exact E. }
    pose proof (Qle_ceiling x) as Hc. pose proof (Qceiling_lt x) as Hl.
    assert (Hk : (1 < Qceiling x)%Z \/ (Qceiling x <= 1)%Z) by lia.
    assert (Hge : (2 <= Qceiling x)%Z).
    { destruct Hk as [?|Hk]; [lia|]. exfalso. rewrite Zle_Qle in Hk. apply (Qlt_irrefl x).
      eapply Qle_lt_trans; [exact Hc|]. eapply Qle_lt_trans; [exact Hk|exact H1]. }
    split; [lia|]. split.
    + destruct (origin_continue ss (origin + inject_Z (Qceiling x - 1) * wrap) wrap) eqn:E2; auto.
      apply origin_continue_iff in E2. exfalso.
      assert (inject_Z (Qceiling x) * wrap < ss - origin).
      { rewrite inject_Z_minus1 in E2. setoid_replace (inject_Z (Qceiling x) * wrap) with
          (wrap + (inject_Z (Qceiling x) - inject_Z 1) * wrap) by ring.
        setoid_replace (ss - origin) with ((ss - (origin + (inject_Z (Qceiling x) - inject_Z 1) * wrap))
                                            + (inject_Z (Qceiling x) - inject_Z 1) * wrap) by ring.
        apply Qplus_lt_l. exact E2. }
      apply div_gt in H; auto. apply (Qlt_irrefl x). eapply Qle_lt_trans; [exact Hc|exact H].
    + intros j Hj. apply origin_continue_iff.
      assert (Hj1 : inject_Z (j + 1) <= inject_Z (Qceiling x - 1)) by (rewrite <- Zle_Qle; lia).
      assert (inject_Z (j + 1) * wrap < ss - origin).
      { apply div_gt; auto. eapply Qle_lt_trans; [exact Hj1|exact Hl]. }
      rewrite inject_Z_plus in H.
      setoid_replace (ss - (origin + inject_Z j * wrap)) with ((ss - origin) - inject_Z j * wrap) by ring.
      setoid_replace wrap with ((inject_Z j + inject_Z 1) * wrap - inject_Z j * wrap) at 1 by ring.
      apply Qplus_lt_l. exact H.
  - split; [lia|]. split; [|intros; lia].
    destruct (origin_continue ss (origin + inject_Z 0 * wrap) wrap) eqn:E2; auto.
    apply origin_continue_iff in E2.
    assert (H : wrap < ss - origin).
    { setoid_replace (ss - origin) with (ss - (origin + inject_Z 0 * wrap)) by ring. exact E2. }
    apply origin_continue_iff in H. congruence.
Qed.

(* ------------------------------------------------------------------------------------------------ *)
(* Forall2 Qeq as an equivalence on lists                                                            *)
Lemma F2_refl l : Forall2 Qeq l l.
Proof. induction l; constructor; auto. reflexivity. Qed.
Lemma F2_sym l l' : Forall2 Qeq l l' -> Forall2 Qeq l' l.
Proof. induction 1; constructor; auto. symmetry; auto. Qed.
Lemma F2_trans l1 l2 l3 : Forall2 Qeq l1 l2 -> Forall2 Qeq l2 l3 -> Forall2 Qeq l1 l3.
Proof.
  intro H. revert l3. induction H; intros l3 H3; inversion H3; subst; constructor; auto.
  etransitivity; eauto.
Qed.
Lemma F2_len l l' : Forall2 Qeq l l' -> List.length l = List.length l'.
Proof. induction 1; simpl; auto. Qed.
Lemma F2_map (g h : Q -> Q) l l' :
  (forall x y, x == y -> g x == h y) -> Forall2 Qeq l l' -> Forall2 Qeq (map g l) (map h l').
Proof. intros Hg. induction 1; simpl; constructor; auto. Qed.
Lemma F2_last l l' : Forall2 Qeq l l' -> last l 0 == last l' 0.
Proof.
  induction 1; simpl; [reflexivity|].
  destruct l; inversion H0; subst; auto.
Qed.
Lemma F2_removelast l l' : Forall2 Qeq l l' -> Forall2 Qeq (removelast l) (removelast l').
Proof.
  induction 1; simpl; [constructor|].
  destruct l; inversion H0; subst; [constructor|]. constructor; auto.
Qed.
Lemma F2_drop_dup l l' : Forall2 Qeq l l' -> Forall2 Qeq (drop_dup l) (drop_dup l').
Proof.
  intro H. unfold drop_dup. rewrite <- (F2_len _ _ H).
  assert (E : Qeq_bool (last l 0) (last (removelast l) 0) = Qeq_bool (last l' 0) (last (removelast l') 0)).
  { apply eq_true_iff_eq. rewrite !Qeq_bool_iff.
    rewrite (F2_last _ _ H), (F2_last _ _ (F2_removelast _ _ H)). tauto. }
  rewrite E. destruct (_ && _); auto. apply F2_removelast; auto.
Qed.

(* ------------------------------------------------------------------------------------------------ *)
(* cumulative sums of differences                                                                    *)
Lemma cumsum_len : forall ds a, List.length (cumsum a ds) = S (List.length ds).
Proof. induction ds; intros; simpl; auto. Qed.
Lemma diffs_len : forall r a, List.length (diffs (a :: r)) = List.length r.
Proof. induction r; intros; simpl; auto. simpl in IHr. rewrite IHr. auto. Qed.
Lemma unwrap_len w l : List.length (unwrap w l) = List.length l.
Proof.
  destruct l as [|a r]; auto. unfold unwrap. destruct (existsb _ _); auto.
  rewrite cumsum_len, map_length, diffs_len. auto.
Qed.
Lemma cumsum_diffs : forall r a a', a' == a -> Forall2 Qeq (cumsum a' (diffs (a :: r))) (a :: r).
Proof.
  induction r as [|b r IH]; intros a a' H.
  - simpl. constructor; auto.
  - change (diffs (a :: b :: r)) with ((b - a) :: diffs (b :: r)).
    cbn [cumsum]. constructor; auto. apply IH. rewrite H. ring.
Qed.
Lemma no_wrap_map w ds : existsb (is_wrap w) ds = false -> map (fix_delta w) ds = ds.
Proof.
  induction ds; simpl; auto. intro H. apply orb_false_iff in H. destruct H as [H1 H2].
  unfold fix_delta at 1. rewrite H1. f_equal; auto.
Qed.

Section Unwrap.
Variables (tsc og : Q).
Hypothesis Hts : 0 < tsc.
Let R (n : Q) := n / tsc + og.
Let W := q_wrap tsc.

Lemma tsc_nz : ~ tsc == 0.
Proof. intro E. rewrite E in Hts. inversion Hts. Qed.

Lemma is_wrap_counts n n' : is_wrap W (R n' - R n) = TimeFreq.Qltb (n' - n) (- two47).
Proof.
  apply eq_true_iff_eq. unfold is_wrap. destruct cmps_translated as (_ & _ & ->). cbn [cmpQ].
  rewrite !Qltb_iff.
  assert (E1 : R n' - R n == (n' - n) * / tsc) by (unfold R; field; apply tsc_nz).
  assert (E2 : q_thr W == (- two47) * / tsc).
  { unfold q_thr, gen_v3_wrap_threshold, W, q_wrap, gen_v3_adc_wrap, two47.
    setoid_replace (inject_Z 281474976710656) with (inject_Z 2 * inject_Z 140737488355328) by reflexivity.
    field. apply tsc_nz. }
  rewrite E1, E2. apply Qmult_lt_r. apply Qinv_lt_0_compat; auto.
Qed.

Lemma W_counts : W == two48 / tsc.
Proof. reflexivity. Qed.

Lemma cumsum_counts : forall r n k a, a == R (n + inject_Z k * two48) ->
  Forall2 Qeq (cumsum a (map (fix_delta W) (diffs (map R (n :: r))))) (map R ((n + inject_Z k * two48) :: true_counts k n r)).
Proof.
  induction r as [|n' r IH]; intros n k a Ha.
  - simpl. constructor; auto.
  - change (diffs (map R (n :: n' :: r))) with ((R n' - R n) :: diffs (map R (n' :: r))).
    cbn [map cumsum true_counts]. constructor; auto.
    apply IH. unfold fix_delta. rewrite is_wrap_counts.
    destruct (TimeFreq.Qltb (n' - n) (- two47)).
    + rewrite Ha, W_counts, inject_Z_plus. unfold R. field. apply tsc_nz.
    + rewrite Ha. unfold R. field. apply tsc_nz.
Qed.

Lemma unwrap_counts ns : Forall2 Qeq (unwrap W (map R ns)) (map R (unwrapped_counts ns)).
Proof.
  destruct ns as [|n r]; [constructor|].
  assert (H0 : R n == R (n + inject_Z 0 * two48)) by (unfold R; field; apply tsc_nz).
  pose proof (cumsum_counts r n 0%Z (R n) H0) as H.
  assert (G : Forall2 Qeq (cumsum (R n) (map (fix_delta W) (diffs (map R (n :: r))))) (map R (unwrapped_counts (n :: r)))).
  { eapply F2_trans; [exact H|]. cbn [unwrapped_counts map]. constructor; [symmetry; exact H0 | apply F2_refl]. }
  unfold unwrap. cbn [map]. cbn [map] in G.
  destruct (existsb (is_wrap W) (diffs (R n :: map R r))) eqn:E; auto.
  eapply F2_trans; [|exact G]. rewrite (no_wrap_map _ _ E).
  apply F2_sym. apply cumsum_diffs. reflexivity.
Qed.
End Unwrap.

(* ------------------------------------------------------------------------------------------------ *)
(* H5DataV3.__init__                                                                                 *)
Lemma resyn_as_counts f o :
  map (resyn1 f o) (rf_ts f) = map (fun n => n / eff_scale f o + final_origin f o) (map (counter f) (rf_ts f)).
Proof. rewrite map_map. reflexivity. Qed.

Lemma mid_documented f o cb x y :
  rf_ref f <> Some false -> (rf_ref f = None -> rf_cbf_dump f <> None) -> cb = rf_cbf_dump f -> x == y ->
  lin3 (mid_form f) x (match cb with Some d => d | None => 0 end) (ro_offset o) == spec_mid f o y.
Proof.
  intros H1 H2 -> E. unfold mid_form, spec_mid.
  destruct (rf_ref f) as [[|]|]; destruct (rf_cbf_dump f); try congruence;
    try (exfalso; apply H2; reflexivity); unfold lin3, tconv_v3_centroid, tconv_v3_start, coef; cbn [fst snd Z.to_pos]; rewrite E; ring.
Qed.

Lemma open_v3_ok_inv f o ts og :
  open_v3 f o = ROk ts og ->
  rf_ref f <> Some false /\ (rf_ref f = None -> rf_cbf_dump f <> None) /\ rf_ts f <> [] /\
  Z.of_nat (List.length (rf_ts f)) = rf_rows f /\ og = final_origin f o /\
  ts = map (fun t => lin3 (mid_form f) t (match rf_cbf_dump f with Some d => d | None => 0 end) (ro_offset o))
           (drop_dup (unwrap (wrap_period f o) (map (resyn1 f o) (rf_ts f)))).
Proof.
  unfold open_v3. intro H.
  assert (L : List.length (unwrap (wrap_period f o) (map (resyn1 f o) (rf_ts f))) = List.length (rf_ts f))
    by (rewrite unwrap_len, map_length; reflexivity).
  destruct (rf_ref f) as [[|]|] eqn:Er; destruct (rf_cbf_dump f) eqn:Ec; try discriminate;
    destruct (rf_ts f) eqn:Et; try discriminate; rewrite <- Et in *;
    destruct (negb _) eqn:En; try discriminate; apply negb_false_iff, Z.eqb_eq in En; rewrite L in En;
    injection H as <- <-; repeat split; auto; try congruence; rewrite Et; discriminate.
Qed.

Theorem open_v3_documented f o ts og :
  0 < eff_scale f o -> open_v3 f o = ROk ts og ->
  og = final_origin f o /\ Forall2 Qeq ts (map (spec_mid f o) (drop_dup (spec_v3_times f o og))).
Proof.
  intros Hs H. apply open_v3_ok_inv in H. destruct H as (H1 & H2 & _ & _ & -> & ->). split; auto.
  apply F2_map. { intros x y E. apply mid_documented; auto. }
  apply F2_drop_dup. rewrite resyn_as_counts. unfold spec_v3_times.
  apply (unwrap_counts (eff_scale f o) (final_origin f o) Hs).
Qed.

Theorem open_v3_opens f o :
  rf_ref f <> Some false -> (rf_ref f = None -> rf_cbf_dump f <> None) -> rf_ts f <> [] ->
  Z.of_nat (List.length (rf_ts f)) = rf_rows f ->
  exists ts, open_v3 f o = ROk ts (final_origin f o).
Proof.
  intros H1 H2 H3 H4. unfold open_v3.
  assert (L : List.length (unwrap (wrap_period f o) (map (resyn1 f o) (rf_ts f))) = List.length (rf_ts f))
    by (rewrite unwrap_len, map_length; reflexivity).
  assert (En : negb (Z.of_nat (List.length (unwrap (wrap_period f o) (map (resyn1 f o) (rf_ts f)))) =? rf_rows f)%Z = false)
    by (rewrite L; apply negb_false_iff, Z.eqb_eq; exact H4).
  destruct (rf_ref f) as [[|]|] eqn:Er; destruct (rf_cbf_dump f) eqn:Ec; try congruence;
    try (exfalso; apply H2; reflexivity); destruct (rf_ts f) eqn:Et; try congruence; rewrite <- Et in *; rewrite En;
    eexists; reflexivity.
Qed.

(* an error has exactly its documented cause *)
Theorem open_v3_error_cause f o c :
  open_v3 f o = RErr c ->
  (c = 1%Z /\ rf_ref f = Some false) \/ (c = 2%Z /\ rf_ref f = None /\ rf_cbf_dump f = None) \/
  (c = 4%Z /\ rf_ts f = []) \/ (c = 3%Z /\ Z.of_nat (List.length (rf_ts f)) <> rf_rows f).
Proof.
  unfold open_v3. intro H.
  assert (L : List.length (unwrap (wrap_period f o) (map (resyn1 f o) (rf_ts f))) = List.length (rf_ts f))
    by (rewrite unwrap_len, map_length; reflexivity).
  destruct (rf_ref f) as [[|]|] eqn:Er; destruct (rf_cbf_dump f) eqn:Ec;
    try (injection H as <-; tauto);
    (destruct (rf_ts f) eqn:Et; [injection H as <-; tauto|]); rewrite <- Et in *;
    (destruct (negb _) eqn:En; [|discriminate]); injection H as <-;
    apply negb_true_iff, Z.eqb_neq in En; rewrite L in En; tauto.
Qed.

(* no override, sync time recent enough, no wrap: the resynthesis is the identity *)
Lemma true_counts_nowrap : forall r n,
  existsb (fun d => TimeFreq.Qltb d (- two47)) (diffs (n :: r)) = false -> Forall2 Qeq (true_counts 0 n r) r.
Proof.
  induction r as [|n' r IH]; intros n H; [constructor|].
  change (diffs (n :: n' :: r)) with ((n' - n) :: diffs (n' :: r)) in H. cbn [existsb] in H.
  apply orb_false_iff in H. destruct H as [Ha Hb]. cbn [true_counts]. rewrite Ha.
  constructor; [ring | apply IH; exact Hb].
Qed.

Theorem open_v3_identity f o ts og :
  ro_scale o = None -> ro_origin o = None -> 0 < rf_scale f ->
  origin_steps (sensor_start f) (rf_sync f) (wrap_period f o) = 0%Z ->
  existsb (fun d => TimeFreq.Qltb d (- two47)) (diffs (map (counter f) (rf_ts f))) = false ->
  open_v3 f o = ROk ts og ->
  og == rf_sync f /\ Forall2 Qeq ts (map (spec_mid f o) (drop_dup (rf_ts f))).
Proof.
  intros Hsc Hor Hpos Hst Hnw H.
  assert (Es : eff_scale f o = rf_scale f) by (unfold eff_scale; rewrite Hsc; reflexivity).
  assert (Eo : origin0 f o = rf_sync f) by (unfold origin0; rewrite Hor; reflexivity).
  assert (Ef : final_origin f o == rf_sync f) by (unfold final_origin; rewrite Eo, Hst; ring).
  destruct (open_v3_documented f o ts og) as [-> HF]; [rewrite Es; auto | auto |]. split; auto.
  eapply F2_trans; [exact HF|]. apply F2_map. { intros x y E. unfold spec_mid. destruct (rf_ref f), (rf_cbf_dump f); rewrite E; reflexivity. }
  apply F2_drop_dup. unfold spec_v3_times. rewrite Es.
  assert (Hnz : ~ rf_scale f == 0) by (intro E; rewrite E in Hpos; inversion Hpos).
  destruct (rf_ts f) as [|t r]; [constructor|]. cbn [map unwrapped_counts] in *.
  constructor. { rewrite Ef. unfold counter. field. auto. }
  pose proof (true_counts_nowrap _ _ Hnw) as HT.
  clear - HT Ef Hnz. revert HT. generalize (true_counts 0 (counter f t) (map (counter f) r)).
  induction r; intros l HT; inversion HT as [|x y l1 l2 Hxy Hl]; subst; cbn [map]; constructor; auto.
  rewrite Hxy, Ef. unfold counter. field. auto.
Qed.

(* the sync time finally used is the documented one: the first origin0 + k * wrap that is at most one wrap period
   before the start of the sensor record *)
Theorem final_origin_documented f o :
  0 < wrap_period f o -> spec_origin_ok (sensor_start f) (origin0 f o) (wrap_period f o) (final_origin f o).
Proof.
  intro Hw. destruct (origin_steps_loop (sensor_start f) (origin0 f o) (wrap_period f o) Hw) as (H0 & H1 & H2).
  exists (origin_steps (sensor_start f) (origin0 f o) (wrap_period f o)). split; auto. split; [reflexivity|]. split.
  - unfold final_origin. apply Qnot_lt_le. intro C. apply origin_continue_iff in C. congruence.
  - intros j Hj. apply origin_continue_iff. auto.
Qed.

(* ------------------------------------------------------------------------------------------------ *)
(* non-vacuity                                                                                       *)
Definition ok_eqb (r : rres) (ts : list Q) (og : Q) : bool :=
  match r with
  | ROk l g => Qeq_bool g og && (List.length l =? List.length ts)%nat
               && forallb (fun p => Qeq_bool (fst p) (snd p)) (combine l ts)
  | RErr _ => false
  end.
(* a counter of 2^48 samples at 2^45 samples / s wraps every 8 s; sync time 100; dumps every 2 s from 101; the counter
   wraps between the third and fourth dump (stored 99 = 107 - 8); CBF dumps of 0.5 s, timestamps at the start *)
Definition ex_file (sens : list (Q * Q)) : rfile :=
  {| rf_ts := [101; 103; 105; 99; 101]; rf_rows := 5; rf_dump := 2; rf_cbf_dump := Some (1 # 2); rf_ref := None;
     rf_scale := inject_Z (2 ^ 45); rf_sync := 100; rf_sens := sens |}.
Definition ex_open (sc og : option Q) : ropen := {| ro_scale := sc; ro_origin := og; ro_offset := 0 |}.

Lemma resyn_examples :
  (* the wrap is undone *)
  ok_eqb (open_v3 (ex_file []) (ex_open None None)) [101 + (1#4); 103 + (1#4); 105 + (1#4); 107 + (1#4); 109 + (1#4)] 100 = true
  (* a sensor record of 50 s starting at 150 (longer than last + dump - first = 2 s of the STORED timestamps): sync
     time moved forward by 6 wrap periods; the record of 1 s before it in the cache is passed over *)
  /\ ok_eqb (open_v3 (ex_file [(120, 121); (150, 200)]) (ex_open None None))
            [149 + (1#4); 151 + (1#4); 153 + (1#4); 155 + (1#4); 157 + (1#4)] 148 = true
  (* time_scale = 2^44 (half the rate): intervals double, wrap period 16 s: the decrease of 12 s is still a wrap *)
  /\ ok_eqb (open_v3 (ex_file []) (ex_open (Some (inject_Z (2 ^ 44))) None))
            [102 + (1#4); 106 + (1#4); 110 + (1#4); 114 + (1#4); 118 + (1#4)] 100 = true
  (* time_origin = 1000 *)
  /\ ok_eqb (open_v3 (ex_file []) (ex_open None (Some 1000)))
            [1001 + (1#4); 1003 + (1#4); 1005 + (1#4); 1007 + (1#4); 1009 + (1#4)] 1000 = true
  (* the error branches *)
  /\ open_v3 {| rf_ts := [101; 103]; rf_rows := 3; rf_dump := 2; rf_cbf_dump := Some (1 # 2); rf_ref := None;
                rf_scale := 1; rf_sync := 100; rf_sens := [] |} (ex_open None None) = RErr 3
  /\ open_v3 {| rf_ts := [101; 103]; rf_rows := 2; rf_dump := 2; rf_cbf_dump := None; rf_ref := None;
                rf_scale := 1; rf_sync := 100; rf_sens := [] |} (ex_open None None) = RErr 2
  /\ open_v3 {| rf_ts := [101; 103]; rf_rows := 2; rf_dump := 2; rf_cbf_dump := None; rf_ref := Some false;
                rf_scale := 1; rf_sync := 100; rf_sens := [] |} (ex_open None None) = RErr 1
  (* centroid timestamps need no CBF dump period; a duplicate final dump is dropped *)
  /\ ok_eqb (open_v3 {| rf_ts := [101; 103; 103]; rf_rows := 3; rf_dump := 2; rf_cbf_dump := None; rf_ref := Some true;
                        rf_scale := 1; rf_sync := 100; rf_sens := [] |} {| ro_scale := None; ro_origin := None; ro_offset := 1#2 |})
            [101 + (1#2); 103 + (1#2)] 100 = true.
Proof. vm_compute. repeat split; reflexivity. Qed.
