(* C11: CategoricalData.align(segments) -- properties of the model Model/Categorical.v:align.
   nearest-segment projection (numpy argmin = first minimum), its monotonicity on strictly increasing
   segment starts, well-formedness of the aligned container and the characterisation of its per-dump
   expansion (spec_align).  Self-contained: stdlib + Base.Sx + Model.Categorical only. *)
From Coq Require Import ZArith List Bool Arith Lia.
From KV Require Import Base.Sx Model.Categorical.
Import ListNotations.
Open Scope nat_scope.

(* ---------- generic list helpers ---------- *)
Lemma al_nth_map_lt {A B} (f : A -> B) : forall l i d d',
  i < length l -> nth i (map f l) d = f (nth i l d').
Proof.
  induction l as [|a l IH]; intros i d d' Hi; simpl in *; [lia|].
  destruct i; [reflexivity|]. apply IH; lia.
Qed.

Lemma al_chain_lt_all : forall r s, chain lt s r -> forall k, k < length r -> s < nth k r 0.
Proof.
  induction r as [|e r IH]; intros s H k Hk; simpl in *; [lia|].
  destruct H as [H1 H2]. destruct k; [assumption|].
  specialize (IH e H2 k). lia.
Qed.

Lemma al_incr_tl : forall s r, incr (s :: r) -> incr r.
Proof. intros s [|e r]; simpl; tauto. Qed.

Lemma incr_nth_lt : forall l i j, incr l -> i < j -> j < length l -> nth i l 0 < nth j l 0.
Proof.
  induction l as [|s r IH]; intros i j H Hij Hj; simpl in Hj; [lia|].
  destruct j; [lia|]. destruct i.
  - simpl. apply al_chain_lt_all; [exact H | lia].
  - simpl. apply IH; [eapply al_incr_tl; eauto | lia | lia].
Qed.

Lemma incr_nth_le : forall l i j, incr l -> i <= j -> j < length l -> nth i l 0 <= nth j l 0.
Proof.
  intros l i j H Hij Hj. destruct (Nat.eq_dec i j) as [->|Hne]; [lia|].
  apply Nat.lt_le_incl, incr_nth_lt; auto; lia.
Qed.

Lemma incr_nth_lt_inv : forall l i j, incr l -> i < length l -> j < length l ->
  nth i l 0 < nth j l 0 -> i < j.
Proof.
  intros l i j H Hi Hj Hlt. destruct (Nat.lt_ge_cases i j) as [|Hge]; [assumption|].
  pose proof (incr_nth_le l j i H Hge Hi). lia.
Qed.

(* ---------- 1. argmin = index of the first minimum ---------- *)
Lemma argmin_from_spec : forall l pre besti bestv,
  besti < length pre -> nth besti pre 0 = bestv ->
  (forall i, i < length pre -> bestv <= nth i pre 0) ->
  (forall i, i < besti -> bestv < nth i pre 0) ->
  argmin_from l (length pre) besti bestv < length (pre ++ l) /\
  (forall i, i < length (pre ++ l) ->
     nth (argmin_from l (length pre) besti bestv) (pre ++ l) 0 <= nth i (pre ++ l) 0) /\
  (forall i, i < argmin_from l (length pre) besti bestv ->
     nth (argmin_from l (length pre) besti bestv) (pre ++ l) 0 < nth i (pre ++ l) 0).
Proof.
  induction l as [|x t IH]; intros pre besti bestv Hb Hn Hall Hfirst.
  - simpl. rewrite app_nil_r. rewrite Hn. auto.
  - assert (E : pre ++ x :: t = (pre ++ [x]) ++ t) by (rewrite <- app_assoc; reflexivity).
    assert (L : S (length pre) = length (pre ++ [x])) by (rewrite app_length; simpl; lia).
    rewrite E. simpl argmin_from. rewrite L.
    destruct (Nat.ltb_spec x bestv) as [Hlt|Hge].
    + apply IH.
      * lia.
      * rewrite app_nth2 by lia. rewrite Nat.sub_diag. reflexivity.
      * intros i Hi. destruct (Nat.lt_ge_cases i (length pre)) as [Hi'|Hi'].
        -- rewrite app_nth1 by assumption. specialize (Hall i Hi'). lia.
        -- assert (i = length pre) by lia. subst i.
           rewrite app_nth2 by lia. rewrite Nat.sub_diag. simpl. lia.
      * intros i Hi. rewrite app_nth1 by assumption. specialize (Hall i Hi). lia.
    + apply IH.
      * lia.
      * rewrite app_nth1 by assumption. assumption.
      * intros i Hi. destruct (Nat.lt_ge_cases i (length pre)) as [Hi'|Hi'].
        -- rewrite app_nth1 by assumption. apply Hall; assumption.
        -- assert (i = length pre) by lia. subst i.
           rewrite app_nth2 by lia. rewrite Nat.sub_diag. simpl. lia.
      * intros i Hi. rewrite app_nth1 by lia. apply Hfirst; assumption.
Qed.

Lemma argmin_spec : forall l, l <> [] ->
  let j := argmin l in
  j < length l /\
  (forall i, i < length l -> nth j l 0 <= nth i l 0) /\
  (forall i, i < j -> nth j l 0 < nth i l 0).
Proof.
  intros [|h t] Hne; [congruence|]. cbv zeta. unfold argmin.
  pose proof (argmin_from_spec t [h] 0 h) as H. simpl in H.
  apply H.
  - lia.
  - reflexivity.
  - intros i Hi. assert (i = 0) by lia. subst. lia.
  - intros i Hi. lia.
Qed.

(* ---------- 2-6. nearest segment start ---------- *)
Lemma nearest_argmin : forall segs e, segs <> [] ->
  argmin (map (absd e) segs) < length segs /\
  nearest segs e = nth (argmin (map (absd e) segs)) segs 0 /\
  (forall i, i < length segs ->
     absd e (nth (argmin (map (absd e) segs)) segs 0) <= absd e (nth i segs 0)) /\
  (forall i, i < argmin (map (absd e) segs) ->
     absd e (nth (argmin (map (absd e) segs)) segs 0) < absd e (nth i segs 0)).
Proof.
  intros segs e Hne.
  assert (Hm : map (absd e) segs <> []) by (destruct segs; simpl; congruence).
  destruct (argmin_spec _ Hm) as (Hj & Hmin & Hfirst).
  rewrite map_length in Hj, Hmin.
  split; [assumption|]. split; [reflexivity|]. split.
  - intros i Hi. specialize (Hmin i Hi).
    rewrite (al_nth_map_lt (absd e) segs _ 0 0 Hj) in Hmin.
    rewrite (al_nth_map_lt (absd e) segs _ 0 0 Hi) in Hmin. assumption.
  - intros i Hi. specialize (Hfirst i Hi).
    rewrite (al_nth_map_lt (absd e) segs _ 0 0 Hj) in Hfirst.
    rewrite (al_nth_map_lt (absd e) segs i 0 0) in Hfirst by lia. assumption.
Qed.

Lemma nearest_In : forall segs e, segs <> [] -> In (nearest segs e) segs.
Proof.
  intros segs e Hne. destruct (nearest_argmin segs e Hne) as (Hj & E & _).
  rewrite E. apply nth_In. assumption.
Qed.

Lemma nearest_min : forall segs e s, segs <> [] -> In s segs ->
  absd e (nearest segs e) <= absd e s.
Proof.
  intros segs e s Hne Hin. destruct (nearest_argmin segs e Hne) as (Hj & E & Hmin & _).
  destruct (In_nth segs s 0 Hin) as (i & Hi & Ei).
  rewrite E, <- Ei. apply Hmin. assumption.
Qed.

Lemma nearest_tie : forall segs e s, incr segs -> In s segs ->
  absd e s = absd e (nearest segs e) -> nearest segs e <= s.
Proof.
  intros segs e s Hinc Hin Heq.
  assert (Hne : segs <> []) by (destruct segs; [destruct Hin | congruence]).
  destruct (nearest_argmin segs e Hne) as (Hj & E & _ & Hfirst).
  destruct (In_nth segs s 0 Hin) as (i & Hi & Ei).
  rewrite E in *. subst s.
  destruct (Nat.lt_ge_cases i (argmin (map (absd e) segs))) as [Hlt|Hge].
  - specialize (Hfirst i Hlt). lia.
  - apply incr_nth_le; assumption.
Qed.

Lemma nearest_fix : forall segs e, In e segs -> nearest segs e = e.
Proof.
  intros segs e Hin.
  assert (Hne : segs <> []) by (destruct segs; [destruct Hin | congruence]).
  pose proof (nearest_min segs e e Hne Hin) as H.
  unfold absd in H. lia.
Qed.

Lemma nearest_monotone : forall segs e e', incr segs -> segs <> [] -> e <= e' ->
  nearest segs e <= nearest segs e'.
Proof.
  intros segs e e' Hi Hne Hle.
  destruct (nearest_argmin segs e Hne) as (Hj & Ej & Mj & Fj).
  destruct (nearest_argmin segs e' Hne) as (Hj' & Ej' & Mj' & Fj').
  rewrite Ej, Ej'.
  remember (argmin (map (absd e) segs)) as j.
  remember (argmin (map (absd e') segs)) as j'.
  destruct (Nat.le_gt_cases (nth j segs 0) (nth j' segs 0)) as [|Hgt]; [assumption|exfalso].
  assert (Hjj : j' < j) by (apply (incr_nth_lt_inv segs); auto).
  specialize (Fj j' Hjj). specialize (Mj' j Hj). unfold absd in *. lia.
Qed.

(* ---------- sorted_unique / index_nat ---------- *)
Lemma al_list_max_ge : forall l i, In i l -> i <= list_max l.
Proof.
  induction l as [|a l IH]; intros i Hin; [destruct Hin|].
  change (list_max (a :: l)) with (Nat.max a (list_max l)).
  destruct Hin as [->|Hin]; [lia|]. specialize (IH i Hin). lia.
Qed.

Lemma al_mem_nat_In : forall i l, mem_nat i l = true <-> In i l.
Proof.
  intros i l. unfold mem_nat. rewrite existsb_exists. split.
  - intros (x & Hx & E). apply Nat.eqb_eq in E. subst. assumption.
  - intros H. exists i. split; [assumption|apply Nat.eqb_refl].
Qed.

Lemma al_su_In : forall l i, In i (sorted_unique l) <-> In i l.
Proof.
  intros l i. unfold sorted_unique. rewrite filter_In, in_seq, al_mem_nat_In.
  split; [tauto|]. intros H. split; [|assumption].
  apply al_list_max_ge in H. lia.
Qed.

Lemma al_su_NoDup : forall l, NoDup (sorted_unique l).
Proof. intros l. unfold sorted_unique. apply NoDup_filter, seq_NoDup. Qed.

Lemma al_index_nat_lt : forall l i, In i l -> index_nat i l < length l.
Proof.
  induction l as [|x t IH]; intros i Hin; [destruct Hin|]. simpl.
  destruct (Nat.eqb_spec x i) as [|Hne]; [lia|].
  destruct Hin as [|Hin]; [congruence|]. specialize (IH i Hin). lia.
Qed.

Lemma al_index_nat_nth {B} (g : nat -> B) (d : B) : forall l i,
  In i l -> nth (index_nat i l) (map g l) d = g i.
Proof.
  induction l as [|x t IH]; intros i Hin; [destruct Hin|]. simpl.
  destruct (Nat.eqb_spec x i) as [->|Hne]; [reflexivity|].
  destruct Hin as [|Hin]; [congruence|]. apply IH; assumption.
Qed.

Lemma al_NoDup_map_nth {B} (u : list B) (d : B) : forall l,
  NoDup u -> NoDup l -> Forall (fun i => i < length u) l ->
  NoDup (map (fun i => nth i u d) l).
Proof.
  intros l Hu. induction l as [|a l IH]; intros Hl Hf; simpl; [constructor|].
  inversion Hl as [|? ? Hnin Hl']; subst. inversion Hf as [|? ? Ha Hf']; subst.
  constructor; [|apply IH; assumption].
  intros Hin. apply in_map_iff in Hin. destruct Hin as (b & Eb & Hb).
  rewrite Forall_forall in Hf'. pose proof (Hf' b Hb) as Hbl.
  assert (b = a) by (apply (proj1 (NoDup_nth u d) Hu); assumption).
  subst. contradiction.
Qed.

Lemma al_filter_length {A} (f : A -> bool) : forall l, length (filter f l) <= length l.
Proof. induction l as [|a l IH]; simpl; [lia|]. destruct (f a); simpl; lia. Qed.

Lemma al_last_In : forall l (a : nat), In (last (a :: l) 0) (a :: l).
Proof.
  induction l as [|b l IH]; intros a; [left; reflexivity|].
  change (last (a :: b :: l) 0) with (last (b :: l) 0). right. apply IH.
Qed.

Lemma al_last_map {A B} (f : A -> B) : forall l a d d',
  last (map f (a :: l)) d = f (last (a :: l) d').
Proof.
  induction l as [|b l IH]; intros a d d'; [reflexivity|].
  change (last (map f (a :: b :: l)) d) with (last (map f (b :: l)) d).
  change (last (a :: b :: l) d') with (last (b :: l) d'). apply IH.
Qed.

(* ---------- the "keep position k iff proj k < proj (k+1)" filter, in the shape used by the model ---------- *)
Definition al_kept {A} (proj : list nat) (xs : list A) : list (nat * nat * A) :=
  filter (fun t => fst (fst t) <? snd (fst t)) (combine (combine proj (tl proj)) xs).
Arguments al_kept : simpl never.

Lemma al_kept_cons {A} : forall p0 p1 ps (x : A) xs,
  al_kept (p0 :: p1 :: ps) (x :: xs) =
  if p0 <? p1 then (p0, p1, x) :: al_kept (p1 :: ps) xs else al_kept (p1 :: ps) xs.
Proof. reflexivity. Qed.

Lemma al_kept_length {A} : forall proj (xs : list A), length (al_kept proj xs) <= length xs.
Proof.
  intros proj xs. unfold al_kept.
  eapply Nat.le_trans; [apply al_filter_length|]. rewrite combine_length. apply Nat.le_min_r.
Qed.

Lemma al_kept_snd_In {A} : forall proj (xs : list A) x,
  In x (map snd (al_kept proj xs)) -> In x xs.
Proof.
  intros proj xs x H. apply in_map_iff in H. destruct H as (((a & b) & y) & E & Hin).
  simpl in E. subst y. unfold al_kept in Hin. apply filter_In in Hin. destruct Hin as [Hin _].
  apply in_combine_r in Hin. assumption.
Qed.

Lemma al_kept_fst_In {A} : forall proj (xs : list A) p,
  In p (map (fun t => fst (fst t)) (al_kept proj xs)) -> In p proj.
Proof.
  intros proj xs p H. apply in_map_iff in H. destruct H as (((a & b) & y) & E & Hin).
  simpl in E. subst a. unfold al_kept in Hin. apply filter_In in Hin. destruct Hin as [Hin _].
  apply in_combine_l in Hin. apply in_combine_l in Hin. assumption.
Qed.

(* on a non-decreasing chain the kept starts followed by the last projection begin with the first projection *)
Lemma al_kept_head {A} : forall ps p0 (xs : list A), chain le p0 ps -> length ps = length xs ->
  exists rest, map (fun t => fst (fst t)) (al_kept (p0 :: ps) xs) ++ [last (p0 :: ps) 0] = p0 :: rest.
Proof.
  induction ps as [|p1 ps IH]; intros p0 xs Hc Hl.
  - destruct xs; [|discriminate]. exists []. reflexivity.
  - destruct xs as [|x xs]; [discriminate|]. simpl in Hl, Hc. destruct Hc as [H1 H2].
    rewrite al_kept_cons. change (last (p0 :: p1 :: ps) 0) with (last (p1 :: ps) 0).
    destruct (Nat.ltb_spec p0 p1) as [Hlt|Hge].
    + eexists. reflexivity.
    + assert (p0 = p1) by lia. subst. apply IH; [assumption|lia].
Qed.

(* ... are strictly increasing *)
Lemma al_kept_incr {A} : forall ps p0 (xs : list A), chain le p0 ps -> length ps = length xs ->
  incr (map (fun t => fst (fst t)) (al_kept (p0 :: ps) xs) ++ [last (p0 :: ps) 0]).
Proof.
  induction ps as [|p1 ps IH]; intros p0 xs Hc Hl.
  - destruct xs; [|discriminate]. exact Logic.I.
  - destruct xs as [|x xs]; [discriminate|]. simpl in Hl, Hc. destruct Hc as [H1 H2].
    assert (Hl' : length ps = length xs) by lia.
    destruct (al_kept_head ps p1 xs H2 Hl') as [rest Hr]. specialize (IH p1 xs H2 Hl').
    rewrite al_kept_cons. change (last (p0 :: p1 :: ps) 0) with (last (p1 :: ps) 0).
    destruct (Nat.ltb_spec p0 p1) as [Hlt|Hge].
    + rewrite map_cons. rewrite <- app_comm_cons. rewrite Hr in *. simpl. simpl in IH. split; assumption.
    + assumption.
Qed.

(* 8(b): ... and expand to the same per-dump list as the full (non-decreasing) chain, whose zero-length
   segments contribute nothing *)
Lemma al_kept_expand {A B} (g : A -> B) : forall ps p0 (xs : list A),
  chain le p0 ps -> length ps = length xs ->
  expand_evs (map (fun t => fst (fst t)) (al_kept (p0 :: ps) xs) ++ [last (p0 :: ps) 0])
             (map g (map snd (al_kept (p0 :: ps) xs)))
  = expand_ev p0 ps (map g xs).
Proof.
  induction ps as [|p1 ps IH]; intros p0 xs Hc Hl.
  - destruct xs; [|discriminate]. reflexivity.
  - destruct xs as [|x xs]; [discriminate|]. simpl in Hl, Hc. destruct Hc as [H1 H2].
    assert (Hl' : length ps = length xs) by lia.
    destruct (al_kept_head ps p1 xs H2 Hl') as [rest Hr]. specialize (IH p1 xs H2 Hl').
    rewrite al_kept_cons. change (last (p0 :: p1 :: ps) 0) with (last (p1 :: ps) 0).
    destruct (Nat.ltb_spec p0 p1) as [Hlt|Hge].
    + rewrite !map_cons. rewrite <- app_comm_cons. rewrite Hr in *. simpl. simpl in IH.
      rewrite IH. reflexivity.
    + assert (p0 = p1) by lia. subst p0. rewrite IH. simpl. rewrite Nat.sub_diag. reflexivity.
Qed.

(* ---------- 7, 8: align ---------- *)
Section AlignP.
Context {V : Type} (dflt : V).

Lemma align_eq : forall (c : cd) segs, segs <> [] ->
  align dflt c segs =
  Some (mk (map (fun i => nth i (uv c) dflt)
              (sorted_unique (map snd (al_kept (map (nearest segs) (ev c)) (idx c)))))
           (map (fun i => index_nat i (sorted_unique (map snd (al_kept (map (nearest segs) (ev c)) (idx c)))))
              (map snd (al_kept (map (nearest segs) (ev c)) (idx c))))
           (map (fun t => fst (fst t)) (al_kept (map (nearest segs) (ev c)) (idx c))
              ++ [last (map (nearest segs) (ev c)) 0])).
Proof. intros c [|s segs] H; [congruence|reflexivity]. Qed.

Lemma al_chain_nearest : forall segs, incr segs -> segs <> [] ->
  forall es e0, chain lt e0 es -> chain le (nearest segs e0) (map (nearest segs) es).
Proof.
  intros segs Hi Hne. induction es as [|e1 es IH]; intros e0 Hc; simpl; [exact Logic.I|].
  simpl in Hc. destruct Hc as [H1 H2]. split; [|apply IH; assumption].
  apply nearest_monotone; [assumption|assumption|lia].
Qed.

Lemma al_setup : forall (c : @cd V) segs, WF c -> incr segs -> segs <> [] ->
  exists e0 es, ev c = e0 :: es /\ length es = length (idx c) /\
    chain le (nearest segs e0) (map (nearest segs) es) /\
    length (map (nearest segs) es) = length (idx c).
Proof.
  intros c segs (Hinc & Hlen & _) Hi Hne.
  destruct (ev c) as [|e0 es]; [discriminate|]. simpl in Hlen.
  exists e0, es. split; [reflexivity|]. split; [lia|]. split.
  - apply al_chain_nearest; assumption.
  - rewrite map_length. lia.
Qed.

Lemma align_WF : forall (c : cd) segs c', WF c -> incr segs -> align dflt c segs = Some c' ->
  WF c' /\ Forall (fun e => In e segs) (ev c') /\ ndumps c' = nearest segs (ndumps c) /\
  length (idx c') <= length (idx c).
Proof.
  intros c segs c' Hwf Hi Ha.
  assert (Hne : segs <> []) by (destruct segs; [discriminate|congruence]).
  rewrite (align_eq c segs Hne) in Ha. injection Ha as <-.
  destruct (al_setup c segs Hwf Hi Hne) as (e0 & es & Eev & Hlen & Hch & Hlen').
  destruct Hwf as (_ & _ & Hidx & Hnd).
  unfold WF, ndumps. rewrite Eev. cbn [uv idx ev]. rewrite map_cons.
  set (K := al_kept (nearest segs e0 :: map (nearest segs) es) (idx c)).
  split; [split; [|split; [|split]] | split; [|split]].
  - apply al_kept_incr; assumption.
  - rewrite app_length, !map_length. simpl. lia.
  - rewrite map_length. apply Forall_forall. intros j Hj.
    apply in_map_iff in Hj. destruct Hj as (i & <- & Hin).
    apply al_index_nat_lt. apply (proj2 (al_su_In _ _)). assumption.
  - apply al_NoDup_map_nth; [assumption|apply al_su_NoDup|].
    apply Forall_forall. intros i Hin. apply (proj1 (al_su_In _ _)) in Hin. apply al_kept_snd_In in Hin.
    rewrite Forall_forall in Hidx. apply Hidx. assumption.
  - apply Forall_forall. intros p Hp.
    assert (Hproj : In p (nearest segs e0 :: map (nearest segs) es)).
    { apply in_app_or in Hp. destruct Hp as [Hp|[<-|[]]].
      - eapply al_kept_fst_In. exact Hp.
      - apply al_last_In. }
    rewrite <- map_cons in Hproj. apply in_map_iff in Hproj. destruct Hproj as (e & <- & _).
    apply nearest_In. assumption.
  - rewrite last_last. rewrite <- map_cons. apply al_last_map.
  - rewrite !map_length. apply al_kept_length.
Qed.

Lemma align_ends : forall (c : cd) segs c', WF c -> incr segs -> align dflt c segs = Some c' ->
  In (ndumps c) segs -> ndumps c' = ndumps c.
Proof.
  intros c segs c' Hwf Hi Ha Hin.
  destruct (align_WF c segs c' Hwf Hi Ha) as (_ & _ & E & _).
  rewrite E. apply nearest_fix. assumption.
Qed.

Lemma align_vals : forall (c : cd) segs c', align dflt c segs = Some c' ->
  vals dflt c' = map (fun i => nth i (uv c) dflt)
                     (map snd (al_kept (map (nearest segs) (ev c)) (idx c))).
Proof.
  intros c segs c' Ha.
  assert (Hne : segs <> []) by (destruct segs; [discriminate|congruence]).
  rewrite (align_eq c segs Hne) in Ha. injection Ha as <-.
  unfold vals. cbn [uv idx ev]. rewrite map_map. apply map_ext_in. intros i Hin.
  apply (al_index_nat_nth (fun k => nth k (uv c) dflt) dflt). apply (proj2 (al_su_In _ _)). assumption.
Qed.

Lemma align_expand : forall (c : cd) segs c', WF c -> incr segs -> align dflt c segs = Some c' ->
  expand dflt c' = spec_align (ev c) (vals dflt c) segs.
Proof.
  intros c segs c' Hwf Hi Ha.
  assert (Hne : segs <> []) by (destruct segs; [discriminate|congruence]).
  unfold expand. rewrite (align_vals c segs c' Ha).
  rewrite (align_eq c segs Hne) in Ha. injection Ha as <-. cbn [uv idx ev].
  destruct (al_setup c segs Hwf Hi Hne) as (e0 & es & Eev & Hlen & Hch & Hlen').
  unfold spec_align, vals. rewrite Eev. rewrite map_cons.
  rewrite (al_kept_expand (fun i => nth i (uv c) dflt) _ _ (idx c) Hch Hlen').
  reflexivity.
Qed.

End AlignP.

(* ---------- 9. the hypotheses are satisfiable and the statements non-vacuous ---------- *)
Example align_ex_in : WF (mk [7;8;9] [0;1;2;1] [0;2;5;6;10]) /\ incr [0;4;10].
Proof.
  unfold WF; simpl. repeat split; try lia.
  - repeat constructor; simpl; lia.
  - repeat constructor; simpl; intuition lia.
Qed.
(* dump 2 is equidistant from 0 and 4: the tie goes to the first (smaller) start; the events 0,2 and 5,6
   collapse pairwise, only the last event of each segment survives, the unused values 7 and 9 disappear *)
Example align_ex_compute :
  align 0 (mk [7;8;9] [0;1;2;1] [0;2;5;6;10]) [0;4;10] = Some (mk [8] [0;0] [0;4;10]).
Proof. vm_compute. reflexivity. Qed.
Example align_ex_expand :
  expand 0 (mk [8] [0;0] [0;4;10]) = [8;8;8;8;8;8;8;8;8;8] /\
  spec_align [0;2;5;6;10] (vals 0 (mk [7;8;9] [0;1;2;1] [0;2;5;6;10])) [0;4;10] = [8;8;8;8;8;8;8;8;8;8].
Proof. split; vm_compute; reflexivity. Qed.
(* a second instance where two different values survive and are re-indexed *)
Example align_ex2 :
  WF (mk [7;8;9] [2;1;0;1] [0;3;5;6;10]) /\
  align 0 (mk [7;8;9] [2;1;0;1] [0;3;5;6;10]) [0;4;10] = Some (mk [8;9] [1;0] [0;4;10]) /\
  expand 0 (mk [8;9] [1;0] [0;4;10]) = [9;9;9;9;8;8;8;8;8;8] /\
  spec_align [0;3;5;6;10] (vals 0 (mk [7;8;9] [2;1;0;1] [0;3;5;6;10])) [0;4;10] = [9;9;9;9;8;8;8;8;8;8].
Proof.
  split; [|repeat split; vm_compute; reflexivity].
  unfold WF; simpl. repeat split; try lia.
  - repeat constructor; simpl; lia.
  - repeat constructor; simpl; intuition lia.
Qed.
(* the general theorems instantiated on the first example *)
Example align_ex_thm :
  let c := mk [7;8;9] [0;1;2;1] [0;2;5;6;10] in
  let c' := mk [8] [0;0] [0;4;10] in
  WF c' /\ ndumps c' = ndumps c /\ expand 0 c' = spec_align (ev c) (vals 0 c) [0;4;10].
Proof.
  cbv zeta. destruct align_ex_in as [Hwf Hi]. split; [|split].
  - exact (proj1 (align_WF 0 _ _ _ Hwf Hi align_ex_compute)).
  - apply (align_ends 0 _ _ _ Hwf Hi align_ex_compute). simpl. auto.
  - exact (align_expand 0 _ _ _ Hwf Hi align_ex_compute).
Qed.

Print Assumptions argmin_spec.
Print Assumptions nearest_In.
Print Assumptions nearest_min.
Print Assumptions nearest_tie.
Print Assumptions nearest_fix.
Print Assumptions nearest_monotone.
Print Assumptions align_WF.
Print Assumptions align_ends.
Print Assumptions align_expand.
Print Assumptions align_ex_thm.
