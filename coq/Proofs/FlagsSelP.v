From Coq Require Import ZArith List Bool String Lia.
From KV Require Import Base.Sx Base.Str Gen.Generated Model.Flags Proofs.FlagsP Model.FlagsV4 Proofs.FlagsV4P
     Model.FlagsSel.
Import ListNotations.
Open Scope Z_scope.

(* ---------- what the translator read ---------- *)
Lemma plumbing_sources :
  ds_set_keep_guards = [("weights", "is_not_none"); ("flags", "is_not_none")]%string
  /\ ds_init_keeps = [("_weights_keep", "all"); ("_flags_keep", "all")]%string
  /\ ds_select_keeps = [("weights", "_weights_keep"); ("flags", "_flags_keep")]%string
  /\ ds_select_final_set_keep = ["_time_keep"; "_freq_keep"; "_corrprod_keep"; "_weights_keep"; "_flags_keep"]%string
  /\ concat_super_set_keep_args = ["time_keep"; "freq_keep"; "corrprod_keep"; "weights_keep"; "flags_keep"]%string
  /\ concat_member_keep_args = [("weights_keep", "self._weights_keep"); ("flags_keep", "self._flags_keep")]%string
  /\ set_keep_overridden_by = ["VisibilityDataV4"]%string
  /\ concat_data_from_members = ["vis"; "weights"; "flags"]%string
  /\ concat_init_ends_with_select = true
  /\ flag_setter_flip = [("v4", (true, true)); ("v3", (true, true)); ("v2", (false, false))]%string
  /\ ds_weight_names = [("v3", ["precision"]); ("v2", ["precision"])]%string
  /\ h5_flag_transform = [("v3", "bool(and(mask,stored))"); ("v2", "bool(and(mask,stored))")]%string.
Proof. repeat split; reflexivity. Qed.

Lemma cur_plumbing_eq :
  cur_plumbing = mk_plumbing "is_not_none" "is_not_none" "self._flags_keep" "self._weights_keep".
Proof. reflexivity. Qed.

(* ---------- the setters ---------- *)
Lemma mk_mask_fmt known a :
  mk_mask known FV4 a = flagmask_v34 known a /\ mk_mask known FV3 a = flagmask_v34 known a
  /\ mk_mask known FV2 a = flagmask_v2 known a.
Proof. repeat split; reflexivity. Qed.

Lemma mk_mask_spec f a : mk_mask flag_names f a = spec_fmt_mask f a.
Proof.
  destruct (mk_mask_fmt flag_names a) as (A & B & C).
  destruct f; unfold spec_fmt_mask; rewrite ?A, ?B, ?C; auto using mask_v34_bits, mask_v2_bits.
Qed.

Lemma spec_mask_v2_range wanted : 0 <= spec_mask_v2 wanted < 256.
Proof.
  unfold spec_mask_v2, spec_mask_aux, doc_names.
  repeat match goal with |- context [mem_string ?s wanted] => destruct (mem_string s wanted) end;
    cbn; lia.
Qed.

Lemma spec_fmt_mask_range f a : 0 <= spec_fmt_mask f a < 256.
Proof. destruct f; unfold spec_fmt_mask; auto using spec_mask_range, spec_mask_v2_range. Qed.

Lemma mk_mask_range f a : 0 <= mk_mask flag_names f a < 256.
Proof. rewrite mk_mask_spec. apply spec_fmt_mask_range. Qed.

(* ---------- getter then setter is the identity on bytes ---------- *)
Definition fmts : list fmt := [FV4; FV3; FV2].
Lemma in_fmts f : In f fmts.
Proof. destruct f; simpl; auto. Qed.

Lemma roundtrip_sweep :
  forallb (fun f => forallb (fun m => mk_mask flag_names f (SelList (keep_names flag_names f m)) =? m) bytes) fmts
  = true.
Proof. vm_compute. reflexivity. Qed.

Lemma roundtrip f m : 0 <= m < 256 -> mk_mask flag_names f (SelList (keep_names flag_names f m)) = m.
Proof.
  intros H. pose proof roundtrip_sweep as S.
  rewrite forallb_forall in S. specialize (S f (in_fmts f)).
  rewrite forallb_forall in S. specialize (S m (in_bytes _ H)).
  apply Z.eqb_eq. exact S.
Qed.

(* the names the getter returns are documented names, and exactly those whose bit is set *)
Lemma getter_sweep :
  forallb (fun f => forallb (fun m =>
     forallb (fun i => Bool.eqb (mem_string (nth i doc_names ""%string) (keep_names flag_names f m))
                                (Z.testbit m (match f with FV2 => 7 - Z.of_nat i | _ => Z.of_nat i end)))
             (seq 0 8)
     && forallb (fun n => mem_string n doc_names) (keep_names flag_names f m)) bytes) fmts = true.
Proof. vm_compute. reflexivity. Qed.

Lemma getter_spec f m i : 0 <= m < 256 -> (i < 8)%nat ->
  mem_string (nth i doc_names ""%string) (keep_names flag_names f m)
  = Z.testbit m (match f with FV2 => 7 - Z.of_nat i | _ => Z.of_nat i end).
Proof.
  intros H Hi. pose proof getter_sweep as S.
  rewrite forallb_forall in S. specialize (S f (in_fmts f)).
  rewrite forallb_forall in S. specialize (S m (in_bytes _ H)).
  apply andb_prop in S. destruct S as [S _].
  rewrite forallb_forall in S. specialize (S i). apply Bool.eqb_prop. apply S. apply in_seq. lia.
Qed.

Lemma getter_setter_roundtrip f m : 0 <= m < 256 ->
  mk_mask flag_names f (SelList (keep_names flag_names f m)) = m
  /\ forall i, (i < 8)%nat ->
       mem_string (nth i doc_names ""%string) (keep_names flag_names f m)
       = Z.testbit m (match f with FV2 => 7 - Z.of_nat i | _ => Z.of_nat i end).
Proof. intros H. split; [exact (roundtrip f m H)|]. intros i Hi. exact (getter_spec f m i H Hi). Qed.

(* ---------- weights ---------- *)
Lemma weights_select_roundtrip known names :
  weights_select known (map (fun i => nth i known ""%string) (weights_select known names))
  = weights_select known names.
Proof.
  induction names as [|n t IH]; simpl; [reflexivity|].
  destruct (index_of n known) as [i|] eqn:E; [|exact IH].
  simpl. destruct (index_of_Some_nth _ _ _ E) as [A _]. rewrite A, E, IH. reflexivity.
Qed.

Lemma mk_wts_roundtrip f a : mk_wts f (SelList (weight_names f (mk_wts f a))) = mk_wts f a.
Proof. unfold mk_wts at 1. cbn [selection_to_list]. unfold weight_names, mk_wts. apply weights_select_roundtrip. Qed.

Lemma weights_on_spec_known names :
  match weights_select doc_weights names with [] => false | _ => true end
  = existsb (fun n => mem_string n doc_weights) names.
Proof.
  induction names as [|n t IH]; [reflexivity|].
  cbn [weights_select existsb].
  assert (index_of n doc_weights = if String.eqb n "precision" then Some 0%nat else None) as ->
    by (unfold doc_weights; simpl; destruct (String.eqb n "precision"); reflexivity).
  assert (mem_string n doc_weights = String.eqb n "precision") as ->
    by (unfold mem_string, doc_weights; simpl; apply orb_false_r).
  destruct (String.eqb n "precision"); [reflexivity|exact IH].
Qed.

Lemma known_weights_h5 : known_weights FV3 = doc_weights /\ known_weights FV2 = doc_weights /\ known_weights FV4 = [].
Proof. repeat split; reflexivity. Qed.

Lemma weights_on_spec f a : f <> FV4 ->
  match mk_wts f a with [] => false | _ => true end = spec_weights_on a.
Proof.
  intros Hf. unfold mk_wts, spec_weights_on.
  destruct known_weights_h5 as (A & B & _).
  destruct f; [congruence| rewrite A | rewrite B]; apply weights_on_spec_known.
Qed.

(* ---------- one plain data set ---------- *)
Definition sel_inv (sel : option selarg) (cur : selarg) : Prop :=
  match sel with Some a => a = cur | None => True end.
Definition new_cur (k : option selarg) (cur : selarg) : selarg := match k with Some a => a | None => cur end.

Definition good_guard (g : string) : Prop := g = "is_not_none"%string \/ g = "truthy"%string.

(* The guard of DataSet._set_keep is irrelevant for a data set that is selected directly: select() has already
   gone through the setter, and what it passes on is what the getter returns. *)
Lemma pds_select_step pl f p kf kw curf curw :
  good_guard (g_flags pl) -> good_guard (g_weights pl) ->
  p_fmt p = f ->
  p_mask p = mk_mask flag_names f curf -> sel_inv (p_fsel p) curf ->
  p_wts p = mk_wts f curw -> sel_inv (p_wsel p) curw ->
  let q := pds_select pl flag_names p kf kw in
  p_fmt q = f
  /\ p_mask q = mk_mask flag_names f (new_cur kf curf) /\ sel_inv (p_fsel q) (new_cur kf curf)
  /\ p_wts q = mk_wts f (new_cur kw curw) /\ sel_inv (p_wsel q) (new_cur kw curw).
Proof.
  intros Gf Gw Hf Hm Hs Hw Hws q. subst q. unfold pds_select, pds_set_keep.
  cbn [p_fmt p_fsel p_wsel p_mask p_wts]. rewrite Hf.
  assert (M1 : match or_else kf (p_fsel p) with Some a => mk_mask flag_names f a | None => p_mask p end
               = mk_mask flag_names f (new_cur kf curf)).
  { destruct kf as [a|]; simpl; [reflexivity|].
    destruct (p_fsel p) as [a|]; simpl in *; [rewrite Hs; reflexivity|exact Hm]. }
  assert (W1 : match or_else kw (p_wsel p) with Some a => mk_wts f a | None => p_wts p end
               = mk_wts f (new_cur kw curw)).
  { destruct kw as [a|]; simpl; [reflexivity|].
    destruct (p_wsel p) as [a|]; simpl in *; [rewrite Hws; reflexivity|exact Hw]. }
  rewrite M1, W1.
  split; [reflexivity|]. split; [|split; [|split]].
  - rewrite roundtrip by apply mk_mask_range. destruct (guard_ok _ _); reflexivity.
  - destruct kf as [a|]; simpl; [reflexivity|]. destruct (p_fsel p); simpl in *; auto.
  - rewrite mk_wts_roundtrip. destruct (guard_ok _ _); reflexivity.
  - destruct kw as [a|]; simpl; [reflexivity|]. destruct (p_wsel p); simpl in *; auto.
Qed.

Lemma pds_run_inv pl f h : good_guard (g_flags pl) -> good_guard (g_weights pl) ->
  forall p curf curw, p_fmt p = f ->
  p_mask p = mk_mask flag_names f curf -> sel_inv (p_fsel p) curf ->
  p_wts p = mk_wts f curw -> sel_inv (p_wsel p) curw ->
  let q := pds_run pl flag_names p h in
  p_fmt q = f /\ p_mask q = mk_mask flag_names f (last_sel (map fst h) curf)
  /\ p_wts q = mk_wts f (last_sel (map snd h) curw).
Proof.
  intros Gf Gw. induction h as [|[kf kw] t IH]; intros p curf curw Hf Hm Hs Hw Hws.
  - cbn. auto.
  - destruct (pds_select_step pl f p kf kw curf curw Gf Gw Hf Hm Hs Hw Hws) as (A & B & C & D & E).
    specialize (IH _ _ _ A B C D E). cbn zeta in IH |- *.
    change (pds_run pl flag_names p ((kf, kw) :: t))
      with (pds_run pl flag_names (pds_select pl flag_names p kf kw) t).
    destruct kf, kw; exact IH.
Qed.

Lemma good_cur : good_guard (g_flags cur_plumbing) /\ good_guard (g_weights cur_plumbing).
Proof. split; left; reflexivity. Qed.

(* the mask / weight selection of a plain data set after ANY history of select() calls *)
Lemma pds_history f (h : list kwpair) :
  let d := pds_run cur_plumbing flag_names (pds_init flag_names f) h in
  p_fmt d = f
  /\ p_mask d = spec_fmt_mask f (last_sel (map fst h) (SelStr "all"))
  /\ p_wts d = mk_wts f (last_sel (map snd h) (SelStr "all"))
  /\ 0 <= p_mask d < 256.
Proof.
  destruct good_cur as [Gf Gw].
  destruct (pds_run_inv cur_plumbing f h Gf Gw (pds_init flag_names f) (SelStr "all") (SelStr "all")
              eq_refl eq_refl Logic.I eq_refl Logic.I) as (A & B & C).
  cbn zeta. rewrite B, mk_mask_spec. repeat split; auto; apply spec_fmt_mask_range.
Qed.

(* whichever of the two guards DataSet._set_keep uses, a data set that is selected directly behaves the same *)
Lemma pds_guard_irrelevant pl f (h : list kwpair) :
  good_guard (g_flags pl) -> good_guard (g_weights pl) ->
  let d := pds_run pl flag_names (pds_init flag_names f) h in
  let d' := pds_run cur_plumbing flag_names (pds_init flag_names f) h in
  p_mask d = p_mask d' /\ p_wts d = p_wts d'.
Proof.
  intros Gf Gw. destruct good_cur as [Gf' Gw'].
  destruct (pds_run_inv pl f h Gf Gw (pds_init flag_names f) (SelStr "all") (SelStr "all")
              eq_refl eq_refl Logic.I eq_refl Logic.I) as (_ & B & C).
  destruct (pds_run_inv cur_plumbing f h Gf' Gw' (pds_init flag_names f) (SelStr "all") (SelStr "all")
              eq_refl eq_refl Logic.I eq_refl Logic.I) as (_ & B' & C').
  cbn zeta. rewrite B, B', C, C'. split; reflexivity.
Qed.

(* the faithful v4 data set refines the simple history model of Model/FlagsV4.v *)
Lemma pds_v4_is_hist_mask (h : list kwpair) :
  p_mask (pds_run cur_plumbing flag_names (pds_init flag_names FV4) h) = hist_mask flag_names (map fst h).
Proof.
  destruct (pds_history FV4 h) as (_ & B & _). cbn zeta in B. rewrite B.
  rewrite hist_mask_spec. reflexivity.
Qed.

(* ---------- the concatenated data set ---------- *)
Lemma last_whole_f_snoc h st cur :
  last_whole_f (h ++ [st]) cur = match st with Whole (Some a) _ => a | _ => last_whole_f h cur end.
Proof.
  revert cur. induction h as [|x t IH]; intro cur; simpl.
  - destruct st as [[a|] ?|]; reflexivity.
  - destruct x as [[a|] ?|]; apply IH.
Qed.
Lemma last_whole_w_snoc h st cur :
  last_whole_w (h ++ [st]) cur = match st with Whole _ (Some a) => a | _ => last_whole_w h cur end.
Proof.
  revert cur. induction h as [|x t IH]; intro cur; simpl.
  - destruct st as [? [a|]|]; reflexivity.
  - destruct x as [? [a|]|]; apply IH.
Qed.

Lemma cds_run_snoc pl known c h st : cds_run pl known c (h ++ [st]) = cds_step pl known (cds_run pl known c h) st.
Proof. unfold cds_run. rewrite fold_left_app. reflexivity. Qed.

Definition cinv (c : cds) (curf curw : selarg) : Prop :=
  c_fkeep c = curf /\ sel_inv (c_fsel c) curf /\ c_wkeep c = curw /\ sel_inv (c_wsel c) curw.

Lemma map_update_nth {A B} (g : A -> B) (f : A -> A) l n :
  (forall x, g (f x) = g x) -> map g (update_nth l n f) = map g l.
Proof.
  intros H. revert n. induction l as [|x t IH]; intros [|n]; simpl; try reflexivity.
  - rewrite H. reflexivity.
  - rewrite IH. reflexivity.
Qed.

Lemma pds_select_fmt pl known p kf kw : p_fmt (pds_select pl known p kf kw) = p_fmt p.
Proof. reflexivity. Qed.
Lemma pds_set_keep_fmt pl known p wk fk : p_fmt (pds_set_keep pl known p wk fk) = p_fmt p.
Proof. reflexivity. Qed.

Lemma cds_step_fmts pl known c st :
  map p_fmt (c_members (cds_step pl known c st)) = map p_fmt (c_members c).
Proof.
  destruct st as [kf kw|n kf kw]; simpl.
  - rewrite map_map. apply map_ext. reflexivity.
  - apply map_update_nth. reflexivity.
Qed.

Lemma cds_run_fmts pl known h : forall c,
  map p_fmt (c_members (cds_run pl known c h)) = map p_fmt (c_members c).
Proof.
  induction h as [|st t IH]; intro c; [reflexivity|].
  change (cds_run pl known c (st :: t)) with (cds_run pl known (cds_step pl known c st) t).
  rewrite IH. apply cds_step_fmts.
Qed.

(* a call on the whole, with the code as it is now: the attribute of the whole follows the last argument and EVERY
   member gets exactly that value through its setter, whatever state it was in *)
Lemma cds_select_cur c kf kw curf curw : cinv c curf curw ->
  let c' := cds_select cur_plumbing flag_names c kf kw in
  cinv c' (new_cur kf curf) (new_cur kw curw)
  /\ forall d, In d (c_members c') ->
       p_mask d = mk_mask flag_names (p_fmt d) (new_cur kf curf) /\ p_wts d = mk_wts (p_fmt d) (new_cur kw curw).
Proof.
  intros (A & B & C & D). rewrite cur_plumbing_eq. cbn zeta.
  unfold cds_select, cds_set_keep. cbn [c_fsel c_wsel c_fkeep c_wkeep c_members g_flags g_weights a_flags a_weights].
  assert (F1 : match or_else kf (c_fsel c) with Some a => a | None => c_fkeep c end = new_cur kf curf).
  { destruct kf as [a|]; simpl; [reflexivity|]. destruct (c_fsel c); simpl in *; congruence. }
  assert (W1 : match or_else kw (c_wsel c) with Some a => a | None => c_wkeep c end = new_cur kw curw).
  { destruct kw as [a|]; simpl; [reflexivity|]. destruct (c_wsel c); simpl in *; congruence. }
  rewrite F1, W1.
  change (guard_ok "is_not_none" (Some (new_cur kf curf))) with true.
  change (guard_ok "is_not_none" (Some (new_cur kw curw))) with true.
  cbv iota.
  change (member_arg "self._flags_keep" "flags_keep" (new_cur kf curf) (Some (new_cur kf curf)))
    with (Some (new_cur kf curf)).
  change (member_arg "self._weights_keep" "weights_keep" (new_cur kw curw) (Some (new_cur kw curw)))
    with (Some (new_cur kw curw)).
  split.
  - unfold cinv. cbn [c_fsel c_wsel c_fkeep c_wkeep].
    repeat split; try reflexivity.
    + destruct kf as [a|]; simpl; [reflexivity|]. destruct (c_fsel c); simpl in *; auto.
    + destruct kw as [a|]; simpl; [reflexivity|]. destruct (c_wsel c); simpl in *; auto.
  - intros d Hd. apply in_map_iff in Hd. destruct Hd as (p & <- & _).
    unfold pds_set_keep. cbn [p_fmt p_mask p_wts g_flags g_weights].
    change (guard_ok "is_not_none" (Some (new_cur kf curf))) with true.
    change (guard_ok "is_not_none" (Some (new_cur kw curw))) with true.
    split; reflexivity.
Qed.

Lemma cinv_member_step c n kf kw curf curw : cinv c curf curw ->
  cinv (cds_step cur_plumbing flag_names c (Member n kf kw)) curf curw.
Proof. intros H. exact H. Qed.

Definition c_init (members : list pds) : cds :=
  mk_cds None None (SelStr (lookup "_flags_keep" ds_init_keeps ""%string))
         (SelStr (lookup "_weights_keep" ds_init_keeps ""%string)) members.

Lemma cds_open_is_step members :
  cds_open cur_plumbing flag_names members = cds_step cur_plumbing flag_names (c_init members) (Whole None None).
Proof. reflexivity. Qed.

Lemma cinv_run h : forall c curf curw, cinv c curf curw ->
  cinv (cds_run cur_plumbing flag_names c h) (last_whole_f h curf) (last_whole_w h curw).
Proof.
  induction h as [|st t IH]; intros c curf curw Hc; [exact Hc|].
  change (cds_run cur_plumbing flag_names c (st :: t))
    with (cds_run cur_plumbing flag_names (cds_step cur_plumbing flag_names c st) t).
  destruct st as [kf kw|n kf kw].
  - destruct (cds_select_cur c kf kw curf curw Hc) as [Hc' _].
    specialize (IH _ _ _ Hc').
    destruct kf, kw; exact IH.
  - apply (IH _ _ _ (cinv_member_step c n kf kw curf curw Hc)).
Qed.

Lemma ends_whole_snoc h st : ends_whole (h ++ [st]) = match st with Whole _ _ => true | Member _ _ _ => false end.
Proof. unfold ends_whole. rewrite rev_app_distr. simpl. destruct st; reflexivity. Qed.

(* MAIN: after the concatenation was built from members in ANY state and after ANY history of calls on the whole
   and directly on members, as long as the last call went to the whole: every member's mask is the mask (in the
   member's own bit order) of the last flags= argument given to the whole, 'all' if there was none. *)
Lemma concat_history members h :
  ends_whole h = true ->
  let c := cds_run cur_plumbing flag_names (cds_open cur_plumbing flag_names members) h in
  map p_fmt (c_members c) = map p_fmt members
  /\ forall d, In d (c_members c) ->
       p_mask d = spec_fmt_mask (p_fmt d) (last_whole_f h (SelStr "all"))
       /\ p_wts d = mk_wts (p_fmt d) (last_whole_w h (SelStr "all"))
       /\ 0 <= p_mask d < 256.
Proof.
  intros E. cbn zeta. split.
  { rewrite cds_run_fmts. rewrite cds_open_is_step, cds_step_fmts. reflexivity. }
  assert (I0 : cinv (c_init members) (SelStr "all") (SelStr "all")) by (repeat split).
  destruct (cds_select_cur (c_init members) None None _ _ I0) as [I1 M1].
  change (cds_select cur_plumbing flag_names (c_init members) None None)
    with (cds_open cur_plumbing flag_names members) in I1, M1.
  cbn [new_cur] in I1, M1.
  destruct h as [|x t] using rev_ind.
  - intros d Hd. destruct (M1 d Hd) as [A B]. cbn [last_whole_f last_whole_w cds_run fold_left].
    rewrite A, B, mk_mask_spec. repeat split; auto; apply spec_fmt_mask_range.
  - clear IHt. rewrite ends_whole_snoc in E. destruct x as [kf kw|]; [|discriminate E].
    rewrite cds_run_snoc. cbn [cds_step].
    pose proof (cinv_run t _ _ _ I1) as It.
    destruct (cds_select_cur _ kf kw _ _ It) as [_ M].
    intros d Hd. destruct (M d Hd) as [A B].
    rewrite last_whole_f_snoc, last_whole_w_snoc.
    assert (Ef : new_cur kf (last_whole_f t (SelStr "all"))
                 = match kf with Some a => a | None => last_whole_f t (SelStr "all") end) by reflexivity.
    rewrite A, B, mk_mask_spec.
    split; [destruct kf; reflexivity|]. split; [destruct kw; reflexivity|]. apply spec_fmt_mask_range.
Qed.

(* just concatenated: everything is selected, whatever the members had selected on their own before *)
Lemma concat_open_resets members d :
  In d (c_members (cds_open cur_plumbing flag_names members)) ->
  p_mask d = 255 /\ (p_fmt d <> FV4 -> p_wts d = [0%nat]).
Proof.
  intros Hd. destruct (concat_history members [] eq_refl) as [_ H]. cbn zeta in H.
  destruct (H d Hd) as (A & B & _). cbn [last_whole_f last_whole_w] in A, B. split.
  - rewrite A. destruct (p_fmt d); reflexivity.
  - intro Hf. rewrite B. destruct (p_fmt d); [congruence|reflexivity|reflexivity].
Qed.

(* a call made directly on member n moves that member only *)
Lemma member_step_local c n kf kw i : i <> n ->
  nth_error (c_members (cds_step cur_plumbing flag_names c (Member n kf kw))) i = nth_error (c_members c) i.
Proof.
  intros Hne. cbn [cds_step c_members]. revert n i Hne.
  induction (c_members c) as [|x t IH]; intros [|n] [|i] Hne; simpl; try reflexivity; try congruence.
  apply IH. congruence.
Qed.

(* the boolean flag a sample of any member shows *)
Lemma member_flag_spec d raw a : 0 <= raw < 256 -> p_mask d = spec_fmt_mask (p_fmt d) a ->
  member_flag d raw = spec_flag_bool raw (spec_fmt_mask (p_fmt d) a).
Proof.
  intros Hr Hm. unfold member_flag. rewrite Hm.
  pose proof (spec_fmt_mask_range (p_fmt d) a) as R.
  destruct (p_fmt d); rewrite ?v4_flag_is_flag_bool by assumption; apply flag_bool_spec; assumption.
Qed.

Lemma concat_flags_after_history members h d raw :
  ends_whole h = true -> 0 <= raw < 256 ->
  In d (c_members (cds_run cur_plumbing flag_names (cds_open cur_plumbing flag_names members) h)) ->
  member_flag d raw
  = existsb (fun i => Z.testbit raw i && Z.testbit (spec_fmt_mask (p_fmt d) (last_whole_f h (SelStr "all"))) i)
            [0;1;2;3;4;5;6;7].
Proof.
  intros E Hr Hd. destruct (concat_history members h E) as [_ H]. cbn zeta in H.
  destruct (H d Hd) as (A & _). exact (member_flag_spec d raw _ Hr A).
Qed.

(* a v4 member: the sample's raw byte is the derived one (stored | data_lost | postproc), whatever was selected *)
Lemma concat_v4_member_sample members h d s :
  ends_whole h = true -> p_fmt d = FV4 -> 0 <= s_stored s < 256 ->
  In d (c_members (cds_run cur_plumbing flag_names (cds_open cur_plumbing flag_names members) h)) ->
  member_flag d (v4_raw s)
  = existsb (fun i => Z.testbit (spec_v4_raw s) i
                      && Z.testbit (spec_mask_v34 (spec_wanted (last_whole_f h (SelStr "all")))) i)
            [0;1;2;3;4;5;6;7].
Proof.
  intros E Hf Hs Hd. rewrite v4_raw_spec.
  rewrite (concat_flags_after_history members h d _ E (spec_v4_raw_range s Hs) Hd). rewrite Hf. reflexivity.
Qed.

Lemma concat_weights_after_history members h d w :
  ends_whole h = true -> p_fmt d <> FV4 ->
  In d (c_members (cds_run cur_plumbing flag_names (cds_open cur_plumbing flag_names members) h)) ->
  member_weight d w = if spec_weights_on (last_whole_w h (SelStr "all")) then w else (1, 0).
Proof.
  intros E Hf Hd. destruct (concat_history members h E) as [_ H]. cbn zeta in H.
  destruct (H d Hd) as (_ & B & _). unfold member_weight.
  rewrite <- (weights_on_spec (p_fmt d) _ Hf), <- B.
  destruct (p_fmt d); [congruence| |]; destruct (p_wts d); reflexivity.
Qed.

(* ---------- why the guard matters: the same steps with a truthiness test instead of `is not None` ---------- *)
Definition truthy_plumbing : plumbing := mk_plumbing "truthy" "truthy" "self._flags_keep" "self._weights_keep".

Example truthy_guard_breaks_concat :
  let ms := [pds_init flag_names FV4; pds_init flag_names FV3; pds_init flag_names FV2] in
  let h := [Whole (Some (SelStr "cam")) None; Whole (Some (SelList [])) (Some (SelStr ""))] in
  map p_mask (c_members (cds_run truthy_plumbing flag_names (cds_open truthy_plumbing flag_names ms) h)) = [4; 4; 32]
  /\ map p_wts (c_members (cds_run truthy_plumbing flag_names (cds_open truthy_plumbing flag_names ms) h))
     = [[]; [0%nat]; [0%nat]]
  /\ map p_mask (c_members (cds_run cur_plumbing flag_names (cds_open cur_plumbing flag_names ms) h)) = [0; 0; 0]
  /\ map p_wts (c_members (cds_run cur_plumbing flag_names (cds_open cur_plumbing flag_names ms) h)) = [[]; []; []].
Proof. repeat split; reflexivity. Qed.

Example concat_nonvacuous :
  let m0 := pds_run cur_plumbing flag_names (pds_init flag_names FV4) [(Some (SelStr "static"), None)] in
  let ms := [m0; pds_init flag_names FV2] in
  let c0 := cds_open cur_plumbing flag_names ms in
  let h := [Whole (Some (SelStr "cam, data_lost")) None; Member 0 (Some (SelStr "postproc")) None] in
  p_mask m0 = 2
  /\ map p_mask (c_members c0) = [255; 255]
  /\ map p_mask (c_members (cds_run cur_plumbing flag_names c0 h)) = [128; 48]
  /\ map p_mask (c_members (cds_run cur_plumbing flag_names c0 (h ++ [Whole None None]))) = [12; 48]
  /\ member_flag (nth 1 (c_members (cds_run cur_plumbing flag_names c0 h)) m0) 32 = true
  /\ member_flag (nth 0 (c_members (cds_run cur_plumbing flag_names c0 (h ++ [Whole None None]))) m0) 32 = false.
Proof. repeat split; reflexivity. Qed.
