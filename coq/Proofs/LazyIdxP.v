(* C05: lemmas about the LazyIndexer model. *)
From Coq Require Import ZArith List Bool Lia.
From KV Require Import Base.Sx Base.PySlice Base.AxisIndex Base.NdArray Gen.Generated Model.LazyIdx.
Import ListNotations.
Open Scope Z_scope.

Lemma stub_pyslice n a b c ps x : 0 <= n -> slice_positions n a b c = Some ps -> In x ps -> 0 <= x < n.
Proof. apply slice_positions_in_range. Qed.
