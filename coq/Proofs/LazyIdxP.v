(* C05: lemmas about the LazyIndexer model (Model/LazyIdx.v). *)
From Coq Require Import ZArith List Bool Lia.
From KV Require Import Base.Sx Base.PySlice Base.AxisIndex Base.NdArray Gen.Generated Model.LazyIdx.
Import ListNotations.
Open Scope Z_scope.

(* ------------------------------------------------------------------ lists *)

Lemma range_list_app s st a b :
  range_list s st (a + b) = range_list s st a ++ range_list (s + Z.of_nat a * st) st b.
Proof.
  revert s. induction a as [|a IH]; intro s.
  - cbn [Nat.add]. cbn [range_list seq map app]. f_equal. lia.
  - cbn [Nat.add]. rewrite !range_list_S. cbn [app]. f_equal. rewrite IH. f_equal. f_equal. lia.
Qed.

Lemma range_list_1 s st : range_list s st 1 = [s].
Proof. rewrite range_list_S. cbn. reflexivity. Qed.

Lemma increasing_cons x y r : increasing (x :: y :: r) = (x <? y) && increasing (y :: r).
Proof. reflexivity. Qed.

Lemma increasing_tail x r : increasing (x :: r) = true -> increasing r = true.
Proof. destruct r as [|y r]; [reflexivity|]. rewrite increasing_cons. intro H. apply andb_prop in H. tauto. Qed.

Lemma increasing_lb x r : increasing (x :: r) = true -> Forall (fun y => x < y) r.
Proof.
  revert x. induction r as [|y r IH]; intros x H; [constructor|].
  rewrite increasing_cons in H. apply andb_prop in H. destruct H as [H1 H2].
  constructor; [lia|]. specialize (IH y H2). eapply Forall_impl; [|exact IH]. cbn. intros; lia.
Qed.

Lemma increasing_last_ub x r : increasing (x :: r) = true -> Forall (fun y => y <= last (x :: r) 0) (x :: r).
Proof.
  revert x. induction r as [|y r IH]; intros x H.
  - constructor; [cbn; lia|constructor].
  - pose proof (increasing_lb _ _ H) as Hlb. rewrite increasing_cons in H. apply andb_prop in H. destruct H as [H1 H2].
    specialize (IH y H2).
    change (last (x :: y :: r) 0) with (last (y :: r) 0).
    constructor; [|exact IH].
    inversion IH; subst. lia.
Qed.

(* the generated sortedness test is "strictly increasing" *)
Lemma sorted_ok_increasing l : sorted_ok l = increasing l.
Proof.
  induction l as [|x r IH]; [reflexivity|]. destruct r as [|y r]; [reflexivity|].
  change (sorted_ok (x :: y :: r)) with (negb (lazy_diff_rejected (y - x)) && sorted_ok (y :: r)).
  rewrite increasing_cons, IH. f_equal. unfold lazy_diff_rejected. lia.
Qed.

Lemma all_filled_some g : all_filled (map Some g) = Ok g.
Proof. unfold all_filled. induction g as [|x r IH]; cbn; [reflexivity|]. cbn in IH. rewrite IH. reflexivity. Qed.

Lemma write_at_nil out o : write_at out o [] = out.
Proof. destruct out; reflexivity. Qed.

Lemma write_at_fill done m vals : (List.length vals <= m)%nat ->
  write_at (map Some done ++ repeat None m) (List.length done) vals
  = map Some (done ++ vals) ++ repeat None (m - List.length vals).
Proof.
  revert m vals. induction done as [|d done IH]; intros m vals H.
  - cbn [map app List.length]. revert m H. induction vals as [|v r IHv]; intros m H.
    + rewrite write_at_nil, Nat.sub_0_r. reflexivity.
    + destruct m as [|m]; [cbn in H; lia|]. cbn [repeat write_at map app List.length Nat.sub].
      f_equal. apply IHv. cbn in H. lia.
  - destruct vals as [|v r].
    + rewrite write_at_nil. cbn [List.length]. rewrite app_nil_r, Nat.sub_0_r. reflexivity.
    + cbn [map app List.length write_at]. f_equal. apply IH. exact H.
Qed.

Lemma mapM_wrap_id n l : in_range n l -> mapM (wrap_res n) l = Ok l.
Proof.
  induction 1 as [|x r Hx _ IH]; [reflexivity|]. cbn. unfold wrap_res at 1. rewrite wrap_id by assumption.
  cbn. rewrite IH. reflexivity.
Qed.

(* ------------------------------------------------------------------ runs / segments *)

Definition seg_vals (rs : list (Z * Z)) : list Z :=
  flat_map (fun p => range_list (fst p) 1 (Z.to_nat (snd p - fst p))) rs.

Lemma runs_flat : forall l first prev, first <= prev -> increasing (prev :: l) = true ->
  seg_vals (runs first prev l) = range_list first 1 (Z.to_nat (prev + 1 - first)) ++ l.
Proof.
  induction l as [|x r IH]; intros first prev Hle Hinc.
  - cbn. now rewrite !app_nil_r.
  - rewrite increasing_cons in Hinc. apply andb_prop in Hinc. destruct Hinc as [H1 H2].
    cbn [runs]. destruct (lazy_jump (x - prev)) eqn:E; unfold lazy_jump in E.
    + cbn [seg_vals flat_map fst snd]. fold (seg_vals (runs x x r)). rewrite IH by (auto; lia).
      replace (Z.to_nat (x + 1 - x)) with 1%nat by lia. rewrite range_list_1. reflexivity.
    + assert (x = prev + 1) by lia. subst x. rewrite IH by (auto; lia).
      replace (Z.to_nat (prev + 1 + 1 - first)) with (Z.to_nat (prev + 1 - first) + 1)%nat by lia.
      rewrite range_list_app, range_list_1. rewrite <- app_assoc. cbn [app]. f_equal. f_equal. lia.
Qed.

Lemma runs_bounds : forall l first prev lo hi, lo <= first -> first <= prev -> increasing (prev :: l) = true ->
  Forall (fun y => y < hi) (prev :: l) ->
  Forall (fun p => lo <= fst p /\ fst p <= snd p /\ snd p <= hi) (runs first prev l).
Proof.
  induction l as [|x r IH]; intros first prev lo hi H1 H2 Hinc Hub.
  - cbn. inversion Hub; subst. constructor; [cbn; lia|constructor].
  - inversion Hub as [|? ? Hp Hub']; subst.
    rewrite increasing_cons in Hinc. apply andb_prop in Hinc. destruct Hinc as [H3 H4].
    cbn [runs]. destruct (lazy_jump (x - prev)).
    + constructor; [cbn; lia|]. apply IH; auto; lia.
    + apply IH; auto; lia.
Qed.

Lemma runs_hd l first prev : fst (hd (0, 0) (runs first prev l)) = first.
Proof. revert first prev. induction l as [|x r IH]; intros; cbn [runs]; [reflexivity|]. destruct (lazy_jump (x - prev)); cbn [hd fst]; auto. Qed.

Lemma runs_nonempty l first prev : runs first prev l <> [].
Proof. revert first prev. induction l as [|x r IH]; intros; cbn [runs]; [discriminate|].
  destruct (lazy_jump (x - prev)); [discriminate|apply IH]. Qed.

Lemma runs_last l first prev : snd (last (runs first prev l) (0, 0)) = last (prev :: l) 0 + 1.
Proof.
  revert first prev. induction l as [|x r IH]; intros; [reflexivity|].
  cbn [runs]. change (last (prev :: x :: r) 0) with (last (x :: r) 0).
  destruct (lazy_jump (x - prev)).
  - specialize (IH x x). pose proof (runs_nonempty r x x) as NE. destruct (runs x x r) as [|p l] eqn:E; [congruence|].
    change (last ((first, prev + 1) :: p :: l) (0, 0)) with (last (p :: l) (0, 0)). exact IH.
  - apply IH.
Qed.

(* ------------------------------------------------------------------ reading and writing segments *)

Lemma ds_read_unit n s e : 0 <= s -> s <= e -> e <= n ->
  ds_read n s e 1 = Ok (range_list s 1 (Z.to_nat (e - s))).
Proof.
  intros H1 H2 H3. unfold ds_read, slice_positions.
  rewrite slice_indices_idem by lia. now rewrite py_range_unit.
Qed.

Lemma do_segs_sparse n : forall rs done m,
  Forall (fun p => 0 <= fst p /\ fst p <= snd p /\ snd p <= n) rs ->
  (List.length (seg_vals rs) <= m)%nat ->
  do_segs n (map Some done ++ repeat None m) (sparse_segs (zlen done) rs)
  = Ok (map Some (done ++ seg_vals rs) ++ repeat None (m - List.length (seg_vals rs))).
Proof.
  induction rs as [|[s e] r IH]; intros done m Hb Hm.
  - cbn. rewrite app_nil_r, Nat.sub_0_r. reflexivity.
  - inversion Hb as [|? ? [B1 [B2 B3]] Hb']; subst. cbn in B1, B2, B3.
    cbn [sparse_segs do_segs]. unfold do_seg. cbn [sg_start sg_stop sg_step sg_post sg_o1 sg_o2].
    rewrite ds_read_unit by lia. cbn [bind post_select].
    set (vals := range_list s 1 (Z.to_nat (e - s))).
    assert (Hl : List.length vals = Z.to_nat (e - s)) by apply range_list_length.
    cbn [seg_vals flat_map fst snd] in Hm. fold (seg_vals r) in Hm. fold vals in Hm. rewrite app_length in Hm.
    unfold assign. assert (E : (zlen vals =? zlen done + (e - s) - zlen done) = true) by (unfold zlen; lia).
    rewrite E. cbn [bind].
    replace (Z.to_nat (zlen done)) with (List.length done) by (unfold zlen; lia).
    rewrite write_at_fill by lia.
    replace (zlen done + (e - s)) with (zlen (done ++ vals)) by (rewrite zlen_app; unfold zlen; lia).
    rewrite IH by (auto; lia).
    cbn [seg_vals flat_map fst snd]. fold (seg_vals r). fold vals.
    rewrite <- app_assoc, app_length. f_equal. f_equal. f_equal. lia.
Qed.

Lemma seg_total_sparse rs : forall off, Forall (fun p => fst p <= snd p) rs ->
  seg_total (sparse_segs off rs) = zlen (seg_vals rs).
Proof.
  induction rs as [|[s e] r IH]; intros off H; [reflexivity|].
  inversion H; subst. cbn in H2.
  cbn [sparse_segs seg_total fold_right sg_o1 sg_o2]. fold (seg_total (sparse_segs (off + (e - s)) r)).
  rewrite IH by assumption. cbn [seg_vals flat_map fst snd]. fold (seg_vals r).
  rewrite zlen_app. unfold zlen at 2. rewrite range_list_length. lia.
Qed.

Lemma np_take_shift l0 k : forall l, Forall (fun x => l0 <= x < l0 + Z.of_nat k) l ->
  np_take (range_list l0 1 k) (map (fun x => x - l0) l) = Ok l.
Proof.
  unfold np_take. induction 1 as [|x r Hx _ IH]; [reflexivity|].
  cbn [map mapM]. rewrite IH. unfold np_get at 1.
  assert (Hz : zlen (range_list l0 1 k) = Z.of_nat k) by (unfold zlen; now rewrite range_list_length).
  rewrite Hz, wrap_id by lia. unfold znth. rewrite range_list_nth by lia. cbn. repeat f_equal. lia.
Qed.

(* THE per-axis reconstruction: for a strictly increasing list of positions on the axis, both read
   strategies (one slice per run, or one spanning slice followed by post-selection) fill the output
   exactly with that list, whatever the decision [b] of the 20 % heuristic. *)
Lemma adv_gather n (b : bool) x r : increasing (x :: r) = true -> 0 <= x -> last (x :: r) 0 < n ->
  let l := x :: r in
  let segs := adv_segs b l in
  do_segs n (repeat None (Z.to_nat (seg_total segs))) segs = Ok (map Some l)
  /\ seg_total segs = zlen l.
Proof.
  intros Hinc Hx Hlast l segs.
  assert (Hub : Forall (fun y => y <= last l 0) l) by exact (increasing_last_ub _ _ Hinc).
  pose proof (increasing_lb _ _ Hinc) as Hlb.
  assert (Hlast' : last l 0 < n) by exact Hlast.
  assert (Hxl : x <= last l 0) by (unfold l in Hub at 2; inversion Hub; subst; assumption).
  assert (Hflat : seg_vals (segments l) = l).
  { unfold l, segments. rewrite runs_flat by (auto; lia). replace (Z.to_nat (x + 1 - x)) with 1%nat by lia.
    now rewrite range_list_1. }
  assert (Hb : Forall (fun p => 0 <= fst p /\ fst p <= snd p /\ snd p <= n) (segments l)).
  { unfold l, segments. apply runs_bounds; auto; try lia.
    eapply Forall_impl; [|exact Hub]. intros a Ha. cbn beta in Ha. lia. }
  assert (Hhd : fst (hd (0, 0) (segments l)) = x) by (unfold l, segments; apply runs_hd).
  assert (Hls : snd (last (segments l) (0, 0)) = last l 0 + 1) by (unfold l, segments; apply runs_last).
  unfold segs, adv_segs. destruct b.
  - (* dense: one spanning slice, post-selection by l - l[0] *)
    rewrite Hhd, Hls. change (hd 0 l) with x.
    cbn [seg_total fold_right sg_o1 sg_o2 do_segs hd]. unfold do_seg. cbn [sg_start sg_stop sg_step sg_post sg_o1 sg_o2].
    rewrite ds_read_unit by lia. cbn [bind post_select].
    rewrite np_take_shift.
    2:{ apply Forall_forall. intros y Hy. rewrite Forall_forall in Hub. specialize (Hub y Hy).
        assert (x <= y). { unfold l in Hy. destruct Hy as [<-|Hy]; [lia|]. rewrite Forall_forall in Hlb. specialize (Hlb y Hy). lia. }
        lia. }
    cbn [bind]. unfold assign.
    assert (E : (zlen l =? zlen l - 0) = true) by lia. rewrite E.
    replace (zlen l - 0 + 0) with (zlen l) by lia.
    split; [|reflexivity].
    pose proof (write_at_fill [] (Z.to_nat (zlen l)) l) as W. cbn [map app List.length] in W.
    change (Z.to_nat 0) with 0%nat. rewrite W by (unfold zlen; lia).
    replace (Z.to_nat (zlen l) - List.length l)%nat with 0%nat by (unfold zlen; lia).
    cbn [repeat]. now rewrite app_nil_r.
  - (* sparse: one slice per run, contiguous output slices *)
    rewrite seg_total_sparse by (eapply Forall_impl; [|exact Hb]; cbn; intros; lia).
    rewrite Hflat. split; [|reflexivity].
    pose proof (do_segs_sparse n (segments l) [] (Z.to_nat (zlen l)) Hb) as D.
    cbn [map app] in D. change (zlen []) with 0 in D. rewrite Hflat in D.
    rewrite D by (unfold zlen; lia).
    replace (Z.to_nat (zlen l) - List.length l)%nat with 0%nat by (unfold zlen; lia).
    cbn [repeat]. now rewrite app_nil_r.
Qed.

(* gather of an advanced plan: Ok only with exactly the requested positions *)
Lemma adv_plan_gather n l p s : increasing l = true -> adv_plan n l = Ok p -> axis_gather n p = Ok s ->
  s = (l, false) /\ in_range n l.
Proof.
  intro Hinc. unfold adv_plan. destruct l as [|x r].
  - intro H; injection H as <-. cbn. intro H; injection H as <-. split; [reflexivity|constructor].
  - unfold lazy_out_of_range. destruct ((x <? 0) || (n <=? last (x :: r) 0)) eqn:E; [discriminate|].
    intro H; injection H as <-. intro G.
    destruct (adv_gather n (dense (zlen (x :: r)) n (zlen (segments (x :: r)))) x r Hinc ltac:(lia) ltac:(lia)) as [D T].
    cbn zeta in D, T. cbn [axis_gather] in G. change (runs x x r) with (segments (x :: r)) in G. rewrite D in G. cbn [bind] in G. rewrite all_filled_some in G.
    cbn in G. injection G as <-. split; [reflexivity|].
    pose proof (increasing_last_ub _ _ Hinc) as Hub. pose proof (increasing_lb _ _ Hinc) as Hlb.
    apply orb_false_elim in E. destruct E as [E1 E2].
    apply Forall_forall. intros y Hy. rewrite Forall_forall in Hub. specialize (Hub y Hy).
    assert (x <= y). { destruct Hy as [<-|Hy]; [lia|]. rewrite Forall_forall in Hlb. specialize (Hlb y Hy). lia. }
    lia.
Qed.

(* ------------------------------------------------------------------ slice plan *)

Lemma write_at_empty o vals : write_at [] o vals = [].
Proof. destruct vals; [reflexivity|]. destruct o; reflexivity. Qed.

Lemma range_len_pos_cases s e st : st <> 0 -> 0 < range_len s e st -> (0 < st /\ s < e) \/ (st < 0 /\ e < s).
Proof.
  intros H0 H. unfold range_len in H. destruct (0 <? st) eqn:E1.
  - destruct (s <? e) eqn:E2; lia.
  - destruct (e <? s) eqn:E2; lia.
Qed.

Lemma ds_read_neg_stop n s st : 0 <= s <= n - 1 -> st < 0 -> ds_read n s (-1) st = Ok [].
Proof.
  intros Hs Hst. unfold ds_read, slice_positions, slice_indices.
  assert (E0 : (st =? 0) = false) by lia. assert (E1 : (st <? 0) = true) by lia. rewrite E0, E1.
  assert (E2 : (s <? 0) = false) by lia. rewrite E2. cbn [Z.ltb Z.compare].
  rewrite py_range_empty; [reflexivity|].
  unfold range_len. assert (E3 : (0 <? st) = false) by lia. rewrite E3.
  destruct (Z.max (-1 + n) (-1) <? Z.min s (n - 1)) eqn:E4; [lia|reflexivity].
Qed.

Lemma slice_gather n a b c p s : 0 <= n -> axis_plan n (MSlice a b c) = Ok p -> axis_gather n p = Ok s ->
  exists ps, slice_positions n a b c = Some ps /\ s = (ps, false).
Proof.
  intros Hn H1 G. cbn [axis_plan] in H1.
  destruct (slice_indices n a b c) as [[[s0 e0] st]|] eqn:E; [|discriminate]. injection H1 as <-.
  exists (py_range s0 e0 st). split; [unfold slice_positions; now rewrite E|].
  destruct (slice_indices_bounds _ _ _ _ _ _ _ Hn E) as [H0 [Bp Bm]].
  pose proof (range_len_nonneg s0 e0 st H0) as HL.
  cbn [axis_gather seg_total fold_right sg_o1 sg_o2 do_segs] in G.
  unfold do_seg in G. cbn [sg_start sg_stop sg_step sg_post sg_o1 sg_o2] in G.
  replace (range_len s0 e0 st - 0 + 0) with (range_len s0 e0 st) in G by lia.
  destruct (Z.eq_dec (range_len s0 e0 st) 0) as [L0|L1].
  - rewrite L0 in G. cbn [Z.to_nat repeat] in G. rewrite (py_range_empty _ _ _ L0).
    destruct (ds_read n s0 e0 st) as [chunk|]; [|discriminate]. cbn [bind post_select] in G.
    unfold assign in G.
    destruct (zlen chunk =? 0 - 0); [|destruct (zlen chunk =? 1); [|discriminate]];
      cbn [bind] in G; rewrite write_at_empty in G; cbn in G; now injection G as <-.
  - destruct (range_len_pos_cases s0 e0 st H0 ltac:(lia)) as [[P1 P2]|[P1 P2]].
    + assert (R : ds_read n s0 e0 st = Ok (py_range s0 e0 st)).
      { unfold ds_read, slice_positions. rewrite slice_indices_idem; auto; lia. }
      rewrite R in G. cbn [bind post_select] in G. unfold assign in G.
      rewrite py_range_length in G by assumption.
      replace (range_len s0 e0 st - 0) with (range_len s0 e0 st) in G by lia. rewrite Z.eqb_refl in G.
      cbn [bind] in G. change (Z.to_nat 0) with 0%nat in G.
      pose proof (write_at_fill [] (Z.to_nat (range_len s0 e0 st)) (py_range s0 e0 st)) as W.
      cbn [map app List.length] in W. rewrite W in G
        by (pose proof (py_range_length s0 e0 st H0); unfold zlen in *; lia).
      replace (Z.to_nat (range_len s0 e0 st) - List.length (py_range s0 e0 st))%nat with 0%nat in G
        by (pose proof (py_range_length s0 e0 st H0); unfold zlen in *; lia).
      cbn [repeat] in G. rewrite app_nil_r, all_filled_some in G. cbn in G. now injection G as <-.
    + specialize (Bm P1). destruct (Z.eq_dec e0 (-1)) as [->|Ne].
      * rewrite ds_read_neg_stop in G by lia. cbn [bind post_select] in G. unfold assign in G.
        change (zlen (@nil Z)) with 0 in G.
        assert (E1 : (0 =? range_len s0 (-1) st - 0) = false) by lia. rewrite E1 in G. discriminate.
      * assert (R : ds_read n s0 e0 st = Ok (py_range s0 e0 st)).
        { unfold ds_read, slice_positions. rewrite slice_indices_idem; auto; lia. }
        rewrite R in G. cbn [bind post_select] in G. unfold assign in G.
        rewrite py_range_length in G by assumption.
        replace (range_len s0 e0 st - 0) with (range_len s0 e0 st) in G by lia. rewrite Z.eqb_refl in G.
        cbn [bind] in G. change (Z.to_nat 0) with 0%nat in G.
        pose proof (write_at_fill [] (Z.to_nat (range_len s0 e0 st)) (py_range s0 e0 st)) as W.
        cbn [map app List.length] in W. rewrite W in G
          by (pose proof (py_range_length s0 e0 st H0); unfold zlen in *; lia).
        replace (Z.to_nat (range_len s0 e0 st) - List.length (py_range s0 e0 st))%nat with 0%nat in G
          by (pose proof (py_range_length s0 e0 st H0); unfold zlen in *; lia).
        cbn [repeat] in G. rewrite app_nil_r, all_filled_some in G. cbn in G. now injection G as <-.
Qed.

(* ------------------------------------------------------------------ first-stage lookup vs numpy positions *)

Lemma nonzero_all_true m : forall i, forallb (fun b => b) m = true -> nonzero_from i m = range_list i 1 (List.length m).
Proof.
  induction m as [|b r IH]; intros i H; [reflexivity|].
  cbn in H. apply andb_prop in H. destruct H as [-> H]. cbn [nonzero_from List.length].
  rewrite range_list_S, IH by assumption. reflexivity.
Qed.

Lemma select_nonzero : forall m (l : list Z) i, List.length m = List.length l ->
  select m l = map (fun q => nth (Z.to_nat (q - i)) l 0) (nonzero_from i m).
Proof.
  induction m as [|b m IH]; intros l i H; destruct l as [|x l]; try discriminate; [reflexivity|].
  cbn in H. injection H as H. cbn [select nonzero_from].
  assert (T : select m l = map (fun q => nth (Z.to_nat (q - i)) (x :: l) 0) (nonzero_from (i + 1) m)).
  { rewrite (IH l (i + 1) H). apply map_ext_in. intros q Hq. apply nonzero_from_range in Hq.
    replace (Z.to_nat (q - i)) with (S (Z.to_nat (q - (i + 1)))) by lia. reflexivity. }
  destruct b; [|exact T]. cbn [map]. rewrite Z.sub_diag. cbn [Z.to_nat nth]. now rewrite T.
Qed.

Lemma mapM_nth {A B} (f : A -> res B) l ys d d' i : mapM f l = Ok ys -> (i < List.length l)%nat ->
  f (nth i l d) = Ok (nth i ys d').
Proof.
  revert ys i. induction l as [|x r IH]; intros ys i H Hi; [cbn in Hi; lia|].
  cbn in H. destruct (f x) eqn:E; [|discriminate]. cbn in H. destruct (mapM f r) eqn:E2; [|discriminate].
  cbn in H. injection H as <-. destruct i; [exact E|]. cbn [nth]. apply IH; auto. cbn in Hi. lia.
Qed.

Definition lookup_rel (n : Z) (lk : lookup) (p1 : list Z) : Prop :=
  match lk with
  | None => p1 = zrange n
  | Some l => mapM (wrap_res n) l = Ok p1
  end.

Lemma lookup_rel_ok n i1 lk p1 : 0 <= n -> mk_lookup n i1 = Ok lk -> resolve_keep n i1 = Ok p1 -> lookup_rel n lk p1.
Proof.
  intros Hn H R. unfold resolve_keep in R. destruct i1 as [z|a b c|m|l]; cbn in H, R.
  - injection H as <-. unfold wrap_res in *. destruct (wrap n z) eqn:E; [|discriminate]. cbn in R. injection R as <-.
    cbn. unfold wrap_res. now rewrite E.
  - unfold slice_positions in R. destruct (slice_indices n a b c) as [[[s e] st]|] eqn:E; [|discriminate].
    cbn in R. injection R as <-.
    destruct (is_full n s e st) eqn:F; injection H as <-.
    + unfold is_full in F. apply andb_prop in F. destruct F as [F F3]. apply andb_prop in F. destruct F as [F1 F2].
      assert (s = 0) by lia. assert (e = n) by lia. assert (st = 1) by lia. subst. cbn. now apply py_range_full.
    + cbn. apply mapM_wrap_id. apply Forall_forall. intros x Hx.
      eapply slice_positions_in_range; eauto. unfold slice_positions. now rewrite E.
  - destruct (zlen m =? n) eqn:E; [|discriminate]. cbn in R. injection R as <-.
    destruct (forallb (fun b => b) m) eqn:F; injection H as <-.
    + cbn. unfold nonzero. rewrite nonzero_all_true by assumption. unfold zrange. f_equal. unfold zlen in E. lia.
    + cbn. apply mapM_wrap_id. apply Forall_forall. intros x Hx. apply nonzero_from_range in Hx. lia.
  - injection H as <-. cbn. destruct (mapM (wrap_res n) l); [|discriminate]. cbn in R. now injection R as <-.
Qed.

Lemma lookup_rel_len n lk p1 : 0 <= n -> lookup_rel n lk p1 -> zlen p1 = init_len n lk.
Proof.
  intros Hn H. destruct lk as [l|]; cbn in *.
  - apply mapM_ok_length in H. unfold zlen. now rewrite H.
  - subst. now apply zrange_length.
Qed.

Lemma lookup_get n l p1 q : mapM (wrap_res n) l = Ok p1 -> 0 <= q < zlen l ->
  wrap_res n (znth l q) = Ok (znth p1 q).
Proof. intros H Hq. unfold znth. apply mapM_nth; auto. unfold zlen in Hq. lia. Qed.

(* an array of mapped positions that passes the sortedness and range tests is gathered exactly *)
Lemma marr_case n l1 p1 qs p s : mapM (wrap_res n) l1 = Ok p1 -> in_range (zlen l1) qs ->
  axis_plan n (MArr (map (znth l1) qs)) = Ok p -> axis_gather n p = Ok s ->
  s = (map (znth p1) qs, false).
Proof.
  intros HL Hq HP G. cbn [axis_plan] in HP. rewrite sorted_ok_increasing in HP.
  destruct (increasing (map (znth l1) qs)) eqn:Hinc; [|discriminate].
  destruct (adv_plan_gather _ _ _ _ Hinc HP G) as [-> Hr]. f_equal.
  apply map_ext_in. intros q Hin.
  unfold in_range in *. rewrite Forall_forall in Hq, Hr. specialize (Hq q Hin).
  specialize (Hr (znth l1 q) (in_map _ _ _ Hin)).
  pose proof (lookup_get _ _ _ _ HL Hq) as W. unfold wrap_res in W. rewrite wrap_id in W by assumption.
  now injection W.
Qed.

(* THE per-axis theorem: whatever the first-stage item i1 and second-stage item i2, if the indexer
   delivers positions on this axis they are the numpy positions of i2 on the first-stage result,
   mapped back through the numpy positions of i1. *)
Lemma axis_sel_correct n i1 i2 lk p1 g d : 0 <= n ->
  mk_lookup n i1 = Ok lk -> resolve_keep n i1 = Ok p1 -> axis_sel n lk i2 = Ok (g, d) ->
  exists p2, resolve (zlen p1) i2 = Ok (p2, d) /\ g = map (znth p1) p2 /\ (d = true -> p2 <> []).
Proof.
  intros Hn HL HR HS.
  pose proof (lookup_rel_ok _ _ _ _ Hn HL HR) as Rel.
  pose proof (lookup_rel_len _ _ _ Hn Rel) as Len.
  unfold axis_sel in HS.
  destruct (map_stage2 lk i2) as [m|] eqn:EM; [|discriminate]. cbn [bind] in HS.
  destruct (axis_plan n m) as [p|] eqn:EP; [|discriminate]. cbn [bind] in HS.
  destruct lk as [l1|]; cbn in Rel, Len.
  - (* first stage stored as a lookup *)
    assert (Len' : zlen l1 = zlen p1) by lia.
    destruct i2 as [z|a b c|msk|is]; cbn [map_stage2] in EM.
    + unfold np_get in EM. destruct (wrap (zlen l1) z) as [q|] eqn:W; [|discriminate]. cbn in EM. injection EM as <-.
      cbn in EP. injection EP as <-. cbn in HS.
      pose proof (wrap_range _ _ _ W) as Hq.
      rewrite (lookup_get _ _ _ _ Rel Hq) in HS. cbn in HS. injection HS as <- <-.
      exists [q]. cbn. unfold wrap_res. rewrite <- Len', W. cbn. repeat split; auto. discriminate.
    + destruct (slice_positions (zlen l1) a b c) as [ps|] eqn:SP; [|discriminate]. injection EM as <-.
      assert (Hq : in_range (zlen l1) ps).
      { apply Forall_forall. intros x Hx. eapply slice_positions_in_range; eauto. apply zlen_nonneg. }
      injection (marr_case _ _ _ _ _ _ Rel Hq EP HS) as -> ->.
      exists ps. cbn. rewrite <- Len', SP. repeat split; auto. discriminate.
    + destruct (zlen msk =? zlen l1) eqn:EL; [|discriminate]. injection EM as <-.
      rewrite (select_nonzero msk l1 0) in EP by (unfold zlen in EL; lia).
      assert (Hq : in_range (zlen l1) (nonzero msk)).
      { apply Forall_forall. intros x Hx. apply nonzero_from_range in Hx. lia. }
      assert (EP' : axis_plan n (MArr (map (znth l1) (nonzero msk))) = Ok p).
      { rewrite <- EP. do 2 f_equal. apply map_ext. intro q. unfold znth. now rewrite Z.sub_0_r. }
      injection (marr_case _ _ _ _ _ _ Rel Hq EP' HS) as -> ->.
      exists (nonzero msk). cbn. rewrite <- Len', EL. repeat split; auto. discriminate.
    + destruct (np_take l1 is) as [vs|] eqn:ET; [|discriminate]. cbn in EM. injection EM as <-.
      (* positions of the list on the first-stage result *)
      assert (exists qs, mapM (wrap_res (zlen l1)) is = Ok qs /\ vs = map (znth l1) qs /\ in_range (zlen l1) qs) as [qs [Q1 [Q2 Q3]]].
      { clear -ET. unfold np_take in ET. revert vs ET. induction is as [|i r IH]; intros vs ET; cbn in ET.
        - injection ET as <-. exists []. repeat split; constructor.
        - unfold np_get at 1 in ET. destruct (wrap (zlen l1) i) as [q|] eqn:W; [|discriminate]. cbn in ET.
          destruct (mapM (np_get l1) r) as [vr|]; [|discriminate]. cbn in ET. injection ET as <-.
          destruct (IH vr eq_refl) as [qs [Q1 [Q2 Q3]]]. exists (q :: qs). cbn. unfold wrap_res at 1. rewrite W. cbn.
          rewrite Q1. cbn. repeat split; [now rewrite Q2|]. constructor; auto. eapply wrap_range; eauto. }
      subst vs. injection (marr_case _ _ _ _ _ _ Rel Q3 EP HS) as -> ->.
      exists qs. cbn. rewrite <- Len', Q1. cbn. repeat split; auto. discriminate.
  - (* first stage keeps the whole axis *)
    subst p1. rewrite zrange_length in * by assumption.
    assert (Hid : forall ps, in_range n ps -> map (znth (zrange n)) ps = ps).
    { intros ps Hp. rewrite <- (map_id ps) at 2. apply map_ext_in. intros q Hq.
      unfold in_range in Hp. rewrite Forall_forall in Hp. apply zrange_nth. auto. }
    cbn [map_stage2] in EM. injection EM as <-.
    destruct i2 as [z|a b c|msk|is].
    + cbn in EP. injection EP as <-. cbn in HS. unfold wrap_res in HS.
      destruct (wrap n z) as [q|] eqn:W; [|discriminate]. cbn in HS. injection HS as <- <-.
      exists [q]. split; [cbn [resolve]; unfold wrap_res; rewrite W; reflexivity|]. split; [|discriminate].
      cbn [map]. unfold znth. rewrite zrange_nth; [reflexivity|]. eapply wrap_range; eauto.
    + destruct (slice_gather _ _ _ _ _ _ Hn EP HS) as [ps [SP E]]. injection E as -> ->.
      exists ps. cbn. rewrite SP. repeat split; [|discriminate].
      rewrite Hid; auto. apply Forall_forall. intros x Hx. eapply slice_positions_in_range; eauto.
    + cbn [axis_plan] in EP. destruct (zlen msk =? n) eqn:EL; [|discriminate].
      destruct (adv_plan_gather _ _ _ _ (nonzero_from_increasing 0 msk) EP HS) as [E Hr]. injection E as -> ->.
      exists (nonzero msk). cbn. rewrite EL. repeat split; [|discriminate]. now rewrite Hid.
    + cbn [axis_plan] in EP. rewrite sorted_ok_increasing in EP. destruct (increasing is) eqn:Hinc; [|discriminate].
      destruct (adv_plan_gather _ _ _ _ Hinc EP HS) as [E Hr]. injection E as -> ->.
      exists is. cbn. rewrite mapM_wrap_id by assumption. cbn. repeat split; [|discriminate]. now rewrite Hid.
Qed.

(* ------------------------------------------------------------------ N-d *)

Lemma nd_sels : forall shape ixs1 ixs2 lks sels sels1,
  Forall (fun d => 0 <= d) shape ->
  List.length ixs1 = List.length shape -> List.length ixs2 = List.length shape ->
  mapM (fun p => mk_lookup (fst p) (snd p)) (combine shape ixs1) = Ok lks ->
  mapM (fun p => ps <- resolve_keep (fst p) (snd p) ;; Ok (ps, false)) (combine shape ixs1) = Ok sels1 ->
  mapM (fun p => axis_sel (fst (fst p)) (snd (fst p)) (snd p)) (combine (combine shape lks) ixs2) = Ok sels ->
  exists sels2,
    mapM (fun p => resolve (fst p) (snd p)) (combine (take_shape sels1) ixs2) = Ok sels2
    /\ sels = compose_sels sels1 sels2
    /\ List.length sels1 = List.length sels2
    /\ List.length sels1 = List.length shape
    /\ Forall (fun s => snd s = false) sels1
    /\ Forall2 (fun a b => in_range (zlen (fst a)) (fst b) /\ (snd b = true -> fst b <> [])) sels1 sels2.
Proof.
  induction shape as [|n shape IH]; intros ixs1 ixs2 lks sels sels1 Hs L1 L2 HL HK HS.
  - destruct ixs1, ixs2; try discriminate. cbn in *. injection HL as <-. injection HK as <-. cbn in HS. injection HS as <-.
    exists []. repeat split; constructor.
  - destruct ixs1 as [|i1 ixs1], ixs2 as [|i2 ixs2]; try discriminate.
    inversion Hs as [|? ? Hn Hs']; subst.
    cbn [combine mapM fst snd] in HL, HK.
    destruct (mk_lookup n i1) as [lk|] eqn:E1; [|discriminate]. cbn [bind] in HL.
    destruct (mapM (fun p => mk_lookup (fst p) (snd p)) (combine shape ixs1)) as [lks'|] eqn:E2; [|discriminate].
    cbn [bind] in HL. injection HL as <-.
    destruct (resolve_keep n i1) as [p1|] eqn:E3; [|discriminate]. cbn [bind] in HK.
    destruct (mapM (fun p => ps <- resolve_keep (fst p) (snd p) ;; Ok (ps, false)) (combine shape ixs1)) as [sels1'|] eqn:E4;
      [|discriminate]. cbn [bind] in HK. injection HK as <-.
    cbn [combine mapM fst snd] in HS.
    destruct (axis_sel n lk i2) as [[g d]|] eqn:E5; [|discriminate]. cbn [bind] in HS.
    destruct (mapM (fun p => axis_sel (fst (fst p)) (snd (fst p)) (snd p)) (combine (combine shape lks') ixs2)) as [sels'|] eqn:E6;
      [|discriminate]. cbn [bind] in HS. injection HS as <-.
    destruct (axis_sel_correct _ _ _ _ _ _ _ Hn E1 E3 E5) as [p2 [R [G ND]]].
    destruct (IH ixs1 ixs2 lks' sels' sels1' Hs' ltac:(cbn in L1; lia) ltac:(cbn in L2; lia) E2 E4 E6)
      as [sels2 [A [B [C [C' [D F]]]]]].
    exists ((p2, d) :: sels2).
    cbn [take_shape combine mapM fst snd]. rewrite R. cbn [bind]. rewrite A. cbn [bind].
    repeat split.
    + cbn [compose_sels compose_sel fst snd]. now rewrite G, B.
    + cbn. now rewrite C.
    + cbn. now rewrite C'.
    + constructor; auto.
    + constructor; auto. cbn [fst snd]. split; auto.
      eapply resolve_in_range; [apply zlen_nonneg|exact R].
Qed.

(* C05_getitem: whenever the indexer answers, the answer is transforms(source[stage 1][stage 2])
   under outer indexing -- for every source content, shape, stage-1 / stage-2 index tuple of any
   kinds and every transform chain.  (Hypothesis: source[stage 1] exists, i.e. numpy accepts it.) *)
Lemma getitem_correct shape ds k1 ts dt k2 li out a1 :
  Forall (fun d => 0 <= d) shape ->
  mk_lazy shape k1 ts dt = Ok li ->
  oindex_keep (mk_nd shape ds) k1 = Ok a1 ->
  getitem li ds k2 = Ok out ->
  spec_getitem shape ds k1 ts dt k2 = Ok out.
Proof.
  intros Hs HM H1 HG. unfold mk_lazy in HM.
  destruct (mapM _ _) as [lks|] eqn:EL in HM; [|discriminate]. cbn [bind] in HM.
  destruct (lazy_shape _) in HM; [|discriminate]. cbn [bind] in HM. injection HM as <-.
  unfold getitem, lazy_sels in HG. cbn [li_shape li_lookup li_ts li_dtype0] in HG.
  destruct (mapM _ _) as [sels|] eqn:ES in HG; [|discriminate]. cbn [bind] in HG.
  unfold spec_getitem. rewrite H1. cbn [bind].
  unfold oindex_keep, keep_sels in H1. cbn [nd_shape nd_body] in H1.
  destruct (mapM _ _) as [sels1|] eqn:EK in H1; [|discriminate]. cbn [bind] in H1. injection H1 as <-.
  destruct (nd_sels shape _ _ lks sels sels1 Hs (pad_to_length _ _) (pad_to_length _ _) EL EK ES)
    as [sels2 [A [B [C [C' [D F]]]]]].
  unfold oindex, resolve_all. cbn [nd_shape nd_body].
  assert (LT : List.length (take_shape sels1) = List.length shape).
  { rewrite take_shape_keep by assumption. now rewrite map_length. }
  rewrite LT, A. cbn [bind].
  rewrite take_compose by assumption. rewrite <- B.
  rewrite <- (take_shape_compose sels1 sels2 C), <- B. exact HG.
Qed.

(* ------------------------------------------------------------------ rejection clause *)

Lemma mapM_ok_in {A B} (f : A -> res B) l ys x : mapM f l = Ok ys -> In x l -> exists y, f x = Ok y.
Proof.
  revert ys. induction l as [|a r IH]; intros ys H Hin; [contradiction|].
  cbn in H. destruct (f a) eqn:E; [|discriminate]. cbn in H. destruct (mapM f r) eqn:E2; [|discriminate].
  destruct Hin as [<-|Hin]; [eauto|]. eapply IH; eauto.
Qed.

(* a sequence that is not strictly increasing, or contains a negative integer, is rejected on an axis
   without first-stage lookup; through a lookup the same holds for the mapped sequence *)
Lemma axis_rejects n l : increasing l = false \/ (exists x, In x l /\ x < 0) -> axis_sel n None (AList l) = Err.
Proof.
  intro H. unfold axis_sel. cbn [map_stage2 bind axis_plan]. rewrite sorted_ok_increasing.
  destruct (increasing l) eqn:Hinc; [|reflexivity].
  destruct H as [H|[x [Hin Hx]]]; [discriminate|].
  destruct l as [|y r]; [contradiction|]. cbn [adv_plan].
  assert (y <= x). { destruct Hin as [<-|Hin]; [lia|]. pose proof (increasing_lb _ _ Hinc) as Hlb.
                     rewrite Forall_forall in Hlb. specialize (Hlb x Hin). lia. }
  unfold lazy_out_of_range. assert (E : (y <? 0) = true) by lia. rewrite E. reflexivity.
Qed.

Lemma axis_rejects_mapped n l1 is : (forall vs, np_take l1 is = Ok vs -> increasing vs = false) ->
  axis_sel n (Some l1) (AList is) = Err.
Proof.
  intro H. unfold axis_sel. cbn [map_stage2]. destruct (np_take l1 is) as [vs|] eqn:E; [|reflexivity].
  cbn [bind axis_plan]. rewrite sorted_ok_increasing. now rewrite (H vs eq_refl).
Qed.

(* N-d: an indexer that answers has accepted every axis *)
Lemma getitem_ok_axes li ds ixs out : getitem li ds ixs = Ok out ->
  forall n lk ix, In (n, lk, ix) (combine (combine (li_shape li) (li_lookup li)) (pad_to (List.length (li_shape li)) ixs)) ->
  exists s, axis_sel n lk ix = Ok s.
Proof.
  intros HG n lk ix Hin. unfold getitem, lazy_sels in HG.
  destruct (mapM _ _) as [sels|] eqn:E in HG; [|discriminate].
  apply (mapM_ok_in _ _ _ _ E Hin).
Qed.

(* ------------------------------------------------------------------ shape / dtype through the chain *)

Lemma tr_apply_shape_dtype t x y : tr_apply t x = Ok y ->
  nd_shape (a_nd y) = tr_new_shape t (nd_shape (a_nd x)) /\ a_dtype y = tr_dtype t (a_dtype x).
Proof.
  destruct t as [a b dt| |]; cbn [tr_apply].
  - cbv zeta. destruct (LazyDType.is_bytes (a_dtype x)); [discriminate|]. intro H; injection H as <-. split; reflexivity.
  - destruct (rev (nd_shape (a_nd x))) as [|d r]; [discriminate|]. destruct (d <=? 0); [discriminate|].
    intro H; injection H as <-. split; reflexivity.
  - intro H; injection H as <-. split; reflexivity.
Qed.

Lemma apply_transforms_shape_dtype ts : forall x y, apply_transforms ts x = Ok y ->
  nd_shape (a_nd y) = fold_left (fun sh t => tr_new_shape t sh) ts (nd_shape (a_nd x))
  /\ a_dtype y = fold_left (fun dt t => tr_dtype t dt) ts (a_dtype x).
Proof.
  induction ts as [|t r IH]; intros x y H; cbn in H.
  - injection H as <-. split; reflexivity.
  - destruct (tr_apply t x) as [z|] eqn:E; [|discriminate]. cbn in H.
    destruct (tr_apply_shape_dtype _ _ _ E) as [S D]. destruct (IH _ _ H) as [S' D'].
    cbn [fold_left]. rewrite <- S, <- D. split; assumption.
Qed.

Lemma getitem_shape_dtype li ds ixs out : getitem li ds ixs = Ok out ->
  a_dtype out = lazy_dtype li /\
  exists sels, lazy_sels li ixs = Ok sels /\
    nd_shape (a_nd out) = fold_left (fun sh t => tr_new_shape t sh) (li_ts li) (take_shape sels).
Proof.
  intro HG. unfold getitem in HG. destruct (lazy_sels li ixs) as [sels|] eqn:E; [|discriminate]. cbn [bind] in HG.
  destruct (apply_transforms_shape_dtype _ _ _ HG) as [S D]. split; [exact D|]. exists sels. split; [reflexivity|exact S].
Qed.

(* ------------------------------------------------------------------ open findings on LazyIndexer: witnesses *)

Definition run_lazy (shape : list Z) (k1 k2 : list aidx) : res arr :=
  li <- mk_lazy shape k1 [] 0 ;; getitem li (arange shape 0) k2.

(* F30: li[::-1] raises although source[::-1] exists *)
Lemma lazy_negative_step_refuted :
  run_lazy [5] [] [ASlice None None (Some (-1))] = Err
  /\ spec_getitem [5] (arange [5] 0) [] [] 0 [ASlice None None (Some (-1))] <> Err.
Proof. split; [vm_compute; reflexivity|vm_compute; discriminate]. Qed.

(* F31: LazyIndexer(x, keep=-1)[:] raises *)
Lemma lazy_negative_stage1_int_refuted :
  run_lazy [5] [AInt (-1)] [] = Err /\ spec_getitem [5] (arange [5] 0) [AInt (-1)] [] 0 [] <> Err.
Proof. split; [vm_compute; reflexivity|vm_compute; discriminate]. Qed.

(* non-vacuity of getitem_correct: a dense and a sparse two-stage selection answered by the model *)
Lemma lazy_example_supported :
  run_lazy [12; 3] [ASlice (Some 1) None None; AMask [true; false; true]] [AList [0; 2; 3; 7; 9]; AInt (-1)]
  = spec_getitem [12; 3] (arange [12; 3] 0) [ASlice (Some 1) None None; AMask [true; false; true]] [] 0 [AList [0; 2; 3; 7; 9]; AInt (-1)]
  /\ run_lazy [12; 3] [ASlice (Some 1) None None; AMask [true; false; true]] [AList [0; 2; 3; 7; 9]; AInt (-1)] <> Err
  /\ run_lazy [12] [] [AList [0; 9]] = spec_getitem [12] (arange [12] 0) [] [] 0 [AList [0; 9]]
  /\ run_lazy [12] [] [AList [0; 9]] <> Err.
Proof. repeat split; vm_compute; try reflexivity; discriminate. Qed.

(* ------------------------------------------------------------------ shape / dtype of self[:] *)

Lemma init_shape_keep : forall shape ixs1 lks sels1,
  Forall (fun d => 0 <= d) shape -> List.length ixs1 = List.length shape ->
  mapM (fun p => mk_lookup (fst p) (snd p)) (combine shape ixs1) = Ok lks ->
  mapM (fun p => ps <- resolve_keep (fst p) (snd p) ;; Ok (ps, false)) (combine shape ixs1) = Ok sels1 ->
  map (fun p => init_len (fst p) (snd p)) (combine shape lks) = take_shape sels1.
Proof.
  induction shape as [|n shape IH]; intros ixs1 lks sels1 Hs L1 HL HK.
  - destruct ixs1; try discriminate. cbn in *. injection HL as <-. injection HK as <-. reflexivity.
  - destruct ixs1 as [|i1 ixs1]; try discriminate. inversion Hs as [|? ? Hn Hs']; subst.
    cbn [combine mapM fst snd] in HL, HK.
    destruct (mk_lookup n i1) as [lk|] eqn:E1; [|discriminate]. cbn [bind] in HL.
    destruct (mapM (fun p => mk_lookup (fst p) (snd p)) (combine shape ixs1)) as [lks'|] eqn:E2; [|discriminate].
    cbn [bind] in HL. injection HL as <-.
    destruct (resolve_keep n i1) as [p1|] eqn:E3; [|discriminate]. cbn [bind] in HK.
    destruct (mapM (fun p => ps <- resolve_keep (fst p) (snd p) ;; Ok (ps, false)) (combine shape ixs1)) as [sels1'|] eqn:E4;
      [|discriminate]. cbn [bind] in HK. injection HK as <-.
    cbn [combine map take_shape fst snd]. f_equal.
    + symmetry. apply lookup_rel_len; auto. eapply lookup_rel_ok; eauto.
    + eapply IH; eauto; cbn in L1; lia.
Qed.

Lemma mk_lazy_fields shape ds k1 ts dt li a1 : Forall (fun d => 0 <= d) shape ->
  mk_lazy shape k1 ts dt = Ok li -> oindex_keep (mk_nd shape ds) k1 = Ok a1 ->
  initial_shape li = nd_shape a1 /\ li_shape li = shape /\ li_ts li = ts /\ li_dtype0 li = dt
  /\ Forall (fun d => 0 <= d) (nd_shape a1) /\ List.length (nd_shape a1) = List.length shape.
Proof.
  intros Hs HM H1. unfold mk_lazy in HM.
  destruct (mapM _ _) as [lks|] eqn:EL in HM; [|discriminate]. cbn [bind] in HM.
  destruct (lazy_shape _) in HM; [|discriminate]. cbn [bind] in HM. injection HM as <-.
  unfold oindex_keep, keep_sels in H1. cbn [nd_shape nd_body] in H1.
  destruct (mapM _ _) as [sels1|] eqn:EK in H1; [|discriminate]. cbn [bind] in H1. injection H1 as <-.
  cbn [nd_shape li_shape li_ts li_dtype0]. unfold initial_shape. cbn [li_shape li_lookup].
  split; [eapply init_shape_keep; eauto; apply pad_to_length|].
  split; [reflexivity|]. split; [reflexivity|]. split; [reflexivity|].
  assert (K : Forall (fun s => snd s = false) sels1).
  { clear -EK. revert sels1 EK. generalize (combine shape (pad_to (List.length shape) k1)).
    induction l as [|x r IH]; intros sels1 EK; cbn in EK.
    - injection EK as <-. constructor.
    - destruct (resolve_keep (fst x) (snd x)); [|discriminate]. cbn in EK.
      destruct (mapM _ r) eqn:E; [|discriminate]. cbn in EK. injection EK as <-. constructor; auto. }
  rewrite take_shape_keep by assumption. split.
  - apply Forall_forall. intros x Hx. apply in_map_iff in Hx. destruct Hx as [y [<- _]]. apply zlen_nonneg.
  - rewrite map_length. apply mapM_ok_length in EK. rewrite EK. rewrite combine_length, pad_to_length. lia.
Qed.

Lemma pad_to_nil k : pad_to k [] = repeat full k.
Proof. induction k; cbn; [reflexivity|]. now rewrite IHk. Qed.

Lemma resolve_full n : 0 <= n -> resolve n full = Ok (zrange n, false).
Proof. intro H. unfold full, resolve, slice_positions. rewrite slice_indices_full. now rewrite py_range_full. Qed.

Lemma resolve_all_nil dims : Forall (fun d => 0 <= d) dims -> resolve_all dims [] = Ok (full_sels dims).
Proof.
  unfold resolve_all. rewrite pad_to_nil. induction 1 as [|d r Hd _ IH]; [reflexivity|].
  cbn [List.length repeat combine mapM fst snd]. rewrite resolve_full by assumption. cbn [bind]. rewrite IH. reflexivity.
Qed.

Lemma take_shape_full_sels dims : Forall (fun d => 0 <= d) dims -> take_shape (full_sels dims) = dims.
Proof. induction 1 as [|d r Hd _ IH]; [reflexivity|]. unfold full_sels in *. cbn [map take_shape]. rewrite IH. now rewrite zrange_length. Qed.

(* C05_shape_dtype: the shape and dtype properties are those of self[:] *)
Lemma getitem_full_shape_dtype shape ds k1 ts dt li a1 out s : Forall (fun d => 0 <= d) shape ->
  mk_lazy shape k1 ts dt = Ok li -> oindex_keep (mk_nd shape ds) k1 = Ok a1 ->
  lazy_shape li = Ok s -> getitem li ds [] = Ok out ->
  nd_shape (a_nd out) = s /\ a_dtype out = lazy_dtype li.
Proof.
  intros Hs HM H1 HSh HG.
  destruct (mk_lazy_fields _ _ _ _ _ _ _ Hs HM H1) as [F1 [F2 [F3 [F4 [F5 F6]]]]].
  pose proof (getitem_correct _ _ _ _ _ _ _ _ _ Hs HM H1 HG) as SP.
  unfold spec_getitem in SP. rewrite H1 in SP. cbn [bind] in SP.
  unfold oindex in SP. rewrite resolve_all_nil in SP by assumption. cbn [bind] in SP.
  destruct (apply_transforms_shape_dtype _ _ _ SP) as [S D]. cbn [a_nd a_dtype nd_shape] in S, D.
  rewrite take_shape_full_sels in S by assumption.
  unfold lazy_shape in HSh. rewrite F1, F3 in HSh.
  destruct (negb _ && _) in HSh; [|discriminate]. injection HSh as <-.
  split; [exact S|]. unfold lazy_dtype. now rewrite F3, F4.
Qed.
