(* C19: proofs about Model/Concat.v (opening a concatenation). *)
From Coq Require Import ZArith List ListDec Bool Arith Lia Permutation Sorted FinFun.
From KV Require Import Base.Sx Gen.Generated Model.Categorical Proofs.CategoricalP Proofs.CategoricalPartP
  Proofs.CategoricalConcatP Proofs.CategoricalRemoveP Proofs.CategoricalSeqP Model.Concat.
From KV Require Model.SensorCache.
Import ListNotations.
Open Scope nat_scope.

Lemma zeqb_spec : forall a b : Z, Z.eqb a b = true <-> a = b.
Proof. exact Z.eqb_eq. Qed.

(* ------------------------------------------------------------------ 1. chronological sort *)
Definition lt_start (a b : part) : Prop := (p_start a < p_start b)%Z.

Lemma insert_p_spec a : forall l s, StronglySorted lt_start l -> insert_p a l = Some s ->
  Permutation (a :: l) s /\ StronglySorted lt_start s.
Proof.
  induction l as [|b t IH]; intros s HS H; simpl in H.
  - inversion H; subst. split; [apply Permutation_refl|]. constructor; constructor.
  - destruct (p_start a <? p_start b)%Z eqn:E1.
    + inversion H; subst. split; [apply Permutation_refl|].
      apply Z.ltb_lt in E1. constructor; [exact HS|].
      constructor; [exact E1|]. inversion HS as [|? ? _ HF]; subst.
      eapply Forall_impl; [|exact HF]. intros c Hc. unfold lt_start in *. lia.
    + destruct (p_start a =? p_start b)%Z eqn:E2; [discriminate|].
      destruct (insert_p a t) as [s'|] eqn:E3; [|discriminate]. inversion H; subst.
      inversion HS as [|? ? HS' HF]; subst.
      destruct (IH s' HS' eq_refl) as [P S'].
      split.
      * eapply perm_trans; [apply perm_swap|]. apply perm_skip. exact P.
      * constructor; [exact S'|].
        apply Z.ltb_ge in E1. apply Z.eqb_neq in E2.
        eapply Permutation_Forall; [exact P|]. constructor; [unfold lt_start; lia|exact HF].
Qed.

Lemma insert_p_none a : forall l, StronglySorted lt_start l ->
  (insert_p a l = None <-> In (p_start a) (map p_start l)).
Proof.
  induction l as [|b t IH]; intros HS; simpl.
  - split; [discriminate|tauto].
  - inversion HS as [|? ? HS' HF]; subst.
    destruct (p_start a <? p_start b)%Z eqn:E1.
    + apply Z.ltb_lt in E1. split; [discriminate|]. intros [H|H]; [lia|].
      apply in_map_iff in H. destruct H as [c [Hc Hin]]. rewrite Forall_forall in HF.
      specialize (HF c Hin). unfold lt_start in HF. lia.
    + destruct (p_start a =? p_start b)%Z eqn:E2.
      * apply Z.eqb_eq in E2. split; auto.
      * apply Z.eqb_neq in E2. specialize (IH HS'). destruct (insert_p a t); simpl.
        -- split; [discriminate|]. intros [H|H]; [congruence|]. apply IH in H. discriminate.
        -- split; auto. intros _. right. apply IH. reflexivity.
Qed.

Lemma sort_parts_spec : forall l s, sort_parts l = Some s -> Permutation l s /\ StronglySorted lt_start s.
Proof.
  induction l as [|a t IH]; intros s H; simpl in H.
  - inversion H; subst. split; constructor.
  - destruct (sort_parts t) as [s'|] eqn:E; [|discriminate].
    destruct (IH s' eq_refl) as [P S']. destruct (insert_p_spec a s' s S' H) as [P2 S2].
    split; [|exact S2]. eapply perm_trans; [apply perm_skip; exact P|exact P2].
Qed.

Lemma sort_parts_none : forall l, sort_parts l = None <-> ~ NoDup (map p_start l).
Proof.
  induction l as [|a t IH]; simpl.
  - split; [discriminate|]. intro H. exfalso. apply H. constructor.
  - destruct (sort_parts t) as [s'|] eqn:E.
    + destruct (sort_parts_spec t s' E) as [P S'].
      rewrite (insert_p_none a s' S').
      assert (ND : NoDup (map p_start t)).
      { destruct (NoDup_dec Z.eq_dec (map p_start t)) as [N|N]; [exact N|]. apply IH in N. discriminate. }
      split.
      * intros Hin N. inversion N as [|? ? Hn _]; subst. apply Hn.
        eapply Permutation_in; [apply Permutation_sym, Permutation_map; exact P|exact Hin].
      * intros N. destruct (in_dec Z.eq_dec (p_start a) (map p_start s')) as [Hin|Hin]; [exact Hin|].
        exfalso. apply N. constructor; [|exact ND]. intro H. apply Hin.
        eapply Permutation_in; [apply Permutation_map; exact P|exact H].
    + split; [intros _|reflexivity]. intro N. inversion N; subst. destruct IH as [I1 _]. specialize (I1 eq_refl). contradiction.
Qed.

Lemma sorted_perm_eq : forall s1 s2, StronglySorted lt_start s1 -> StronglySorted lt_start s2 ->
  Permutation s1 s2 -> s1 = s2.
Proof.
  induction s1 as [|a r1 IH]; intros s2 S1 S2 P.
  - apply Permutation_nil in P. subst. reflexivity.
  - destruct s2 as [|b r2]; [apply Permutation_sym, Permutation_nil in P; discriminate|].
    inversion S1 as [|? ? S1' F1]; subst. inversion S2 as [|? ? S2' F2]; subst.
    rewrite Forall_forall in F1, F2.
    assert (a = b).
    { assert (Ha : In a (b :: r2)) by (eapply Permutation_in; [exact P|left; reflexivity]).
      assert (Hb : In b (a :: r1)) by (eapply Permutation_in; [apply Permutation_sym; exact P|left; reflexivity]).
      destruct Ha as [Ha|Ha]; [congruence|]. destruct Hb as [Hb|Hb]; [congruence|].
      specialize (F1 b Hb). specialize (F2 a Ha). unfold lt_start in *. lia. }
    subst b. f_equal. apply IH; auto. eapply Permutation_cons_inv; exact P.
Qed.

Lemma sort_parts_perm : forall l l', Permutation l l' -> sort_parts l = sort_parts l'.
Proof.
  intros l l' P. destruct (sort_parts l) as [s|] eqn:E; destruct (sort_parts l') as [s'|] eqn:E'.
  - f_equal. destruct (sort_parts_spec _ _ E) as [P1 S1]. destruct (sort_parts_spec _ _ E') as [P2 S2].
    apply sorted_perm_eq; auto. eapply perm_trans; [apply Permutation_sym; exact P1|]. eapply perm_trans; [exact P|exact P2].
  - exfalso. apply sort_parts_none in E'. apply E'.
    eapply Permutation_NoDup; [apply Permutation_map; exact P|].
    destruct (NoDup_dec Z.eq_dec (map p_start l)) as [N|N]; [exact N|]. apply sort_parts_none in N. congruence.
  - exfalso. apply sort_parts_none in E. apply E.
    eapply Permutation_NoDup; [apply Permutation_map, Permutation_sym; exact P|].
    destruct (NoDup_dec Z.eq_dec (map p_start l')) as [N|N]; [exact N|]. apply sort_parts_none in N. congruence.
  - reflexivity.
Qed.

(* order_independent: any permutation of the input list opens as the same concatenation (or is refused alike) *)
Lemma order_independent : forall l l', Permutation l l' -> concat_open l = concat_open l'.
Proof.
  intros l l' P. unfold concat_open. rewrite (sort_parts_perm l l' P).
  destruct l as [|a t]; destruct l' as [|a' t']; try reflexivity.
  - apply Permutation_nil in P. discriminate.
  - apply Permutation_sym, Permutation_nil in P. discriminate.
Qed.

(* the chronological order is the one of the start times, whatever the input order *)
Lemma sort_parts_sorted : forall l s, sort_parts l = Some s ->
  Permutation l s /\ StronglySorted lt_start s /\ NoDup (map p_start l).
Proof.
  intros l s H. destruct (sort_parts_spec l s H) as [P S]. repeat split; auto.
  destruct (NoDup_dec Z.eq_dec (map p_start l)) as [N|N]; [exact N|]. apply sort_parts_none in N. congruence.
Qed.

Lemma sort_parts_some : forall l, NoDup (map p_start l) -> exists s, sort_parts l = Some s.
Proof.
  intros l N. destruct (sort_parts l) as [s|] eqn:E; [eauto|]. apply sort_parts_none in E. contradiction.
Qed.

(* ------------------------------------------------------------------ 2. dump periods *)
Lemma uio_single : forall l x, unique_in_order Z.eqb l = [x] -> forall y, In y l -> y = x.
Proof.
  intros l x H y Hy. apply (uio_In Z.eqb zeqb_spec) in Hy. rewrite H in Hy. destruct Hy as [Hy|[]]. congruence.
Qed.

Lemma uio_all_eq : forall l x, l <> [] -> (forall y, In y l -> y = x) -> unique_in_order Z.eqb l = [x].
Proof.
  intros l x NE H. pose proof (uio_NoDup Z.eqb zeqb_spec l) as N.
  assert (A : forall y, In y (unique_in_order Z.eqb l) -> y = x) by (intros y Hy; apply H, (uio_In Z.eqb zeqb_spec); exact Hy).
  assert (B : In x (unique_in_order Z.eqb l)).
  { destruct l as [|z t]; [congruence|]. apply (uio_In Z.eqb zeqb_spec). left. apply H. left. reflexivity. }
  destruct (unique_in_order Z.eqb l) as [|u1 [|u2 r]]; [destruct B| |].
  - f_equal. apply A. left. reflexivity.
  - exfalso. inversion N as [|? ? Hn _]; subst. apply Hn. left.
    rewrite (A u1), (A u2); auto; [right; left; reflexivity|left; reflexivity].
Qed.

Lemma dump_period_mismatch_refused : forall input a b, In a input -> In b input -> p_dp a <> p_dp b ->
  (forall m, concat_open input <> COk m) /\
  (NoDup (map p_start input) -> concat_open input = CErr EPeriod).
Proof.
  intros input a b Ha Hb Hne.
  assert (X : forall ps, sort_parts input = Some ps -> forall dp, unique_in_order Z.eqb (map p_dp ps) <> [dp]).
  { intros ps E dp U. destruct (sort_parts_spec _ _ E) as [P _].
    assert (p_dp a = dp) by (apply (uio_single _ _ U), in_map, (Permutation_in _ P Ha)).
    assert (p_dp b = dp) by (apply (uio_single _ _ U), in_map, (Permutation_in _ P Hb)). congruence. }
  split.
  - intros m H. unfold concat_open in H. destruct input as [|i0 it]; [destruct Ha|].
    destruct (sort_parts (i0 :: it)) as [ps|] eqn:E; [|discriminate].
    destruct (unique_in_order Z.eqb (map p_dp ps)) as [|dp [|? ?]] eqn:U; try discriminate.
    exact (X ps eq_refl dp U).
  - intros N. unfold concat_open. destruct input as [|i0 it]; [destruct Ha|].
    destruct (sort_parts_some _ N) as [ps E]. rewrite E.
    destruct (unique_in_order Z.eqb (map p_dp ps)) as [|dp [|? ?]] eqn:U; try reflexivity.
    exfalso. exact (X ps E dp U).
Qed.

Lemma concat_open_dp : forall input m, concat_open input = COk m -> forall p, In p input -> p_dp p = m_dp m.
Proof.
  intros input m H p Hp. unfold concat_open in H. destruct input as [|i0 it]; [destruct Hp|].
  destruct (sort_parts (i0 :: it)) as [ps|] eqn:E; [|discriminate].
  destruct (unique_in_order Z.eqb (map p_dp ps)) as [|dp [|? ?]] eqn:U; try discriminate.
  destruct (zcat (map p_sub ps) false); [|discriminate]. destruct (zcat (map p_spw ps) false); [|discriminate].
  destruct (zcat (map p_tgt ps) false); [|discriminate]. inversion H; subst. simpl.
  destruct (sort_parts_spec _ _ E) as [P _]. apply (uio_single _ _ U), in_map, (Permutation_in _ P Hp).
Qed.

(* ------------------------------------------------------------------ 3. segments *)
Definition bounds (o : nat) (ns : list nat) : list nat := offs_from o ns ++ [o + list_sum ns].

Lemma segs_of_bounds ns : segs_of ns = bounds 0 ns.
Proof. reflexivity. Qed.

Lemma bounds_cons o n r : bounds o (n :: r) = o :: bounds (o + n) r.
Proof. unfold bounds. simpl. f_equal. f_equal. f_equal. lia. Qed.

Lemma bounds_nil o : bounds o [] = [o].
Proof. unfold bounds. simpl. f_equal. lia. Qed.

Lemma bounds_hd o ns : hd 0 (bounds o ns) = o.
Proof. destruct ns; [rewrite bounds_nil|rewrite bounds_cons]; reflexivity. Qed.

Lemma bounds_last : forall ns o, last (bounds o ns) 0 = o + list_sum ns.
Proof. intros ns o. unfold bounds. apply last_last. Qed.

Lemma bounds_chain : forall ns o, Forall (fun n => 0 < n) ns -> chain lt o (tl (bounds o ns)).
Proof.
  induction ns as [|n r IH]; intros o F.
  - rewrite bounds_nil. exact Logic.I.
  - rewrite bounds_cons. simpl. inversion F; subst.
    destruct r as [|n2 r2].
    + rewrite bounds_nil. simpl. split; [lia|exact Logic.I].
    + rewrite bounds_cons. simpl. split; [lia|]. specialize (IH (o + n) H2). rewrite bounds_cons in IH. exact IH.
Qed.

Lemma bounds_incr ns o : Forall (fun n => 0 < n) ns -> incr (bounds o ns).
Proof.
  intro F. pose proof (bounds_chain ns o F) as C. destruct ns as [|n r]; [rewrite bounds_nil; exact Logic.I|].
  rewrite bounds_cons in *. exact C.
Qed.

Lemma bounds_pairs o n r :
  combine (removelast (bounds o (n :: r))) (tl (bounds o (n :: r)))
  = (o, o + n) :: combine (removelast (bounds (o + n) r)) (tl (bounds (o + n) r)).
Proof.
  rewrite bounds_cons. destruct r as [|n2 r2].
  - rewrite bounds_nil. reflexivity.
  - rewrite bounds_cons. reflexivity.
Qed.

Lemma spec_partition_blocks {A} : forall (blocks : list (list A)) pre,
  spec_partition (pre ++ concat blocks) (bounds (length pre) (map (@List.length A) blocks)) = blocks.
Proof.
  unfold spec_partition. induction blocks as [|b bs IH]; intros pre.
  - cbn [map]. rewrite bounds_nil. reflexivity.
  - cbn [map]. rewrite bounds_pairs. cbn [map fst snd concat]. f_equal.
    + rewrite skipn_app, skipn_all, Nat.sub_diag. simpl.
      replace (length pre + length b - length pre) with (length b) by lia.
      rewrite firstn_app, firstn_all, Nat.sub_diag. simpl. apply app_nil_r.
    + specialize (IH (pre ++ b)). rewrite app_length in IH. rewrite <- app_assoc in IH. exact IH.
Qed.

Lemma spec_partition_concat {A} (blocks : list (list A)) :
  spec_partition (concat blocks) (segs_of (map (@List.length A) blocks)) = blocks.
Proof. exact (spec_partition_blocks blocks []). Qed.

Lemma offs_from_length : forall ns o, length (offs_from o ns) = length ns.
Proof. induction ns; intros; simpl; auto. Qed.

(* ------------------------------------------------------------------ 4. well-formed parts *)
Definition cd_ok (n : nat) (c : cdz) : Prop := WF c /\ start0 c /\ idx c <> [] /\ ndumps c = n.
Definition part_ok (p : part) : Prop :=
  cd_ok (nT p) (p_sub p) /\ cd_ok (nT p) (p_spw p) /\ cd_ok (nT p) (p_tgt p) /\ cd_ok (nT p) (p_state p) /\
  cd_ok (nT p) (p_label p) /\ cd_ok (nT p) (p_scan p) /\ cd_ok (nT p) (p_cscan p).

Lemma cd_ok_len n c : cd_ok n c -> length (zexpand c) = n.
Proof.
  intros (W & S & _ & N). unfold zexpand. rewrite (expand_length zd c W). unfold start0 in S. lia.
Qed.

Lemma cd_ok_pos n c : cd_ok n c -> 0 < n.
Proof.
  intros (W & S & I & N). destruct (WF_inv c W) as (s & r & E & C & L & _).
  unfold start0 in S. rewrite E in S. simpl in S. subst s.
  destruct r as [|e r']; [destruct (idx c); [congruence|discriminate]|].
  unfold ndumps in N. rewrite E in N. rewrite <- N.
  pose proof (chain_lt_Forall _ _ C) as F. rewrite Forall_forall in F.
  apply F. change (last (0 :: e :: r') 0) with (last (e :: r') 0).
  destruct (@exists_last _ (e :: r')) as (l' & a & Ea); [discriminate|]. rewrite Ea. rewrite last_last.
  apply in_or_app. right. left. reflexivity.
Qed.

Lemma cd_ok_3 n c : cd_ok n c -> WF c /\ start0 c /\ idx c <> [].
Proof. intros (W & S & I & _). auto. Qed.

Lemma zcat_uv cs ar c : (forall p, In p cs -> WF p) -> zcat cs ar = Some c ->
  uv c = unique_in_order Z.eqb (flat_map (@uv Z) cs).
Proof.
  intros HW H. unfold zcat, concatenate in H. destruct cs as [|p1 [|p2 rest]]; [discriminate| |].
  - inversion H; subst. simpl. rewrite app_nil_r. symmetry. apply (uio_id Z.eqb zeqb_spec).
    destruct (HW c (or_introl eq_refl)) as (_ & _ & _ & N). exact N.
  - destruct (concat_aux Z.eqb zd _ 0 (p1 :: p2 :: rest)) as [[i e] tot]. destruct ar.
    + inversion H; subst. reflexivity.
    + unfold remove_repeats in H. simpl in H. destruct i; [discriminate|]. inversion H; subst. reflexivity.
Qed.

Lemma concat_aux_idx_len u : forall parts off,
  length (fst (fst (concat_aux Z.eqb zd u off parts))) = list_sum (map (fun p : cdz => length (idx p)) parts).
Proof.
  induction parts as [|p t IH]; intros off; [reflexivity|].
  cbn [concat_aux map list_sum]. specialize (IH (off + ndumps p)).
  destruct (concat_aux Z.eqb zd u (off + ndumps p) t) as [[i e] tot]. cbn [fst] in *.
  rewrite app_length, (inverse_of_length Z.eqb). unfold vals. rewrite map_length. cbn [list_sum fold_right]. unfold list_sum in IH. lia.
Qed.

Lemma zcat_some cs ar : cs <> [] -> (forall p, In p cs -> idx p <> []) -> exists c, zcat cs ar = Some c.
Proof.
  intros NE HI. unfold zcat, concatenate. destruct cs as [|p1 [|p2 rest]]; [congruence|eauto|].
  remember (unique_in_order Z.eqb (flat_map (@uv Z) (p1 :: p2 :: rest))) as u.
  pose proof (concat_aux_idx_len u (p1 :: p2 :: rest) 0) as L.
  destruct (concat_aux Z.eqb zd u 0 (p1 :: p2 :: rest)) as [[i e] tot]. cbn [fst] in L.
  destruct ar; [eauto|]. unfold remove_repeats. cbn [idx].
  destruct i as [|i0 i']; [|eauto]. exfalso. cbn [map list_sum length] in L.
  specialize (HI p1 (or_introl eq_refl)). destruct (idx p1); [congruence|simpl in L; lia].
Qed.

Lemma F2_in_r {A B} (R : A -> B -> Prop) l1 l2 b : Forall2 R l1 l2 -> In b l2 -> exists a, In a l1 /\ R a b.
Proof. induction 1; intros Hb; [destruct Hb|]. destruct Hb as [Hb|Hb]; [subst; eexists; split; [left; reflexivity|eauto]|].
  destruct (IHForall2 Hb) as (a & Ha & Hr). exists a. split; [right; exact Ha|exact Hr]. Qed.
Lemma F2_in_l {A B} (R : A -> B -> Prop) l1 l2 a : Forall2 R l1 l2 -> In a l1 -> exists b, In b l2 /\ R a b.
Proof. induction 1; intros Ha; [destruct Ha|]. destruct Ha as [Ha|Ha]; [subst; eexists; split; [left; reflexivity|eauto]|].
  destruct (IHForall2 Ha) as (b & Hb & Hr). exists b. split; [right; exact Hb|exact Hr]. Qed.

(* the concatenation of well-formed pieces (repeats allowed or not) *)
Lemma zcat_facts cs ns ar c : Forall2 cd_ok ns cs -> zcat cs ar = Some c ->
  cd_ok (list_sum ns) c /\ zexpand c = concat (map zexpand cs) /\
  uv c = unique_in_order Z.eqb (flat_map (@uv Z) cs).
Proof.
  intros F H.
  assert (HP : forall p, In p cs -> WF p /\ start0 p /\ idx p <> []).
  { intros p Hp. destruct (F2_in_r _ _ _ p F Hp) as (n & _ & Hn). eapply cd_ok_3; exact Hn. }
  destruct (concatenate_expand Z.eqb zd zeqb_spec cs ar c HP H) as (W & S & N & E).
  assert (SUM : list_sum (map (@ndumps Z) cs) = list_sum ns).
  { clear -F. induction F as [|n c0 ns0 cs0 H0 _ IH]; simpl; [reflexivity|]. destruct H0 as (_ & _ & _ & N0). lia. }
  assert (POS : cs <> [] -> 0 < list_sum ns).
  { intros NE. destruct F as [|n c0 ns0 cs0 H0 _]; [congruence|]. simpl. pose proof (cd_ok_pos _ _ H0). lia. }
  split; [|split].
  - split; [exact W|]. split; [exact S|]. split; [|lia].
    intro I0. destruct W as (_ & L & _). rewrite I0 in L. simpl in L.
    destruct (ev c) as [|e0 [|e1 r]] eqn:Ev; try discriminate.
    unfold start0 in S. rewrite Ev in S. simpl in S. subst e0.
    assert (N0 : ndumps c = 0) by (unfold ndumps; rewrite Ev; reflexivity).
    assert (cs <> []) by (intro; subst; discriminate). specialize (POS H0). lia.
  - exact E.
  - apply (zcat_uv cs ar c); auto. intros p Hp. apply (HP p Hp).
Qed.

(* ------------------------------------------------------------------ 5. index sensors and shifted indices *)
Lemma expand_evs_map {A B} (g : A -> B) (evs : list nat) (vs : list A) :
  map g (expand_evs evs vs) = expand_evs evs (map g vs).
Proof. destruct evs as [|s r]; [reflexivity|]. simpl. apply expand_ev_map. Qed.

Lemma zindex_nth u i : NoDup u -> i < length u -> zindex u (nth i u zd) = Z.of_nat i.
Proof. intros N L. unfold zindex. rewrite (index_of_nth Z.eqb zd zeqb_spec u i N L). reflexivity. Qed.

Lemma index_cd_facts n q : cd_ok n q ->
  cd_ok n (index_cd q) /\
  zexpand (index_cd q) = map (zindex (uv q)) (zexpand q) /\
  zexpand q = map (fun j => nth (Z.to_nat j) (uv q) zd) (zexpand (index_cd q)) /\
  Forall (fun j => (0 <= j < Z.of_nat (length (uv q)))%Z) (zexpand (index_cd q)).
Proof.
  intros (W & S & I & N). pose proof W as (Hi & Hl & Hb & Hn).
  assert (E1 : zexpand (index_cd q) = expand_evs (ev q) (map Z.of_nat (idx q))).
  { unfold zexpand, index_cd. apply (make_expand Z.eqb zd zeqb_spec). }
  assert (E2 : zexpand q = expand_evs (ev q) (map (fun i => nth i (uv q) zd) (idx q))) by reflexivity.
  split; [|split; [|split]].
  - split; [|split; [|split]].
    + unfold index_cd. apply (make_WF Z.eqb zd zeqb_spec); [exact Hi|]. rewrite map_length. exact Hl.
    + exact S.
    + unfold index_cd, make. cbn [idx]. intro X. apply (f_equal (@List.length nat)) in X.
      rewrite (inverse_of_length Z.eqb), map_length in X. destruct (idx q); [congruence|discriminate].
    + exact N.
  - rewrite E1, E2, expand_evs_map, map_map. f_equal. apply map_ext_in. intros i Hin.
    rewrite Forall_forall in Hb. symmetry. apply zindex_nth; auto.
  - rewrite E1, E2, expand_evs_map, map_map. f_equal. apply map_ext. intro i. rewrite Nat2Z.id. reflexivity.
  - rewrite E1. destruct (ev q) as [|s r]; [constructor|]. cbn [expand_evs].
    assert (G : Forall (fun j => (0 <= j < Z.of_nat (length (uv q)))%Z) (map Z.of_nat (idx q))).
    { rewrite Forall_forall in *. intros j Hj. apply in_map_iff in Hj. destruct Hj as (i & <- & Hin). specialize (Hb i Hin). lia. }
    revert G. generalize (map Z.of_nat (idx q)). clear. revert s.
    induction r as [|e r IH]; intros s vs G; [destruct vs; constructor|].
    destruct vs as [|v vs]; [constructor|]. cbn [expand_ev]. inversion G; subst. apply Forall_app. split; [|apply IH; assumption].
    apply Forall_forall. intros x Hx. apply repeat_spec in Hx. subst. assumption.
Qed.

Lemma shift_index_facts n off c : cd_ok n c ->
  cd_ok n (shift_index off c) /\
  zexpand (shift_index off c) = map (fun v => (v + Z.of_nat off)%Z) (zexpand c) /\
  length (uv (shift_index off c)) = length (uv c).
Proof.
  intros (W & S & I & N). pose proof W as (Hi & Hl & Hb & Hn).
  split; [|split].
  - split; [|split; [|split]]; try assumption.
    unfold shift_index, WF. cbn [uv idx ev]. rewrite map_length. repeat split; try assumption.
    apply Injective_map_NoDup; [|exact Hn]. intros x y. lia.
  - unfold zexpand, expand, vals, shift_index. cbn [uv idx ev]. rewrite expand_evs_map, map_map. f_equal.
    apply map_ext_in. intros i Hin. rewrite Forall_forall in Hb. specialize (Hb i Hin).
    rewrite (nth_indep _ zd ((fun v => (v + Z.of_nat off)%Z) zd)) by (rewrite map_length; exact Hb).
    apply (map_nth (fun v => (v + Z.of_nat off)%Z)).
  - unfold shift_index. cbn [uv]. apply map_length.
Qed.

(* ------------------------------------------------------------------ 6. the loop over the parts *)
Ltac rw_ind := let ps := fresh "ps" in
  intros ps; induction ps as [|p ps IH]; intros [|a subs] [|b spws] [|c tgts] so co L1 L2 L3; simpl in *; try discriminate;
  [reflexivity|]; f_equal; apply IH; lia.

Lemma rewrite_ts : forall ps subs spws tgts so co, length subs = length ps -> length spws = length ps -> length tgts = length ps ->
  map p_ts (rewrite ps subs spws tgts so co) = map p_ts ps.
Proof. rw_ind. Qed.
Lemma rewrite_nT : forall ps subs spws tgts so co, length subs = length ps -> length spws = length ps -> length tgts = length ps ->
  map nT (rewrite ps subs spws tgts so co) = map nT ps.
Proof. rw_ind. Qed.
Lemma rewrite_sens : forall ps subs spws tgts so co, length subs = length ps -> length spws = length ps -> length tgts = length ps ->
  map p_sens (rewrite ps subs spws tgts so co) = map p_sens ps.
Proof. rw_ind. Qed.
Lemma rewrite_state : forall ps subs spws tgts so co, length subs = length ps -> length spws = length ps -> length tgts = length ps ->
  map p_state (rewrite ps subs spws tgts so co) = map p_state ps.
Proof. rw_ind. Qed.
Lemma rewrite_label : forall ps subs spws tgts so co, length subs = length ps -> length spws = length ps -> length tgts = length ps ->
  map p_label (rewrite ps subs spws tgts so co) = map p_label ps.
Proof. rw_ind. Qed.
Lemma rewrite_start : forall ps subs spws tgts so co, length subs = length ps -> length spws = length ps -> length tgts = length ps ->
  map p_start (rewrite ps subs spws tgts so co) = map p_start ps.
Proof. rw_ind. Qed.
Lemma rewrite_sub : forall ps subs spws tgts so co, length subs = length ps -> length spws = length ps -> length tgts = length ps ->
  map p_sub (rewrite ps subs spws tgts so co) = subs.
Proof. rw_ind. Qed.
Lemma rewrite_spw : forall ps subs spws tgts so co, length subs = length ps -> length spws = length ps -> length tgts = length ps ->
  map p_spw (rewrite ps subs spws tgts so co) = spws.
Proof. rw_ind. Qed.
Lemma rewrite_tgt : forall ps subs spws tgts so co, length subs = length ps -> length spws = length ps -> length tgts = length ps ->
  map p_tgt (rewrite ps subs spws tgts so co) = tgts.
Proof. rw_ind. Qed.

Definition nuniq (f : part -> cdz) (p : part) : nat := length (uv (f p)).

Lemma rewrite_scan : forall ps subs spws tgts so co, length subs = length ps -> length spws = length ps -> length tgts = length ps ->
  map p_scan (rewrite ps subs spws tgts so co)
  = map (fun po => shift_index (snd po) (p_scan (fst po))) (combine ps (offs_from so (map (nuniq p_scan) ps))).
Proof.
  intros ps; induction ps as [|p ps IH]; intros [|a subs] [|b spws] [|c tgts] so co L1 L2 L3; simpl in *; try discriminate;
  [reflexivity|]. f_equal. apply IH; lia.
Qed.
Lemma rewrite_cscan : forall ps subs spws tgts so co, length subs = length ps -> length spws = length ps -> length tgts = length ps ->
  map p_cscan (rewrite ps subs spws tgts so co)
  = map (fun po => shift_index (snd po) (p_cscan (fst po))) (combine ps (offs_from co (map (nuniq p_cscan) ps))).
Proof.
  intros ps; induction ps as [|p ps IH]; intros [|a subs] [|b spws] [|c tgts] so co L1 L2 L3; simpl in *; try discriminate;
  [reflexivity|]. f_equal. apply IH; lia.
Qed.

(* ------------------------------------------------------------------ 7. a sensor merged by value and cut back *)
Lemma map_F2 {B C} (g : B -> C) (P : B -> Prop) : forall (l : list B) (Bs : list C),
  map g l = Bs -> (forall q, In q l -> P q) -> Forall2 (fun b q => g q = b /\ P q) Bs l.
Proof.
  induction l as [|q l IH]; intros Bs E H; simpl in E; subst; constructor.
  - split; [reflexivity|]. apply H. left. reflexivity.
  - apply IH; [reflexivity|]. intros q' Hq. apply H. right. exact Hq.
Qed.

Lemma F2_map_l {A B C} (g : A -> C) (R : C -> B -> Prop) : forall l1 l2,
  Forall2 R (map g l1) l2 <-> Forall2 (fun a b => R (g a) b) l1 l2.
Proof.
  induction l1 as [|a l1 IH]; intros l2; simpl.
  - split; intro H; inversion H; constructor.
  - split; intro H; inversion H; subst; constructor; auto; apply IH; auto.
Qed.
Lemma F2_map_r {A B C} (g : B -> C) (R : A -> C -> Prop) : forall l1 l2,
  Forall2 R l1 (map g l2) <-> Forall2 (fun a b => R a (g b)) l1 l2.
Proof.
  induction l1 as [|a l1 IH]; intros [|b l2]; simpl; split; intro H; inversion H; subst; constructor; auto; apply IH; auto.
Qed.
Lemma F2_impl {A B} (P Q : A -> B -> Prop) l1 l2 : (forall a b, P a b -> Q a b) -> Forall2 P l1 l2 -> Forall2 Q l1 l2.
Proof. intros H F. induction F; constructor; auto. Qed.
Lemma F2_len {A B} (P : A -> B -> Prop) l1 l2 : Forall2 P l1 l2 -> length l1 = length l2.
Proof. induction 1; simpl; auto. Qed.
Lemma F2_of_Forall {A} (P : A -> A -> Prop) (l : list A) : Forall (fun a => P a a) l -> Forall2 P l l.
Proof. induction 1; constructor; auto. Qed.

Lemma F2_Forall_l {A B} (P : A -> Prop) (R : A -> B -> Prop) l1 l2 :
  Forall P l1 -> Forall2 R l1 l2 -> Forall2 (fun a b => P a /\ R a b) l1 l2.
Proof. intros F H. induction H; inversion F; subst; constructor; auto. Qed.

Lemma F2_concat_map {A B C} (g : A -> list C) (h : B -> list C) l1 l2 :
  Forall2 (fun a b => h b = g a) l1 l2 -> concat (map h l2) = concat (map g l1).
Proof. induction 1; simpl; [reflexivity|]. rewrite H, IHForall2. reflexivity. Qed.

Lemma ok_sum_pos ns (cs : list cdz) : Forall2 cd_ok ns cs -> Forall (fun n => 0 < n) ns.
Proof. induction 1; constructor; auto. eapply cd_ok_pos; eauto. Qed.

Lemma merged_value_sensor (f : part -> cdz) ps c0 :
  Forall (fun p => cd_ok (nT p) (f p)) ps -> ps <> [] -> zcat (map f ps) false = Some c0 ->
  let qs := partition c0 (segs_of (map nT ps)) in
  let N := list_sum (map nT ps) in
  cd_ok N c0 /\ zexpand c0 = spec_plain f ps /\
  uv c0 = spec_uniq f ps /\
  Forall2 (fun p q => cd_ok (nT p) q /\ zexpand q = zexpand (f p) /\ uv q = uv c0) ps qs /\
  (exists c, zcat qs false = Some c /\ cd_ok N c /\ zexpand c = spec_plain f ps) /\
  (exists c, zcat (map index_cd qs) false = Some c /\ cd_ok N c /\ zexpand c = spec_index f ps).
Proof.
  intros Hok NE H0 qs N.
  assert (F0 : Forall2 cd_ok (map nT ps) (map f ps)).
  { apply F2_map_l, F2_map_r. apply F2_of_Forall. exact Hok. }
  destruct (zcat_facts _ _ _ _ F0 H0) as (OK0 & E0 & U0).
  assert (U0' : uv c0 = spec_uniq f ps).
  { rewrite U0. unfold spec_uniq. f_equal. clear. induction ps; simpl; [reflexivity|]. rewrite IHps. reflexivity. }
  assert (E0' : zexpand c0 = spec_plain f ps) by (rewrite E0, map_map; reflexivity).
  pose proof (ok_sum_pos _ _ F0) as POS.
  destruct OK0 as (W0 & S0 & I0 & N0).
  set (Bs := map (fun p => zexpand (f p)) ps).
  assert (LB : map (@List.length Z) Bs = map nT ps).
  { unfold Bs. rewrite map_map. apply map_ext_in. intros p Hp. rewrite Forall_forall in Hok. apply cd_ok_len, Hok, Hp. }
  assert (CB : concat Bs = zexpand c0) by (rewrite E0'; reflexivity).
  assert (I1 : incr (segs_of (map nT ps))) by (rewrite segs_of_bounds; apply bounds_incr; exact POS).
  assert (L1 : last (segs_of (map nT ps)) 0 = ndumps c0).
  { rewrite segs_of_bounds, bounds_last. fold N. lia. }
  destruct (partition_spec zd c0 (segs_of (map nT ps)) W0 S0 I1) as (PS & PP & _); [lia|].
  fold qs in PS, PP. unfold zexpand in CB. rewrite <- CB, <- LB, spec_partition_concat in PS.
  assert (FQ : Forall2 (fun p q => cd_ok (nT p) q /\ zexpand q = zexpand (f p) /\ uv q = uv c0) ps qs).
  { pose proof (map_F2 (expand zd) (fun q => WF q /\ start0 q /\ idx q <> [] /\ uv q = uv c0) qs Bs PS PP) as F.
    unfold Bs in F. apply F2_map_l in F. apply (F2_Forall_l _ _ _ _ Hok) in F. eapply F2_impl; [|exact F]. cbn beta.
    intros p q (OKp & E & W & S & I & U). split; [|split; [exact E|exact U]].
    split; [exact W|]. split; [exact S|]. split; [exact I|].
    pose proof (expand_length zd q W) as L. rewrite E in L. unfold start0 in S. rewrite S in L.
    pose proof (cd_ok_len _ _ OKp). unfold zexpand in *. lia. }
  assert (Fq : Forall2 cd_ok (map nT ps) qs).
  { apply F2_map_l. eapply F2_impl; [|exact FQ]. cbn beta. tauto. }
  assert (NEq : qs <> []).
  { intro X. rewrite X in FQ. inversion FQ. subst. congruence. }
  split; [exact (conj W0 (conj S0 (conj I0 N0)))|]. split; [exact E0'|]. split; [exact U0'|]. split; [exact FQ|]. split.
  - destruct (zcat_some qs false NEq) as (c & Hc).
    { intros q Hq. destruct (F2_in_r _ _ _ q Fq Hq) as (n & _ & Hn). apply Hn. }
    exists c. split; [exact Hc|]. destruct (zcat_facts _ _ _ _ Fq Hc) as (OKc & Ec & _).
    split; [exact OKc|]. rewrite Ec. unfold spec_plain. apply F2_concat_map.
    eapply F2_impl; [|exact FQ]. cbn beta. tauto.
  - assert (Fi : Forall2 cd_ok (map nT ps) (map index_cd qs)).
    { apply F2_map_r. eapply F2_impl; [|exact Fq]. cbn beta. intros n q Hq. apply (index_cd_facts n q Hq). }
    destruct (zcat_some (map index_cd qs) false) as (c & Hc).
    { intro X. apply map_eq_nil in X. exact (NEq X). }
    { intros q Hq. destruct (F2_in_r _ _ _ q Fi Hq) as (n & _ & Hn). apply Hn. }
    exists c. split; [exact Hc|]. destruct (zcat_facts _ _ _ _ Fi Hc) as (OKc & Ec & _).
    split; [exact OKc|]. rewrite Ec, map_map. unfold spec_index, spec_plain. rewrite concat_map, map_map.
    apply F2_concat_map. eapply F2_impl; [|exact FQ]. cbn beta.
    intros p q (OKq & Eq & Uq). destruct (index_cd_facts _ _ OKq) as (_ & X & _). rewrite X, Eq, Uq, U0'. reflexivity.
Qed.

(* ------------------------------------------------------------------ 8. running indices, plain sensors *)
Definition running_pieces (f : part -> cdz) (ps : list part) (so : nat) : list cdz :=
  map (fun po => shift_index (snd po) (f (fst po))) (combine ps (offs_from so (map (nuniq f) ps))).
Definition running_lists (f : part -> cdz) (ps : list part) (so : nat) : list (list Z) :=
  map (fun po => map (fun v => (v + Z.of_nat (snd po))%Z) (zexpand (f (fst po)))) (combine ps (offs_from so (map (nuniq f) ps))).

Lemma running_pieces_ok f : forall ps so, Forall (fun p => cd_ok (nT p) (f p)) ps ->
  Forall2 cd_ok (map nT ps) (running_pieces f ps so) /\
  map zexpand (running_pieces f ps so) = running_lists f ps so.
Proof.
  unfold running_pieces, running_lists. induction ps as [|p ps IH]; intros so F; simpl; [split; constructor|].
  inversion F; subst. destruct (IH (so + nuniq f p) H2) as (A & B).
  destruct (shift_index_facts _ so _ H1) as (X & Y & _).
  split; [constructor; assumption|]. rewrite Y, B. reflexivity.
Qed.

Lemma running_sensor f ps so : Forall (fun p => cd_ok (nT p) (f p)) ps -> ps <> [] ->
  exists c, zcat (running_pieces f ps so) false = Some c /\ cd_ok (list_sum (map nT ps)) c /\
            zexpand c = concat (running_lists f ps so).
Proof.
  intros F NE. destruct (running_pieces_ok f ps so F) as (A & B).
  destruct (zcat_some (running_pieces f ps so) false) as (c & Hc).
  { intro X. rewrite X in A. inversion A as [E|]. symmetry in E. apply map_eq_nil in E. congruence. }
  { intros q Hq. destruct (F2_in_r _ _ _ q A Hq) as (n & _ & Hn). apply Hn. }
  exists c. split; [exact Hc|]. destruct (zcat_facts _ _ _ _ A Hc) as (OKc & Ec & _).
  split; [exact OKc|]. rewrite Ec, B. reflexivity.
Qed.

Lemma spec_running_lists f ps : spec_running f ps = concat (running_lists f ps 0).
Proof. reflexivity. Qed.

Lemma plain_sensor f ps ar : Forall (fun p => cd_ok (nT p) (f p)) ps -> ps <> [] ->
  exists c, zcat (map f ps) ar = Some c /\ cd_ok (list_sum (map nT ps)) c /\ zexpand c = spec_plain f ps.
Proof.
  intros F NE.
  assert (F0 : Forall2 cd_ok (map nT ps) (map f ps)) by (apply F2_map_l, F2_map_r, F2_of_Forall; exact F).
  destruct (zcat_some (map f ps) ar) as (c & Hc).
  { intro X. apply map_eq_nil in X. congruence. }
  { intros q Hq. destruct (F2_in_r _ _ _ q F0 Hq) as (n & _ & Hn). apply Hn. }
  exists c. split; [exact Hc|]. destruct (zcat_facts _ _ _ _ F0 Hc) as (OKc & Ec & _).
  split; [exact OKc|]. rewrite Ec, map_map. reflexivity.
Qed.

Lemma band_map (g : Z -> bool) : forall X Y,
  band (map g X) (map g Y) = map (fun ab => andb (g (fst ab)) (g (snd ab))) (combine X Y).
Proof.
  unfold band. induction X as [|x X IH]; intros [|y Y]; simpl; try reflexivity. f_equal. apply IH.
Qed.

(* ------------------------------------------------------------------ 9. the opened concatenation *)
Record opened (ps : list part) (m : merged) : Prop := {
  op_len : length (m_parts m) = length ps;
  op_nT : map nT (m_parts m) = map nT ps;
  op_starts : map p_start (m_parts m) = map p_start ps;
  op_sens : map p_sens (m_parts m) = map p_sens ps;
  op_segs : m_segs m = segs_of (map nT ps);
  op_ts : m_ts m = spec_ts ps;
  op_subs : m_subs m = spec_uniq p_sub ps;
  op_spws : m_spws m = spec_uniq p_spw ps;
  op_cat : m_cat m = spec_uniq p_tgt ps;
  op_sub : exists c, m_sub m = Some c /\ cd_ok (list_sum (map nT ps)) c /\ zexpand c = spec_plain p_sub ps;
  op_spw : exists c, m_spw m = Some c /\ cd_ok (list_sum (map nT ps)) c /\ zexpand c = spec_plain p_spw ps;
  op_tgt : exists c, m_tgt m = Some c /\ cd_ok (list_sum (map nT ps)) c /\ zexpand c = spec_plain p_tgt ps;
  op_subi : exists c, m_sub_index m = Some c /\ cd_ok (list_sum (map nT ps)) c /\ zexpand c = spec_index p_sub ps;
  op_spwi : exists c, m_spw_index m = Some c /\ cd_ok (list_sum (map nT ps)) c /\ zexpand c = spec_index p_spw ps;
  op_tgti : exists c, m_tgt_index m = Some c /\ cd_ok (list_sum (map nT ps)) c /\ zexpand c = spec_index p_tgt ps;
  op_state : exists c, m_state m = Some c /\ cd_ok (list_sum (map nT ps)) c /\ zexpand c = spec_plain p_state ps;
  op_label : exists c, m_label m = Some c /\ cd_ok (list_sum (map nT ps)) c /\ zexpand c = spec_plain p_label ps;
  op_scan : exists c, m_scan m = Some c /\ cd_ok (list_sum (map nT ps)) c /\ zexpand c = spec_running p_scan ps;
  op_cscan : exists c, m_cscan m = Some c /\ cd_ok (list_sum (map nT ps)) c /\ zexpand c = spec_running p_cscan ps;
  op_keep0 : m_keep0 m = Some (spec_keep0 ps);
  op_parts_tgt : Forall2 (fun p q => cd_ok (nT p) (p_tgt q) /\ zexpand (p_tgt q) = zexpand (p_tgt p) /\ uv (p_tgt q) = m_cat m)
                         ps (m_parts m);
  op_parts_sub : Forall2 (fun p q => cd_ok (nT p) (p_sub q) /\ zexpand (p_sub q) = zexpand (p_sub p) /\ uv (p_sub q) = m_subs m)
                         ps (m_parts m);
  op_parts_spw : Forall2 (fun p q => cd_ok (nT p) (p_spw q) /\ zexpand (p_spw q) = zexpand (p_spw p) /\ uv (p_spw q) = m_spws m)
                         ps (m_parts m)
}.

Lemma part_ok_f ps : Forall part_ok ps ->
  Forall (fun p => cd_ok (nT p) (p_sub p)) ps /\ Forall (fun p => cd_ok (nT p) (p_spw p)) ps /\
  Forall (fun p => cd_ok (nT p) (p_tgt p)) ps /\ Forall (fun p => cd_ok (nT p) (p_state p)) ps /\
  Forall (fun p => cd_ok (nT p) (p_label p)) ps /\ Forall (fun p => cd_ok (nT p) (p_scan p)) ps /\
  Forall (fun p => cd_ok (nT p) (p_cscan p)) ps.
Proof.
  intro F. repeat split; (eapply Forall_impl; [|exact F]); intros p H; unfold part_ok in H; tauto.
Qed.

Lemma F2_map_l_in {A B C} (g : A -> C) (R : A -> B -> Prop) (l : list A) (qs : list B) (l' : list C) :
  map g l = l' -> Forall2 R l qs -> length l' = length qs.
Proof. intros <- F. rewrite map_length. eapply F2_len; eauto. Qed.

Lemma F2_rewrite_field {B} (g : part -> B) (R : part -> B -> Prop) ps ps' :
  Forall2 R ps (map g ps') -> Forall2 (fun p q => R p (g q)) ps ps'.
Proof. intro F. apply (proj1 (F2_map_r g R ps ps')) in F. exact F. Qed.

Theorem concat_open_facts : forall input ps m,
  sort_parts input = Some ps -> Forall part_ok ps -> concat_open input = COk m -> opened ps m.
Proof.
  intros input ps m E OK H. unfold concat_open in H. destruct input as [|i0 it]; [discriminate|]. rewrite E in H.
  assert (NE : ps <> []).
  { destruct (sort_parts_spec _ _ E) as [P _]. intro X. subst. apply Permutation_sym, Permutation_nil in P. discriminate. }
  destruct (unique_in_order Z.eqb (map p_dp ps)) as [|dp [|? ?]]; try discriminate.
  destruct (zcat (map p_sub ps) false) as [sub|] eqn:Esub; [|discriminate].
  destruct (zcat (map p_spw ps) false) as [spw|] eqn:Espw; [|discriminate].
  destruct (zcat (map p_tgt ps) false) as [tgt|] eqn:Etgt; [|discriminate].
  inversion H; subst m; clear H.
  destruct (part_ok_f ps OK) as (Fsub & Fspw & Ftgt & Fstate & Flabel & Fscan & Fcscan).
  destruct (merged_value_sensor p_sub ps sub Fsub NE Esub) as (_ & _ & Usub & FQsub & Csub & Isub).
  destruct (merged_value_sensor p_spw ps spw Fspw NE Espw) as (_ & _ & Uspw & FQspw & Cspw & Ispw).
  destruct (merged_value_sensor p_tgt ps tgt Ftgt NE Etgt) as (_ & _ & Utgt & FQtgt & Ctgt & Itgt).
  set (segs := segs_of (map nT ps)) in *.
  assert (L1 : length (partition sub segs) = length ps) by (symmetry; eapply F2_len; exact FQsub).
  assert (L2 : length (partition spw segs) = length ps) by (symmetry; eapply F2_len; exact FQspw).
  assert (L3 : length (partition tgt segs) = length ps) by (symmetry; eapply F2_len; exact FQtgt).
  set (ps' := rewrite ps (partition sub segs) (partition spw segs) (partition tgt segs) 0 0).
  pose proof (rewrite_sub ps _ _ _ 0 0 L1 L2 L3) as Rsub. pose proof (rewrite_spw ps _ _ _ 0 0 L1 L2 L3) as Rspw.
  pose proof (rewrite_tgt ps _ _ _ 0 0 L1 L2 L3) as Rtgt. fold ps' in Rsub, Rspw, Rtgt.
  assert (Lp : length ps' = length ps).
  { rewrite <- (map_length p_sub ps'), Rsub. exact L1. }
  unfold m_sub, m_spw, m_tgt, m_sub_index, m_spw_index, m_tgt_index, m_state, m_label, m_scan, m_cscan, m_keep0, m_get, m_ts.
  cbn [m_parts m_segs m_subs m_spws m_cat]. fold ps'.
  assert (Xsubi : map (fun p => index_cd (p_sub p)) ps' = map index_cd (partition sub segs)) by (rewrite <- Rsub, map_map; reflexivity).
  assert (Xspwi : map (fun p => index_cd (p_spw p)) ps' = map index_cd (partition spw segs)) by (rewrite <- Rspw, map_map; reflexivity).
  assert (Xtgti : map (fun p => index_cd (p_tgt p)) ps' = map index_cd (partition tgt segs)) by (rewrite <- Rtgt, map_map; reflexivity).
  constructor; cbn [m_parts m_segs m_subs m_spws m_cat]; fold ps'.
  - exact Lp.
  - apply rewrite_nT; assumption.
  - apply rewrite_start; assumption.
  - apply rewrite_sens; assumption.
  - reflexivity.
  - unfold m_ts, spec_ts. cbn [m_parts]. fold ps'. unfold ps'. rewrite rewrite_ts by assumption. reflexivity.
  - exact Usub.
  - exact Uspw.
  - exact Utgt.
  - unfold m_sub, m_get. cbn [m_parts]. fold ps'. rewrite Rsub. exact Csub.
  - unfold m_spw, m_get. cbn [m_parts]. fold ps'. rewrite Rspw. exact Cspw.
  - unfold m_tgt, m_get. cbn [m_parts]. fold ps'. rewrite Rtgt. exact Ctgt.
  - unfold m_sub_index, m_get. cbn [m_parts]. fold ps'. rewrite Xsubi. exact Isub.
  - unfold m_spw_index, m_get. cbn [m_parts]. fold ps'. rewrite Xspwi. exact Ispw.
  - unfold m_tgt_index, m_get. cbn [m_parts]. fold ps'. rewrite Xtgti. exact Itgt.
  - unfold m_state, m_get. cbn [m_parts]. fold ps'. unfold ps'. rewrite rewrite_state by assumption. apply plain_sensor; assumption.
  - unfold m_label, m_get. cbn [m_parts]. fold ps'. unfold ps'. rewrite rewrite_label by assumption. apply plain_sensor; assumption.
  - unfold m_scan, m_get. cbn [m_parts]. fold ps'. unfold ps'. rewrite rewrite_scan by assumption.
    rewrite spec_running_lists. apply (running_sensor p_scan ps 0); assumption.
  - unfold m_cscan, m_get. cbn [m_parts]. fold ps'. unfold ps'. rewrite rewrite_cscan by assumption.
    rewrite spec_running_lists. apply (running_sensor p_cscan ps 0); assumption.
  - unfold m_keep0, m_spw_index, m_sub_index, m_get. cbn [m_parts]. fold ps'. rewrite Xsubi, Xspwi.
    destruct Isub as (cs & Hcs & (Wcs & _) & Ecs). destruct Ispw as (cw & Hcw & (Wcw & _) & Ecw).
    rewrite Hcs, Hcw. f_equal.
    rewrite (cmp_expand zd cw _ Wcw), (cmp_expand zd cs _ Wcs). unfold spec_cmp.
    fold (zexpand cw). fold (zexpand cs). rewrite Ecs, Ecw. unfold spec_keep0. apply band_map.
  - apply (F2_rewrite_field p_tgt (fun p q => cd_ok (nT p) q /\ zexpand q = zexpand (p_tgt p) /\ uv q = uv tgt)). rewrite Rtgt. exact FQtgt.
  - apply (F2_rewrite_field p_sub (fun p q => cd_ok (nT p) q /\ zexpand q = zexpand (p_sub p) /\ uv q = uv sub)). rewrite Rsub. exact FQsub.
  - apply (F2_rewrite_field p_spw (fun p q => cd_ok (nT p) q /\ zexpand q = zexpand (p_spw p) /\ uv q = uv spw)). rewrite Rspw. exact FQspw.
Qed.

(* compatible parts are always opened *)
Theorem concat_open_succeeds : forall input ps dp,
  sort_parts input = Some ps -> input <> [] -> Forall part_ok ps -> (forall p, In p input -> p_dp p = dp) ->
  exists m, concat_open input = COk m.
Proof.
  intros input ps dp E NE OK Hdp. unfold concat_open. destruct input as [|i0 it]; [congruence|]. rewrite E.
  destruct (sort_parts_spec _ _ E) as [P _].
  assert (NEp : ps <> []) by (intro X; subst; apply Permutation_sym, Permutation_nil in P; discriminate).
  rewrite (uio_all_eq (map p_dp ps) dp).
  - destruct (part_ok_f ps OK) as (Fsub & Fspw & Ftgt & _).
    destruct (plain_sensor p_sub ps false Fsub NEp) as (c1 & -> & _).
    destruct (plain_sensor p_spw ps false Fspw NEp) as (c2 & -> & _).
    destruct (plain_sensor p_tgt ps false Ftgt NEp) as (c3 & -> & _). eauto.
  - intro X. apply map_eq_nil in X. congruence.
  - intros y Hy. apply in_map_iff in Hy. destruct Hy as (p & <- & Hp). apply Hdp.
    eapply Permutation_in; [apply Permutation_sym; exact P|exact Hp].
Qed.

(* ------------------------------------------------------------------ 10. indices continue: no collisions, time order *)
Definition before (b1 b2 : list Z) : Prop := forall v w, In v b1 -> In w b2 -> (v < w)%Z.
Definition in_own_range (f : part -> cdz) (p : part) : Prop :=
  Forall (fun v => (0 <= v < Z.of_nat (nuniq f p))%Z) (zexpand (f p)).

Lemma running_sorted f : forall ps so, Forall (in_own_range f) ps ->
  Forall (Forall (fun v => (Z.of_nat so <= v < Z.of_nat (so + list_sum (map (nuniq f) ps)))%Z)) (running_lists f ps so) /\
  StronglySorted before (running_lists f ps so).
Proof.
  unfold running_lists. induction ps as [|p ps IH]; intros so F; simpl; [split; constructor|].
  inversion F as [|? ? R F']; subst. destruct (IH (so + nuniq f p) F') as (A & B).
  assert (H0 : Forall (fun v => (Z.of_nat so <= v < Z.of_nat (so + nuniq f p))%Z)
                      (map (fun v => (v + Z.of_nat so)%Z) (zexpand (f p)))).
  { unfold in_own_range in R. rewrite Forall_forall in *. intros v Hv. apply in_map_iff in Hv.
    destruct Hv as (x & <- & Hx). specialize (R x Hx). lia. }
  split.
  - constructor.
    + eapply Forall_impl; [|exact H0]. cbn beta. intros; lia.
    + eapply Forall_impl; [|exact A]. intros blk Hb. eapply Forall_impl; [|exact Hb]. cbn beta. intros; lia.
  - constructor; [exact B|]. rewrite Forall_forall in *. intros blk Hblk v w Hv Hw.
    specialize (A blk Hblk). rewrite Forall_forall in A. specialize (A w Hw). specialize (H0 v Hv). lia.
Qed.

Lemma indices_continue f ps : Forall (in_own_range f) ps ->
  spec_running f ps = concat (running_lists f ps 0) /\
  length (running_lists f ps 0) = length ps /\
  (forall i p, nth_error ps i = Some p ->
     nth_error (running_lists f ps 0) i
     = Some (map (fun v => (v + Z.of_nat (list_sum (firstn i (map (nuniq f) ps))))%Z) (zexpand (f p)))) /\
  StronglySorted before (running_lists f ps 0).
Proof.
  intro F. split; [reflexivity|]. split; [|split; [|apply running_sorted; exact F]].
  - unfold running_lists. rewrite map_length, combine_length, offs_from_length, map_length. lia.
  - assert (G : forall ps so i p, nth_error ps i = Some p ->
      nth_error (running_lists f ps so) i
      = Some (map (fun v => (v + Z.of_nat (so + list_sum (firstn i (map (nuniq f) ps))))%Z) (zexpand (f p)))).
    { clear. unfold running_lists. induction ps as [|q ps IH]; intros so [|i] p H; simpl in *; try discriminate.
      - inversion H; subst. f_equal. apply map_ext. intro v. lia.
      - rewrite (IH (so + nuniq f q) i p H). f_equal. apply map_ext. intro v. unfold list_sum. cbn [fold_right]. lia. }
    intros i p H. exact (G ps 0 i p H).
Qed.

(* ------------------------------------------------------------------ 11. any other sensor: concatenation with dummy fill *)
Lemma dummy_cd_facts d n : 0 < n ->
  cd_ok n (make Z.eqb [d] [0; n]) /\ zexpand (make Z.eqb [d] [0; n]) = repeat d n.
Proof.
  intro P. split.
  - split; [|split; [|split]].
    + apply (make_WF Z.eqb zd zeqb_spec); [simpl; auto|reflexivity].
    + reflexivity.
    + discriminate.
    + reflexivity.
  - unfold zexpand. rewrite (make_expand Z.eqb zd zeqb_spec). simpl. rewrite Nat.sub_0_r. apply app_nil_r.
Qed.

Lemma get_sensor_w_ext dc sd ps ps' name ar : map p_sens ps = map p_sens ps' -> map nT ps = map nT ps' ->
  get_sensor_w dc ps name ar = get_sensor_w dc ps' name ar /\ spec_sensor_w sd ps name = spec_sensor_w sd ps' name.
Proof.
  intros A B. unfold get_sensor_w, spec_sensor_w.
  assert (X : map (fun p => find_sens name (p_sens p)) ps = map (fun p => find_sens name (p_sens p)) ps').
  { rewrite <- (map_map p_sens (find_sens name)), A, map_map. reflexivity. }
  rewrite X, B. split; reflexivity.
Qed.
Lemma get_sensor_ext ps ps' name ar : map p_sens ps = map p_sens ps' -> map nT ps = map nT ps' ->
  get_sensor ps name ar = get_sensor ps' name ar /\ spec_sensor ps name = spec_sensor ps' name.
Proof. exact (get_sensor_w_ext dummy_code dummy_code ps ps' name ar). Qed.

Definition sens_ok (name : Z) (p : part) : Prop :=
  0 < nT p /\ forall dt c, find_sens name (p_sens p) = Some (SCat dt c) -> cd_ok (nT p) c.

Lemma existsb_false_in {A} (g : A -> bool) l x : existsb g l = false -> In x l -> g x = false.
Proof.
  intros H Hx. destruct (g x) eqn:E; [|reflexivity]. exfalso.
  assert (existsb g l = true) by (apply existsb_exists; eauto). congruence.
Qed.

Lemma in_combine_map {A B C} (g : A -> B) (h : A -> C) l x y : In (x, y) (combine (map g l) (map h l)) ->
  exists a, In a l /\ x = g a /\ y = h a.
Proof.
  induction l as [|a l IH]; simpl; [tauto|]. intros [H|H].
  - inversion H; subst. exists a. auto.
  - destruct (IH H) as (a' & Ha & E1 & E2). exists a'. auto.
Qed.

(* for ANY filler table [dc]: the model with filler dc = the spec with dummy dc *)
Theorem sensor_expand_w : forall dc ps name ar, Forall (sens_ok name) ps ->
  match get_sensor_w dc ps name ar with
  | RNum l => spec_sensor_w dc ps name = Some l
  | RCat c => spec_sensor_w dc ps name = Some (zexpand c) /\ cd_ok (list_sum (map nT ps)) c
  | RKeyError => spec_sensor_w dc ps name = None
  | RFail => True
  end.
Proof.
  intros dc ps name ar OK. unfold get_sensor_w, spec_sensor_w.
  set (xs := map (fun p => find_sens name (p_sens p)) ps).
  destruct (forallb is_absent xs) eqn:A; [reflexivity|].
  destruct (existsb is_cat xs) eqn:C.
  - destruct (existsb is_num xs) eqn:Nm; [exact Logic.I|].
    destruct (cat_dtype xs) as [dt|]; [|exact Logic.I].
    set (pieces := map (fun nx => cat_piece (dc dt) (fst nx) (snd nx)) (combine (map nT ps) xs)).
    destruct (zcat pieces ar) as [c|] eqn:Z; [|exact Logic.I].
    assert (F : Forall2 cd_ok (map nT ps) pieces).
    { unfold pieces, xs. clear -OK. induction OK as [|p ps (P & H) _ IH]; simpl; constructor; [|exact IH].
      unfold cat_piece. destruct (find_sens name (p_sens p)) as [[fl l|dt' c0]|] eqn:E.
      - apply dummy_cd_facts; exact P.
      - exact (H dt' c0 eq_refl).
      - apply dummy_cd_facts; exact P. }
    destruct (zcat_facts _ _ _ _ F Z) as (OKc & Ec & _). split; [|exact OKc].
    f_equal. rewrite Ec. unfold pieces. rewrite map_map. f_equal. apply map_ext_in.
    intros (n, o) Hin. cbn [fst snd].
    destruct (in_combine_map nT (fun p => find_sens name (p_sens p)) ps n o Hin) as (p & Hp & -> & ->).
    rewrite Forall_forall in OK. destruct (OK p Hp) as (P & _).
    assert (Hx : In (find_sens name (p_sens p)) xs) by (unfold xs; apply in_map_iff; eauto).
    pose proof (existsb_false_in _ _ _ Nm Hx) as NN.
    destruct (find_sens name (p_sens p)) as [[fl l|dt' c0]|]; cbn [cat_piece]; try reflexivity; try discriminate.
    symmetry. apply dummy_cd_facts. exact P.
  - f_equal. f_equal. apply map_ext_in. intros (n, o) Hin. cbn [fst snd].
    destruct (in_combine_map nT (fun p => find_sens name (p_sens p)) ps n o Hin) as (p & Hp & -> & ->).
    assert (Hx : In (find_sens name (p_sens p)) xs) by (unfold xs; apply in_map_iff; eauto).
    pose proof (existsb_false_in _ _ _ C Hx) as NC.
    destruct (find_sens name (p_sens p)) as [[fl l|dt' c0]|]; cbn [num_piece]; try reflexivity; discriminate.
Qed.

Theorem sensor_expand : forall ps name ar, Forall (sens_ok name) ps ->
  match get_sensor ps name ar with
  | RNum l => spec_sensor ps name = Some l
  | RCat c => spec_sensor ps name = Some (zexpand c) /\ cd_ok (list_sum (map nT ps)) c
  | RKeyError => spec_sensor ps name = None
  | RFail => True
  end.
Proof. exact (sensor_expand_w dummy_code). Qed.

(* ------------------------------------------------------------------ 12. time selection: slices of the global mask *)
Lemma mask_sel_app {A} : forall (m1 m2 : list bool) (l1 l2 : list A), length m1 = length l1 ->
  mask_sel (m1 ++ m2) (l1 ++ l2) = mask_sel m1 l1 ++ mask_sel m2 l2.
Proof.
  induction m1 as [|b m1 IH]; intros m2 [|x l1] l2 L; simpl in *; try discriminate; [reflexivity|].
  injection L as L. destruct b; simpl; rewrite IH; auto.
Qed.

Lemma cut_concat {A} : forall ns (l : list A), length l = list_sum ns -> concat (cut ns l) = l.
Proof.
  induction ns as [|n ns IH]; intros l L; simpl in *.
  - destruct l; [reflexivity|discriminate].
  - rewrite IH; [apply firstn_skipn|]. rewrite skipn_length. lia.
Qed.

Lemma cut_lengths {A} : forall ns (l : list A), length l = list_sum ns -> map (@List.length A) (cut ns l) = ns.
Proof.
  induction ns as [|n ns IH]; intros l L; simpl in *; [reflexivity|].
  rewrite firstn_length_le by lia. f_equal. apply IH. rewrite skipn_length. lia.
Qed.

Lemma selected_pieces_spec : forall ps (keep : list bool) (l : list Z),
  length l = list_sum (map nT ps) -> length keep = list_sum (map nT ps) ->
  selected_pieces ps keep (cut (map nT ps) l) = mask_sel keep l.
Proof.
  intros ps keep l. unfold selected_pieces. generalize (map nT ps) as ns. clear ps.
  induction ns as [|n ns IH] in keep, l |- *; intros L K; simpl in *.
  - destruct keep; [|discriminate]. reflexivity.
  - rewrite IH by (rewrite skipn_length; lia).
    rewrite <- mask_sel_app by (rewrite !firstn_length_le by lia; reflexivity).
    rewrite !firstn_skipn. reflexivity.
Qed.

(* a sensor that is categorical in some parts and a plain array in others is outside the domain; otherwise the
   concatenated cache always answers *)
Definition mixed_kinds (name : Z) (ps : list part) : bool :=
  let xs := map (fun p => find_sens name (p_sens p)) ps in existsb is_cat xs && existsb is_num xs.

Lemma sensor_answers_w : forall dc ps name ar, Forall (sens_ok name) ps -> mixed_kinds name ps = false ->
  get_sensor_w dc ps name ar <> RFail.
Proof.
  intros dc ps name ar OK MX. unfold get_sensor_w, mixed_kinds in *.
  set (xs := map (fun p => find_sens name (p_sens p)) ps) in *.
  destruct (forallb is_absent xs) eqn:A; [discriminate|].
  destruct (existsb is_cat xs) eqn:C; [|discriminate].
  cbn [andb] in MX. rewrite MX.
  assert (D : exists dt, cat_dtype xs = Some dt).
  { unfold cat_dtype. apply existsb_exists in C. destruct C as (o & Ho & Io).
    destruct (flat_map _ xs) as [|dt r] eqn:E; [|eauto]. exfalso.
    destruct o as [[|dt c]|]; try discriminate.
    assert (In dt (flat_map (fun o => match o with Some (SCat dt _) => [dt] | _ => [] end) xs)).
    { apply in_flat_map. exists (Some (SCat dt c)). split; [exact Ho|left; reflexivity]. }
    rewrite E in H. destruct H. }
  destruct D as (dt & ->).
  set (pieces := map (fun nx => cat_piece (dc dt) (fst nx) (snd nx)) (combine (map nT ps) xs)).
  assert (F : Forall2 cd_ok (map nT ps) pieces).
  { unfold pieces, xs. clear -OK. induction OK as [|p ps (P & H) _ IH]; simpl; constructor; [|exact IH].
    unfold cat_piece. destruct (find_sens name (p_sens p)) as [[fl l|dt' c0]|] eqn:E.
    - apply dummy_cd_facts; exact P.
    - exact (H dt' c0 eq_refl).
    - apply dummy_cd_facts; exact P. }
  destruct (zcat_some pieces ar) as (c & ->); [| |discriminate].
  - intro X. rewrite X in F. inversion F as [E|]. symmetry in E. apply map_eq_nil in E. subst ps. cbn in A. discriminate.
  - intros q Hq. destruct (F2_in_r _ _ _ q F Hq) as (n & _ & Hn). apply Hn.
Qed.
Lemma sensor_answers : forall ps name ar, Forall (sens_ok name) ps -> mixed_kinds name ps = false ->
  get_sensor ps name ar <> RFail.
Proof. exact (sensor_answers_w dummy_code). Qed.

(* ... on the opened concatenation (the rewritten parts keep their sensors and dump counts) *)
Theorem sensor_expand_open_w : forall dc input ps m name ar,
  sort_parts input = Some ps -> Forall part_ok ps -> concat_open input = COk m -> Forall (sens_ok name) ps ->
  match get_sensor_w dc (m_parts m) name ar with
  | RNum l => spec_sensor_w dc ps name = Some l
  | RCat c => spec_sensor_w dc ps name = Some (zexpand c) /\ cd_ok (list_sum (map nT ps)) c
  | RKeyError => spec_sensor_w dc ps name = None
  | RFail => mixed_kinds name ps = true
  end.
Proof.
  intros dc input ps m name ar E OK H SO. pose proof (concat_open_facts input ps m E OK H) as O.
  destruct (get_sensor_w_ext dc dc (m_parts m) ps name ar (op_sens _ _ O) (op_nT _ _ O)) as (G & _). rewrite G.
  pose proof (sensor_expand_w dc ps name ar SO) as X. pose proof (sensor_answers_w dc ps name ar SO) as Y.
  destruct (get_sensor_w dc ps name ar); try exact X.
  destruct (mixed_kinds name ps); [reflexivity|]. exfalso. apply Y; reflexivity.
Qed.
Theorem sensor_expand_open : forall input ps m name ar,
  sort_parts input = Some ps -> Forall part_ok ps -> concat_open input = COk m -> Forall (sens_ok name) ps ->
  match get_sensor (m_parts m) name ar with
  | RNum l => spec_sensor ps name = Some l
  | RCat c => spec_sensor ps name = Some (zexpand c) /\ cd_ok (list_sum (map nT ps)) c
  | RKeyError => spec_sensor ps name = None
  | RFail => mixed_kinds name ps = true
  end.
Proof. exact (sensor_expand_open_w dummy_code). Qed.

(* the statement of C19_concat_expand *)
Lemma concat_expand_all : forall input ps m,
  sort_parts input = Some ps -> Forall part_ok ps -> concat_open input = COk m ->
  let N := list_sum (map nT ps) in
  map p_start (m_parts m) = map p_start ps /\ m_segs m = segs_of (map nT ps) /\
  m_ts m = spec_ts ps /\
  m_subs m = spec_uniq p_sub ps /\ m_spws m = spec_uniq p_spw ps /\ m_cat m = spec_uniq p_tgt ps /\
  (exists c, m_sub m = Some c /\ cd_ok N c /\ zexpand c = spec_plain p_sub ps) /\
  (exists c, m_spw m = Some c /\ cd_ok N c /\ zexpand c = spec_plain p_spw ps) /\
  (exists c, m_tgt m = Some c /\ cd_ok N c /\ zexpand c = spec_plain p_tgt ps) /\
  (exists c, m_sub_index m = Some c /\ cd_ok N c /\ zexpand c = spec_index p_sub ps) /\
  (exists c, m_spw_index m = Some c /\ cd_ok N c /\ zexpand c = spec_index p_spw ps) /\
  (exists c, m_tgt_index m = Some c /\ cd_ok N c /\ zexpand c = spec_index p_tgt ps) /\
  (exists c, m_state m = Some c /\ cd_ok N c /\ zexpand c = spec_plain p_state ps) /\
  (exists c, m_label m = Some c /\ cd_ok N c /\ zexpand c = spec_plain p_label ps) /\
  (exists c, m_scan m = Some c /\ cd_ok N c /\ zexpand c = spec_running p_scan ps) /\
  (exists c, m_cscan m = Some c /\ cd_ok N c /\ zexpand c = spec_running p_cscan ps) /\
  m_keep0 m = Some (spec_keep0 ps) /\
  (* the sensors written back into the parts: the part's own per-dump values, over the MERGED value list *)
  Forall2 (fun p q => cd_ok (nT p) (p_tgt q) /\ zexpand (p_tgt q) = zexpand (p_tgt p) /\ uv (p_tgt q) = m_cat m) ps (m_parts m) /\
  Forall2 (fun p q => cd_ok (nT p) (p_sub q) /\ zexpand (p_sub q) = zexpand (p_sub p) /\ uv (p_sub q) = m_subs m) ps (m_parts m) /\
  Forall2 (fun p q => cd_ok (nT p) (p_spw q) /\ zexpand (p_spw q) = zexpand (p_spw p) /\ uv (p_spw q) = m_spws m) ps (m_parts m).
Proof.
  intros input ps m E OK H N. destruct (concat_open_facts input ps m E OK H).
  repeat (split; [assumption|]). assumption.
Qed.

Lemma selected_sensor_both : forall ps (keep : list bool) (l : list Z),
  length l = list_sum (map nT ps) -> length keep = list_sum (map nT ps) ->
  selected_pieces ps keep (cut (map nT ps) l) = mask_sel keep l /\ concat (cut (map nT ps) keep) = keep.
Proof. intros ps keep l L K. split; [apply selected_pieces_spec; assumption|apply cut_concat; assumption]. Qed.

Lemma dummy_code_def : forall dt,
  dummy_code dt = match snd (SensorCache.dummy_value None dt) with
                  | SensorCache.VNum None => nan_code
                  | SensorCache.VInt z => z
                  | SensorCache.VEmptyStr => 0%Z
                  | SensorCache.VFalse => 0%Z
                  | _ => (-8888)%Z
                  end.
Proof. reflexivity. Qed.

(* ------------------------------------------------------------------ 13. unsigned integer sensors (finding C19-F4, repaired) *)
Lemma lacks_some_ext ps ps' name : map p_sens ps = map p_sens ps' -> lacks_some ps name = lacks_some ps' name.
Proof.
  intro A. unfold lacks_some.
  assert (X : map (fun p => find_sens name (p_sens p)) ps = map (fun p => find_sens name (p_sens p)) ps').
  { rewrite <- (map_map p_sens (find_sens name)), A, map_map. reflexivity. }
  rewrite X. reflexivity.
Qed.

(* the integer dummy of the model is the generated constant of dummy_sensor_getter, -1 *)
Lemma dummy_code_int : dummy_code SensorCache.DInt = (-1)%Z.
Proof. reflexivity. Qed.

(* np.array(-1).astype(dtype)[()] = the dummy the property names: -1 for a signed type, the largest value 2^b - 1 of an
   unsigned type of b bits *)
Lemma dummy_code_u_is_spec : forall ubits dt, dummy_code_u ubits dt = spec_dummy_u ubits dt.
Proof.
  intros ubits dt. destruct dt; try reflexivity.
  unfold dummy_code_u, spec_dummy_u, int_dummy. rewrite dummy_code_int.
  destruct (ubits <=? 0)%Z eqn:B; [reflexivity|]. apply Z.leb_gt in B.
  assert (P : (0 < 2 ^ ubits)%Z) by (apply Z.pow_pos_nonneg; lia).
  symmetry. apply Z.mod_unique with (q := (-1)%Z); lia.
Qed.
Lemma dummy_code_u_0 : forall dt, dummy_code_u 0 dt = dummy_code dt.
Proof. destruct dt; reflexivity. Qed.

Lemma spec_sensor_w_ext sd sd' ps name : (forall dt, sd dt = sd' dt) -> spec_sensor_w sd ps name = spec_sensor_w sd' ps name.
Proof. intro E. unfold spec_sensor_w. rewrite !E. destruct (cat_dtype _); [rewrite E|]; reflexivity. Qed.
Lemma get_sensor_w_fext dc dc' ps name ar : (forall dt, dc dt = dc' dt) -> get_sensor_w dc ps name ar = get_sensor_w dc' ps name ar.
Proof. intro E. unfold get_sensor_w. rewrite !E. destruct (cat_dtype _); [rewrite E|]; reflexivity. Qed.

(* a sensor of one of C12's types: get_sensor_u is get_sensor, spec_sensor_u is spec_sensor *)
Lemma get_sensor_u_0 : forall ps name ar, get_sensor_u ps name ar 0 = get_sensor ps name ar.
Proof. intros. apply get_sensor_w_fext, dummy_code_u_0. Qed.
Lemma spec_sensor_u_0 : forall ps name, spec_sensor_u 0 ps name = spec_sensor ps name.
Proof. intros. apply spec_sensor_w_ext. destruct dt; reflexivity. Qed.

Lemma unsigned_signed_case : forall ps name ar,
  get_sensor_u ps name ar 0 = get_sensor ps name ar /\ spec_sensor_u 0 ps name = spec_sensor ps name.
Proof. intros. split; [apply get_sensor_u_0 | apply spec_sensor_u_0]. Qed.

(* FULL strength (after the repair of C19-F4): ConcatenatedSensorCache.get = concatenation with the dummy of the type,
   for sensors of an unsigned integer type of any width too, whatever subset of the parts has them *)
Theorem unsigned_sensor : forall input ps m name ar ubits,
  sort_parts input = Some ps -> Forall part_ok ps -> concat_open input = COk m -> Forall (sens_ok name) ps ->
  match get_sensor_u (m_parts m) name ar ubits with
  | RNum l => spec_sensor_u ubits ps name = Some l
  | RCat c => spec_sensor_u ubits ps name = Some (zexpand c) /\ cd_ok (list_sum (map nT ps)) c
  | RKeyError => spec_sensor_u ubits ps name = None
  | RFail => mixed_kinds name ps = true
  end.
Proof.
  intros input ps m name ar ubits E OK H SO. unfold get_sensor_u, spec_sensor_u.
  rewrite <- (spec_sensor_w_ext (dummy_code_u ubits) (spec_dummy_u ubits) ps name (dummy_code_u_is_spec ubits)).
  exact (sensor_expand_open_w (dummy_code_u ubits) input ps m name ar E OK H SO).
Qed.

(* the filler of an unsigned type of b bits over a part that lacks the sensor is 2^b - 1, never -1 *)
Lemma unsigned_filler_in_range : forall ubits, (0 < ubits)%Z ->
  (0 <= dummy_code_u ubits SensorCache.DInt < 2 ^ ubits)%Z /\ dummy_code_u ubits SensorCache.DInt = (2 ^ ubits - 1)%Z.
Proof.
  intros ubits P. rewrite dummy_code_u_is_spec. unfold spec_dummy_u.
  destruct (ubits <=? 0)%Z eqn:B; [apply Z.leb_le in B; lia|].
  assert (0 < 2 ^ ubits)%Z by (apply Z.pow_pos_nonneg; lia). lia.
Qed.

(* what the code did BEFORE the repair: under the guard only *)
Theorem unsigned_sensor_partial_before_fix : forall input ps m name ar uns,
  sort_parts input = Some ps -> Forall part_ok ps -> concat_open input = COk m -> Forall (sens_ok name) ps ->
  uns = false \/ lacks_some ps name = false ->
  match get_sensor_u_before_fix (m_parts m) name ar uns with
  | RNum l => spec_sensor ps name = Some l
  | RCat c => spec_sensor ps name = Some (zexpand c) /\ cd_ok (list_sum (map nT ps)) c
  | RKeyError => spec_sensor ps name = None
  | RFail => mixed_kinds name ps = true
  end.
Proof.
  intros input ps m name ar uns E OK H SO G. pose proof (concat_open_facts input ps m E OK H) as O.
  unfold get_sensor_u_before_fix. rewrite (lacks_some_ext (m_parts m) ps name (op_sens _ _ O)).
  assert (X : uns && lacks_some ps name = false) by (destruct G as [-> | ->]; [reflexivity | apply andb_false_r]).
  rewrite X. exact (sensor_expand_open input ps m name ar E OK H SO).
Qed.
