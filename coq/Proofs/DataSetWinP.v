(* C01: data sets with several spectral windows / subarrays (Model/DataSetWin.v) -- every selected dump was recorded
   with the active window and subarray, after EVERY history; freqs / corr_products are the labels of those dumps'
   window / subarray; elements are the stored samples of those dumps.  Rests on C02's invariants of SelectX
   (Proofs/SelectXRefP.v: WInv / XInv, imported unchanged) and on the single-window lemmas of Proofs/DataSetP.v. *)
From Coq Require Import ZArith QArith List Bool String Lia.
From KV Require Import Base.Sx Base.Str Base.SelSlice Base.PySlice Base.AxisIndex Base.NdArray Gen.Generated
  Model.Flags Model.DataSet Model.DataSetWin Proofs.DataSetBaseP Proofs.DataSetP.
From KV Require Model.Select Model.SelectX Proofs.SelectBaseP Proofs.SelectP Proofs.SelectXP Proofs.SelectXRefP.
Import ListNotations.
Open Scope Z_scope.


(* ------------------------------------------------------------------ the two vocabularies of masks agree *)

Lemma keep_is_select {A} : forall (m : list bool) (l : list A), SelectX.keep m l = select m l.
Proof.
  induction m as [|b m IH]; intros l; [reflexivity|]. destruct l as [|x l]; [reflexivity|].
  cbn [SelectX.keep select]. rewrite IH. reflexivity.
Qed.

Lemma xnonzero_from : forall m k,
  SelectX.keep m (map Z.of_nat (seq k (List.length m))) = nonzero_from (Z.of_nat k) m.
Proof.
  induction m as [|b m IH]; intro k; [reflexivity|]. cbn [List.length seq map SelectX.keep nonzero_from].
  replace (Z.of_nat k + 1) with (Z.of_nat (S k)) by lia. destruct b; now rewrite IH.
Qed.

Lemma xnonzero_eq m : SelectX.nonzero m = nonzero m.
Proof. unfold SelectX.nonzero, SelSlice.zpos, nonzero. apply (xnonzero_from m 0). Qed.

Lemma count_is_msum : forall m, SelectX.count m = msum m.
Proof.
  unfold SelectX.count. induction m as [|b m IH]; [reflexivity|]. cbn [filter msum]. destruct b; cbn [List.length]; lia.
Qed.

(* a position listed by nonzero is a True of the mask *)
Lemma nonzero_from_true : forall m k x, In x (nonzero_from k m) -> k <= x /\ nth (Z.to_nat (x - k)) m false = true.
Proof.
  induction m as [|b m IH]; intros k x H; [destruct H|]. cbn [nonzero_from] in H.
  assert (R : In x (nonzero_from (k + 1) m) -> k <= x /\ nth (Z.to_nat (x - k)) (b :: m) false = true).
  { intro H1. destruct (IH _ _ H1) as [L N]. split; [lia|].
    replace (Z.to_nat (x - k)) with (S (Z.to_nat (x - (k + 1)))) by lia. exact N. }
  destruct b; [|exact (R H)]. destruct H as [<-|H]; [|exact (R H)].
  split; [lia|]. now rewrite Z.sub_diag.
Qed.

Lemma nonzero_true m x : In x (nonzero m) -> 0 <= x /\ nth (Z.to_nat x) m false = true.
Proof. intro H. destruct (nonzero_from_true m 0 x H) as [L N]. now rewrite Z.sub_0_r in N. Qed.

(* ------------------------------------------------------------------ the view under a window / subarray *)

Lemma view_is_view_at xo spw sub : view xo spw sub = SelectXRefP.view_at xo spw sub.
Proof. reflexivity. Qed.

Lemma nT_cfg_at wc a b : nT (cfg_at wc a b) = zlen (SelectX.x_dumps (w_xo wc)).
Proof. unfold nT, cfg_at, view, zlen. cbn. now rewrite map_length. Qed.

Lemma cfg_ok_any wc a b a' b' : cfg_ok (cfg_at wc a b) -> cfg_ok (cfg_at wc a' b').
Proof. unfold cfg_ok. cbn [c_fmt c_segs cfg_at]. now rewrite !nT_cfg_at. Qed.

Lemma winv_wf wc s : SelectXRefP.WInv (w_xo wc) s -> wf (cfg_of wc s) (SelectX.x_core s).
Proof. intro W. exact (SelectXRefP.w_wf _ _ W). Qed.

(* a True of a mask inside the window mask is a dump recorded with that window and subarray *)
Lemma in_window_dump xo spw sub m i : SelectXRefP.in_window xo spw sub m -> In i (nonzero m) ->
  dump_win xo i = spw /\ dump_sub xo i = sub.
Proof.
  intros W H. destruct (nonzero_true m i H) as [L N]. apply W in N. unfold SelectXRefP.wmask in N.
  unfold dump_win, dump_sub. destruct (nth_error (SelectX.x_dumps xo) (Z.to_nat i)) as [x|] eqn:E.
  - assert (M : nth (Z.to_nat i) (map (fun x0 => (SelectX.xd_spw x0 =? spw) && (SelectX.xd_sub x0 =? sub)) (SelectX.x_dumps xo)) false
                = (SelectX.xd_spw x =? spw) && (SelectX.xd_sub x =? sub)).
    { apply nth_error_nth.
      exact (map_nth_error (fun x0 => (SelectX.xd_spw x0 =? spw) && (SelectX.xd_sub x0 =? sub)) _ _ E). }
    rewrite M in N. apply andb_prop in N. destruct N as [N1 N2]. split; now apply Z.eqb_eq.
  - exfalso. apply nth_error_None in E. rewrite nth_overflow in N; [discriminate|]. now rewrite map_length.
Qed.

(* ------------------------------------------------------------------ histories *)

Lemma wrun_app wc a b d : wrun wc d (a ++ b) = wrun wc (wrun wc d a) b.
Proof. unfold wrun. apply fold_left_app. Qed.

Lemma wrun_cons wc o r d : wrun wc d (o :: r) = wrun wc (wstep wc d o) r.
Proof. reflexivity. Qed.

Lemma wstep_reach wc d o : call_ok o -> SelectXRefP.xreach_any (w_xo wc) (ws_sel d) ->
  SelectXRefP.xreach_any (w_xo wc) (ws_sel (wstep wc d o)).
Proof.
  intros C R. destruct o as [kw|k|id ix2|]; cbn [wstep ws_sel]; try exact R.
  apply SelectXRefP.xany_step; assumption.
Qed.

Lemma wrun_reach wc : forall ops d, Forall call_ok ops -> SelectXRefP.xreach_any (w_xo wc) (ws_sel d) ->
  SelectXRefP.xreach_any (w_xo wc) (ws_sel (wrun wc d ops)).
Proof.
  induction ops as [|o r IH]; intros d F R; [exact R|]. rewrite wrun_cons. inversion F; subst.
  apply IH; [assumption|]. apply wstep_reach; assumption.
Qed.

Lemma wrun_winv wc ops : SelectXRefP.has_windows (w_xo wc) -> Forall call_ok ops ->
  SelectXRefP.WInv (w_xo wc) (ws_sel (wrun wc (wstart wc) ops)).
Proof.
  intros Hw F. apply SelectXRefP.xreach_any_WInv; [exact Hw|]. apply wrun_reach; [exact F|].
  apply SelectXRefP.xany_init.
Qed.

(* no call raised part-way: the state is one in which the public attributes are those of the masks *)
Lemma outcome_cases oc : oc <> SelectX.OFail -> oc = SelectX.OOk \/ oc = SelectX.OTypeError \/ oc = SelectX.OIndexError.
Proof. destruct oc; intuition congruence. Qed.

Lemma wrun_clean wc : forall ops d, Forall call_ok ops -> accepted wc d ops ->
  SelectXRefP.xreach (w_xo wc) (ws_sel d) -> SelectXRefP.xreach (w_xo wc) (ws_sel (wrun wc d ops)).
Proof.
  induction ops as [|o r IH]; intros d F A R; [exact R|]. rewrite wrun_cons. inversion F; subst.
  destruct A as [A1 A2]. apply IH; [assumption|assumption|].
  destruct o as [kw|k|id ix2|]; cbn [wstep ws_sel]; try exact R.
  destruct (outcome_cases _ A1) as [E|E].
  - eapply SelectXRefP.xreach_step; [exact R|exact H1|].
    destruct (SelectX.xselect (w_xo wc) (ws_sel d) kw) as [oc s'] eqn:X. cbn [fst snd] in *. now subst oc.
  - eapply SelectXRefP.xreach_rej; [exact R|reflexivity|exact E].
Qed.

Lemma wrun_xinv wc ops : SelectXRefP.has_windows (w_xo wc) -> Forall call_ok ops -> accepted wc (wstart wc) ops ->
  SelectXRefP.XInv (w_xo wc) (ws_sel (wrun wc (wstart wc) ops)).
Proof.
  intros Hw F A. apply SelectXRefP.xreach_XInv; [exact Hw|]. apply wrun_clean; [exact F|exact A|].
  apply SelectXRefP.xreach_init.
Qed.

(* indexers are only ever appended *)
Lemma wstep_ixs wc d o : exists extra, ws_ixs (wstep wc d o) = ws_ixs d ++ extra.
Proof.
  destruct o as [kw|k|id ix2|]; cbn [wstep ws_ixs]; try (exists []; now rewrite app_nil_r). eexists. reflexivity.
Qed.

Lemma wrun_ixs wc : forall ops d, exists extra, ws_ixs (wrun wc d ops) = ws_ixs d ++ extra.
Proof.
  induction ops as [|o r IH]; intro d; [exists []; now rewrite app_nil_r|]. rewrite wrun_cons.
  destruct (wstep_ixs wc d o) as [e1 E1]. destruct (IH (wstep wc d o)) as [e2 E2].
  exists (e1 ++ e2). now rewrite E2, E1, app_assoc.
Qed.

Lemma wacquired_persists wc h1 k h2 :
  let d1 := wrun wc (wstart wc) h1 in
  nth_error (ws_ixs (wrun wc (wstart wc) (h1 ++ WAcquire k :: h2))) (List.length (ws_ixs d1))
  = Some (wacquire wc (ws_sel d1) k).
Proof.
  intro d1. rewrite wrun_app. fold d1. rewrite wrun_cons. cbn [wstep].
  destruct (wrun_ixs wc h2 {| ws_sel := ws_sel d1; ws_ixs := ws_ixs d1 ++ [wacquire wc (ws_sel d1) k] |}) as [extra E].
  rewrite E. cbn [ws_ixs]. rewrite <- app_assoc. rewrite nth_error_app2 by lia. now rewrite Nat.sub_diag.
Qed.

(* ------------------------------------------------------------------ C01_window_dumps *)

(* After EVERY history (whatever made the time dimension start afresh; also after calls that raised part-way): every
   dump of the time mask -- the dumps an indexer acquired now serves -- was recorded with the active spectral window
   and the active subarray. *)
Lemma window_dumps wc h : SelectXRefP.has_windows (w_xo wc) -> Forall call_ok h ->
  let s := ws_sel (wrun wc (wstart wc) h) in
  forall i, In i (dumps (SelectX.x_core s)) -> dump_win (w_xo wc) i = SelectX.x_spw s /\ dump_sub (w_xo wc) i = SelectX.x_sub s.
Proof.
  intros Hw F s i H. pose proof (wrun_winv wc h Hw F) as W. fold s in W.
  exact (in_window_dump _ _ _ _ _ (SelectXRefP.w_win _ _ W) H).
Qed.

(* ------------------------------------------------------------------ C01_window_attributes *)

Lemma pub_of_attrs o sa c :
  let p := SelectX.pub_of o sa c in
  SelectX.p_dumps p = dumps c /\ SelectX.p_channels p = channels c /\ SelectX.p_shape p = shape c
  /\ SelectX.p_freqs p = freqs (Select.o_freqs o) c /\ SelectX.p_cps p = select (Select.bk c) (Select.o_cps o).
Proof.
  cbn. unfold dumps, channels, shape, freqs. rewrite !xnonzero_eq, !count_is_msum, !keep_is_select. repeat split.
Qed.

(* When no call raised part-way: the public attributes are those of the masks under the ACTIVE window / subarray. *)
Lemma window_attributes wc h : SelectXRefP.has_windows (w_xo wc) -> Forall call_ok h -> accepted wc (wstart wc) h ->
  let s := ws_sel (wrun wc (wstart wc) h) in
  wdumps s = dumps (SelectX.x_core s) /\ wchannels s = channels (SelectX.x_core s) /\ wshape s = shape (SelectX.x_core s)
  /\ wfreqs s = freqs (SelectX.w_freqs (win_of (w_xo wc) (SelectX.x_spw s))) (SelectX.x_core s)
  /\ wcps s = corr_products (cfg_of wc s) (SelectX.x_core s).
Proof.
  intros Hw F A s. pose proof (wrun_xinv wc h Hw F A) as X. fold s in X.
  unfold wdumps, wchannels, wshape, wfreqs, wcps. rewrite (SelectXRefP.xi_pub _ _ X).
  destruct (pub_of_attrs (SelectXRefP.view_at (w_xo wc) (SelectX.x_spw s) (SelectX.x_sub s)) (SelectXRefP.sub_at (w_xo wc) (SelectX.x_sub s))
                         (SelectX.x_core s)) as [P1 [P2 [P3 [P4 P5]]]].
  rewrite P1, P2, P3, P4, P5. repeat split.
Qed.

(* ------------------------------------------------------------------ C01_window_shape *)

Lemma window_shape wc h : SelectXRefP.has_windows (w_xo wc) -> Forall call_ok h -> accepted wc (wstart wc) h ->
  cfg_ok (cfg_at wc 0 0) ->
  let s := ws_sel (wrun wc (wstart wc) h) in
  wshape s = [zlen (wdumps s); zlen (wchannels s); zlen (wcps s)]
  /\ zlen (wfreqs s) = zlen (wchannels s)
  /\ forall k, adv_shape (wacquire wc s k) = (match k with KTime => [zlen (wdumps s)] | _ => wshape s end)
       /\ forall S, exists out, index S (wacquire wc s k) [] = Ok out /\ nd_shape out = adv_shape (wacquire wc s k).
Proof.
  intros Hw F A Hc s. destruct (window_attributes wc h Hw F A) as [P1 [P2 [P3 [P4 P5]]]]. fold s in P1, P2, P3, P4, P5.
  pose proof (winv_wf wc s (wrun_winv wc h Hw (F))) as Wf.
  assert (Hc' : cfg_ok (cfg_of wc s)) by (eapply cfg_ok_any; exact Hc).
  destruct (shape_lengths (cfg_of wc s) (SelectX.x_core s) Wf) as [S1 [S2 [S3 _]]].
  rewrite P1, P2, P3, P4, P5. split; [now rewrite S1, S2|]. split.
  - apply S3. unfold nF, zlen. reflexivity.
  - intro k. split.
    + unfold wacquire. rewrite (adv_shape_acquire _ _ k Hc' Wf). destruct k; try reflexivity.
      unfold dumps. now rewrite msum_nonzero.
    + intro S. exact (index_full (cfg_of wc s) S (SelectX.x_core s) k Hc' Wf).
Qed.

(* ------------------------------------------------------------------ C01_window_labels *)

(* freqs[j] is the documented frequency of channel channels[j] IN THE WINDOW WITH WHICH EVERY SELECTED DUMP WAS RECORDED,
   corr_products[l] is product cp_idx[l] of the subarray with which it was recorded: the labels are those of the very
   dumps (and channels, products) whose samples the indexers deliver. *)
Lemma window_labels wc h : SelectXRefP.has_windows (w_xo wc) -> Forall call_ok h -> accepted wc (wstart wc) h ->
  let s := ws_sel (wrun wc (wstart wc) h) in
  forall i, In i (wdumps s) ->
    dump_win (w_xo wc) i = SelectX.x_spw s /\ dump_sub (w_xo wc) i = SelectX.x_sub s
    /\ (forall j, 0 <= j < zlen (wchannels s) ->
          nth (Z.to_nat j) (wfreqs s) (-1) = dump_chan_freq (w_xo wc) i (znth (wchannels s) j))
    /\ (forall l, 0 <= l < zlen (cp_idx (SelectX.x_core s)) ->
          nth (Z.to_nat l) (wcps s) ((-1, -1), (-1, -1)) = dump_cprod (w_xo wc) i (znth (cp_idx (SelectX.x_core s)) l)).
Proof.
  intros Hw F A s i Hi. destruct (window_attributes wc h Hw F A) as [P1 [P2 [P3 [P4 P5]]]]. fold s in P1, P2, P3, P4, P5.
  rewrite P1 in Hi. destruct (window_dumps wc h Hw F i Hi) as [D1 D2]. fold s in D1, D2.
  pose proof (winv_wf wc s (wrun_winv wc h Hw F)) as Wf.
  destruct (wf_lens _ _ Wf) as [Lt [Lf Lb]].
  split; [exact D1|]. split; [exact D2|]. split.
  - intros j Hj. rewrite P2 in *. rewrite P4. unfold dump_chan_freq. rewrite D1.
    unfold freqs, channels in *. apply nth_select; [|assumption].
    unfold nF, zlen in Lf. cbn in Lf. unfold zlen in *. lia.
  - intros l Hl. rewrite P5. unfold dump_cprod. rewrite D2. unfold corr_products, cp_idx in *.
    apply nth_select; [|assumption]. unfold nB, zlen in Lb. cbn in Lb. unfold zlen in *. lia.
Qed.

(* ------------------------------------------------------------------ C01_window_elements *)

Lemma windex_op_acquired wc S h1 k h2 ix2 :
  let d1 := wrun wc (wstart wc) h1 in
  windex_op S (wrun wc (wstart wc) (h1 ++ WAcquire k :: h2)) (List.length (ws_ixs d1)) ix2
  = index S (wacquire wc (ws_sel d1) k) ix2.
Proof.
  intro d1. unfold windex_op. pose proof (wacquired_persists wc h1 k h2) as P. cbv zeta in P. fold d1 in P.
  now rewrite P.
Qed.

Lemma znth_dump_in ds pt i : in_range (zlen ds) pt -> 0 <= i < zlen pt -> In (znth ds (znth pt i)) ds.
Proof.
  intros R Hi. apply znth_in. unfold in_range in R. rewrite Forall_forall in R. apply R. now apply znth_in.
Qed.

(* For every multi-window data set, stored content S, history h1 (any select() calls incl. spw= / subarray= and calls that
   raised part-way), three-axis kind, EVERY continuation h2 and every answered second-stage index: element (i, j, l) of
   the answer is the stored sample at (dumps[pt[i]], channels[pf[j]], cps[pb[l]]) of the selection in force at
   acquisition, AND that dump was recorded with the window and subarray active at acquisition -- the ones freqs /
   corr_products described then. *)
Lemma window_elements wc S h1 k h2 ix2 out : SelectXRefP.has_windows (w_xo wc) -> cfg_ok (cfg_at wc 0 0) -> k <> KTime ->
  Forall call_ok h1 ->
  let d1 := wrun wc (wstart wc) h1 in
  windex_op S (wrun wc (wstart wc) (h1 ++ WAcquire k :: h2)) (List.length (ws_ixs d1)) ix2 = Ok out ->
  let s := ws_sel d1 in
  let m := SelectX.x_core s in
  exists pt pf pb,
    resolve_keep (zlen (dumps m)) (ix_at ix2 3 0) = Ok pt
    /\ resolve_keep (zlen (channels m)) (ix_at ix2 3 1) = Ok pf
    /\ resolve_keep (zlen (cp_idx m)) (ix_at ix2 3 2) = Ok pb
    /\ nd_shape out = [zlen pt; zlen pf; zlen pb]
    /\ forall i j l, 0 <= i < zlen pt -> 0 <= j < zlen pf -> 0 <= l < zlen pb ->
         get (nd_body out) [i; j; l]
         = get S [znth (dumps m) (znth pt i); znth (channels m) (znth pf j); znth (cp_idx m) (znth pb l)]
         /\ dump_win (w_xo wc) (znth (dumps m) (znth pt i)) = SelectX.x_spw s
         /\ dump_sub (w_xo wc) (znth (dumps m) (znth pt i)) = SelectX.x_sub s.
Proof.
  intros Hw Hc Hk F d1 H s m. pose proof (windex_op_acquired wc S h1 k h2 ix2) as P. cbv zeta in P. fold d1 in P.
  rewrite P in H. clear P. fold s in H.
  pose proof (winv_wf wc s (wrun_winv wc h1 Hw F)) as Wf.
  assert (Hc' : cfg_ok (cfg_of wc s)) by (eapply cfg_ok_any; exact Hc).
  destruct (elements3 (cfg_of wc s) S m k ix2 out Hc' Wf Hk H) as [pt [pf [pb [Rt [Rf [Rb [Sh El]]]]]]].
  exists pt, pf, pb. repeat split; try assumption; try (now apply El).
  - pose proof (resolve_keep_in_range _ _ _ (zlen_nonneg _) Rt) as It.
    apply (window_dumps wc h1 Hw F). now apply znth_dump_in.
  - pose proof (resolve_keep_in_range _ _ _ (zlen_nonneg _) Rt) as It.
    apply (window_dumps wc h1 Hw F). now apply znth_dump_in.
Qed.

Lemma window_elements_timestamps wc S h1 h2 ix2 out : SelectXRefP.has_windows (w_xo wc) -> cfg_ok (cfg_at wc 0 0) ->
  Forall call_ok h1 ->
  let d1 := wrun wc (wstart wc) h1 in
  windex_op S (wrun wc (wstart wc) (h1 ++ WAcquire KTime :: h2)) (List.length (ws_ixs d1)) ix2 = Ok out ->
  let s := ws_sel d1 in
  let m := SelectX.x_core s in
  exists pt,
    resolve_keep (zlen (dumps m)) (ix_at ix2 1 0) = Ok pt
    /\ nd_shape out = [zlen pt]
    /\ forall i, 0 <= i < zlen pt ->
         get (nd_body out) [i] = get S [znth (dumps m) (znth pt i)]
         /\ dump_win (w_xo wc) (znth (dumps m) (znth pt i)) = SelectX.x_spw s
         /\ dump_sub (w_xo wc) (znth (dumps m) (znth pt i)) = SelectX.x_sub s.
Proof.
  intros Hw Hc F d1 H s m. pose proof (windex_op_acquired wc S h1 KTime h2 ix2) as P. cbv zeta in P. fold d1 in P.
  rewrite P in H. clear P. fold s in H.
  pose proof (winv_wf wc s (wrun_winv wc h1 Hw F)) as Wf.
  assert (Hc' : cfg_ok (cfg_of wc s)) by (eapply cfg_ok_any; exact Hc).
  destruct (elements1 (cfg_of wc s) S m ix2 out Hc' Wf H) as [pt [Rt [Sh El]]].
  exists pt. repeat split; try assumption; try (now apply El).
  - pose proof (resolve_keep_in_range _ _ _ (zlen_nonneg _) Rt) as It.
    apply (window_dumps wc h1 Hw F). now apply znth_dump_in.
  - pose proof (resolve_keep_in_range _ _ _ (zlen_nonneg _) Rt) as It.
    apply (window_dumps wc h1 Hw F). now apply znth_dump_in.
Qed.

(* on labels (what crosses the wire): the executable model answer is what the executable spec demands *)
Lemma window_model_is_spec wc h1 k ix2 out : SelectXRefP.has_windows (w_xo wc) -> cfg_ok (cfg_at wc 0 0) ->
  Forall call_ok h1 ->
  let s := ws_sel (wrun wc (wstart wc) h1) in
  let x := wacquire wc s k in
  index (stored_labels x) x ix2 = Ok out ->
  spec_index (cfg_of wc s) (SelectX.x_core s) k ix2 = Ok (nd_shape out, flatten (nd_body out)).
Proof.
  intros Hw Hc F s x H. pose proof (winv_wf wc s (wrun_winv wc h1 Hw F)) as Wf.
  assert (Hc' : cfg_ok (cfg_of wc s)) by (eapply cfg_ok_any; exact Hc).
  exact (index_spec_labels (cfg_of wc s) (SelectX.x_core s) k ix2 out Hc' Wf H).
Qed.

(* ------------------------------------------------------------------ the time base is the documented one *)

(* the dump mask every fresh time dimension starts from, as re-translated from dataset.py, is "recorded with this
   window AND this subarray" (an edit of either comparison, or of which sensor is compared with which argument,
   changes Generated.sel_time_base and breaks this) *)
Lemma window_base_documented xo spw sub :
  SelectX.window_mask xo spw sub = map (fun x => (SelectX.xd_spw x =? spw) && (SelectX.xd_sub x =? sub)) (SelectX.x_dumps xo).
Proof. exact (SelectXP.window_mask_base xo spw sub). Qed.

(* ------------------------------------------------------------------ example (non-vacuity) *)

(* three dumps recorded with windows 0 / 1 / 0 (2 channels each, 8 frequency units apart), one subarray of one
   product; select(spw=1); select(dumps=slice(0, 3)); select(): the time axis restarts from the dumps of window 1
   each time *)
Definition ex_dump (ts w : Z) : SelectX.xdump :=
  {| SelectX.xd_core := {| Select.d_ts := ts; Select.d_scan := 0; Select.d_state := 0; Select.d_cscan := 0; Select.d_label := 0;
                   Select.d_target := 0 |}; SelectX.xd_spw := w; SelectX.xd_sub := 0 |}.
Definition ex_xo : SelectX.xobs :=
  {| SelectX.x_dumps := [ex_dump 0 0; ex_dump 4 1; ex_dump 8 0]; SelectX.x_half := 2; SelectX.x_targets := [];
     SelectX.x_spws := [{| SelectX.w_freqs := [100; 96]; SelectX.w_halfw := 2 |}; {| SelectX.w_freqs := [60; 56]; SelectX.w_halfw := 2 |}];
     SelectX.x_subs := [{| SelectX.sa_ants := [0]; SelectX.sa_cps := [((0, 0), (0, 0))] |}];
     SelectX.x_vocab := {| SelectX.v_states := []; SelectX.v_labels := []; SelectX.v_tags := []; SelectX.v_ants := []; SelectX.v_inputs := [] |} |}.
Definition ex_wc : wcfg :=
  {| w_cfg := {| c_fmt := V2; c_obs := view ex_xo 0 0; c_dup := false; c_upper := false; c_centroid := false; c_segs := [];
                 c_dump := 1; c_cbf_dump := 1; c_off := 0; c_ts := [0%Q; 1%Q; 2%Q]; c_atoms := [] |};
     w_xo := ex_xo |}.
Definition ex_spw1 : wop := WSelect [("spw"%string, SelectX.XCore (Select.VAtom 1))].
Definition ex_dumps_all : wop := WSelect [("dumps"%string, SelectX.XCore (Select.VIdx (SelSlice.IxSlice None None None)))].
Definition ex_bare : wop := WSelect [].

Lemma window_example :
  let s0 := ws_sel (wstart ex_wc) in
  let s1 := ws_sel (wrun ex_wc (wstart ex_wc) [ex_spw1]) in
  let s2 := ws_sel (wrun ex_wc (wstart ex_wc) [ex_spw1; ex_dumps_all]) in
  let s3 := ws_sel (wrun ex_wc (wstart ex_wc) [ex_spw1; ex_dumps_all; ex_bare]) in
  (wdumps s0, wfreqs s0) = ([0; 2], [100; 96])
  /\ (wdumps s1, wfreqs s1) = ([1], [60; 56])
  /\ (wdumps s2, wfreqs s2, SelectX.x_spw s2) = ([1], [60; 56], 1)
  /\ (wdumps s3, wfreqs s3, SelectX.x_spw s3) = ([1], [60; 56], 1).
Proof. vm_compute. repeat split. Qed.
