(* C09: lemmas about Model/S3Url.v *)
From Coq Require Import ZArith List Bool String Lia.
From KV Require Import Base.Sx Base.Str Gen.Generated Model.S3Url.
Import ListNotations.
Open Scope Z_scope.

Lemma url_constants : s3_path_sep = 47 /\ s3_bucket_from = 95 /\ s3_bucket_to = 45 /\ s3_chunk_extension = ".npy"%string.
Proof. repeat split; reflexivity. Qed.

Lemma split1_nosep : forall b, nosep b = true -> split1 b = (b, None).
Proof.
  induction b as [|c t IH]; intro H; [reflexivity|]. cbn in *.
  apply andb_true_iff in H as [Hc Ht]. apply negb_true_iff in Hc. rewrite Hc, (IH Ht). reflexivity.
Qed.

Lemma split1_app : forall b k, nosep b = true -> split1 (b ++ s3_path_sep :: k) = (b, Some k).
Proof.
  induction b as [|c t IH]; intros k H.
  - cbn [app split1]. rewrite Z.eqb_refl. reflexivity.
  - cbn [app split1 nosep forallb] in *. apply andb_true_iff in H as [Hc Ht]. apply negb_true_iff in Hc. rewrite Hc, (IH k Ht). reflexivity.
Qed.

Lemma split1_fst_nosep : forall p, nosep (fst (split1 p)) = true.
Proof.
  induction p as [|c t IH]; [reflexivity|]. cbn. destruct (c =? s3_path_sep) eqn:E; [reflexivity|].
  destruct (split1 t) as [a r]. cbn in *. rewrite E, IH. reflexivity.
Qed.

Lemma split1_join : forall p, join1 (fst (split1 p)) (snd (split1 p)) = p.
Proof.
  induction p as [|c t IH]; [reflexivity|]. cbn. destruct (c =? s3_path_sep) eqn:E.
  - apply Z.eqb_eq in E. subst. reflexivity.
  - destruct (split1 t) as [a r]. cbn in *. destruct r; cbn in *; rewrite IH; reflexivity.
Qed.

(* after lstrip the path is empty or starts with something that is not a separator *)
Lemma lstrip_head : forall p, lstrip_sep p = [] \/ exists c t, lstrip_sep p = c :: t /\ (c =? s3_path_sep) = false.
Proof.
  induction p as [|c t IH]; [left; reflexivity|]. cbn. destruct (c =? s3_path_sep) eqn:E; [exact IH|].
  right. exists c, t. split; [reflexivity|exact E].
Qed.

Lemma lstrip_id : forall c t, (c =? s3_path_sep) = false -> lstrip_sep (c :: t) = c :: t.
Proof. intros c t H. cbn. rewrite H. reflexivity. Qed.

Lemma dash_nosep : forall b, nosep b = true -> nosep (dash b) = true.
Proof.
  unfold nosep, dash. induction b as [|c t IH]; intro H; [reflexivity|]. cbn [map forallb] in *.
  apply andb_true_iff in H as [Hc Ht]. rewrite (IH Ht), andb_true_r.
  destruct (c =? s3_bucket_from); [reflexivity|exact Hc].
Qed.

Lemma dash_dash : forall b, dash (dash b) = dash b.
Proof.
  unfold dash. induction b as [|c t IH]; [reflexivity|]. cbn [map]. rewrite IH. f_equal.
  destruct (c =? s3_bucket_from) eqn:E; [reflexivity|]. rewrite E. reflexivity.
Qed.

Lemma dash_no_underscore : forall b, forallb (fun c => negb (c =? s3_bucket_from)) (dash b) = true.
Proof.
  unfold dash. induction b as [|c t IH]; [reflexivity|]. cbn [map forallb]. rewrite IH, andb_true_r.
  destruct (c =? s3_bucket_from) eqn:E; [reflexivity|]. rewrite E. reflexivity.
Qed.

Lemma dash_head : forall c t, (c =? s3_path_sep) = false ->
  exists c' t', dash (c :: t) = c' :: t' /\ (c' =? s3_path_sep) = false.
Proof.
  intros c t H. unfold dash. cbn [map]. destruct (c =? s3_bucket_from); eexists; eexists; split; try reflexivity; exact H.
Qed.

(* normal form: / dash(bucket) [ / rest ] *)
Lemma normalise_form : forall p,
  normalise p = s3_path_sep :: join1 (dash (bucket_of p)) (snd (split1 (lstrip_sep p))).
Proof. intro p. unfold normalise, bucket_of. destruct (split1 (lstrip_sep p)); reflexivity. Qed.

Lemma split1_of_normal : forall b r, nosep b = true ->
  (b = [] -> r = None) -> (forall c t, b = c :: t -> (c =? s3_path_sep) = false) ->
  split1 (lstrip_sep (s3_path_sep :: join1 b r)) = (b, r).
Proof.
  intros b r Hb He Hh. cbn [lstrip_sep]. rewrite Z.eqb_refl.
  destruct b as [|c t].
  - rewrite (He eq_refl). reflexivity.
  - assert (Hc := Hh c t eq_refl).
    destruct r as [k|]; cbn [join1].
    + change ((c :: t) ++ s3_path_sep :: k) with (c :: t ++ s3_path_sep :: k). rewrite lstrip_id by exact Hc.
      change (c :: t ++ s3_path_sep :: k) with ((c :: t) ++ s3_path_sep :: k). apply split1_app. exact Hb.
    + rewrite lstrip_id by exact Hc. apply split1_nosep. exact Hb.
Qed.

(* the parts of a stripped path: empty first component only when there is nothing at all *)
Lemma stripped_parts : forall p, let b := fst (split1 (lstrip_sep p)) in let r := snd (split1 (lstrip_sep p)) in
  (b = [] -> r = None) /\ (forall c t, b = c :: t -> (c =? s3_path_sep) = false).
Proof.
  intro p. cbv zeta. destruct (lstrip_head p) as [E|[c [t [E Hc]]]]; rewrite E.
  - cbn. split; [reflexivity|discriminate].
  - cbn [split1]. rewrite Hc. destruct (split1 t) as [a r]. cbn. split; [discriminate|].
    intros c' t' H. inversion H; subst. exact Hc.
Qed.

Lemma bucket_of_normalise : forall p, bucket_of (normalise p) = dash (bucket_of p).
Proof.
  intro p. rewrite normalise_form. unfold bucket_of at 1.
  destruct (stripped_parts p) as [He Hh].
  rewrite split1_of_normal; [reflexivity| | |].
  - apply dash_nosep. apply split1_fst_nosep.
  - intro H. apply He. unfold bucket_of in H. destruct (fst (split1 (lstrip_sep p))); [reflexivity|discriminate H].
  - intros c t H. unfold bucket_of in H. destruct (fst (split1 (lstrip_sep p))) as [|c0 t0] eqn:E; [discriminate H|].
    destruct (dash_head c0 t0 (Hh c0 t0 eq_refl)) as [c' [t' [D Hc']]]. rewrite D in H. inversion H; subst. exact Hc'.
Qed.

Lemma rest_of_normalise : forall p, snd (split1 (lstrip_sep (normalise p))) = snd (split1 (lstrip_sep p)).
Proof.
  intro p. rewrite normalise_form. destruct (stripped_parts p) as [He Hh].
  rewrite split1_of_normal; [reflexivity| | |].
  - apply dash_nosep. apply split1_fst_nosep.
  - intro H. apply He. unfold bucket_of in H. destruct (fst (split1 (lstrip_sep p))); [reflexivity|discriminate H].
  - intros c t H. unfold bucket_of in H. destruct (fst (split1 (lstrip_sep p))) as [|c0 t0] eqn:E; [discriminate H|].
    destruct (dash_head c0 t0 (Hh c0 t0 eq_refl)) as [c' [t' [D Hc']]]. rewrite D in H. inversion H; subst. exact Hc'.
Qed.

Lemma normalise_idem : forall p, normalise (normalise p) = normalise p.
Proof.
  intro p. rewrite (normalise_form (normalise p)), bucket_of_normalise, rest_of_normalise, dash_dash.
  symmetry. apply normalise_form.
Qed.

Lemma bucket_no_underscore : forall p, forallb (fun c => negb (c =? s3_bucket_from)) (bucket_of (normalise p)) = true.
Proof. intro p. rewrite bucket_of_normalise. apply dash_no_underscore. Qed.

(* the object key is untouched *)
Lemma key_untouched : forall b k c t, b = c :: t -> nosep b = true ->
  normalise (s3_path_sep :: b ++ s3_path_sep :: k) = s3_path_sep :: dash b ++ s3_path_sep :: k.
Proof.
  intros b k c t E Hb. unfold normalise. cbn [lstrip_sep]. rewrite Z.eqb_refl.
  assert (Hc : (c =? s3_path_sep) = false).
  { subst b. cbn in Hb. apply andb_true_iff in Hb as [Hc _]. apply negb_true_iff in Hc. exact Hc. }
  subst b. change ((c :: t) ++ s3_path_sep :: k) with (c :: t ++ s3_path_sep :: k). rewrite lstrip_id by exact Hc.
  change (c :: t ++ s3_path_sep :: k) with ((c :: t) ++ s3_path_sep :: k). rewrite (split1_app (c :: t) k Hb).
  reflexivity.
Qed.

(* a bucket without underscores: the whole path is untouched *)
Lemma dash_id : forall b, forallb (fun c => negb (c =? s3_bucket_from)) b = true -> dash b = b.
Proof.
  unfold dash. induction b as [|c t IH]; intro H; [reflexivity|]. cbn [map forallb] in *. apply andb_true_iff in H as [Hc Ht].
  apply negb_true_iff in Hc. rewrite Hc, (IH Ht). reflexivity.
Qed.
