(* C07: lemmas about Model/ChunksMulti.v -- .npy objects and memory layouts, several put/get graphs in one compute. *)
From Coq Require Import ZArith List Bool Lia.
From KV Require Import Base.Sx Gen.Generated Model.Chunks Model.ChunksMulti Proofs.ChunksP Proofs.ChunksRtP Proofs.ChunksTopP.
Import ListNotations.
Open Scope Z_scope.

(* ------------------------------------------------------------------------------------------------ *)
(* facts read off the source at this run                                                               *)

Lemma npy_order_c : cs_npy_order_c = true.
Proof. reflexivity. Qed.

Lemma putname_flags : cs_putname_store = true /\ cs_putname_name = true /\ cs_putname_offset = true.
Proof. repeat split; reflexivity. Qed.

Lemma getname_flags : cs_getname_store = true /\ cs_getname_name = true /\ cs_getname_offset = true
  /\ cs_getname_chunks = true /\ cs_getname_dtype = true /\ cs_getname_index = true.
Proof. repeat split; reflexivity. Qed.

(* ------------------------------------------------------------------------------------------------ *)
(* (1) .npy objects                                                                                    *)

Lemma mu_Forall2_rev {X Y} (R : X -> Y -> Prop) l1 l2 : Forall2 R l1 l2 -> Forall2 R (rev l1) (rev l2).
Proof.
  induction 1 as [|x y l1 l2 Hxy H IH]; [constructor|]. cbn [rev].
  apply Forall2_app; [exact IH|]. constructor; [exact Hxy|constructor].
Qed.

Lemma in_enumerate_f shape q : In q (enumerate_f shape) <-> In q (enumerate shape).
Proof.
  unfold enumerate_f. rewrite in_map_iff. split.
  - intros [p [<- Hp]]. apply in_enumerate in Hp. apply in_enumerate.
    apply mu_Forall2_rev in Hp. rewrite rev_involutive in Hp. exact Hp.
  - intros Hq. exists (rev q). split; [apply rev_involutive|].
    apply in_enumerate. apply mu_Forall2_rev. apply in_enumerate. exact Hq.
Qed.

Lemma in_listing fo shape q : In q (listing fo shape) <-> In q (enumerate shape).
Proof. destruct fo; cbn [listing]; [apply in_enumerate_f|tauto]. Qed.

Lemma npy_foreign_decode {A} (d : A) elem shape fo q :
  In q (enumerate shape) -> npy_decode d (npy_foreign elem shape fo) q = elem q.
Proof.
  intros Hq. unfold npy_decode, npy_foreign. apply rt_nth_index_of_map. apply in_listing. exact Hq.
Qed.

Lemma npy_encode_decode {A} (d : A) elem shape lay q :
  In q (enumerate shape) -> npy_decode d (npy_encode elem shape lay) q = elem q.
Proof.
  intros Hq. unfold npy_encode, normalise_layout. rewrite npy_order_c. cbn [header_fortran].
  apply (npy_foreign_decode d elem shape false q Hq).
Qed.

(* the header always says C order *)
Lemma npy_encode_c_order {A} (elem : list Z -> A) shape lay :
  npy_encode elem shape lay = NpyObj false shape (map elem (enumerate shape)).
Proof. unfold npy_encode, normalise_layout. rewrite npy_order_c. reflexivity. Qed.

(* ------------------------------------------------------------------------------------------------ *)
(* (2) stores of a world                                                                               *)

Lemma wget_nil {A} i : @wget A [] i = [].
Proof. unfold wget. destruct i; reflexivity. Qed.

Lemma wget_wset_same {A} : forall i (w : world A) s, wget (wset w i s) i = s.
Proof.
  induction i as [|i IH]; intros w s; destruct w as [|h t]; cbn [wset]; try reflexivity.
  - unfold wget. cbn [nth]. apply IH.
  - unfold wget. cbn [nth]. apply IH.
Qed.

Lemma wget_wset_other {A} : forall i j (w : world A) s, i <> j -> wget (wset w i s) j = wget w j.
Proof.
  induction i as [|i IH]; intros j w s Hne; destruct w as [|h t]; destruct j as [|j]; try congruence;
    cbn [wset]; unfold wget; cbn [nth]; try reflexivity.
  - destruct j; reflexivity.
  - fold (wget (wset [] i s) j). rewrite IH by congruence. rewrite wget_nil. destruct j; reflexivity.
  - fold (wget (wset t i s) j). rewrite IH by congruence. reflexivity.
Qed.

(* ------------------------------------------------------------------------------------------------ *)
(* one part: stored blocks and reading them                                                            *)

Section Part.
Context {A : Type}.

Definition part_wf (chunks : list (list Z)) (off : list Z) : Prop :=
  chunks_wf chunks /\ (off = [] \/ length off = length chunks).

(* every block of the part is in the store under its name *)
Definition stored (st : store A) (arr : str) (dt : Z) (f : list Z -> A) (chunks : list (list Z)) (off : list Z) : Prop :=
  forall b, In b (blocks chunks) -> lookup (rt_key arr off b) st = Some (rt_val f dt b).

Lemma mu_block_len chunks b : In b (blocks chunks) -> length b = length chunks.
Proof. intros Hb. unfold blocks in Hb. apply rt_cart_length in Hb. rewrite map_length in Hb. auto. Qed.

Lemma mu_good chunks off : part_wf chunks off -> Forall (rt_good off) (blocks chunks).
Proof.
  intros [_ Hoff]. apply Forall_forall. intros b Hb. unfold rt_good, rt_sh. destruct off as [|o u]; [reflexivity|].
  apply rt_shape_add_offset. destruct Hoff as [E|E]; [discriminate|]. rewrite E, (mu_block_len chunks); auto.
Qed.

Lemma mu_get_slices chunks off b : part_wf chunks off -> In b (blocks chunks) -> get_slices off b = rt_sh off b.
Proof.
  intros [_ Hoff] Hb. unfold get_slices, rt_sh. destruct off as [|o u]; [reflexivity|].
  destruct (existsb (fun o0 => negb (o0 =? 0)) (o :: u)) eqn:E; [reflexivity|].
  symmetry. apply rt_add_offset_zeros; auto.
  destruct Hoff as [E'|E']; [discriminate|]. rewrite E', (mu_block_len chunks); auto.
Qed.

Lemma mu_nodup_keys arr chunks off : part_wf chunks off -> NoDup (map (rt_key arr off) (blocks chunks)).
Proof.
  intros [Hwf Hoff].
  apply (rt_NoDup_map_rel (rt_key arr off) (map fst)); [|apply rt_NoDup_block_starts; auto].
  intros b1 b2 Hb1 Hb2 E. unfold rt_key, chunk_key in E. apply app_inv_tail in E. apply name_inj_arr in E.
  unfold rt_sh in E. destruct off as [|o u]; [auto|].
  destruct Hoff as [E'|E']; [discriminate|].
  apply rt_fst_add_offset_inj in E; auto; rewrite E', (mu_block_len chunks); auto.
Qed.

(* reading: ANY store that holds every block of the chunking under its name gives the array back *)
Lemma read_of_stored (d : A) miss st arr dt f chunks off :
  part_wf chunks off -> stored st arr dt f chunks off ->
  get_array d miss st arr dt chunks off = Ok (map f (enumerate (chunks_shape chunks))).
Proof.
  intros Hp Hst. pose proof (mu_good chunks off Hp) as Hgood. destruct Hp as [Hwf Hoff].
  unfold get_array. rewrite (rt_fetch_ok f).
  2:{ intros b Hb. apply rt_get_ok.
      - apply (mu_get_slices chunks); [split|]; auto.
      - rewrite Forall_forall in Hgood. auto.
      - apply Hst. auto. }
  f_equal. apply map_ext_in. intros p Hpt.
  apply rt_cover in Hpt; [|apply rt_wf_nonneg; auto].
  apply (rt_find_blocks (fun b => (slice_shape b, extract f b))) in Hpt.
  destruct Hpt as [b' [Hc Hf]]. unfold read_point. rewrite Hf.
  apply rt_chunk_at_extract. auto.
Qed.

Lemma put_stores (st : store A) arr dt (f : list Z -> A) chunks off :
  part_wf chunks off -> stored (fst (put_array st arr dt f chunks off)) arr dt f chunks off.
Proof.
  intros Hp b Hb. unfold put_array. apply rt_put_blocks_lookup; auto.
  - apply (mu_good chunks); auto.
  - apply mu_nodup_keys; auto.
Qed.

Lemma put_frame (st : store A) arr dt (f : list Z -> A) chunks off k :
  part_wf chunks off -> ~ In k (map (rt_key arr off) (blocks chunks)) ->
  lookup k (fst (put_array st arr dt f chunks off)) = lookup k st.
Proof. intros Hp Hk. unfold put_array. apply rt_put_blocks_other; auto. apply (mu_good chunks); auto. Qed.

Lemma put_all_ok (st : store A) arr dt (f : list Z -> A) chunks off :
  part_wf chunks off -> Forall (fun r => r = None) (snd (put_array st arr dt f chunks off)).
Proof. intros Hp. unfold put_array. apply rt_put_blocks_res. apply (mu_good chunks); auto. Qed.

End Part.

(* ------------------------------------------------------------------------------------------------ *)
(* several puts in one compute                                                                         *)

Section MultiPut.
Context {A : Type}.

Definition req_wf (r : preq A) : Prop := part_wf (q_chunks r) (q_off r).
Definition req_stored (w : world A) (r : preq A) : Prop :=
  stored (wget w (q_store r)) (q_arr r) (q_dt r) (q_f r) (q_chunks r) (q_off r).
Definition req_id (r : preq A) : nat * str * list Z := (q_store r, q_arr r, q_off r).

Lemma block_key_rt arr off b : block_key arr off b = rt_key arr off b.
Proof. reflexivity. Qed.

Lemma exec_stores (w : world A) r : req_wf r -> req_stored (exec_put w r) r.
Proof. intros H. unfold req_stored, exec_put. rewrite wget_wset_same. apply put_stores. exact H. Qed.

Lemma exec_keeps (w : world A) r r' : req_wf r' -> disjoint (targets r) (targets r') ->
  req_stored w r -> req_stored (exec_put w r') r.
Proof.
  intros Hwf Hd Hs. unfold req_stored, exec_put.
  destruct (Nat.eq_dec (q_store r') (q_store r)) as [E|E].
  - rewrite E, wget_wset_same. intros b Hb. rewrite <- E. rewrite put_frame; auto.
    + rewrite E. apply Hs. exact Hb.
    + intros Hin. apply (Hd (q_store r, rt_key (q_arr r) (q_off r) b)).
      * unfold targets. apply in_map_iff. exists b. split; [reflexivity|exact Hb].
      * unfold targets. apply in_map_iff. apply in_map_iff in Hin. destruct Hin as [b' [Hk Hb']].
        exists b'. split; [|exact Hb']. rewrite block_key_rt, Hk, E. reflexivity.
  - rewrite wget_wset_other by exact E. exact Hs.
Qed.

Lemma fold_keeps : forall (rest : list (preq A)) (w : world A) r, Forall req_wf rest -> Forall (fun r' => disjoint (targets r) (targets r')) rest ->
  req_stored w r -> req_stored (fold_left exec_put rest w) r.
Proof.
  induction rest as [|r' t IH]; intros w r Hwf Hd Hs; [exact Hs|].
  inversion Hwf; subst. inversion Hd; subst. cbn [fold_left]. apply IH; auto. apply exec_keeps; auto.
Qed.

Lemma disjoint_sym {T} (a b : list T) : disjoint a b -> disjoint b a.
Proof. intros H x Hb Ha. exact (H x Ha Hb). Qed.

Lemma fold_stores : forall (reqs : list (preq A)) (w : world A), Forall req_wf reqs ->
  pairwise (fun a b => disjoint (targets a) (targets b)) reqs ->
  forall r, In r reqs -> req_stored (fold_left exec_put reqs w) r.
Proof.
  induction reqs as [|a t IH]; intros w Hwf Hp r Hr; [destruct Hr|].
  inversion Hwf; subst. destruct Hp as [Ha Ht]. cbn [fold_left]. destruct Hr as [<-|Hr].
  - apply fold_keeps; auto. apply exec_stores; auto.
  - apply IH; auto.
Qed.

Lemma put_layer_neq (a b : preq A) : req_id a <> req_id b -> put_layer a <> put_layer b.
Proof.
  destruct putname_flags as [F1 [F2 F3]].
  intros Hne E. apply Hne. unfold put_layer in E. rewrite F1, F2, F3 in E. cbn [opt_if] in E.
  unfold req_id. inversion E. reflexivity.
Qed.

Lemma run_puts_fold : forall (reqs : list (preq A)) seen (w : world A),
  (forall r, In r reqs -> ~ In (put_layer r) seen) ->
  pairwise (fun a b => put_layer a <> put_layer b) reqs ->
  run_puts seen w reqs = fold_left exec_put reqs w.
Proof.
  induction reqs as [|a t IH]; intros seen w Hs Hp; [reflexivity|].
  destruct Hp as [Ha Ht]. cbn [run_puts fold_left].
  destruct (in_dec pkey_eq_dec (put_layer a) seen) as [Hin|_].
  - exfalso. apply (Hs a); [left; reflexivity|exact Hin].
  - apply IH; auto. intros r Hr [E|Hin].
    + rewrite Forall_forall in Ha. apply (Ha r Hr). exact E.
    + apply (Hs r); [right; exact Hr|exact Hin].
Qed.

Lemma pairwise_impl {T} (R S : T -> T -> Prop) : (forall a b, R a b -> S a b) ->
  forall l, pairwise R l -> pairwise S l.
Proof.
  intros H. induction l as [|x t IH]; intros Hp; [constructor|]. destruct Hp as [Hx Ht]. split; [|auto].
  eapply Forall_impl; [|exact Hx]. intros b. apply H.
Qed.

(* every part put in ONE compute call is afterwards stored in its store *)
Lemma multi_put_stored (w : world A) reqs :
  Forall req_wf reqs ->
  pairwise (fun a b => req_id a <> req_id b) reqs ->
  pairwise (fun a b => disjoint (targets a) (targets b)) reqs ->
  forall r, In r reqs -> req_stored (compute_puts w reqs) r.
Proof.
  intros Hwf Hid Hd r Hr. unfold compute_puts. rewrite run_puts_fold.
  - apply fold_stores; auto.
  - intros r0 _ [].
  - eapply pairwise_impl; [|exact Hid]. apply put_layer_neq.
Qed.

Lemma multi_put_read (d : A) miss (w : world A) reqs :
  Forall req_wf reqs ->
  pairwise (fun a b => req_id a <> req_id b) reqs ->
  pairwise (fun a b => disjoint (targets a) (targets b)) reqs ->
  forall r, In r reqs ->
  get_array d miss (wget (compute_puts w reqs) (q_store r)) (q_arr r) (q_dt r) (q_chunks r) (q_off r)
    = Ok (map (q_f r) (enumerate (chunks_shape (q_chunks r)))).
Proof.
  intros Hwf Hid Hd r Hr. apply read_of_stored.
  - rewrite Forall_forall in Hwf. apply Hwf. exact Hr.
  - apply multi_put_stored; auto.
Qed.

End MultiPut.

(* ------------------------------------------------------------------------------------------------ *)
(* several gets in one compute                                                                         *)

Section MultiGet.
Context {A : Type}.

Lemma mu_combine_map {X Y W} (g : X -> Y) (h : X -> W) l : combine (map g l) (map h l) = map (fun x => (g x, h x)) l.
Proof. induction l as [|x t IH]; [reflexivity|]. cbn [map combine]. rewrite IH. reflexivity. Qed.

Lemma get_planned_one (d : A) miss (w : world A) r :
  get_planned d miss (wget w (g_store r)) (g_arr r) (g_dt r) (gplan r) = get_one d miss w r.
Proof.
  unfold gplan, get_one. destruct (g_index r) as [|i0 ix]; [reflexivity|].
  unfold get_planned, get_array_index. cbn [snd]. rewrite mu_combine_map, map_map. cbn [fst snd]. reflexivity.
Qed.

Lemma get_layer_inj (a b : greq) : get_layer a = get_layer b ->
  g_store a = g_store b /\ g_arr a = g_arr b /\ g_dt a = g_dt b /\ gplan a = gplan b.
Proof.
  destruct getname_flags as [F1 [F2 [F3 [F4 [F5 F6]]]]].
  unfold get_layer. destruct (gplan a) as [[ca ia] oa]. destruct (gplan b) as [[cb ib] ob].
  rewrite F1, F2, F3, F4, F5, F6. cbn [opt_if]. intros E. inversion E. auto.
Qed.

(* the results of several gets evaluated by one compute call are those of the gets evaluated one by one *)
Lemma compute_gets_spec (d : A) miss (w : world A) reqs :
  compute_gets d miss w reqs = map (get_one d miss w) reqs.
Proof.
  unfold compute_gets. apply map_ext. intros r.
  destruct (find (same_layer (get_layer r)) reqs) as [r'|] eqn:E; [|apply get_planned_one].
  apply find_some in E. destruct E as [_ E]. unfold same_layer in E.
  destruct (gkey_eq_dec (get_layer r') (get_layer r)) as [K|]; [|discriminate].
  apply get_layer_inj in K. destruct K as [K1 [K2 [K3 K4]]]. rewrite K1, K2, K3, K4. apply get_planned_one.
Qed.

Lemma multi_part_round_trip (d : A) miss (w : world A) (reqs : list (preq A)) :
  Forall req_wf reqs ->
  pairwise (fun a b => req_id a <> req_id b) reqs ->
  pairwise (fun a b => disjoint (targets a) (targets b)) reqs ->
  compute_gets d miss (compute_puts w reqs) (map greq_of reqs)
    = map (fun r => Ok (map (q_f r) (enumerate (chunks_shape (q_chunks r))))) reqs.
Proof.
  intros Hwf Hid Hd. rewrite compute_gets_spec, map_map. apply map_ext_in. intros r Hr.
  unfold get_one, greq_of. cbn [g_index g_store g_arr g_dt g_chunks g_off].
  apply multi_put_read; auto.
Qed.

End MultiGet.

(* ------------------------------------------------------------------------------------------------ *)
(* statements as exported by Props/C07.v (hypotheses spelled out)                                      *)

Lemma npy_layout_top : forall (A : Type) (d : A) (elem : list Z -> A) (shape : list Z) (lay : layout),
  npy_encode elem shape lay = NpyObj false shape (map elem (enumerate shape))
  /\ forall q, In q (enumerate shape) -> npy_decode d (npy_encode elem shape lay) q = elem q.
Proof. intros. split; [apply npy_encode_c_order|]. intros q Hq. apply npy_encode_decode. exact Hq. Qed.

Lemma npy_foreign_top : forall (A : Type) (d : A) (elem : list Z -> A) (shape : list Z) (fortran : bool) q,
  In q (enumerate shape) -> npy_decode d (npy_foreign elem shape fortran) q = elem q.
Proof. intros. apply npy_foreign_decode. assumption. Qed.

Lemma read_of_stored_top : forall (A : Type) (d : A) (miss : option A) (st : store A) (arr : str) (dt : Z)
    (f : list Z -> A) (chunks : list (list Z)) (off : list Z),
  Forall (fun cs => Forall (fun c => 0 < c) cs \/ cs = [0]) chunks ->
  (off = [] \/ List.length off = List.length chunks) ->
  (forall b, In b (blocks chunks) ->
     lookup (block_key arr off b) st = Some (OChunk dt (slice_shape b) (extract f b))) ->
  get_array d miss st arr dt chunks off = Ok (map f (enumerate (chunks_shape chunks))).
Proof. intros A d miss st arr dt f chunks off Hwf Hoff Hst. apply read_of_stored; [split; assumption|exact Hst]. Qed.

Lemma put_frame_top : forall (A : Type) (st : store A) (arr : str) (dt : Z) (f : list Z -> A)
    (chunks : list (list Z)) (off : list Z) k,
  Forall (fun cs => Forall (fun c => 0 < c) cs \/ cs = [0]) chunks ->
  (off = [] \/ List.length off = List.length chunks) ->
  ~ In k (map (block_key arr off) (blocks chunks)) ->
  lookup k (fst (put_array st arr dt f chunks off)) = lookup k st.
Proof. intros A st arr dt f chunks off k Hwf Hoff Hk. apply put_frame; [split; assumption|exact Hk]. Qed.

Lemma multi_part_top : forall (A : Type) (d : A) (miss : option A) (w : world A) (reqs : list (preq A)),
  Forall (fun r => Forall (fun cs => Forall (fun c => 0 < c) cs \/ cs = [0]) (q_chunks r)
                   /\ (q_off r = [] \/ List.length (q_off r) = List.length (q_chunks r))) reqs ->
  pairwise (fun a b => (q_store a, q_arr a, q_off a) <> (q_store b, q_arr b, q_off b)) reqs ->
  pairwise (fun a b => disjoint (targets a) (targets b)) reqs ->
  compute_gets d miss (compute_puts w reqs) (map greq_of reqs)
    = map (fun r => Ok (map (q_f r) (enumerate (chunks_shape (q_chunks r))))) reqs.
Proof. intros A d miss w reqs Hwf Hid Hd. apply multi_part_round_trip; assumption. Qed.

Lemma compute_gets_top : forall (A : Type) (d : A) (miss : option A) (w : world A) (reqs : list greq),
  compute_gets d miss w reqs = map (get_one d miss w) reqs.
Proof. intros. apply compute_gets_spec. Qed.

(* put_dask_array's block -> object mapping: afterwards every dask block is held under the key printed from its
   location (shifted by the offset), with the block's own shape and elements *)
Lemma put_stores_top : forall (A : Type) (st : store A) (arr : str) (dt : Z) (f : list Z -> A)
    (chunks : list (list Z)) (off : list Z) b,
  Forall (fun cs => Forall (fun c => 0 < c) cs \/ cs = [0]) chunks ->
  (off = [] \/ List.length off = List.length chunks) ->
  In b (blocks chunks) ->
  lookup (block_key arr off b) (fst (put_array st arr dt f chunks off)) = Some (OChunk dt (slice_shape b) (extract f b)).
Proof. intros A st arr dt f chunks off b Hwf Hoff Hb. apply (put_stores st arr dt f chunks off); [split; assumption | exact Hb]. Qed.
