(* C10: value equality of array-valued sensors.  ComparableArrayWrapper.__eq__ (model caw_eq_src over the regenerated
   branch condition) says two array values are equal ONLY IF they have the same shape and the same elements, and - for
   NaN-free values of one sensor (no tuple next to a list) - exactly then; the ids the per-dump theorems are about are
   the quotient of the values by that equality. *)
From Coq Require Import ZArith List Bool Lia ZifyBool.
From KV Require Import Base.Sx Gen.Generated Model.SensorToCat Model.SensorToCatSrc Model.SensorToCatValues.
Import ListNotations.
Open Scope Z_scope.

Lemma zlist_eqb_eq a : forall b, zlist_eqb a b = true <-> a = b.
Proof.
  induction a as [|x a IH]; intros [|y b]; simpl; split; intro H; try reflexivity; try discriminate.
  - apply andb_true_iff in H. destruct H as [H1 H2]. f_equal; [lia|apply IH; exact H2].
  - inversion H; subst. rewrite Z.eqb_refl. simpl. apply IH. reflexivity.
Qed.
Lemma zlist_eqb_refl a : zlist_eqb a a = true.
Proof. apply zlist_eqb_eq. reflexivity. Qed.

Definition nan_free_l (l : list Z) : bool := forallb (fun x => negb (x =? nan_code)) l.

Lemma data_eq_spec a : forall b, data_eq a b = true <-> a = b /\ nan_free_l a = true.
Proof.
  induction a as [|x a IH]; intros [|y b]; simpl; split; intro H; try (split; reflexivity); try discriminate;
    try (destruct H; discriminate); try reflexivity.
  - apply andb_true_iff in H. destruct H as [H1 H2]. unfold elem_eq in H1. apply andb_true_iff in H1. destruct H1 as [H1 H3].
    apply IH in H2. destruct H2 as [H2 H4]. split; [f_equal; [lia|exact H2]|]. rewrite H3, H4. reflexivity.
  - destruct H as [H1 H2]. inversion H1; subst. apply andb_true_iff in H2. destruct H2 as [H2 H3].
    unfold elem_eq. rewrite Z.eqb_refl, H2. simpl. apply IH. split; [reflexivity|exact H3].
Qed.

Lemma data_eq_nan_free a b : nan_free_l a = true -> data_eq a b = zlist_eqb a b.
Proof.
  intro H. destruct (zlist_eqb a b) eqn:E.
  - apply zlist_eqb_eq in E. subst b. apply data_eq_spec. split; [reflexivity|exact H].
  - destruct (data_eq a b) eqn:E2; [|reflexivity]. apply data_eq_spec in E2. destruct E2 as [E2 _]. subst b.
    rewrite zlist_eqb_refl in E. discriminate.
Qed.

Lemma array_equal_iff a b : array_equal a b = true <->
  arr_shape a = arr_shape b /\ wdata a = wdata b /\ nan_free a = true.
Proof.
  unfold array_equal, nan_free. rewrite andb_true_iff, zlist_eqb_eq, data_eq_spec. unfold nan_free_l. tauto.
Qed.

(* EQUAL ARRAY VALUES HAVE THE SAME SHAPE AND THE SAME ELEMENTS (what a broadcasting comparison would break) *)
Lemma caw_eq_arrays a b : is_nd a || is_nd b = true -> caw_eq_src a b = true ->
  arr_shape a = arr_shape b /\ wdata a = wdata b /\ nan_free a = true.
Proof. unfold caw_eq_src, c10_eq_as_arrays. intros H E. rewrite H in E. apply array_equal_iff. exact E. Qed.

(* a value containing NaN is equal to nothing, not even to itself *)
Lemma caw_eq_nan a b : nan_free a = false -> caw_eq_src a b = false.
Proof.
  intro H. unfold caw_eq_src. destruct (c10_eq_as_arrays (is_nd a) (is_nd b)).
  - destruct (array_equal a b) eqn:E; [|reflexivity]. apply array_equal_iff in E. destruct E as [_ [_ E]]. congruence.
  - unfold py_eq. destruct (wk a), (wk b); try reflexivity;
      (destruct (data_eq (wdata a) (wdata b)) eqn:E; [|reflexivity]; apply data_eq_spec in E; destruct E as [_ E];
       unfold nan_free in H; unfold nan_free_l in E; congruence).
Qed.

Lemma zlist_len_shape (a b : list Z) : zlist_eqb a b = true -> zlist_eqb [Z.of_nat (length a)] [Z.of_nat (length b)] = true.
Proof. intro H. apply zlist_eqb_eq in H. subst. apply zlist_eqb_refl. Qed.

(* for NaN-free values of one sensor the code's equality IS "same shape and same elements" *)
Lemma caw_eq_is_arr_eqb a b : compatible a b = true -> nan_free a = true -> caw_eq_src a b = arr_eqb a b.
Proof.
  intros Hc Hn. unfold caw_eq_src, c10_eq_as_arrays, array_equal, py_eq, arr_eqb, arr_shape, is_nd, compatible in *.
  unfold nan_free in Hn. fold (nan_free_l (wdata a)) in Hn.
  rewrite (data_eq_nan_free _ (wdata b) Hn).
  destruct (wk a), (wk b); cbn [orb]; try reflexivity; try discriminate;
    try (destruct (zlist_eqb (wdata a) (wdata b)) eqn:E; [rewrite (zlist_len_shape _ _ E); reflexivity|rewrite andb_false_r; reflexivity]);
    try (cbn [zlist_eqb]; reflexivity).
Qed.

Lemma arr_eqb_refl a : arr_eqb a a = true.
Proof. unfold arr_eqb. rewrite !zlist_eqb_refl. reflexivity. Qed.
Lemma arr_eqb_iff a b : arr_eqb a b = true <-> arr_shape a = arr_shape b /\ wdata a = wdata b.
Proof. unfold arr_eqb. rewrite andb_true_iff, !zlist_eqb_eq. tauto. Qed.
Lemma arr_eqb_sym a b : arr_eqb a b = true -> arr_eqb b a = true.
Proof. rewrite !arr_eqb_iff. intros [H1 H2]. split; congruence. Qed.
Lemma arr_eqb_trans a b c : arr_eqb a b = true -> arr_eqb b c = true -> arr_eqb a c = true.
Proof. rewrite !arr_eqb_iff. intros [H1 H2] [H3 H4]. split; congruence. Qed.

(* ---------- the ids are the quotient by the equality ---------- *)
Section Quotient.
Variable eq : wv -> wv -> bool.
Variable u : list wv.
Hypothesis Hrefl : forall x, In x u -> eq x x = true.
Hypothesis Hsym : forall x y, In x u -> In y u -> eq x y = true -> eq y x = true.
Hypothesis Htrans : forall x y z, In x u -> In y u -> In z u -> eq x y = true -> eq y z = true -> eq x z = true.

Lemma first_eq_ext x y l : forall k, (forall z, In z l -> eq z x = eq z y) -> first_eq eq x l k = first_eq eq y l k.
Proof.
  induction l as [|w l IH]; intros k H; [reflexivity|]. simpl. rewrite (H w (or_introl eq_refl)).
  destruct (eq w y); [reflexivity|]. apply IH. intros z Hz. apply H. right. exact Hz.
Qed.

Lemma first_eq_some x l : forall k r, first_eq eq x l k = Some r -> exists w, In w l /\ eq w x = true.
Proof.
  induction l as [|w l IH]; intros k r H; [discriminate|]. simpl in H. destruct (eq w x) eqn:E.
  - exists w. split; [left; reflexivity|exact E].
  - destruct (IH _ _ H) as [w' [H1 H2]]. exists w'. split; [right; exact H1|exact H2].
Qed.

Lemma first_eq_found x l : forall k, In x l -> eq x x = true -> exists r, first_eq eq x l k = Some r.
Proof.
  induction l as [|w l IH]; intros k Hin Hr; [destruct Hin|]. simpl. destruct (eq w x) eqn:E; [eexists; reflexivity|].
  destruct Hin as [->|Hin]; [congruence|]. apply IH; assumption.
Qed.

Lemma first_eq_ge x l : forall k r, first_eq eq x l k = Some r -> k <= r.
Proof.
  induction l as [|w l IH]; intros k r H; [discriminate|]. simpl in H. destruct (eq w x); [inversion H; lia|].
  specialize (IH _ _ H). lia.
Qed.

Lemma first_eq_same x y l : forall k r, first_eq eq x l k = Some r -> first_eq eq y l k = Some r ->
  exists w, In w l /\ eq w x = true /\ eq w y = true.
Proof.
  induction l as [|w l IH]; intros k r H H'; [discriminate|]. simpl in H, H'.
  destruct (eq w x) eqn:E; destruct (eq w y) eqn:E'.
  - exists w. split; [left; reflexivity|split; assumption].
  - inversion H; subst. apply first_eq_ge in H'. lia.
  - inversion H'; subst. apply first_eq_ge in H. lia.
  - destruct (IH _ _ H H') as [w' [H1 H2]]. exists w'. split; [right; exact H1|exact H2].
Qed.

(* two values of the universe get the same id iff the code's equality holds between them *)
Lemma ids_quotient x y i j : In x u -> In y u -> (id_in eq u i x = id_in eq u j y <-> eq x y = true).
Proof.
  intros Hx Hy. unfold id_in.
  destruct (first_eq_found x u 0 Hx (Hrefl x Hx)) as [r Hr]. destruct (first_eq_found y u 0 Hy (Hrefl y Hy)) as [r' Hr'].
  rewrite Hr, Hr'. split.
  - intro H. assert (r = r') by lia. subst r'. destruct (first_eq_same x y u 0 r Hr Hr') as [w [Hw [H1 H2]]].
    apply (Htrans x w y Hx Hw Hy); [apply Hsym; assumption|exact H2].
  - intro H. assert (Hext : first_eq eq x u 0 = first_eq eq y u 0).
    { apply first_eq_ext. intros z Hz. destruct (eq z x) eqn:E1; destruct (eq z y) eqn:E2; try reflexivity.
      - rewrite (Htrans z x y Hz Hx Hy E1 H) in E2. discriminate.
      - rewrite (Htrans z y x Hz Hy Hx E2 (Hsym x y Hx Hy H)) in E1. discriminate. }
    rewrite Hr, Hr' in Hext. inversion Hext. reflexivity.
Qed.
End Quotient.

(* instantiated: NaN-free values of one sensor (no tuple next to a list): same id iff same shape and same elements *)
Lemma value_ids_faithful (u : list wv) :
  (forall x, In x u -> nan_free x = true) -> (forall x y, In x u -> In y u -> compatible x y = true) ->
  forall x y i j, In x u -> In y u ->
  (id_in caw_eq_src u i x = id_in caw_eq_src u j y <-> arr_shape x = arr_shape y /\ wdata x = wdata y).
Proof.
  intros Hn Hc x y i j Hx Hy. rewrite <- arr_eqb_iff.
  rewrite <- (caw_eq_is_arr_eqb x y (Hc x y Hx Hy) (Hn x Hx)).
  apply ids_quotient; try assumption.
  - intros z Hz. rewrite (caw_eq_is_arr_eqb z z (Hc z z Hz Hz) (Hn z Hz)). apply arr_eqb_refl.
  - intros a b Ha Hb. rewrite (caw_eq_is_arr_eqb a b (Hc a b Ha Hb) (Hn a Ha)), (caw_eq_is_arr_eqb b a (Hc b a Hb Ha) (Hn b Hb)).
    apply arr_eqb_sym.
  - intros a b c Ha Hb Hcc. rewrite (caw_eq_is_arr_eqb a b (Hc a b Ha Hb) (Hn a Ha)), (caw_eq_is_arr_eqb b c (Hc b c Hb Hcc) (Hn b Hb)),
      (caw_eq_is_arr_eqb a c (Hc a c Ha Hcc) (Hn a Ha)). apply arr_eqb_trans.
Qed.

(* ================= non-vacuity ================= *)
Definition nd (shape data : list Z) := mk_wv KNd shape data.
Example ex_value_equality :
  (* (1,) vs (4,) with agreeing elements, empty vs one element, 0-d vs (1,), (1,2) vs (2,): all DIFFERENT *)
  caw_eq_src (nd [1] [1]) (nd [4] [1; 1; 1; 1]) = false /\ caw_eq_src (nd [0] []) (nd [1] [7]) = false /\
  caw_eq_src (nd [] [1]) (nd [1] [1]) = false /\ caw_eq_src (nd [1; 2] [1; 1]) (nd [2] [1; 1]) = false /\
  caw_eq_src (mk_wv KNum [] [1]) (nd [1] [1]) = false /\
  (* same shape and elements: equal, whatever the kind of the other side; tuple vs list: Python says different *)
  caw_eq_src (nd [2] [1; 2]) (nd [2] [1; 2]) = true /\ caw_eq_src (nd [2] [1; 2]) (mk_wv KTup [2] [1; 2]) = true /\
  caw_eq_src (nd [] [1]) (mk_wv KNum [] [1]) = true /\
  caw_eq_src (mk_wv KTup [2] [1; 2]) (mk_wv KList [2] [1; 2]) = false /\
  (* NaN: not even equal to itself *)
  caw_eq_src (nd [2] [1; nan_code]) (nd [2] [1; nan_code]) = false.
Proof. vm_compute. repeat split. Qed.

(* the seeded scenario: [1.] then [1.,1.,1.,1.] is a CHANGE of value: both survive the repeat removal *)
Example ex_shape_change_is_not_a_repeat :
  match per_dump_sv [1; 3] [nd [1] [1]; nd [4] [1; 1; 1; 1]] [-1; 1; 3] 2 None [] None with
  | Ok c => cevents c = [0; 2; 3] /\ cat_all_src c = Ok [1; 1; 2]
  | Err => False
  end /\
  (* ... whereas the same array twice is one *)
  match per_dump_sv [1; 3] [nd [4] [1; 1; 1; 1]; nd [4] [1; 1; 1; 1]] [-1; 1; 3] 2 None [] None with
  | Ok c => cevents c = [0; 3] /\ cat_all_src c = Ok [1; 1; 1]
  | Err => False
  end.
Proof. vm_compute. repeat split. Qed.

(* ---------- greedy membership of array-valued sensors (finding F27, repaired) ----------
   sensor_to_categorical wraps the greedy values of a wrapped sensor (statement pinned by item_c10_s2c), so
   `value in greedy_values` is decided by ComparableArrayWrapper.__eq__ with a wrapper on BOTH sides = caw_eq_src, i.e. on
   the ids: a value of the sensor is greedy iff one of the greedy values has the same shape and the same elements. *)
Lemma in_ids_from_elim eq u l : forall j z, In z (ids_from eq u j l) -> exists y k, In y l /\ z = id_in eq u k y.
Proof.
  induction l as [|w l IH]; intros j z H; simpl in H; [destruct H|]. destruct H as [H|H].
  - exists w, j. split; [left; reflexivity|symmetry; exact H].
  - destruct (IH _ _ H) as [y [k [H1 H2]]]. exists y, k. split; [right; exact H1|exact H2].
Qed.
Lemma in_ids_from_intro eq u l : forall j y, In y l -> exists k, In (id_in eq u k y) (ids_from eq u j l).
Proof.
  induction l as [|w l IH]; intros j y H; [destruct H|]. destruct H as [->|H].
  - exists j. left. reflexivity.
  - destruct (IH (j + 1) y H) as [k Hk]. exists k. right. exact Hk.
Qed.

Lemma greedy_by_value (u g : list wv) :
  (forall x, In x u -> nan_free x = true) -> (forall x y, In x u -> In y u -> compatible x y = true) ->
  incl g u -> forall x i j, In x u ->
  (In (id_in caw_eq_src u i x) (ids_from caw_eq_src u j g) <->
   exists y, In y g /\ arr_shape y = arr_shape x /\ wdata y = wdata x).
Proof.
  intros Hn Hc Hg x i j Hx. split.
  - intro H. destruct (in_ids_from_elim _ _ _ _ _ H) as [y [k [Hy E]]]. exists y. split; [exact Hy|].
    apply (value_ids_faithful u Hn Hc x y i k Hx (Hg y Hy)) in E. destruct E as [E1 E2]. split; congruence.
  - intros [y [Hy [E1 E2]]]. destruct (in_ids_from_intro caw_eq_src u g j y Hy) as [k Hk].
    assert (E : id_in caw_eq_src u i x = id_in caw_eq_src u k y).
    { apply (value_ids_faithful u Hn Hc x y i k Hx (Hg y Hy)). split; congruence. }
    rewrite E. exact Hk.
Qed.

(* the F27 witness on structured values: an ndarray greedy value [3, 30] inside dump 1 keeps the dump although a later
   plain value arrives in the same dump (the later value is pushed to dump 2); a greedy value of ANOTHER shape does not *)
Example ex_array_greedy :
  match per_dump_sv [-1; 1; 2] [nd [2] [1; 10]; nd [2] [3; 30]; nd [2] [2; 20]] [-1; 1; 3] 2 None [nd [2] [3; 30]] None with
  | Ok c => cevents c = [0; 1; 2; 3] /\ cat_all_src c = Ok [1; 2; 3]
  | Err => False
  end /\
  match per_dump_sv [-1; 1; 2] [nd [2] [1; 10]; nd [2] [3; 30]; nd [2] [2; 20]] [-1; 1; 3] 2 None [nd [1] [3]] None with
  | Ok c => cevents c = [0; 1; 3] /\ cat_all_src c = Ok [1; 3; 3]
  | Err => False
  end.
Proof. vm_compute. repeat split. Qed.
