(* C17 (third round): proofs about Model/TimeFreqY.v. *)
From Coq Require Import ZArith QArith List Bool String Ascii Lia.
From KV Require Import Base.Sx Base.Str Gen.Generated Model.Interp Model.SensorCache
                       Model.TimeFreq Proofs.TimeFreqP Model.TimeFreqPre Proofs.TimeFreqPreP
                       Model.TimeFreqX Proofs.TimeFreqXP Model.TimeFreqY.
Import ListNotations.
Open Scope Q_scope.

(* ================================================================ (1) dates *)
(* the texts of the source, read by the Gallina calendar, are the numbers the rule is evaluated with (computed by Python's
   calendar.timegm in the translator), and those are the documented UTC midnights *)
Lemma fix_dates_utc :
  map utc_midnight fix_date_texts = map Some fix_dates /\ fix_date_format = "%Y-%m-%d"%string
  /\ map utc_midnight ["2019-02-11"; "2019-03-03"; "2019-03-15"]%string = [Some 1549843200; Some 1551571200; Some 1552608000]%Z.
Proof. repeat split; vm_compute; reflexivity. Qed.

Lemma in_zrange n : forall s k, In k (zrange s n) <-> (s <= k < s + Z.of_nat n)%Z.
Proof.
  induction n as [|n IH]; intros s k; cbn [zrange In].
  - split; [tauto|lia].
  - rewrite IH. lia.
Qed.

Definition all_dates (y0 : Z) (years : nat) : list (Z * Z * Z) :=
  flat_map (fun y => flat_map (fun m => map (fun d => (y, m, d)) (zrange 1 (Z.to_nat (days_in_month y m)))) (zrange 1 12))
           (zrange y0 years).
Definition day_step_ok (ymd : Z * Z * Z) : bool :=
  let '(y, m, d) := ymd in let '(y', m', d') := next_day ymd in
  (days_from_civil y' m' d' =? days_from_civil y m d + 1)%Z.
Lemma calendar_sweep : forallb day_step_ok (all_dates 1970 130) = true.
Proof. vm_compute. reflexivity. Qed.

Lemma days_in_month_pos y m : (28 <= days_in_month y m <= 31)%Z.
Proof. unfold days_in_month. destruct (m =? 2)%Z; [destruct (leap y); lia|]. destruct (_ || _)%bool; lia. Qed.

(* on every day from 1970-01-01 to 2099-12-31 the count advances by exactly one from a day to the next (so it IS the
   number of days since 1970-01-01, and timegm_date the number of seconds to UTC midnight of the date) *)
Lemma calendar_steps y m d : (1970 <= y < 2100)%Z -> valid_date y m d = true ->
  days_from_civil 1970 1 1 = 0%Z /\
  (let '(y', m', d') := next_day (y, m, d) in days_from_civil y' m' d' = days_from_civil y m d + 1)%Z.
Proof.
  intros Hy Hv. split; [reflexivity|].
  unfold valid_date in Hv. rewrite !andb_true_iff in Hv. destruct Hv as ((((_ & M1) & M2) & D1) & D2).
  apply Z.leb_le in M1, M2, D1, D2.
  pose proof calendar_sweep as S. rewrite forallb_forall in S.
  assert (I : In (y, m, d) (all_dates 1970 130)).
  { unfold all_dates. apply in_flat_map. exists y. split; [apply in_zrange; lia|].
    apply in_flat_map. exists m. split; [apply in_zrange; lia|].
    apply in_map_iff. exists d. split; [reflexivity|]. apply in_zrange.
    pose proof (days_in_month_pos y m). lia. }
  specialize (S _ I). unfold day_step_ok in S. destruct (next_day (y, m, d)) as ((y', m'), d').
  apply Z.eqb_eq in S. exact S.
Qed.

(* a zone that has today the standard offset it had on the date reads the date as UTC *)
Lemma legacy_rule_same_offset w c cmc2 cbf4k : legacy_rule w w c cmc2 cbf4k = utc_rule c cmc2 cbf4k.
Proof. unfold legacy_rule, utc_rule, fix_rule. rewrite !Z.add_simpl_r. reflexivity. Qed.

Lemma legacy_midnight_shift wt wn s :
  legacy_midnight wt wn s = option_map (fun u => u + (wt - wn))%Z (utc_midnight s).
Proof. unfold legacy_midnight. destruct (utc_midnight s); cbn [option_map]; [f_equal; lia|reflexivity]. Qed.

(* C17-F2: a process in Africa/Juba (UTC+3 in 2019, UTC+2 now) and a CMC1 capture that started half an hour before
   2019-03-15 UTC: the old reading of the date says "not before", the rule of the repaired code agrees with the table *)
Lemma fix_rule_zone_refuted_before_fix :
  exists wt wn c cmc2 cbf4k,
    legacy_rule wt wn c cmc2 cbf4k <> Qltb c (inject_Z (doc_fix_date cmc2 cbf4k))
    /\ utc_rule c cmc2 cbf4k = Qltb c (inject_Z (doc_fix_date cmc2 cbf4k)).
Proof.
  exists (-10800)%Z, (-7200)%Z, (inject_Z 1552606200), false, false.
  split; [vm_compute; discriminate|apply fix_rule_table].
Qed.

(* the decision is taken on the START OF THE CAPTURE including time_offset, whatever dumps are preselected *)
Lemma correction_closed tm a :
  model_correction tm a ==
  (if Qltb (t_sync tm + t_first tm + t_off tm) (inject_Z (doc_fix_date (t_cmc2 tm) (t_cbf4k tm)))
   then match t_cbf tm with Some c => c | None => 0 end else 0).
Proof.
  unfold model_correction. rewrite time_offset_records. unfold spec_fix_amount, spec_needs_fix.
  assert (E : raw_stamp tm 0 == t_sync tm + t_first tm + t_off tm) by (unfold raw_stamp, inject_Z; ring).
  rewrite (Qltb_compat _ _ _ E). ring.
Qed.

Lemma correction_cases tm a :
  let start := t_sync tm + t_first tm + t_off tm in
  let date := inject_Z (doc_fix_date (t_cmc2 tm) (t_cbf4k tm)) in
  (start < date -> model_correction tm a == match t_cbf tm with Some c => c | None => 0 end) /\
  (date <= start -> model_correction tm a == 0) /\
  model_correction tm a == model_correction tm 0 /\
  (forall i, model_timestamp tm a i == raw_stamp tm (a + i) - model_correction tm a).
Proof.
  cbv zeta. split; [|split; [|split]].
  - intros H. rewrite correction_closed. destruct (Qltb_spec (t_sync tm + t_first tm + t_off tm)
      (inject_Z (doc_fix_date (t_cmc2 tm) (t_cbf4k tm)))); [reflexivity|contradiction].
  - intros H. rewrite correction_closed. destruct (Qltb_spec (t_sync tm + t_first tm + t_off tm)
      (inject_Z (doc_fix_date (t_cmc2 tm) (t_cbf4k tm)))) as [L|_]; [|reflexivity].
    exfalso. exact (Qlt_not_le _ _ L H).
  - rewrite !correction_closed. reflexivity.
  - intros i. rewrite preselect_timestamp. unfold spec_timestamp, model_correction. rewrite time_offset_records. ring.
Qed.

(* ================================================================ (2) sensors *)
Lemma fetch_whole st h : (forall s, In s h -> st <= s_t s) -> fetch_history st h = h.
Proof.
  induction h as [|s h IH]; intros H; cbn [fetch_history filter]; [reflexivity|].
  assert (E : Qle_bool st (s_t s) = true) by (apply Qle_bool_iff, H; left; reflexivity).
  rewrite E. f_equal. apply IH. intros s' I. apply H. right. exact I.
Qed.

Lemma range_start_zero : q_range_start = 0.
Proof. reflexivity. Qed.

Lemma getter_whole_history dt st h : (forall s, In s h -> 0 <= s_t s) -> v4_getter dt st h = mkG dt st h.
Proof. intros H. unfold v4_getter. rewrite fetch_whole; [reflexivity|]. rewrite range_start_zero. exact H. Qed.

(* the shift __init__ applies to the array does not depend on which dumps were preselected (Leibniz) *)
Lemma v_shift_ignores_preselect tm a n m : v_shift (run_v4 tm a n) = v_shift (run_v4 tm 0 m).
Proof.
  unfold run_v4. rewrite ?src_base_closed, ?run_ds_closed. cbn [d_src_cap]. unfold gen_v4_time_prog.
  cbn [fold_left v_step fst snd v_shift v_off v_cap v_start v_end].
  repeat match goal with |- context [v_fix tm ?c] => destruct (v_fix tm c) end;
    cbn [fold_left v_step fst snd v_shift v_off v_cap v_start v_end]; reflexivity.
Qed.

Lemma model_timestamp_shift tm a i : model_timestamp tm a i = model_timestamp tm 0 (a + i).
Proof.
  unfold model_timestamp. rewrite !src_base_closed, (v_shift_ignores_preselect tm a 1 1).
  replace (0 + (a + i))%Z with (a + i)%Z by lia. reflexivity.
Qed.

Lemma skipn_zrange a : forall s n, skipn a (zrange s n) = zrange (s + Z.of_nat a) (n - a).
Proof.
  induction a as [|a IH]; intros s n.
  - cbn [skipn]. replace (s + Z.of_nat 0)%Z with s by lia. replace (n - 0)%nat with n by lia. reflexivity.
  - destruct n as [|n]; cbn [zrange skipn]; [reflexivity|]. rewrite IH.
    replace (s + 1 + Z.of_nat a)%Z with (s + Z.of_nat (S a))%Z by lia. reflexivity.
Qed.
Lemma firstn_zrange k : forall s n, (k <= n)%nat -> firstn k (zrange s n) = zrange s k.
Proof.
  induction k as [|k IH]; intros s n H; [reflexivity|].
  destruct n as [|n]; [lia|]. cbn [zrange firstn]. f_equal. apply IH. lia.
Qed.
Lemma map_zrange_shift {B} (f : Z -> B) a n : forall s, map (fun i => f (a + i)%Z) (zrange s n) = map f (zrange (a + s) n).
Proof.
  induction n as [|n IH]; intros s; cbn [zrange map]; [reflexivity|]. f_equal. rewrite IH.
  replace (a + (s + 1))%Z with (a + s + 1)%Z by lia. reflexivity.
Qed.

(* source.timestamps of the preselected data set ARE entries a..a+n of those of the whole one *)
Lemma ds_stamps_slice tm T a n : (a + n <= T)%nat ->
  ds_stamps tm (Z.of_nat a) (Z.of_nat n) = slice a (a + n) (ds_stamps tm 0 (Z.of_nat T)).
Proof.
  intros H. unfold ds_stamps. rewrite !Nat2Z.id.
  rewrite (map_ext _ (fun i => model_timestamp tm 0 (Z.of_nat a + i)%Z)) by (intros; apply model_timestamp_shift).
  rewrite map_zrange_shift, <- map_slice. f_equal. unfold slice.
  rewrite skipn_zrange, firstn_zrange by lia.
  replace (a + n - a)%nat with n by lia. f_equal. lia.
Qed.

Lemma extract_cut g p a n (l : list Q) :
  extract_sensor g (slice a (a + n) l) p = xres_cut a n (extract_sensor g l p).
Proof.
  unfold extract_sensor. destruct (usable g p) as [|s0 cl].
  - destruct (dummy_value (p_init p) (g_dtype g)) as (dt, dv). unfold finish_dummy.
    destruct (decide_cat p dt); [reflexivity|]. destruct dv; cbn [xres_cut]; try reflexivity; rewrite map_slice; reflexivity.
  - destruct (decide_cat p (g_dtype g)); [reflexivity|].
    destruct (g_dtype g); cbn [xres_cut]; try reflexivity; rewrite map_slice; reflexivity.
Qed.

(* THE THEOREM: any sensor (any history, dtype, status flag, properties) extracted onto the dumps of a data set opened
   with preselect dumps = a:a+n gives what select(dumps = a:a+n) gives on the whole data set *)
Lemma preselect_sensor tm T a n g p : (a + n <= T)%nat ->
  v4_sensor tm (Z.of_nat a) (Z.of_nat n) g p = xres_cut a n (v4_sensor tm 0 (Z.of_nat T) g p).
Proof. intros H. unfold v4_sensor. rewrite (ds_stamps_slice tm T a n H). apply extract_cut. Qed.

Lemma nth_ds_stamps tm a n i : (i < n)%nat ->
  nth i (ds_stamps tm a (Z.of_nat n)) 0 = model_timestamp tm a (Z.of_nat i).
Proof.
  intros H. unfold ds_stamps. rewrite Nat2Z.id.
  rewrite (nth_indep _ 0 (model_timestamp tm a 0%Z)) by (rewrite map_length, length_zrange; exact H).
  rewrite map_nth, nth_zrange by exact H. f_equal.
Qed.

(* ... and for an interpolated (numeric, non-categorical) sensor with at least one usable sample, value i is the
   piecewise-linear interpolation of the WHOLE cleaned history at the timestamp of dump a + i of the capture *)
Lemma preselect_sensor_value tm a n g p : usable g p <> [] -> decide_cat p (g_dtype g) = false ->
  (g_dtype g = DFloat \/ g_dtype g = DInt) ->
  exists vals, v4_sensor tm a (Z.of_nat n) g p = XVals vals /\ List.length vals = n /\
    forall i, (i < n)%nat ->
      nth i vals None = Some (interp_d (nodes_of (usable g p)) (model_timestamp tm a (Z.of_nat i)))
      /\ model_timestamp tm a (Z.of_nat i) == spec_timestamp tm (a + Z.of_nat i).
Proof.
  intros U C D. unfold v4_sensor, extract_sensor. destruct (usable g p) as [|s0 cl] eqn:E; [contradiction|].
  rewrite C.
  exists (map (fun x => Some (interp_d (nodes_of (s0 :: cl)) x)) (ds_stamps tm a (Z.of_nat n))).
  split; [destruct D as [D|D]; rewrite D; reflexivity|].
  split; [unfold ds_stamps; rewrite !map_length, length_zrange, Nat2Z.id; reflexivity|].
  intros i Hi. split; [|apply preselect_timestamp].
  rewrite (nth_indep _ None (Some (interp_d (nodes_of (s0 :: cl)) 0)))
    by (unfold ds_stamps; rewrite !map_length, length_zrange, Nat2Z.id; exact Hi).
  rewrite (map_nth (fun x => Some (interp_d (nodes_of (s0 :: cl)) x))). rewrite nth_ds_stamps by exact Hi. reflexivity.
Qed.

(* it matters that the history is NOT cut to the preselected range: a getter that fetched from the first preselected
   timestamp on would give another value (the sample before the range is needed for the first segment) *)
Definition demo_tm : timing := mkTiming (inject_Z 1600000000) 0 1 0 None false false.
Definition demo_hist : list sample :=
  [mkS (inject_Z 1600000000) 0 ""; mkS (inject_Z 1600000004) 4 ""; mkS (inject_Z 1600000008) 4 ""]%string.
Lemma sensor_history_cut_differs :
  v4_sensor demo_tm 1 2 (v4_getter DFloat false demo_hist) p_empty = XVals [Some (4 # 4); Some (8 # 4)] /\
  v4_sensor demo_tm 1 2 (v4_getter_cut DFloat false (model_timestamp demo_tm 1 0) demo_hist) p_empty
    <> v4_sensor demo_tm 1 2 (v4_getter DFloat false demo_hist) p_empty.
Proof. split; vm_compute; [reflexivity|discriminate]. Qed.

(* ================================================================ (3) a list of files *)
Lemma open_each_ok srcs po : forall ds, open_each srcs po = LOk ds ->
  Forall2 (fun s d => open_v4 s po = ODs d) srcs ds.
Proof.
  induction srcs as [|s r IH]; intros ds H; cbn [open_each] in H.
  - injection H as <-. constructor.
  - destruct (open_v4 s po) as [c|d] eqn:E; [discriminate|].
    destruct (open_each r po) as [c|l] eqn:E2; [discriminate|]. injection H as <-.
    constructor; [exact E|apply IH; reflexivity].
Qed.

Lemma open_each_ok_conv srcs po : forall ds,
  Forall2 (fun s d => open_v4 s po = ODs d) srcs ds -> open_each srcs po = LOk ds.
Proof.
  intros ds F. induction F as [|s d r l E _ IH]; cbn [open_each]; [reflexivity|]. rewrite E, IH. reflexivity.
Qed.

(* the open is refused with code c: some file refuses with c, every file before it opened *)
Lemma open_each_err srcs po c : open_each srcs po = LErr c ->
  exists pre s post ds, srcs = pre ++ s :: post /\ open_each pre po = LOk ds /\ open_v4 s po = OErr c.
Proof.
  induction srcs as [|s r IH]; cbn [open_each]; intros H; [discriminate|].
  destruct (open_v4 s po) as [c'|d] eqn:E.
  - injection H as <-. exists [], s, r, []. split; [reflexivity|split; [reflexivity|exact E]].
  - destruct (open_each r po) as [c'|l] eqn:E2; [|discriminate]. injection H as <-.
    destruct (IH eq_refl) as (pre & s' & post & ds & A & B & C).
    exists (s :: pre), s', post, (d :: ds). split; [rewrite A; reflexivity|split; [|exact C]].
    cbn [open_each]. rewrite E, B. reflexivity.
Qed.

Lemma plookup_not_allowed allowed k p : forallb (key_ok allowed) p = true -> mem_string k allowed = false ->
  plookup k p = None.
Proof.
  intros F M. induction p as [|(k', v) r IH]; [reflexivity|].
  cbn [forallb] in F. apply andb_true_iff in F. destruct F as (F1 & F2). cbn [plookup].
  destruct (String.eqb k k') eqn:E; [|apply IH; exact F2].
  apply String.eqb_eq in E. subst k'. unfold key_ok in F1. cbn [fst] in F1. congruence.
Qed.

Lemma list_keys_no_dumps po : forallb (key_ok open_concat_keys) (the_dict po) = true ->
  plookup "dumps" (the_dict po) = None.
Proof. intros F. apply (plookup_not_allowed open_concat_keys); [exact F|reflexivity]. Qed.

(* a list of files: the SAME preselection reaches every file, in file order; every file keeps ALL its dumps *)
Lemma open_list_every_file srcs po ds : open_list srcs po = LOk ds ->
  forallb (key_ok open_concat_keys) (the_dict po) = true /\
  Forall2 (fun s d => open_v4 s po = ODs d /\ o_a d = 0%Z /\ o_n d = x_T s /\ (0 < x_T s)%Z) srcs ds.
Proof.
  unfold open_list. destruct (forallb _ _) eqn:F; [|discriminate]. intros H. split; [reflexivity|].
  pose proof (open_each_ok _ _ _ H) as A. clear H.
  induction A as [|s d r l E _ IH]; constructor; [|exact IH].
  split; [exact E|]. unfold open_v4 in E.
  destruct (negb (ds_validate po =? 0)%Z); [discriminate|].
  unfold axis_range in E. rewrite (list_keys_no_dumps po F) in E. cbn [fst snd] in E. unfold take_len in E. cbn [fst snd] in E.
  destruct (Z.max (x_T s - 0) 0 <=? 0)%Z eqn:L; [discriminate|]. apply Z.leb_gt in L.
  destruct (match plookup "channels" (the_dict po) with Some v => _ | None => _ end); [|discriminate].
  destruct (x_F s); injection E as <-; cbn [o_a o_n]; lia.
Qed.

Lemma open_list_refused_keys srcs po : forallb (key_ok open_concat_keys) (the_dict po) = false ->
  open_list srcs po = LErr 4.
Proof. intros F. unfold open_list. rewrite F. reflexivity. Qed.

Lemma open_list_single s po : forallb (key_ok open_concat_keys) (the_dict po) = true ->
  open_list [s] po = match open_v4 s po with OErr c => LErr c | ODs d => LOk [d] end.
Proof. intros F. unfold open_list. rewrite F. cbn [open_each]. destruct (open_v4 s po); reflexivity. Qed.

(* files that agree on the frequency attributes get the SAME frequency axis from one preselection, whatever their timing
   and number of dumps (what ConcatenatedDataSet needs to accept them) *)
Lemma open_same_window s1 s2 po d1 d2 :
  x_N s1 = x_N s2 -> x_centre s1 = x_centre s2 -> x_bw s1 = x_bw s2 -> x_F s1 = x_F s2 ->
  open_v4 s1 po = ODs d1 -> open_v4 s2 po = ODs d2 ->
  o_spw d1 = o_spw d2 /\ o_fallback d1 = o_fallback d2.
Proof.
  intros N C B F. unfold open_v4. rewrite N, C, B, F.
  destruct (negb (ds_validate po =? 0)%Z); [discriminate|].
  destruct (take_len (axis_range (x_T s1) (the_dict po) "dumps") <=? 0)%Z; [discriminate|].
  destruct (take_len (axis_range (x_T s2) (the_dict po) "dumps") <=? 0)%Z; [discriminate|].
  destruct (match plookup "channels" (the_dict po) with Some v => _ | None => _ end); [|discriminate].
  destruct (x_F s2); intros E1 E2; injection E1 as <-; injection E2 as <-; split; reflexivity.
Qed.
