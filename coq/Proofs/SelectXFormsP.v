(* C02, extended model: the surface forms of the criteria (strings, sequences, degenerate index forms) and the
   public attributes derived from the masks. *)
From Coq Require Import ZArith List Bool String Ascii Lia Permutation PeanoNat Sorted.
From KV Require Import Base.Sx Base.Str Base.SelSlice Gen.Generated Model.Select Model.SelectX
  Proofs.SelectBaseP Proofs.SelectP Proofs.SelectCritP Proofs.SelectXP.
Import ListNotations.
Open Scope Z_scope.

(* ================================================================ strings *)
Lemma append_nil_r : forall s : string, append s EmptyString = s.
Proof. induction s; simpl; congruence. Qed.

Lemma srev_app_spec : forall x a b, srev_app (srev_app x a) b = srev_app a (append x b).
Proof. induction x as [|c x IH]; intros a b; simpl; [reflexivity|]. rewrite IH. reflexivity. Qed.

Lemma srev_involutive : forall x, srev (srev x) = x.
Proof. intro x. unfold srev. rewrite srev_app_spec. simpl. apply append_nil_r. Qed.

(* no occurrence of the separator *)
Fixpoint no_char (sep : Z) (s : string) : bool :=
  match s with EmptyString => true | String a t => negb (code a =? sep) && no_char sep t end.

Lemma split_on_aux_app : forall sep a rest cur, no_char sep a = true ->
  split_on_aux sep (append a rest) cur = split_on_aux sep rest (srev_app a cur).
Proof.
  induction a as [|c a IH]; intros rest cur H; simpl in *; [reflexivity|].
  apply andb_true_iff in H. destruct H as [H1 H2]. apply negb_true_iff in H1. rewrite H1. apply IH. exact H2.
Qed.

Lemma split_on_single : forall sep a, no_char sep a = true -> split_on sep a = [a].
Proof.
  intros sep a H. unfold split_on. rewrite <- (append_nil_r a) at 1. rewrite (split_on_aux_app sep a _ _ H).
  simpl. change (srev (srev_app a EmptyString)) with (srev (srev a)). rewrite srev_involutive. reflexivity.
Qed.

(* ','.join(items) *)
Fixpoint join (items : list string) : string :=
  match items with
  | [] => EmptyString
  | [x] => x
  | x :: t => append x (String "," (join t))
  end.

Lemma split_on_join : forall items, items <> [] -> forallb (no_char 44) items = true ->
  split_on 44 (join items) = items.
Proof.
  induction items as [|x t IH]; intros Hne H; [congruence|].
  cbn [forallb] in H. apply andb_true_iff in H. destruct H as [Hx Ht].
  destruct t as [|y t']; [apply split_on_single; exact Hx|].
  change (join (x :: y :: t')) with (append x (String "," (join (y :: t')))).
  unfold split_on. rewrite (split_on_aux_app 44 x _ _ Hx). cbn [split_on_aux].
  change (code "," =? 44) with true. cbn iota.
  change (srev (srev_app x EmptyString)) with (srev (srev x)). rewrite srev_involutive.
  f_equal. apply IH; [discriminate | exact Ht].
Qed.

(* a name that _selection_to_list returns unchanged: no comma, no surrounding white space *)
Definition clean (s : string) : bool := no_char 44 s && String.eqb (strip s) s.

(* select(ants='a,b,c') is select(ants=['a', 'b', 'c']) *)
Lemma comma_string_is_list : forall items, items <> [] -> join items <> EmptyString ->
  forallb clean items = true ->
  sel_to_list (XBare (AStr (join items))) = sel_to_list (XSeq (map AStr items)).
Proof.
  intros items Hne Hj H. unfold sel_to_list.
  destruct (join items) as [|c0 s0] eqn:E; [congruence|]. rewrite <- E.
  change sel_list_sep with 44. rewrite split_on_join.
  - f_equal. rewrite map_ext_in with (g := AStr); [reflexivity|].
    intros x Hin. rewrite forallb_forall in H. specialize (H x Hin). unfold clean in H.
    apply andb_true_iff in H. destruct H as [_ H]. apply String.eqb_eq in H. rewrite H. reflexivity.
  - exact Hne.
  - rewrite forallb_forall in *. intros x Hin. specialize (H x Hin). unfold clean in H.
    apply andb_true_iff in H. tauto.
Qed.

Lemma sel_to_list_forms :
  sel_to_list (XBare (AStr EmptyString)) = Some []
  /\ (forall c s, sel_to_list (XBare (AStr (String c s)))
                  = Some (map (fun f => AStr (strip f)) (split_on 44 (String c s))))
  /\ (forall z, sel_to_list (XBare (AInt z)) = Some [AInt z])
  /\ (forall id, sel_to_list (XBare (AObj id)) = Some [AObj id])
  /\ (forall l, sel_to_list (XSeq l) = Some l).
Proof. repeat split. Qed.

(* ---------------------------------------------------------------- ~ and case *)
Lemma elab_scan_forms : forall tbl,
  elab_scan tbl (AStr EmptyString) = None
  /\ (forall n, elab_scan tbl (AStr (String "~" n)) = Some (SNot (id_of tbl n)))
  /\ (forall c n, code c <> 126 -> elab_scan tbl (AStr (String c n)) = Some (SName (id_of tbl (String c n))))
  /\ (forall z, elab_scan tbl (AInt z) = Some (SIdx z)).
Proof.
  intro tbl. repeat split.
  intros c n H. unfold elab_scan. change (py_cmp (fst sel_scan_negation) (code c) (snd sel_scan_negation)) with (code c =? 126).
  apply Z.eqb_neq in H. rewrite H. reflexivity.
Qed.

Lemma lower_ascii_idem : forall a, lower_ascii (lower_ascii a) = lower_ascii a.
Proof. intros [[] [] [] [] [] [] [] []]; reflexivity. Qed.

Lemma lower_idem : forall s, lower (lower s) = lower s.
Proof. induction s as [|a s IH]; simpl; [reflexivity|]. rewrite lower_ascii_idem, IH. reflexivity. Qed.

(* pol is case-insensitive *)
Lemma elab_pol_case : forall s, elab_pol (AStr (lower s)) = elab_pol (AStr s).
Proof. intro s. unfold elab_pol. rewrite lower_idem. reflexivity. Qed.

Lemma elab_pol_examples :
  elab_pol (AStr "H") = Some (POne 0) /\ elab_pol (AStr "v") = Some (POne 1)
  /\ elab_pol (AStr "Hv") = Some (PTwo 0 1) /\ elab_pol (AStr "VH") = Some (PTwo 1 0)
  /\ elab_pol (AStr "") = Some PEmpty /\ elab_pol (AInt 0) = Some PEmpty /\ elab_pol (AInt 3) = None.
Proof. repeat split. Qed.

(* ---------------------------------------------------------------- _is_deselection on strings = on ids *)
Lemma elab_ants_desel : forall tbl l l', elab_ants tbl l = Some l' -> ants_desel l = Some (is_deselection l').
Proof.
  intros tbl l l' H. unfold elab_ants in H. destruct (ants_desel l) as [b|] eqn:D; [|discriminate].
  inversion H; subst l'. clear H. f_equal. revert b D. induction l as [|a l IH]; intros b D.
  - inversion D. reflexivity.
  - destruct a as [[|c r]|z|id]; cbn [ants_desel] in D; try discriminate.
    + change (py_cmp (fst sel_deselection) (code c) (snd sel_deselection)) with (negb (code c =? 126)) in D.
      cbn [map elab_ant]. change (snd sel_deselection) with 126.
      destruct (code c =? 126) eqn:E; cbn [negb] in D.
      * unfold is_deselection. cbn [forallb fst andb]. apply IH. exact D.
      * inversion D. reflexivity.
    + inversion D. reflexivity.
Qed.

(* ================================================================ index forms *)
Lemma nth_zpos_map : forall (f : Z -> bool) n i,
  nth i (map f (zpos n)) false = if (i <? n)%nat then f (Z.of_nat i) else false.
Proof.
  intros f n i. unfold zpos. rewrite map_map.
  destruct (Nat.ltb_spec i n).
  - rewrite (nth_indep _ false (f (Z.of_nat 0))) by (rewrite map_length, seq_length; exact H).
    rewrite (map_nth (fun x => f (Z.of_nat x)) (seq 0 n) 0%nat i). rewrite seq_nth by exact H. reflexivity.
  - apply nth_overflow. rewrite map_length, seq_length. exact H.
Qed.

Lemma map_const_repeat : forall (A : Type) (b : bool) (l : list A), map (fun _ => b) l = repeat b (List.length l).
Proof. induction l; simpl; congruence. Qed.

(* 0-d and one-element masks are broadcast; an empty sequence of indices selects nothing; an integer is the
   one-element list; negative indices count from the end; duplicates and order of an index list are irrelevant *)
Lemma index_forms : forall n,
  (forall b, index_mask n (IxMask [b]) = Some (repeat b n))
  /\ index_mask n (IxList []) = Some (repeat false n)
  /\ (forall z, index_mask n (IxInt z) = index_mask n (IxList [z]))
  /\ (forall k, 1 <= k <= Z.of_nat n -> index_mask n (IxInt (- k)) = index_mask n (IxInt (Z.of_nat n - k)))
  /\ (forall l l', (forall z, In z l <-> In z l') -> index_mask n (IxList l) = index_mask n (IxList l')).
Proof.
  intro n. split; [|split; [|split; [|split]]].
  - intro b. unfold index_mask. destruct n as [|[|n]]; reflexivity.
  - unfold index_mask. cbn [forallb existsb]. rewrite map_const_repeat, length_zpos. reflexivity.
  - intro z. unfold index_mask. cbn [forallb existsb]. rewrite andb_true_r.
    destruct (index_ok (Z.of_nat n) z); [|reflexivity]. f_equal. apply map_ext. intro p. rewrite orb_false_r. reflexivity.
  - intros k Hk. unfold index_mask, index_ok, norm_index.
    assert (E1 : (- Z.of_nat n <=? - k) && (- k <? Z.of_nat n) = true)
      by (apply andb_true_iff; split; [apply Z.leb_le | apply Z.ltb_lt]; lia).
    assert (E2 : (- Z.of_nat n <=? Z.of_nat n - k) && (Z.of_nat n - k <? Z.of_nat n) = true)
      by (apply andb_true_iff; split; [apply Z.leb_le | apply Z.ltb_lt]; lia).
    rewrite E1, E2. f_equal. apply map_ext. intro p.
    assert (E3 : (- k <? 0) = true) by (apply Z.ltb_lt; lia).
    assert (E4 : (Z.of_nat n - k <? 0) = false) by (apply Z.ltb_ge; lia).
    rewrite E3, E4. f_equal. lia.
  - intros l l' H. unfold index_mask.
    assert (E : forallb (index_ok (Z.of_nat n)) l = forallb (index_ok (Z.of_nat n)) l').
    { apply eq_iff_eq_true. rewrite !forallb_forall. split; intros A z Hin; apply A; apply H; exact Hin. }
    rewrite E. destruct (forallb _ l'); [|reflexivity]. f_equal. apply map_ext. intro p.
    apply eq_iff_eq_true. rewrite !existsb_exists. split; intros [z [Hin Hz]]; exists z; split; auto; apply H; exact Hin.
Qed.

(* True is the neutral criterion, False the absorbing one *)
Lemma mand_ones : forall m n, List.length m = n -> mand m (ones n) = m /\ mand m (repeat false n) = repeat false n.
Proof.
  induction m as [|b m IH]; intros n H; subst n; simpl; [split; reflexivity|].
  destruct (IH _ eq_refl) as [A B]. unfold ones in *. rewrite A, B, andb_true_r, andb_false_r. split; reflexivity.
Qed.

(* slice(a, b, c) with a positive step inside the axis keeps a, a + c, a + 2c, ... below b *)
Lemma slice_step : forall n a b c i, 0 <= a <= Z.of_nat n -> 0 <= b <= Z.of_nat n -> 0 < c ->
  exists m, index_mask n (IxSlice (Some a) (Some b) (Some c)) = Some m /\
            (nth i m false = true <-> (i < n)%nat /\ a <= Z.of_nat i < b /\ (Z.of_nat i - a) mod c = 0).
Proof.
  intros n a b c i Ha Hb Hc. unfold index_mask, slice_adjust.
  assert (E0 : (c =? 0) = false) by (apply Z.eqb_neq; lia). rewrite E0.
  assert (En : (c <? 0) = false) by (apply Z.ltb_ge; lia). rewrite En.
  assert (Ea : (a <? 0) = false) by (apply Z.ltb_ge; lia). rewrite Ea.
  assert (Eb : (b <? 0) = false) by (apply Z.ltb_ge; lia). rewrite Eb.
  eexists. split; [reflexivity|]. rewrite nth_zpos_map. unfold in_slice.
  assert (Ep : (0 <? c) = true) by (apply Z.ltb_lt; lia). rewrite Ep.
  destruct (Nat.ltb_spec i n) as [Hi|Hi].
  - rewrite !andb_true_iff, Z.leb_le, Z.ltb_lt, Z.eqb_eq.
    destruct (Z.of_nat n <=? a) eqn:Ca; destruct (Z.of_nat n <=? b) eqn:Cb;
      try apply Z.leb_le in Ca; try apply Z.leb_le in Cb; try apply Z.leb_gt in Ca; try apply Z.leb_gt in Cb;
      split; intros H; repeat split; try tauto; try lia.
  - split; [discriminate | intros [H _]; lia].
Qed.

(* ================================================================ public attributes *)
Lemma keep_incl : forall (A : Type) m (l : list A) x, In x (keep m l) -> In x l.
Proof.
  induction m as [|b m IH]; intros [|y l] x H; simpl in *; try contradiction.
  destruct b; [destruct H; [left; assumption | right; apply IH; assumption] | right; apply IH; assumption].
Qed.

Lemma keep_nth : forall (A : Type) m (l : list A) x, List.length l = List.length m ->
  (In x (keep m l) <-> exists i, nth_error l i = Some x /\ nth i m false = true).
Proof.
  induction m as [|b m IH]; intros [|y l] x L; simpl in *; try discriminate.
  - split; [contradiction | intros [[|i] [H _]]; discriminate].
  - injection L as L. destruct b; simpl.
    + rewrite (IH l x L). split.
      * intros [H|[i [H1 H2]]]; [exists 0%nat; subst; split; reflexivity | exists (S i); split; assumption].
      * intros [[|i] [H1 H2]]; [left; inversion H1; reflexivity | right; exists i; split; assumption].
    + rewrite (IH l x L). split.
      * intros [i [H1 H2]]. exists (S i). split; assumption.
      * intros [[|i] [H1 H2]]; [discriminate | exists i; split; assumption].
Qed.

Lemma length_keep : forall (A : Type) m (l : list A), List.length l = List.length m ->
  Z.of_nat (List.length (keep m l)) = count m.
Proof.
  unfold count. induction m as [|b m IH]; intros [|y l] L; simpl in *; try discriminate; [reflexivity|].
  injection L as L. destruct b; simpl; specialize (IH l L); lia.
Qed.

Lemma keep_sorted : forall (A : Type) (R : A -> A -> Prop) m l, StronglySorted R l -> StronglySorted R (keep m l).
Proof.
  induction m as [|b m IH]; intros [|y l] S; simpl; try constructor.
  inversion S as [|? ? S' F]; subst. destruct b; [|apply IH; exact S'].
  constructor; [apply IH; exact S'|]. rewrite Forall_forall in *. intros x Hin. apply F. eapply keep_incl; eauto.
Qed.

Lemma zpos_sorted : forall n, StronglySorted Z.lt (zpos n).
Proof.
  intro n. unfold zpos. generalize 0%nat. induction n as [|n IH]; intro a; simpl; constructor.
  - apply IH.
  - rewrite Forall_forall. intros x Hin. apply in_map_iff in Hin. destruct Hin as [y [E Hy]]. apply in_seq in Hy. lia.
Qed.

(* d.dumps / d.channels: the positions of the selected dumps / channels, ascending, and as many as shape says *)
Lemma nonzero_spec : forall m,
  StronglySorted Z.lt (nonzero m)
  /\ (forall z, In z (nonzero m) <-> exists i, z = Z.of_nat i /\ nth i m false = true)
  /\ Z.of_nat (List.length (nonzero m)) = count m.
Proof.
  intro m. unfold nonzero. split; [apply keep_sorted, zpos_sorted|]. split.
  - intro z. rewrite keep_nth by apply length_zpos. split.
    + intros [i [H1 H2]]. exists i. split; [|exact H2]. unfold zpos in H1. rewrite nth_error_map in H1.
      destruct (nth_error (seq 0 (List.length m)) i) eqn:E; [|discriminate]. inversion H1.
      pose proof (nth_error_nth _ _ 0%nat E) as E2.
      assert (i < List.length m)%nat by (rewrite <- (seq_length (List.length m) 0); apply nth_error_Some; congruence).
      rewrite seq_nth in E2 by assumption. simpl in E2. subst. reflexivity.
    + intros [i [E H]]. exists i. split; [|exact H]. subst z.
      assert (Hi : (i < List.length m)%nat).
      { destruct (Nat.ltb_spec i (List.length m)); [assumption|]. rewrite nth_overflow in H by assumption. discriminate. }
      unfold zpos. rewrite nth_error_map.
      rewrite (nth_error_nth' _ 0%nat) by (rewrite seq_length; exact Hi). rewrite seq_nth by exact Hi. reflexivity.
  - apply length_keep. apply length_zpos.
Qed.

(* sorted(set(...)) of inputs *)
Definition input_lt (a b : input) : Prop := input_ltb a b = true.

Lemma input_eqb_eq : forall a b, input_eqb a b = true <-> a = b.
Proof.
  intros [a1 a2] [b1 b2]. unfold input_eqb. simpl. rewrite andb_true_iff, !Z.eqb_eq. split; [intros [? ?]; subst; reflexivity|].
  intro H. inversion H. auto.
Qed.

Lemma insert_input_in : forall x l y, In y (insert_input x l) <-> y = x \/ In y l.
Proof.
  induction l as [|z l IH]; intro y; simpl; [intuition|].
  destruct (input_ltb x z); [simpl; intuition|].
  destruct (input_eqb x z) eqn:E; [apply input_eqb_eq in E; subst; simpl; intuition|].
  simpl. rewrite IH. intuition.
Qed.

Lemma input_ltb_trans : forall a b c, input_ltb a b = true -> input_ltb b c = true -> input_ltb a c = true.
Proof.
  intros [a1 a2] [b1 b2] [c1 c2]. unfold input_ltb. simpl.
  rewrite !orb_true_iff, !andb_true_iff, !Z.ltb_lt, !Z.eqb_eq. lia.
Qed.

Lemma input_ltb_total : forall a b, input_ltb a b = false -> input_eqb a b = false -> input_ltb b a = true.
Proof.
  intros [a1 a2] [b1 b2]. unfold input_ltb, input_eqb. simpl.
  rewrite !orb_false_iff, !andb_false_iff, !Z.ltb_ge, !Z.eqb_neq, orb_true_iff, andb_true_iff, !Z.ltb_lt, Z.eqb_eq. lia.
Qed.

Lemma insert_input_sorted : forall x l, StronglySorted input_lt l -> StronglySorted input_lt (insert_input x l).
Proof.
  induction l as [|z l IH]; intro S; simpl; [repeat constructor|].
  inversion S as [|? ? S' F]; subst.
  destruct (input_ltb x z) eqn:L.
  - constructor; [exact S|]. constructor; [exact L|]. rewrite Forall_forall in *. intros y Hy.
    unfold input_lt in *. eapply input_ltb_trans; [exact L | apply F; exact Hy].
  - destruct (input_eqb x z) eqn:E; [exact S|].
    constructor; [apply IH; exact S'|]. rewrite Forall_forall in *. intros y Hy. apply insert_input_in in Hy.
    destruct Hy as [Hy|Hy]; [subst; unfold input_lt; apply input_ltb_total; assumption | apply F; exact Hy].
Qed.

Lemma sorted_inputs_spec : forall l,
  StronglySorted input_lt (sorted_inputs l) /\ (forall x, In x (sorted_inputs l) <-> In x l).
Proof.
  induction l as [|y l [S M]]; simpl; [split; [constructor | tauto]|]. split.
  - apply insert_input_sorted. exact S.
  - intro x. rewrite insert_input_in, M. intuition.
Qed.

(* d.shape, d.dumps, d.channels, d.freqs, d.corr_products, d.inputs, d.ants as functions of the three masks *)
Lemma pub_of_spec : forall o sa s, wf_st o s ->
  let p := pub_of o sa s in
  p_shape p = [count (tk s); count (fk s); count (bk s)]
  /\ p_dumps p = nonzero (tk s) /\ p_channels p = nonzero (fk s)
  /\ Z.of_nat (List.length (p_dumps p)) = count (tk s) /\ Z.of_nat (List.length (p_channels p)) = count (fk s)
  /\ Z.of_nat (List.length (p_freqs p)) = count (fk s) /\ Z.of_nat (List.length (p_cps p)) = count (bk s)
  /\ (forall cp, In cp (p_cps p) <-> exists i, nth_error (o_cps o) i = Some cp /\ nth i (bk s) false = true)
  /\ StronglySorted input_lt (p_inputs p)
  /\ (forall x, In x (p_inputs p) <-> exists cp, In cp (p_cps p) /\ (x = fst cp \/ x = snd cp))
  /\ (forall a, In a (p_ants p) <-> In a (sa_ants sa) /\ exists x, In x (p_inputs p) /\ ant_of x = a).
Proof.
  intros o sa s W p. pose proof (W DT) as WT. pose proof (W DF) as WF. pose proof (W DB) as WB. simpl in WT, WF, WB.
  unfold p, pub_of. cbn [p_shape p_dumps p_channels p_freqs p_cps p_inputs p_ants].
  split; [reflexivity|]. split; [reflexivity|]. split; [reflexivity|].
  split; [apply nonzero_spec|]. split; [apply nonzero_spec|].
  split; [apply length_keep; symmetry; exact WF|]. split; [apply length_keep; symmetry; exact WB|].
  split; [intro cp; apply keep_nth; symmetry; exact WB|].
  split; [apply sorted_inputs_spec|]. split.
  - intro x. rewrite (proj2 (sorted_inputs_spec _)). rewrite in_flat_map. split.
    + intros [cp [H1 [H2|[H2|[]]]]]; exists cp; split; auto.
    + intros [cp [H1 H2]]. exists cp. split; [exact H1|]. simpl. destruct H2; subst; auto.
  - intro a. rewrite filter_In, existsb_exists. split.
    + intros [H1 [x [H2 H3]]]. split; [exact H1|]. exists x. split; [exact H2|]. apply Z.eqb_eq. exact H3.
    + intros [H1 [x [H2 H3]]]. split; [exact H1|]. exists x. split; [exact H2|]. apply Z.eqb_eq. exact H3.
Qed.
