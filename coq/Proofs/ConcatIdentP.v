(* C19: identity of subarrays / spectral windows (Model/ConcatIdent.v) decides structural equality; the value ids are
   canonical representatives; the dummy table read from the source is the one of C12's model. *)
From Coq Require Import ZArith List Bool String Lia Arith.
From KV Require Import Base.Sx Gen.Generated Model.ConcatIdent.
From KV Require Model.SensorCache Model.Concat.
Import ListNotations.
Open Scope nat_scope.

Lemma list_eqb_eq {A} (eqb : A -> A -> bool) :
  (forall x y, eqb x y = true <-> x = y) -> forall a b, list_eqb eqb a b = true <-> a = b.
Proof.
  intro H. induction a as [|x a IH]; intros [|y b]; simpl; split; intro E; try reflexivity; try discriminate.
  - apply andb_true_iff in E. destruct E as [E1 E2]. apply H in E1. apply IH in E2. congruence.
  - inversion E; subst. apply andb_true_iff. split; [apply H; reflexivity | apply IH; reflexivity].
Qed.

Lemma map_inj {A B} (g : A -> B) : (forall x y, g x = g y -> x = y) -> forall a b, map g a = map g b -> a = b.
Proof.
  intro H. induction a as [|x a IH]; intros [|y b] E; simpl in E; try discriminate; [reflexivity|].
  inversion E. f_equal; [apply H; assumption | apply IH; assumption].
Qed.

Lemma flat_cp_inj : forall x y, flat_cp x = flat_cp y -> x = y.
Proof. intros [[a b] [c d]] [[a' b'] [c' d']]. unfold flat_cp. simpl. intro E. inversion E. reflexivity. Qed.

Lemma zeqb_iff : forall x y : Z, Z.eqb x y = true <-> x = y.
Proof. intros. apply Z.eqb_eq. Qed.

(* Subarray.__eq__ holds exactly for the same antennas in the same order AND the same products in the same order *)
Lemma sub_eqb_eq : forall a b, sub_eqb a b = true <-> a = b.
Proof.
  intros [aa ac] [ba bc]. unfold sub_eqb.
  rewrite (list_eqb_eq _ (list_eqb_eq _ (list_eqb_eq _ zeqb_iff))).
  unfold sub_description, subarray_description_parts, sub_component. cbn. split; intro E.
  - inversion E as [[E1 E2]].
    apply (map_inj (fun a => [a])) in E1; [|intros x y X; inversion X; reflexivity].
    apply (map_inj flat_cp flat_cp_inj) in E2. congruence.
  - inversion E; reflexivity.
Qed.

(* SpectralWindow.__eq__ holds exactly when every attribute is the same *)
Lemma spw_eqb_eq : forall a b, spw_eqb a b = true <-> a = b.
Proof.
  intros [a1 a2 a3 a4 a5 a6 a7] [b1 b2 b3 b4 b5 b6 b7]. unfold spw_eqb. rewrite (list_eqb_eq _ zeqb_iff).
  unfold spw_description, spw_description_fields, spw_field. cbn. split; intro E; inversion E; reflexivity.
Qed.

(* ---------- interning ---------- *)
Section Intern.
Context {A : Type} (eqb : A -> A -> bool) (eqb_eq : forall x y, eqb x y = true <-> x = y) (d : A).

Lemma find_first_spec x : forall l i, In x l ->
  let r := find_first eqb x l i in
  i <= r < i + List.length l /\ nth (r - i) l d = x /\ forall k, k < r - i -> nth k l d <> x.
Proof.
  induction l as [|y t IH]; intros i Hin; [destruct Hin|]. simpl.
  destruct (eqb y x) eqn:E.
  - apply eqb_eq in E. subst. rewrite Nat.sub_diag. simpl. repeat split; try lia.
  - assert (N : y <> x) by (intro X; apply eqb_eq in X; congruence).
    destruct Hin as [X|Hin]; [contradiction|]. destruct (IH (S i) Hin) as ((L1 & L2) & Hn & Hk). simpl in *.
    set (r := find_first eqb x t (S i)) in *. repeat split; try lia.
    + replace (r - i) with (S (r - S i)) by lia. exact Hn.
    + intros k Hlt. destruct k as [|k]; [exact N|]. apply Hk. lia.
Qed.

Lemma nth_In_lt (l : list A) i : i < List.length l -> In (nth i l d) l.
Proof. intro. apply nth_In. assumption. Qed.

Lemma intern_nth tbl i : i < List.length tbl ->
  nth i (intern_ids eqb tbl) 0 = find_first eqb (nth i tbl d) tbl 0.
Proof.
  intro H. unfold intern_ids. rewrite (nth_indep _ 0 (find_first eqb d tbl 0)) by (rewrite map_length; exact H).
  rewrite (map_nth (fun x => find_first eqb x tbl 0)). reflexivity.
Qed.

(* the id of entry i is the position of the first entry identical to it: a canonical representative *)
Lemma intern_canonical tbl i : i < List.length tbl ->
  let r := nth i (intern_ids eqb tbl) 0 in
  r <= i /\ nth r tbl d = nth i tbl d /\ (forall k, k < r -> nth k tbl d <> nth i tbl d) /\ nth r (intern_ids eqb tbl) 0 = r.
Proof.
  intro H. cbn zeta. rewrite (intern_nth tbl i H).
  destruct (find_first_spec (nth i tbl d) tbl 0 (nth_In_lt tbl i H)) as ((_ & L2) & Hn & Hk).
  rewrite Nat.sub_0_r in *. set (r := find_first eqb (nth i tbl d) tbl 0) in *.
  assert (R : r <= i). { destruct (le_lt_dec r i) as [?|G]; [assumption|]. exfalso. exact (Hk i G eq_refl). }
  repeat split; try assumption.
  assert (Hr : r < List.length tbl) by lia. rewrite (intern_nth tbl r Hr), Hn. reflexivity.
Qed.

(* two entries get the same id exactly when they are identical *)
Lemma intern_same tbl i j : i < List.length tbl -> j < List.length tbl ->
  (nth i (intern_ids eqb tbl) 0 = nth j (intern_ids eqb tbl) 0 <-> nth i tbl d = nth j tbl d).
Proof.
  intros Hi Hj. split; intro E.
  - destruct (intern_canonical tbl i Hi) as (_ & A1 & _). destruct (intern_canonical tbl j Hj) as (_ & A2 & _).
    cbn zeta in *. rewrite <- A1, <- A2, E. reflexivity.
  - rewrite (intern_nth tbl i Hi), (intern_nth tbl j Hj), E. reflexivity.
Qed.
End Intern.

Lemma sub_ids_same tbl i j : i < List.length tbl -> j < List.length tbl ->
  (nth i (intern_ids sub_eqb tbl) 0 = nth j (intern_ids sub_eqb tbl) 0 <-> nth i tbl (mkSub [] []) = nth j tbl (mkSub [] [])).
Proof. apply intern_same. exact sub_eqb_eq. Qed.

Lemma spw_ids_same tbl i j : i < List.length tbl -> j < List.length tbl ->
  (nth i (intern_ids spw_eqb tbl) 0 = nth j (intern_ids spw_eqb tbl) 0
   <-> nth i tbl (mkSpw 0 0 0 0 0 0 0) = nth j tbl (mkSpw 0 0 0 0 0 0 0)).
Proof. apply intern_same. exact spw_eqb_eq. Qed.

(* the table read from dummy_sensor_getter is the dummy value of C12's model (the filler of Model/Concat.v) *)
Lemma dummy_table_is_model : forall dt, dummy_of_table dummy_value_table dt = Concat.dummy_code dt.
Proof. intros []; reflexivity. Qed.

(* ... and for an unsigned integer type of any width: the integer branch with the cast = Concat.dummy_code_u (the filler
   of get_sensor_u), i.e. 2^b - 1 (ConcatP.unsigned_filler_in_range) *)
Lemma dummy_table_u_is_model : forall ubits dt,
  dummy_of_table_u dummy_value_table dummy_int_is_cast_into_type ubits dt = Concat.dummy_code_u ubits dt.
Proof.
  intros ubits dt. destruct dt; try reflexivity.
  cbn. unfold in_class_u, Concat.int_dummy, cast_filler. cbn.
  destruct (ubits <=? 0)%Z eqn:B.
  - cbn. assert ((0 <? ubits)%Z = false) as -> by (apply Z.ltb_ge; apply Z.leb_le; exact B). reflexivity.
  - cbn. assert ((0 <? ubits)%Z = true) as -> by (apply Z.ltb_lt; apply Z.leb_gt; exact B). reflexivity.
Qed.
Lemma dummy_cast_constants_ok : dummy_int_is_cast_into_type = true /\ dummy_int_before_cast = Concat.dummy_code SensorCache.DInt.
Proof. split; reflexivity. Qed.

Lemma ident_constants_ok :
  subarray_description_parts = [("ants", "description"); ("corr_products", "inpA,inpB")]%string /\
  subarray_keeps_given_order = true /\
  spw_description_fields = ["centre_freq"; "channel_width"; "num_chans"; "sideband"; "band"; "product"; "bandwidth"]%string /\
  dummy_value_table = [("floating", "nan"); ("integer", "-1"); ("bytes_", "empty"); ("str_", "empty"); ("bool_", "False")]%string /\
  concat_filler_is_dummy_of_common_dtype = true.
Proof. repeat split; reflexivity. Qed.
