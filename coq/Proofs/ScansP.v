(* C03: lemmas about the generators scans() / compscans() and about the segmentation pipelines. *)
From Coq Require Import ZArith List Bool String Arith Lia Permutation Sorting.Sorted.
From KV Require Import Base.Sx Base.Str Base.SelSlice Gen.Generated Model.Select Model.Scans
  Proofs.SelectBaseP Proofs.SelectP Proofs.SelectLawsP.
From KV Require Model.Categorical.
Import ListNotations.
Open Scope Z_scope.

(* ---------------------------------------------------------------- tie: the skeleton read from the source *)
Lemma skeleton_ok :
  it_scans_field = "scan_indices"%string /\ it_scans_key = "scans"%string /\ it_scans_yield_reset = ""%string
  /\ it_scans_pop = "scans"%string /\ it_scans_final_reset = ""%string
  /\ it_scans_name_sensor = "Observation/scan_state"%string
  /\ it_compscans_field = "compscan_indices"%string /\ it_compscans_key = "compscans"%string
  /\ it_compscans_yield_reset = ""%string /\ it_compscans_pop = "compscans"%string
  /\ it_compscans_final_reset = ""%string /\ it_compscans_name_sensor = "Observation/label"%string.
Proof. repeat split; reflexivity. Qed.

(* the attribute -> sensor table read from the tail of select() sends the three attributes to the three per-dump
   index fields (by computation on the generated table) *)
Lemma it_tfield_eq : it_tfield = d_target.
Proof. reflexivity. Qed.
Lemma index_attrs_ok :
  sel_indices_attrs = [("scan_indices", "Observation/scan_index"); ("compscan_indices", "Observation/compscan_index");
                       ("target_indices", "Observation/target_index")]%string
  /\ it_field WScans = d_scan /\ it_field WCompscans = d_cscan /\ it_tfield = d_target.
Proof. repeat split; reflexivity. Qed.

(* ---------------------------------------------------------------- sorted(set(...)) *)
Lemma insert_uniq_In : forall x y l, In y (insert_uniq x l) <-> y = x \/ In y l.
Proof.
  induction l as [|a l IH]; simpl; [intuition|].
  destruct (Z.ltb_spec x a); [simpl; intuition|].
  destruct (Z.eqb_spec x a); [subst; simpl; intuition|].
  simpl. rewrite IH. intuition.
Qed.
Lemma sort_uniq_In : forall y l, In y (sort_uniq l) <-> In y l.
Proof.
  induction l as [|a l IH]; simpl; [tauto|]. unfold sort_uniq in *. simpl. rewrite insert_uniq_In, IH. intuition.
Qed.
Lemma insert_uniq_sorted : forall x l, StronglySorted Z.lt l -> StronglySorted Z.lt (insert_uniq x l).
Proof.
  induction l as [|a l IH]; intro S; simpl; [repeat constructor|].
  inversion S as [|? ? S' F]; subst.
  destruct (Z.ltb_spec x a).
  - constructor; [exact S|]. constructor; [exact H|]. eapply Forall_impl; [|exact F]. simpl. intros; lia.
  - destruct (Z.eqb_spec x a); [exact S|]. constructor; [apply IH; exact S'|].
    apply Forall_forall. intros y Hy. apply insert_uniq_In in Hy. destruct Hy as [->|Hy]; [lia|].
    rewrite Forall_forall in F. apply F. exact Hy.
Qed.
Lemma sort_uniq_sorted : forall l, StronglySorted Z.lt (sort_uniq l).
Proof. induction l; simpl; [constructor|]. apply insert_uniq_sorted. exact IHl. Qed.
Lemma sorted_hd_min : forall x l y, StronglySorted Z.lt (x :: l) -> In y (x :: l) -> x <= y.
Proof.
  intros x l y S [->|H]; [lia|]. inversion S as [|? ? _ F]; subst. rewrite Forall_forall in F. specialize (F y H). lia.
Qed.
Lemma sorted_NoDup : forall l, StronglySorted Z.lt l -> NoDup l.
Proof.
  induction 1; constructor; auto. intro Hin. rewrite Forall_forall in H0. specialize (H0 a Hin). lia.
Qed.

(* ---------------------------------------------------------------- kept dumps *)
Lemma kept_dumps_In : forall o m d, In d (kept_dumps o m) <->
  exists p, nth_error (o_dumps o) p = Some d /\ nth p m false = true.
Proof.
  intros o m d. unfold kept_dumps. generalize (o_dumps o) as ds. revert m.
  induction m as [|b m IH]; intros ds; simpl.
  - split; [tauto|]. intros [p [_ H]]. destruct p; discriminate.
  - destruct ds as [|x ds]; simpl.
    + split; [tauto|]. intros [p [H _]]. destruct p; discriminate.
    + destruct b; simpl; rewrite IH; split.
      * intros [->|[p [A B]]]; [exists 0%nat; auto | exists (S p); auto].
      * intros [[|p] [A B]]; simpl in *; [left; congruence | right; exists p; auto].
      * intros [p [A B]]. exists (S p); auto.
      * intros [[|p] [A B]]; simpl in *; [discriminate | exists p; auto].
Qed.

(* the mask of the criterion added by the loop *)
(* the target the generators pick (by computation on the translated `target = ...` statements): scans() the lowest-numbered
   one of the dumps shown, compscans() the one of the FIRST dump shown (repair of C03-F2) *)
Lemma pick_target_scans : forall o m, pick_target WScans o m = hd_error (indices_of d_target o m).
Proof. reflexivity. Qed.
Lemma pick_target_compscans : forall o m, pick_target WCompscans o m = hd_error (map d_target (kept_dumps o m)).
Proof. reflexivity. Qed.
Lemma hd_error_In {A} : forall (l : list A) x, hd_error l = Some x -> In x l.
Proof. intros [|a l] x H; inversion H; subst; left; reflexivity. Qed.
Lemma pick_target_In : forall w o m t, pick_target w o m = Some t -> In t (map d_target (kept_dumps o m)).
Proof.
  intros [|] o m t H.
  - rewrite pick_target_scans in H. apply hd_error_In in H. unfold indices_of in H. rewrite sort_uniq_In in H. exact H.
  - rewrite pick_target_compscans in H. apply hd_error_In in H. exact H.
Qed.
(* the first kept dump is the dump at the first position the mask selects *)
Lemma kept_dumps_hd : forall o m d, hd_error (kept_dumps o m) = Some d ->
  exists p, nth_error (o_dumps o) p = Some d /\ nth p m false = true /\ forall q, (q < p)%nat -> nth q m false = false.
Proof.
  intros o m d. unfold kept_dumps. generalize (o_dumps o) as ds. revert m.
  induction m as [|b m IH]; intros ds H; simpl in H; [discriminate|].
  destruct ds as [|x ds]; simpl in H; [discriminate|].
  destruct b; simpl in H.
  - inversion H; subst. exists 0%nat. split; [reflexivity|]. split; [reflexivity|]. intros q Hq. inversion Hq.
  - destruct (IH ds H) as (p & A & Bp & C). exists (S p). split; [exact A|]. split; [exact Bp|].
    intros [|q] Hq; [reflexivity|]. simpl. apply C. lia.
Qed.

Definition fmask (o : obs) (w : which) (v : Z) : list bool :=
  match w with WScans => scans_mask o [SIdx v] | WCompscans => compscans_mask o [SIdx v] end.
Lemma nth_map_error {A} (f : A -> bool) : forall l p,
  nth p (map f l) false = match nth_error l p with Some d => f d | None => false end.
Proof. induction l; destruct p; simpl; auto. Qed.
Lemma nth_fmask : forall o w v p,
  nth p (fmask o w v) false = match nth_error (o_dumps o) p with Some d => it_field w d =? v | None => false end.
Proof.
  intros. destruct w; unfold fmask, scans_mask, compscans_mask; rewrite nth_map_error;
    destruct (nth_error (o_dumps o) p); simpl; auto; apply orb_false_r.
Qed.

(* ---------------------------------------------------------------- the invariant the generators run under *)
(* C02's invariant plus what every state reachable from the constructor also satisfies: spw / subarray are
   recorded in _selection, 'reset' never is *)
Definition Inv3 (o : obs) (s : st) : Prop :=
  Inv o s /\ lookup "spw" (sel s) = Some (VAtom 0) /\ lookup "subarray" (sel s) = Some (VAtom 0)
  /\ lookup "reset" (sel s) = None.
(* same selection: the three masks, the weights / flags selection and _selection as a dictionary *)
Definition same_sel (s s' : st) : Prop :=
  (forall d, mget d s = mget d s') /\ wk s = wk s' /\ flk s = flk s' /\ forall k, lookup k (sel s) = lookup k (sel s').
Definition body_ok {B} (o : obs) (body : st -> res (B * st)) : Prop :=
  forall s1 b s2, Inv3 o s1 -> body s1 = Ok (b, s2) -> Inv3 o s2 /\ same_sel s2 s1.

Lemma same_sel_refl : forall s, same_sel s s.
Proof. intro s. repeat split; auto. Qed.
Lemma no_body_ok : forall o, body_ok o no_body.
Proof. intros o s1 b s2 H E. inversion E; subst. split; [exact H | apply same_sel_refl]. Qed.

Lemma select_sel : forall o s kw s', select o s kw = Ok s' -> sel s' = sel_of s kw /\ precheck kw = None.
Proof.
  intros o s kw s' H. rewrite select_closed in H. destruct (precheck kw); [discriminate|].
  destruct (all_ok o (sel_of s kw)); [|discriminate]. inversion H. split; reflexivity.
Qed.

Lemma precheck_atoms : forall kw, precheck kw = None ->
  atom0 (lookup "spw" kw) = true /\ atom0 (lookup "subarray" kw) = true.
Proof.
  intros kw P. unfold precheck in P. destruct (_ && existsb _ kw); [discriminate|].
  destruct (atom0 (lookup "spw" kw)); destruct (atom0 (lookup "subarray" kw)); simpl in P; try discriminate; auto.
Qed.

Lemma inv3_select : forall o s kw s', Inv3 o s -> NoDup (keys kw) -> select o s kw = Ok s' -> Inv3 o s'.
Proof.
  intros o s kw s' (HI & A & B & C) Nk H. split; [eapply inv_select; eauto|].
  destruct (select_sel _ _ _ _ H) as [E P]. destruct (precheck_atoms _ P) as [P1 P2]. rewrite E.
  rewrite !lookup_sel_of, !lookup_kw3 by exact Nk. cbn [String.eqb Ascii.eqb Bool.eqb].
  repeat split.
  - destruct (lookup "spw" kw) as [[]|]; simpl in P1; try discriminate; try reflexivity.
    destruct z; try discriminate; reflexivity.
  - destruct (lookup "subarray" kw) as [[]|]; simpl in P2; try discriminate; try reflexivity.
    destruct z; try discriminate; reflexivity.
  - assert (Hp : popped (reset_of kw) "reset" = false) by (unfold popped; simpl; rewrite !andb_false_r; reflexivity).
    rewrite Hp. exact C.
Qed.

(* states reachable from the constructor by successful calls with distinct keywords (as Python guarantees) *)
Inductive reachable_nd (o : obs) : st -> Prop :=
| rnd_init : reachable_nd o (init o)
| rnd_step : forall s kw s', reachable_nd o s -> NoDup (keys kw) -> select o s kw = Ok s' -> reachable_nd o s'.
Lemma reachable_inv3 : forall o s, reachable_nd o s -> Inv3 o s.
Proof.
  induction 1.
  - split; [apply inv_init|]. repeat split; reflexivity.
  - eapply inv3_select; eauto.
Qed.

(* ---------------------------------------------------------------- one resumption of the generator *)
Lemma yield_kw_nodup : forall w v, NoDup (keys (yield_kw w v)).
Proof. intros [] v; simpl; repeat constructor; simpl; intuition discriminate. Qed.

Lemma yield_step : forall o w v s' s1, Inv3 o s' -> select o s' (yield_kw w v) = Ok s1 ->
  Inv3 o s1 /\ tk s1 = mand (tk s') (fmask o w v) /\ fk s1 = fk s' /\ bk s1 = bk s' /\ wk s1 = wk s' /\ flk s1 = flk s'
  /\ (forall k, lookup k (sel s1) = if String.eqb k (it_pop w) then Some (VScans [SIdx v]) else lookup k (sel s')).
Proof.
  intros o w v s' s1 H3 H. pose proof (yield_kw_nodup w v) as Nk. pose proof H3 as (HI & A & B & C).
  split; [eapply inv3_select; eauto|].
  pose proof (fun d => select_dim o s' _ s1 d HI Nk H) as HD.
  destruct (flags_kept o s' _ s1 HI Nk H) as [F1 F2].
  split; [|split; [|split; [|split; [|split]]]].
  - change (tk s1) with (mget DT s1). rewrite (HD DT). destruct w; reflexivity.
  - change (fk s1) with (mget DF s1). rewrite (HD DF). destruct w; reflexivity.
  - change (bk s1) with (mget DB s1). rewrite (HD DB). destruct w; reflexivity.
  - apply F2. destruct w; reflexivity.
  - apply F1. destruct w; reflexivity.
  - intro k. destruct (select_sel _ _ _ _ H) as [E _]. rewrite E, lookup_sel_of, lookup_kw3 by exact Nk.
    assert (Hp : popped (reset_of (yield_kw w v)) k = false) by (destruct w; reflexivity).
    rewrite Hp. cbn [negb].
    destruct (String.eqb_spec k "subarray"); [subst; destruct w; simpl; rewrite B; reflexivity|].
    destruct (String.eqb_spec k "spw"); [subst; destruct w; simpl; rewrite A; reflexivity|].
    destruct (String.eqb_spec k "reset"); [subst; destruct w; simpl; rewrite C; reflexivity|].
    destruct w; unfold yield_kw, it_key, it_pop; rewrite !lookup_cons, lookup_nil;
      apply String.eqb_neq in n1; rewrite n1;
      [destruct (String.eqb k it_scans_key) eqn:Ek | destruct (String.eqb k it_compscans_key) eqn:Ek];
      try (change it_scans_pop with it_scans_key); try (change it_compscans_pop with it_compscans_key);
      rewrite Ek; reflexivity.
Qed.

Lemma holds_ext : forall o s s' kv, (forall d, mget d s = mget d s') -> holds o s kv -> holds o s' kv.
Proof. intros o s s' kv E. unfold holds. destruct (crit o (fst kv) (snd kv)); auto. rewrite E. auto. Qed.

Lemma in_remove_key : forall k kv l, In kv (remove_key k l) <-> In kv l /\ fst kv <> k.
Proof.
  intros. rewrite remove_key_filter, filter_In. destruct (String.eqb_spec (fst kv) k); simpl; intuition congruence.
Qed.

(* self._set_keep(old_timekeep.copy()); self._selection.pop(key, None) after the consumer has handed control back *)
Definition after_yield (w : which) (old : list bool) (s2 : st) : st :=
  set_sel (remove_key (it_pop w) (sel s2)) (mset DT old s2).

Lemma after_yield_step : forall o w v s' s1 s2, Inv3 o s' ->
  Inv3 o s1 -> fk s1 = fk s' -> bk s1 = bk s' -> wk s1 = wk s' -> flk s1 = flk s' ->
  (forall k, lookup k (sel s1) = if String.eqb k (it_pop w) then Some (VScans [SIdx v]) else lookup k (sel s')) ->
  Inv3 o s2 -> same_sel s2 s1 ->
  let s3 := after_yield w (tk s') s2 in
  Inv3 o s3 /\ (forall d, mget d s3 = mget d s') /\ wk s3 = wk s' /\ flk s3 = flk s'
  /\ (forall k, lookup k (sel s3) = if String.eqb k (it_pop w) then None else lookup k (sel s')).
Proof.
  intros o w v s' s1 s2 (HI & A & B & C) (HI1 & _) F1 B1 W1 L1 K1 (HI2 & A2 & B2 & C2) (M & W2 & L2 & K2) s3.
  assert (HM : forall d, mget d s3 = mget d s').
  { intros [|  |]; simpl; auto.
    - change (fk s2) with (mget DF s2). rewrite (M DF). exact F1.
    - change (bk s2) with (mget DB s2). rewrite (M DB). exact B1. }
  assert (HK : forall k, lookup k (sel s3) = if String.eqb k (it_pop w) then None else lookup k (sel s')).
  { intro k. simpl. rewrite lookup_remove_key. destruct (String.eqb k (it_pop w)) eqn:E; auto.
    rewrite K2, K1, E. reflexivity. }
  assert (Pw : String.eqb "weights" (it_pop w) = false) by (destruct w; reflexivity).
  assert (Pf : String.eqb "flags" (it_pop w) = false) by (destruct w; reflexivity).
  assert (Ps : String.eqb "spw" (it_pop w) = false) by (destruct w; reflexivity).
  assert (Pa : String.eqb "subarray" (it_pop w) = false) by (destruct w; reflexivity).
  assert (Pr : String.eqb "reset" (it_pop w) = false) by (destruct w; reflexivity).
  split; [|split; [exact HM|split; [simpl; congruence|split; [simpl; congruence|exact HK]]]].
  split; [|rewrite !HK, Ps, Pa, Pr; auto].
  split.
  - intro d. rewrite HM. apply (inv_wf _ _ HI).
  - simpl. unfold remove_key. apply NoDup_keys_filter. apply (inv_nodup _ _ HI2).
  - intros [k x] Hin. simpl in Hin. apply in_remove_key in Hin. destruct Hin as [Hin Hne]. simpl in Hne.
    apply (holds_ext o s'); [intro d; symmetry; apply HM|].
    apply (inv_holds _ _ HI). apply lookup_some_in.
    pose proof (in_lookup k x _ (inv_nodup _ _ HI2) Hin) as E. rewrite K2, K1 in E.
    apply String.eqb_neq in Hne. rewrite Hne in E. exact E.
  - intros x E. rewrite HK, Pw in E. simpl. rewrite W2, W1. apply (inv_wk _ _ HI). exact E.
  - intros x E. rewrite HK, Pf in E. simpl. rewrite L2, L1. apply (inv_flk _ _ HI). exact E.
Qed.

(* ---------------------------------------------------------------- the loop *)
Section Loop.
Context {B : Type} (O : sobs) (w : which) (body : st -> res (B * st)).
Let o := so O.

(* state between two resumptions, relative to the state s the generator was started in *)
Definition J (s s' : st) : Prop :=
  Inv3 o s' /\ (forall d, mget d s' = mget d s) /\ wk s' = wk s /\ flk s' = flk s
  /\ (forall k, lookup k (sel s') = lookup k (sel s) \/ (k = it_pop w /\ lookup k (sel s') = None)).

Definition yield_ok (s : st) (y : yielded B) : Prop :=
  Inv3 o (y_st y) /\ tk (y_st y) = mand (tk s) (fmask o w (y_index y)) /\ fk (y_st y) = fk s /\ bk (y_st y) = bk s
  /\ wk (y_st y) = wk s /\ flk (y_st y) = flk s
  /\ name_of O w (y_index y) = Some (y_name y)
  /\ pick_target w o (tk (y_st y)) = Some (y_target y)
  /\ (exists s2, body (y_st y) = Ok (y_body y, s2)).

Lemma J_refl : forall s, Inv3 o s -> J s s.
Proof. intros s H. split; [exact H|]. split; [reflexivity|]. split; [reflexivity|]. split; [reflexivity|]. intro k; left; reflexivity. Qed.

Lemma it_loop_spec : body_ok o body -> forall s l s' ys s'', J s s' ->
  it_loop O w (tk s) body l s' = Ok (ys, s'') ->
  J s s'' /\ map y_index ys = l /\ Forall (yield_ok s) ys.
Proof.
  intros HB s. induction l as [|v l IH]; intros s' ys s'' HJ H; cbn [it_loop] in H.
  - inversion H; subst. split; [exact HJ|]. split; [reflexivity | constructor].
  - fold o in H.
    destruct (select o s' (yield_kw w v)) as [s1|] eqn:E1; [|discriminate].
    destruct (name_of O w v) as [nm|] eqn:En; [|discriminate].
    destruct (pick_target w o (tk s1)) as [t|] eqn:Et; [|discriminate].
    destruct (body s1) as [[b s2]|] eqn:Eb; [|discriminate].
    destruct HJ as (H3 & HM & HW & HF & HK).
    destruct (yield_step o w v s' s1 H3 E1) as (I1 & T1 & F1 & B1 & W1 & L1 & K1).
    destruct (HB s1 b s2 I1 Eb) as (I2 & S2).
    assert (Etk : tk s = tk s') by (symmetry; apply (HM DT)).
    rewrite Etk in H.
    change (set_sel (remove_key (it_pop w) (sel s2)) (mset DT (tk s') s2)) with (after_yield w (tk s') s2) in H.
    destruct (after_yield_step o w v s' s1 s2 H3 I1 F1 B1 W1 L1 K1 I2 S2) as (I3 & M3 & W3 & L3 & K3).
    set (s3 := after_yield w (tk s') s2) in *.
    rewrite <- Etk in H.
    destruct (it_loop O w (tk s) body l s3) as [[ys' sf]|] eqn:Er; [|discriminate].
    inversion H; subst ys s''. clear H.
    assert (HJ3 : J s s3).
    { split; [exact I3|]. split; [intro d; rewrite M3; apply HM|]. split; [congruence|]. split; [congruence|].
      intro k. rewrite K3. destruct (String.eqb_spec k (it_pop w)); [right; auto|]. destruct (HK k) as [?|[? _]]; [left; auto|contradiction]. }
    destruct (IH s3 ys' sf HJ3 Er) as (HJf & Hmap & Hall).
    split; [exact HJf|]. split; [simpl; f_equal; exact Hmap|].
    constructor; [|exact Hall].
    unfold yield_ok; cbn [y_st y_index y_name y_target y_body].
    split; [exact I1|]. split; [rewrite T1, Etk; reflexivity|]. split; [rewrite F1; apply (HM DF)|].
    split; [rewrite B1; apply (HM DB)|]. split; [congruence|]. split; [congruence|]. split; [exact En|].
    split; [exact Et | exists s2; exact Eb].
Qed.

Lemma set_key_not_nil : forall k v l, set_key k v l <> [].
Proof. intros k v [|p l]; simpl; [discriminate|]. destruct (String.eqb k (fst p)); discriminate. Qed.

Lemma in_set_key : forall kv k v l, In kv (set_key k v l) -> kv = (k, v) \/ In kv l.
Proof.
  induction l as [|p l IH]; simpl; [intuition|].
  destruct (String.eqb_spec k (fst p)); simpl.
  - intros [H|H]; [left; rewrite <- H; f_equal; auto | right; right; exact H].
  - intros [H|H]; [right; left; exact H|]. destruct (IH H); [left|right;right]; auto.
Qed.

Definition presel_of (s : st) : kwargs := set_key "reset" (VStr (it_final_reset w)) (sel s).

Lemma reset_of_presel : forall s, reset_of (presel_of s) = EmptyString.
Proof.
  intro s. unfold reset_of. destruct (presel_of s) eqn:E; [exfalso; eapply set_key_not_nil; exact E|].
  rewrite <- E. unfold presel_of. rewrite lookup_set_key. simpl. destruct w; reflexivity.
Qed.

Lemma spec_dim_presel : forall s d, Inv o s -> spec_dim o d (mget d s) (presel_of s) = mget d s.
Proof.
  intros s d HI. unfold spec_dim.
  assert (R : spec_reset (presel_of s) d = false).
  { unfold spec_reset. destruct (presel_of s) eqn:E; [exfalso; eapply set_key_not_nil; exact E|].
    rewrite <- E. unfold presel_of. rewrite lookup_set_key. simpl. destruct w, d; reflexivity. }
  rewrite R, spec_crit_masks_dmasks. apply mask_ext.
  - rewrite (inv_wf _ _ HI d). apply (length_fold_mand _ _ (dimlen o d)); [apply (inv_wf _ _ HI)|].
    intros m Hm. apply (dmasks_len o d _ m Hm).
  - intro i. rewrite nth_fold_mand, forallb_dmasks.
    destruct (nth i (mget d s) false) eqn:Eb; [|reflexivity]. cbn [andb].
    apply forallb_forall. intros kv Hin. apply in_set_key in Hin. destruct Hin as [->|Hin].
    + reflexivity.
    + pose proof (inv_holds _ _ HI kv Hin) as Hh. unfold holds in Hh. unfold cbit.
      destruct (crit o (fst kv) (snd kv)) as [| |d' m]; auto.
      destruct (dim_eqb d d') eqn:Ed; auto.
      assert (d = d') by (destruct d, d'; simpl in Ed; congruence). subst d'. apply Hh. exact Eb.
Qed.

Lemma final_restore : forall s s' sf, Inv3 o s -> J s s' ->
  select o s' (presel_of s) = Ok sf -> Inv3 o sf /\ same_sel sf s.
Proof.
  intros s s' sf H3 (I' & HM & HW & HF & HK) H. pose proof H3 as (HI & A & Bq & C). pose proof I' as (HI' & A' & B' & C').
  assert (Nk : NoDup (keys (presel_of s))) by (apply NoDup_set_key; apply (inv_nodup _ _ HI)).
  assert (I3 : Inv3 o sf) by (eapply inv3_select; eauto).
  split; [exact I3|].
  assert (HL : forall k, lookup k (sel sf) = lookup k (sel s)).
  { intro k. destruct (select_sel _ _ _ _ H) as [E _]. rewrite E, lookup_sel_of, lookup_kw3 by exact Nk.
    rewrite reset_of_presel.
    assert (Hp : popped EmptyString k = false) by reflexivity. rewrite Hp. cbn [negb].
    unfold presel_of. rewrite !lookup_set_key.
    destruct (String.eqb_spec k "subarray"); [subst; simpl; rewrite Bq; reflexivity|].
    destruct (String.eqb_spec k "spw"); [subst; simpl; rewrite A; reflexivity|].
    destruct (String.eqb_spec k "reset"); [subst; congruence|].
    destruct (lookup k (sel s)) eqn:E2; [reflexivity|].
    destruct (HK k) as [Hk|[_ Hk]]; congruence. }
  split; [|split; [|split; [|exact HL]]].
  - intro d. rewrite (select_dim o s' _ sf d HI' Nk H), (HM d). apply spec_dim_presel. exact HI.
  - destruct (flags_kept o s' _ sf HI' Nk H) as [_ F2].
    destruct (lookup "weights" (sel s)) eqn:E.
    + rewrite (inv_wk _ _ HI _ E). apply (inv_wk _ _ (proj1 I3)). rewrite HL. exact E.
    + rewrite F2; [exact HW|]. unfold presel_of. rewrite lookup_set_key. exact E.
  - destruct (flags_kept o s' _ sf HI' Nk H) as [F1 _].
    destruct (lookup "flags" (sel s)) eqn:E.
    + rewrite (inv_flk _ _ HI _ E). apply (inv_flk _ _ (proj1 I3)). rewrite HL. exact E.
    + rewrite F1; [exact HF|]. unfold presel_of. rewrite lookup_set_key. exact E.
Qed.

(* MAIN: the generator run to exhaustion from any state satisfying the invariant *)
Theorem iterate_spec : body_ok o body -> forall s ys sf, Inv3 o s -> iterate O w body s = Ok (ys, sf) ->
  (Inv3 o sf /\ same_sel sf s) /\ map y_index ys = indices_of (it_field w) o (tk s) /\ Forall (yield_ok s) ys.
Proof.
  intros HB s ys sf H3 H. unfold iterate in H. fold o in H.
  destruct (it_loop O w (tk s) body (indices_of (it_field w) o (tk s)) s) as [[ys' s']|] eqn:E; [|discriminate].
  destruct (it_loop_spec HB s _ s ys' s' (J_refl s H3) E) as (HJ & Hmap & Hall).
  change (set_key "reset" (VStr (it_final_reset w)) (sel s)) with (presel_of s) in H.
  destruct (select o s' (presel_of s)) as [sf'|] eqn:Ef; [|discriminate].
  inversion H; subst. split; [eapply final_restore; eauto|]. split; assumption.
Qed.
End Loop.

(* ---------------------------------------------------------------- consequences, in the words of the property *)
Lemma iterate_plain_body_ok : forall O w, body_ok (so O) (iterate_plain O w).
Proof.
  intros O w s1 b s2 H3 E. unfold iterate_plain in E.
  destruct (iterate_spec O w no_body (no_body_ok _) s1 b s2 H3 E) as [R _]. exact R.
Qed.

(* what a dump position shows during a yield *)
Definition shown {B} (y : yielded B) (p : nat) : bool := nth p (tk (y_st y)) false.

Lemma partition_facts : forall B (O : sobs) w (body : st -> res (B * st)) s ys sf,
  body_ok (so O) body -> Inv3 (so O) s -> iterate O w body s = Ok (ys, sf) ->
  (* the items are the indices present in the selection, each once, in increasing order *)
  map y_index ys = indices_of (it_field w) (so O) (tk s) /\ StronglySorted Z.lt (map y_index ys)
  (* a dump is shown by an item iff it was selected and belongs to the item *)
  /\ (forall y p, In y ys -> shown y p = nth p (tk s) false &&
        match nth_error (o_dumps (so O)) p with Some d => it_field w d =? y_index y | None => false end)
  (* frequency and corrprod selection unchanged while iterating *)
  /\ (forall y, In y ys -> fk (y_st y) = fk s /\ bk (y_st y) = bk s)
  (* union: every selected dump is shown by the item of its index *)
  /\ (forall p d, nth_error (o_dumps (so O)) p = Some d -> nth p (tk s) false = true ->
        exists y, In y ys /\ y_index y = it_field w d /\ shown y p = true)
  (* disjoint: a dump is shown by one item only *)
  /\ (forall y y' p, In y ys -> In y' ys -> shown y p = true -> shown y' p = true -> y_index y = y_index y').
Proof.
  intros B O w body s ys sf HB H3 H.
  destruct (iterate_spec O w body HB s ys sf H3 H) as (_ & Hmap & Hall).
  rewrite Forall_forall in Hall.
  assert (Hs : forall y p, In y ys -> shown y p = nth p (tk s) false &&
        match nth_error (o_dumps (so O)) p with Some d => it_field w d =? y_index y | None => false end).
  { intros y p Hy. destruct (Hall y Hy) as (_ & T & _). unfold shown. rewrite T, nth_mand, nth_fmask. reflexivity. }
  split; [exact Hmap|]. split; [rewrite Hmap; apply sort_uniq_sorted|]. split; [exact Hs|].
  split; [intros y Hy; destruct (Hall y Hy) as (_ & _ & F & Bk & _); auto|]. split.
  - intros p d Hd Hp.
    assert (Hin : In (it_field w d) (map y_index ys)).
    { rewrite Hmap. unfold indices_of. apply sort_uniq_In. apply in_map. apply kept_dumps_In. exists p; auto. }
    apply in_map_iff in Hin. destruct Hin as [y [Ey Hy]]. exists y. split; [exact Hy|]. split; [exact Ey|].
    rewrite (Hs y p Hy), Hp, Hd, Ey. simpl. apply Z.eqb_refl.
  - intros y y' p Hy Hy' S1 S2. rewrite (Hs y p Hy) in S1. rewrite (Hs y' p Hy') in S2.
    apply andb_true_iff in S1. apply andb_true_iff in S2. destruct S1 as [_ S1]. destruct S2 as [_ S2].
    destruct (nth_error (o_dumps (so O)) p); [|discriminate].
    apply Z.eqb_eq in S1. apply Z.eqb_eq in S2. congruence.
Qed.

(* the sensors indexed by event number agree with the per-dump sensors: the name of item i is the state / label of
   every dump whose index is i (holds for every segmentation produced by the format classes, see seg_names_ok) *)
Definition names_ok (O : sobs) (w : which) : Prop :=
  forall d, In d (o_dumps (so O)) -> name_of O w (it_field w d) = Some (namefield w d).

Lemma yield_values : forall B (O : sobs) w (body : st -> res (B * st)) s ys sf,
  body_ok (so O) body -> Inv3 (so O) s -> iterate O w body s = Ok (ys, sf) ->
  forall y, In y ys ->
  (* the yielded state / label is that of every dump shown *)
  (names_ok O w -> forall p d, nth_error (o_dumps (so O)) p = Some d -> shown y p = true -> y_name y = namefield w d)
  (* the yielded target is the target of one of the dumps shown ... *)
  /\ (exists p d, nth_error (o_dumps (so O)) p = Some d /\ shown y p = true /\ d_target d = y_target y)
  (* ... scans(): the lowest-numbered one ... *)
  /\ (w = WScans -> forall p d, nth_error (o_dumps (so O)) p = Some d -> shown y p = true -> y_target y <= d_target d)
  (* ... compscans(): the target of the FIRST dump shown, in time order ("first target associated with compound scan") ... *)
  /\ (w = WCompscans -> exists p d, nth_error (o_dumps (so O)) p = Some d /\ shown y p = true /\ d_target d = y_target y
                                    /\ forall q, (q < p)%nat -> shown y q = false)
  (* ... hence THE target of the dumps shown whenever they share one (every scan of a well-formed observation) *)
  /\ (forall t, (forall p d, nth_error (o_dumps (so O)) p = Some d -> shown y p = true -> d_target d = t) ->
        y_target y = t).
Proof.
  intros B O w body s ys sf HB H3 H y Hy.
  destruct (partition_facts B O w body s ys sf HB H3 H) as (_ & _ & Hs & _).
  destruct (iterate_spec O w body HB s ys sf H3 H) as (_ & _ & Hall).
  rewrite Forall_forall in Hall. destruct (Hall y Hy) as (_ & _ & _ & _ & _ & _ & Hn & Ht & _).
  assert (Hin : In (y_target y) (map d_target (kept_dumps (so O) (tk (y_st y))))) by (eapply pick_target_In; exact Ht).
  assert (Hex : exists p d, nth_error (o_dumps (so O)) p = Some d /\ shown y p = true /\ d_target d = y_target y).
  { apply in_map_iff in Hin. destruct Hin as [d [Ed Hd]]. apply kept_dumps_In in Hd. destruct Hd as [p [A Bp]].
    exists p, d. auto. }
  split; [|split; [exact Hex|split; [|split]]].
  - intros Hok p d Hd Hp. rewrite (Hs y p Hy), Hd in Hp. apply andb_true_iff in Hp. destruct Hp as [_ Hp].
    apply Z.eqb_eq in Hp. specialize (Hok d (nth_error_In _ _ Hd)). rewrite Hp, Hn in Hok. congruence.
  - intros -> p d Hd Hp. rewrite pick_target_scans in Ht.
    destruct (indices_of d_target (so O) (tk (y_st y))) as [|t rest] eqn:Et; [discriminate|].
    inversion Ht; subst t. apply (sorted_hd_min _ rest). rewrite <- Et. apply sort_uniq_sorted.
    rewrite <- Et. apply sort_uniq_In. apply in_map. apply kept_dumps_In. exists p; auto.
  - intros ->. rewrite pick_target_compscans in Ht.
    destruct (kept_dumps (so O) (tk (y_st y))) as [|d0 rest] eqn:Ek; [discriminate|].
    inversion Ht as [Et]. destruct (kept_dumps_hd (so O) (tk (y_st y)) d0) as (p & A & Bp & C); [rewrite Ek; reflexivity|].
    exists p, d0. split; [exact A|]. split; [exact Bp|]. split; [reflexivity|]. exact C.
  - intros t Ht'. destruct Hex as (p & d & Hd & Hp & Et). rewrite <- Et. eapply Ht'; eauto.
Qed.

(* nested use: the inner generator, run to exhaustion inside every yield of the outer one *)
Lemma nested_facts : forall (O : sobs) outer inner s ys sf, Inv3 (so O) s ->
  iterate_nested O outer inner s = Ok (ys, sf) ->
  (Inv3 (so O) sf /\ same_sel sf s)
  /\ forall y, In y ys -> exists s2, iterate_plain O inner (y_st y) = Ok (y_body y, s2)
                                     /\ Inv3 (so O) (y_st y) /\ same_sel s2 (y_st y).
Proof.
  intros O outer inner s ys sf H3 H. unfold iterate_nested in H.
  destruct (iterate_spec O outer _ (iterate_plain_body_ok O inner) s ys sf H3 H) as (R & _ & Hall).
  split; [exact R|]. intros y Hy. rewrite Forall_forall in Hall.
  destruct (Hall y Hy) as (I1 & _ & _ & _ & _ & _ & _ & _ & [s2 E2]). exists s2. split; [exact E2|]. split; [exact I1|].
  exact (proj2 (iterate_plain_body_ok O inner _ _ _ I1 E2)).
Qed.

(* ---------------------------------------------------------------- non-vacuity: a concrete observation *)
Lemma names_ok_dec : forall O w,
  forallb (fun d => match name_of O w (it_field w d) with Some n => n =? namefield w d | None => false end)
          (o_dumps (so O)) = true -> names_ok O w.
Proof.
  intros O w H d Hd. rewrite forallb_forall in H. specialize (H d Hd).
  destruct (name_of O w (it_field w d)); [|discriminate]. apply Z.eqb_eq in H. congruence.
Qed.

(* 12 dumps; activity slew(0-2) track(3-4) slew(5-6) scan(7-8) stop(9-11); labels 'track'@0, ''@4, 'raster'@7;
   targets A@0, B@5, A@9; segmented by the v4 pipeline *)
Definition ex_params : params := {| p_slew := 0; p_stop := 3; p_empty := 0; p_nothing := 90; p_addlabel := 0 |}.
Definition ex_seg : option seg :=
  segment V4 ex_params (Categorical.make Z.eqb [0; 1; 0; 2; 3] [0; 3; 5; 7; 9; 12]%nat)
          (Categorical.make Z.eqb [1; 0; 2] [0; 4; 7; 12]%nat) (Categorical.make Z.eqb [0; 1; 0] [0; 5; 9; 12]%nat).
Definition ex_base : obs :=
  {| o_dumps := map (fun p => {| d_ts := 4 * Z.of_nat p; d_scan := 0; d_state := 0; d_cscan := 0; d_label := 0; d_target := 0 |})
                    (seq 0 12);
     o_half := 2; o_targets := [{| t_names := [0]; t_tags := [1] |}; {| t_names := [1]; t_tags := [2] |}];
     o_freqs := [10; 14; 18]; o_halfw := 2; o_cps := [((0, 0), (0, 0)); ((0, 0), (1, 0))] |}.
Definition ex_O : sobs :=
  match ex_seg with Some g => sobs_of_seg g ex_base | None => {| so := ex_base; so_state := Categorical.mk [] [] []; so_label := Categorical.mk [] [] [] |} end.
(* select(dumps=slice(0, 10)); select(dumps=slice(5, 12), reset=''): criteria stacked on one keyword *)
Definition ex_calls : list kwargs :=
  [[("dumps"%string, VIdx (IxSlice (Some 0) (Some 10) None))];
   [("dumps"%string, VIdx (IxSlice (Some 5) (Some 12) None)); ("reset"%string, VStr "")]].
Definition ex_s : st :=
  match run (so ex_O) (init (so ex_O)) ex_calls with Ok s => s | Err _ => init (so ex_O) end.
Definition positions (m : list bool) : list Z := map fst (filter snd (combine (zpos (List.length m)) m)).
Definition summary {B C} (f : B -> C) (y : yielded B) :=
  (y_index y, y_name y, y_target y, positions (tk (y_st y)), f (y_body y)).

Lemma ex_facts :
  reachable_nd (so ex_O) ex_s /\ positions (tk ex_s) = [5; 6; 7; 8; 9]
  /\ map d_scan (o_dumps (so ex_O)) = [0; 0; 0; 1; 1; 2; 2; 3; 3; 4; 4; 4]
  /\ map d_cscan (o_dumps (so ex_O)) = [0; 0; 0; 0; 0; 0; 0; 1; 1; 1; 1; 1]
  /\ map d_target (o_dumps (so ex_O)) = [0; 0; 0; 0; 0; 1; 1; 1; 1; 0; 0; 0]
  /\ names_ok ex_O WScans /\ names_ok ex_O WCompscans
  /\ exists ys sf, iterate_nested ex_O WCompscans WScans ex_s = Ok (ys, sf)
       /\ map (summary (map (summary (fun _ : unit => tt)))) ys =
          [(0, 1, 1, [5; 6], [(2, 0, 1, [5; 6], tt)]);
           (1, 2, 1, [7; 8; 9], [(3, 2, 1, [7; 8], tt); (4, 3, 0, [9], tt)])]
       /\ positions (tk sf) = [5; 6; 7; 8; 9] /\ fk sf = fk ex_s /\ bk sf = bk ex_s.
Proof.
  split.
  - eapply rnd_step; [eapply rnd_step; [apply rnd_init| |]| |].
    + instantiate (1 := nth 0 ex_calls []). vm_compute. repeat constructor; simpl; intuition discriminate.
    + vm_compute. reflexivity.
    + instantiate (1 := nth 1 ex_calls []). vm_compute. repeat constructor; simpl; intuition discriminate.
    + vm_compute. reflexivity.
  - split; [vm_compute; reflexivity|]. split; [vm_compute; reflexivity|]. split; [vm_compute; reflexivity|].
    split; [vm_compute; reflexivity|].
    split; [apply names_ok_dec; vm_compute; reflexivity|]. split; [apply names_ok_dec; vm_compute; reflexivity|].
    eexists. eexists. split; [vm_compute; reflexivity|]. vm_compute. repeat split; reflexivity.
Qed.
