(* C03: lemmas about the generators scans() / compscans() and about the segmentation pipelines. *)
From Coq Require Import ZArith List Bool String Arith Lia Permutation.
From KV Require Import Base.Sx Base.Str Base.SelSlice Gen.Generated Model.Select Model.Scans
  Proofs.SelectBaseP Proofs.SelectP Proofs.SelectLawsP.
From KV Require Model.Categorical.
Import ListNotations.
Open Scope Z_scope.

(* ---------------------------------------------------------------- tie: the skeleton read from the source *)
Lemma skeleton_ok :
  it_scans_field = "scan_indices"%string /\ it_scans_key = "scans"%string /\ it_scans_yield_reset = ""%string
  /\ it_scans_pop = "scans"%string /\ it_scans_final_reset = ""%string
  /\ it_scans_name_sensor = "Observation/scan_state"%string
  /\ it_compscans_field = "compscan_indices"%string /\ it_compscans_key = "compscans"%string
  /\ it_compscans_yield_reset = ""%string /\ it_compscans_pop = "compscans"%string
  /\ it_compscans_final_reset = ""%string /\ it_compscans_name_sensor = "Observation/label"%string.
Proof. repeat split; reflexivity. Qed.
