(* C11 (round 2): partition() on ANY well-formed series with at least one event and ANY strictly increasing
   segments: the parts are the cuts of the per-dump list whose first value is extended back to dump 0 and whose
   last value is extended forward to the last segment boundary ("associating dumps before first event with it,
   ditto for ones past last" in the source).  Proved by comparing every part with the part of the normalised
   series `norm c M` (first event moved to dump 0, last event moved to M), to which part_spec applies. *)
From Coq Require Import ZArith List Bool Arith Lia.
From KV Require Import Base.Sx Model.Categorical Model.CategoricalX Proofs.CategoricalP Proofs.CategoricalAddP
  Proofs.CategoricalPartP Proofs.CategoricalRemoveP Proofs.CategoricalXP.
Import ListNotations.
Open Scope nat_scope.

Lemma removelast_cons2 {A} (s : A) r : r <> [] -> removelast (s :: r) = s :: removelast r.
Proof. destruct r; [congruence|reflexivity]. Qed.

Lemma Forall_filter {A} (P : A -> Prop) f l : Forall P l -> Forall P (filter f l).
Proof. induction 1; simpl; auto. destruct (f x); auto. Qed.

Lemma Forall_filter_true {A} (f : A -> bool) l : Forall (fun x => f x = true) (filter f l).
Proof. induction l; simpl; auto. destruct (f a) eqn:E; auto. Qed.

Lemma repeat_split {A} (v : A) n m : n <= m -> repeat v m = repeat v n ++ repeat v (m - n).
Proof. intros. rewrite <- repeat_app. f_equal. lia. Qed.

Lemma last_zero_le (l : list nat) s : last l 0 <= last l s.
Proof. destruct l as [|x l]; [simpl; lia|]. rewrite (last_cons x l 0), (last_cons x l s). lia. Qed.

Section PartX.
Context {V : Type} (dflt : V).
Notation cdV := (@cd V).

Definition initf (c : cdV) (a : nat) : nat :=
  nth (Nat.min (count_le (removelast (ev c)) a - 1) (length (removelast (ev c)) - 1)) (idx c) 0.

Lemma partition_initf (c : cdV) segs :
  partition c segs = map (fun q => part c (fst q) (snd q) (initf c (fst q))) (combine (removelast segs) (tl segs)).
Proof. unfold partition. rewrite combine_map_fst, map_map. reflexivity. Qed.

(* shape of a well-formed series with at least one event *)
Lemma WF_shape1 (c : cdV) : WF c -> idx c <> [] ->
  exists s E' i0 I', ev c = s :: E' ++ [ndumps c] /\ removelast (ev c) = s :: E' /\ idx c = i0 :: I' /\
    length E' = length I' /\ chain lt s (E' ++ [ndumps c]).
Proof.
  intros W NI. destruct (WF_inv c W) as (s & r & E & C & L & _).
  destruct (idx c) as [|i0 I'] eqn:EI; [congruence|].
  assert (NR : r <> []) by (intro Z; subst r; discriminate).
  pose proof (ev_snoc r NR) as SR.
  assert (LN : last r 0 = ndumps c). { unfold ndumps. rewrite E. destruct r; [congruence|]. reflexivity. }
  rewrite LN in SR.
  exists s, (removelast r), i0, I'. split; [rewrite E; f_equal; exact SR|]. split.
  - rewrite E. apply removelast_cons2; auto.
  - split; auto. split.
    + assert (length r = S (length (removelast r))) by (rewrite SR at 1; rewrite app_length; simpl; lia).
      simpl in L. lia.
    + rewrite <- SR. exact C.
Qed.

Lemma norm_facts (c : cdV) M : WF c -> idx c <> [] -> ndumps c <= M ->
  WF (norm c M) /\ start0 (norm c M) /\ ndumps (norm c M) = M /\ expand dflt (norm c M) = padded dflt c M.
Proof.
  intros W NI HM. destruct (WF_shape1 c W NI) as (s & E' & i0 & I' & Ev & RL & EI & LE & C).
  pose proof W as (_ & _ & FB & ND).
  apply chain_app in C. destruct C as [C1 C2]. simpl in C2. destruct C2 as [C2 _].
  assert (CE : chain lt 0 (E' ++ [M])).
  { apply chain_lt_snoc. apply (rm_chain_lower E' 0 s); [lia|auto].
    pose proof (last_zero_le E' s). lia. }
  unfold norm. rewrite RL. simpl tl. split; [|split; [|split]].
  - unfold WF. cbn [ev idx uv]. split; [exact CE|]. split; [|split; auto].
    simpl. rewrite app_length, EI. simpl. lia.
  - reflexivity.
  - unfold ndumps. cbn [ev]. change (0 :: E' ++ [M]) with ((0 :: E') ++ [M]). apply last_last.
  - set (f := fun i => nth i (uv c) dflt).
    assert (VA : vals dflt c = map f (i0 :: I')) by (unfold vals; rewrite EI; reflexivity).
    assert (XA : expand dflt c = expand_ev s (E' ++ [ndumps c]) (map f (i0 :: I'))).
    { unfold expand. rewrite VA, Ev. reflexivity. }
    assert (XB : expand dflt (mk (uv c) (idx c) (0 :: E' ++ [M])) = expand_ev 0 (E' ++ [M]) (map f (i0 :: I'))).
    { unfold expand, vals. cbn [uv idx ev expand_evs]. rewrite EI. reflexivity. }
    assert (HS : hd 0 (ev c) = s) by (rewrite Ev; reflexivity).
    rewrite XB. unfold padded. rewrite XA, VA, HS. cbn [map hd].
    (* back: cut the last segment at N *)
    destruct (exists_last (l := i0 :: I')) as (I0 & il & EIl); [discriminate|].
    assert (LI0 : length I0 = length E').
    { assert (length (i0 :: I') = length (I0 ++ [il])) by (rewrite EIl; auto). rewrite app_length in H. simpl in H. lia. }
    assert (VL : last (f i0 :: map f I') dflt = f il).
    { change (f i0 :: map f I') with (map f (i0 :: I')). rewrite EIl, map_app. simpl map. apply last_last. }
    rewrite VL.
    change (f i0 :: map f I') with (map f (i0 :: I')). rewrite EIl, map_app. cbn [map].
    rewrite (expand_ev_trunc E' 0 (ndumps c) M (map f I0) (f il)); [|rewrite map_length; auto| |auto].
    2:{ pose proof (last_zero_le E' s). lia. }
    rewrite app_assoc. f_equal.
    (* front: the first segment starts at 0 instead of s *)
    destruct (E' ++ [ndumps c]) as [|x R] eqn:EX; [destruct E'; discriminate|].
    destruct (map f I0 ++ [f il]) as [|w Wl] eqn:EW; [destruct (map f I0); discriminate|].
    assert (s < x). { assert (chain lt s (x :: R)). { rewrite <- EX. apply chain_lt_snoc; auto. } simpl in H. tauto. }
    cbn [expand_ev]. rewrite app_assoc. f_equal. rewrite Nat.sub_0_r.
    assert (w = f i0).
    { destruct I0; simpl in EW, EIl; inversion EW; inversion EIl; subst; reflexivity. }
    subst w. apply repeat_split. lia.
Qed.

(* one part of the original series against the same part of the series whose first event is moved to dump 0 *)
Lemma part_first_event (c1 c2 : cdV) s E' i0 I' a b :
  uv c2 = uv c1 -> idx c2 = idx c1 -> idx c1 = i0 :: I' -> length E' = length I' ->
  removelast (ev c1) = s :: E' -> removelast (ev c2) = 0 :: E' -> chain lt s E' -> a < b ->
  let p1 := part c1 a b (initf c1 a) in let p2 := part c2 a b (initf c2 a) in
  WF p2 -> start0 p2 -> ndumps p2 = b - a -> idx p2 <> [] ->
  WF p1 /\ start0 p1 /\ ndumps p1 = b - a /\ uv p1 = uv c1 /\ idx p1 <> [] /\ expand dflt p1 = expand dflt p2.
Proof.
  intros EU EIx EI LE R1 R2 C Hab p1 p2 W2 S2 N2 NI2.
  set (win := fun q : nat * nat => (a <=? fst q) && (fst q <? b)).
  set (T := filter win (combine E' I')).
  assert (FT : Forall (fun q => s < fst q /\ a <= fst q /\ fst q < b) T).
  { apply Forall_forall. intros q Hq. unfold T in Hq. apply filter_In in Hq. destruct Hq as [Hq Hw].
    unfold win in Hw. apply andb_true_iff in Hw. destruct Hw as [H1 H2].
    apply Nat.leb_le in H1. apply Nat.ltb_lt in H2. split; [|lia].
    pose proof (chain_lt_Forall _ _ C) as F. apply (Forall_combine_fst (fun x => s < x) E' I') in F.
    rewrite Forall_forall in F. apply F; auto. }
  assert (SEL1 : filter win (combine (removelast (ev c1)) (idx c1)) = (if win (s, i0) then [(s, i0)] else []) ++ T).
  { rewrite R1, EI. cbn [combine filter]. destruct (win (s, i0)); reflexivity. }
  assert (SEL2 : filter win (combine (removelast (ev c2)) (idx c2)) = (if win (0, i0) then [(0, i0)] else []) ++ T).
  { rewrite R2, EIx, EI. cbn [combine filter]. destruct (win (0, i0)); reflexivity. }
  assert (CL0 : forall x, x <= s -> count_le E' x = 0).
  { intros x Hx. apply count_le_zero. eapply Forall_impl; [|apply (chain_lt_Forall _ _ C)]. simpl; intros; lia. }
  assert (HT : a <= s -> forall T0 (q : nat * nat), T = q :: T0 -> exists n, fst q - a = S n).
  { intros Has T0 q ET. rewrite ET in FT. inversion FT; subst. destruct H1 as (? & ? & ?).
    exists (fst q - a - 1). lia. }
  assert (WIN : forall x i, win (x, i) = true <-> a <= x /\ x < b).
  { intros x i. unfold win. cbn [fst]. rewrite andb_true_iff, Nat.leb_le, Nat.ltb_lt. tauto. }
  assert (WINF : forall x i, ~ (a <= x /\ x < b) -> win (x, i) = false).
  { intros x i H. destruct (win (x, i)) eqn:E; auto. apply WIN in E. tauto. }
  assert (WINT : forall x i, a <= x -> x < b -> win (x, i) = true) by (intros; apply WIN; auto).
  (* the three positions of the segment start a relative to the first event s *)
  destruct (Nat.lt_trichotomy s a) as [Hsa|[Hsa|Hsa]].
  - (* A: s < a -- the first event is outside every window that starts at a, in both series *)
    assert (E12 : p1 = p2).
    { unfold p1, p2, part. fold win. rewrite SEL1, SEL2. rewrite !WINF by lia. cbn [app].
      unfold initf. rewrite R1, R2, EU, EIx. rewrite !count_le_cons.
      destruct (Nat.leb_spec s a); [|lia]. destruct (Nat.leb_spec 0 a); [|lia]. reflexivity. }
    rewrite E12. repeat (split; auto). unfold p2, part. destruct (map _ _) as [|[|?] ?]; cbn [uv]; auto.
  - (* B: s = a *)
    subst a. destruct (Nat.eq_dec s 0) as [->|NZ].
    + assert (E12 : p1 = p2).
      { unfold p1, p2, part, initf. rewrite R1, R2, EU, EIx. reflexivity. }
      rewrite E12. repeat (split; auto). unfold p2, part. destruct (map _ _) as [|[|?] ?]; cbn [uv]; auto.
    + assert (E12 : p1 = p2).
      { unfold p1, p2, part. fold win. rewrite SEL1, SEL2. rewrite (WINT s) by lia. rewrite (WINF 0) by lia.
        cbn [app map fst snd]. rewrite Nat.sub_diag.
        assert (I2 : initf c2 s = i0).
        { unfold initf. rewrite R2, EIx, EI, count_le_cons, CL0 by lia. simpl. reflexivity. }
        rewrite I2, EU. destruct T as [|q T0] eqn:ET; [reflexivity|].
        destruct (HT ltac:(lia) T0 q eq_refl) as (n & Hn). cbn [map]. rewrite Hn. reflexivity. }
      rewrite E12. repeat (split; auto). unfold p2, part. destruct (map _ _) as [|[|?] ?]; cbn [uv]; auto.
  - (* C: a < s -- the window starts before the first event *)
    assert (I1 : initf c1 a = i0).
    { unfold initf. rewrite R1, EI, count_le_cons, CL0 by lia. destruct (Nat.leb_spec s a); [lia|]. reflexivity. }
    assert (I2 : initf c2 a = i0).
    { unfold initf. rewrite R2, EIx, EI, count_le_cons, CL0 by lia. simpl. reflexivity. }
    destruct (Nat.le_gt_cases b s) as [Hbs|Hbs].
    + (* C1: the whole window lies before the first event *)
      assert (TN : T = []).
      { destruct T as [|q T0]; [reflexivity|]. inversion FT; subst. lia. }
      assert (E12 : p1 = p2).
      { unfold p1, p2, part. fold win. rewrite SEL1, SEL2, TN, I1, I2, EU. rewrite (WINF s) by lia. cbn [app map].
        destruct (Nat.eq_dec a 0) as [->|NZ].
        * rewrite (WINT 0) by lia. cbn [app map fst snd]. reflexivity.
        * rewrite (WINF 0) by lia. cbn [app map]. reflexivity. }
      rewrite E12. repeat (split; auto). unfold p2, part. destruct (map _ _) as [|[|?] ?]; cbn [uv]; auto.
    + (* C2: the first event lies strictly inside the window: p1 has one more (duplicate) event than p2 *)
      set (evsT := map (fun q : nat * nat => fst q - a) T). set (idsT := map snd T).
      assert (P2 : p2 = mk (uv c1) (i0 :: idsT) (0 :: evsT ++ [b - a])).
      { unfold p2, part. fold win. rewrite SEL2, I2, EU.
        destruct (Nat.eq_dec a 0) as [Z|NZ].
        * rewrite (WINT 0) by lia. cbn [app map fst snd]. fold evsT idsT. rewrite Z. reflexivity.
        * rewrite (WINF 0) by lia. cbn [app]. fold evsT idsT. unfold evsT. destruct T as [|q T0] eqn:ET; [reflexivity|].
          destruct (HT ltac:(lia) T0 q eq_refl) as (n & Hn). cbn [map]. rewrite Hn. reflexivity. }
      assert (P1 : p1 = mk (uv c1) (i0 :: i0 :: idsT) (0 :: (s - a) :: evsT ++ [b - a])).
      { unfold p1, part. fold win. rewrite SEL1, I1. rewrite (WINT s) by lia. cbn [app map fst snd].
        fold evsT idsT. destruct (s - a) eqn:D; [lia|]. reflexivity. }
      rewrite P2 in W2. destruct W2 as (W21 & W22 & W23 & W24). cbn [ev idx uv] in *.
      assert (FE : Forall (fun x => s - a < x) (evsT ++ [b - a])).
      { apply Forall_app. split.
        - unfold evsT. apply Forall_forall. intros x Hx. apply in_map_iff in Hx. destruct Hx as (q & <- & Hq).
          rewrite Forall_forall in FT. destruct (FT q Hq) as (? & ? & ?). lia.
        - constructor; [lia|constructor]. }
      rewrite P1. split; [|split; [|split; [|split; [|split]]]].
      * unfold WF. cbn [ev idx uv]. split; [|split; [|split; auto]].
        -- cbn [incr chain]. split; [lia|]. apply chain_of_incr_lt; auto. apply (rm_chain_incr _ 0). exact W21.
        -- simpl in W22 |- *. lia.
        -- inversion W23; subst. constructor; auto.
      * reflexivity.
      * unfold ndumps. cbn [ev]. change (0 :: s - a :: evsT ++ [b - a]) with ((0 :: s - a :: evsT) ++ [b - a]).
        apply last_last.
      * reflexivity.
      * discriminate.
      * rewrite P2. unfold expand, vals. cbn [uv idx ev expand_evs map].
        destruct (evsT ++ [b - a]) as [|x R] eqn:EX; [destruct evsT; discriminate|].
        inversion FE; subst. cbn [expand_ev]. rewrite app_assoc. f_equal.
        rewrite !Nat.sub_0_r. symmetry. apply repeat_split. lia.
Qed.

(* one part, general *)
Lemma part_spec_gen (c : cdV) a b M : WF c -> idx c <> [] -> a < b -> b <= M -> ndumps c <= M ->
  let p := part c a b (initf c a) in
  WF p /\ start0 p /\ ndumps p = b - a /\ uv p = uv c /\ idx p <> [] /\
  expand dflt p = firstn (b - a) (skipn a (padded dflt c M)).
Proof.
  intros W NI Hab HbM HM p.
  destruct (WF_shape1 c W NI) as (s & E' & i0 & I' & Ev & RL & EI & LE & C).
  destruct (norm_facts c M W NI HM) as (WN & SN & NN & XN).
  assert (RN : removelast (ev (norm c M)) = 0 :: E').
  { unfold norm. cbn [ev]. rewrite RL. simpl tl. change (0 :: E' ++ [M]) with ((0 :: E') ++ [M]). apply removelast_snoc. }
  destruct (part_spec dflt (norm c M) a b WN SN Hab) as (Q1 & Q2 & Q3 & Q4 & Q5 & Q6); [rewrite NN; auto|].
  apply chain_app in C. destruct C as [C1 _].
  destruct (part_first_event c (norm c M) s E' i0 I' a b) as (R1 & R2 & R3 & R4 & R5 & R6); auto.
  repeat (split; auto). fold p in R6. rewrite R6. unfold initf. rewrite Q6, XN. reflexivity.
Qed.

(* the whole partition, general *)
Lemma partition_gen (c : cdV) segs : WF c -> idx c <> [] -> incr segs ->
  map (expand dflt) (partition c segs) = spec_partition (padded dflt c (last segs 0)) segs /\
  (forall p, In p (partition c segs) -> WF p /\ start0 p /\ idx p <> [] /\ uv p = uv c) /\
  list_sum (map ndumps (partition c segs)) = last segs 0 - hd 0 segs.
Proof.
  intros W NI I. rewrite partition_initf. unfold spec_partition. rewrite !map_map.
  set (M := Nat.max (ndumps c) (last segs 0)).
  assert (P : forall q, In q (combine (removelast segs) (tl segs)) -> fst q < snd q /\ snd q <= last segs 0).
  { intros [a b] Hq. destruct (In_pairs_incr segs a b I Hq) as (H1 & H2 & _). split; auto.
    apply (incr_le_last segs I b H2). }
  (* cuts below the last boundary do not see the padding beyond it *)
  assert (CUT : forall a b, a < b -> b <= last segs 0 ->
            firstn (b - a) (skipn a (padded dflt c M)) = firstn (b - a) (skipn a (padded dflt c (last segs 0)))).
  { intros a b Hab Hb. unfold padded.
    destruct (Nat.le_gt_cases (ndumps c) (last segs 0)) as [Hle|Hgt].
    - unfold M. rewrite Nat.max_r by auto. reflexivity.
    - unfold M. rewrite Nat.max_l by lia. rewrite Nat.sub_diag. replace (last segs 0 - ndumps c) with 0 by lia.
      reflexivity. }
  split; [|split].
  - apply map_ext_in. intros [a b] Hq. destruct (P _ Hq) as [H1 H2]. cbn [fst snd] in *.
    destruct (part_spec_gen c a b M W NI H1) as (_ & _ & _ & _ & _ & X); [unfold M; lia|unfold M; lia|].
    rewrite X. apply CUT; auto.
  - intros p Hp. apply in_map_iff in Hp. destruct Hp as ([a b] & <- & Hq). destruct (P _ Hq) as [H1 H2].
    cbn [fst snd] in *.
    destruct (part_spec_gen c a b M W NI H1) as (A1 & A2 & _ & A4 & A5 & _); [unfold M; lia|unfold M; lia|]. auto.
  - transitivity (list_sum (map (fun q => snd q - fst q) (combine (removelast segs) (tl segs)))).
    { f_equal. apply map_ext_in. intros [a b] Hq. destruct (P _ Hq) as [H1 H2]. cbn [fst snd] in *.
      destruct (part_spec_gen c a b M W NI H1) as (_ & _ & A3 & _); [unfold M; lia|unfold M; lia|]. exact A3. }
    clear - I. destruct segs as [|s r]; [reflexivity|]. simpl tl. simpl hd. rewrite last_cons. simpl in I. revert s I.
    unfold list_sum. induction r as [|e r IH]; intros s I. simpl. lia.
    destruct I as [I1 I2]. change (removelast (s :: e :: r)) with (s :: removelast (e :: r)).
    cbn [combine map fold_right fst snd]. rewrite IH by auto. rewrite last_cons.
    pose proof (chain_le_last r e (chain_lt_le _ _ I2)). lia.
Qed.

End PartX.
