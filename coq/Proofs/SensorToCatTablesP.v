(* C10: every entry of the regenerated sensor property tables gives its initial value and its greedy values in
   TRANSFORMED form (in the range of the entry's transform).  Evaluated on the tables of the CURRENT source. *)
From Coq Require Import ZArith List Bool String.
From KV Require Import Base.Sx Base.Str Gen.Generated Model.SensorToCatTables.
Import ListNotations.
Open Scope Z_scope.

Lemma tables_transformed : Forall (fun t => offending t = []) c10_all_tables.
Proof. repeat constructor. Qed.

(* the check discriminates: the entry as it was before the repair of finding F110 (initial value '0', a raw sensor
   value, for a transform that yields booleans) is reported; a correct entry is not *)
Open Scope string_scope.
Example offending_example :
  offending [mk_c10_props "*nd_coupler" (Some true) (Some [TBool true]) (Some (TStr "0"))
                          (TrNotIn [TStr "0"; TStr "False"; TInt 0]) None;
             mk_c10_props "*noise_diode" (Some true) (Some [TBool true]) (Some (TFloat 0 1)) (TrGt 0 1) None;
             mk_c10_props "*activity" None (Some [TStr "slew"; TStr "stop"]) (Some (TStr "slew"))
                          (TrMapGet [("scan", "scan"); ("slew", "slew")] "stop") None;
             mk_c10_props "*activity2" None (Some [TStr "slew"; TStr "halt"]) (Some (TStr "slew"))
                          (TrMapGet [("scan", "scan"); ("slew", "slew")] "stop") None]
  = ["*nd_coupler"; "*noise_diode"; "*activity2"]
  /\ f14_exposed c10_table_v4 <> [].
Proof. vm_compute. split; [reflexivity|discriminate]. Qed.
