From Coq Require Import ZArith List Bool String Lia.
From KV Require Import Base.Sx Base.Str Gen.Generated Model.Telstate Proofs.TelstateP Model.TelstateArrays.
Import ListNotations.
Open Scope string_scope.
Open Scope list_scope.

(* ---------- dict ---------- *)
Lemma dget_dset_same d k v : dget (dset d k v) k = Some v.
Proof.
  induction d as [|[k' v'] d IH]; cbn [dset dget]; [rewrite String.eqb_refl; reflexivity|].
  destruct (String.eqb k' k) eqn:E; cbn [dget]; rewrite E; [reflexivity|exact IH].
Qed.
Lemma dget_dset_other d k k' v : k' <> k -> dget (dset d k v) k' = dget d k'.
Proof.
  intros N. induction d as [|[k0 v0] d IH]; cbn [dset dget].
  - destruct (String.eqb_spec k k'); [congruence|reflexivity].
  - destruct (String.eqb_spec k0 k) as [->|N0]; cbn [dget].
    + destruct (String.eqb_spec k k'); [congruence|reflexivity].
    + destruct (String.eqb k0 k'); [reflexivity|exact IH].
Qed.
Lemma dget_in d k : dget d k <> None <-> In k (dkeys d).
Proof.
  induction d as [|[k0 v0] d IH]; cbn [dget dkeys map fst In]; [tauto|].
  destruct (String.eqb_spec k0 k) as [->|N]; [split; [auto|discriminate]|].
  rewrite IH. unfold dkeys. split; [auto|]. intros [H|H]; [congruence|exact H].
Qed.
Lemma dkeys_dset_in d k v : In k (dkeys d) -> dkeys (dset d k v) = dkeys d.
Proof.
  induction d as [|[k0 v0] d IH]; cbn [dset dkeys map fst In]; [tauto|].
  destruct (String.eqb_spec k0 k) as [->|N]; cbn [map fst]; [reflexivity|].
  intros [H|H]; [congruence|]. f_equal. apply IH. exact H.
Qed.
Lemma dkeys_dset_new d k v : ~ In k (dkeys d) -> dkeys (dset d k v) = dkeys d ++ [k].
Proof.
  induction d as [|[k0 v0] d IH]; cbn [dset dkeys map fst In app]; [reflexivity|].
  intros H. destruct (String.eqb_spec k0 k) as [->|N]; [tauto|]. cbn [map fst]. f_equal. apply IH. tauto.
Qed.

(* ---------- which axes are compared ---------- *)
Lemma shape_key_is_rest s : shape_key s = skipn 1 s.
Proof. reflexivity. Qed.
Lemma shape_key_cons n r : shape_key (n :: r) = r.
Proof. reflexivity. Qed.
Lemma zs_eqb_refl a : zs_eqb a a = true.
Proof.
  unfold zs_eqb. rewrite Nat.eqb_refl. cbn [andb]. induction a as [|x a IH]; cbn [combine forallb fst snd]; [reflexivity|].
  rewrite Z.eqb_refl. exact IH.
Qed.
Lemma zs_eqb_iff a b : zs_eqb a b = true <-> a = b.
Proof. split; [apply zs_eqb_eq|intros ->; apply zs_eqb_refl]. Qed.
(* a difference on ANY axis after the dump axis (channel = 1, baseline = 2, ...; a missing axis counts) makes the
   compared parts differ; the dump axis never does *)
Lemma axis_differs s1 s2 i : (1 <= i)%nat -> nth_error s1 i <> nth_error s2 i -> shape_key s1 <> shape_key s2.
Proof.
  intros Hi N E. apply N. destruct i as [|i]; [lia|].
  destruct s1 as [|a s1], s2 as [|b s2]; rewrite ?shape_key_cons in E; change (shape_key []) with (@nil Z) in E;
    cbn [nth_error]; subst; try reflexivity; destruct i; reflexivity.
Qed.

(* ---------- _ensure_prefix_is_set ---------- *)
Definition with_name (name : option Z) (a : arr) : arr :=
  match a_prefix a with Some _ => a | None => mkA (a_id a) (a_shape a) (a_chunks a) name end.
Lemma ensure_prefix_ok name : forall d d', ensure_prefix name d = Ok d' ->
  d' = map (fun p => (fst p, with_name name (snd p))) d /\ forall k a, In (k, a) d' -> a_prefix a <> None.
Proof.
  induction d as [|[k a] d IH]; intros d' H; cbn [ensure_prefix] in H.
  - injection H as <-. split; [reflexivity|]. intros ? ? [].
  - unfold with_name. cbn [map fst snd]. destruct (a_prefix a) as [p|] eqn:P.
    + destruct (ensure_prefix name d) as [t'|] eqn:E; [|discriminate]. injection H as <-.
      destruct (IH _ eq_refl) as [-> Hp]. split; [reflexivity|].
      intros k0 a0 [H|H]; [injection H as <- <-; congruence|eapply Hp; exact H].
    + destruct name as [n|]; [|discriminate].
      destruct (ensure_prefix (Some n) d) as [t'|] eqn:E; [|discriminate]. injection H as <-.
      destruct (IH _ eq_refl) as [-> Hp]. split; [reflexivity|].
      intros k0 a0 [H|H]; [injection H as <- <-; discriminate|eapply Hp; exact H].
Qed.
(* KeyError exactly when some array has no prefix and the view has no chunk name; never another error *)
Lemma ensure_prefix_err name d : (exists e, ensure_prefix name d = Err e) <->
  name = None /\ exists k a, In (k, a) d /\ a_prefix a = None.
Proof.
  induction d as [|[k a] d IH]; cbn [ensure_prefix].
  - split; [intros [e H]; discriminate|intros [_ (k & a & [] & _)]].
  - destruct (a_prefix a) as [p|] eqn:P.
    + destruct (ensure_prefix name d) as [t'|e'] eqn:E.
      * split; [intros [e H]; discriminate|].
        intros [Hn (k0 & a0 & [H|H] & Hp)]; [injection H as <- <-; congruence|].
        destruct (proj2 IH) as [e He]; [split; [exact Hn|exists k0, a0; auto]|discriminate].
      * split; [|intros _; eauto]. intros _. destruct (proj1 IH) as [Hn (k0 & a0 & Hin & Hp)]; [eauto|].
        split; [exact Hn|exists k0, a0; split; [right; exact Hin|exact Hp]].
    + destruct name as [n|].
      * destruct (ensure_prefix (Some n) d) as [t'|e'] eqn:E.
        -- split; [intros [e H]; discriminate|intros [H _]; discriminate].
        -- destruct (proj1 IH) as [Hn _]; [eauto|discriminate].
      * split; [|intros _; eauto]. intros _. split; [reflexivity|]. exists k, a. split; [left; reflexivity|exact P].
Qed.
Lemma ensure_prefix_err_code name d e : ensure_prefix name d = Err e -> e = 2%Z.
Proof.
  revert e. induction d as [|[k a] d IH]; intros e H; cbn [ensure_prefix] in H; [discriminate|].
  destruct (a_prefix a).
  - destruct (ensure_prefix name d); [discriminate|]. injection H as <-. apply IH. reflexivity.
  - destruct name; [|injection H as <-; reflexivity].
    destruct (ensure_prefix (Some z) d); [discriminate|]. injection H as <-. apply IH. reflexivity.
Qed.

(* ---------- _upgrade_chunk_info ---------- *)
Lemma uci_step d k a t :
  upgrade_chunk_info d ((k, a) :: t) =
  if zs_eqb (shape_key (a_shape a)) (shape_key (a_shape (match dget d k with Some o => o | None => a end)))
  then upgrade_chunk_info (dset d k a) t else Err 1.
Proof. cbn [upgrade_chunk_info]. unfold uci_refuses. destruct (zs_eqb _ _); reflexivity. Qed.

Lemma uci_err d imp e : upgrade_chunk_info d imp = Err e -> e = 1%Z.
Proof.
  revert d. induction imp as [|[k a] t IH]; intros d H; [discriminate|]. rewrite uci_step in H.
  destruct (zs_eqb _ _); [eapply IH; exact H|injection H as <-; reflexivity].
Qed.

(* what must NOT change: every array of the original keeps its key and its non-dump shape, whatever replaces it *)
Lemma uci_keeps imp : forall d d', upgrade_chunk_info d imp = Ok d' ->
  forall k o, dget d k = Some o -> exists a, dget d' k = Some a /\ shape_key (a_shape a) = shape_key (a_shape o).
Proof.
  induction imp as [|[k0 a0] t IH]; intros d d' H k o Hk.
  - injection H as <-. eauto.
  - rewrite uci_step in H. destruct (zs_eqb _ _) eqn:Z; [|discriminate]. apply zs_eqb_eq in Z.
    destruct (String.eqb_spec k k0) as [->|N].
    + rewrite Hk in Z. destruct (IH _ _ H k0 a0 (dget_dset_same _ _ _)) as (a & Ha & Hs).
      exists a. split; [exact Ha|congruence].
    + apply (IH _ _ H). rewrite dget_dset_other; auto.
Qed.

(* the result, array by array (improved infos are dicts: distinct keys) *)
Lemma uci_get imp : NoDup (dkeys imp) -> forall d d', upgrade_chunk_info d imp = Ok d' ->
  forall k, dget d' k = match dget imp k with Some a => Some a | None => dget d k end.
Proof.
  induction imp as [|[k0 a0] t IH]; intros ND d d' H k.
  - injection H as <-. reflexivity.
  - rewrite uci_step in H. destruct (zs_eqb _ _); [|discriminate].
    cbn [dkeys map fst] in ND. inversion ND as [|? ? Hnin ND']; subst.
    rewrite (IH ND' _ _ H k). cbn [dget].
    destruct (String.eqb_spec k0 k) as [->|N].
    + destruct (dget t k) eqn:G; [|apply dget_dset_same].
      exfalso. apply Hnin. apply dget_in. congruence.
    + destruct (dget t k); [reflexivity|]. apply dget_dset_other. congruence.
Qed.

(* accepted iff every offered array that has a counterpart agrees with it on all axes but the dump axis *)
Lemma uci_ok_iff imp : NoDup (dkeys imp) -> forall d,
  (exists d', upgrade_chunk_info d imp = Ok d') <->
  (forall k a o, In (k, a) imp -> dget d k = Some o -> shape_key (a_shape a) = shape_key (a_shape o)).
Proof.
  induction imp as [|[k0 a0] t IH]; intros ND d.
  - split; [intros _ k a o []|intros _; exists d; reflexivity].
  - cbn [dkeys map fst] in ND. inversion ND as [|? ? Hnin ND']; subst.
    rewrite uci_step. split.
    + intros [d' H] k a o Hin Hk. destruct (zs_eqb _ _) eqn:Z; [|discriminate]. apply zs_eqb_eq in Z.
      destruct Hin as [E|Hin].
      * injection E as <- <-. rewrite Hk in Z. exact Z.
      * assert (N : k <> k0).
        { intros ->. apply Hnin. change (In k0 (map fst t)). apply in_map_iff. exists (k0, a). auto. }
        apply (proj1 (IH ND' _) (ex_intro _ d' H) k a o Hin). rewrite dget_dset_other; auto.
    + intros Hall. destruct (dget d k0) as [o|] eqn:G.
      * rewrite (Hall k0 a0 o (or_introl eq_refl) G), zs_eqb_refl.
        apply IH; [exact ND'|]. intros k a o' Hin Hk.
        assert (N : k <> k0).
        { intros ->. apply Hnin. change (In k0 (map fst t)). apply in_map_iff. exists (k0, a). auto. }
        rewrite dget_dset_other in Hk by exact N. eapply Hall; [right; exact Hin|exact Hk].
      * rewrite zs_eqb_refl. apply IH; [exact ND'|]. intros k a o' Hin Hk.
        assert (N : k <> k0).
        { intros ->. apply Hnin. change (In k0 (map fst t)). apply in_map_iff. exists (k0, a). auto. }
        rewrite dget_dset_other in Hk by exact N. eapply Hall; [right; exact Hin|exact Hk].
Qed.

(* per axis: an offered array that differs from its counterpart on the channel axis, OR on the baseline axis, OR on
   any further axis (or in the number of axes) is refused with ValueError - the dump axis is free *)
Lemma uci_axis_refused imp d k a o i : NoDup (dkeys imp) -> In (k, a) imp -> dget d k = Some o ->
  (1 <= i)%nat -> nth_error (a_shape a) i <> nth_error (a_shape o) i -> upgrade_chunk_info d imp = Err 1.
Proof.
  intros ND Hin Hk Hi N. destruct (upgrade_chunk_info d imp) as [d'|e] eqn:U.
  - exfalso. eapply axis_differs; [exact Hi|exact N|]. eapply (proj1 (uci_ok_iff imp ND d)); eauto.
  - f_equal. eapply uci_err. exact U.
Qed.
Lemma uci_dumps_free d k n1 n2 r a : dget d k = Some (mkA (a_id a) (n1 :: r) (a_chunks a) (a_prefix a)) ->
  exists d', upgrade_chunk_info d [(k, mkA 7 (n2 :: r) [] None)] = Ok d'.
Proof.
  intros Hk. rewrite uci_step, Hk. cbn [a_shape]. rewrite !shape_key_cons, zs_eqb_refl. eexists. reflexivity.
Qed.

(* the keys: those of the original in their order, then the new ones in the order they are offered *)
Lemma uci_keys_prefix imp : forall d d', upgrade_chunk_info d imp = Ok d' -> exists extra, dkeys d' = dkeys d ++ extra.
Proof.
  induction imp as [|[k0 a0] t IH]; intros d d' H.
  - injection H as <-. exists []. rewrite app_nil_r. reflexivity.
  - rewrite uci_step in H. destruct (zs_eqb _ _); [|discriminate].
    destruct (IH _ _ H) as [ex E]. destruct (in_dec string_dec k0 (dkeys d)) as [I|I].
    + rewrite dkeys_dset_in in E by exact I. eauto.
    + rewrite dkeys_dset_new in E by exact I. rewrite <- app_assoc in E. eauto.
Qed.

(* ---------- _upgrade_flags on whole chunk infos ---------- *)
Lemma upgradeA_err stream : forall archived cur e, upgrade_flags_A stream cur archived = Err e -> e = 1%Z \/ e = 2%Z.
Proof.
  induction archived as [|f fs IH]; intros cur e H; cbn [upgrade_flags_A] in H; [discriminate|].
  destruct (typeA_is_flags f); [|eauto].
  destruct (fa_src f) as [src|]; [|injection H as <-; auto].
  destruct (mem_string stream src); [|eauto].
  destruct (fa_info f) as [i|]; [|injection H as <-; auto].
  destruct (ensure_prefix (fa_name f) i) as [i'|e'] eqn:E.
  - destruct (upgrade_chunk_info cur i') as [c|e''] eqn:U; [eauto|].
    injection H as <-. left. eapply uci_err. exact U.
  - injection H as <-. right. eapply ensure_prefix_err_code. exact E.
Qed.

(* streams that are not flags streams of the opened stream never matter *)
Lemma upgradeA_ignores_others stream cur : forall archived,
  upgrade_flags_A stream cur archived = upgrade_flags_A stream cur (filter (fun f => negb (negb (typeA_is_flags f)
     || match fa_src f with Some l => negb (mem_string stream l) | None => false end)) archived).
Proof.
  intros archived. revert cur. induction archived as [|f fs IH]; intros cur; [reflexivity|].
  cbn [filter upgrade_flags_A]. destruct (typeA_is_flags f) eqn:T; cbn [negb orb].
  - destruct (fa_src f) as [src|] eqn:S.
    + destruct (mem_string stream src) eqn:M; cbn [negb].
      * cbn [upgrade_flags_A]. rewrite T, S, M.
        destruct (fa_info f) as [i|]; [|reflexivity].
        destruct (ensure_prefix (fa_name f) i); [|reflexivity].
        destruct (upgrade_chunk_info cur a); [apply IH|reflexivity].
      * apply IH.
    + cbn [negb upgrade_flags_A]. rewrite T, S. reflexivity.
  - apply IH.
Qed.

(* what must NOT change: every array of the stream is still there, with its channel / baseline shape *)
Lemma upgradeA_keeps stream : forall archived cur d', upgrade_flags_A stream cur archived = Ok d' ->
  forall k o, dget cur k = Some o -> exists a, dget d' k = Some a /\ shape_key (a_shape a) = shape_key (a_shape o).
Proof.
  induction archived as [|f fs IH]; intros cur d' H k o Hk; cbn [upgrade_flags_A] in H; [injection H as <-; eauto|].
  destruct (typeA_is_flags f); [|eauto].
  destruct (fa_src f) as [src|]; [|discriminate].
  destruct (mem_string stream src); [|eauto].
  destruct (fa_info f) as [i|]; [|discriminate].
  destruct (ensure_prefix (fa_name f) i) as [i'|]; [|discriminate].
  destruct (upgrade_chunk_info cur i') as [c|] eqn:U; [|discriminate].
  destruct (uci_keeps _ _ _ U k o Hk) as (a1 & H1 & S1).
  destruct (IH _ _ H k a1 H1) as (a2 & H2 & S2). exists a2. split; [exact H2|congruence].
Qed.

(* an array that no flags stream of the opened stream offers is the stream's own, untouched *)
Lemma upgradeA_untouched stream k : forall archived cur d', upgrade_flags_A stream cur archived = Ok d' ->
  (forall f i, In f archived -> is_flag_sourceA stream f = true -> fa_info f = Some i -> ~ In k (dkeys i)) ->
  dget d' k = dget cur k.
Proof.
  induction archived as [|f fs IH]; intros cur d' H Hno; cbn [upgrade_flags_A] in H; [injection H as <-; reflexivity|].
  assert (Hfs : forall f0 i, In f0 fs -> is_flag_sourceA stream f0 = true -> fa_info f0 = Some i -> ~ In k (dkeys i))
    by (intros; eapply Hno; eauto; right; assumption).
  pose proof (Hno f) as Hf. unfold is_flag_sourceA in Hf.
  destruct (typeA_is_flags f); [|eauto].
  destruct (fa_src f) as [src|]; [|discriminate].
  destruct (mem_string stream src); [|eauto].
  destruct (fa_info f) as [i|]; [|discriminate].
  destruct (ensure_prefix (fa_name f) i) as [i'|] eqn:E; [|discriminate].
  destruct (upgrade_chunk_info cur i') as [c|] eqn:U; [|discriminate].
  rewrite (IH _ _ H Hfs). clear IH H Hfs.
  specialize (Hf i (or_introl eq_refl) eq_refl eq_refl).
  destruct (ensure_prefix_ok _ _ _ E) as [-> _].
  assert (Hk : ~ In k (dkeys (map (fun p => (fst p, with_name (fa_name f) (snd p))) i))).
  { unfold dkeys. rewrite map_map. exact Hf. }
  clear E Hf. revert cur c U Hk. generalize (map (fun p => (fst p, with_name (fa_name f) (snd p))) i) as imp.
  induction imp as [|[k0 a0] t IHt]; intros cur c U Hk.
  - injection U as <-. reflexivity.
  - rewrite uci_step in U. destruct (zs_eqb _ _); [|discriminate]. cbn [dkeys map fst In] in Hk.
    rewrite (IHt _ _ U) by (intros X; apply Hk; right; exact X).
    apply dget_dset_other. intros ->. apply Hk. left. reflexivity.
Qed.

(* the archived list is processed piecewise *)
Lemma upgradeA_composes stream : forall a b cur,
  upgrade_flags_A stream cur (a ++ b) =
  match upgrade_flags_A stream cur a with Ok c => upgrade_flags_A stream c b | Err e => Err e end.
Proof.
  induction a as [|f fs IH]; intros b cur; [reflexivity|]. cbn [app upgrade_flags_A].
  destruct (typeA_is_flags f); [|apply IH].
  destruct (fa_src f) as [src|]; [|reflexivity].
  destruct (mem_string stream src); [|apply IH].
  destruct (fa_info f) as [i|]; [|reflexivity].
  destruct (ensure_prefix (fa_name f) i); [|reflexivity].
  destruct (upgrade_chunk_info cur a); [apply IH|reflexivity].
Qed.

(* LAST offering stream wins, per array: after a final flags stream of the opened stream whose (completed) info is
   accepted, each of its arrays is the one it offers *)
Lemma upgradeA_last_wins stream archived f i i' cur c k a :
  is_flag_sourceA stream f = true -> fa_info f = Some i -> ensure_prefix (fa_name f) i = Ok i' -> NoDup (dkeys i') ->
  upgrade_flags_A stream cur (archived ++ [f]) = Ok c -> dget i' k = Some a -> dget c k = Some a.
Proof.
  intros Hs Hi He ND H Hk. rewrite upgradeA_composes in H.
  destruct (upgrade_flags_A stream cur archived) as [c0|]; [|discriminate].
  cbn [upgrade_flags_A] in H. unfold is_flag_sourceA in Hs. apply andb_true_iff in Hs. destruct Hs as [T M].
  rewrite T in H. destruct (fa_src f) as [src|]; [|discriminate]. rewrite M, Hi, He in H.
  destruct (upgrade_chunk_info c0 i') as [c1|] eqn:U; [|discriminate]. injection H as <-.
  rewrite (uci_get _ ND _ _ U k), Hk. reflexivity.
Qed.

(* ---------- the flags-only abstraction of Model.Telstate is the projection of this model ---------- *)
Lemma cinfo_of_single k a : String.eqb k flags_name = true -> a_prefix a <> None ->
  exists p, a_prefix a = Some p /\ cinfo_of [(k, a)] = Some (mkC (a_id a) (a_dumps a) (rest_of a) p).
Proof.
  intros E P. unfold cinfo_of. cbn [dget]. rewrite E. destruct (a_prefix a) as [p|]; [eauto|congruence].
Qed.

(* when every archived stream holds (at most) a flags array, as MeerKAT's flag streams do, the upgrade of the whole
   chunk info, seen through its flags array, is the upgrade of Model.Telstate (and errors coincide) *)
Lemma upgradeA_refines stream : forall archived cur c0,
  forallb only_flags archived = true -> cinfo_of cur = Some c0 ->
  match upgrade_flags_A stream cur archived with
  | Ok d => option_map Ok (cinfo_of d) = Some (upgrade_flags stream c0 (map fstream_of_A archived))
  | Err e => upgrade_flags stream c0 (map fstream_of_A archived) = Err e
  end.
Proof.
  induction archived as [|f fs IH]; intros cur c0 Hall Hc; cbn [upgrade_flags_A map upgrade_flags].
  - rewrite Hc. reflexivity.
  - cbn [forallb] in Hall. apply andb_true_iff in Hall. destruct Hall as [Hf Hall].
    unfold type_is_flags, typeA_is_flags. cbn [fstream_of_A f_type f_src f_info].
    destruct (match fa_type f with Some t => String.eqb t fl_type | None => false end); [|apply IH; assumption].
    destruct (fa_src f) as [src|]; [|reflexivity].
    destruct (mem_string stream src); [|apply IH; assumption].
    unfold only_flags in Hf. destruct (fa_info f) as [i|]; [|reflexivity].
    destruct i as [|[k a] [|? ?]]; try discriminate.
    cbn [ensure_prefix]. destruct (a_prefix a) as [p|] eqn:P.
    + assert (CI : cinfo_of [(k, a)] = Some (mkC (a_id a) (a_dumps a) (rest_of a) p))
        by (unfold cinfo_of; cbn [dget]; rewrite Hf, P; reflexivity).
      rewrite CI. rewrite uci_step. unfold cinfo_of in Hc. apply String.eqb_eq in Hf. subst k.
      destruct (dget cur flags_name) as [o|] eqn:G; [|discriminate].
      destruct (a_prefix o) as [po|] eqn:Po; [|discriminate]. injection Hc as <-. cbn [c_rest].
      rewrite !shape_key_is_rest. unfold rest_of.
      assert (Hsk : forall s : list Z, skipn 1 s = tl s) by (intros [|? ?]; reflexivity). rewrite !Hsk.
      destruct (zs_eqb (tl (a_shape a)) (tl (a_shape o))); [|reflexivity].
      apply IH; [exact Hall|]. unfold cinfo_of. rewrite dget_dset_same, P. reflexivity.
    + destruct (fa_name f) as [n|]; [|reflexivity].
      set (a' := mkA (a_id a) (a_shape a) (a_chunks a) (Some n)).
      assert (CI : cinfo_of [(k, a')] = Some (mkC (a_id a') (a_dumps a') (rest_of a') n))
        by (unfold cinfo_of; cbn [dget]; rewrite Hf; reflexivity).
      rewrite CI. rewrite uci_step. unfold cinfo_of in Hc. apply String.eqb_eq in Hf. subst k.
      destruct (dget cur flags_name) as [o|] eqn:G; [|discriminate].
      destruct (a_prefix o) as [po|] eqn:Po; [|discriminate]. injection Hc as <-. cbn [c_rest a_shape].
      rewrite !shape_key_is_rest. unfold rest_of. cbn [a_shape].
      assert (Hsk : forall s : list Z, skipn 1 s = tl s) by (intros [|? ?]; reflexivity). rewrite !Hsk.
      destruct (zs_eqb (tl (a_shape a')) (tl (a_shape o))); [|reflexivity].
      apply IH; [exact Hall|]. unfold cinfo_of. rewrite dget_dset_same. reflexivity.
Qed.

(* ---------- _align_chunk_info on whole chunk infos ---------- *)
Lemma max_dumps_ge d k a : In (k, a) d -> (a_dumps a <= max_dumps d)%Z.
Proof.
  intros H. unfold max_dumps. apply zmax_ge. change (a_dumps a) with ((fun p : string * arr => a_dumps (snd p)) (k, a)).
  apply in_map. exact H.
Qed.
Lemma repeat1_sum n : dumps_of (repeat al_phantom n) = Z.of_nat n.
Proof. apply dumps_repeat1. Qed.

(* every array spans the longest one; its own chunks are kept and one-dump phantom chunks follow; nothing else of
   it changes; keys and order are kept *)
Lemma alignA_spec d k a : In (k, a) d ->
  let b := align_arr (max_dumps d) a in
  In (k, b) (align_A d) /\ a_dumps b = max_dumps d /\ tl (a_shape b) = tl (a_shape a) /\ a_id b = a_id a
  /\ a_prefix b = a_prefix a
  /\ exists n, a_chunks b = a_chunks a ++ repeat 1%Z n /\ Z.of_nat n = (max_dumps d - a_dumps a)%Z.
Proof.
  intros Hin b. pose proof (max_dumps_ge _ _ _ Hin) as Hle. split.
  - unfold align_A. change (k, b) with ((fun p : string * arr => (fst p, align_arr (max_dumps d) (snd p))) (k, a)).
    apply in_map. exact Hin.
  - subst b. unfold align_arr, al_extends. destruct (Z.ltb_spec (a_dumps a) (max_dumps d)) as [L|L].
    + cbn [a_dumps a_shape a_id a_prefix a_chunks tl]. repeat split; try reflexivity.
      exists (Z.to_nat (max_dumps d - a_dumps a)). split; [reflexivity|lia].
    + repeat split; try reflexivity; [lia|]. exists O. cbn [repeat]. rewrite app_nil_r. split; [reflexivity|lia].
Qed.
Lemma alignA_keys d : dkeys (align_A d) = dkeys d.
Proof. unfold align_A, dkeys. rewrite map_map. reflexivity. Qed.
Lemma alignA_get d k : dget (align_A d) k = option_map (align_arr (max_dumps d)) (dget d k).
Proof.
  unfold align_A. generalize (max_dumps d) as m. intros m.
  induction d as [|[k0 a0] d IH]; cbn [map dget fst snd option_map]; [reflexivity|].
  destruct (String.eqb k0 k); [reflexivity|exact IH].
Qed.
Lemma alignA_chunks_sum d k a : In (k, a) d -> dumps_of (a_chunks a) = a_dumps a ->
  dumps_of (a_chunks (align_arr (max_dumps d) a)) = max_dumps d.
Proof.
  intros Hin Hs. destruct (alignA_spec d k a Hin) as (_ & _ & _ & _ & _ & n & E & Hn).
  rewrite E, dumps_app, dumps_repeat1. lia.
Qed.

(* ---------- the whole preparation ---------- *)
(* the data set spans the longest array of the upgraded chunk info: all arrays, and the synthesised timestamps *)
Lemma prepare_span up stream own name archived d : prepare up stream own name archived = Ok d ->
  exists c, d = align_A c /\
  (forall k a, dget d k = Some a -> a_dumps a = max_dumps c) /\
  (forall n, n_timestamps d = Some n -> n = max_dumps c).
Proof.
  unfold prepare. destruct (ensure_prefix name own) as [own'|]; [|discriminate].
  destruct (if up then upgrade_flags_A stream own' archived else Ok own') as [c|] eqn:U; [|discriminate].
  intros H. injection H as <-. exists c. split; [reflexivity|].
  assert (G : forall k a, dget (align_A c) k = Some a -> a_dumps a = max_dumps c).
  { intros k a Hk. rewrite alignA_get in Hk. destruct (dget c k) as [a0|] eqn:G0; [|discriminate].
    injection Hk as <-.
    assert (Hin : In (k, a0) c).
    { clear - G0. induction c as [|[k1 a1] c IH]; cbn [dget] in G0; [discriminate|].
      destruct (String.eqb_spec k1 k) as [->|N]; [injection G0 as ->; left; reflexivity|right; auto]. }
    apply (alignA_spec c k a0 Hin). }
  split; [exact G|]. intros n Hn. unfold n_timestamps in Hn.
  destruct (dget (align_A c) ds_dumps_array) as [a|] eqn:E; [|discriminate]. injection Hn as <-. eapply G. exact E.
Qed.
(* "unless disabled": no archived stream is looked at *)
Lemma prepare_disabled stream own name a1 a2 : prepare false stream own name a1 = prepare false stream own name a2.
Proof. reflexivity. Qed.
Lemma prepare_err up stream own name archived e : prepare up stream own name archived = Err e -> e = 1%Z \/ e = 2%Z.
Proof.
  unfold prepare. destruct (ensure_prefix name own) as [own'|e'] eqn:E.
  - destruct up.
    + destruct (upgrade_flags_A stream own' archived) as [c|e''] eqn:U; [discriminate|].
      intros H. injection H as <-. eapply upgradeA_err. exact U.
    + discriminate.
  - intros H. injection H as <-. right. eapply ensure_prefix_err_code. exact E.
Qed.

(* ---------- non-vacuity ---------- *)
Definition ex_own : cdict :=
  [("correlator_data", mkA 0 [3; 4; 12] [1; 1; 1] (Some 100)); ("flags", mkA 0 [3; 4; 12] [1; 1; 1] (Some 100));
   ("weights", mkA 0 [3; 4; 12] [3] None)]%Z.
Definition ex_fl (shape : list Z) : fstreamA :=
  mkFA (Some "sdp.flags") (Some ["sdp_l0"]) (Some [("flags", mkA 1 shape [5] None); ("extra", mkA 1 [2; 9] [2] (Some 102))])
       (Some 101%Z).
Example nonvacuous_arrays :
  (* longer flags stream: flags replaced (prefix = its chunk name), a new array added, every array spans 5 dumps *)
  prepare true "sdp_l0" ex_own (Some 99%Z) [ex_fl [5; 4; 12]%Z] =
    Ok [("correlator_data", mkA 0 [5; 4; 12] [1; 1; 1; 1; 1] (Some 100)); ("flags", mkA 1 [5; 4; 12] [5] (Some 101));
        ("weights", mkA 0 [5; 4; 12] [3; 1; 1] (Some 99)); ("extra", mkA 1 [5; 9] [2; 1; 1; 1] (Some 102))]%Z
  (* baseline-only and channel-only mismatches are refused, a dump-only difference is not *)
  /\ prepare true "sdp_l0" ex_own (Some 99%Z) [ex_fl [5; 4; 8]%Z] = Err 1
  /\ prepare true "sdp_l0" ex_own (Some 99%Z) [ex_fl [3; 6; 12]%Z] = Err 1
  /\ prepare true "sdp_l0" ex_own (Some 99%Z) [ex_fl [3; 4]%Z] = Err 1
  (* disabled: not even an incompatible stream is looked at *)
  /\ prepare false "sdp_l0" ex_own (Some 99%Z) [ex_fl [5; 4; 8]%Z] =
       Ok [("correlator_data", mkA 0 [3; 4; 12] [1; 1; 1] (Some 100)); ("flags", mkA 0 [3; 4; 12] [1; 1; 1] (Some 100));
           ("weights", mkA 0 [3; 4; 12] [3] (Some 99))]%Z
  (* no chunk name where one is needed *)
  /\ prepare true "sdp_l0" ex_own None [] = Err 2
  /\ prepare true "sdp_l0" ex_own (Some 99%Z) [mkFA (Some "sdp.flags") (Some ["sdp_l0"]) (Some [("flags", mkA 1 [3; 4; 12]%Z [3%Z] None)]) None] = Err 2.
Proof. vm_compute. repeat split; reflexivity. Qed.
