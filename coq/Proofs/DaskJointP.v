(* C04 — joint retrieval: get() keyed by dask names = one by one as long as the names separate different
   (store, array, chain) triples; the chunk reads of the one merged computation are the chunks meeting the region of
   some indexer of that stored array, each once. *)
From Coq Require Import ZArith List Bool Lia Permutation.
From KV Require Import Base.Sx Model.DaskIdx Model.DaskJoint Proofs.DaskReadsP.
Import ListNotations.
Open Scope Z_scope.

(* ------------------------------------------------------------------------------------------- *)
(* 0. d_sequence                                                                               *)
(* ------------------------------------------------------------------------------------------- *)
Lemma d_sequence_Forall2 {A} : forall (l : list (option A)) rs,
  d_sequence l = Some rs <-> Forall2 (fun o r => o = Some r) l rs.
Proof.
  induction l as [|o l IH]; intros rs; cbn [d_sequence].
  - split; [intros H; injection H as <-; constructor|intros H; inversion H; reflexivity].
  - destruct o as [a|].
    + destruct (d_sequence l) as [rs'|] eqn:E.
      * split.
        -- intros H. injection H as <-. constructor; [reflexivity|]. apply IH. reflexivity.
        -- intros H. inversion H as [|? r ? rs'' Hr Hrs]; subst. apply IH in Hrs. congruence.
      * split; [discriminate|]. intros H. inversion H as [|? r ? rs'' Hr Hrs]; subst. apply IH in Hrs. discriminate.
    + split; [discriminate|]. intros H. inversion H; subst. discriminate.
Qed.

Lemma d_sequence_None {A} : forall (l : list (option A)), d_sequence l = None <-> In None l.
Proof.
  induction l as [|o l IH]; cbn [d_sequence In].
  - split; [discriminate|intros []].
  - destruct o as [a|].
    + destruct (d_sequence l) as [rs'|] eqn:E.
      * split; [discriminate|]. intros [H|H]; [discriminate|]. apply IH in H. discriminate.
      * split; [|reflexivity]. intros _. right. apply IH. reflexivity.
    + split; [|reflexivity]. intros _. left. reflexivity.
Qed.

(* ------------------------------------------------------------------------------------------- *)
(* 1. get() keyed by names                                                                     *)
(* ------------------------------------------------------------------------------------------- *)
Lemma d_get_joint_sequence : forall l k, d_get_joint l k = d_sequence (map (fun i => d_index i k) l).
Proof.
  induction l as [|i l IH]; intros k; cbn [d_get_joint map d_sequence]; [reflexivity|].
  rewrite IH. destruct (d_index i k); reflexivity.
Qed.

Section Named.
  Variable w : Z -> Z -> d_arr.
  Variable tf : Z -> d_arr -> d_arr.
  Variable K : Type.
  Variable keqb : K -> K -> bool.
  Variable name : j_ind -> K.
  Hypothesis keqb_refl : forall a, keqb a a = true.

  (* generic form: names may coincide only for indexers that select the same array *)
  Lemma j_get_named_gen : forall l k2,
    (forall i j, In i l -> In j l -> keqb (name j) (name i) = true ->
       d_index (j_sem w tf j) k2 = d_index (j_sem w tf i) k2) ->
    j_get w tf K keqb name l k2 = d_get_joint (map (j_sem w tf) l) k2.
  Proof.
    intros l k2 H. unfold j_get, j_kept. rewrite d_get_joint_sequence. rewrite !map_map. f_equal.
    apply map_ext_in. intros i Hi. cbn [fst]. unfold j_first.
    destruct (find (fun p => keqb (fst p) (name i)) (map (fun i0 => (name i0, d_index (j_sem w tf i0) k2)) l))
      as [p|] eqn:E.
    - apply find_some in E. destruct E as [Hp Hk]. apply in_map_iff in Hp. destruct Hp as (j & <- & Hj).
      cbn [fst snd] in *. apply H; assumption.
    - exfalso. assert (Hin : In (name i, d_index (j_sem w tf i) k2)
                               (map (fun i0 => (name i0, d_index (j_sem w tf i0) k2)) l))
        by (apply in_map_iff; exists i; split; [reflexivity|assumption]).
      pose proof (find_none _ _ E _ Hin) as Hf. cbn [fst] in Hf. rewrite keqb_refl in Hf. discriminate.
  Qed.

  (* names that separate different (store, array name, chain) triples *)
  Lemma j_get_named : forall l k2,
    (forall i j, In i l -> In j l -> keqb (name i) (name j) = true ->
       ji_store i = ji_store j /\ ji_name i = ji_name j /\ ji_chain i = ji_chain j) ->
    j_get w tf K keqb name l k2 = d_get_joint (map (j_sem w tf) l) k2.
  Proof.
    intros l k2 H. apply j_get_named_gen. intros i j Hi Hj Hk.
    destruct (H j i Hj Hi Hk) as (A & B & C). destruct i, j. cbn in A, B, C. subst. reflexivity.
  Qed.
End Named.

(* the name katdal/dask build (a function of store, array name and chain) *)
Lemma j_get_names : forall w tf l k2,
  j_get w tf j_ind j_ind_eqb j_name l k2 = d_get_joint (map (j_sem w tf) l) k2.
Proof.
  intros w tf l k2. apply j_get_named.
  - intros a. unfold j_ind_eqb. destruct (j_ind_eq_dec a a); [reflexivity|congruence].
  - intros i j _ _. unfold j_ind_eqb, j_name. destruct (j_ind_eq_dec i j) as [->|]; [auto|discriminate].
Qed.

(* a name that forgets the store is refuted: two stores holding an array under the same name *)
Lemma j_get_nostore_refuted : exists shape l k2,
  option_map (map d_values) (j_get (j_world shape) d_transform _ j_nostore_eqb j_name_nostore l k2) = Some [[0; 1]; [0; 1]] /\
  option_map (map d_values) (d_get_joint (map (j_sem (j_world shape) d_transform) l) k2) = Some [[0; 1]; [2000; 2001]].
Proof.
  exists [2], [JI 0 0 [([], [])]; JI 1 0 [([], [])]], []. split; vm_compute; reflexivity.
Qed.

(* ------------------------------------------------------------------------------------------- *)
(* 2. products                                                                                 *)
(* ------------------------------------------------------------------------------------------- *)
Lemma d_product_In : forall ls c, In c (d_product ls) <-> Forall2 (fun x l => In x l) c ls.
Proof.
  induction ls as [|l ls IH]; intros c; cbn [d_product].
  - split.
    + intros [<-|[]]. constructor.
    + intros H. inversion H. left. reflexivity.
  - rewrite in_flat_map. split.
    + intros (x & Hx & Hc). apply in_map_iff in Hc. destruct Hc as (c' & <- & Hc'). constructor; [assumption|].
      apply IH. assumption.
    + intros H. inversion H as [|x ? c' ? Hx Hc']; subst. exists x. split; [assumption|].
      apply in_map_iff. exists c'. split; [reflexivity|]. apply IH. assumption.
Qed.

Lemma j_forall2b_Forall2 {A B} (p : A -> B -> bool) : forall l m,
  j_forall2b p l m = true <-> Forall2 (fun a b => p a b = true) l m.
Proof.
  induction l as [|a l IH]; intros [|b m]; cbn [j_forall2b].
  - split; [constructor|reflexivity].
  - split; [discriminate|intros H; inversion H].
  - split; [discriminate|intros H; inversion H].
  - rewrite andb_true_iff, IH. split.
    + intros [P Q]. constructor; assumption.
    + intros H. inversion H; subst. split; assumption.
Qed.

(* ------------------------------------------------------------------------------------------- *)
(* 3. one axis: membership in the spec read set = the boolean overlap test                     *)
(* ------------------------------------------------------------------------------------------- *)
Lemma j_meets_axis_spec : forall cs ks ids id,
  d_spec_reads_axis cs ks = Some ids -> (In id ids <-> j_meets_axis id (cs, ks) = true).
Proof.
  intros cs ks ids id H. unfold d_spec_reads_axis in H. unfold j_meets_axis. cbn [fst snd].
  destruct (d_compose_region 0 (fold_right Z.add 0 cs) ks) as [[lo hi]|]; [|discriminate].
  injection H as <-. rewrite d_meeting_iff. unfold j_off. split.
  - intros (H0 & c & Hc & Hm). rewrite Hc. apply andb_true_iff. split; [apply Z.leb_le; assumption|apply Z.ltb_lt; assumption].
  - intros H. apply andb_true_iff in H. destruct H as [H0 H1]. apply Z.leb_le in H0. split; [assumption|].
    destruct (nth_error cs (Z.to_nat id)) as [c|]; [|discriminate]. exists c. split; [reflexivity|].
    apply Z.ltb_lt. assumption.
Qed.

(* what the boolean test says, spelled out *)
Lemma j_meets_axis_iff : forall cs ks id, j_meets_axis id (cs, ks) = true <->
  exists lo hi, d_compose_region 0 (fold_right Z.add 0 cs) ks = Some (lo, hi) /\ 0 <= id /\
    exists c, nth_error cs (Z.to_nat id) = Some c /\
      Z.max lo (fold_right Z.add 0 (firstn (Z.to_nat id) cs)) <
      Z.min hi (fold_right Z.add 0 (firstn (Z.to_nat id) cs) + c).
Proof.
  intros cs ks id. unfold j_meets_axis, j_off. cbn [fst snd].
  destruct (d_compose_region 0 (fold_right Z.add 0 cs) ks) as [[lo hi]|].
  - rewrite andb_true_iff, Z.leb_le. split.
    + intros [H0 H1]. exists lo, hi. split; [reflexivity|]. split; [assumption|].
      destruct (nth_error cs (Z.to_nat id)) as [c|]; [|discriminate]. exists c. split; [reflexivity|].
      apply Z.ltb_lt. assumption.
    + intros (lo' & hi' & E & H0 & c & Hc & Hm). injection E as <- <-. split; [assumption|].
      rewrite Hc. apply Z.ltb_lt. assumption.
  - split; [discriminate|]. intros (lo & hi & E & _). discriminate.
Qed.

Definition j_pos (i : j_rind) : Prop := Forall (fun ax => Forall (fun c => 0 < c) (fst ax)) (jr_axes i).

(* ------------------------------------------------------------------------------------------- *)
(* 4. the tasks of one selected array                                                          *)
(* ------------------------------------------------------------------------------------------- *)
Lemma j_axes_Forall2 : forall (axes : list (list Z * list d_aidx)) idss,
  Forall (fun ax => Forall (fun c => 0 < c) (fst ax)) axes ->
  Forall2 (fun o r => o = Some r) (map (fun ax => d_reads_axis (fst ax) (snd ax)) axes) idss ->
  forall c, Forall2 (fun x l => In x l) c idss <-> Forall2 (fun id ax => j_meets_axis id ax = true) c axes.
Proof.
  induction axes as [|[cs ks] axes IH]; intros idss HP H c; cbn [map] in H.
  - inversion H; subst. split; intros H1; inversion H1; constructor.
  - inversion H as [|? ids ? idss' Ha Hr]; subst. inversion HP as [|? ? Hp1 Hp2]; subst. cbn [fst snd] in *.
    rewrite d_reads_model_is_spec in Ha by assumption.
    split; intros H1; inversion H1 as [|x ? c' ? Hx Hc']; subst; constructor.
    + apply (j_meets_axis_spec cs ks ids x Ha). assumption.
    + apply (IH idss' Hp2 Hr c'). assumption.
    + apply (j_meets_axis_spec cs ks ids x Ha). assumption.
    + apply (IH idss' Hp2 Hr c'). assumption.
Qed.

Lemma j_tasks_In : forall i t key, j_pos i -> j_tasks d_reads_axis i = Some t ->
  (In key t <-> j_overlaps key i = true).
Proof.
  intros i t [[s n] c] HP H. unfold j_tasks in H.
  destruct (d_sequence (map (fun ax => d_reads_axis (fst ax) (snd ax)) (jr_axes i))) as [idss|] eqn:E; [|discriminate].
  injection H as <-. apply d_sequence_Forall2 in E.
  unfold j_overlaps. cbn [fst snd]. rewrite !andb_true_iff, !Z.eqb_eq, j_forall2b_Forall2.
  rewrite <- (j_axes_Forall2 (jr_axes i) idss HP E c), <- d_product_In, in_map_iff. split.
  - intros (c' & Hc & Hin). injection Hc as <- <- <-. auto.
  - intros [[<- <-] Hin]. exists c. split; [reflexivity|assumption].
Qed.

Lemma j_tasks_contig : forall i, j_pos i ->
  (j_tasks d_reads_axis i <> None <-> j_contig i = true).
Proof.
  intros i HP. unfold j_tasks, j_contig, j_pos in *.
  induction (jr_axes i) as [|[cs ks] axes IH]; cbn [map d_sequence forallb].
  - split; [reflexivity|discriminate].
  - inversion HP as [|? ? Hp1 Hp2]; subst. cbn [fst snd] in *. specialize (IH Hp2).
    rewrite d_reads_model_is_spec by assumption. unfold d_spec_reads_axis at 1.
    destruct (d_compose_region 0 (fold_right Z.add 0 cs) ks) as [[lo hi]|]; cbn [andb].
    + rewrite <- IH.
      destruct (d_sequence (map (fun ax => d_reads_axis (fst ax) (snd ax)) axes)); split; congruence.
    + split; [congruence|discriminate].
Qed.

(* ------------------------------------------------------------------------------------------- *)
(* 5. the joint read set                                                                       *)
(* ------------------------------------------------------------------------------------------- *)
Theorem j_reads_spec : forall l rs, (forall i, In i l -> j_pos i) -> j_reads l = Some rs ->
  NoDup rs /\ forall key, In key rs <-> exists i, In i l /\ j_overlaps key i = true.
Proof.
  intros l rs HP H. unfold j_reads in H.
  destruct (d_sequence (map (j_tasks d_reads_axis) l)) as [ls|] eqn:E; [|discriminate].
  injection H as <-. split; [apply NoDup_nodup|]. intros key. rewrite nodup_In, in_concat.
  apply d_sequence_Forall2 in E. clear -E HP. revert ls E. induction l as [|i l IH]; intros ls E.
  - inversion E; subst. split; [intros (t & [] & _)|intros (i & [] & _)].
  - cbn [map] in E. inversion E as [|? t ? ls' Ht Hr]; subst.
    assert (HPl : forall i0, In i0 l -> j_pos i0) by (intros; apply HP; right; assumption).
    specialize (IH HPl ls' Hr). split.
    + intros (t' & [<-|Ht'] & Hk).
      * exists i. split; [left; reflexivity|]. apply (j_tasks_In i t key (HP i (or_introl eq_refl)) Ht). assumption.
      * destruct (proj1 IH (ex_intro _ t' (conj Ht' Hk))) as (j & Hj & Ho). exists j. split; [right|]; assumption.
    + intros (j & [<-|Hj] & Ho).
      * exists t. split; [left; reflexivity|]. apply (j_tasks_In i t key (HP i (or_introl eq_refl)) Ht). assumption.
      * destruct (proj2 IH (ex_intro _ j (conj Hj Ho))) as (t' & Ht' & Hk). exists t'. split; [right|]; assumption.
Qed.

Lemma j_overlaps_all_chunks : forall key i, j_overlaps key i = true -> In key (j_all_chunks i).
Proof.
  intros [[s n] c] i H. unfold j_overlaps in H. cbn [fst snd] in H.
  rewrite !andb_true_iff, !Z.eqb_eq, j_forall2b_Forall2 in H. destruct H as [[<- <-] H].
  unfold j_all_chunks. apply in_map_iff. exists c. split; [reflexivity|]. apply d_product_In.
  induction H as [|id [cs ks] c' axes Hm Hr IH]; cbn [map]; constructor; [|assumption].
  apply j_meets_axis_iff in Hm. destruct Hm as (lo & hi & _ & H0 & c0 & Hc & _). cbn [fst].
  apply in_map_iff. exists (Z.to_nat id). split; [lia|]. apply in_seq.
  assert (Z.to_nat id < List.length cs)%nat by (apply nth_error_Some; congruence). lia.
Qed.

Theorem j_spec_reads_spec : forall l rs, j_spec_reads l = Some rs ->
  NoDup rs /\ forall key, In key rs <-> exists i, In i l /\ j_overlaps key i = true.
Proof.
  intros l rs H. unfold j_spec_reads in H. destruct (forallb j_contig l); [|discriminate]. injection H as <-.
  split; [apply NoDup_filter, NoDup_nodup|]. intros key. rewrite filter_In, nodup_In, in_flat_map, existsb_exists.
  split; [intros [_ H]; exact H|]. intros (i & Hi & Ho). split; [|exists i; auto].
  exists i. split; [assumption|]. apply j_overlaps_all_chunks. assumption.
Qed.

Lemma j_reads_some_iff : forall l, (forall i, In i l -> j_pos i) ->
  (j_reads l <> None <-> forallb j_contig l = true).
Proof.
  intros l HP. unfold j_reads.
  assert (A : d_sequence (map (j_tasks d_reads_axis) l) <> None <-> forallb j_contig l = true).
  { rewrite forallb_forall. split.
    - intros H i Hi. apply (j_tasks_contig i (HP i Hi)). intros E. apply H. apply d_sequence_None.
      rewrite <- E. apply in_map. assumption.
    - intros H E. apply d_sequence_None in E. apply in_map_iff in E. destruct E as (i & E & Hi).
      apply (j_tasks_contig i (HP i Hi)) in E; [assumption|]. apply H. assumption. }
  rewrite <- A. destruct (d_sequence (map (j_tasks d_reads_axis) l)); cbn [option_map]; split; congruence.
Qed.

(* model = spec: both fail together, else the same chunks, each once *)
Theorem j_reads_model_is_spec : forall l, (forall i, In i l -> j_pos i) ->
  match j_reads l, j_spec_reads l with
  | Some rs, Some rs' => Permutation rs rs' /\ NoDup rs
  | None, None => True
  | _, _ => False
  end.
Proof.
  intros l HP. pose proof (j_reads_some_iff l HP) as A.
  destruct (j_reads l) as [rs|] eqn:E1; destruct (j_spec_reads l) as [rs'|] eqn:E2.
  - destruct (j_reads_spec l rs HP E1) as [N1 I1]. destruct (j_spec_reads_spec l rs' E2) as [N2 I2].
    split; [|assumption]. apply NoDup_Permutation; try assumption. intros key. rewrite I1, I2. reflexivity.
  - unfold j_spec_reads in E2. destruct (forallb j_contig l); [discriminate|].
    assert (false = true) by (apply A; discriminate). discriminate.
  - unfold j_spec_reads in E2. destruct (forallb j_contig l); [|discriminate].
    exfalso. apply (proj2 A); reflexivity.
  - exact Logic.I.
Qed.

(* one computation per selected array (nothing shared) reads a chunk more than once *)
Lemma j_reads_seq_refuted : exists l rs, (forall i, In i l -> j_pos i) /\ j_reads_seq l = Some rs /\ ~ NoDup rs /\
  exists rs', j_reads l = Some rs' /\ NoDup rs'.
Proof.
  exists [JR 0 0 [([2; 2], [DSlice (DS (Some 0) (Some 3) None)])]; JR 0 0 [([2; 2], [DSlice (DS (Some 1) (Some 2) None)])]].
  exists [(0, 0, [0]); (0, 0, [1]); (0, 0, [0])]. split; [|split; [|split]].
  - intros i [<-|[<-|[]]]; repeat constructor.
  - vm_compute. reflexivity.
  - intros H. inversion H as [|? ? Hn _]; subst. apply Hn. right. left. reflexivity.
  - exists [(0, 0, [1]); (0, 0, [0])]. split; [vm_compute; reflexivity|].
    repeat constructor; cbn; intuition discriminate.
Qed.

(* ------------------------------------------------------------------------------------------- *)
(* 6. the envelope of finding F48 (culled selections)                                          *)
(* ------------------------------------------------------------------------------------------- *)
Lemma j_twice_In : forall l key, In key (j_twice l) ->
  exists i j, In i l /\ In j l /\ j_culled i = true /\ j_culled j = false /\
              j_overlaps key i = true /\ j_overlaps key j = true.
Proof.
  intros l key H. unfold j_twice in H. apply filter_In in H. destruct H as [_ H].
  apply andb_true_iff in H. destruct H as [A B]. apply existsb_exists in A, B.
  destruct A as (i & Hi & A). destruct B as (j & Hj & B). apply andb_true_iff in A, B.
  destruct A as [A1 A2]. destruct B as [B1 B2]. apply negb_true_iff in B1. exists i, j. repeat split; assumption.
Qed.

Lemma j_twice_guard : forall l, (forall i, In i l -> j_culled i = false) -> j_twice l = [].
Proof.
  intros l H. destruct (j_twice l) as [|key r] eqn:E; [reflexivity|].
  destruct (j_twice_In l key) as (i & _ & Hi & _ & C & _); [rewrite E; left; reflexivity|].
  rewrite (H i Hi) in C. discriminate.
Qed.

(* the witness of F48: stored array 3x6 in chunks (2,1)x(3,1,2); one indexer keeps rows 1:3 of column 0 (2 of 6
   blocks: culled), the other the whole array *)
Lemma j_twice_witness : exists l, (forall i, In i l -> j_pos i) /\
  j_twice l = [(1, 0, [0; 0]); (1, 0, [1; 0])] /\ map j_culled l = [true; false].
Proof.
  exists [JR 1 0 [([2; 1], [DSlice (DS (Some (-2)) (Some 3) None); d_full]); ([3; 1; 2], [DInt (-6)])];
          JR 1 0 [([2; 1], [d_full; d_full]); ([3; 1; 2], [d_full; d_full])]].
  split; [|split; vm_compute; reflexivity].
  intros i [<-|[<-|[]]]; repeat constructor.
Qed.
