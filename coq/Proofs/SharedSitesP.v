(* C20 (extension): proofs about the sites of Model/SharedSites.v, for all interleavings. *)
From Coq Require Import List Arith Bool Lia ZArith Permutation String.
From KV Require Import Base.Sx Gen.Generated Model.LazyInit Proofs.LazyInitP Model.TaskGraph Proofs.TaskGraphP
                       Model.Guarded Proofs.GuardedP Model.SharedSites.
Import ListNotations.
Close Scope Z_scope.
Open Scope nat_scope.

(* ================================================================================================================ *)
(* A. sensor cache with virtual sensors                                                                              *)
(* ================================================================================================================ *)
Section MemoP.
Variable V : Type.
Variable g : graph V.
Variable virt : nat -> bool.
Variable want : nat -> nat.
Hypothesis Hwf : wf V g = true.
Notation sq := (seq_run V g).
Notation mshared := (@mshared V). Notation mlocal := (@mlocal V). Notation frame := (@frame V).

Lemma lookup_all_snoc (m : vmap V) ds d got v :
  lookup_all V m ds = Some got -> m d = Some v -> lookup_all V m (ds ++ [d]) = Some (got ++ [v]).
Proof.
  revert got. induction ds as [|a r IH]; intros got H Hd; simpl in *.
  - injection H as <-. rewrite Hd. reflexivity.
  - destruct (m a) as [va|]; [|discriminate]. destruct (lookup_all V m r) as [vs|] eqn:E; [|discriminate].
    injection H as <-. rewrite (IH vs eq_refl Hd). reflexivity.
Qed.

(* every cached value is the single-thread value *)
Definition cons (sh : mshared) : Prop := forall k v, m_cache sh k = Some v -> sq k = Some v.
(* a suspended creation: node k waits for the value of `pend`; what it has fetched so far are single-thread values *)
Definition fr_ok (pend : nat) (f : frame) : Prop :=
  match f with Fr k r got =>
    exists tk done, nth_error g k = Some tk /\ t_deps tk = done ++ pend :: r /\ lookup_all V sq done = Some got end.
Fixpoint stack_ok (t pend : nat) (st : list frame) : Prop :=
  match st with
  | [] => pend = want t
  | f :: st' => fr_ok pend f /\ stack_ok t (match f with Fr k _ _ => k end) st'
  end.
Definition Jl (t : nat) (lo : mlocal) : Prop :=
  match m_mode lo with
  | Lookup d => stack_ok t d (m_stack lo)
  | Create k r got =>
      (exists tk done, nth_error g k = Some tk /\ t_deps tk = done ++ r /\ lookup_all V sq done = Some got)
      /\ stack_ok t k (m_stack lo)
  | Deliver d v => sq d = Some v /\ stack_ok t d (m_stack lo)
  | Raised => m_stack lo = [] /\ nth_error g (want t) = None
  end.
Definition mpost (t : nat) (lo : mlocal) : Prop :=
  m_stack lo = [] /\
  match m_mode lo with
  | Deliver d v => d = want t /\ sq (want t) = Some v
  | Raised => nth_error g (want t) = None
  | _ => False
  end.

Lemma cons_vset sh k v : cons sh -> sq k = Some v -> forall c, cons (mkM (vset V (m_cache sh) k v) c).
Proof.
  intros Hc Hk c j u. simpl. unfold vset. destruct (Nat.eqb j k) eqn:E.
  - apply Nat.eqb_eq in E. subst j. intros H. injection H as <-. exact Hk.
  - apply Hc.
Qed.

Lemma stack_dep_exists t d st : stack_ok t d st -> st <> [] -> nth_error g d <> None.
Proof.
  destruct st as [|[k r got] st']; [intros _ H; contradiction|]. intros [(tk & done & En & Ed & _) _] _.
  assert (d < k) as Hlt by (apply (wf_deps V g k tk d Hwf En); rewrite Ed; apply in_or_app; right; left; reflexivity).
  assert (k < List.length g) as Hk by (apply nth_error_Some; rewrite En; discriminate).
  apply nth_error_Some. lia.
Qed.

(* one line of one thread, whatever the other threads did before: the shared part and the thread's own part of the
   invariant are both kept -- NO lock is assumed here *)
Lemma memo_go lf t sh lo sh' lo' : cons sh -> Jl t lo ->
  mline V g virt true lf sh lo = Go sh' lo' -> cons sh' /\ Jl t lo'.
Proof.
  intros Hc HJ. unfold mline, Jl in *. destruct lo as [md st]. simpl in *.
  destruct md as [d|k todo got|d v|].
  - (* Lookup *)
    destruct (if lf then m_cache sh d else None) as [v|] eqn:E.
    + intros H. injection H as <- <-. split; [exact Hc|]. simpl. split; [|exact HJ].
      destruct lf; [|discriminate]. apply Hc. exact E.
    + destruct (nth_error g d) as [tk|] eqn:En.
      * intros H. injection H as <- <-. split; [exact Hc|]. simpl. split; [|exact HJ].
        exists tk, []. repeat split; try reflexivity. exact En.
      * intros H. injection H as <- <-. split; [exact Hc|]. simpl.
        destruct st as [|f st'].
        -- simpl in HJ. subst d. split; [reflexivity|exact En].
        -- exfalso. apply (stack_dep_exists t d (f :: st') HJ); [discriminate|exact En].
  - (* Create *)
    destruct HJ as [(tk & done & En & Ed & Hl) Hs].
    destruct todo as [|d r].
    + rewrite En. rewrite andb_false_r. intros H. injection H as <- <-.
      rewrite app_nil_r in Ed. rewrite <- Ed in Hl.
      pose proof (seq_fix V g k tk got Hwf En Hl) as Hk.
      split; [apply cons_vset; assumption|]. simpl. split; [exact Hk|exact Hs].
    + intros H. injection H as <- <-. split; [exact Hc|]. simpl. split; [|exact Hs].
      exists tk, done. repeat split; assumption.
  - (* Deliver *)
    destruct HJ as [Hv Hs]. destruct st as [|[k r got] st']; [discriminate|].
    intros H. injection H as <- <-. split; [exact Hc|]. simpl.
    destruct Hs as [(tk & done & En & Ed & Hl) Hs']. split; [|exact Hs'].
    exists tk, (done ++ [d]). rewrite <- app_assoc. simpl. repeat split; [exact En|exact Ed|].
    apply lookup_all_snoc; assumption.
  - (* Raised *)
    destruct HJ as [-> _]. discriminate.
Qed.

Lemma memo_fin lf t sh lo lo' : cons sh -> Jl t lo -> mline V g virt true lf sh lo = Fin lo' -> mpost t lo'.
Proof.
  intros Hc HJ. unfold mline, Jl, mpost in *. destruct lo as [md st]. simpl in *.
  destruct md as [d|k todo got|d v|].
  - destruct (if lf then m_cache sh d else None); [discriminate|]. destruct (nth_error g d); discriminate.
  - destruct todo; [|discriminate]. destruct (nth_error g k); [|discriminate].
    rewrite andb_false_r. discriminate.
  - destruct st as [|[k r got] st']; [|discriminate]. intros H. injection H as <-. simpl.
    destruct HJ as [Hv Hs]. simpl in Hs. subst d. repeat split; auto.
  - destruct st as [|f st']; [|discriminate]. intros H. injection H as <-. simpl. split; [reflexivity|exact (proj2 HJ)].
Qed.

Lemma memo_nocrash lf t sh lo : cons sh -> Jl t lo -> mline V g virt true lf sh lo <> Crash.
Proof.
  intros Hc HJ. unfold mline, Jl in *. destruct lo as [md st]. simpl in *.
  destruct md as [d|k todo got|d v|].
  - destruct (if lf then m_cache sh d else None); [discriminate|]. destruct (nth_error g d); discriminate.
  - destruct HJ as [(tk & done & En & _) _]. destruct todo; [|discriminate]. rewrite En, andb_false_r. discriminate.
  - destruct st as [|[k r got] st']; discriminate.
  - destruct st; discriminate.
Qed.

Lemma cons_m0 : cons (m0 V).
Proof. intros k v H. discriminate. Qed.

(* VALUES, with NO lock at all (hence also with it): for every schedule of any number of threads asking for any names,
   nothing crashes, every cached value and every value a thread holds in the middle of a creation is the single-thread
   value, every thread that returned got the single-thread value of the name it asked for (KeyError exactly for names
   that nothing creates).  [lookup_first] is irrelevant for this. *)
Theorem memo_values_safe lf schedule :
  let c := uexec _ _ (mline V g virt true lf) (mstart V want) (m0 V) schedule in
  (forall t, g_th c t <> GFail) /\
  (forall t lo, g_th c t = GDone lo -> mpost t lo) /\
  cons (g_sh c) /\
  (forall t lo, g_th c t = GIn lo -> Jl t lo).
Proof.
  intros c.
  destruct (unlocked_inv_safe _ _ (mline V g virt true lf) (mstart V want) cons Jl mpost) with (sh0 := m0 V) (schedule := schedule)
    as [A B C D].
  - intros t. unfold Jl, mstart. simpl. reflexivity.
  - intros. eapply memo_go; eassumption.
  - intros. eapply memo_fin; eassumption.
  - intros. eapply memo_nocrash; eassumption.
  - exact cons_m0.
  - split; [exact D|]. split; [exact C|]. split; [exact A|exact B].
Qed.

(* ---------- with the lock: every name is created at most once ---------- *)
Definition cnt (sh : mshared) : Prop :=
  forall k, m_count sh k = match m_cache sh k with Some _ => 1 | None => 0 end.
Definition fnode (f : frame) : nat := match f with Fr k _ _ => k end.
(* the names under construction are not in the cache yet *)
Definition fresh (sh : mshared) (lo : mlocal) : Prop :=
  (forall f, In f (m_stack lo) -> m_cache sh (fnode f) = None) /\
  match m_mode lo with Create k _ _ => m_cache sh k = None | _ => True end.
Definition JL (t : nat) (sh : mshared) (lo : mlocal) : Prop := cons sh /\ Jl t lo /\ cnt sh /\ fresh sh lo.
Definition IL (sh : mshared) : Prop := cons sh /\ cnt sh.

Lemma stack_increasing t : forall st d, stack_ok t d st -> forall f, In f st -> d < fnode f.
Proof.
  induction st as [|[k r got] st' IH]; intros d Hs f Hin; [contradiction|].
  destruct Hs as [(tk & done & En & Ed & _) Hs'].
  assert (d < k) as Hlt by (apply (wf_deps V g k tk d Hwf En); rewrite Ed; apply in_or_app; right; left; reflexivity).
  destruct Hin as [<-|Hin]; [exact Hlt|]. specialize (IH k Hs' f Hin). simpl in IH. lia.
Qed.

Lemma memo_go_locked t sh lo sh' lo' : JL t sh lo -> mline V g virt true true sh lo = Go sh' lo' -> JL t sh' lo'.
Proof.
  intros (Hc & HJ & Hn & Hf) E.
  destruct (memo_go true t sh lo sh' lo' Hc HJ E) as [Hc' HJ'].
  split; [exact Hc'|]. split; [exact HJ'|].
  unfold mline in E. unfold fresh, Jl in *. destruct lo as [md st]. simpl in *.
  destruct md as [d|k todo got|d v|].
  - destruct (m_cache sh d) as [v|] eqn:Ec.
    + injection E as <- <-. simpl. split; [exact Hn|]. split; [exact (proj1 Hf)|exact Logic.I].
    + destruct (nth_error g d) as [tk|]; injection E as <- <-; simpl; (split; [exact Hn|]); (split; [exact (proj1 Hf)|]); auto.
  - destruct HJ as [(tk & done & En & Ed & Hl) Hs]. destruct todo as [|d r].
    + rewrite En, andb_false_r in E. injection E as <- <-. simpl. destruct Hf as [Hfs Hk]. split; [|split; [|exact Logic.I]].
      * intros j. simpl. unfold bump, vset. destruct (Nat.eqb j k) eqn:Ej.
        -- apply Nat.eqb_eq in Ej. subst j. rewrite (Hn k), Hk. reflexivity.
        -- apply Hn.
      * intros f Hin. unfold vset. pose proof (stack_increasing t st k Hs f Hin) as Hlt.
        assert (Nat.eqb (fnode f) k = false) as -> by (apply Nat.eqb_neq; lia). apply Hfs. exact Hin.
    + injection E as <- <-. simpl. destruct Hf as [Hfs Hk]. split; [exact Hn|]. split; [|exact Logic.I].
      intros f [<-|Hin]; [exact Hk|apply Hfs; exact Hin].
  - destruct st as [|[k r got] st']; [discriminate|]. injection E as <- <-. simpl. destruct Hf as [Hfs _].
    split; [exact Hn|]. split.
    + intros f Hin. apply Hfs. right. exact Hin.
    + apply (Hfs (Fr k r got)). left. reflexivity.
  - destruct HJ as [-> _]. discriminate.
Qed.

Theorem memo_locked_once schedule :
  let c := gexec _ _ (mline V g virt true true) (mstart V want) (m0 V) schedule in
  (forall t, g_th c t <> GFail) /\
  (forall t lo, g_th c t = GDone lo -> mpost t lo) /\
  (g_lock c = None -> IL (g_sh c)) /\
  (forall t lo, g_th c t = GIn lo -> g_lock c = Some t /\ JL t (g_sh c) lo).
Proof.
  apply (guarded_inv_safe _ _ (mline V g virt true true) (mstart V want) IL mpost JL).
  - intros t sh [Hc Hn]. repeat split; auto. intros f [].
  - intros. eapply memo_go_locked; eassumption.
  - intros t sh lo lo' (Hc & HJ & Hn & _) E. split; [split; assumption|]. eapply memo_fin; eassumption.
  - intros t sh lo (Hc & HJ & _) E. eapply memo_nocrash; eassumption.
  - split; [exact cons_m0|]. intros k. reflexivity.
Qed.

(* at every moment of every schedule, no name has been created more than once *)
Corollary memo_count_le_1 schedule k :
  m_count (g_sh (gexec _ _ (mline V g virt true true) (mstart V want) (m0 V) schedule)) k <= 1.
Proof.
  destruct (memo_locked_once schedule) as (_ & _ & C & D).
  set (c := gexec _ _ (mline V g virt true true) (mstart V want) (m0 V) schedule) in *.
  destruct (g_lock c) as [h|] eqn:El.
  - destruct (g_serializable _ _ (mline V g virt true true) (mstart V want) (m0 V) schedule) as [(shs & _ & Hl) _ _].
    fold c in Hl. rewrite El in Hl. destruct Hl as [_ (lo & Eh & _)].
    destruct (D h lo Eh) as [_ (_ & _ & Hn & _)]. rewrite (Hn k). destruct (m_cache (g_sh c) k); lia.
  - destruct (C eq_refl) as [_ Hn]. rewrite (Hn k). destruct (m_cache (g_sh c) k); lia.
Qed.


(* ---------- termination: the thread inside always finishes its request (no self-deadlock, no endless recursion) ---------- *)
Notation mlines lf := (lines _ _ (mline V g virt true lf)).
Lemma term_create lf k tk st (IHk : forall d, d < k -> forall sh st', exists sh' v,
                                 mlines lf sh (mkML (Lookup d) st') sh' (mkML (Deliver d v) st')) :
  nth_error g k = Some tk ->
  forall todo, (forall d, In d todo -> d < k) -> forall sh got, exists sh' v,
    mlines lf sh (mkML (Create k todo got) st) sh' (mkML (Deliver k v) st).
Proof.
  intros En todo. induction todo as [|d r IH]; intros Hlt sh got.
  - eexists. exists (t_fn tk got). eapply ln_step; [|apply ln_refl]. unfold mline. simpl. rewrite En, andb_false_r. reflexivity.
  - destruct (IHk d (Hlt d (or_introl eq_refl)) sh (Fr k r got :: st)) as (sh1 & v & L1).
    destruct (IH (fun x Hx => Hlt x (or_intror Hx)) sh1 (got ++ [v])) as (sh2 & v2 & L2).
    exists sh2, v2. eapply ln_step; [unfold mline; simpl; reflexivity|].
    eapply lines_trans; [exact L1|]. eapply ln_step; [unfold mline; simpl; reflexivity|exact L2].
Qed.

Lemma term_lookup lf : forall n d, d < n -> d < List.length g -> forall sh st, exists sh' v,
  mlines lf sh (mkML (Lookup d) st) sh' (mkML (Deliver d v) st).
Proof.
  induction n as [|n IH]; intros d Hd Hg sh st; [lia|].
  destruct (if lf then m_cache sh d else None) as [v|] eqn:Ec.
  - exists sh, v. eapply ln_step; [|apply ln_refl]. unfold mline. simpl. rewrite Ec. reflexivity.
  - destruct (nth_error g d) as [tk|] eqn:En; [|apply nth_error_None in En; lia].
    destruct (term_create lf d tk st) with (todo := t_deps tk) (sh := sh) (got := @nil V) as (sh' & v & L); auto.
    + intros d' Hd' sh0 st'. apply IH; lia.
    + intros d' Hin. exact (wf_deps V g d tk d' Hwf En Hin).
    + exists sh', v. eapply ln_step; [|exact L]. unfold mline. simpl. rewrite Ec, En. reflexivity.
Qed.

Theorem memo_terminates lf t sh : exists sh' lo',
  cs_run _ _ (mline V g virt true lf) sh (mstart V want t) sh' (OFin lo').
Proof.
  unfold mstart. destruct (Nat.lt_ge_cases (want t) (List.length g)) as [Hlt|Hge].
  - destruct (term_lookup lf (S (want t)) (want t) (Nat.lt_succ_diag_r _) Hlt sh []) as (sh' & v & L).
    exists sh', (mkML (Deliver (want t) v) []). eapply lines_cs_run; [exact L|]. apply cs_fin. reflexivity.
  - destruct (if lf then m_cache sh (want t) else None) as [v|] eqn:Ec.
    + exists sh, (mkML (Deliver (want t) v) []). eapply cs_go; [unfold mline; simpl; rewrite Ec; reflexivity|].
      apply cs_fin. reflexivity.
    + exists sh, (mkML Raised []). apply nth_error_None in Hge.
      eapply cs_go; [unfold mline; simpl; rewrite Ec, Hge; reflexivity|]. apply cs_fin. reflexivity.
Qed.

(* in every reachable configuration the thread that is inside can complete its request by its own steps alone *)
Theorem memo_holder_finishes lf schedule :
  let c := gexec _ _ (mline V g virt true lf) (mstart V want) (m0 V) schedule in
  forall t lo, g_th c t = GIn lo -> exists sh' lo', cs_run _ _ (mline V g virt true lf) (g_sh c) lo sh' (OFin lo').
Proof.
  apply (holder_finishes _ _ (mline V g virt true lf) (mstart V want) (fun _ => True) (fun _ _ => True)).
  - intros t sh _. destruct (memo_terminates lf t sh) as (sh' & lo' & H). exists sh', lo'. auto.
  - exact Logic.I.
Qed.

End MemoP.

(* refutations for A: what the lock, its kind and the look-up-first order buy *)
Definition g2 : graph nat := [mkTask [] (fun _ => 7); mkTask [0] (fun l => 1 + fold_left Nat.add l 0)].
(* without the lock two threads create the same name twice (values stay right: memo_values_safe) *)
Lemma memo_unlocked_twice :
  exists schedule, m_count (g_sh (uexec _ _ (mline nat g2 (fun k => Nat.eqb k 1) true true) (mstart nat (fun _ => 0)) (m0 nat) schedule)) 0 = 2.
Proof. exists [0; 1; 0; 1; 0; 1; 0; 1]. vm_compute. reflexivity. Qed.
(* with a plain Lock a virtual sensor that looks up its input never gets it *)
Lemma memo_plain_lock_crashes :
  exists schedule, g_th (gexec _ _ (mline nat g2 (fun k => Nat.eqb k 1) false true) (mstart nat (fun _ => 1)) (m0 nat) schedule) 0 = GFail.
Proof. exists [0; 0; 0]. vm_compute. reflexivity. Qed.
(* if the templates were consulted before the cache, a second request would create the sensor again, lock or no lock *)
Lemma memo_templates_first_twice :
  exists schedule, m_count (g_sh (gexec _ _ (mline nat g2 (fun k => Nat.eqb k 1) true false) (mstart nat (fun _ => 0)) (m0 nat) schedule)) 0 = 2.
Proof. exists [0; 0; 0; 0; 0; 1; 1; 1; 1; 1]. vm_compute. reflexivity. Qed.
(* non-vacuity: a finished run with a nested virtual sensor *)
Lemma memo_example :
  let c := gexec _ _ (mline nat g2 (fun k => Nat.eqb k 1) sensor_reentrant c20_sensor_get_lookup_first)
                 (mstart nat (fun t => 1 - t)) (m0 nat) [0; 0; 1; 0; 0; 0; 1; 0; 0; 0; 0; 1; 1; 1; 1] in
  option_map (mresult nat) (match g_th c 0 with GDone lo => Some lo | _ => None end) = Some (Some 8) /\
  option_map (mresult nat) (match g_th c 1 with GDone lo => Some lo | _ => None end) = Some (Some 7) /\
  map (m_count (g_sh c)) [0; 1] = [1; 1].
Proof. vm_compute. repeat split; reflexivity. Qed.

(* a virtual sensor that needs itself never finishes (the comment in SensorCache.__init__: "hopefully without a loop"):
   outside the well-founded graphs the termination theorem does not hold -- after 300 lines the thread is still inside *)
Lemma memo_cycle_refuted :
  run_cs _ _ (mline nat [mkTask [0] (fun _ => 0)] (fun _ => true) true true) 300 (m0 nat) (mstart nat (fun _ => 0) 0) = None.
Proof. vm_compute. reflexivity. Qed.

(* the translated facts the instance theorems rest on *)
Lemma sensor_reentrant_true : sensor_reentrant = true.
Proof. reflexivity. Qed.
Lemma sensor_lookup_first_true : c20_sensor_get_lookup_first = true.
Proof. reflexivity. Qed.
(* every virtual-sensor function of katdal, as translated: fetch the inputs, compute, store, return what was stored *)
Lemma virtual_functions_fit : forallb (fun p => skel_ok (snd p)) c20_virtual_fn_skeletons = true.
Proof. vm_compute. reflexivity. Qed.
Lemma skel_ok_example : skel_ok [4; 1; 1; 4; 2; 2; 3]%Z = true /\ skel_ok [1; 2; 1; 3]%Z = false /\ skel_ok [1; 2; 5]%Z = false
                        /\ skel_ok [1; 6; 2; 3]%Z = false.
Proof. repeat split; reflexivity. Qed.

(* ================================================================================================================ *)
(* B. the wildcard property map                                                                                      *)
(* ================================================================================================================ *)
Section PropsP.
Variable wild : nat -> bool.          (* which keys of the map are wildcard patterns *)
Variable name : nat -> nat.           (* the sensor thread t extracts *)
Hypothesis Hname : forall t, wild (name t) = false.      (* a sensor name is not a pattern *)
Variable sh0 : list nat.
Variable code : list Z.
Hypothesis Hcode : props_code_ok code = true.

Definition tail_ok (l : list Z) : Prop := l = [2%Z; 3%Z] \/ l = [3%Z].
Definition PI (sh : list nat) : Prop := filter wild sh = filter wild sh0.
(* what the merged properties are built from: the wildcard entries the thread iterated over *)
Definition PPost (t : nat) (lo : plocal) : Prop := filter wild (p_seen lo) = filter wild sh0.
Definition PJ (t : nat) (sh : list nat) (lo : plocal) : Prop :=
  PI sh /\ p_name lo = name t /\
  match p_iter lo with
  | Some (pos, size) => size = List.length sh /\ p_seen lo = firstn pos sh /\ tail_ok (p_todo lo)
  | None => (p_seen lo = [] /\ (p_todo lo = code \/ (p_todo lo = tl code /\ existsb (Nat.eqb (name t)) sh = true)))
            \/ (p_seen lo = sh /\ tail_ok (p_todo lo))
  end.

Lemma zlist_eqb_eq a : forall b, zlist_eqb a b = true -> a = b.
Proof.
  induction a as [|x r IH]; intros [|y s] H; simpl in H; try discriminate; [reflexivity|].
  apply andb_true_iff in H. destruct H as [H1 H2]. apply Z.eqb_eq in H1. subst y. rewrite (IH s H2). reflexivity.
Qed.
Lemma code_shape : exists tl2, code = 0%Z :: 1%Z :: tl2 /\ tail_ok tl2.
Proof.
  unfold props_code_ok in Hcode. apply orb_true_iff in Hcode. destruct Hcode as [H|H]; apply zlist_eqb_eq in H.
  - exists [2%Z; 3%Z]. split; [exact H|left; reflexivity].
  - exists [3%Z]. split; [exact H|right; reflexivity].
Qed.

Lemma firstn_S_nth {A} (l : list A) n x : nth_error l n = Some x -> firstn (S n) l = firstn n l ++ [x].
Proof.
  revert n. induction l as [|a l IH]; intros [|n] H; simpl in *; try discriminate.
  - injection H as ->. reflexivity.
  - rewrite (IH n H). reflexivity.
Qed.

Lemma filter_snoc_name sh t : filter wild (sh ++ [name t]) = filter wild sh.
Proof. rewrite filter_app. simpl. rewrite Hname. apply app_nil_r. Qed.

Lemma existsb_snoc_self sh n : existsb (Nat.eqb n) (sh ++ [n]) = true.
Proof. rewrite existsb_app. simpl. rewrite Nat.eqb_refl. rewrite orb_true_r. reflexivity. Qed.

Lemma props_start t sh : PI sh -> PJ t sh (pstart code name t).
Proof. intros H. split; [exact H|]. split; [reflexivity|]. simpl. left. split; [reflexivity|left; reflexivity]. Qed.

Lemma props_go t sh lo sh' lo' : PJ t sh lo -> pline sh lo = Go sh' lo' -> PJ t sh' lo'.
Proof.
  destruct code_shape as (tl2 & Ecode & Htl).
  intros (HI & Hn & HJ). unfold pline. destruct lo as [nm todo it seen]. simpl in *. subst nm.
  destruct it as [[pos size]|].
  - destruct HJ as (Hs & Hseen & Ht). subst size. rewrite Nat.eqb_refl. simpl.
    destruct (nth_error sh pos) as [k|] eqn:En; intros H; injection H as <- <-.
    + split; [exact HI|]. split; [reflexivity|]. simpl. split; [reflexivity|]. split; [|exact Ht].
      rewrite Hseen. symmetry. apply firstn_S_nth. exact En.
    + split; [exact HI|]. split; [reflexivity|]. simpl. right. split; [|exact Ht].
      rewrite Hseen. apply firstn_all2. apply nth_error_None. exact En.
  - destruct HJ as [[Hseen [Ht|[Ht Hin]]]|[Hseen Ht]].
    + rewrite Ht, Ecode. intros H. injection H as <- <-. split.
      * unfold PI in *. destruct (existsb (Nat.eqb (name t)) sh); [exact HI|]. rewrite filter_snoc_name. exact HI.
      * split; [reflexivity|]. simpl. left. split; [exact Hseen|]. right. rewrite Ecode. simpl. split; [reflexivity|].
        destruct (existsb (Nat.eqb (name t)) sh) eqn:E; [exact E|apply existsb_snoc_self].
    + rewrite Ht, Ecode. simpl. intros H. injection H as <- <-. split; [exact HI|]. split; [reflexivity|]. simpl.
      split; [reflexivity|]. split; [rewrite Hseen; reflexivity|exact Htl].
    + destruct Ht as [-> | ->]; intros H; [injection H as <- <-|discriminate].
      split; [exact HI|]. split; [reflexivity|]. simpl. right. split; [exact Hseen|right; reflexivity].
Qed.

Lemma props_fin t sh lo lo' : PJ t sh lo -> pline sh lo = Fin lo' -> PI sh /\ PPost t lo'.
Proof.
  destruct code_shape as (tl2 & Ecode & Htl).
  intros (HI & Hn & HJ). unfold pline. destruct lo as [nm todo it seen]. simpl in *.
  destruct it as [[pos size]|].
  - destruct HJ as (Hs & _). subst size. rewrite Nat.eqb_refl. simpl. destruct (nth_error sh pos); discriminate.
  - destruct HJ as [[Hseen [Ht|[Ht _]]]|[Hseen Ht]].
    + rewrite Ht, Ecode. discriminate.
    + rewrite Ht, Ecode. discriminate.
    + destruct Ht as [-> | ->]; [discriminate|]. intros H. injection H as <-. split; [exact HI|].
      unfold PPost. simpl. rewrite Hseen. exact HI.
Qed.

Lemma props_nocrash t sh lo : PJ t sh lo -> pline sh lo <> Crash.
Proof.
  destruct code_shape as (tl2 & Ecode & Htl).
  intros (HI & Hn & HJ). unfold pline. destruct lo as [nm todo it seen]. simpl in *.
  destruct it as [[pos size]|].
  - destruct HJ as (Hs & _). subst size. rewrite Nat.eqb_refl. simpl. destruct (nth_error sh pos); discriminate.
  - destruct HJ as [[Hseen [Ht|[Ht _]]]|[Hseen Ht]].
    + rewrite Ht, Ecode. discriminate.
    + rewrite Ht, Ecode. discriminate.
    + destruct Ht as [-> | ->]; discriminate.
Qed.

(* _get_props inside the lock, any number of threads extracting any sensors for the first time, any schedule: the
   iteration never meets a dict that changed size, every thread merges exactly the wildcard entries a single thread
   would merge, and the wildcard entries themselves are never disturbed *)
Theorem props_locked_safe schedule :
  let c := gexec _ _ pline (pstart code name) sh0 schedule in
  (forall t, g_th c t <> GFail) /\
  (forall t lo, g_th c t = GDone lo -> PPost t lo) /\
  (g_lock c = None -> PI (g_sh c)) /\
  (forall t lo, g_th c t = GIn lo -> g_lock c = Some t /\ PJ t (g_sh c) lo).
Proof.
  apply (guarded_inv_safe _ _ pline (pstart code name) PI PPost PJ).
  - exact props_start.
  - exact props_go.
  - exact props_fin.
  - exact props_nocrash.
  - reflexivity.
Qed.
End PropsP.

(* outside a lock the same code is NOT safe: a second thread inserts its entry while the first one iterates *)
Lemma props_unlocked_refuted :
  exists schedule, g_th (uexec _ _ pline (pstart c20_props_code (fun t => 5 + t)) [9] schedule) 0 = GFail.
Proof. exists [0; 0; 0; 1; 1; 0]. vm_compute. reflexivity. Qed.
Lemma props_code_is_ok : props_code_ok c20_props_code = true.
Proof. reflexivity. Qed.
Lemma props_example :
  let c := gexec _ _ pline (pstart c20_props_code (fun t => 5 + t)) [9; 2] [0; 0; 0; 1; 1; 0; 0; 0; 0; 0; 0; 0; 1; 1; 1; 1; 1; 1; 1; 1; 1; 1] in
  match g_th c 0, g_th c 1 with
  | GDone a, GDone b => filter (fun k => Nat.eqb k 9) (p_seen a) = [9] /\ p_seen b = [9; 2; 5; 6]
  | _, _ => False
  end.
Proof. vm_compute. split; reflexivity. Qed.
(* ConcatenatedSensorCache: its merged property map has a guard of its own (kind, created once, every access inside) *)
Lemma concat_props_guarded :
  c20_concat_lock_kind = 2%Z /\ c20_concat_lock_once = true /\ only_init c20_concat_props_unlocked_methods = true.
Proof. repeat split; reflexivity. Qed.

(* ================================================================================================================ *)
(* C. S3ChunkStore._verified_buckets (no lock)                                                                       *)
(* ================================================================================================================ *)
Section VerifyP.
Variable status : nat -> Z.
Variable code : list Z.
Variable bucket : nat -> nat.
Hypothesis Hcode : verify_code_ok code = true.

Definition good (b : nat) : Prop := status b <> 0%Z /\ status b <> 1%Z.
Definition VC (sh : list nat) : Prop := forall b, In b sh -> good b.
Definition VJ (t : nat) (lo : vlocal) : Prop :=
  v_bucket lo = bucket t /\ v_out lo = 0%Z /\
  (existsb (Z.eqb 1) (firstn (v_pc lo) code) = true -> status (bucket t) <> 0%Z) /\
  (existsb (Z.eqb 3) (firstn (v_pc lo) code) = true -> status (bucket t) <> 1%Z).
Definition VPost (t : nat) (lo : vlocal) : Prop := v_bucket lo = bucket t /\ v_out lo = vspec status (bucket t).

Lemma vspec_good b : good b -> vspec status b = 1%Z.
Proof.
  intros [H0 H1]. unfold vspec. apply Z.eqb_neq in H0. apply Z.eqb_neq in H1. rewrite H0, H1. reflexivity.
Qed.

Lemma code_parts :
  forallb known_instr code = true /\ checks_before code (List.length code) = true /\
  forall i, nth_error code i = Some 4%Z -> checks_before code i = true.
Proof.
  unfold verify_code_ok in Hcode. apply andb_true_iff in Hcode. destruct Hcode as [H12 H3].
  apply andb_true_iff in H12. destruct H12 as [H1 H2]. repeat split; auto.
  intros i Hi. rewrite forallb_forall in H3.
  assert (i < List.length code) as Hlt by (apply nth_error_Some; rewrite Hi; discriminate).
  specialize (H3 i). rewrite Hi in H3. apply H3. apply in_seq. lia.
Qed.

Lemma existsb_firstn_S c i x : nth_error code i = Some x ->
  existsb (Z.eqb c) (firstn (S i) code) = (existsb (Z.eqb c) (firstn i code) || Z.eqb c x)%bool.
Proof.
  intros H. assert (firstn (S i) code = firstn i code ++ [x]) as ->.
  { clear Hcode. revert i H. induction code as [|a l IH]; intros [|i] H; simpl in *; try discriminate.
    - injection H as ->. reflexivity.
    - rewrite (IH i H). reflexivity. }
  rewrite existsb_app. simpl. rewrite orb_false_r. reflexivity.
Qed.

Lemma VJ_next t lo x : VJ t lo -> nth_error code (v_pc lo) = Some x ->
  (x = 1%Z -> status (bucket t) <> 0%Z) -> (x = 3%Z -> status (bucket t) <> 1%Z) ->
  VJ t (mkVL (v_bucket lo) (S (v_pc lo)) 0%Z).
Proof.
  intros (Hb & Ho & H1 & H3) En X1 X3. unfold VJ. cbn [v_bucket v_pc v_out]. repeat split; auto.
  - rewrite (existsb_firstn_S 1%Z _ x En). intros H. apply orb_true_iff in H. destruct H as [H|H]; [auto|].
    apply Z.eqb_eq in H. auto.
  - rewrite (existsb_firstn_S 3%Z _ x En). intros H. apply orb_true_iff in H. destruct H as [H|H]; [auto|].
    apply Z.eqb_eq in H. auto.
Qed.

Lemma known_cases x : known_instr x = true -> (x = 0 \/ x = 1 \/ x = 2 \/ x = 3 \/ x = 4)%Z.
Proof. unfold known_instr. intros H. apply andb_true_iff in H. destruct H as [A B]. apply Z.leb_le in A. apply Z.leb_le in B. lia. Qed.
Lemma instr_known i x : nth_error code i = Some x -> (x = 0 \/ x = 1 \/ x = 2 \/ x = 3 \/ x = 4)%Z.
Proof.
  destruct code_parts as (Hk & _ & _). intros En. rewrite forallb_forall in Hk. apply known_cases. apply Hk.
  exact (nth_error_In _ _ En).
Qed.

Lemma verify_go t sh lo sh' lo' : VC sh -> VJ t lo -> vline status code sh lo = Go sh' lo' -> VC sh' /\ VJ t lo'.
Proof.
  destruct code_parts as (Hk & Hend & Hadd).
  intros Hc HJ. unfold vline. destruct (nth_error code (v_pc lo)) as [x|] eqn:En; [|discriminate].
  destruct (instr_known _ _ En) as [->|[->|[->|[->| ->]]]].
  - destruct (existsb (Nat.eqb (v_bucket lo)) sh); [discriminate|]. intros H. injection H as <- <-.
    split; [exact Hc|]. eapply VJ_next; [exact HJ|exact En|discriminate|discriminate].
  - destruct (Z.eqb (status (v_bucket lo)) 0) eqn:E; [discriminate|]. intros H. injection H as <- <-.
    split; [exact Hc|]. eapply VJ_next; [exact HJ|exact En| |discriminate].
    intros _. apply Z.eqb_neq. rewrite <- (proj1 HJ). exact E.
  - intros H. injection H as <- <-. split; [exact Hc|].
    eapply VJ_next; [exact HJ|exact En|discriminate|discriminate].
  - destruct (Z.eqb (status (v_bucket lo)) 1) eqn:E; [discriminate|]. intros H. injection H as <- <-.
    split; [exact Hc|]. eapply VJ_next; [exact HJ|exact En|discriminate|].
    intros _. apply Z.eqb_neq. rewrite <- (proj1 HJ). exact E.
  - intros H. injection H as <- <-. split.
    + intros b [<-|Hin]; [|apply Hc; exact Hin].
      specialize (Hadd _ En). unfold checks_before in Hadd. apply andb_true_iff in Hadd. destruct Hadd as [A B].
      destruct HJ as (Hb & _ & H1 & H3). rewrite Hb. split; auto.
    + eapply VJ_next; [exact HJ|exact En|discriminate|discriminate].
Qed.

Lemma verify_fin t sh lo lo' : VC sh -> VJ t lo -> vline status code sh lo = Fin lo' -> VPost t lo'.
Proof.
  destruct code_parts as (Hk & Hend & Hadd).
  intros Hc HJ. pose proof HJ as (Hb & Ho & H1 & H3). unfold vline.
  destruct (nth_error code (v_pc lo)) as [x|] eqn:En.
  - destruct (instr_known _ _ En) as [->|[->|[->|[->| ->]]]]; try discriminate.
    + destruct (existsb (Nat.eqb (v_bucket lo)) sh) eqn:E; [|discriminate]. intros H. injection H as <-.
      split; [exact Hb|]. simpl. symmetry. apply vspec_good. rewrite <- Hb. apply Hc.
      apply existsb_exists in E. destruct E as (y & Hy & Ey). apply Nat.eqb_eq in Ey. subst y. exact Hy.
    + destruct (Z.eqb (status (v_bucket lo)) 0) eqn:E; [|discriminate]. intros H. injection H as <-.
      split; [exact Hb|]. simpl. unfold vspec. rewrite <- Hb, E. reflexivity.
    + destruct (Z.eqb (status (v_bucket lo)) 1) eqn:E; [|discriminate]. intros H. injection H as <-.
      split; [exact Hb|]. simpl. unfold vspec. rewrite <- Hb, E. rewrite orb_true_r. reflexivity.
  - intros H. injection H as <-. split; [exact Hb|]. simpl. symmetry. apply vspec_good.
    apply nth_error_None in En. unfold checks_before in Hend. rewrite firstn_all in Hend.
    rewrite (firstn_all2 code En) in H1, H3. apply andb_true_iff in Hend. destruct Hend as [A B]. split; auto.
Qed.

Lemma verify_nocrash t sh lo : VC sh -> VJ t lo -> vline status code sh lo <> Crash.
Proof.
  intros _ _. unfold vline.
  destruct (nth_error code (v_pc lo)) as [x|] eqn:En; [|discriminate].
  destruct (instr_known _ _ En) as [->|[->|[->|[->| ->]]]]; try discriminate.
  - destruct (existsb (Nat.eqb (v_bucket lo)) sh); discriminate.
  - destruct (Z.eqb (status (v_bucket lo)) 0); discriminate.
  - destruct (Z.eqb (status (v_bucket lo)) 1); discriminate.
Qed.

(* for every server state, every set of threads checking any buckets and EVERY interleaving of their lines (there is
   no lock): only buckets that exist and are not empty are ever recorded as verified, and every thread ends the way a
   single thread on a fresh store would: StoreUnavailable for a missing or empty bucket, a plain return otherwise *)
Theorem verify_unlocked_safe schedule :
  let c := uexec _ _ (vline status code) (vstart bucket) [] schedule in
  (forall t, g_th c t <> GFail) /\
  (forall t lo, g_th c t = GDone lo -> VPost t lo) /\
  VC (g_sh c).
Proof.
  intros c.
  destruct (unlocked_inv_safe _ _ (vline status code) (vstart bucket) VC VJ VPost) with (sh0 := @nil nat) (schedule := schedule)
    as [A B C D].
  - intros t. unfold VJ, vstart. simpl. repeat split; auto; discriminate.
  - intros. eapply verify_go; eassumption.
  - intros. eapply verify_fin; eassumption.
  - intros. eapply verify_nocrash; eassumption.
  - intros b [].
  - split; [exact D|]. split; [exact C|exact A].
Qed.
End VerifyP.

Lemma verify_code_is_ok : verify_code_ok c20_verify_bucket_code = true.
Proof. reflexivity. Qed.
(* the statement discriminates: recording the bucket BEFORE the checks lets a second thread skip them *)
Lemma verify_add_first_refuted :
  exists schedule, match g_th (uexec _ _ (vline (fun _ => 0%Z) [0; 4; 1; 2; 3]%Z) (vstart (fun _ => 7)) [] schedule) 1 with
                   | GDone lo => v_out lo <> vspec (fun _ => 0%Z) 7
                   | _ => False end.
Proof. exists [0; 0; 0; 1; 1]. vm_compute. discriminate. Qed.
(* the unlocked test-then-add is NOT a once-only initialisation: two threads may both list the bucket (harmless) *)
Lemma verify_example :
  let c := uexec _ _ (vline (fun b => Z.of_nat b) c20_verify_bucket_code) (vstart (fun t => t)) [] 
                 [2; 2; 3; 3; 2; 3; 2; 3; 2; 3; 2; 3; 2; 3; 2; 3; 0; 0; 0; 1; 1; 1; 1; 1] in
  map (fun t => match g_th c t with GDone lo => v_out lo | _ => (-1)%Z end) [0; 1; 2; 3] = [2; 2; 1; 1]%Z /\ g_sh c = [3; 2].
Proof. vm_compute. split; reflexivity. Qed.
Lemma verify_site_facts :
  c20_verified_buckets_users = ["__init__"%string; "_verify_bucket"%string] /\ c20_verified_buckets_init_empty = true /\
  c20_get_chunk_verifies_on_404 = true.
Proof. repeat split; reflexivity. Qed.

(* ================================================================================================================ *)
(* D. the session pool at request level                                                                              *)
(* ================================================================================================================ *)
Definition psize (p : pool) : nat := List.length (p_free p) + List.length (p_held p).
Record RInv (r : rpool) : Prop := {
  ri_pool : pool_inv (r_pool r);
  ri_clash : r_clash r = false;
  ri_count : p_next (r_pool r) = psize (r_pool r) + r_lost r
}.

Lemma items_length p : List.length (items p) = psize p.
Proof. unfold items, psize. rewrite app_length, map_length. reflexivity. Qed.

Lemma rm_held_length t x l : In (t, x) l -> S (List.length (rm_held t x l)) = List.length l.
Proof.
  induction l as [|h r IH]; simpl; intros Hin; [contradiction|].
  destruct (Nat.eqb (fst h) t && Nat.eqb (snd h) x)%bool eqn:E; [reflexivity|].
  destruct Hin as [->|Hin]; [simpl in E; rewrite !Nat.eqb_refl in E; discriminate|]. simpl. rewrite (IH Hin). reflexivity.
Qed.

(* the translated get/put change the number of items only by creating one *)
Lemma pool_step_count_c ce cn cp p o : pool_codes_safe ce cn cp = true ->
  psize (pool_step_c ce cn cp p o) + p_next p = psize p + p_next (pool_step_c ce cn cp p o).
Proof.
  intros Hc. unfold pool_codes_safe in Hc.
  apply andb_true_iff in Hc. destruct Hc as [Hc Hp]. apply andb_true_iff in Hc. destruct Hc as [Hce Hcn].
  apply Z.eqb_eq in Hce. subst ce.
  assert (cn = 0%Z \/ cn = 1%Z \/ cn = 2%Z) as Hcn'.
  { apply orb_true_iff in Hcn. destruct Hcn as [Hcn|Hcn]; [apply orb_true_iff in Hcn; destruct Hcn as [H|H]|];
    [left|right; left|right; right]; apply Z.eqb_eq; assumption. }
  clear Hcn Hp.
  destruct o as [t|t]; unfold psize; simpl.
  - destruct (p_free p) as [|y q] eqn:Ef.
    + simpl. try rewrite Ef. simpl. lia.
    + destruct Hcn' as [->|Hcn'].
      * simpl. try rewrite Ef. simpl. lia.
      * destruct (take_item cn (y :: q)) as [| |x r] eqn:Et.
        -- exfalso. revert Et. apply take_item_nonempty; [discriminate|exact Hcn'].
        -- destruct Hcn' as [->| ->]; simpl in Et; [destruct (rev q ++ [y])%list; discriminate|discriminate].
        -- destruct (take_item_split cn (y :: q) x r Hcn' Et) as (l1 & l2 & E1 & E2).
           simpl. rewrite E2. apply (f_equal (@List.length nat)) in E1. rewrite app_length in *. simpl in *. lia.
  - destruct (find (fun h => Nat.eqb (fst h) t) (p_held p)) as [[t' x]|] eqn:F; [|lia].
    pose proof (find_held_in _ _ _ _ F) as Hin. pose proof (rm_held_length t x _ Hin) as Hl. simpl.
    assert (List.length (give_back cp (p_free p) x) = S (List.length (p_free p))) as ->.
    { unfold give_back. destruct cp; simpl; [rewrite app_length; simpl; lia|reflexivity|reflexivity]. }
    lia.
Qed.
Lemma pool_step_count p o : psize (pool_step p o) + p_next p = psize p + p_next (pool_step p o).
Proof. apply pool_step_count_c. exact pool_codes_ok. Qed.

Lemma held_by_in t p x : held_by t p = Some x -> In (t, x) (p_held p).
Proof.
  unfold held_by. destruct (find (fun h => Nat.eqb (fst h) t) (p_held p)) as [[t' y]|] eqn:F; [|discriminate].
  intros H. injection H as <-. exact (find_held_in _ _ _ _ F).
Qed.

Lemma nodup_filter_le1 (l : list (nat * nat)) x : NoDup (map snd l) ->
  List.length (filter (fun h => Nat.eqb (snd h) x) l) <= 1.
Proof.
  induction l as [|h r IH]; simpl; intros H; [lia|]. inversion H as [|? ? Hn Hr]; subst.
  destruct (Nat.eqb (snd h) x) eqn:E; [|apply IH; exact Hr]. simpl. apply Nat.eqb_eq in E.
  assert (filter (fun h0 => Nat.eqb (snd h0) x) r = []) as ->; [|simpl; lia].
  destruct (filter (fun h0 => Nat.eqb (snd h0) x) r) as [|z zs] eqn:Ez; [reflexivity|]. exfalso.
  assert (In z (filter (fun h0 => Nat.eqb (snd h0) x) r)) as Hz by (rewrite Ez; left; reflexivity).
  apply filter_In in Hz. destruct Hz as [Hz1 Hz2]. apply Nat.eqb_eq in Hz2. apply Hn. rewrite E, <- Hz2.
  apply in_map. exact Hz1.
Qed.

Lemma nodup_app_r {A} (l1 l2 : list A) : NoDup (l1 ++ l2) -> NoDup l2.
Proof. induction l1 as [|a l1 IH]; simpl; intros H; [exact H|]. inversion H; subst. apply IH. assumption. Qed.
Lemma nodup_app_disj {A} (l1 l2 : list A) x : NoDup (l1 ++ l2) -> In x l1 -> In x l2 -> False.
Proof.
  induction l1 as [|a l1 IH]; simpl; intros H H1 H2; [contradiction|]. inversion H as [|? ? Hn Hr]; subst.
  destruct H1 as [->|H1]; [apply Hn; apply in_or_app; right; exact H2|exact (IH Hr H1 H2)].
Qed.
Lemma nodup_snd_unique (l : list (nat * nat)) t t' x : NoDup (map snd l) -> In (t, x) l -> In (t', x) l -> t = t'.
Proof.
  induction l as [|a l IH]; simpl; intros ND H1 H2; [contradiction|]. inversion ND as [|? ? Hn Hr]; subst.
  destruct H1 as [->|H1]; destruct H2 as [E|H2].
  - injection E as E. exact E.
  - exfalso. apply Hn. apply (in_map snd) in H2. exact H2.
  - subst a. exfalso. apply Hn. apply (in_map snd) in H1. exact H1.
  - exact (IH Hr H1 H2).
Qed.

(* the item a thread holds is in nobody else's hands and not in the free list *)
Lemma no_clash t x p : pool_inv p -> In (t, x) (p_held p) -> clashes t x p = false.
Proof.
  intros (_ & ND & _) Hin. unfold items in ND. unfold clashes.
  pose proof (nodup_app_r _ _ ND) as NDh.
  assert (existsb (Nat.eqb x) (p_free p) = false) as ->.
  { destruct (existsb (Nat.eqb x) (p_free p)) eqn:E; [|reflexivity]. exfalso.
    apply existsb_exists in E. destruct E as (y & Hy & Ey). apply Nat.eqb_eq in Ey. subst y.
    apply (nodup_app_disj _ _ x ND Hy). apply (in_map snd) in Hin. exact Hin. }
  assert (existsb (fun h => Nat.eqb (snd h) x && negb (Nat.eqb (fst h) t)) (p_held p) = false) as ->.
  { destruct (existsb _ (p_held p)) eqn:E; [|reflexivity]. exfalso.
    apply existsb_exists in E. destruct E as ([t' y] & Hy & Ey). simpl in Ey. apply andb_true_iff in Ey.
    destruct Ey as [E1 E2]. apply Nat.eqb_eq in E1. subst y. apply negb_true_iff in E2. apply Nat.eqb_neq in E2.
    apply E2. exact (nodup_snd_unique _ _ _ _ NDh Hy Hin). }
  simpl. apply Nat.ltb_ge. apply nodup_filter_le1. exact NDh.
Qed.

Lemma rinv_step r o : RInv r -> RInv (rstep r o).
Proof.
  intros [Hp Hc Hn]. destruct o as [t|t|t|t|t]; cbn [rstep].
  - constructor; cbn [r_pool r_lost r_clash r_unheld];
      [exact (pool_step_inv _ _ _ _ _ pool_codes_ok Hp)|exact Hc|].
    pose proof (pool_step_count (r_pool r) (PGet t)). lia.
  - destruct (held_by t (r_pool r)) as [x|] eqn:E.
    + constructor; cbn [r_pool r_lost r_clash r_unheld]; [exact Hp| |exact Hn].
      rewrite Hc. cbn [orb]. apply no_clash; [exact Hp|apply held_by_in; exact E].
    + constructor; cbn [r_pool r_lost r_clash r_unheld]; assumption.
  - constructor; assumption.
  - constructor; cbn [r_pool r_lost r_clash r_unheld];
      [exact (pool_step_inv _ _ _ _ _ pool_codes_ok Hp)|exact Hc|].
    pose proof (pool_step_count (r_pool r) (PPut t)). lia.
  - destruct (held_by t (r_pool r)) as [x|] eqn:E; [|constructor; assumption].
    pose proof (held_by_in _ _ _ E) as Hin. pose proof (rm_held_perm t x _ Hin) as HP.
    pose proof (rm_held_length t x _ Hin) as Hl.
    constructor; cbn [r_pool r_lost r_clash r_unheld]; [|exact Hc|unfold psize in *; cbn [p_free p_held p_next]; lia].
    destruct Hp as (He & ND & Hlt). unfold pool_inv, items in *. cbn [p_free p_held p_next p_err].
    assert (Permutation (p_free (r_pool r) ++ map snd (p_held (r_pool r)))
                        (x :: p_free (r_pool r) ++ map snd (rm_held t x (p_held (r_pool r))))) as HP2.
    { eapply perm_trans; [apply Permutation_app_head; exact HP|]. symmetry. apply Permutation_middle. }
    repeat split.
    + exact He.
    + pose proof (Permutation_NoDup HP2 ND) as ND2. inversion ND2; assumption.
    + intros y Hy. apply Hlt. eapply Permutation_in; [symmetry; exact HP2|]. right. exact Hy.
Qed.

Lemma rinv_init : RInv rinit.
Proof. constructor; simpl; [exact pool_inv_init|reflexivity|reflexivity]. Qed.

Lemma lost_le_drops evs : forall r, r_lost (fold_left rstep evs r) <= r_lost r + List.length (filter is_drop evs).
Proof.
  induction evs as [|o evs IH]; intros r; simpl; [lia|].
  specialize (IH (rstep r o)). destruct o as [t|t|t|t|t]; simpl in *; try lia.
  - destruct (held_by t (r_pool r)); simpl in *; lia.
  - destruct (held_by t (r_pool r)); simpl in *; lia.
Qed.

(* ANY sequence of borrow / send / sleep / give back / lose events by any threads (hence any interleaving of any
   requests with any outcomes): the pool never raises, a session that a request sends through is in no other thread's
   hands and not in the free list -- also while its holder sleeps between two attempts --, and sessions are accounted
   for: made = free + borrowed + lost, lost only by requests that ended with an exception *)
Theorem request_pool_safe evs :
  let r := fold_left rstep evs rinit in
  p_err (r_pool r) = false /\ r_clash r = false /\
  NoDup (p_free (r_pool r) ++ map snd (p_held (r_pool r))) /\
  p_next (r_pool r) = List.length (p_free (r_pool r)) + List.length (p_held (r_pool r)) + r_lost r /\
  r_lost r <= List.length (filter is_drop evs).
Proof.
  intros r.
  assert (RInv r) as [(He & ND & _) Hc Hn].
  { unfold r. generalize rinv_init. generalize rinit. induction evs as [|o l IH]; intros r0 H; simpl; [exact H|].
    apply IH. apply rinv_step. exact H. }
  repeat split; auto. exact (lost_le_drops evs rinit).
Qed.

(* the events of ONE request as the translated code makes them: exactly one borrow when the back-off sleep happens inside
   the `with` block; the session comes back unless the request ends with an exception and there is no finally clause *)
Lemma attempts_one_release fin t outs :
  List.length (filter (fun o => match o with RGet _ => true | _ => false end) (attempts fin true t outs)) = 0 /\
  List.length (filter (fun o => match o with RPut _ | RDrop _ => true | _ => false end) (attempts fin true t outs)) = 1.
Proof.
  induction outs as [|o r IH]; simpl.
  - destruct fin; split; reflexivity.
  - destruct o as [|p|p]; simpl.
    + exact IH.
    + destruct p; simpl; destruct fin; split; reflexivity.
    + destruct fin; split; reflexivity.
Qed.
Lemma request_one_borrow fin t outs :
  List.length (filter (fun o => match o with RGet _ => true | _ => false end) (request_events fin true t outs)) = 1.
Proof. unfold request_events. simpl. rewrite (proj1 (attempts_one_release fin t outs)). reflexivity. Qed.
Lemma request_no_drop_with_finally s t outs : filter is_drop (request_events true s t outs) = [].
Proof.
  unfold request_events. simpl. induction outs as [|o r IH]; simpl; [reflexivity|].
  destruct o as [|p|p]; simpl; [|destruct p; reflexivity|reflexivity].
  destruct s; simpl; exact IH.
Qed.
Lemma request_flags : c20_request_sleep_in_borrow = true /\ c20_pool_call_finally = false.
Proof. split; reflexivity. Qed.
(* with the code as it is, a request that fails loses its session (it is not put back): a concrete history *)
Lemma request_example :
  let evs := request_events c20_pool_call_finally c20_request_sleep_in_borrow 0 [0; 1]%Z ++
             request_events c20_pool_call_finally c20_request_sleep_in_borrow 1 [2]%Z ++
             request_events c20_pool_call_finally c20_request_sleep_in_borrow 1 [1]%Z in
  let r := fold_left rstep evs rinit in
  p_free (r_pool r) = [1] /\ r_lost r = 1 /\ p_next (r_pool r) = 2 /\ r_unheld r = false.
Proof. vm_compute. repeat split; reflexivity. Qed.

(* ================================================================================================================ *)
(* non-vacuity examples for the theorems of the first round                                                          *)
(* ================================================================================================================ *)
Definition done_val (s : tstate nat nat) : option nat := match s with Done lo => lres lo | _ => None end.
(* the translated body of DaskLazyIndexer.dataset, two threads, an interleaved schedule: both return f s0, one initialisation *)
Lemma lazy_init_example :
  let c := exec nat nat Datatypes.S site_dask (mkSh None (Some 41) 0) [0; 1; 0; 1; 0; 0; 1; 0; 0; 0; 0; 0; 0; 1; 1; 1; 1; 1; 1; 1; 1; 1; 1] in
  done_val (c_th c 0) = Some 42 /\ done_val (c_th c 1) = Some 42 /\ ncomp (c_sh c) = 1 /\ c_lock c = None.
Proof. vm_compute. repeat split; reflexivity. Qed.
(* the translated pool: three threads, gets and puts interleaved: two items made, both free at the end, none lent twice *)
Lemma pool_example :
  let p := fold_left pool_step [PGet 0; PGet 1; PPut 0; PGet 2; PPut 1; PPut 2] pool_init in
  p_next p = 2 /\ p_held p = [] /\ List.length (p_free p) = 2 /\ p_err p = false.
Proof. vm_compute. repeat split; reflexivity. Qed.
(* a diamond graph, two workers, tasks finishing out of order: all done, same results as the one-worker schedule *)
Definition gdia : graph nat := [mkTask [] (fun _ => 3); mkTask [0] (fun l => 10 + fold_left Nat.add l 0);
                                mkTask [0] (fun l => 20 + fold_left Nat.add l 0); mkTask [1; 2] (fun l => fold_left Nat.mul l 1)].
Lemma sched_example :
  let es := [Start 0 0; Finish 0; Start 1 2; Start 0 1; Finish 1; Finish 0; Start 1 3; Finish 1] in
  wf nat gdia = true /\ all_done nat gdia (crun nat gdia es) = true /\
  map (c_done (crun nat gdia es)) [0; 1; 2; 3] = [Some 3; Some 13; Some 23; Some 299] /\
  map (seq_run nat gdia) [0; 1; 2; 3] = [Some 3; Some 13; Some 23; Some 299].
Proof. vm_compute. repeat split; reflexivity. Qed.
