(* C20 (extension): proofs about the sites of Model/SharedSites.v, for all interleavings. *)
From Coq Require Import List Arith Bool Lia ZArith Permutation String.
From KV Require Import Base.Sx Gen.Generated Model.LazyInit Proofs.LazyInitP Model.TaskGraph Proofs.TaskGraphP
                       Model.Guarded Proofs.GuardedP Model.SharedSites.
Import ListNotations.
Close Scope Z_scope.
Open Scope nat_scope.

(* ================================================================================================================ *)
(* A. sensor cache with virtual sensors                                                                              *)
(* ================================================================================================================ *)
Section MemoP.
Variable V : Type.
Variable g : graph V.
Variable virt : nat -> bool.
Variable want : nat -> nat.
Hypothesis Hwf : wf V g = true.
Notation sq := (seq_run V g).
Notation mshared := (@mshared V). Notation mlocal := (@mlocal V). Notation frame := (@frame V).

Lemma lookup_all_snoc (m : vmap V) ds d got v :
  lookup_all V m ds = Some got -> m d = Some v -> lookup_all V m (ds ++ [d]) = Some (got ++ [v]).
Proof.
  revert got. induction ds as [|a r IH]; intros got H Hd; simpl in *.
  - injection H as <-. rewrite Hd. reflexivity.
  - destruct (m a) as [va|]; [|discriminate]. destruct (lookup_all V m r) as [vs|] eqn:E; [|discriminate].
    injection H as <-. rewrite (IH vs eq_refl Hd). reflexivity.
Qed.

(* every cached value is the single-thread value *)
Definition cons (sh : mshared) : Prop := forall k v, m_cache sh k = Some v -> sq k = Some v.
(* a suspended creation: node k waits for the value of `pend`; what it has fetched so far are single-thread values *)
Definition fr_ok (pend : nat) (f : frame) : Prop :=
  match f with Fr k r got =>
    exists tk done, nth_error g k = Some tk /\ t_deps tk = done ++ pend :: r /\ lookup_all V sq done = Some got end.
Fixpoint stack_ok (t pend : nat) (st : list frame) : Prop :=
  match st with
  | [] => pend = want t
  | f :: st' => fr_ok pend f /\ stack_ok t (match f with Fr k _ _ => k end) st'
  end.
Definition Jl (t : nat) (lo : mlocal) : Prop :=
  match m_mode lo with
  | Lookup d => stack_ok t d (m_stack lo)
  | Create k r got =>
      (exists tk done, nth_error g k = Some tk /\ t_deps tk = done ++ r /\ lookup_all V sq done = Some got)
      /\ stack_ok t k (m_stack lo)
  | Deliver d v => sq d = Some v /\ stack_ok t d (m_stack lo)
  | Raised => m_stack lo = [] /\ nth_error g (want t) = None
  end.
Definition mpost (t : nat) (lo : mlocal) : Prop :=
  m_stack lo = [] /\
  match m_mode lo with
  | Deliver d v => d = want t /\ sq (want t) = Some v
  | Raised => nth_error g (want t) = None
  | _ => False
  end.

Lemma cons_vset sh k v : cons sh -> sq k = Some v -> forall c, cons (mkM (vset V (m_cache sh) k v) c).
Proof.
  intros Hc Hk c j u. simpl. unfold vset. destruct (Nat.eqb j k) eqn:E.
  - apply Nat.eqb_eq in E. subst j. intros H. injection H as <-. exact Hk.
  - apply Hc.
Qed.

Lemma stack_dep_exists t d st : stack_ok t d st -> st <> [] -> nth_error g d <> None.
Proof.
  destruct st as [|[k r got] st']; [intros _ H; contradiction|]. intros [(tk & done & En & Ed & _) _] _.
  assert (d < k) as Hlt by (apply (wf_deps V g k tk d Hwf En); rewrite Ed; apply in_or_app; right; left; reflexivity).
  assert (k < List.length g) as Hk by (apply nth_error_Some; rewrite En; discriminate).
  apply nth_error_Some. lia.
Qed.

(* one line of one thread, whatever the other threads did before: the shared part and the thread's own part of the
   invariant are both kept -- NO lock is assumed here *)
Lemma memo_go lf t sh lo sh' lo' : cons sh -> Jl t lo ->
  mline V g virt true lf sh lo = Go sh' lo' -> cons sh' /\ Jl t lo'.
Proof.
  intros Hc HJ. unfold mline, Jl in *. destruct lo as [md st]. simpl in *.
  destruct md as [d|k todo got|d v|].
  - (* Lookup *)
    destruct (if lf then m_cache sh d else None) as [v|] eqn:E.
    + intros H. injection H as <- <-. split; [exact Hc|]. simpl. split; [|exact HJ].
      destruct lf; [|discriminate]. apply Hc. exact E.
    + destruct (nth_error g d) as [tk|] eqn:En.
      * intros H. injection H as <- <-. split; [exact Hc|]. simpl. split; [|exact HJ].
        exists tk, []. repeat split; try reflexivity. exact En.
      * intros H. injection H as <- <-. split; [exact Hc|]. simpl.
        destruct st as [|f st'].
        -- simpl in HJ. subst d. split; [reflexivity|exact En].
        -- exfalso. apply (stack_dep_exists t d (f :: st') HJ); [discriminate|exact En].
  - (* Create *)
    destruct HJ as [(tk & done & En & Ed & Hl) Hs].
    destruct todo as [|d r].
    + rewrite En. rewrite andb_false_r. intros H. injection H as <- <-.
      rewrite app_nil_r in Ed. rewrite <- Ed in Hl.
      pose proof (seq_fix V g k tk got Hwf En Hl) as Hk.
      split; [apply cons_vset; assumption|]. simpl. split; [exact Hk|exact Hs].
    + intros H. injection H as <- <-. split; [exact Hc|]. simpl. split; [|exact Hs].
      exists tk, done. repeat split; assumption.
  - (* Deliver *)
    destruct HJ as [Hv Hs]. destruct st as [|[k r got] st']; [discriminate|].
    intros H. injection H as <- <-. split; [exact Hc|]. simpl.
    destruct Hs as [(tk & done & En & Ed & Hl) Hs']. split; [|exact Hs'].
    exists tk, (done ++ [d]). rewrite <- app_assoc. simpl. repeat split; [exact En|exact Ed|].
    apply lookup_all_snoc; assumption.
  - (* Raised *)
    destruct HJ as [-> _]. discriminate.
Qed.

Lemma memo_fin lf t sh lo lo' : cons sh -> Jl t lo -> mline V g virt true lf sh lo = Fin lo' -> mpost t lo'.
Proof.
  intros Hc HJ. unfold mline, Jl, mpost in *. destruct lo as [md st]. simpl in *.
  destruct md as [d|k todo got|d v|].
  - destruct (if lf then m_cache sh d else None); [discriminate|]. destruct (nth_error g d); discriminate.
  - destruct todo; [|discriminate]. destruct (nth_error g k); [|discriminate].
    rewrite andb_false_r. discriminate.
  - destruct st as [|[k r got] st']; [|discriminate]. intros H. injection H as <-. simpl.
    destruct HJ as [Hv Hs]. simpl in Hs. subst d. repeat split; auto.
  - destruct st as [|f st']; [|discriminate]. intros H. injection H as <-. simpl. split; [reflexivity|exact (proj2 HJ)].
Qed.

Lemma memo_nocrash lf t sh lo : cons sh -> Jl t lo -> mline V g virt true lf sh lo <> Crash.
Proof.
  intros Hc HJ. unfold mline, Jl in *. destruct lo as [md st]. simpl in *.
  destruct md as [d|k todo got|d v|].
  - destruct (if lf then m_cache sh d else None); [discriminate|]. destruct (nth_error g d); discriminate.
  - destruct HJ as [(tk & done & En & _) _]. destruct todo; [|discriminate]. rewrite En, andb_false_r. discriminate.
  - destruct st as [|[k r got] st']; discriminate.
  - destruct st; discriminate.
Qed.

Lemma cons_m0 : cons (m0 V).
Proof. intros k v H. discriminate. Qed.

(* VALUES, with NO lock at all (hence also with it): for every schedule of any number of threads asking for any names,
   nothing crashes, every cached value and every value a thread holds in the middle of a creation is the single-thread
   value, every thread that returned got the single-thread value of the name it asked for (KeyError exactly for names
   that nothing creates).  [lookup_first] is irrelevant for this. *)
Theorem memo_values_safe lf schedule :
  let c := uexec _ _ (mline V g virt true lf) (mstart V want) (m0 V) schedule in
  (forall t, g_th c t <> GFail) /\
  (forall t lo, g_th c t = GDone lo -> mpost t lo) /\
  cons (g_sh c) /\
  (forall t lo, g_th c t = GIn lo -> Jl t lo).
Proof.
  intros c.
  destruct (unlocked_inv_safe _ _ (mline V g virt true lf) (mstart V want) cons Jl mpost) with (sh0 := m0 V) (schedule := schedule)
    as [A B C D].
  - intros t. unfold Jl, mstart. simpl. reflexivity.
  - intros. eapply memo_go; eassumption.
  - intros. eapply memo_fin; eassumption.
  - intros. eapply memo_nocrash; eassumption.
  - exact cons_m0.
  - split; [exact D|]. split; [exact C|]. split; [exact A|exact B].
Qed.

(* ---------- with the lock: every name is created at most once ---------- *)
Definition cnt (sh : mshared) : Prop :=
  forall k, m_count sh k = match m_cache sh k with Some _ => 1 | None => 0 end.
Definition fnode (f : frame) : nat := match f with Fr k _ _ => k end.
(* the names under construction are not in the cache yet *)
Definition fresh (sh : mshared) (lo : mlocal) : Prop :=
  (forall f, In f (m_stack lo) -> m_cache sh (fnode f) = None) /\
  match m_mode lo with Create k _ _ => m_cache sh k = None | _ => True end.
Definition JL (t : nat) (sh : mshared) (lo : mlocal) : Prop := cons sh /\ Jl t lo /\ cnt sh /\ fresh sh lo.
Definition IL (sh : mshared) : Prop := cons sh /\ cnt sh.

Lemma stack_increasing t : forall st d, stack_ok t d st -> forall f, In f st -> d < fnode f.
Proof.
  induction st as [|[k r got] st' IH]; intros d Hs f Hin; [contradiction|].
  destruct Hs as [(tk & done & En & Ed & _) Hs'].
  assert (d < k) as Hlt by (apply (wf_deps V g k tk d Hwf En); rewrite Ed; apply in_or_app; right; left; reflexivity).
  destruct Hin as [<-|Hin]; [exact Hlt|]. specialize (IH k Hs' f Hin). simpl in IH. lia.
Qed.

Lemma memo_go_locked t sh lo sh' lo' : JL t sh lo -> mline V g virt true true sh lo = Go sh' lo' -> JL t sh' lo'.
Proof.
  intros (Hc & HJ & Hn & Hf) E.
  destruct (memo_go true t sh lo sh' lo' Hc HJ E) as [Hc' HJ'].
  split; [exact Hc'|]. split; [exact HJ'|].
  unfold mline in E. unfold fresh, Jl in *. destruct lo as [md st]. simpl in *.
  destruct md as [d|k todo got|d v|].
  - destruct (m_cache sh d) as [v|] eqn:Ec.
    + injection E as <- <-. simpl. split; [exact Hn|]. split; [exact (proj1 Hf)|exact Logic.I].
    + destruct (nth_error g d) as [tk|]; injection E as <- <-; simpl; (split; [exact Hn|]); (split; [exact (proj1 Hf)|]); auto.
  - destruct HJ as [(tk & done & En & Ed & Hl) Hs]. destruct todo as [|d r].
    + rewrite En, andb_false_r in E. injection E as <- <-. simpl. destruct Hf as [Hfs Hk]. split; [|split; [|exact Logic.I]].
      * intros j. simpl. unfold bump, vset. destruct (Nat.eqb j k) eqn:Ej.
        -- apply Nat.eqb_eq in Ej. subst j. rewrite (Hn k), Hk. reflexivity.
        -- apply Hn.
      * intros f Hin. unfold vset. pose proof (stack_increasing t st k Hs f Hin) as Hlt.
        assert (Nat.eqb (fnode f) k = false) as -> by (apply Nat.eqb_neq; lia). apply Hfs. exact Hin.
    + injection E as <- <-. simpl. destruct Hf as [Hfs Hk]. split; [exact Hn|]. split; [|exact Logic.I].
      intros f [<-|Hin]; [exact Hk|apply Hfs; exact Hin].
  - destruct st as [|[k r got] st']; [discriminate|]. injection E as <- <-. simpl. destruct Hf as [Hfs _].
    split; [exact Hn|]. split.
    + intros f Hin. apply Hfs. right. exact Hin.
    + apply (Hfs (Fr k r got)). left. reflexivity.
  - destruct HJ as [-> _]. discriminate.
Qed.

Theorem memo_locked_once schedule :
  let c := gexec _ _ (mline V g virt true true) (mstart V want) (m0 V) schedule in
  (forall t, g_th c t <> GFail) /\
  (forall t lo, g_th c t = GDone lo -> mpost t lo) /\
  (g_lock c = None -> IL (g_sh c)) /\
  (forall t lo, g_th c t = GIn lo -> g_lock c = Some t /\ JL t (g_sh c) lo).
Proof.
  apply (guarded_inv_safe _ _ (mline V g virt true true) (mstart V want) IL mpost JL).
  - intros t sh [Hc Hn]. repeat split; auto. intros f [].
  - intros. eapply memo_go_locked; eassumption.
  - intros t sh lo lo' (Hc & HJ & Hn & _) E. split; [split; assumption|]. eapply memo_fin; eassumption.
  - intros t sh lo (Hc & HJ & _) E. eapply memo_nocrash; eassumption.
  - split; [exact cons_m0|]. intros k. reflexivity.
Qed.

(* at every moment of every schedule, no name has been created more than once *)
Corollary memo_count_le_1 schedule k :
  m_count (g_sh (gexec _ _ (mline V g virt true true) (mstart V want) (m0 V) schedule)) k <= 1.
Proof.
  destruct (memo_locked_once schedule) as (_ & _ & C & D).
  set (c := gexec _ _ (mline V g virt true true) (mstart V want) (m0 V) schedule) in *.
  destruct (g_lock c) as [h|] eqn:El.
  - destruct (g_serializable _ _ (mline V g virt true true) (mstart V want) (m0 V) schedule) as [(shs & _ & Hl) _ _].
    fold c in Hl. rewrite El in Hl. destruct Hl as [_ (lo & Eh & _)].
    destruct (D h lo Eh) as [_ (_ & _ & Hn & _)]. rewrite (Hn k). destruct (m_cache (g_sh c) k); lia.
  - destruct (C eq_refl) as [_ Hn]. rewrite (Hn k). destruct (m_cache (g_sh c) k); lia.
Qed.

End MemoP.
