(* C15 round 2: concrete, non-trivial instances of the hypotheses / conclusions of the round-2 theorems. *)
From Coq Require Import ZArith QArith Qcanon Qround List Bool Arith Lia.
From KV Require Import Base.Sx Gen.Generated Model.Interp Model.Weights Model.Averager Model.WeightsApi Model.AveragerApi
                       Proofs.WeightsP Proofs.WeightsBlocksP Proofs.WeightsNumP Proofs.AveragerP Proofs.C15ExamplesP
                       Proofs.WeightsApiP Proofs.WeightsStoreP Proofs.WeightsLawsP Proofs.AveragerApiP.
Import ListNotations.
Close Scope Q_scope.
Open Scope nat_scope.

(* ------------------------------------------------------------------ _narrow *)
Example ex_narrow_u8 : narrow [0; 255; 3]%Z = (UInt 8, [0; 255; 3]%Z).
Proof. vm_compute. reflexivity. Qed.
Example ex_narrow_u16 : narrow [0; 256]%Z = (UInt 16, [0; 256]%Z).
Proof. vm_compute. reflexivity. Qed.
Example ex_narrow_u32 : fst (narrow [70000]%Z) = UInt 32 /\ fst (narrow [4294967296]%Z) = KeepDtype.
Proof. vm_compute. auto. Qed.
Example ex_narrow_negative : narrow [-1; 300]%Z = (KeepDtype, [-1; 300]%Z).
Proof. vm_compute. reflexivity. Qed.
Example ex_narrow_empty : narrow [] = (UInt 8, []).
Proof. vm_compute. reflexivity. Qed.
(* the soundness condition on the table is what protects the values: a row `high <= 0xFFF -> uint8` wraps 300 to 44 *)
Example ex_narrow_unsound_table :
  forallb entry_ok [(true, 4095, 8)]%Z = false /\ narrow_gen [(true, 4095, 8)]%Z 8%Z [300]%Z = (UInt 8, [44]%Z).
Proof. vm_compute. auto. Qed.

(* ------------------------------------------------------------------ the lookup as called *)
Example ex_c2a_api : c2a_api ex_cps = Ok ((UInt 8, [1; 2; 4]%Z), (UInt 8, [2; 0; 2; 0; 2]%Z), (UInt 8, [0; 0; 2; 2; 2]%Z)).
Proof. vm_compute. reflexivity. Qed.
Example ex_c2a_api_missing : c2a_api [(1, 2); (1, 1)]%Z = Err KeyError.
Proof. vm_compute. reflexivity. Qed.
Example ex_cps_nonempty : ex_cps <> [].
Proof. discriminate. Qed.

(* ------------------------------------------------------------------ constructor options on the data set of round 1 *)
Definition is_ok {A} (r : res A) : bool := match r with Ok _ => true | Err _ => false end.
Example ex_ctor_ok : is_ok (vfw_api (Some ex_cps) false VOff [] 5 ex_vis [2; 3] ex_w [4; 1] ex_wc [1] [1; 1]) = true.
Proof. vm_compute. reflexivity. Qed.
Example ex_ctor_errors :
  vfw_api (Some ex_cps) false VOff [] 4 ex_vis [2; 3] ex_w [4; 1] ex_wc [1] [1; 1] = Err AssertionError /\
  vfw_api (Some [(1, 2); (1, 1)]%Z) true VOff [] 2 ex_vis [2] ex_w [2] ex_wc [1] [1; 1] = Err KeyError /\
  vfw_api None false VOff [] 5 ex_vis [2; 3] ex_w [4; 1] ex_wc [1] [1; 1] = Err ValueError /\
  vfw_api None true VAuto [] 5 ex_vis [2; 3] ex_w [4; 1] ex_wc [1] [1; 1] = Err TypeError /\
  vfw_api (Some ex_cps) true VOther [] 5 ex_vis [2; 3] ex_w [4; 1] ex_wc [1] [1; 1] = Err ValueError.
Proof. repeat split; vm_compute; reflexivity. Qed.
Example ex_ctor_none : match vfw_api None true VOff [] 5 ex_vis [2; 3] ex_w [4; 1] ex_wc [1] [1; 1] with
                       | Ok o => o_unscaled o = None /\ of_Ext (Weights.get3 (o_weights o) NaN 0 1 4) = L [I 10; I 1]
                       | Err _ => False end.
Proof. vm_compute. auto. Qed.

(* ------------------------------------------------------------------ lost chunks, preselection *)
Example ex_chunk_idx : map (chunk_idx [2; 3; 1]) [0; 1; 2; 4; 5] = [0; 0; 1; 1; 2].
Proof. vm_compute. reflexivity. Qed.
(* the 1 x 2 x 5 data set, visibilities stored in chunks (1) x (1, 1) x (2, 3); the chunk (0, 0, 0) - channel 0,
   products 0 and 1, i.e. the auto (2, 2) at position 1 - is lost: product 0 = (1, 2) at channel 0 gets the tiny weight
   3 * 1/2 * 2^-32, product 2 = (1, 1) (autos at position 4, stored 1/2) keeps 2 * 1/2 / (1/2)^2 = 4 *)
Definition ex_store p tch fch :=
  vfw_store (Some ex_cps) false VOff [] 5 ex_vis ([1], [1; 1], [2; 3]) [(0, 0, 0)] ex_w ([1], [2], [4; 1]) []
            ex_wc ([1], [2]) [] p tch fch.
Example ex_lost_vis : match ex_store None [1] [1; 1] with
                      | Ok o => of_Ext (Weights.get3 (o_weights o) NaN 0 0 0) = L [I 3; I 8589934592] /\
                                of_Ext (Weights.get3 (o_weights o) NaN 0 0 2) = L [I 4; I 1]
                      | Err _ => False end.
Proof. vm_compute. auto. Qed.
Example ex_lost_premise : last_auto ex_cps 2%Z = Some 1 /\
  mem3 (chunk_idx [1] 0, chunk_idx [1; 1] 0, chunk_idx [2; 3] 1) [(0, 0, 0)] = true.
Proof. vm_compute. auto. Qed.
(* a lost chunk of the weights (channel 1, products 0..3) *)
Example ex_lost_w :
  match vfw_store (Some ex_cps) false VOff [] 5 ex_vis ([1], [1; 1], [2; 3]) [] ex_w ([1], [1; 1], [4; 1]) [(0, 1, 0)]
                  ex_wc ([1], [2]) [] None [1] [2] with
  | Ok o => of_Ext (Weights.get3 (o_weights o) NaN 0 1 3) = L [I 0; I 1] /\
            of_Ext (Weights.get3 (o_weights o) NaN 0 1 4) <> L [I 0; I 1]
  | Err _ => False end.
Proof. vm_compute. split; [reflexivity | discriminate]. Qed.
(* preselection of channel 1 only: the same values as channel 1 of the full data set *)
Example ex_presel : presel_ok (Some (0, 1, 1, 1)) 1 2 /\
  match ex_store None [1] [2], ex_store (Some (0, 1, 1, 1)) [1] [1] with
  | Ok o, Ok o' => map of_Ext (nth 0 (nth 0 (o_weights o') []) []) = map of_Ext (nth 1 (nth 0 (o_weights o) []) [])
  | _, _ => False end.
Proof. split; [cbn; lia | vm_compute; reflexivity]. Qed.

(* ------------------------------------------------------------------ kernel laws *)
Example ex_roundtrip : of_Ext (power_scale false (Fin (q 2 1)) (Fin (q (-4) 1))
                                (power_scale true (Fin (q 2 1)) (Fin (q (-4) 1)) (Fin (q 3 2)))) = L [I 3; I 2].
Proof. vm_compute. reflexivity. Qed.
Example ex_nonneg_auto : nonneg_auto (Fin (q 0 1)) /\ nonneg_auto NaN /\ nonneg_auto NInf /\ ~ nonneg_auto (Fin (q (-1) 1)).
Proof. repeat split; try exact I; try discriminate. intro H. apply H. reflexivity. Qed.
Example ex_never_zero : of_Ext (power_scale true NInf (Fin (q 0 1)) (Fin (q 5 1))) = L [I 5; I 4294967296].
Proof. vm_compute. reflexivity. Qed.

(* ------------------------------------------------------------------ excision *)
(* n_accs = 4, k = 3: 8 accumulations = 2 whole correlator dumps -> 1/3 excised *)
Example ex_excision_whole : of_Ext (excision 4 3 (Fin (ZQc (2 * 4)))) = L [I 1; I 3].
Proof. vm_compute. reflexivity. Qed.
Example ex_excision_antitone : of_Qc (spec_excision 4 3 (q 5 1)) = L [I 2; I 3] /\ of_Qc (spec_excision 4 3 (q 7 1)) = L [I 1; I 3].
Proof. vm_compute. auto. Qed.
Example ex_cbf_attrs : cbf_attrs (Some tt) (Some (q 1 2)) (Some 4%Z) (Some tt) (Some tt) (Some tt) = Some (q 1 2, 4%Z) /\
                       cbf_attrs (Some tt) (Some (q 1 2)) (Some 4%Z) (Some tt) (Some tt) (@None unit) = None.
Proof. split; reflexivity. Qed.
Example ex_excision_api : is_ok (excision_api (q 2 1) (Some (q 1 2, 4%Z)) (Some [[[Fin (q 8 1)]]])) = true /\
                          excision_api (q 2 1) None (Some [[[Fin (q 8 1)]]]) = Err ValueError /\
                          accumulations_per_dump (q 2 1) (Some (q 1 2, 4%Z)) = Some 16%Z.
Proof. vm_compute. auto. Qed.

(* ------------------------------------------------------------------ v3 selection *)
Example ex_v3_select : v3_selection [7]%Z (SelNames [9; 7]%Z) = [0] /\ v3_selected [7]%Z (SelNames [9]%Z) = false /\
                       v3_selected [7]%Z SelAll = true /\ v3_selected [] SelAll = false.
Proof. vm_compute. auto. Qed.
Example ex_v3_req : of_Ext (v3_weight_req [7]%Z (SelNames [9]%Z) true true (Fin (q 3 1)) (Fin (q 1 2))) = L [I 1; I 1] /\
                    of_Ext (v3_weight_req [7]%Z (SelNames [7]%Z) true false (Fin (q 3 1)) (Fin (q 1 2))) = L [I 3; I 1].
Proof. vm_compute. auto. Qed.

(* ------------------------------------------------------------------ averager *)
Definition smp (re w : Z) (f : bool) : sample := ((Q2Qc (re # 1), 0%Qc), Q2Qc (w # 1), f).
Definition ex_avg : Averager.arr3 sample :=
  [[[smp 1 1 false; smp 5 2 false; smp 7 1 true]]; [[smp 3 3 false; smp 9 2 true; smp 2 4 true]]].
(* three baselines in blocks of two: the blocked kernel is the plain one *)
Example ex_blocked : average_kernel_blocked true 2 ex_avg 2 1 3 2 1 false = average_kernel ex_avg 2 1 3 2 1 false.
Proof. vm_compute. reflexivity. Qed.
Example ex_same_unflagged : same_unflagged [smp 1 1 false; smp 7 1 true] [smp 1 1 false; smp 100 50 true] /\
                            qsum (map s_w (unflagged [smp 1 1 false; smp 7 1 true])) <> 0%Qc.
Proof. split; [apply su_kept; [reflexivity |]; apply su_flagged; apply su_nil | vm_compute; discriminate]. Qed.
Example ex_default_call : match average_default (repeat (repeat [smp 1 1 false] 8) 3) 3 8 1 with
                          | Some r => List.length r = 1 /\ List.length (nth 0 r []) = 1
                          | None => False end.
Proof. vm_compute. auto. Qed.

(* ------------------------------------------------------------------ v3: second-stage index *)
(* 3 dumps x 2 channels x 1 product, weights 1..6, per-channel weights 10, 20 / 30, 40 / 50, 60 *)
Definition ex3_w : Weights.arr3 Ext := [[[Fin (q 1 1)]; [Fin (q 2 1)]]; [[Fin (q 3 1)]; [Fin (q 4 1)]]; [[Fin (q 5 1)]; [Fin (q 6 1)]]].
Definition ex3_wc : list (list Ext) := [[Fin (q 10 1); Fin (q 20 1)]; [Fin (q 30 1); Fin (q 40 1)]; [Fin (q 50 1); Fin (q 60 1)]].
(* d.weights[[0, 2], [0, 1]]: the 2 x 2 block of products 10, 40 / 250, 360 *)
Example ex_v3_outer : of_arr3 of_Ext (v3_weights_indexed true true true ex3_w ex3_wc [0; 2] [0; 1] [0]) =
  L [L [L [L [I 10; I 1]]; L [L [I 40; I 1]]]; L [L [L [I 250; I 1]]; L [L [I 360; I 1]]]].
Proof. vm_compute. reflexivity. Qed.
(* numpy's pairwise rule on a preloaded weights_channel (one value per PAIR (0, 0), (2, 1)) gets the off-diagonal
   elements wrong: 2 * 60 instead of 2 * 20, 5 * 10 instead of 5 * 50 *)
Example ex_v3_vectorised_differs :
  of_arr3 of_Ext (v3_weights_vectorised true true true ex3_w ex3_wc [0; 2] [0; 1] [0]) =
  L [L [L [L [I 10; I 1]]; L [L [I 120; I 1]]]; L [L [L [I 50; I 1]]; L [L [I 360; I 1]]]] /\
  v3_weights_vectorised true true true ex3_w ex3_wc [0; 2] [0; 1] [0] <> v3_weights_indexed true true true ex3_w ex3_wc [0; 2] [0; 1] [0].
Proof. split; [vm_compute; reflexivity | vm_compute; discriminate]. Qed.
