(* C13 lemmas about Model/Applycal.v *)
From Coq Require Import ZArith QArith Qabs Qcanon List Bool String Arith Lia Permutation.
From KV Require Import Base.Sx Gen.Generated Model.Applycal.
Import ListNotations.

Lemma postproc_is_128 : POSTPROC = 128%Z.
Proof. reflexivity. Qed.
