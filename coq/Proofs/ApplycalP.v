(* C13 lemmas about Model/Applycal.v *)
From Coq Require Import ZArith QArith Qabs Qcanon List Bool String Arith Lia Lqa Permutation.
From KV Require Import Base.Sx Gen.Generated Model.Applycal.
Import ListNotations.

Lemma postproc_is_128 : POSTPROC = 128%Z.
Proof. reflexivity. Qed.

(* ------------------------------------------------------------------ algebra of C *)
Local Open Scope Qc_scope.

Lemma Cmul_comm : forall x y, Cmul x y = Cmul y x.
Proof. intros [|a b] [|c d]; cbn; try reflexivity. f_equal; ring. Qed.

Lemma Cmul_assoc : forall x y z, Cmul x (Cmul y z) = Cmul (Cmul x y) z.
Proof. intros [|a b] [|c d] [|e f]; cbn; try reflexivity. f_equal; ring. Qed.

Lemma Cmul_1_l : forall x, Cmul Cone x = x.
Proof. intros [|a b]; cbn; try reflexivity. f_equal; ring. Qed.

Lemma Cmul_1_r : forall x, Cmul x Cone = x.
Proof. intros x. rewrite Cmul_comm. apply Cmul_1_l. Qed.

Lemma Cmul_nan_r : forall x, Cmul x CNaN = CNaN.
Proof. intros [|a b]; reflexivity. Qed.

Lemma Cmul_nan_iff : forall x y, Cmul x y = CNaN <-> x = CNaN \/ y = CNaN.
Proof.
  intros [|a b] [|c d]; cbn; split; intros H; auto; try discriminate.
  destruct H; discriminate.
Qed.

Lemma Cconj_nan_iff : forall x, Cconj x = CNaN <-> x = CNaN.
Proof. intros [|a b]; cbn; split; intros H; auto; discriminate. Qed.

Lemma Cconj_mul : forall x y, Cconj (Cmul x y) = Cmul (Cconj x) (Cconj y).
Proof. intros [|a b] [|c d]; cbn; try reflexivity. f_equal; ring. Qed.

Lemma Cconj_one : Cconj Cone = Cone.
Proof. unfold Cone, Cconj; f_equal; try ring. Qed.

Lemma Cconj_involutive : forall x, Cconj (Cconj x) = x.
Proof. intros [|a b]; cbn; try reflexivity. f_equal; ring. Qed.

Lemma Cprod_cons : forall x l, Cprod (x :: l) = Cmul x (Cprod l).
Proof. reflexivity. Qed.

Lemma Cprod_app : forall l1 l2, Cprod (l1 ++ l2) = Cmul (Cprod l1) (Cprod l2).
Proof.
  induction l1; intros; cbn [app Cprod fold_right].
  - fold (Cprod l2). now rewrite Cmul_1_l.
  - fold (Cprod (l1 ++ l2)). fold (Cprod l1). rewrite IHl1. apply Cmul_assoc.
Qed.

Lemma Cprod_perm : forall l l', Permutation l l' -> Cprod l = Cprod l'.
Proof.
  induction 1; cbn [Cprod fold_right]; auto.
  - fold (Cprod l). fold (Cprod l'). now rewrite IHPermutation.
  - fold (Cprod l). rewrite !Cmul_assoc. f_equal. apply Cmul_comm.
  - congruence.
Qed.

Lemma Cprod_nan_iff : forall l, Cprod l = CNaN <-> In CNaN l.
Proof.
  induction l; cbn [Cprod fold_right In].
  - split; [discriminate | tauto].
  - fold (Cprod l). rewrite Cmul_nan_iff, IHl. intuition auto.
Qed.

Lemma Cconj_prod : forall l, Cconj (Cprod l) = Cprod (map Cconj l).
Proof.
  induction l; cbn [Cprod fold_right map].
  - apply Cconj_one.
  - fold (Cprod l). fold (Cprod (map Cconj l)). now rewrite Cconj_mul, IHl.
Qed.

Lemma Cprod_mul_pointwise : forall {A} (f h : A -> C) (l : list A),
  Cmul (Cprod (map f l)) (Cprod (map h l)) = Cprod (map (fun p => Cmul (f p) (h p)) l).
Proof.
  induction l; cbn [Cprod fold_right map].
  - apply Cmul_1_l.
  - fold (Cprod (map f l)). fold (Cprod (map h l)).
    fold (Cprod (map (fun p => Cmul (f p) (h p)) l)). rewrite <- IHl.
    rewrite !Cmul_assoc. f_equal. rewrite <- !Cmul_assoc. f_equal. apply Cmul_comm.
Qed.

(* fold_left (the code's multiplication order) = the product *)
Lemma fold_left_Cmul : forall {A} (f : A -> C) (l : list A) (acc : C),
  fold_left (fun a p => Cmul a (f p)) l acc = Cmul acc (Cprod (map f l)).
Proof.
  induction l; intros; cbn [fold_left map Cprod fold_right].
  - now rewrite Cmul_1_r.
  - fold (Cprod (map f l)). rewrite IHl. now rewrite Cmul_assoc.
Qed.

(* ------------------------------------------------------------------ the factor *)
Definition gp (t c : nat) (i : nat) (p : product) : C := map_chan (p_map p) (corr_at p i t) c.

Lemma ginput_prod : forall prods i t c, ginput prods i t c = Cprod (map (gp t c i) prods).
Proof. intros. unfold ginput. rewrite (fold_left_Cmul (gp t c i)). apply Cmul_1_l. Qed.

(* the factor is the product over the cal products of correction(input1) * conj(correction(input2)) *)
Lemma factor_product : forall prods t c cp,
  factor prods t c cp =
  Cprod (map (fun p => Cmul (gp t c (fst cp) p) (Cconj (gp t c (snd cp) p))) prods).
Proof.
  intros. unfold factor. rewrite !ginput_prod, Cconj_prod, map_map.
  apply (Cprod_mul_pointwise (gp t c (fst cp)) (fun p => Cconj (gp t c (snd cp) p))).
Qed.

Lemma factor_perm : forall prods prods' t c cp,
  Permutation prods prods' -> factor prods t c cp = factor prods' t c cp.
Proof. intros. rewrite !factor_product. apply Cprod_perm. now apply Permutation_map. Qed.

Lemma factor_nan_iff : forall prods t c cp,
  factor prods t c cp = CNaN <->
  exists p, In p prods /\ (gp t c (fst cp) p = CNaN \/ gp t c (snd cp) p = CNaN).
Proof.
  intros. rewrite factor_product, Cprod_nan_iff, in_map_iff. split.
  - intros [p [H Hin]]. exists p. split; auto. apply Cmul_nan_iff in H.
    rewrite Cconj_nan_iff in H. exact H.
  - intros [p [Hin H]]. exists p. split; auto. apply Cmul_nan_iff. rewrite Cconj_nan_iff. exact H.
Qed.

(* ------------------------------------------------------------------ kernels *)
Lemma norm2_nonneg : forall a b : Qc, 0 <= norm2 a b.
Proof.
  intros. unfold norm2.
  assert (S : forall x : Qc, 0 <= x * x).
  { intros x. unfold Qcle, Qcmult. cbn [this Q2Qc]. rewrite !Qred_correct.
    destruct x as [[n d] Hc]. cbn [this]. unfold Qle, Qmult. cbn [Qnum Qden]. nia. }
  replace 0 with (0 + 0) by ring. apply Qcplus_le_compat; apply S.
Qed.

Lemma apply_weights_fin : forall w a b, norm2 a b <> 0 -> apply_weights w (CFin a b) = w / norm2 a b.
Proof.
  intros. cbn. destruct (Qclt_le_dec 0 (norm2 a b)) as [Hlt | Hle]; auto.
  exfalso. apply H. apply Qcle_antisym; auto. apply norm2_nonneg.
Qed.

Lemma apply_weights_zero : forall w a b, norm2 a b = 0 -> apply_weights w (CFin a b) = 0.
Proof.
  intros. cbn. rewrite H. destruct (Qclt_le_dec 0 0) as [Hlt | Hle]; auto.
  exfalso. revert Hlt. apply Qcle_not_lt. apply Qcle_refl.
Qed.

Lemma composition : forall prods t c cp d w fl a b,
  Cprod (map (fun p => Cmul (gp t c (fst cp) p) (Cconj (gp t c (snd cp) p))) prods) = CFin a b ->
  apply_vis d (factor prods t c cp) = Cmul d (CFin a b) /\
  (norm2 a b <> 0 -> apply_weights w (factor prods t c cp) = w / norm2 a b) /\
  apply_flags fl (factor prods t c cp) = fl.
Proof.
  intros. rewrite factor_product, H. split; [reflexivity | split; [| reflexivity]].
  apply apply_weights_fin.
Qed.

Lemma invalid : forall prods t c cp d w fl,
  (exists p, In p prods /\ (gp t c (fst cp) p = CNaN \/ gp t c (snd cp) p = CNaN)) ->
  apply_vis d (factor prods t c cp) = d /\
  apply_weights w (factor prods t c cp) = 0 /\
  apply_flags fl (factor prods t c cp) = Z.lor fl 128.
Proof. intros. apply factor_nan_iff in H. rewrite H. repeat split. Qed.

Lemma finite_stays_finite : forall d f, d <> CNaN -> apply_vis d f <> CNaN.
Proof. intros [|a b] [|x y] H; cbn; auto; discriminate. Qed.

(* ------------------------------------------------------------------ invertibility *)
Definition fin_nz (z : C) : Prop := exists a b, z = CFin a b /\ norm2 a b <> 0.

Lemma Cmul_inv : forall z, fin_nz z -> Cmul z (Cinv z) = Cone.
Proof.
  intros z [a [b [-> H]]]. unfold Cinv. destruct (Qc_eq_dec (norm2 a b) 0) as [E | _]; [contradiction |].
  unfold Cmul, Cone. unfold norm2 in *. f_equal; field; exact H.
Qed.

Lemma pair_inverts : forall x y, fin_nz x -> fin_nz y ->
  Cmul (Cmul x (Cconj y)) (Cmul (Cinv x) (Cconj (Cinv y))) = Cone.
Proof.
  intros x y Hx Hy.
  replace (Cmul (Cmul x (Cconj y)) (Cmul (Cinv x) (Cconj (Cinv y))))
    with (Cmul (Cmul x (Cinv x)) (Cconj (Cmul y (Cinv y)))).
  - rewrite !Cmul_inv by assumption. rewrite Cconj_one. apply Cmul_1_l.
  - rewrite Cconj_mul. rewrite !Cmul_assoc. f_equal. rewrite <- !Cmul_assoc. f_equal. apply Cmul_comm.
Qed.

Lemma Cprod_all_one : forall {A} (f : A -> C) l, (forall p, In p l -> f p = Cone) -> Cprod (map f l) = Cone.
Proof.
  induction l; intros; cbn [map Cprod fold_right]; auto.
  fold (Cprod (map f l)). rewrite H by (left; auto). rewrite IHl; [apply Cmul_1_l |].
  intros; apply H; right; auto.
Qed.

Lemma inverts : forall (prods : list product) (G : product -> nat -> C) t c cp stored,
  (forall p i, In p prods -> fin_nz (G p i)) ->
  (forall p i, In p prods -> gp t c i p = Cinv (G p i)) ->
  stored <> CNaN ->
  apply_vis (Cmul stored (Cmul (Cprod (map (fun p => G p (fst cp)) prods))
                               (Cconj (Cprod (map (fun p => G p (snd cp)) prods)))))
            (factor prods t c cp) = stored.
Proof.
  intros prods G t c cp stored Hnz Hinv Hs.
  set (A := Cmul (Cprod (map (fun p => G p (fst cp)) prods)) (Cconj (Cprod (map (fun p => G p (snd cp)) prods)))).
  assert (HAF : Cmul A (factor prods t c cp) = Cone).
  { unfold A. rewrite factor_product, Cconj_prod, map_map.
    rewrite (Cprod_mul_pointwise (fun p => G p (fst cp)) (fun p => Cconj (G p (snd cp)))).
    rewrite (Cprod_mul_pointwise (fun p => Cmul (G p (fst cp)) (Cconj (G p (snd cp))))).
    apply Cprod_all_one. intros p Hp. rewrite !Hinv by assumption. apply pair_inverts; auto. }
  assert (Hf : is_nan (factor prods t c cp) = false).
  { destruct (factor prods t c cp); auto. rewrite Cmul_nan_r in HAF. discriminate. }
  unfold apply_vis. rewrite Hf. rewrite <- Cmul_assoc, HAF. apply Cmul_1_r.
Qed.

(* ------------------------------------------------------------------ nearest channel *)
Local Close Scope Qc_scope.
Local Open Scope Q_scope.

Lemma argmin_from_inv : forall l pre bi,
  (bi < List.length pre)%nat ->
  (forall j, (j < List.length pre)%nat -> nth bi pre 0 <= nth j pre 0) ->
  (forall j, (j < bi)%nat -> nth bi pre 0 < nth j pre 0) ->
  let full := pre ++ l in
  let k := argmin_from (nth bi pre 0) bi (List.length pre) l in
  (k < List.length full)%nat /\
  (forall j, (j < List.length full)%nat -> nth k full 0 <= nth j full 0) /\
  (forall j, (j < k)%nat -> nth k full 0 < nth j full 0).
Proof.
  induction l as [| x l IH]; intros pre bi Hbi Hmin Hfirst; cbn zeta.
  - cbn [argmin_from]. rewrite app_nil_r. auto.
  - cbn [argmin_from].
    assert (Hlen : List.length (pre ++ [x]) = S (List.length pre)) by (rewrite app_length; cbn; lia).
    assert (Hx : nth (List.length pre) (pre ++ [x]) 0 = x).
    { rewrite app_nth2 by lia. now rewrite Nat.sub_diag. }
    replace (pre ++ x :: l) with ((pre ++ [x]) ++ l) by (rewrite <- app_assoc; reflexivity).
    destruct (Qlt_le_dec x (nth bi pre 0)) as [Hlt | Hle].
    + specialize (IH (pre ++ [x]) (List.length pre)).
      rewrite Hlen, Hx in IH. apply IH; [lia | |].
      * intros j Hj. destruct (Nat.eq_dec j (List.length pre)) as [-> | Hne].
        { rewrite Hx. apply Qle_refl. }
        rewrite app_nth1 by lia. apply Qlt_le_weak. eapply Qlt_le_trans; [exact Hlt |]. apply Hmin. lia.
      * intros j Hj. rewrite app_nth1 by lia. eapply Qlt_le_trans; [exact Hlt |]. apply Hmin. lia.
    + specialize (IH (pre ++ [x]) bi).
      rewrite Hlen in IH. rewrite (app_nth1 pre [x] 0 Hbi) in IH. apply IH; [lia | |].
      * intros j Hj. destruct (Nat.eq_dec j (List.length pre)) as [-> | Hne].
        { rewrite Hx. exact Hle. }
        rewrite app_nth1 by lia. apply Hmin. lia.
      * intros j Hj. rewrite app_nth1 by lia. apply Hfirst. lia.
Qed.

Lemma argmin_spec : forall l, l <> [] ->
  (argmin l < List.length l)%nat /\
  (forall j, (j < List.length l)%nat -> nth (argmin l) l 0 <= nth j l 0) /\
  (forall j, (j < argmin l)%nat -> nth (argmin l) l 0 < nth j l 0).
Proof.
  intros [| x l] H; [congruence |]. unfold argmin.
  apply (argmin_from_inv l [x] 0%nat); cbn; try lia.
  - intros j Hj. assert (j = 0)%nat by lia. subst. apply Qle_refl.
Qed.

Lemma nth_map_dist : forall fd cal j, (j < List.length cal)%nat ->
  nth j (map (dist fd) cal) 0 = dist fd (nth j cal 0).
Proof.
  intros. rewrite (nth_indep _ 0 (dist fd 0)) by (rewrite map_length; auto). apply map_nth.
Qed.

(* the mapped cal channel minimises |f_cal - f_data|; among equally near ones it is the first *)
Lemma nearest_minimises : forall cal fd, cal <> [] ->
  (nearest cal fd < List.length cal)%nat /\
  (forall j, (j < List.length cal)%nat ->
     Qabs (fd - nth (nearest cal fd) cal 0) <= Qabs (fd - nth j cal 0)) /\
  (forall j, (j < nearest cal fd)%nat ->
     Qabs (fd - nth (nearest cal fd) cal 0) < Qabs (fd - nth j cal 0)).
Proof.
  intros cal fd H. unfold nearest.
  assert (Hm : map (dist fd) cal <> []) by (destruct cal; [congruence | discriminate]).
  destruct (argmin_spec _ Hm) as [Hk [Hmin Hfirst]]. rewrite map_length in *.
  split; [exact Hk | split].
  - intros j Hj. specialize (Hmin j Hj). rewrite !nth_map_dist in Hmin by assumption. exact Hmin.
  - intros j Hj. specialize (Hfirst j Hj). rewrite !nth_map_dist in Hfirst by lia. exact Hfirst.
Qed.

(* ------------------------------------------------------------------ list plumbing *)
Local Close Scope Q_scope.
Local Open Scope nat_scope.

Lemma nth_repeat_lt : forall {A} (x d : A) n j, j < n -> nth j (repeat x n) d = x.
Proof. induction n; intros; [lia |]. destruct j; cbn; auto. apply IHn. lia. Qed.

Lemma nth_skipn' : forall {A} (l : list A) s j d, nth j (skipn s l) d = nth (s + j) l d.
Proof. induction l; intros; destruct s; cbn; auto. destruct j; auto. Qed.

Lemma nth_firstn' : forall {A} (l : list A) n j d, j < n -> nth j (firstn n l) d = nth j l d.
Proof. induction l; intros; destruct n; cbn; auto; [lia |]. destruct j; auto. apply IHl. lia. Qed.

Lemma nth_error_skipn' : forall {A} (l : list A) s j, nth_error (skipn s l) j = nth_error l (s + j).
Proof. induction l; intros; destruct s; cbn; auto. destruct j; auto. Qed.

Lemma nth_error_firstn' : forall {A} (l : list A) n j, j < n -> nth_error (firstn n l) j = nth_error l j.
Proof. induction l; intros; destruct n; cbn; auto; [lia |]. destruct j; cbn; auto. apply IHl. lia. Qed.

Lemma nth_map_error : forall {A B} (f : A -> B) l j d,
  nth j (map f l) d = match nth_error l j with Some k => f k | None => d end.
Proof. induction l; intros; destruct j; cbn; auto. Qed.

Lemma nth_map_seq : forall {A} (f : nat -> A) s n j d, j < n -> nth j (map f (seq s n)) d = f (s + j).
Proof.
  intros. rewrite nth_map_error. rewrite nth_error_nth' with (d := 0) by (rewrite seq_length; auto).
  now rewrite seq_nth.
Qed.

Lemma nth_map_in : forall {A B} (f : A -> B) l j d d', j < List.length l -> nth j (map f l) d = f (nth j l d').
Proof.
  intros. rewrite nth_map_error. now rewrite nth_error_nth' with (d := d').
Qed.

Lemma nth_map2_Cmul : forall a b j, nth j (map2 Cmul a b) CNaN = Cmul (nth j a CNaN) (nth j b CNaN).
Proof.
  induction a as [| x a IH]; intros b j.
  - cbn. destruct j; reflexivity.
  - destruct b as [| y b]; cbn [map2].
    + destruct j; cbn; now rewrite Cmul_nan_r.
    + destruct j; cbn; auto.
Qed.

Lemma map2_length : forall {A B D} (f : A -> B -> D) a b,
  List.length (map2 f a b) = Nat.min (List.length a) (List.length b).
Proof. induction a; intros; destruct b; cbn; auto. Qed.

Lemma nth_map2 : forall {A B D} (f : A -> B -> D) a b j d da db,
  j < List.length a -> j < List.length b -> nth j (map2 f a b) d = f (nth j a da) (nth j b db).
Proof.
  induction a; intros b j d da db Ha Hb; destruct b; cbn in *; try lia.
  destruct j; auto. apply IHa; lia.
Qed.

(* ------------------------------------------------------------------ a block is the pointwise function *)
Lemma map_block_nth : forall m g c0 cn j, j < cn ->
  nth j (map_block m g c0 cn) CNaN = map_chan m g (c0 + j).
Proof.
  intros [| | e] g c0 cn j Hj; cbn [map_block map_chan].
  - now apply nth_repeat_lt.
  - rewrite nth_firstn' by assumption. apply nth_skipn'.
  - rewrite nth_map_error, nth_error_firstn' by assumption. now rewrite nth_error_skipn'.
Qed.

Lemma ginput_block_nth : forall prods i t c0 cn j, j < cn ->
  nth j (ginput_block prods i t c0 cn) CNaN = ginput prods i t (c0 + j).
Proof.
  intros prods i t c0 cn j Hj. unfold ginput_block, ginput.
  assert (H : forall acc, nth j (fold_left (fun acc p => map2 Cmul acc (map_block (p_map p) (corr_at p i t) c0 cn)) prods acc) CNaN
              = fold_left (fun a p => Cmul a (map_chan (p_map p) (corr_at p i t) (c0 + j))) prods (nth j acc CNaN)).
  { induction prods as [| p prods IH]; intros acc; cbn [fold_left]; auto.
    rewrite IH, nth_map2_Cmul, map_block_nth by assumption. reflexivity. }
  rewrite H. now rewrite nth_repeat_lt.
Qed.

Definition cps_ok (ninputs : nat) (cps : list (nat * nat)) : Prop :=
  forall cp, In cp cps -> fst cp < ninputs /\ snd cp < ninputs.

Lemma corr_block_nth : forall prods ninputs cps t0 tn c0 cn n j b,
  cps_ok ninputs cps -> n < tn -> j < cn -> b < List.length cps ->
  nth b (nth j (nth n (corr_block prods ninputs cps t0 tn c0 cn) []) []) CNaN
  = factor prods (t0 + n) (c0 + j) (nth b cps (0, 0)).
Proof.
  intros prods ninputs cps t0 tn c0 cn n j b Hok Hn Hj Hb. unfold corr_block.
  rewrite nth_map_seq by assumption. cbn [plus]. unfold row_block.
  rewrite nth_map_seq by assumption. cbn [plus].
  rewrite (nth_map_in _ cps b CNaN (0, 0)) by assumption.
  destruct (Hok (nth b cps (0, 0)) (nth_In _ _ Hb)) as [H1 H2].
  rewrite !(nth_map_seq _ 0 ninputs) by assumption. cbn [plus].
  rewrite !ginput_block_nth by assumption. reflexivity.
Qed.

Lemma corr_block_rows : forall prods ninputs cps t0 tn c0 cn,
  List.length (corr_block prods ninputs cps t0 tn c0 cn) = tn.
Proof. intros. unfold corr_block. now rewrite map_length, seq_length. Qed.

Lemma corr_block_cols : forall prods ninputs cps t0 tn c0 cn n, n < tn ->
  List.length (nth n (corr_block prods ninputs cps t0 tn c0 cn) []) = cn.
Proof.
  intros. unfold corr_block. rewrite nth_map_seq by assumption. unfold row_block.
  now rewrite map_length, seq_length.
Qed.

Lemma corr_block_cells : forall prods ninputs cps t0 tn c0 cn n j, n < tn -> j < cn ->
  List.length (nth j (nth n (corr_block prods ninputs cps t0 tn c0 cn) []) []) = List.length cps.
Proof.
  intros. unfold corr_block. rewrite nth_map_seq by assumption. unfold row_block.
  rewrite nth_map_seq by assumption. now rewrite map_length.
Qed.

(* ------------------------------------------------------------------ assembling the blocks of any chunking *)
Definition total (l : list nat) : nat := fold_right Nat.add 0 l.

Lemma offsets_range : forall sizes s o n, In (o, n) (offsets s sizes) -> s <= o /\ o + n <= s + total sizes.
Proof.
  induction sizes as [| a sizes IH]; intros s o n H; cbn [offsets In] in H; [tauto |].
  change (total (a :: sizes)) with (a + total sizes).
  destruct H as [H | H].
  - inversion H; subst. lia.
  - apply IH in H. lia.
Qed.

Lemma nth_flat_offsets_ex : forall {B} (g : nat * nat -> list B) (d : B) sizes s k,
  (forall o n, In (o, n) (offsets s sizes) -> List.length (g (o, n)) = n) ->
  k < total sizes ->
  exists o n, In (o, n) (offsets s sizes) /\ o <= s + k < o + n /\
              nth k (flat_map g (offsets s sizes)) d = nth (s + k - o) (g (o, n)) d.
Proof.
  induction sizes as [| a sizes IH]; intros s k Hlen Hk; [cbn in Hk; lia |].
  change (total (a :: sizes)) with (a + total sizes) in Hk.
  cbn [offsets flat_map].
  assert (Ha : List.length (g (s, a)) = a) by (apply Hlen; left; reflexivity).
  destruct (Nat.lt_ge_cases k a) as [Hlt | Hge].
  - exists s, a. split; [left; reflexivity | split; [lia |]].
    rewrite app_nth1 by lia. f_equal. lia.
  - destruct (IH (s + a) (k - a)) as [o [n [Hin [Hr He]]]].
    + intros o n Hin. apply Hlen. right. exact Hin.
    + lia.
    + exists o, n. split; [right; exact Hin | split; [lia |]].
      rewrite app_nth2 by lia. rewrite Ha, He. f_equal. lia.
Qed.

Lemma flat_map_map' : forall {A B D} (f : B -> list D) (g : A -> B) l,
  flat_map f (map g l) = flat_map (fun x => f (g x)) l.
Proof. induction l; cbn; auto. now rewrite IHl. Qed.

Section AssembleP.
  Context {A : Type}.
  Variable blk : nat -> nat -> nat -> nat -> list (list A).
  Variable f : nat -> nat -> A.
  Variable d : A.
  Variables tch cch : list nat.
  Hypothesis Hrows : forall t0 tn c0 cn, In (t0, tn) (offsets 0 tch) -> In (c0, cn) (offsets 0 cch) ->
    List.length (blk t0 tn c0 cn) = tn.
  Hypothesis Hcols : forall t0 tn c0 cn n, In (t0, tn) (offsets 0 tch) -> In (c0, cn) (offsets 0 cch) ->
    n < tn -> List.length (nth n (blk t0 tn c0 cn) []) = cn.
  Hypothesis Hval : forall t0 tn c0 cn n j, In (t0, tn) (offsets 0 tch) -> In (c0, cn) (offsets 0 cch) ->
    n < tn -> j < cn -> nth j (nth n (blk t0 tn c0 cn) []) d = f (t0 + n) (c0 + j).

  Lemma assemble_nth : forall t c, t < total tch -> c < total cch ->
    nth c (nth t (assemble blk tch cch) []) d = f t c.
  Proof.
    intros t c Ht Hc. unfold assemble.
    destruct (nth_flat_offsets_ex
                (fun tt => map (fun n => flat_map (fun b => nth n b [])
                     (map (fun cc => blk (fst tt) (snd tt) (fst cc) (snd cc)) (offsets 0 cch))) (seq 0 (snd tt)))
                [] tch 0 t) as [t0 [tn [Hin [Hr He]]]]; auto.
    { intros. now rewrite map_length, seq_length. }
    rewrite He. cbn [fst snd]. rewrite nth_map_seq by lia. cbn [plus]. rewrite flat_map_map'. cbn [fst snd].
    destruct (nth_flat_offsets_ex (fun cc => nth (t - t0) (blk t0 tn (fst cc) (snd cc)) []) d cch 0 c)
      as [c0 [cn [Hcin [Hcr Hce]]]]; auto.
    { intros. cbn [fst snd]. apply Hcols; auto. lia. }
    cbn [plus] in *. rewrite Hce. cbn [fst snd]. rewrite Hval by (auto; lia). f_equal; lia.
  Qed.
End AssembleP.

(* any chunking of the correction array gives the pointwise factor *)
Lemma chunk_independent_corr : forall prods ninputs cps tch cch t c b,
  cps_ok ninputs cps -> t < total tch -> c < total cch -> b < List.length cps ->
  nth b (nth c (nth t (assemble (corr_block prods ninputs cps) tch cch) []) []) CNaN
  = factor prods t c (nth b cps (0, 0)).
Proof.
  intros prods ninputs cps tch cch t c b Hok Ht Hc Hb.
  assert (Hrows : forall t0 tn c0 cn, In (t0, tn) (offsets 0 tch) -> In (c0, cn) (offsets 0 cch) ->
            List.length (corr_block prods ninputs cps t0 tn c0 cn) = tn)
    by (intros; apply corr_block_rows).
  assert (Hcols : forall t0 tn c0 cn n, In (t0, tn) (offsets 0 tch) -> In (c0, cn) (offsets 0 cch) ->
            n < tn -> List.length (nth n (corr_block prods ninputs cps t0 tn c0 cn) []) = cn)
    by (intros; now apply corr_block_cols).
  assert (Hval : forall t0 tn c0 cn n j, In (t0, tn) (offsets 0 tch) -> In (c0, cn) (offsets 0 cch) ->
            n < tn -> j < cn ->
            nth j (nth n (corr_block prods ninputs cps t0 tn c0 cn) []) [] = map (factor prods (t0 + n) (c0 + j)) cps).
  { intros t0 tn c0 cn n j _ _ Hn Hj.
    apply (nth_ext _ _ CNaN CNaN).
    + rewrite corr_block_cells, map_length by assumption. reflexivity.
    + intros k Hk. rewrite corr_block_cells in Hk by assumption.
      rewrite corr_block_nth by assumption. now rewrite (nth_map_in _ cps k CNaN (0, 0)). }
  rewrite (assemble_nth (corr_block prods ninputs cps)
             (fun t c => map (factor prods t c) cps) [] tch cch Hcols Hval t c Ht Hc).
  now rewrite (nth_map_in _ cps b CNaN (0, 0)).
Qed.

(* ------------------------------------------------------------------ each product is mapped by its own channelisation *)
Local Open Scope Q_scope.

Lemma expand_bound : applycal_expand_bound = true.
Proof. reflexivity. Qed.
Lemma kb_direct : applycal_kb_direct = true.
Proof. reflexivity. Qed.

Lemma bind_maps_id : forall ms, bind_maps ms = ms.
Proof. intros. unfold bind_maps. now rewrite expand_bound. Qed.

Lemma dist_self : forall x, dist x x == 0.
Proof. intros. unfold dist. setoid_replace (x - x) with 0 by ring. reflexivity. Qed.

Lemma dist_zero_eq : forall x y, dist x y <= 0 -> x == y.
Proof. intros x y H. unfold dist in H. apply Qabs_Qle_condition in H. lra. Qed.

Lemma nearest_single : forall f fd, nearest [f] fd = 0%nat.
Proof. reflexivity. Qed.

Definition distinct (l : list Q) : Prop :=
  forall j k, (j < List.length l)%nat -> (k < List.length l)%nat -> nth j l 0 == nth k l 0 -> j = k.

(* corrections given on the data channels themselves: nearest own channel of data channel c is c *)
Lemma nearest_self : forall data c, distinct data -> (c < List.length data)%nat ->
  nearest data (nth c data 0) = c.
Proof.
  intros data c Hd Hc.
  assert (Hne : data <> []) by (destruct data; cbn in Hc; [lia | discriminate]).
  destruct (nearest_minimises data (nth c data 0) Hne) as [Hk [Hmin _]].
  symmetry. apply Hd; auto.
  apply dist_zero_eq. unfold dist. eapply Qle_trans; [apply (Hmin c Hc) |].
  fold (dist (nth c data 0) (nth c data 0)). rewrite dist_self. apply Qle_refl.
Qed.

(* cal channels within atol of the data channels and every other cal channel further away than atol *)
Definition separated (data cal : list Q) : Prop :=
  forall c j, (c < List.length data)%nat -> (j < List.length cal)%nat -> j <> c ->
              atol < dist (nth c data 0) (nth j cal 0).

Lemma allclose_nth : forall a b, allclose a b = true -> forall c, (c < List.length a)%nat -> (c < List.length b)%nat ->
  dist (nth c a 0) (nth c b 0) <= atol.
Proof.
  induction a as [| x a IH]; intros b H c Ha Hb; [cbn in Ha; lia |].
  destruct b as [| y b]; [cbn in Hb; lia |]. cbn [allclose] in H. apply andb_true_iff in H as [H1 H2].
  destruct c; cbn [nth].
  - now apply Qle_bool_iff.
  - apply IH; auto; cbn in *; lia.
Qed.

Lemma dist_sym : forall x y, dist x y == dist y x.
Proof.
  intros. unfold dist. setoid_replace (x - y) with (- (y - x)) by ring. apply Qabs_opp.
Qed.

Lemma nearest_close : forall data cal c, List.length cal = List.length data ->
  allclose cal data = true -> separated data cal -> (c < List.length data)%nat ->
  nearest cal (nth c data 0) = c.
Proof.
  intros data cal c Hl Hac Hsep Hc.
  assert (Hne : cal <> []) by (destruct cal; cbn in Hl; [lia | discriminate]).
  destruct (nearest_minimises cal (nth c data 0) Hne) as [Hk [Hmin _]].
  destruct (Nat.eq_dec (nearest cal (nth c data 0)) c) as [E | N]; auto. exfalso.
  specialize (Hsep c _ Hc Hk N). specialize (Hmin c ltac:(lia)).
  pose proof (allclose_nth cal data Hac c ltac:(lia) Hc) as Hcl. rewrite dist_sym in Hcl.
  unfold dist in *. lra.
Qed.

Lemma map_chan_expand : forall data cal g c, (c < List.length data)%nat ->
  map_chan (Nearest (expand_map data cal)) g c = nth (nearest cal (nth c data 0)) g CNaN.
Proof.
  intros. cbn [map_chan]. unfold expand_map.
  rewrite nth_error_map. rewrite nth_error_nth' with (d := 0) by assumption. reflexivity.
Qed.

(* `own` = the centre frequencies on which the product's correction vectors are given *)
Definition product_ok (data : list Q) (r : rawproduct) (own : list Q) : Prop :=
  (corr_nchans (r_corr r) = List.length own)%nat /\ ((List.length own = 1)%nat
   \/ (own = data /\ r_kb r = true /\ distinct data)
   \/ (own = r_cal r /\ r_kb r = false /\
       ((List.length own <> List.length data)%nat \/ allclose (r_cal r) data = false \/ separated data (r_cal r)))).

Lemma own_channelisation : forall data r own g c,
  product_ok data r own -> (c < List.length data)%nat ->
  map_chan (raw_map data r) g c = nth (nearest own (nth c data 0)) g CNaN.
Proof.
  intros data r own g c [Hcn Hk] Hc. unfold raw_map, choose_map. rewrite Hcn, kb_direct.
  destruct (Nat.eqb_spec (List.length own) 1) as [E1 | N1].
  - destruct own as [| f [| ? ?]]; cbn in E1; try lia. reflexivity.
  - destruct Hk as [E | [[-> [Hkb Hd]] | [-> [Hkb Hcase]]]]; [contradiction | |].
    + rewrite Nat.eqb_refl, Hkb. cbn [andb orb map_chan]. now rewrite nearest_self.
    + rewrite Hkb. cbn [andb orb].
      destruct (Nat.eqb_spec (List.length (r_cal r)) (List.length data)) as [El | Nl].
      * cbn [negb orb andb]. destruct (allclose (r_cal r) data) eqn:Hac.
        { cbn [map_chan]. destruct Hcase as [? | [? | Hsep]]; try congruence.
          now rewrite nearest_close. }
        { now apply map_chan_expand. }
      * cbn [andb]. now apply map_chan_expand.
Qed.

(* ------------------------------------------------------------------ which subset is loaded (preselect) *)
Local Close Scope Q_scope.
Lemma factor_pointwise : forall prods prods' t c t' c' cp,
  Forall2 (fun p p' => forall i, gp t c i p = gp t' c' i p') prods prods' ->
  factor prods t c cp = factor prods' t' c' cp.
Proof.
  intros prods prods' t c t' c' cp H. rewrite !factor_product.
  induction H as [| p p' l l' Hp Hl IH]; [reflexivity |].
  cbn [map]. rewrite !Cprod_cons, IH, !Hp. reflexivity.
Qed.

Lemma map2_map_r : forall {A B D} (f : A -> B -> D) (h : A -> B) l, map2 f l (map h l) = map (fun x => f x (h x)) l.
Proof. induction l as [| x l IH]; cbn; [reflexivity | now rewrite IH]. Qed.

Lemma make_products_map : forall data raw,
  make_products data raw = map (fun r => mkProduct (raw_map data r) (r_corr r)) raw.
Proof. intros. unfold make_products. rewrite bind_maps_id. apply map2_map_r. Qed.

Lemma sub_length_lt : forall {A} a n (l : list A) c, c < List.length (sub a n l) -> c < n /\ a + c < List.length l.
Proof.
  intros A a n l c H. unfold sub in H. rewrite firstn_length, skipn_length in H. lia.
Qed.

Lemma nth_sub : forall {A} a n (l : list A) c d, c < n -> nth c (sub a n l) d = nth (a + c) l d.
Proof. intros. unfold sub. rewrite nth_firstn' by assumption. apply nth_skipn'. Qed.

Lemma distinct_sub : forall a n data, distinct data -> distinct (sub a n data).
Proof.
  intros a n data Hd j k Hj Hk E.
  destruct (sub_length_lt _ _ _ _ Hj) as [Hjn Hja]. destruct (sub_length_lt _ _ _ _ Hk) as [Hkn Hka].
  rewrite !nth_sub in E by assumption. specialize (Hd _ _ Hja Hka E). lia.
Qed.

Lemma corr_at_loaded : forall on_data t0 a n corr i t,
  nth t (nth i (loaded_corr on_data t0 a n corr) []) []
  = (if on_data then sub a n (nth (t0 + t) (nth i corr []) []) else nth (t0 + t) (nth i corr []) []).
Proof.
  intros. unfold loaded_corr.
  set (h := fun g : list C => if on_data then sub a n g else g).
  assert (Hh : h [] = []) by (unfold h, sub; destruct on_data; [now rewrite skipn_nil, firstn_nil | reflexivity]).
  set (F := fun per_input : list (list C) => map h (skipn t0 per_input)).
  assert (HF : F [] = []) by (unfold F; now rewrite skipn_nil).
  rewrite <- HF at 1. rewrite map_nth. unfold F. rewrite <- Hh at 1. rewrite map_nth, nth_skipn'.
  unfold h. reflexivity.
Qed.

(* gain-type product (or any product whose vectors do not live on the data channels): same vector, same own
   channelisation, the loaded channel c is the stream's channel a + c *)
Lemma subset_loaded_gain : forall data r r' own a n g c,
  product_ok data r own -> product_ok (sub a n data) r' own -> (c < List.length (sub a n data))%nat ->
  map_chan (raw_map (sub a n data) r') g c = map_chan (raw_map data r) g (a + c).
Proof.
  intros data r r' own a n g c Hok Hok' Hc. destruct (sub_length_lt _ _ _ _ Hc) as [Hn Ha].
  rewrite (own_channelisation _ _ _ _ _ Hok' Hc), (own_channelisation _ _ _ _ _ Hok Ha).
  now rewrite nth_sub.
Qed.

(* K/B product: its vectors live on the data channels, the loaded data set holds the loaded part of them *)
Lemma subset_loaded_kb : forall data r r' a n g c,
  r_kb r = true -> r_kb r' = true -> distinct data ->
  corr_nchans (r_corr r) = List.length data -> corr_nchans (r_corr r') = List.length (sub a n data) ->
  (c < List.length (sub a n data))%nat ->
  map_chan (raw_map (sub a n data) r') (sub a n g) c = map_chan (raw_map data r) g (a + c).
Proof.
  intros data r r' a n g c Hkb Hkb' Hd Hcn Hcn' Hc. destruct (sub_length_lt _ _ _ _ Hc) as [Hn Ha].
  assert (Hok : product_ok data r data) by (split; [assumption | right; left; auto]).
  assert (Hok' : product_ok (sub a n data) r' (sub a n data))
    by (split; [assumption | right; left; repeat split; auto using distinct_sub]).
  rewrite (own_channelisation _ _ _ _ _ Hok' Hc), (own_channelisation _ _ _ _ _ Hok Ha).
  rewrite nearest_self by auto using distinct_sub. rewrite nearest_self by assumption.
  now apply nth_sub.
Qed.

(* the guard of the subset theorem, per product: how the correction vectors relate to the data channels *)
Definition loaded_ok (data : list Q) (t0 a n : nat) (rb : rawproduct * bool) : Prop :=
  let (r, on_data) := rb in
  if on_data
  then r_kb r = true /\ distinct data /\ corr_nchans (r_corr r) = List.length data
       /\ corr_nchans (loaded_corr true t0 a n (r_corr r)) = List.length (sub a n data)
  else exists own, product_ok data r own /\ product_ok (sub a n data) (loaded_raw false t0 a n r) own.

Lemma subset_loaded : forall data (rs : list (rawproduct * bool)) t0 a n t c cp,
  Forall (loaded_ok data t0 a n) rs -> (c < List.length (sub a n data))%nat ->
  factor (make_products (sub a n data) (map (fun rb => loaded_raw (snd rb) t0 a n (fst rb)) rs)) t c cp
  = factor (make_products data (map fst rs)) (t0 + t) (a + c) cp.
Proof.
  intros data rs t0 a n t c cp Hall Hc. rewrite !make_products_map, !map_map.
  apply factor_pointwise. induction Hall as [| [r on_data] rs Hr Hrs IH]; cbn [map]; constructor; auto.
  intro i. unfold gp, corr_at. cbn [p_map p_corr fst snd loaded_raw r_corr].
  rewrite corr_at_loaded. cbn [loaded_ok] in Hr. destruct on_data.
  - destruct Hr as (Hkb & Hd & Hcn & Hcn'). now apply subset_loaded_kb.
  - destruct Hr as (own & Hok & Hok'). now apply (subset_loaded_gain _ _ _ own).
Qed.

(* ... and the guard fails for time-interpolated gains: a data set holding only dumps [a, b) sees other solutions
   than the one holding all dumps [0, T) *)
Lemma subset_loaded_refuted : exists (evs : list (Z * bool)) (T a b : Z),
  (0 <= a < b)%Z /\ (b <= T)%Z /\ gain_has_valid 0 T evs = true /\ gain_has_valid a b evs = false.
Proof. exists [(1, true); (2, false)]%Z, 6%Z, 3%Z, 6%Z. vm_compute. repeat split; discriminate. Qed.

Lemma subset_loaded_refuted_later : exists (evs : list (Z * bool)) (T a b : Z),
  (0 <= a < b)%Z /\ (b <= T)%Z /\ gain_has_valid 0 T evs = true /\ gain_has_valid a b evs = false.
Proof. exists [(5, true)]%Z, 6%Z, 0%Z, 5%Z. vm_compute. repeat split; discriminate. Qed.
