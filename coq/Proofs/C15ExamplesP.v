(* C15: concrete, non-trivial states satisfying the hypotheses of the theorems of Props/C15.v (evaluated by
   vm_compute on the wire encoding, so that canonical-rational proof terms do not get in the way). *)
From Coq Require Import ZArith QArith Qcanon Qround List Bool Arith Lia.
From KV Require Import Base.Sx Gen.Generated Model.Interp Model.Weights Model.Averager
                       Proofs.WeightsP Proofs.WeightsBlocksP Proofs.WeightsNumP Proofs.AveragerP.
Import ListNotations.
Close Scope Q_scope.
Open Scope nat_scope.

Definition q (n : Z) (d : positive) : Qc := Q2Qc (n # d).

(* five products of inputs 1 and 2: the cross-pol-like (1,2) first, autos in the middle, (1,1) listed twice *)
Definition ex_cps : list corrprod := [(1, 2); (2, 2); (1, 1); (2, 1); (1, 1)]%Z.

Example ex_lookup : corrprod_to_autocorr ex_cps = Some ([1; 2; 4], [2; 0; 2; 0; 2], [0; 0; 2; 2; 2]).
Proof. vm_compute. reflexivity. Qed.

Example ex_last_auto : last_auto ex_cps 1%Z = Some 4 /\ last_auto ex_cps 2%Z = Some 1 /\ last_auto ex_cps 3%Z = None.
Proof. vm_compute. auto. Qed.

Example ex_missing : corrprod_to_autocorr [(1, 2); (1, 1)]%Z = None.
Proof. vm_compute. reflexivity. Qed.

Example ex_has_autos : has_autos ex_cps.
Proof.
  intros a b H. cbn in H.
  destruct H as [H | [H | [H | [H | [H | []]]]]]; inversion H; subst; split; vm_compute; discriminate.
Qed.

(* the kernel: w = 3, wc = 1/2, autos 2 and 4 -> 3/16; an infinite auto -> 3/2 * 2^-32 *)
Example ex_scaled : of_Ext (power_scale true (Fin (q 2 1)) (Fin (q 4 1)) (emul (Fin (q 3 1)) (Fin (q 1 2)))) = L [I 3; I 16].
Proof. vm_compute. reflexivity. Qed.
Example ex_unscaled : of_Ext (power_scale false (Fin (q 2 1)) (Fin (q 4 1)) (emul (Fin (q 3 1)) (Fin (q 1 2)))) = L [I 12; I 1].
Proof. vm_compute. reflexivity. Qed.
Example ex_bad_inf : of_Ext (power_scale true PInf (Fin (q 4 1)) (emul (Fin (q 3 1)) (Fin (q 1 2)))) = L [I 3; I 8589934592].
Proof. vm_compute. reflexivity. Qed.
Example ex_bad_zero : of_Ext (power_scale true (Fin (q 2 1)) (Fin (q 0 1)) (Fin (q 1 1))) = L [I 1; I 4294967296].
Proof. vm_compute. reflexivity. Qed.
Example ex_bad_auto : bad_auto PInf /\ bad_auto (Fin 0) /\ bad_auto NaN /\ ~ bad_auto (Fin (q 2 1)).
Proof.
  repeat split; try (right; reflexivity); try (left; reflexivity).
  intros [H | H]; [inversion H | discriminate].
Qed.

(* a 1 x 2 x 5 data set: autos (positions 1, 2, 4) 4, 2 (ignored: listed again), 1/2 resp. 0, inf, 2 *)
Definition cfin (n : Z) (d : positive) : cx := (Fin (q n d), Fin (q 1 1)).
Definition ex_vis : arr3 cx :=
  [[[cfin 7 1; cfin 4 1; cfin 2 1; cfin 5 1; cfin 1 2];
    [cfin 7 1; cfin 0 1; (PInf, Fin (q 0 1)); cfin 5 1; cfin 2 1]]].
Definition ex_w : arr3 Ext := [[[Fin (q 3 1); Fin (q 1 1); Fin (q 2 1); Fin (q 3 1); Fin (q 5 1)];
                                [Fin (q 3 1); Fin (q 1 1); Fin (q 2 1); Fin (q 3 1); Fin (q 5 1)]]].
Definition ex_wc : list (list Ext) := [[Fin (q 1 2); Fin (q 2 1)]].

Example ex_shapes : shape3 ex_vis 1 2 (List.length ex_cps) /\ shape3 ex_w 1 2 (List.length ex_cps) /\ shape2 ex_wc 1 2
                    /\ total [1] = 1 /\ total [1; 1] = 2 /\ total [2; 3] = List.length ex_cps /\ total [4; 1] = List.length ex_cps.
Proof.
  repeat split; try reflexivity;
    try (intros t Ht; destruct t; [reflexivity | lia]);
    try (intros t f Ht Hf; destruct t; [destruct f as [| [| f]]; [reflexivity | reflexivity | lia] | lia]).
Qed.

(* unscaled declaration, autos in another baseline chunk than the cross products: weights = w wc / (a1 a2),
   product 0 = (1,2) uses the LAST (1,1) (position 4, power 1/2) and (2,2) (power 4): 3 * 1/2 / 2 = 3/4;
   second channel: auto 2 is zero -> tiny weight *)
Example ex_pipeline :
  match vis_flags_weights ex_cps false None ex_vis [2; 3] ex_w [4; 1] ex_wc [1] [1; 1] with
  | Some r => L [of_Ext (get3 (v_weights r) NaN 0 0 0); of_Ext (get3 (v_weights r) NaN 0 1 0);
                 of_Ext (get3 (v_unscaled r) NaN 0 0 0)]
  | None => sx_err
  end = L [L [I 3; I 4]; L [I 3; I 2147483648]; L [I 3; I 2]].
Proof. vm_compute. reflexivity. Qed.

(* excision: 4 accumulations per correlator dump, 4 correlator dumps per dump; weight 10 is 2.5 correlator dumps ->
   rounded to 2 (even) -> 8 of 16 accumulations -> half excised; weight 14 = 3.5 -> 4 -> nothing excised *)
Example ex_excision : of_Ext (excision 4 4 (Fin (q 10 1))) = L [I 1; I 2] /\ of_Ext (excision 4 4 (Fin (q 14 1))) = L [I 0; I 1]
                      /\ cbf_dumps (q 2 1) (q 1 2) = 4%Z /\ cbf_dumps (q 5 2) (q 1 1) = 2%Z.
Proof. vm_compute. auto. Qed.

(* a monotone table and its interpolation *)
Definition ex_table : list node := [(0 # 1, 0 # 1); (2 # 1, 1 # 1); (4 # 1, 4 # 1); (8 # 1, 4 # 1)]%Q.
Example ex_table_monotone : strictly_inc ex_table /\ nondec_y ex_table.
Proof. cbn. repeat split; auto; unfold Qlt, Qle; cbn; lia. Qed.
Example ex_vv : of_Ext (vv_interp ex_table (Fin (q 3 1))) = L [I 5; I 2] /\ of_Ext (vv_interp ex_table PInf) = L [I 4; I 1]
                /\ ele (Fin (q 1 1)) (Fin (q 3 1)) /\ ele NInf (Fin (q 3 1)).
Proof. split; [vm_compute; reflexivity |]. split; [vm_compute; reflexivity |]. split; [| exact Logic.I]. vm_compute. discriminate. Qed.

(* v3 *)
Example ex_v3 : of_Ext (v3_weight true true true (Fin (q 3 1)) (Fin (q 1 2))) = L [I 3; I 2]
                /\ of_Ext (v3_weight true false true (Fin (q 3 1)) (Fin (q 1 2))) = L [I 1; I 2].
Proof. vm_compute. auto. Qed.

(* averaging 3 dumps x 2 channels x 1 product by (2, 2): one bin, the third dump is dropped; the flagged sample
   (weight 100) does not count: (1*2 + 3*4 + 1*6) / 5 = 4 *)
Definition smp (re : Z) (w : Z) (f : bool) : sample := ((q re 1, q 0 1), q w 1, f).
Definition ex_samples : Averager.arr3 sample :=
  [[[smp 2 1 false]; [smp 4 3 false]]; [[smp 6 1 false]; [smp 50 100 true]]; [[smp 9 9 false]; [smp 9 9 false]]].
Example ex_average :
  match average ex_samples 3 2 1 2 2 false with
  | Some r => of_arr3 of_sample r
  | None => sx_err
  end = L [L [L [L [L [I 4; I 1]; L [I 0; I 1]; L [I 5; I 1]; I 0]]]].
Proof. vm_compute. reflexivity. Qed.
Example ex_average_factors : time_factor 5 3 = 3 /\ chan_factor 5 3 = 5 /\ time_factor 2 3 = 2.
Proof. vm_compute. auto. Qed.
