(* C10: laws that follow from the per-dump theorem (normal-form model): transform first, allow_repeats does not change
   the per-dump values, a prior event overrides the initial value, late events are ignored, without greedy values the
   value at the end of the dump wins, one value per dump. *)
From Coq Require Import ZArith List Bool Lia ZifyBool.
From KV Require Import Base.Sx Model.SensorToCat Proofs.SensorToCatP Proofs.SensorToCatInitP.
Import ListNotations.
Open Scope Z_scope.

(* ---------- transform before anything else: transforming inside = handing over transformed values ---------- *)
Lemma app_tr_none_id l : map (app_tr None) l = l.
Proof. induction l as [|x l IH]; [reflexivity|]. simpl. rewrite IH. reflexivity. Qed.

Lemma s2c_prep_transform ts vals ends P m init :
  s2c_prep ts vals ends P (Some m) init = s2c_prep ts (map (apply_map m) vals) ends P None init.
Proof.
  unfold s2c_prep. destruct ends as [|e0 er]; [reflexivity|].
  set (events := map _ ts). set (fp := ss_right events (-1)).
  destruct (0 <? fp)%nat; cbv beta iota zeta; rewrite app_tr_none_id, <- map_slice; reflexivity.
Qed.

Lemma per_dump_transform ts vals ends P m init greedy ar :
  per_dump ts vals ends P (Some m) init greedy ar = per_dump ts (map (apply_map m) vals) ends P None init greedy ar.
Proof. unfold per_dump, sensor_to_categorical, s2c. rewrite s2c_prep_transform. reflexivity. Qed.

Lemma events_transform ts vals ends P m init greedy ar :
  s2c ts vals ends P (Some m) init greedy ar = s2c ts (map (apply_map m) vals) ends P None init greedy ar.
Proof. unfold s2c. rewrite s2c_prep_transform. reflexivity. Qed.

(* ---------- allow_repeats changes the events, never the per-dump values ---------- *)
Lemma per_dump_allow_repeats ts vals e0 er P tr init greedy :
  let ends := e0 :: er in
  ssorted ends -> 0 < P -> time_sorted ts -> length ts = length vals ->
  per_dump ts vals ends P tr init greedy true = per_dump ts vals ends P tr init greedy false.
Proof.
  intro ends; subst ends; intros Hs HP Ht Hl.
  rewrite (proj1 (per_dump_coded ts vals e0 er P tr init greedy true Hs HP Ht Hl)).
  rewrite (proj1 (per_dump_coded ts vals e0 er P tr init greedy false Hs HP Ht Hl)). reflexivity.
Qed.

(* ---------- one value per dump ---------- *)
Lemma per_dump_length ts vals e0 er P tr init greedy ar l :
  let ends := e0 :: er in
  ssorted ends -> 0 < P -> time_sorted ts -> length ts = length vals ->
  per_dump ts vals ends P tr init greedy ar = Ok l -> length l = length ends.
Proof.
  intro ends; subst ends; intros Hs HP Ht Hl H.
  rewrite (proj1 (per_dump_coded ts vals e0 er P tr init greedy ar Hs HP Ht Hl)) in H.
  destruct (spec_per_dump ts vals (e0 :: er) P tr (init_as_coded ts (e0 :: er) P init) greedy) as [s|] eqn:E; [|discriminate].
  inversion H; subst. apply (spec_length _ _ _ _ _ _ _ _ E).
Qed.

(* ---------- spec-level facts ---------- *)
Lemma sel_app f a b : sel f (a ++ b) = sel f a ++ sel f b.
Proof. unfold sel. rewrite filter_app, map_app. reflexivity. Qed.

Lemma combine_app {A B} (a a' : list A) (b b' : list B) : length a = length b ->
  combine (a ++ a') (b ++ b') = combine a b ++ combine a' b'.
Proof.
  revert b. induction a as [|x a IH]; intros [|y b] H; simpl in *; try discriminate; [reflexivity|].
  rewrite IH by lia. reflexivity.
Qed.

Lemma existsb_app_false {A} (f : A -> bool) a b : Forall (fun x => f x = false) b -> existsb f (a ++ b) = existsb f a.
Proof. intro H. rewrite existsb_app. rewrite (existsb_false f b H). apply orb_false_r. Qed.

Lemma nondecrZ_app_l l : forall x l', nondecrZ x (l ++ l') -> nondecrZ x l.
Proof. induction l as [|y l IH]; intros x l' H; [exact Logic.I|]. destruct H as [H1 H2]. split; [exact H1|]. eapply IH. exact H2. Qed.

Lemma time_sorted_app_l ts lts : time_sorted (ts ++ lts) -> time_sorted ts.
Proof. unfold time_sorted. destruct ts as [|t r]; [intros _; exact Logic.I|]. simpl hd. apply nondecrZ_app_l. Qed.

Lemma ssorted_le_last x l : ssorted (x :: l) -> Forall (fun y => y <= last (x :: l) x) (x :: l).
Proof.
  revert x. induction l as [|y l IH]; intros x Hs.
  - constructor; [simpl; lia|constructor].
  - destruct Hs as [Hf Hs]. specialize (IH y Hs). rewrite last_cons. rewrite last_cons in IH.
    assert (Hxy : x < y) by (inversion Hf; assumption).
    assert (Hyl : y <= last l y) by (inversion IH; assumption).
    constructor.
    + change (last (y :: l) x) with (match l with [] => y | _ => last l x end).
      destruct l as [|z l]; [lia|]. rewrite last_cons. rewrite last_cons in Hyl. lia.
    + assert (E : last (y :: l) x = last l y) by (rewrite last_cons; reflexivity). rewrite E. exact IH.
Qed.

Lemma combine_snd_Forall {A} (P : Z -> Prop) (a : list A) (b : list Z) :
  Forall P b -> Forall (fun p => P (snd p)) (combine a b).
Proof.
  intro H. revert a. induction H as [|y b Hy _ IH]; intros [|x a]; simpl; try constructor; auto.
Qed.

(* ---------- events after the last dump are ignored ---------- *)
Lemma spec_late_ignored ts vals lts lvals e0 er P tr init greedy :
  let ends := e0 :: er in
  ssorted ends -> 0 < P -> length ts = length vals ->
  Forall (fun t => last ends e0 < t) lts ->
  spec_per_dump (ts ++ lts) (vals ++ lvals) ends P tr init greedy = spec_per_dump ts vals ends P tr init greedy /\
  init_as_coded (ts ++ lts) ends P init = init_as_coded ts ends P init.
Proof.
  intro ends; subst ends; intros Hs HP Hl Hlate.
  pose proof (ssorted_le_last e0 er Hs) as Hle.
  set (Lst := last (e0 :: er) e0) in *.
  assert (He0 : e0 <= Lst) by (inversion Hle; assumption).
  set (ltv := combine lts (map (app_tr tr) lvals)).
  assert (Hltv : Forall (fun p => Lst < fst p) ltv).
  { unfold ltv. apply (combine_fst_Forall (fun t => Lst < t)). exact Hlate. }
  assert (Hsel : forall f tv, (forall t, Lst < t -> f t = false) -> sel f (tv ++ ltv) = sel f tv).
  { intros f tv Hf. rewrite sel_app. rewrite (sel_none f ltv); [apply app_nil_r|].
    eapply Forall_impl; [|exact Hltv]. simpl. intros p Hp. apply Hf. exact Hp. }
  split.
  - unfold spec_per_dump. rewrite map_app, combine_app by (rewrite map_length; exact Hl). fold ltv.
    set (tv := combine ts (map (app_tr tr) vals)).
    assert (Hst : start_value (tv ++ ltv) init Lst = start_value tv init Lst).
    { unfold start_value. destruct init; [reflexivity|]. rewrite Hsel; [reflexivity|]. intros. lia. }
    fold Lst. rewrite Hst. destruct (start_value tv init Lst) as [st|]; [|reflexivity]. f_equal.
    apply map_ext_in. intros [lo hi] Hin. unfold dump_value.
    assert (Hhi : hi <= Lst).
    { pose proof (combine_snd_Forall (fun y => y <= Lst) ((e0 - P) :: (e0 :: er)) (e0 :: er) Hle) as Hf. rewrite Forall_forall in Hf.
      apply (Hf (lo, hi) Hin). }
    assert (Hlo : lo <= Lst).
    { assert (Hf : Forall (fun y => y <= Lst) ((e0 - P) :: (e0 :: er))) by (constructor; [lia|exact Hle]).
      pose proof (combine_fst_Forall (fun y => y <= Lst) ((e0 - P) :: (e0 :: er)) (e0 :: er) Hf) as Hf2. rewrite Forall_forall in Hf2.
      apply (Hf2 (lo, hi) Hin). }
    rewrite !Hsel; [reflexivity| |]; intros; lia.
  - unfold init_as_coded.
    rewrite !existsb_app_false; [reflexivity| |]; (eapply Forall_impl; [|exact Hlate]); simpl; intros; lia.
Qed.

Lemma per_dump_late_ignored ts vals lts lvals e0 er P tr init greedy ar :
  let ends := e0 :: er in
  ssorted ends -> 0 < P -> time_sorted (ts ++ lts) -> length ts = length vals -> length lts = length lvals ->
  Forall (fun t => last ends e0 < t) lts ->
  per_dump (ts ++ lts) (vals ++ lvals) ends P tr init greedy ar = per_dump ts vals ends P tr init greedy ar.
Proof.
  intro ends; subst ends; intros Hs HP Ht Hl Hl2 Hlate.
  assert (Hl3 : length (ts ++ lts) = length (vals ++ lvals)) by (rewrite !app_length; lia).
  rewrite (proj1 (per_dump_coded _ _ e0 er P tr init greedy ar Hs HP Ht Hl3)).
  rewrite (proj1 (per_dump_coded ts vals e0 er P tr init greedy ar Hs HP (time_sorted_app_l _ _ Ht) Hl)).
  destruct (spec_late_ignored ts vals lts lvals e0 er P tr (init_as_coded ts (e0 :: er) P init) greedy Hs HP Hl Hlate) as [H1 _].
  destruct (spec_late_ignored ts vals lts lvals e0 er P tr init greedy Hs HP Hl Hlate) as [_ H2].
  rewrite H2, H1. reflexivity.
Qed.

(* ---------- an event at or before the start of dump 0 overrides the initial value ---------- *)
Lemma per_dump_prior_overrides ts vals e0 er P tr i greedy ar :
  let ends := e0 :: er in
  ssorted ends -> 0 < P -> time_sorted ts -> length ts = length vals ->
  no_prior ts (e0 - P) = false ->
  per_dump ts vals ends P tr (Some i) greedy ar = per_dump ts vals ends P tr None greedy ar.
Proof.
  intro ends; subst ends; intros Hs HP Ht Hl Hp.
  rewrite (proj1 (per_dump_coded ts vals e0 er P tr (Some i) greedy ar Hs HP Ht Hl)).
  rewrite (proj1 (per_dump_coded ts vals e0 er P tr None greedy ar Hs HP Ht Hl)).
  unfold no_prior in Hp. apply negb_false_iff in Hp.
  assert (Hc1 : init_as_coded ts (e0 :: er) P (Some i) = Some i) by (unfold init_as_coded; rewrite Hp; reflexivity).
  assert (Hc2 : init_as_coded ts (e0 :: er) P None = None) by (unfold init_as_coded; rewrite Hp; reflexivity).
  rewrite Hc1, Hc2.
  (* a prior event (tp, vp) exists *)
  set (tv := combine ts (map (app_tr tr) vals)).
  assert (Hex : exists p, In p tv /\ fst p <= e0 - P).
  { rewrite (existsb_combine_l _ ts (map (app_tr tr) vals)) in Hp by (rewrite map_length; exact Hl).
    apply existsb_exists in Hp. destruct Hp as [p [H1 H2]]. exists p. split; [exact H1|lia]. }
  destruct Hex as [p [Hin Hpt]].
  assert (Hne : forall lo, e0 - P <= lo -> sel (fun t => t <=? lo) tv <> []).
  { intros lo Hlo E. unfold sel in E. apply map_eq_nil in E.
    assert (Hf : In p (filter (fun q => fst q <=? lo) tv)) by (apply filter_In; split; [exact Hin|lia]).
    rewrite E in Hf. destruct Hf. }
  pose proof (ssorted_le_last e0 er Hs) as Hle.
  assert (He0 : e0 <= last (e0 :: er) e0) by (inversion Hle; assumption).
  unfold spec_per_dump. fold tv. unfold start_value.
  destruct (sel (fun t => t <=? last (e0 :: er) e0) tv) as [|v0 S] eqn:ES; [exfalso; apply (Hne (last (e0 :: er) e0)); [lia|exact ES]|].
  cbn [hd_error]. erewrite map_ext_in; [reflexivity|]. intros [lo hi] Hin2. apply dump_value_indep.
  apply Hne.
  assert (Hf : Forall (fun y => e0 - P <= y) ((e0 - P) :: (e0 :: er))).
  { constructor; [lia|]. pose proof (ssorted_ge_head e0 er Hs) as Hg. eapply Forall_impl; [|exact Hg]. simpl. intros. lia. }
  pose proof (combine_fst_Forall (fun y => e0 - P <= y) ((e0 - P) :: (e0 :: er)) (e0 :: er) Hf) as Hf2. rewrite Forall_forall in Hf2.
  apply (Hf2 (lo, hi) Hin2).
Qed.

(* ---------- without greedy values: the value in effect at the END of the dump ---------- *)
Lemma pick_no_greedy S : pick (fun v => memZ v []) S = last S 0.
Proof. unfold pick. replace (filter (fun v => memZ v []) S) with (@nil Z); [reflexivity|]. induction S; [reflexivity|]. simpl. exact IHS. Qed.

Definition value_at_end (tv : list (Z * Z)) (st : Z) (hi : Z) : Z := last (sel (fun t => t <=? hi) tv) st.

Lemma last_app2 {A} (a b : list A) d : last (a ++ b) d = last b (last a d).
Proof.
  revert d. induction a as [|x a IH]; intro d; [reflexivity|]. simpl app. rewrite last_cons. rewrite IH.
  rewrite last_cons. reflexivity.
Qed.

Lemma sel_split_sorted tv lo hi : lo <= hi -> nondecrZ (hd 0 (map fst tv)) (map fst tv) ->
  sel (fun t => t <=? hi) tv = sel (fun t => t <=? lo) tv ++ sel (fun t => (lo <? t) && (t <=? hi)) tv.
Proof.
  intros Hlh. induction tv as [|[t v] tv IH]; intro Hs; [reflexivity|].
  rewrite !sel_cons. simpl map in Hs. simpl hd in Hs. destruct Hs as [_ Hs].
  assert (Hs' : nondecrZ (hd 0 (map fst tv)) (map fst tv)).
  { destruct tv as [|[t' v'] tv']; [exact Logic.I|]. simpl. simpl in Hs. destruct Hs as [H1 H2]. split; [lia|exact H2]. }
  destruct (t <=? lo) eqn:E1.
  - replace ((lo <? t) && (t <=? hi)) with false by lia. replace (t <=? hi) with true by lia. simpl. rewrite IH by exact Hs'. reflexivity.
  - (* t > lo: every later time is > lo as well, so the first part is empty from here on *)
    assert (Hall : Forall (fun p : Z * Z => t <= fst p) tv).
    { pose proof (nondecrZ_ge t (map fst tv) Hs) as Hg. rewrite Forall_map in Hg. exact Hg. }
    assert (Hnil : sel (fun t0 => t0 <=? lo) tv = []).
    { apply sel_none. eapply Forall_impl; [|exact Hall]. simpl. intros. lia. }
    rewrite Hnil. simpl app.
    destruct (t <=? hi) eqn:E2.
    + replace (lo <? t) with true by lia. cbn [andb]. f_equal.
      rewrite IH by exact Hs'. rewrite Hnil. reflexivity.
    + rewrite andb_false_r. rewrite IH by exact Hs'. rewrite Hnil. reflexivity.
Qed.

Lemma dump_value_no_greedy tv st lo hi : lo <= hi -> nondecrZ (hd 0 (map fst tv)) (map fst tv) ->
  dump_value (fun v => memZ v []) tv st (lo, hi) = value_at_end tv st hi.
Proof.
  intros Hlh Hs. unfold dump_value, value_at_end. rewrite pick_no_greedy.
  rewrite (sel_split_sorted tv lo hi Hlh Hs). rewrite last_app2. rewrite last_cons. reflexivity.
Qed.
