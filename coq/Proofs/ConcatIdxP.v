(* C05: lemmas about the ConcatenatedLazyIndexer model (Model/ConcatIdx.v). *)
From Coq Require Import ZArith List Bool Lia.
From KV Require Import Base.Sx Base.PySlice Base.AxisIndex Base.NdArray Base.LazyDType Gen.Generated Model.LazyIdx Model.ConcatIdx Proofs.LazyIdxP.
Import ListNotations.
Open Scope Z_scope.

(* chunk_start of a part that begins after the start of a positive-stride slice:
   off + ((start - off) mod stride) is the FIRST index >= off selected by start::stride. *)
Lemma first_in_part start off stride : 0 < stride -> start < off ->
  let cs := (start - off) mod stride in
  0 <= cs < stride
  /\ (off + cs - start) mod stride = 0
  /\ forall j, off <= j -> (j - start) mod stride = 0 -> off + cs <= j.
Proof.
  intros Hs Hlt cs.
  assert (B : 0 <= cs < stride) by (apply Z.mod_pos_bound; lia).
  split; [exact B|]. split.
  - pose proof (Z.div_mod (start - off) stride ltac:(lia)) as DM. fold cs in DM.
    replace (off + cs - start) with ((- ((start - off) / stride)) * stride) by lia.
    apply Z.mod_mul. lia.
  - intros j Hj Hm. destruct (Z_lt_ge_dec j (off + cs)) as [Hlt'|]; [|lia]. exfalso.
    assert (E : (j - off) mod stride = cs).
    { replace (j - off) with ((j - start) + (start - off)) by lia.
      rewrite Z.add_mod by lia. rewrite Hm. cbn [Z.add]. rewrite Z.mod_mod by lia. reflexivity. }
    rewrite Z.mod_small in E by lia. lia.
Qed.

(* the selected indices inside a part [off, off+len): local positions of slice(cs, stop-off, stride) shifted by off *)
Lemma part_positions_shift start off stride k :
  let cs := (start - off) mod stride in
  0 < stride -> (off + cs + k * stride - start) mod stride = (off + cs - start) mod stride.
Proof. intros cs Hs. replace (off + cs + k * stride - start) with (off + cs - start + k * stride) by lia. apply Z.mod_add. lia. Qed.

(* ---------- witnesses of the open findings (the model follows the code) ---------- *)

Definition two_parts : list craw :=
  [mk_craw [3; 1] [] (arange [3; 1] 0) 0; mk_craw [2; 1] [] (arange [2; 1] 2) 0].

Definition run_concat (raws : list craw) (ix : list aidx) : res arr :=
  c <- c_mk raws [] ;; c_getitem c ix.

(* F10 (repaired): c[5:2] - the start lies in the second part, the stop in the first - is answered with the empty
   array numpy returns *)
Lemma concat_empty_head_slice_fixed :
  run_concat two_parts [ASlice (Some 5) (Some 2) None] = spec_concat two_parts [] [ASlice (Some 5) (Some 2) None]
  /\ run_concat two_parts [ASlice (Some 5) (Some 2) None] <> Err
  /\ run_concat two_parts [ASlice (Some 4) (Some 1) (Some 2)] = spec_concat two_parts [] [ASlice (Some 4) (Some 1) (Some 2)]
  /\ run_concat two_parts [ASlice (Some 4) (Some 1) (Some 2)] <> Err.
Proof.
  split; [vm_compute; reflexivity|]. split; [vm_compute; discriminate|]. split; [vm_compute; reflexivity|].
  vm_compute; discriminate.
Qed.

(* ... and what failed before the repair: without `stop = max(start, stop)` the indexers to visit were
   range(find_indexer(5), find_indexer(2) + 1) = range(1, 1), no chunk was extracted and np.concatenate([]) raises *)
Lemma concat_empty_head_slice_refuted_before_fix :
  py_range (concat_first_indexer (find_indexer [0; 3] 5) (find_indexer [0; 3] 2))
           (concat_end_indexer (find_indexer [0; 3] 5) (find_indexer [0; 3] 2)) 1 = []
  /\ (forall dt st, concat_chunks dt st [] = Err)
  /\ spec_concat two_parts [] [ASlice (Some 5) (Some 2) None] <> Err.
Proof. split; [vm_compute; reflexivity|]. split; [reflexivity|vm_compute; discriminate]. Qed.

(* F10b (repaired): an empty tail selection with a slice / mask head is answered with the empty array of numpy *)
Lemma concat_empty_tail_fixed :
  run_concat two_parts [full; ASlice (Some 1) (Some 0) None] = spec_concat two_parts [] [full; ASlice (Some 1) (Some 0) None]
  /\ run_concat two_parts [full; ASlice (Some 1) (Some 0) None] <> Err
  /\ run_concat two_parts [AMask [true; false; false; true; true]; AList []]
     = spec_concat two_parts [] [AMask [true; false; false; true; true]; AList []]
  /\ run_concat two_parts [AMask [true; false; false; true; true]; AList []] <> Err.
Proof.
  split; [vm_compute; reflexivity|]. split; [vm_compute; discriminate|]. split; [vm_compute; reflexivity|].
  vm_compute; discriminate.
Qed.

(* ... and what failed before the repair: .reshape([-1] + shape_tails) with an empty tail dimension *)
Lemma concat_empty_tail_refuted_before_fix : forall x,
  reshape_chunk_before_fix [0] x = Err /\ reshape_chunk [0] x = Ok x
  /\ spec_concat two_parts [] [full; ASlice (Some 1) (Some 0) None] <> Err.
Proof. intro x. split; [reflexivity|]. split; [reflexivity|vm_compute; discriminate]. Qed.

(* supported cases on the same parts agree (the hypotheses of the statements above are not vacuous) *)
Lemma concat_example_supported :
  run_concat two_parts [ASlice (Some 1) None (Some 3)] = spec_concat two_parts [] [ASlice (Some 1) None (Some 3)]
  /\ run_concat two_parts [ASlice (Some 1) None (Some 3)] <> Err
  /\ run_concat two_parts [AList [3; 0; -1]] = spec_concat two_parts [] [AList [3; 0; -1]]
  /\ run_concat two_parts [AMask [true; false; false; true; true]; AInt 0]
     = spec_concat two_parts [] [AMask [true; false; false; true; true]; AInt 0].
Proof.
  split; [vm_compute; reflexivity|]. split; [vm_compute; discriminate|]. split; [vm_compute; reflexivity|].
  vm_compute; reflexivity.
Qed.

(* parts with byte strings of different widths (the narrow one first, an empty part of another kind between them):
   every head kind answers in the dtype of the concatenation |S4 with the full strings; kinds that do not all
   agree are rejected at construction; a buffer of the first part's width would have lost data *)
Definition bytes_parts : list craw :=
  [mk_craw [3] [] (tree_map (enc_val 102) (arange [3] 0)) 102; mk_craw [0] [] (arange [0] 0) 1;
   mk_craw [2] [] (tree_map (enc_val 104) (arange [2] 3)) 104].

Definition has_dtype (dt : Z) (r : res arr) : Prop := match r with Ok x => a_dtype x = dt | Err => False end.

Lemma concat_dtype_example :
  run_concat bytes_parts [AList [4; 0]] = spec_concat bytes_parts [] [AList [4; 0]]
  /\ has_dtype 104 (run_concat bytes_parts [AList [4; 0]])
  /\ run_concat bytes_parts [ASlice None (Some 2) None] = spec_concat bytes_parts [] [ASlice None (Some 2) None]
  /\ has_dtype 104 (run_concat bytes_parts [ASlice None (Some 2) None])
  /\ run_concat bytes_parts [AInt 1] = spec_concat bytes_parts [] [AInt 1]
  /\ run_concat bytes_parts [AMask [false; true; false; false; true]] = spec_concat bytes_parts [] [AMask [false; true; false; false; true]]
  /\ run_concat [mk_craw [2] [] (arange [2] 0) 0; mk_craw [2] [] (arange [2] 1) 1] [] = Err
  /\ cast_val 104 102 (enc_val 104 7) <> enc_val 104 7.
Proof.
  split; [vm_compute; reflexivity|]. split; [vm_compute; reflexivity|]. split; [vm_compute; reflexivity|].
  split; [vm_compute; reflexivity|]. split; [vm_compute; reflexivity|]. split; [vm_compute; reflexivity|].
  split; [vm_compute; reflexivity|]. vm_compute; discriminate.
Qed.

(* ================================================================== C05_concat *)

(* ------------------------------------------------------------------ 1. arithmetic progressions *)

Lemma py_range_nil s e st : 0 < st -> e <= s -> py_range s e st = [].
Proof.
  intros H1 H2. apply py_range_empty. unfold range_len.
  assert (E : (0 <? st) = true) by lia. rewrite E. destruct (s <? e) eqn:E2; [lia|reflexivity].
Qed.

Lemma py_range_cons s e st : 0 < st -> s < e -> py_range s e st = s :: py_range (s + st) e st.
Proof.
  intros H1 H2. unfold py_range.
  assert (L : range_len s e st = 1 + range_len (s + st) e st).
  { unfold range_len. assert (E : (0 <? st) = true) by lia. rewrite E.
    assert (E2 : (s <? e) = true) by lia. rewrite E2.
    destruct (s + st <? e) eqn:E3.
    - replace (e - s - 1) with ((e - (s + st) - 1) + 1 * st) by lia. rewrite Z.div_add by lia. lia.
    - rewrite Z.div_small by lia. lia. }
  rewrite L. pose proof (range_len_nonneg (s + st) e st ltac:(lia)).
  replace (Z.to_nat (1 + range_len (s + st) e st)) with (S (Z.to_nat (range_len (s + st) e st))) by lia.
  apply range_list_S.
Qed.

(* first element >= B of the progression start, start+st, ... (B may lie below start) *)
Definition first_ge (start st B : Z) : Z := if B <=? start then start else B + ((start - B) mod st).

Lemma first_ge_ge start st B : 0 < st -> B <= first_ge start st B /\ start <= first_ge start st B.
Proof.
  intro H. unfold first_ge. destruct (B <=? start) eqn:E; [lia|].
  pose proof (Z.mod_pos_bound (start - B) st H).
  pose proof (Z.div_mod (start - B) st ltac:(lia)).
  assert ((start - B) / st < 0) by (apply Z.div_lt_upper_bound; lia). nia.
Qed.

Lemma first_ge_step start st B : 0 < st -> start < B ->
  first_ge (start + st) st B = first_ge start st B.
Proof.
  intros H HB. unfold first_ge. assert (E : (B <=? start) = false) by lia. rewrite E.
  destruct (B <=? start + st) eqn:E2.
  - destruct (Z.eq_dec B (start + st)) as [->|Ne].
    + replace (start - (start + st)) with (-1 * st) by lia. rewrite Z.mod_mul by lia. lia.
    + replace (start - B) with ((start + st - B) + (-1) * st) by lia. rewrite Z.mod_add by lia.
      rewrite Z.mod_small by lia. lia.
  - replace (start + st - B) with ((start - B) + 1 * st) by lia. now rewrite Z.mod_add by lia.
Qed.

(* splitting a progression at a boundary *)
Lemma py_range_split st e B : 0 < st -> forall (n : nat) s, e - s <= Z.of_nat n ->
  py_range s e st = py_range s (Z.min B e) st ++ py_range (first_ge s st B) e st.
Proof.
  intros Hst. induction n as [|n IH]; intros s Hn.
  - rewrite (py_range_nil s e) by lia. rewrite (py_range_nil s (Z.min B e)) by lia.
    destruct (first_ge_ge s st B Hst). rewrite py_range_nil by lia. reflexivity.
  - destruct (Z_lt_ge_dec s e) as [Hlt|Hge].
    + destruct (Z_le_gt_dec B s) as [HB|HB].
      * rewrite (py_range_nil s (Z.min B e)) by lia. unfold first_ge.
        assert (E : (B <=? s) = true) by lia. now rewrite E.
      * rewrite (py_range_cons s e) by lia. rewrite (py_range_cons s (Z.min B e)) by lia.
        rewrite (IH (s + st)) by lia. rewrite first_ge_step by lia. reflexivity.
    + rewrite (py_range_nil s e) by lia. rewrite (py_range_nil s (Z.min B e)) by lia.
      destruct (first_ge_ge s st B Hst). rewrite py_range_nil by lia. reflexivity.
Qed.

Lemma first_ge_idem start st B1 B2 : 0 < st -> B1 <= B2 ->
  first_ge (first_ge start st B1) st B2 = first_ge start st B2.
Proof.
  intros H HB. unfold first_ge at 2. destruct (B1 <=? start) eqn:E1; [reflexivity|].
  unfold first_ge. assert (E2 : (B2 <=? start) = false) by lia. rewrite E2.
  pose proof (Z.mod_pos_bound (start - B1) st H) as MB.
  destruct (B2 <=? B1 + (start - B1) mod st) eqn:E3.
  - (* the first element >= B1 is already >= B2 *)
    pose proof (Z.mod_pos_bound (start - B2) st H) as MB2.
    assert (K : (B1 + (start - B1) mod st - B2 - (start - B2) mod st) mod st = 0).
    { pose proof (Z.div_mod (start - B1) st ltac:(lia)). pose proof (Z.div_mod (start - B2) st ltac:(lia)).
      replace (B1 + (start - B1) mod st - B2 - (start - B2) mod st)
        with (((start - B2) / st - (start - B1) / st) * st) by lia. apply Z.mod_mul. lia. }
    apply Z.mod_divide in K; [|lia]. destruct K as [k K].
    assert (k = 0) by nia. nia.
  - f_equal. replace (B1 + (start - B1) mod st - B2) with ((start - B2) + (- ((start - B1) / st)) * st).
    + now rewrite Z.mod_add by lia.
    + pose proof (Z.div_mod (start - B1) st ltac:(lia)). lia.
Qed.

Lemma py_range_shift off s e st : st <> 0 -> map (fun x => off + x) (py_range s e st) = py_range (off + s) (off + e) st.
Proof.
  intro H. unfold py_range.
  assert (L : range_len (off + s) (off + e) st = range_len s e st).
  { unfold range_len. replace (off + e - (off + s) - 1) with (e - s - 1) by lia.
    replace (off + s - (off + e) - 1) with (s - e - 1) by lia.
    destruct (0 <? st); [destruct (s <? e) eqn:A, (off + s <? off + e) eqn:B; lia
                        |destruct (e <? s) eqn:A, (off + e <? off + s) eqn:B; lia]. }
  rewrite L. unfold range_list. rewrite map_map. apply map_ext. intro i. lia.
Qed.

(* the rows a part [off, off+h) contributes to a positive-stride slice of the concatenation *)
Lemma local_slice_positions off h cs stop st ps : 0 < st -> 0 <= h -> 0 <= cs -> 0 <= stop - off ->
  slice_positions h (Some cs) (Some (stop - off)) (Some st) = Some ps ->
  map (fun x => off + x) ps = py_range (off + cs) (Z.min (off + h) stop) st.
Proof.
  intros Hst Hh Hcs Hstop H. unfold slice_positions, slice_indices in H.
  assert (E0 : (st =? 0) = false) by lia. assert (E1 : (st <? 0) = false) by lia. rewrite E0, E1 in H.
  assert (E2 : (cs <? 0) = false) by lia. assert (E3 : (stop - off <? 0) = false) by lia. rewrite E2, E3 in H.
  injection H as <-. rewrite py_range_shift by lia.
  replace (off + Z.min (stop - off) h) with (Z.min (off + h) stop) by lia.
  destruct (Z_le_gt_dec h cs).
  - rewrite !py_range_nil by lia. reflexivity.
  - now replace (Z.min cs h) with cs by lia.
Qed.

(* ------------------------------------------------------------------ 2. part boundaries and find_indexer *)

Definition bnd (lens : list Z) (j : nat) : Z := zsum (firstn j lens).

Lemma bnd_cons h r j : bnd (h :: r) (S j) = h + bnd r j.
Proof. reflexivity. Qed.
Lemma bnd_0 lens : bnd lens 0 = 0.
Proof. reflexivity. Qed.

Lemma bnd_S lens j : (j < List.length lens)%nat -> bnd lens (S j) = bnd lens j + nth j lens 0.
Proof.
  revert j. induction lens as [|h r IH]; intros j H; [cbn in H; lia|].
  destruct j.
  - rewrite bnd_cons, !bnd_0. cbn [nth]. lia.
  - rewrite !bnd_cons. cbn [nth]. rewrite IH by (cbn in H; lia). lia.
Qed.

Lemma bnd_all lens : bnd lens (List.length lens) = zsum lens.
Proof. unfold bnd. now rewrite firstn_all. Qed.

Lemma bnd_mono lens j : Forall (fun h => 0 <= h) lens -> (j < List.length lens)%nat -> bnd lens j <= bnd lens (S j).
Proof.
  intros H Hj. rewrite bnd_S by assumption. rewrite Forall_forall in H.
  specialize (H (nth j lens 0) (nth_In _ _ Hj)). lia.
Qed.

Lemma bnd_mono_le lens i j : Forall (fun h => 0 <= h) lens -> (i <= j <= List.length lens)%nat -> bnd lens i <= bnd lens j.
Proof.
  intros H [H1 H2]. induction j as [|j IH]; [replace i with 0%nat by lia; lia|].
  destruct (Nat.eq_dec i (S j)) as [->|Ne]; [lia|].
  pose proof (bnd_mono lens j H ltac:(lia)). specialize (IH ltac:(lia) ltac:(lia)). lia.
Qed.

Lemma starts_from_length o lens : List.length (starts_from o lens) = List.length lens.
Proof. revert o. induction lens; intro o; cbn; auto. Qed.

Lemma starts_from_nth lens : forall o j, (j < List.length lens)%nat -> nth j (starts_from o lens) 0 = o + bnd lens j.
Proof.
  induction lens as [|h r IH]; intros o j H; [cbn in H; lia|].
  destruct j; cbn [starts_from nth]; [rewrite bnd_0; lia|].
  rewrite IH by (cbn in H; lia). rewrite bnd_cons. lia.
Qed.

(* number of starts <= x *)
Lemma count_spec x : forall lens o, Forall (fun h => 0 <= h) lens ->
  let c := List.length (filter (fun s => s <=? x) (starts_from o lens)) in
  (c <= List.length lens)%nat
  /\ (forall j, (j < c)%nat -> o + bnd lens j <= x)
  /\ ((c < List.length lens)%nat -> x < o + bnd lens c)
  /\ (o <= x -> lens <> [] -> (1 <= c)%nat).
Proof.
  induction lens as [|h r IH]; intros o Hn c.
  - cbn in c. subst c. cbn. repeat split; try lia. intros; congruence.
  - inversion Hn as [|? ? Hh Hr]; subst. cbn [starts_from filter] in c.
    destruct (o <=? x) eqn:E.
    + cbn [List.length] in c. specialize (IH (o + h) Hr). cbn zeta in IH.
      set (c' := List.length (filter (fun s => s <=? x) (starts_from (o + h) r))) in *.
      destruct IH as [I1 [I2 [I3 I4]]]. subst c. cbn [List.length]. repeat split; try lia.
      * intros j Hj. destruct j; [rewrite bnd_0; lia|].
        specialize (I2 j ltac:(lia)). rewrite bnd_cons. lia.
      * intro Hc. specialize (I3 ltac:(lia)). rewrite bnd_cons. lia.
    + (* o > x: every later start is >= o > x *)
      assert (F : filter (fun s => s <=? x) (starts_from (o + h) r) = []).
      { clear -E Hh Hr. assert (G : x < o + h) by lia. revert G. generalize (o + h). clear E Hh.
        induction r as [|h' r IH]; intros o' G; [reflexivity|]. inversion Hr; subst. cbn [starts_from filter].
        assert (E : (o' <=? x) = false) by lia. rewrite E. apply IH; auto. lia. }
      subst c. rewrite F. cbn [List.length]. repeat split; try lia.
      intros _. rewrite bnd_0. lia.
Qed.

Lemma find_indexer_spec lens x : Forall (fun h => 0 <= h) lens -> lens <> [] -> 0 <= x ->
  let ind := find_indexer (starts_from 0 lens) x in
  0 <= ind < zlen lens
  /\ bnd lens (Z.to_nat ind) <= x
  /\ (ind + 1 < zlen lens -> x < bnd lens (S (Z.to_nat ind))).
Proof.
  intros Hn Hne Hx ind. unfold ind, find_indexer, concat_find_indexer, concat_searchsorted_before, zlen.
  destruct (count_spec x lens 0 Hn) as [C1 [C2 [C3 C4]]].
  set (c := List.length (filter (fun s => s <=? x) (starts_from 0 lens))) in *.
  specialize (C4 Hx Hne). split; [lia|].
  replace (Z.to_nat (Z.of_nat c - 1)) with (c - 1)%nat by lia. split.
  - specialize (C2 (c - 1)%nat ltac:(lia)). lia.
  - intro H. replace (S (c - 1)) with c by lia. specialize (C3 ltac:(lia)). lia.
Qed.

Lemma py_nth_nonneg {A} (l : list A) (i : Z) d : 0 <= i < zlen l -> py_nth l i = Ok (nth (Z.to_nat i) l d).
Proof.
  intro H. unfold py_nth. rewrite wrap_id by assumption.
  rewrite (nth_error_nth' l d) by (unfold zlen in H; lia). reflexivity.
Qed.

Lemma py_nth_ok_nonneg {A} (l : list A) (i : Z) x d : 0 <= i -> py_nth l i = Ok x -> i < zlen l /\ x = nth (Z.to_nat i) l d.
Proof.
  intros H P. unfold py_nth, wrap in P.
  destruct ((0 <=? i) && (i <? zlen l)) eqn:E.
  - split; [lia|]. destruct (nth_error l (Z.to_nat i)) eqn:N; [|discriminate]. injection P as <-.
    symmetry. now apply nth_error_nth.
  - destruct ((- zlen l <=? i) && (i <? 0)) eqn:E2; [lia|discriminate].
Qed.

(* ------------------------------------------------------------------ 3. rows of a concatenation *)

Definition row (CH : list tree) (S : list sel) (x : Z) : tree := take (child (Node CH) x) S.

Lemma take_node CH P (d : bool) S :
  take (Node CH) ((P, d) :: S) = if d then row CH S (hd 0 P) else Node (map (row CH S) P).
Proof. reflexivity. Qed.

Lemma bnd_nonneg lens j : Forall (fun h => 0 <= h) lens -> 0 <= bnd lens j.
Proof.
  intro H. revert j. induction H as [|h r Hh _ IH]; intro j; [destruct j; reflexivity|].
  destruct j; [rewrite bnd_0; lia|]. rewrite bnd_cons. specialize (IH j). lia.
Qed.

Lemma zlens_nonneg {A} (chs : list (list A)) : Forall (fun h => 0 <= h) (map zlen chs).
Proof. apply Forall_forall. intros x Hx. apply in_map_iff in Hx. destruct Hx as [y [<- _]]. apply zlen_nonneg. Qed.

Lemma child_concat : forall (chs : list (list tree)) i q, (i < List.length chs)%nat -> 0 <= q < zlen (nth i chs []) ->
  child (Node (List.concat chs)) (bnd (map zlen chs) i + q) = child (Node (nth i chs [])) q.
Proof.
  induction chs as [|c r IH]; intros i q Hi Hq; [cbn in Hi; lia|].
  unfold child, children in *. destruct i.
  - rewrite bnd_0. cbn [List.concat nth Z.add] in *. rewrite app_nth1 by (unfold zlen in Hq; lia). reflexivity.
  - cbn [map]. rewrite bnd_cons. cbn [List.concat nth] in *.
    pose proof (bnd_nonneg (map zlen r) i (zlens_nonneg r)).
    replace (Z.to_nat (zlen c + bnd (map zlen r) i + q)) with (List.length c + Z.to_nat (bnd (map zlen r) i + q))%nat
      by (unfold zlen in *; lia).
    rewrite app_nth2_plus. apply IH; [cbn in Hi; lia|assumption].
Qed.

(* ------------------------------------------------------------------ 4. what is known about a part *)

Definition part_ok (T : list Z) (dt : Z) (p : cpart) (f : nd) : Prop :=
  nd_shape f = part_len p :: T /\ part_tail p = T
  /\ (exists ch, nd_body f = Node ch /\ zlen ch = part_len p)
  /\ (forall ixs out, part_get dt p ixs = Ok out -> oindex f ixs = Ok (a_nd out) /\ a_dtype out = dt).

(* the same about the part's own answer (its own dtype), before it is cast into the result *)
Definition part_ok0 (T : list Z) (p : cpart) (f : nd) : Prop :=
  nd_shape f = part_len p :: T /\ part_tail p = T
  /\ (exists ch, nd_body f = Node ch /\ zlen ch = part_len p)
  /\ (forall ixs out, part_get0 p ixs = Ok out -> oindex f ixs = Ok (a_nd out) /\ a_dtype out = part_dtype p).

Lemma astype_widen dt x : dtype_le (a_dtype x) dt -> astype dt x = mk_arr dt (a_nd x).
Proof.
  intro H. unfold astype. rewrite tree_map_id by (intro v; now apply cast_widen). now destruct (a_nd x).
Qed.

(* a part whose dtype fits the common dtype delivers the same elements into the result (no narrowing cast) *)
Lemma part_ok_upgrade T dt p f : part_ok0 T p f -> dtype_le (part_dtype p) dt -> part_ok T dt p f.
Proof.
  intros [H1 [H2 [H3 H4]]] Hle. repeat split; try assumption.
  - unfold part_get in H. destruct (part_get0 p ixs) as [sub|] eqn:E; [|discriminate]. cbn [bind] in H. injection H as <-.
    destruct (H4 _ _ E) as [HO HD]. rewrite astype_widen by (now rewrite HD). exact HO.
  - unfold part_get in H. destruct (part_get0 p ixs) as [sub|] eqn:E; [|discriminate]. cbn [bind] in H. now injection H as <-.
Qed.

Lemma pad_to_id : forall k l, List.length l = k -> pad_to k l = l.
Proof. induction k; intros [|x l] H; try discriminate; cbn; [reflexivity|]. f_equal. apply IHk. now injection H. Qed.

Lemma oindex_cons f h T hix tail : nd_shape f = h :: T -> List.length tail = List.length T ->
  oindex f (hix :: tail) =
  (hs <- resolve h hix ;; S <- mapM (fun p => resolve (fst p) (snd p)) (combine T tail) ;;
   Ok (mk_nd (take_shape (hs :: S)) (take (nd_body f) (hs :: S)))).
Proof.
  intros Hs Ht. unfold oindex, resolve_all. rewrite Hs. cbn [List.length pad_to combine mapM fst snd].
  rewrite pad_to_id by assumption. destruct (resolve h hix); [|reflexivity]. cbn [bind].
  destruct (mapM _ _); reflexivity.
Qed.

Lemma wrap_nonneg n x q : 0 <= x -> wrap n x = Some q -> q = x /\ x < n.
Proof.
  intros Hx H. unfold wrap in H. destruct ((0 <=? x) && (x <? n)) eqn:E; [injection H as <-; lia|].
  destruct ((- n <=? x) && (x <? 0)) eqn:E2; [lia|discriminate].
Qed.

Section Concat.
  Context (ps : list cpart) (fs : list nd) (T : list Z) (dt : Z) (tail : list aidx) (S : list sel).
  Context (HP : Forall2 (part_ok T dt) ps fs).
  Context (HT : List.length tail = List.length T).
  Context (HS : mapM (fun p => resolve (fst p) (snd p)) (combine T tail) = Ok S).
  Context (Hne : ps <> []).
  Context (Hlen : Forall (fun p => 0 <= part_len p) ps).

  Let lens := map part_len ps.
  Let starts := starts_from 0 lens.
  Let chs := map (fun f => children (nd_body f)) fs.
  Let CH := List.concat chs.
  Let total := zsum lens.

  Lemma lens_nonneg : Forall (fun h => 0 <= h) lens.
  Proof. unfold lens. apply Forall_forall. intros x Hx. apply in_map_iff in Hx. destruct Hx as [p [<- Hp]].
         rewrite Forall_forall in Hlen. auto. Qed.

  Lemma lens_ne : lens <> [].
  Proof. unfold lens. destruct ps; [congruence|discriminate]. Qed.

  Lemma chs_lens : map zlen chs = lens.
  Proof.
    unfold chs, lens. pose proof HP as Q. clear -Q. induction Q as [|p f ps' fs' H _ IH]; [reflexivity|].
    cbn [map]. f_equal; [|exact IH]. destruct H as [_ [_ [[ch [Hb Hl]] _]]]. rewrite Hb. exact Hl.
  Qed.

  Lemma fs_length : List.length fs = List.length ps.
  Proof. pose proof HP as Q. clear -Q. induction Q; cbn; auto. Qed.

  Lemma part_at i (pd : cpart) (fd : nd) : (i < List.length ps)%nat -> part_ok T dt (nth i ps pd) (nth i fs fd).
  Proof.
    pose proof HP as Q. clear -Q. revert i. induction Q as [|p f ps' fs' H _ IH]; intros i Hi; [cbn in Hi; lia|].
    destruct i; [exact H|]. cbn [nth]. apply IH. cbn in Hi. lia.
  Qed.

  Lemma nth_chs i fd : (i < List.length ps)%nat -> nth i chs [] = children (nd_body (nth i fs fd)).
  Proof.
    intro Hi. unfold chs. rewrite nth_indep with (d' := (fun f => children (nd_body f)) fd)
      by (rewrite map_length, fs_length; exact Hi). exact (map_nth (fun f => children (nd_body f)) fs fd i).
  Qed.

  (* the answer of one part, in terms of rows of the concatenation *)
  Lemma part_rows i pd hix out : (i < List.length ps)%nat ->
    part_get dt (nth i ps pd) (hix :: tail) = Ok out ->
    exists Pq d, resolve (nth i lens 0) hix = Ok (Pq, d)
      /\ a_dtype out = dt
      /\ a_nd out = mk_nd (take_shape ((Pq, d) :: S))
                          (if d then row CH S (bnd lens i + hd 0 Pq)
                           else Node (map (row CH S) (map (fun q => bnd lens i + q) Pq)))
      /\ in_range (nth i lens 0) Pq /\ (d = true -> Pq <> []).
  Proof.
    intros Hi HG. set (fd := mk_nd [] (Leaf 0)).
    destruct (part_at i pd fd Hi) as [Hsh [Htl [[ch [Hb Hl]] Hget]]].
    destruct (Hget _ _ HG) as [HO HD].
    rewrite (oindex_cons _ _ _ _ _ Hsh HT) in HO.
    assert (Hh : nth i lens 0 = part_len (nth i ps pd)).
    { unfold lens. rewrite nth_indep with (d' := part_len pd) by (now rewrite map_length). apply map_nth. }
    rewrite <- Hh in HO.
    destruct (resolve (nth i lens 0) hix) as [[Pq d]|] eqn:ER; [|discriminate]. cbn [bind] in HO.
    rewrite HS in HO. cbn [bind] in HO. injection HO as HO.
    assert (Hr : in_range (nth i lens 0) Pq).
    { eapply resolve_in_range; [|exact ER]. pose proof lens_nonneg as LN. rewrite Forall_forall in LN.
      apply LN. apply nth_In. unfold lens. now rewrite map_length. }
    exists Pq, d. split; [reflexivity|]. split; [exact HD|]. rewrite <- HO. rewrite Hb.
    assert (Hc : nth i chs [] = ch) by (rewrite (nth_chs i fd Hi), Hb; reflexivity).
    assert (Hrow : forall q, 0 <= q < nth i lens 0 -> row ch S q = row CH S (bnd lens i + q)).
    { intros q Hq. unfold row, CH. rewrite <- chs_lens.
      rewrite child_concat; [now rewrite Hc| unfold chs; rewrite map_length, fs_length; exact Hi|].
      rewrite Hc, Hl, <- Hh. exact Hq. }
    split; [|split; [exact Hr|]].
    - f_equal. destruct d.
      + destruct Pq as [|q Pq']; [|inversion Hr; subst; cbn [hd]; now apply (Hrow q)].
        (* an integer index always resolves to one position *)
        destruct hix; cbn in ER; try (destruct (slice_positions _ _ _ _); discriminate);
          try (destruct (zlen m =? _); discriminate); try (destruct (mapM _ l); discriminate).
        unfold wrap_res in ER. destruct (wrap _ z); discriminate.
      + f_equal. rewrite map_map. apply map_ext_in. intros q Hq.
        unfold in_range in Hr. rewrite Forall_forall in Hr. apply (Hrow q). now apply Hr.
    - intros ->. destruct hix; cbn in ER; try (destruct (slice_positions _ _ _ _); discriminate);
        try (destruct (zlen m =? _); discriminate); try (destruct (mapM _ l); discriminate).
      unfold wrap_res in ER. destruct (wrap _ z); [|discriminate]. cbn in ER. injection ER as <-. discriminate.
  Qed.
End Concat.

(* ------------------------------------------------------------------ 5. the four head branches *)

Lemma mapM_Forall2_rel {A B} (f : A -> res B) (Rel : A -> B -> Prop) l ys :
  mapM f l = Ok ys -> (forall x y, In x l -> f x = Ok y -> Rel x y) -> Forall2 Rel l ys.
Proof.
  revert ys. induction l as [|x r IH]; intros ys H HR; cbn in H.
  - injection H as <-. constructor.
  - destruct (f x) eqn:E; [|discriminate]. cbn in H. destruct (mapM f r) eqn:E2; [|discriminate].
    cbn in H. injection H as <-. constructor; [apply HR; [now left|exact E]|].
    apply IH; auto. intros x' y' Hin. apply HR. now right.
Qed.

Lemma skipn_nth_cons {A} (l : list A) i d : (i < List.length l)%nat -> skipn i l = nth i l d :: skipn (S i) l.
Proof.
  revert i. induction l as [|x r IH]; intros i H; [cbn in H; lia|].
  destruct i; [reflexivity|]. cbn [skipn nth]. apply IH. cbn in H. lia.
Qed.

Lemma wrap_norm n z p : wrap n z = Some p -> p = (if z <? 0 then z + n else z) /\ 0 <= p < n.
Proof.
  intro H. pose proof (wrap_range _ _ _ H). split; [|assumption]. unfold wrap in H.
  destruct ((0 <=? z) && (z <? n)) eqn:E; [injection H as <-; assert (E2 : (z <? 0) = false) by lia; now rewrite E2|].
  destruct ((- n <=? z) && (z <? 0)) eqn:E2; [|discriminate]. injection H as <-.
  assert (E3 : (z <? 0) = true) by lia. now rewrite E3.
Qed.

Section Branches.
  Context (ps : list cpart) (fs : list nd) (T : list Z) (dt : Z) (tail : list aidx) (S : list sel).
  Context (HP : Forall2 (part_ok T dt) ps fs).
  Context (HT : List.length tail = List.length T).
  Context (HS : mapM (fun p => resolve (fst p) (snd p)) (combine T tail) = Ok S).
  Context (Hne : ps <> []).
  Context (Hlen : Forall (fun p => 0 <= part_len p) ps).

  Let lens := map part_len ps.
  Let starts := starts_from 0 lens.
  Let CH := List.concat (map (fun f => children (nd_body f)) fs).
  Let total := zsum lens.
  Let k := List.length ps.

  Definition head_result (out : arr) (hs : sel) : Prop :=
    a_dtype out = dt /\ a_nd out = mk_nd (take_shape (hs :: S)) (take (Node CH) (hs :: S)).

  Let LN := lens_nonneg ps Hlen.
  Lemma LE : lens <> [].
  Proof. unfold lens. destruct ps; [congruence|discriminate]. Qed.

  Lemma lens_len : List.length lens = k.
  Proof. unfold lens, k. apply map_length. Qed.

  Lemma starts_nth i : (i < k)%nat -> nth i starts 0 = bnd lens i.
  Proof. intro H. unfold starts. rewrite starts_from_nth by (now rewrite lens_len). lia. Qed.

  Lemma total_bnd : total = bnd lens k.
  Proof. unfold total. rewrite <- lens_len. now rewrite bnd_all. Qed.

  (* --- scalar head --- *)
  Lemma head_scalar z out : c_head ps dt total S (AInt z) tail = Ok out ->
    exists hs, resolve total (AInt z) = Ok hs /\ head_result out hs.
  Proof.
    cbn [c_head]. fold lens. fold starts.
    unfold concat_norm_scalar, concat_scalar_rejected, concat_local_scalar.
    set (z' := if z <? 0 then total + z else z).
    destruct ((0 <=? z') && (z' <? total)) eqn:E; cbn [negb]; [|discriminate].
    destruct (find_indexer_spec lens z' LN LE ltac:(lia)) as [I1 [I2 I3]].
    set (ind := find_indexer starts z') in *. fold starts in I1, I2, I3. fold ind in I1, I2, I3.
    set (pd := mk_cpart (mk_lazyidx [] [] [] 0) (Leaf 0)).
    assert (Hi : (Z.to_nat ind < k)%nat) by (unfold zlen in I1; rewrite lens_len in I1; lia).
    rewrite (py_nth_nonneg ps ind pd) by (unfold zlen, k in *; rewrite lens_len in I1; unfold k in I1; lia).
    cbn [bind]. rewrite (py_nth_nonneg starts ind 0)
      by (unfold zlen, starts; rewrite starts_from_length, lens_len; unfold zlen in I1; rewrite lens_len in I1; lia).
    cbn [bind]. rewrite starts_nth by assumption. intro HG.
    destruct (part_rows ps fs T dt tail S HP HT HS Hlen _ pd _ _ Hi HG) as [Pq [d [ER [HD [HN _]]]]].
    fold lens in ER, HN. cbn [resolve] in ER. unfold wrap_res in ER.
    destruct (wrap (nth (Z.to_nat ind) lens 0) (z' - bnd lens (Z.to_nat ind))) as [q|] eqn:W; [|discriminate].
    cbn [bind] in ER. injection ER as <- <-.
    assert (Hnn : 0 <= z' - bnd lens (Z.to_nat ind)) by lia.
    destruct (wrap_nonneg _ _ _ Hnn W) as [-> _].
    exists ([z'], true). split.
    - cbn [resolve]. unfold wrap_res.
      assert (W2 : wrap total z = Some z').
      { clear -E. unfold wrap. subst z'. clearbody total. destruct (z <? 0) eqn:Ez; rewrite ?Ez in E.
        - destruct ((0 <=? z) && (z <? total)) eqn:E1; [exfalso; lia|].
          destruct (- total <=? z) eqn:E2; cbn [andb]; [f_equal; lia|exfalso; lia].
        - destruct ((0 <=? z) && (z <? total)) eqn:E1; [reflexivity|exfalso; lia]. }
      now rewrite W2.
    - split; [exact HD|]. rewrite HN. fold CH. cbn [hd take_shape]. rewrite take_node. cbn [hd].
      do 2 f_equal. lia.
  Qed.

  (* --- chunks of the slice and mask branches: rows of the concatenation at positions Pos j --- *)
  Lemma chunks_rows (Pos : nat -> list Z) js chunks out :
    Forall2 (fun j c => a_dtype c = dt /\ a_nd c = mk_nd (zlen (Pos j) :: take_shape S) (Node (map (row CH S) (Pos j)))) js chunks ->
    concat_chunks dt (take_shape S) chunks = Ok out ->
    out = mk_arr dt (mk_nd (zlen (flat_map Pos js) :: take_shape S) (Node (map (row CH S) (flat_map Pos js)))).
  Proof.
    intros HF HC. unfold concat_chunks in HC. destruct chunks as [|c0 cr] eqn:EC; [discriminate|]. rewrite <- EC in *.
    injection HC as <-. clear EC c0 cr. f_equal. unfold cat.
    assert (G : zsum (map (fun x => hd 0 (nd_shape (a_nd x))) chunks) = zlen (flat_map Pos js)
                /\ flat_map children (map (fun x => nd_body (a_nd x)) chunks) = map (row CH S) (flat_map Pos js)).
    { induction HF as [|j c js' cs' [_ H] _ IH]; [split; reflexivity|].
      destruct IH as [IH1 IH2]. cbn [map flat_map zsum fold_right]. rewrite H. cbn [nd_shape nd_body hd children].
      fold (zsum (map (fun x => hd 0 (nd_shape (a_nd x))) cs')). rewrite IH1, IH2, zlen_app, map_app. split; reflexivity. }
    destruct G as [-> ->]. reflexivity.
  Qed.
End Branches.

Lemma Forall2_map_l {A B C} (g : A -> C) (Rel : C -> B -> Prop) l ys :
  Forall2 (fun x y => Rel (g x) y) l ys -> Forall2 Rel (map g l) ys.
Proof. induction 1; cbn; constructor; auto. Qed.

Lemma py_range_unit_seq : forall (n : nat) a, 0 <= a ->
  map Z.to_nat (range_list a 1 n) = seq (Z.to_nat a) n.
Proof.
  induction n as [|n IH]; intros a Ha; [reflexivity|].
  rewrite range_list_S. cbn [map seq]. f_equal. rewrite IH by lia. f_equal. lia.
Qed.

Section SliceBranch.
  Context (ps : list cpart) (fs : list nd) (T : list Z) (dt : Z) (tail : list aidx) (S : list sel).
  Context (HP : Forall2 (part_ok T dt) ps fs).
  Context (HT : List.length tail = List.length T).
  Context (HS : mapM (fun p => resolve (fst p) (snd p)) (combine T tail) = Ok S).
  Context (Hne : ps <> []).
  Context (Hlen : Forall (fun p => 0 <= part_len p) ps).

  Let lens := map part_len ps.
  Let starts := starts_from 0 lens.
  Let CH := List.concat (map (fun f => children (nd_body f)) fs).
  Let total := zsum lens.
  Let k := List.length ps.
  Let LN : Forall (fun h => 0 <= h) lens := lens_nonneg ps Hlen.

  Context (start stop st : Z) (Hst : 0 < st) (Hstart : 0 <= start <= total) (Hstop : 0 <= stop <= total).

  Let Pos (j : nat) : list Z := py_range (first_ge start st (bnd lens j)) (Z.min (bnd lens (Datatypes.S j)) stop) st.

  Lemma telescope : forall n j, (j + n <= k)%nat ->
    flat_map Pos (seq j n) ++ py_range (first_ge start st (bnd lens (j + n))) stop st
    = py_range (first_ge start st (bnd lens j)) stop st.
  Proof.
    induction n as [|n IH]; intros j Hj.
    - cbn [seq flat_map app]. now rewrite Nat.add_0_r.
    - cbn [seq flat_map]. rewrite <- app_assoc.
      replace (j + Datatypes.S n)%nat with (Datatypes.S j + n)%nat by lia. rewrite IH by lia.
      unfold Pos.
      assert (Hl : List.length lens = k) by (unfold lens, k; apply map_length).
      pose proof (bnd_mono lens j LN ltac:(lia)) as Hm.
      rewrite <- (first_ge_idem start st (bnd lens j) (bnd lens (Datatypes.S j)) Hst Hm).
      symmetry. apply (py_range_split st stop (bnd lens (Datatypes.S j)) Hst
                         (Z.to_nat (stop - first_ge start st (bnd lens j)))). lia.
  Qed.

  Let HFrel (j : nat) (c : arr) : Prop :=
    a_dtype c = dt /\ a_nd c = mk_nd (zlen (Pos j) :: take_shape S) (Node (map (row CH S) (Pos j))).

  (* a chunk that is extracted is the block of rows Pos j of the concatenation *)
  Lemma slice_chunk_block ind c : 0 <= ind < Z.of_nat k -> bnd lens (Z.to_nat ind) <= stop ->
    slice_chunk dt ps starts tail (take_shape S) start stop st ind = Ok c -> HFrel (Z.to_nat ind) c.
  Proof.
    intros Bd Hoffs Hc.
    assert (Hl : List.length lens = k) by (unfold lens, k; apply map_length).
    set (pd := mk_cpart (mk_lazyidx [] [] [] 0) (Leaf 0)).
    set (j := Z.to_nat ind) in *.
    assert (Hj : (j < k)%nat) by (unfold j; lia).
    unfold slice_chunk in Hc.
    rewrite (py_nth_nonneg ps ind pd) in Hc by (unfold zlen; fold k; lia). cbn [bind] in Hc.
    rewrite (py_nth_nonneg starts ind 0) in Hc
      by (unfold zlen, starts; rewrite starts_from_length, Hl; lia). cbn [bind] in Hc.
    fold j in Hc.
    assert (Hoff : nth j starts 0 = bnd lens j).
    { unfold starts. rewrite starts_from_nth by (rewrite Hl; exact Hj). lia. }
    rewrite Hoff in Hc.
    set (off := bnd lens j) in *.
    unfold concat_chunk_start, concat_chunk_stop in Hc.
    set (cs := if off <=? start then start - off else (start - off) mod st) in *.
    destruct (part_get dt (nth j ps pd) _) as [sub|] eqn:EG; [|discriminate]. cbn [bind] in Hc.
    unfold reshape_chunk in Hc. injection Hc as <-.
    destruct (part_rows ps fs T dt tail S HP HT HS Hlen _ pd _ _ Hj EG) as [Pq [d [ER [HD [HN _]]]]].
    fold lens in ER, HN. fold CH in HN. fold off in HN.
    cbn [resolve] in ER. destruct (slice_positions _ _ _ _) as [Pq'|] eqn:SP; [|discriminate].
    injection ER as <- <-.
    assert (Hcs : 0 <= cs) by (unfold cs; destruct (off <=? start) eqn:E; [lia|apply Z.mod_pos_bound; lia]).
    assert (Hh : 0 <= nth j lens 0).
    { rewrite Forall_forall in LN. apply LN. apply nth_In. rewrite Hl. exact Hj. }
    pose proof (local_slice_positions off _ cs stop st Pq' Hst Hh Hcs ltac:(lia) SP) as LP.
    assert (Hfg : off + cs = first_ge start st off).
    { unfold cs, first_ge. destruct (off <=? start); lia. }
    assert (HS1 : off + nth j lens 0 = bnd lens (Datatypes.S j)) by (unfold off; rewrite bnd_S by (rewrite Hl; exact Hj); lia).
    rewrite Hfg, HS1 in LP.
    assert (LP' : map (fun q => off + q) Pq' = Pos j) by (unfold Pos; fold off; exact LP).
    split; [exact HD|]. rewrite HN. cbn [take_shape]. rewrite LP'.
    f_equal. f_equal. rewrite <- LP'. now rewrite zlen_map.
  Qed.

  (* the loop with its `continue`: the extracted chunks are the blocks of the indexers that were not skipped, and a
     skipped indexer owns no selected row *)
  Lemma slice_chunks_blocks : forall inds have chunks,
    Forall (fun ind => 0 <= ind < Z.of_nat k /\ bnd lens (Z.to_nat ind) <= stop) inds ->
    slice_chunks dt ps starts tail (take_shape S) start stop st have inds = Ok chunks ->
    exists js, Forall2 HFrel js chunks /\ flat_map Pos js = flat_map Pos (map Z.to_nat inds).
  Proof.
    assert (Hl : List.length lens = k) by (unfold lens, k; apply map_length).
    induction inds as [|ind r IH]; intros have chunks HB HC.
    - cbn in HC. injection HC as <-. exists []. split; [constructor|reflexivity].
    - inversion HB as [|? ? [Bd Hoffs] HB']; subst. cbn [slice_chunks] in HC.
      rewrite (py_nth_nonneg starts ind 0) in HC
        by (unfold zlen, starts; rewrite starts_from_length, Hl; lia). cbn [bind] in HC.
      set (j := Z.to_nat ind) in *.
      assert (Hj : (j < k)%nat) by (unfold j; lia).
      assert (Hoff : nth j starts 0 = bnd lens j).
      { unfold starts. rewrite starts_from_nth by (rewrite Hl; exact Hj). lia. }
      rewrite Hoff in HC. set (off := bnd lens j) in *.
      destruct (concat_chunk_skipped have _ _) eqn:ESK.
      + (* skipped: nothing of the progression lies in this indexer *)
        destruct (IH have chunks HB' HC) as [js [F1 F2]]. exists js. split; [exact F1|].
        cbn [map flat_map]. fold j. rewrite F2.
        assert (EP : Pos j = []).
        { unfold Pos. fold off. apply py_range_nil; [exact Hst|].
          unfold concat_chunk_skipped, concat_chunk_start, concat_chunk_stop in ESK.
          apply andb_prop in ESK. destruct ESK as [_ ESK].
          unfold first_ge. destruct (off <=? start) eqn:E; lia. }
        now rewrite EP.
      + destruct (slice_chunk _ _ _ _ _ _ _ _ ind) as [c|] eqn:EC; [|discriminate]. cbn [bind] in HC.
        destruct (slice_chunks _ _ _ _ _ _ _ _ true r) as [rest|] eqn:ER; [|discriminate]. cbn [bind] in HC.
        injection HC as <-.
        destruct (IH true rest HB' ER) as [js [F1 F2]]. exists (j :: js). split.
        * constructor; [|exact F1]. exact (slice_chunk_block ind c Bd Hoffs EC).
        * cbn [map flat_map]. fold j. now rewrite F2.
  Qed.

  Lemma head_slice_chunks chunks out :
    slice_chunks dt ps starts tail (take_shape S) start stop st false
         (py_range (find_indexer starts start) (find_indexer starts stop + 1) 1) = Ok chunks ->
    concat_chunks dt (take_shape S) chunks = Ok out ->
    head_result fs dt S out (py_range start stop st, false).
  Proof.
    intros HM HC.
    assert (LE : lens <> []) by (unfold lens; destruct ps; [congruence|discriminate]).
    assert (Hl : List.length lens = k) by (unfold lens, k; apply map_length).
    destruct (find_indexer_spec lens start LN LE ltac:(lia)) as [A1 [A2 A3]].
    destruct (find_indexer_spec lens stop LN LE ltac:(lia)) as [B1 [B2 B3]].
    fold starts in A1, A2, A3, B1, B2, B3.
    set (ia := find_indexer starts start) in *. set (ib := find_indexer starts stop) in *.
    unfold zlen in A1, B1. rewrite Hl in A1, B1.
    destruct (Z_lt_ge_dec (ib + 1) ia) as [Hlt|Hge].
    { rewrite py_range_nil in HM by lia. cbn in HM. injection HM as <-. discriminate. }
    assert (HB : Forall (fun ind => 0 <= ind < Z.of_nat k /\ bnd lens (Z.to_nat ind) <= stop) (py_range ia (ib + 1) 1)).
    { apply Forall_forall. intros ind Hin.
      destruct (py_range_bounds ia (ib + 1) 1 ind ltac:(lia) Hin) as [Bd _]. specialize (Bd ltac:(lia)).
      split; [lia|]. pose proof (bnd_mono_le lens (Z.to_nat ind) (Z.to_nat ib) LN ltac:(lia)). lia. }
    destruct (slice_chunks_blocks _ _ _ HB HM) as [js [HF HFM]].
    pose proof (chunks_rows fs dt S Pos _ _ _ HF HC) as ->.
    rewrite HFM.
    (* the blocks tile the global progression *)
    assert (HJ : map Z.to_nat (py_range ia (ib + 1) 1) = seq (Z.to_nat ia) (Z.to_nat (ib + 1 - ia))).
    { rewrite py_range_unit by lia. apply py_range_unit_seq. lia. }
    rewrite HJ.
    pose proof (telescope (Z.to_nat (ib + 1 - ia)) (Z.to_nat ia) ltac:(lia)) as TL.
    replace (Z.to_nat ia + Z.to_nat (ib + 1 - ia))%nat with (Datatypes.S (Z.to_nat ib)) in TL by lia.
    assert (Hrest : py_range (first_ge start st (bnd lens (Datatypes.S (Z.to_nat ib)))) stop st = []).
    { destruct (first_ge_ge start st (bnd lens (Datatypes.S (Z.to_nat ib))) Hst) as [G1 G2].
      apply py_range_nil; [exact Hst|].
      destruct (Z_lt_ge_dec (ib + 1) (Z.of_nat k)) as [Hin|Hlast].
      - specialize (B3 ltac:(unfold zlen; rewrite Hl; lia)). lia.
      - assert (EK : Datatypes.S (Z.to_nat ib) = k) by lia. rewrite EK in *.
        assert (bnd lens k = total) by (unfold total; rewrite <- Hl; apply bnd_all). lia. }
    rewrite Hrest, app_nil_r in TL.
    assert (Hhead : first_ge start st (bnd lens (Z.to_nat ia)) = start).
    { unfold first_ge. assert (E : (bnd lens (Z.to_nat ia) <=? start) = true) by lia. now rewrite E. }
    rewrite Hhead in TL. rewrite TL.
    split; [reflexivity|]. cbn [a_nd take_shape]. rewrite take_node. reflexivity.
  Qed.
End SliceBranch.

(* a real part (LazyIndexer without transforms over any source) satisfies part_ok *)
Lemma part_ok_of_raw r li a1 :
  Forall (fun d => 0 <= d) (r_shape r) -> r_shape r <> [] ->
  mk_lazy (r_shape r) (r_keep r) [] (r_dt r) = Ok li ->
  oindex_keep (mk_nd (r_shape r) (r_ds r)) (r_keep r) = Ok a1 ->
  part_ok0 (tl (nd_shape a1)) (mk_cpart li (r_ds r)) a1 /\ 0 <= part_len (mk_cpart li (r_ds r)).
Proof.
  intros Hs Hne HM H1.
  destruct (mk_lazy_fields _ _ _ _ _ _ _ Hs HM H1) as [F1 [F2 [F3 [F4 [F5 F6]]]]].
  unfold part_ok0, part_len, part_tail, part_dtype. cbn [cp_li cp_ds]. rewrite F1.
  assert (Hnd : exists h T, nd_shape a1 = h :: T).
  { destruct (nd_shape a1) as [|h T] eqn:E; [|eauto]. destruct (r_shape r); [congruence|discriminate]. }
  destruct Hnd as [h [T Hsh]]. rewrite Hsh. cbn [hd tl]. rewrite Hsh in F5.
  assert (Hh : 0 <= h) by (inversion F5; assumption). split; [|exact Hh]. split; [reflexivity|]. split; [reflexivity|]. split.
  - (* body is a Node with h children *)
    unfold oindex_keep, keep_sels in H1. cbn [nd_shape nd_body] in H1.
    destruct (mapM _ _) as [sels1|] eqn:EK in H1; [|discriminate]. cbn [bind] in H1. injection H1 as <-.
    cbn [nd_shape nd_body] in *.
    destruct (r_shape r) as [|n sh]; [congruence|]. cbn [List.length] in EK.
    destruct (r_keep r) as [|i0 ir]; cbn [pad_to combine mapM fst snd] in EK;
      (destruct (resolve_keep n _) as [p1|]; [|discriminate]); cbn [bind] in EK;
      (destruct (mapM _ (combine sh _)) as [rest|]; [|discriminate]); cbn [bind] in EK; injection EK as <-;
      cbn [take_shape take] in *; injection Hsh as <- _; (eexists; split; [reflexivity|]); now rewrite zlen_map.
  - intros ixs out HG. unfold part_get0 in HG. cbn [cp_li cp_ds] in HG.
    pose proof (getitem_correct _ _ _ _ _ _ _ _ _ Hs HM H1 HG) as SP.
    unfold spec_getitem in SP. rewrite H1 in SP. cbn [bind] in SP.
    destruct (oindex a1 ixs) as [a2|]; [|discriminate]. cbn in SP. injection SP as <-. split; [reflexivity|].
    cbn [a_dtype cp_li]. now rewrite F4.
Qed.

(* ------------------------------------------------------------------ 7. mask head *)

Lemma firstn_add {A} : forall x y (l : list A), firstn (x + y) l = firstn x l ++ firstn y (skipn x l).
Proof. induction x; intros y l; [reflexivity|]. destruct l; cbn; [now rewrite firstn_nil|]. now rewrite IHx. Qed.

Lemma skipn_add {A} : forall x y (l : list A), skipn (x + y) l = skipn y (skipn x l).
Proof. induction x; intros y l; [reflexivity|]. destruct l; cbn; [now rewrite skipn_nil|]. apply IHx. Qed.

Lemma zslice_split {A} (m : list A) a b c : 0 <= a <= b -> b <= c ->
  zslice m a c = zslice m a b ++ zslice m b c.
Proof.
  intros H1 H2. unfold zslice.
  replace (Z.to_nat (c - a)) with (Z.to_nat (b - a) + Z.to_nat (c - b))%nat by lia.
  rewrite firstn_add. f_equal. f_equal. rewrite <- skipn_add. f_equal. lia.
Qed.

Lemma zslice_len {A} (m : list A) a b : 0 <= a <= b -> b <= zlen m -> zlen (zslice m a b) = b - a.
Proof.
  intros H1 H2. unfold zslice, zlen in *. rewrite firstn_length, skipn_length. lia.
Qed.

Lemma nonzero_from_app o l1 l2 : nonzero_from o (l1 ++ l2) = nonzero_from o l1 ++ nonzero_from (o + zlen l1) l2.
Proof.
  revert o. induction l1 as [|b r IH]; intro o; cbn [app nonzero_from].
  - change (zlen (@nil bool)) with 0. now rewrite Z.add_0_r.
  - rewrite IH, zlen_cons. replace (o + 1 + zlen r) with (o + (1 + zlen r)) by lia. destruct b; reflexivity.
Qed.

Lemma nonzero_from_shift_gen o : forall l i, map (fun q => o + q) (nonzero_from i l) = nonzero_from (o + i) l.
Proof.
  induction l as [|b r IH]; intro i; [reflexivity|]. cbn [nonzero_from].
  replace (o + i + 1) with (o + (i + 1)) by lia. destruct b; cbn [map]; now rewrite IH.
Qed.

Lemma nonzero_from_shift o l : map (fun q => o + q) (nonzero l) = nonzero_from o l.
Proof. unfold nonzero. rewrite nonzero_from_shift_gen. now rewrite Z.add_0_r. Qed.

Section MaskBranch.
  Context (ps : list cpart) (fs : list nd) (T : list Z) (dt : Z) (tail : list aidx) (S : list sel).
  Context (HP : Forall2 (part_ok T dt) ps fs).
  Context (HT : List.length tail = List.length T).
  Context (HS : mapM (fun p => resolve (fst p) (snd p)) (combine T tail) = Ok S).
  Context (Hne : ps <> []).
  Context (Hlen : Forall (fun p => 0 <= part_len p) ps).

  Let lens := map part_len ps.
  Let starts := starts_from 0 lens.
  Let CH := List.concat (map (fun f => children (nd_body f)) fs).
  Let total := zsum lens.
  Let k := List.length ps.
  Let LN : Forall (fun h => 0 <= h) lens := lens_nonneg ps Hlen.

  Context (m : list bool) (Hm : zlen m = total).

  Let Pos (j : nat) : list Z := map (fun q => bnd lens j + q) (nonzero (zslice m (bnd lens j) (bnd lens (Datatypes.S j)))).

  Lemma mask_telescope : forall n j, (j + n <= k)%nat ->
    flat_map Pos (seq j n) = nonzero_from (bnd lens j) (zslice m (bnd lens j) (bnd lens (j + n))).
  Proof.
    assert (Hl : List.length lens = k) by (unfold lens, k; apply map_length).
    induction n as [|n IH]; intros j Hj.
    - cbn [seq flat_map]. rewrite Nat.add_0_r. unfold zslice. rewrite Z.sub_diag. reflexivity.
    - cbn [seq flat_map]. rewrite IH by lia. unfold Pos. rewrite nonzero_from_shift.
      pose proof (bnd_nonneg lens j LN). pose proof (bnd_mono lens j LN ltac:(lia)).
      pose proof (bnd_mono_le lens (Datatypes.S j) (Datatypes.S j + n) LN ltac:(lia)).
      pose proof (bnd_mono_le lens (Datatypes.S j + n) k LN ltac:(lia)).
      assert (bnd lens k = total) by (unfold total; rewrite <- Hl; apply bnd_all).
      replace (j + Datatypes.S n)%nat with (Datatypes.S j + n)%nat by lia.
      rewrite (zslice_split m (bnd lens j) (bnd lens (Datatypes.S j)) (bnd lens (Datatypes.S j + n))) by lia.
      rewrite nonzero_from_app. rewrite zslice_len by lia. do 2 f_equal. lia.
  Qed.

  Lemma head_mask_chunks chunks out :
    mapM (mask_chunk dt m tail (take_shape S)) (combine (combine ps starts) lens) = Ok chunks ->
    concat_chunks dt (take_shape S) chunks = Ok out ->
    head_result fs dt S out (nonzero m, false).
  Proof.
    intros HM HC.
    assert (Hl : List.length lens = k) by (unfold lens, k; apply map_length).
    set (pd := mk_cpart (mk_lazyidx [] [] [] 0) (Leaf 0)).
    assert (HCmb : combine (combine ps starts) lens
                   = map (fun j => (nth j ps pd, nth j starts 0, nth j lens 0)) (seq 0 k)).
    { apply nth_ext with (d := (pd, 0, 0)) (d' := (nth 0 ps pd, nth 0 starts 0, nth 0 lens 0)).
      - rewrite !combine_length, map_length, seq_length. unfold starts. rewrite starts_from_length, Hl. fold k. lia.
      - intros n Hn. rewrite !combine_length in Hn. unfold starts in Hn. rewrite starts_from_length, Hl in Hn. fold k in Hn.
        rewrite !combine_nth by (rewrite ?combine_length; unfold starts; rewrite ?starts_from_length, ?Hl; fold k; lia).
        change (nth 0 ps pd, nth 0 starts 0, nth 0 lens 0)
          with ((fun j => (nth j ps pd, nth j starts 0, nth j lens 0)) 0%nat).
        rewrite map_nth. rewrite seq_nth by lia. reflexivity. }
    rewrite HCmb, mapM_map in HM.
    assert (HF : Forall2 (fun j c => a_dtype c = dt /\ a_nd c = mk_nd (zlen (Pos j) :: take_shape S) (Node (map (row CH S) (Pos j))))
                         (seq 0 k) chunks).
    { eapply mapM_Forall2_rel; [exact HM|]. intros j c Hin Hc. apply in_seq in Hin.
      assert (Hj : (j < k)%nat) by lia.
      unfold mask_chunk in Hc. cbn [fst snd] in Hc.
      assert (Hoff : nth j starts 0 = bnd lens j).
      { unfold starts. rewrite starts_from_nth by (rewrite Hl; exact Hj). lia. }
      rewrite Hoff in Hc. rewrite <- bnd_S in Hc by (rewrite Hl; exact Hj).
      destruct (part_get dt (nth j ps pd) _) as [sub|] eqn:EG; [|discriminate]. cbn [bind] in Hc.
      unfold reshape_chunk in Hc. injection Hc as <-.
      destruct (part_rows ps fs T dt tail S HP HT HS Hlen _ pd _ _ Hj EG) as [Pq [d [ER [HD [HN _]]]]].
      fold lens in ER, HN. fold CH in HN.
      cbn [resolve] in ER. destruct (zlen _ =? _); [|discriminate]. injection ER as <- <-.
      split; [exact HD|]. rewrite HN. cbn [take_shape]. fold (Pos j). f_equal. f_equal.
      unfold Pos. now rewrite zlen_map. }
    pose proof (chunks_rows fs dt S Pos _ _ _ HF HC) as ->.
    rewrite (mask_telescope k 0 ltac:(lia)). rewrite bnd_0. cbn [Nat.add].
    assert (bnd lens k = total) by (unfold total; rewrite <- Hl; apply bnd_all).
    assert (HZ : zslice m 0 (bnd lens k) = m).
    { unfold zslice. cbn [Z.to_nat skipn]. rewrite H, <- Hm, Z.sub_0_r. unfold zlen. rewrite Nat2Z.id. apply firstn_all. }
    rewrite HZ. fold (nonzero m).
    split; [reflexivity|]. cbn [a_nd take_shape]. rewrite take_node. reflexivity.
  Qed.
End MaskBranch.

(* ------------------------------------------------------------------ 8. integer-list head *)

Lemma select_map_In {A} (f : A -> bool) : forall l x, In x (select (map f l) l) -> f x = true /\ In x l.
Proof.
  induction l as [|y r IH]; intros x H; cbn in H; [contradiction|].
  destruct (f y) eqn:E.
  - destruct H as [<-|H]; [split; [exact E|now left]|]. destruct (IH x H). split; [assumption|now right].
  - destruct (IH x H). split; [assumption|now right].
Qed.

Lemma local_list_positions h off : forall sel Pq, Forall (fun x => off <= x) sel ->
  mapM (wrap_res h) (map (fun x => x - off) sel) = Ok Pq -> map (fun q => off + q) Pq = sel.
Proof.
  induction sel as [|x r IH]; intros Pq Hs H; cbn in H.
  - injection H as <-. reflexivity.
  - inversion Hs as [|? ? Hx Hr]; subst. unfold wrap_res at 1 in H.
    destruct (wrap h (x - off)) as [q|] eqn:W; [|discriminate]. cbn [bind] in H.
    destruct (mapM (wrap_res h) (map (fun x0 => x0 - off) r)) as [Pr|] eqn:E; [|discriminate]. cbn [bind] in H.
    injection H as <-. assert (Hnn : 0 <= x - off) by lia. destruct (wrap_nonneg _ _ _ Hnn W) as [-> _].
    cbn [map]. rewrite (IH Pr Hr eq_refl). f_equal. lia.
Qed.

Lemma wrap_all_norm total : forall l P, mapM (wrap_res total) l = Ok P ->
  P = map (fun z => if z <? 0 then z + total else z) l /\ Forall (fun x => 0 <= x) P.
Proof.
  induction l as [|z r IH]; intros P H; cbn in H.
  - injection H as <-. split; [reflexivity|constructor].
  - unfold wrap_res at 1 in H. destruct (wrap total z) as [p|] eqn:W; [|discriminate]. cbn [bind] in H.
    destruct (mapM (wrap_res total) r) as [Pr|] eqn:E; [|discriminate]. cbn [bind] in H. injection H as <-.
    destruct (IH Pr eq_refl) as [-> HF]. destruct (wrap_norm _ _ _ W) as [-> Hr].
    split; [reflexivity|]. constructor; [lia|exact HF].
Qed.

Section ListBranch.
  Context (ps : list cpart) (fs : list nd) (T : list Z) (dt : Z) (tail : list aidx) (S : list sel).
  Context (HP : Forall2 (part_ok T dt) ps fs).
  Context (HT : List.length tail = List.length T).
  Context (HS : mapM (fun p => resolve (fst p) (snd p)) (combine T tail) = Ok S).
  Context (Hne : ps <> []).
  Context (Hlen : Forall (fun p => 0 <= part_len p) ps).

  Let lens := map part_len ps.
  Let starts := starts_from 0 lens.
  Let CH := List.concat (map (fun f => children (nd_body f)) fs).
  Let total := zsum lens.
  Let k := List.length ps.
  Let LN : Forall (fun h => 0 <= h) lens := lens_nonneg ps Hlen.
  Let R := row CH S.

  Definition filled (o : option tree) (x : Z) : Prop := o = None \/ o = Some (R x).

  Lemma scatter_inv ind : forall out inds xs out',
    List.length inds = List.length xs ->
    scatter out inds ind (map R (select (map (fun i => i =? ind) inds) xs)) = Ok out' ->
    Forall2 filled out xs -> Forall2 filled out' xs.
  Proof.
    induction out as [|o out IH]; intros inds xs out' HL HSc HF.
    - inversion HF; subst. destruct inds; [|discriminate]. cbn in HSc. injection HSc as <-. constructor.
    - inversion HF as [|? x ? xs' Ho HF']; subst. destruct inds as [|i inds]; [discriminate|].
      cbn [map select scatter] in HSc. destruct (i =? ind) eqn:E.
      + cbn [map] in HSc.
        destruct (scatter out inds ind _) as [t|] eqn:ET; [|discriminate]. cbn [bind] in HSc. injection HSc as <-.
        constructor; [right; reflexivity|]. eapply IH; [|exact ET|exact HF']. cbn in HL. lia.
      + destruct (scatter out inds ind _) as [t|] eqn:ET; [|discriminate]. cbn [bind] in HSc. injection HSc as <-.
        constructor; [exact Ho|]. eapply IH; [|exact ET|exact HF']. cbn in HL. lia.
  Qed.

  Context (xs : list Z) (Hxs : Forall (fun x => 0 <= x) xs).
  Let inds := map (find_indexer starts) xs.

  Lemma scatter_parts_inv : forall n i out out', (i + n = k)%nat ->
    scatter_parts dt (skipn i ps) (Z.of_nat i) (skipn i starts) xs inds tail out = Ok out' ->
    Forall2 filled out xs -> Forall2 filled out' xs.
  Proof.
    assert (Hl : List.length lens = k) by (unfold lens, k; apply map_length).
    assert (LE : lens <> []) by (unfold lens; destruct ps; [congruence|discriminate]).
    set (pd := mk_cpart (mk_lazyidx [] [] [] 0) (Leaf 0)).
    induction n as [|n IH]; intros i out out' Hi HSP HF.
    - rewrite skipn_all2 in HSP by (fold k; lia). cbn in HSP. now injection HSP as <-.
    - assert (Hik : (i < k)%nat) by lia.
      rewrite (skipn_nth_cons ps i pd) in HSP by exact Hik.
      rewrite (skipn_nth_cons starts i 0) in HSP by (unfold starts; rewrite starts_from_length, Hl; exact Hik).
      cbn [scatter_parts] in HSP. unfold concat_local_list in HSP.
      assert (Hoff : nth i starts 0 = bnd lens i).
      { unfold starts. rewrite starts_from_nth by (rewrite Hl; exact Hik). lia. }
      rewrite Hoff in HSP.
      set (mask := map (fun j => j =? Z.of_nat i) inds) in *.
      assert (Hstep : exists out1, (if existsb (fun b => b) mask
                       then sub <- part_get dt (nth i ps pd) (AList (map (fun z => z - bnd lens i) (select mask xs)) :: tail) ;;
                            scatter out inds (Z.of_nat i) (children (nd_body (a_nd sub)))
                       else Ok out) = Ok out1 /\
                     scatter_parts dt (skipn (Datatypes.S i) ps) (Z.of_nat i + 1) (skipn (Datatypes.S i) starts) xs inds tail out1 = Ok out').
      { destruct (if existsb (fun b => b) mask then _ else _) as [out1|]; [|discriminate]. eauto. }
      destruct Hstep as [out1 [H1 H2]].
      replace (Z.of_nat i + 1) with (Z.of_nat (Datatypes.S i)) in H2 by lia.
      apply (IH (Datatypes.S i) out1 out' ltac:(lia) H2).
      destruct (existsb (fun b => b) mask); [|now injection H1 as <-].
      destruct (part_get dt (nth i ps pd) _) as [sub|] eqn:EG; [|discriminate]. cbn [bind] in H1.
      destruct (part_rows ps fs T dt tail S HP HT HS Hlen _ pd _ _ Hik EG) as [Pq [d [ER [_ [HN _]]]]].
      fold lens in ER, HN. fold CH in HN.
      cbn [resolve] in ER. destruct (mapM (wrap_res _) _) as [Pq'|] eqn:EW; [|discriminate].
      cbn [bind] in ER. injection ER as <- <-.
      assert (Hsel : Forall (fun x => bnd lens i <= x) (select mask xs)).
      { apply Forall_forall. intros x Hx. unfold mask, inds in Hx. rewrite map_map in Hx.
        apply select_map_In in Hx. destruct Hx as [Hfi Hin].
        rewrite Forall_forall in Hxs. specialize (Hxs x Hin).
        destruct (find_indexer_spec lens x LN LE Hxs) as [_ [B2 _]]. fold starts in B2.
        replace (Z.to_nat (find_indexer starts x)) with i in B2 by lia. exact B2. }
      pose proof (local_list_positions _ _ _ _ Hsel EW) as LP.
      rewrite HN in H1. cbn [nd_body children] in H1. rewrite LP in H1.
      apply (scatter_inv (Z.of_nat i) out inds xs out1); [unfold inds; apply map_length|exact H1|exact HF].
  Qed.

  Lemma filled_all : forall rows ys rows', Forall2 filled rows ys ->
    mapM (fun o => match o with Some t => Ok t | None => Err end) rows = Ok rows' -> rows' = map R ys.
  Proof.
    induction rows as [|o r IH]; intros ys rows' HF H; inversion HF as [|? y ? ys' Ho HF']; subst; cbn in H.
    - now injection H as <-.
    - destruct o as [t|]; [|discriminate]. cbn [bind] in H.
      destruct (mapM _ r) as [r'|] eqn:E; [|discriminate]. cbn [bind] in H. injection H as <-.
      destruct Ho as [Ho|Ho]; [discriminate|]. injection Ho as ->. cbn [map]. f_equal. eapply IH; eauto.
  Qed.
End ListBranch.

Lemma head_list ps fs T dt tail S l out :
  Forall2 (part_ok T dt) ps fs -> List.length tail = List.length T ->
  mapM (fun p => resolve (fst p) (snd p)) (combine T tail) = Ok S ->
  ps <> [] -> Forall (fun p => 0 <= part_len p) ps ->
  c_head ps dt (zsum (map part_len ps)) S (AList l) tail = Ok out ->
  exists hs, resolve (zsum (map part_len ps)) (AList l) = Ok hs /\ head_result fs dt S out hs.
Proof.
  intros HP HT HS Hne Hlen HC. cbn [c_head] in HC.
  set (total := zsum (map part_len ps)) in *.
  destruct (mapM (wrap_res total) l) as [P|] eqn:EW; [|discriminate]. cbn [bind] in HC.
  destruct (wrap_all_norm _ _ _ EW) as [HPn HPos].
  unfold concat_norm_list in HC. rewrite <- HPn in HC.
  destruct (scatter_parts _ _ _ _ _ _ _) as [rows|] eqn:ESP in HC; [|discriminate]. cbn [bind] in HC.
  destruct (mapM _ rows) as [rows'|] eqn:ER in HC; [|discriminate]. cbn [bind] in HC. injection HC as <-.
  assert (HF0 : Forall2 (filled fs S) (repeat None (List.length l)) P).
  { apply mapM_ok_length in EW. rewrite <- EW. clear. induction P; cbn; constructor; auto. now left. }
  pose proof (scatter_parts_inv ps fs T dt tail S HP HT HS Hne Hlen P HPos (List.length ps) 0 _ _ eq_refl ESP HF0) as HF.
  pose proof (filled_all fs S _ _ _ HF ER) as ->.
  exists (P, false). split; [cbn [resolve]; rewrite EW; reflexivity|].
  split; [reflexivity|]. cbn [a_nd take_shape]. rewrite take_node. f_equal. f_equal.
  apply mapM_ok_length in EW. unfold zlen. now rewrite EW.
Qed.

(* ------------------------------------------------------------------ 6. assembly *)

Section Core.
  Context (ps : list cpart) (fs : list nd) (T : list Z) (dt : Z).
  Context (HP : Forall2 (part_ok T dt) ps fs).
  Context (Hne : ps <> []).
  Context (Hlen : Forall (fun p => 0 <= part_len p) ps).

  Let lens := map part_len ps.
  Let CH := List.concat (map (fun f => children (nd_body f)) fs).
  Let total := zsum lens.

  Lemma head_all tail S head out0 : List.length tail = List.length T ->
    mapM (fun p => resolve (fst p) (snd p)) (combine T tail) = Ok S ->
    c_head ps dt total S head tail = Ok out0 ->
    exists hs, resolve total head = Ok hs /\ head_result fs dt S out0 hs.
  Proof.
    intros HT HS HC. destruct head as [z|a b cc|m|l].
    - exact (head_scalar ps fs T dt tail S HP HT HS Hne Hlen z out0 HC).
    - cbn [c_head] in HC. fold lens in HC. fold total in HC.
      destruct (slice_indices total a b cc) as [[[start stop] st]|] eqn:ESI; [|discriminate].
      unfold concat_stride_rejected, concat_first_indexer, concat_end_indexer in HC.
      destruct (st <? 0) eqn:Est; [discriminate|].
      assert (Htot : 0 <= total).
      { unfold total. pose proof (lens_nonneg ps Hlen) as LN. fold lens in LN. clear -LN.
        induction LN; cbn; [lia|]. fold (zsum l). lia. }
      destruct (slice_indices_bounds _ _ _ _ _ _ _ Htot ESI) as [H0 [Bp _]].
      specialize (Bp ltac:(lia)).
      (* repair of F10: the loop runs with stop' = max(start, stop); both give the same (possibly empty) progression *)
      unfold concat_slice_stop in HC. set (stop' := Z.max start stop) in HC.
      destruct (slice_chunks _ _ _ _ _ _ _ _ _ _) as [chunks|] eqn:EM in HC; [|discriminate]. cbn [bind] in HC.
      exists (py_range start stop st, false). split.
      + cbn [resolve]. unfold slice_positions. now rewrite ESI.
      + assert (Hst : 0 < st) by lia.
        assert (Bp' : 0 <= stop' <= total) by (unfold stop'; lia).
        assert (EQ : py_range start stop' st = py_range start stop st).
        { unfold stop'. destruct (Z_le_gt_dec start stop) as [Hle|Hgt].
          - now rewrite Z.max_r by lia.
          - rewrite Z.max_l by lia. rewrite !py_range_nil by lia. reflexivity. }
        rewrite <- EQ.
        exact (head_slice_chunks ps fs T dt tail S HP HT HS Hne Hlen start stop' st Hst (proj1 Bp) Bp' chunks out0 EM HC).
    - cbn [c_head] in HC. fold lens in HC. fold total in HC.
      destruct (zlen m =? total) eqn:EL; [|discriminate].
      destruct (mapM _ _) as [chunks|] eqn:EM in HC; [|discriminate]. cbn [bind] in HC.
      exists (nonzero m, false). split.
      + cbn [resolve]. now rewrite EL.
      + assert (Hm : zlen m = total) by lia.
        exact (head_mask_chunks ps fs T dt tail S HP HT HS Hlen m Hm chunks out0 EM HC).
    - exact (head_list ps fs T dt tail S l out0 HP HT HS Hne Hlen HC).
  Qed.

  Lemma concat_core ts ixs out :
    c_initial_dtype ps = Ok dt ->
    c_getitem (mk_concat ps ts) ixs = Ok out ->
    (r <- oindex (mk_nd (total :: T) (Node CH)) ixs ;; apply_transforms ts (mk_arr dt r)) = Ok out.
  Proof.
    intros Hdt HG. unfold c_getitem in HG. cbn [c_parts c_ts] in HG.
    assert (HI : c_initial_shape ps = Ok (total :: T) \/ c_initial_shape ps = Err).
    { unfold c_initial_shape. destruct ps as [|p r] eqn:EP; [now right|].
      destruct (forallb _ r); [left|now right]. inversion HP as [|? f ? fs' H0 _]; subst.
      destruct H0 as [_ [Ht _]]. rewrite Ht. reflexivity. }
    destruct HI as [HI|HI]; rewrite HI in HG; [|discriminate]. cbn [bind] in HG.
    rewrite Hdt in HG. cbn [bind List.length] in HG.
    destruct (pad_to (Datatypes.S (List.length T)) ixs) as [|head tail] eqn:EPad; [discriminate|].
    assert (HT : List.length tail = List.length T).
    { pose proof (pad_to_length (Datatypes.S (List.length T)) ixs) as PL. rewrite EPad in PL. cbn in PL. lia. }
    destruct (mapM _ (combine T tail)) as [S|] eqn:ES in HG; [|discriminate]. cbn [bind] in HG.
    destruct (c_head ps dt total S head tail) as [out0|] eqn:EH; [|discriminate]. cbn [bind] in HG.
    destruct (head_all tail S head out0 HT ES EH) as [hs [ER [HD HN]]].
    unfold oindex, resolve_all. cbn [nd_shape nd_body List.length]. rewrite EPad.
    cbn [combine mapM fst snd]. rewrite ER. cbn [bind]. rewrite ES. cbn [bind].
    destruct out0 as [d0 n0]. cbn [a_dtype a_nd] in HD, HN. subst d0 n0. exact HG.
  Qed.
  (* shape / dtype / len of the full result through the transform chain *)
  Lemma concat_core_shape ts out s d : Forall (fun x => 0 <= x) T ->
    c_initial_dtype ps = Ok dt ->
    c_getitem (mk_concat ps ts) [] = Ok out ->
    c_shape (mk_concat ps ts) = Ok s -> c_dtype (mk_concat ps ts) = Ok d ->
    nd_shape (a_nd out) = s /\ a_dtype out = d /\ hd 0 s = total.
  Proof.
    intros HTn Hdt HG HS HD.
    pose proof (concat_core ts [] out Hdt HG) as CC.
    assert (Htot : 0 <= total).
    { unfold total. pose proof (lens_nonneg ps Hlen) as LN. fold lens in LN. clear -LN.
      induction LN; cbn; [lia|]. fold (zsum l). lia. }
    unfold oindex in CC. cbn [nd_shape nd_body] in CC.
    rewrite resolve_all_nil in CC by (constructor; assumption). cbn [bind] in CC.
    destruct (apply_transforms_shape_dtype _ _ _ CC) as [S1 D1]. cbn [a_nd a_dtype nd_shape] in S1, D1.
    rewrite take_shape_full_sels in S1 by (constructor; assumption).
    unfold c_shape in HS. cbn [c_parts c_ts] in HS.
    assert (HI : c_initial_shape ps = Ok (total :: T)).
    { unfold c_getitem in HG. cbn [c_parts] in HG. unfold c_initial_shape in *. destruct ps as [|p r] eqn:EP; [discriminate|].
      destruct (forallb _ r); [|discriminate]. inversion HP as [|? f ? fs' H0 _]; subst.
      destruct H0 as [_ [Ht _]]. rewrite Ht. reflexivity. }
    rewrite HI in HS. cbn [bind] in HS. rewrite <- S1 in HS.
    destruct (negb _ && is_prefix _ _) eqn:EC in HS; [|discriminate]. injection HS as <-.
    unfold c_dtype in HD. cbn [c_parts c_ts] in HD. rewrite Hdt in HD. cbn [bind] in HD. injection HD as <-.
    split; [reflexivity|]. split; [exact D1|].
    apply andb_prop in EC. destruct EC as [EN EC]. cbn [List.length firstn] in EC, EN.
    destruct (nd_shape (a_nd out)) as [|x l]; [discriminate EN|]. cbn [firstn is_prefix hd] in *.
    apply andb_prop in EC. destruct EC as [EC _]. lia.
  Qed.
End Core.


(* ------------------------------------------------------------------ 9. from the constructor to the core statement *)

Definition used_of {A} (nz : A -> bool) (l : list A) : list A :=
  match filter nz l with [] => firstn 1 l | _ :: _ => filter nz l end.

Lemma filter_sum {A} (w : A -> Z) nz : forall l, (forall a, In a l -> nz a = false -> w a = 0) ->
  zsum (map w (filter nz l)) = zsum (map w l).
Proof.
  induction l as [|a r IH]; intro H; [reflexivity|]. cbn [filter].
  assert (Hr : forall a0, In a0 r -> nz a0 = false -> w a0 = 0) by (intros; apply H; [now right|assumption]).
  destruct (nz a) eqn:E; cbn [map zsum fold_right].
  - fold (zsum (map w (filter nz r))). fold (zsum (map w r)). now rewrite IH.
  - fold (zsum (map w r)). rewrite (H a (or_introl eq_refl) E). rewrite IH by assumption. lia.
Qed.

Lemma used_sum {A} (w : A -> Z) nz l : (forall a, In a l -> nz a = false -> w a = 0) ->
  zsum (map w (used_of nz l)) = zsum (map w l).
Proof.
  intro H. unfold used_of. pose proof (filter_sum w nz l H) as FS.
  destruct (filter nz l) as [|x ne] eqn:E; [|exact FS].
  cbn in FS. rewrite <- FS. destruct l as [|a r]; [reflexivity|]. cbn [firstn map zsum fold_right].
  cbn [filter] in E. destruct (nz a) eqn:Ea; [discriminate|]. rewrite (H a (or_introl eq_refl) Ea). reflexivity.
Qed.

Lemma filter_concat {A B} (g : A -> list B) nz : forall l, (forall a, In a l -> nz a = false -> g a = []) ->
  List.concat (map g (filter nz l)) = List.concat (map g l).
Proof.
  induction l as [|a r IH]; intro H; [reflexivity|]. cbn [filter].
  assert (Hr : forall a0, In a0 r -> nz a0 = false -> g a0 = []) by (intros; apply H; [now right|assumption]).
  destruct (nz a) eqn:E; cbn [map List.concat].
  - now rewrite IH.
  - rewrite (H a (or_introl eq_refl) E). now rewrite IH.
Qed.

Lemma used_concat {A B} (g : A -> list B) nz l : (forall a, In a l -> nz a = false -> g a = []) ->
  List.concat (map g (used_of nz l)) = List.concat (map g l).
Proof.
  intro H. unfold used_of. pose proof (filter_concat g nz l H) as FS.
  destruct (filter nz l) as [|x ne] eqn:E; [|exact FS].
  cbn in FS. rewrite <- FS. destruct l as [|a r]; [reflexivity|]. cbn [firstn map List.concat].
  cbn [filter] in E. destruct (nz a) eqn:Ea; [discriminate|]. rewrite (H a (or_introl eq_refl) Ea). reflexivity.
Qed.

Lemma Forall2_impl' {A B} (P Q : A -> B -> Prop) l1 l2 : (forall a b, P a b -> Q a b) -> Forall2 P l1 l2 -> Forall2 Q l1 l2.
Proof. intros H. induction 1; constructor; auto. Qed.

Lemma Forall2_in_r {A B} (Rel : A -> B -> Prop) l1 l2 b : Forall2 Rel l1 l2 -> In b l2 -> exists a, Rel a b.
Proof. induction 1 as [|x y ? ? H _ IH]; intro Hin; [contradiction|]. destruct Hin as [<-|Hin]; eauto. Qed.

Lemma Forall2_filter {A B} (Rel : A -> B -> Prop) (f : A -> bool) (g : B -> bool) l1 l2 :
  Forall2 (fun a b => Rel a b /\ f a = g b) l1 l2 -> Forall2 Rel (filter f l1) (filter g l2).
Proof.
  induction 1 as [|a b l1 l2 [HR He] _ IH]; [constructor|]. cbn [filter]. rewrite <- He.
  destruct (f a); [constructor; assumption|assumption].
Qed.

Lemma used_Forall2 {A B} (Rel : A -> B -> Prop) (f : A -> bool) (g : B -> bool) l1 l2 :
  Forall2 (fun a b => Rel a b /\ f a = g b) l1 l2 -> Forall2 Rel (used_of f l1) (used_of g l2).
Proof.
  intro H. pose proof (Forall2_filter Rel f g l1 l2 H) as HF. unfold used_of.
  destruct HF as [|a b r1 r2 H1 H2]; [|constructor; assumption].
  destruct H as [|a b l1 l2 [HR _] _]; cbn; constructor; [exact HR|constructor].
Qed.

Lemma list_eqb_eq : forall a b, list_eqb a b = true -> a = b.
Proof.
  induction a as [|x a IH]; intros [|y b] H; cbn in H; try discriminate; [reflexivity|].
  apply andb_prop in H. destruct H as [H1 H2]. f_equal; [lia|now apply IH].
Qed.

Definition raw_ok (r : craw) : Prop :=
  Forall (fun d => 0 <= d) (r_shape r) /\ r_shape r <> [].

(* q = (first-stage result, dtype) of the raw part that p was built from *)
Definition PF (p : cpart) (q : nd * Z) : Prop :=
  part_ok0 (tl (nd_shape (fst q))) p (fst q) /\ 0 <= part_len p /\ part_len p = hd 0 (nd_shape (fst q))
  /\ part_dtype p = snd q.

Lemma parts_fulls : forall raws psA fulls, Forall raw_ok raws ->
  mapM (fun r => li <- mk_lazy (r_shape r) (r_keep r) [] (r_dt r) ;; Ok (mk_cpart li (r_ds r))) raws = Ok psA ->
  mapM (fun r => oindex_keep (mk_nd (r_shape r) (r_ds r)) (r_keep r)) raws = Ok fulls ->
  Forall2 PF psA (combine fulls (map r_dt raws)).
Proof.
  induction raws as [|r raws IH]; intros psA fulls HR HM HF; cbn in HM, HF.
  - injection HM as <-. injection HF as <-. constructor.
  - inversion HR as [|? ? [R1 R2] HR']; subst.
    destruct (mk_lazy _ _ _ _) as [li|] eqn:EL; [|discriminate]. cbn [bind] in HM.
    destruct (mapM _ raws) as [ps'|] eqn:EM in HM; [|discriminate]. cbn [bind] in HM. injection HM as <-.
    destruct (oindex_keep _ _) as [a1|] eqn:EO; [|discriminate]. cbn [bind] in HF.
    destruct (mapM _ raws) as [fs'|] eqn:EF in HF; [|discriminate]. cbn [bind] in HF. injection HF as <-.
    cbn [map combine]. constructor; [|apply IH; auto].
    destruct (part_ok_of_raw r li a1 R1 R2 EL EO) as [PO PL].
    destruct (mk_lazy_fields _ _ _ _ _ _ _ R1 EL EO) as [_ [_ [_ [F4 _]]]].
    unfold PF. cbn [fst snd]. split; [exact PO|]. split; [exact PL|]. split; [|exact F4].
    destruct PO as [Hsh _]. rewrite Hsh. reflexivity.
Qed.

Lemma c_mk_used raws ts c : c_mk raws ts = Ok c ->
  exists psA, mapM (fun r => li <- mk_lazy (r_shape r) (r_keep r) [] (r_dt r) ;; Ok (mk_cpart li (r_ds r))) raws = Ok psA
    /\ c = mk_concat (used_of (fun p => negb (part_len p =? 0)) psA) ts.
Proof.
  unfold c_mk. destruct (mapM _ raws) as [psA|]; [|discriminate]. cbn [bind]. cbv zeta.
  destruct (c_shape _); [|discriminate]. cbn [bind]. destruct (c_dtype _); [|discriminate]. cbn [bind].
  intro H. injection H as <-. exists psA. split; [reflexivity|]. unfold used_of. reflexivity.
Qed.

Lemma combine_map_fst {A B} : forall (l : list A) (l' : list B), List.length l = List.length l' -> map fst (combine l l') = l.
Proof. induction l as [|x l IH]; intros [|y l'] H; cbn in *; try discriminate; [reflexivity|]. f_equal. apply IH. lia. Qed.

Lemma Forall2_map_r {A B C} (g : B -> C) (Rel : A -> C -> Prop) l ys :
  Forall2 (fun x y => Rel x (g y)) l ys -> Forall2 Rel l (map g ys).
Proof. induction 1; cbn; constructor; auto. Qed.

(* C05_concat: for every list of raw parts (any number, some empty, each with its own first stage AND its own dtype),
   every index tuple and every transform chain: if the indexer could be constructed (dtypes all equal or all byte
   strings) and answers, the answer is the same index applied to np.concatenate of the parts' first-stage results,
   then the transforms -- values, shape, and dtype = numpy's promotion of the parts' dtypes. *)
Lemma concat_correct raws ts ix c out fulls :
  Forall raw_ok raws ->
  mapM (fun r => oindex_keep (mk_nd (r_shape r) (r_ds r)) (r_keep r)) raws = Ok fulls ->
  c_mk raws ts = Ok c -> c_getitem c ix = Ok out ->
  spec_concat raws ts ix = Ok out.
Proof.
  intros HR HFu HM HG. destruct (c_mk_used _ _ _ HM) as [psA [EP ->]].
  pose proof (parts_fulls raws psA fulls HR EP HFu) as HPF.
  set (fd := combine fulls (map r_dt raws)) in *.
  set (nzp := fun p : cpart => negb (part_len p =? 0)) in *.
  set (nzq := fun q : nd * Z => negb (hd 0 (nd_shape (fst q)) =? 0)).
  assert (Hfst : map fst fd = fulls).
  { unfold fd. apply combine_map_fst. rewrite map_length. exact (mapM_ok_length _ _ _ HFu). }
  assert (HU : Forall2 PF (used_of nzp psA) (used_of nzq fd)).
  { apply used_Forall2. eapply Forall2_impl'; [|exact HPF]. intros p q H. split; [exact H|].
    destruct H as [_ [_ [H _]]]. unfold nzp, nzq. now rewrite H. }
  (* the dropped parts carry no rows *)
  assert (HW : zsum (map part_len (used_of nzp psA)) = zsum (map (fun a => hd 0 (nd_shape a)) fulls)).
  { rewrite <- Hfst, map_map. rewrite <- (used_sum (fun q : nd * Z => hd 0 (nd_shape (fst q))) nzq fd).
    - clear -HU. induction HU as [|p f l l' H _ IH]; [reflexivity|]. cbn [map zsum fold_right].
      fold (zsum (map part_len l)). fold (zsum (map (fun q : nd * Z => hd 0 (nd_shape (fst q))) l')). rewrite IH.
      destruct H as [_ [_ [H _]]]. now rewrite H.
    - intros a _ Ha. unfold nzq in Ha. lia. }
  assert (HC : List.concat (map (fun f => children (nd_body f)) (map fst (used_of nzq fd)))
               = List.concat (map (fun f => children (nd_body f)) fulls)).
  { rewrite <- Hfst, !map_map. apply used_concat. intros a Hin Ha. unfold nzq in Ha.
    destruct (Forall2_in_r _ _ _ _ HPF Hin) as [p [[_ [_ [[ch [Hb Hl]] _]]] [_ [Hlen _]]]].
    rewrite Hb. cbn [children]. destruct ch; [reflexivity|]. rewrite zlen_cons in Hl. pose proof (zlen_nonneg ch). lia. }
  (* the indexer answered: tails agree and the dtypes have a common dtype d0 *)
  remember (used_of nzp psA) as used eqn:EU. remember (used_of nzq fd) as fused eqn:EFu.
  assert (HG' := HG). unfold c_getitem in HG'. cbn [c_parts c_ts] in HG'.
  destruct (c_initial_shape used) as [init|] eqn:EI; [|discriminate]. cbn [bind] in HG'.
  destruct (c_initial_dtype used) as [d0|] eqn:ED; [|discriminate]. clear HG'.
  destruct HU as [|p0 q0 ur qr HP0 HUr]; [discriminate|].
  set (T := part_tail p0).
  unfold c_initial_shape in EI. destruct (forallb _ ur) eqn:EB in EI; [|discriminate]. clear EI init.
  unfold c_initial_dtype in ED. destruct (common_dtype_spec _ _ ED) as [HLe HPr].
  assert (HDs : map part_dtype (p0 :: ur) = map snd (q0 :: qr)).
  { cbn [map]. f_equal; [destruct HP0 as [_ [_ [_ H]]]; exact H|]. clear -HUr.
    induction HUr as [|q f ? ? H _ IH]; [reflexivity|]. cbn [map]. f_equal; [|exact IH]. destruct H as [_ [_ [_ H]]]. exact H. }
  assert (HPO : Forall2 (part_ok T d0) (p0 :: ur) (map fst (q0 :: qr))).
  { apply Forall2_map_r. cbn [map] in HLe. pose proof (Forall_inv HLe) as HLe0. pose proof (Forall_inv_tail HLe) as HLer. constructor.
    - destruct HP0 as [PO _]. assert (E : tl (nd_shape (fst q0)) = T) by (destruct PO as [_ [E _]]; now rewrite <- E).
      rewrite E in PO. now apply part_ok_upgrade.
    - rewrite forallb_forall in EB. clear -HUr EB HLer. revert HLer. induction HUr as [|q f ur' fr' H _ IH]; intro HLer; [constructor|].
      cbn [map] in HLer. pose proof (Forall_inv HLer) as HLq. pose proof (Forall_inv_tail HLer) as HLr.
      constructor; [|apply IH; [intros x Hx; apply EB; now right|exact HLr]].
      destruct H as [PO _]. specialize (EB q ltac:(now left)). apply list_eqb_eq in EB.
      assert (E : tl (nd_shape (fst f)) = part_tail p0) by (destruct PO as [_ [E _]]; now rewrite <- E, <- EB).
      rewrite E in PO. now apply part_ok_upgrade. }
  assert (HL : Forall (fun p => 0 <= part_len p) (p0 :: ur)).
  { constructor; [destruct HP0 as [_ [H _]]; exact H|]. clear -HUr.
    induction HUr as [|q f ? ? H _ IH]; constructor; auto. destruct H as [_ [H _]]. exact H. }
  pose proof (concat_core (p0 :: ur) (map fst (q0 :: qr)) T d0 HPO ltac:(discriminate) HL ts ix out ED HG) as CC.
  (* the spec side *)
  unfold spec_concat. rewrite HFu. cbn [bind]. fold fd.
  change (match filter (fun q : nd * Z => negb (hd 0 (nd_shape (fst q)) =? 0)) fd with
          | [] => firstn 1 fd | _ :: _ => filter (fun q : nd * Z => negb (hd 0 (nd_shape (fst q)) =? 0)) fd end)
    with (used_of nzq fd). rewrite <- EFu.
  assert (ET : tl (nd_shape (fst q0)) = T) by (destruct HP0 as [[_ [E _]] _]; now rewrite <- E).
  destruct q0 as [a0 dq0]. cbn [fst snd map] in *.
  rewrite <- HDs, HPr. cbn [bind].
  rewrite <- HW. unfold cat. rewrite flat_map_concat_map, map_map. rewrite <- HC.
  rewrite ET. exact CC.
Qed.

Lemma take_shape_nonneg : forall sels, Forall (fun x => 0 <= x) (take_shape sels).
Proof. induction sels as [|[ps d] r IH]; cbn [take_shape]; [constructor|]. destruct d; [exact IH|]. constructor; [apply zlen_nonneg|exact IH]. Qed.

Lemma oindex_keep_shape_nonneg a ix f : oindex_keep a ix = Ok f -> Forall (fun x => 0 <= x) (nd_shape f).
Proof.
  unfold oindex_keep. destruct (keep_sels _ _); [|discriminate]. cbn [bind]. intro H; injection H as <-. apply take_shape_nonneg.
Qed.

Lemma used_of_incl {A} (nz : A -> bool) l x : In x (used_of nz l) -> In x l.
Proof.
  unfold used_of. destruct (filter nz l) eqn:E.
  - destruct l; cbn; [tauto|]. intros [<-|[]]. now left.
  - rewrite <- E. intro H. apply filter_In in H. tauto.
Qed.

(* C05_concat_shape_dtype: the shape / dtype properties of the concatenated indexer and its len() are those of c[:];
   the length is the sum of the lengths of ALL parts (parts without rows contribute nothing) *)
Lemma concat_shape_dtype raws ts c out fulls s d :
  Forall raw_ok raws ->
  mapM (fun r => oindex_keep (mk_nd (r_shape r) (r_ds r)) (r_keep r)) raws = Ok fulls ->
  c_mk raws ts = Ok c -> c_getitem c [] = Ok out ->
  c_shape c = Ok s -> c_dtype c = Ok d ->
  nd_shape (a_nd out) = s /\ a_dtype out = d /\ hd 0 s = zsum (map (fun a => hd 0 (nd_shape a)) fulls).
Proof.
  intros HR HFu HM HG HSh HDt. destruct (c_mk_used _ _ _ HM) as [psA [EP ->]].
  pose proof (parts_fulls raws psA fulls HR EP HFu) as HPF.
  set (fd := combine fulls (map r_dt raws)) in *.
  set (nzp := fun p : cpart => negb (part_len p =? 0)) in *.
  set (nzq := fun q : nd * Z => negb (hd 0 (nd_shape (fst q)) =? 0)).
  assert (Hfst : map fst fd = fulls).
  { unfold fd. apply combine_map_fst. rewrite map_length. exact (mapM_ok_length _ _ _ HFu). }
  assert (HU : Forall2 PF (used_of nzp psA) (used_of nzq fd)).
  { apply used_Forall2. eapply Forall2_impl'; [|exact HPF]. intros p q H. split; [exact H|].
    destruct H as [_ [_ [H _]]]. unfold nzp, nzq. now rewrite H. }
  assert (HW : zsum (map part_len (used_of nzp psA)) = zsum (map (fun a => hd 0 (nd_shape a)) fulls)).
  { rewrite <- Hfst, map_map. rewrite <- (used_sum (fun q : nd * Z => hd 0 (nd_shape (fst q))) nzq fd).
    - clear -HU. induction HU as [|p f l l' H _ IH]; [reflexivity|]. cbn [map zsum fold_right].
      fold (zsum (map part_len l)). fold (zsum (map (fun q : nd * Z => hd 0 (nd_shape (fst q))) l')). rewrite IH.
      destruct H as [_ [_ [H _]]]. now rewrite H.
    - intros a _ Ha. unfold nzq in Ha. lia. }
  assert (HNN : forall q, In q (used_of nzq fd) -> Forall (fun x => 0 <= x) (nd_shape (fst q))).
  { intros q Hq. apply used_of_incl in Hq. assert (Hf : In (fst q) fulls) by (rewrite <- Hfst; now apply in_map).
    clear -HFu Hf. apply mapM_ok_Forall2 in HFu. induction HFu as [|r f rs fs Hr _ IH]; [contradiction|].
    destruct Hf as [<-|Hf]; [eapply oindex_keep_shape_nonneg; exact Hr|now apply IH]. }
  remember (used_of nzp psA) as used eqn:EU. remember (used_of nzq fd) as fused eqn:EFu.
  assert (HG' := HG). unfold c_getitem in HG'. cbn [c_parts c_ts] in HG'.
  destruct (c_initial_shape used) as [init|] eqn:EI; [|discriminate]. cbn [bind] in HG'.
  destruct (c_initial_dtype used) as [d0|] eqn:ED; [|discriminate]. clear HG'.
  destruct HU as [|p0 q0 ur qr HP0 HUr]; [discriminate|].
  set (T := part_tail p0).
  unfold c_initial_shape in EI. destruct (forallb _ ur) eqn:EB in EI; [|discriminate]. clear EI init.
  unfold c_initial_dtype in ED. destruct (common_dtype_spec _ _ ED) as [HLe HPr].
  assert (HPO : Forall2 (part_ok T d0) (p0 :: ur) (map fst (q0 :: qr))).
  { apply Forall2_map_r. cbn [map] in HLe. pose proof (Forall_inv HLe) as HLe0. pose proof (Forall_inv_tail HLe) as HLer. constructor.
    - destruct HP0 as [PO _]. assert (E : tl (nd_shape (fst q0)) = T) by (destruct PO as [_ [E _]]; now rewrite <- E).
      rewrite E in PO. now apply part_ok_upgrade.
    - rewrite forallb_forall in EB. clear -HUr EB HLer. revert HLer. induction HUr as [|q f ur' fr' H _ IH]; intro HLer; [constructor|].
      cbn [map] in HLer. pose proof (Forall_inv HLer) as HLq. pose proof (Forall_inv_tail HLer) as HLr.
      constructor; [|apply IH; [intros x Hx; apply EB; now right|exact HLr]].
      destruct H as [PO _]. specialize (EB q ltac:(now left)). apply list_eqb_eq in EB.
      assert (E : tl (nd_shape (fst f)) = part_tail p0) by (destruct PO as [_ [E _]]; now rewrite <- E, <- EB).
      rewrite E in PO. now apply part_ok_upgrade. }
  assert (HL : Forall (fun p => 0 <= part_len p) (p0 :: ur)).
  { constructor; [destruct HP0 as [_ [H _]]; exact H|]. clear -HUr.
    induction HUr as [|q f ? ? H _ IH]; constructor; auto. destruct H as [_ [H _]]. exact H. }
  assert (HTn : Forall (fun x => 0 <= x) T).
  { assert (ET : tl (nd_shape (fst q0)) = T) by (destruct HP0 as [[_ [E _]] _]; now rewrite <- E).
    rewrite <- ET. specialize (HNN q0 (or_introl eq_refl)). destruct (nd_shape (fst q0)); [constructor|]. now inversion HNN. }
  destruct (concat_core_shape (p0 :: ur) (map fst (q0 :: qr)) T d0 HPO ltac:(discriminate) HL ts out s d HTn ED HG HSh HDt)
    as [C1 [C2 C3]].
  split; [exact C1|]. split; [exact C2|]. now rewrite C3, HW.
Qed.

(* non-vacuity of concat_shape_dtype: parts (3 rows), (0 rows), (2 rows) with a dtype-changing chain and an added axis *)
Lemma concat_shape_dtype_example :
  let raws := [mk_craw [3; 2] [] (arange [3; 2] 0) 0; mk_craw [0; 2] [] (arange [0; 2] 1) 0; mk_craw [4; 2] [ASlice None None (Some 2)] (arange [4; 2] 1) 0] in
  let ts := [TMap 2 1 (Some 1); TAdd; TMap 1 0 (Some 4)] in
  exists c out, c_mk raws ts = Ok c /\ c_getitem c [] = Ok out /\ c_shape c = Ok [5; 2; 1] /\ c_dtype c = Ok 4
    /\ nd_shape (a_nd out) = [5; 2; 1] /\ a_dtype out = 4.
Proof. cbv zeta. eexists. eexists. split; [vm_compute; reflexivity|]. split; [vm_compute; reflexivity|]. repeat split. Qed.

(* ------------------------------------------------------------------ 10. slice and mask heads ANSWER (after the repairs of F10 / F10b) *)

(* The concatenated indexer adds no rejection of its own for a slice head with a positive step (any start / stop,
   in particular an empty slice whose start lies in a later part than its stop: F10) or for a mask head, whatever
   the tail selects (in particular nothing: F10b): np.concatenate always gets at least one chunk and the reshape
   never fails, so the request is answered whenever the parts answer theirs. *)
Section Answers.
  Context (ps : list cpart) (dt : Z) (tail : list aidx) (S : list sel).
  Context (Hne : ps <> []).
  Context (Hlen : Forall (fun p => 0 <= part_len p) ps).

  Let lens := map part_len ps.
  Let starts := starts_from 0 lens.
  Let total := zsum lens.
  Let k := List.length ps.
  Let LN : Forall (fun h => 0 <= h) lens := lens_nonneg ps Hlen.
  Lemma LE0 : lens <> [].
  Proof. unfold lens. destruct ps; [congruence|discriminate]. Qed.

  Lemma slice_chunks_answer start stop st :
    (forall p x y, In p ps -> part_get dt p (ASlice (Some x) (Some y) (Some st) :: tail) <> Err) ->
    forall inds have, Forall (fun ind => 0 <= ind < Z.of_nat k) inds ->
    exists chunks, slice_chunks dt ps starts tail (take_shape S) start stop st have inds = Ok chunks
                   /\ (have = false -> inds <> [] -> chunks <> []).
  Proof.
    intros HPG. assert (Hl : List.length lens = k) by (unfold lens, k; apply map_length).
    set (pd := mk_cpart (mk_lazyidx [] [] [] 0) (Leaf 0)).
    induction inds as [|ind r IH]; intros have HB.
    - exists []. split; [reflexivity|]. intros _ H; congruence.
    - inversion HB as [|? ? Bd HB']; subst. cbn [slice_chunks].
      rewrite (py_nth_nonneg starts ind 0) by (unfold zlen, starts; rewrite starts_from_length, Hl; lia). cbn [bind].
      destruct (concat_chunk_skipped have _ _) eqn:ESK.
      + destruct (IH have HB') as [chunks [E1 _]]. exists chunks. split; [exact E1|].
        intros -> _. unfold concat_chunk_skipped in ESK. cbn [andb] in ESK. discriminate.
      + unfold slice_chunk.
        rewrite (py_nth_nonneg ps ind pd) by (unfold zlen; fold k; lia). cbn [bind].
        rewrite (py_nth_nonneg starts ind 0) by (unfold zlen, starts; rewrite starts_from_length, Hl; lia). cbn [bind].
        destruct (part_get dt (nth (Z.to_nat ind) ps pd) _) as [sub|] eqn:EG.
        2:{ exfalso. eapply HPG; [|exact EG]. apply nth_In. fold k. lia. }
        cbn [bind]. unfold reshape_chunk. cbn [bind].
        destruct (IH true HB') as [rest [E1 _]]. rewrite E1. cbn [bind].
        exists (sub :: rest). split; [reflexivity|]. intros _ _. discriminate.
  Qed.

  Lemma find_indexer_mono x y : 0 <= x <= y -> find_indexer starts x <= find_indexer starts y.
  Proof.
    intros H.
    destruct (find_indexer_spec lens x LN LE0 ltac:(lia)) as [A1 [A2 A3]].
    destruct (find_indexer_spec lens y LN LE0 ltac:(lia)) as [B1 [B2 B3]].
    fold starts in A1, A2, A3, B1, B2, B3.
    set (ia := find_indexer starts x) in *. set (ib := find_indexer starts y) in *.
    destruct (Z_le_gt_dec ia ib) as [|Hgt]; [assumption|]. exfalso.
    specialize (B3 ltac:(lia)).
    pose proof (bnd_mono_le lens (Datatypes.S (Z.to_nat ib)) (Z.to_nat ia) LN ltac:(unfold zlen in *; lia)). lia.
  Qed.

  Lemma concat_slice_head_answers a b cc start stop st :
    slice_indices total a b cc = Some (start, stop, st) -> 0 < st ->
    (forall p x y, In p ps -> part_get dt p (ASlice (Some x) (Some y) (Some st) :: tail) <> Err) ->
    c_head ps dt total S (ASlice a b cc) tail <> Err.
  Proof.
    intros ESI Hst HPG. cbn [c_head]. fold lens. fold total. rewrite ESI. fold starts.
    unfold concat_stride_rejected. assert (E : (st <? 0) = false) by lia. rewrite E.
    unfold concat_slice_stop, concat_first_indexer, concat_end_indexer.
    set (stop' := Z.max start stop).
    assert (Htot : 0 <= total).
    { unfold total. pose proof LN as LN'. revert LN'. generalize lens. intros l0 LN'.
      induction LN'; cbn; [lia|]. fold (zsum l). lia. }
    destruct (slice_indices_bounds _ _ _ _ _ _ _ Htot ESI) as [_ [Bp _]]. specialize (Bp Hst).
    assert (Hl : List.length lens = k) by (unfold lens, k; apply map_length).
    destruct (find_indexer_spec lens start LN LE0 ltac:(lia)) as [A1 _].
    destruct (find_indexer_spec lens stop' LN LE0 ltac:(unfold stop'; lia)) as [B1 _].
    pose proof (find_indexer_mono start stop' ltac:(unfold stop'; lia)) as Hmono.
    fold starts in A1, B1.
    set (ia := find_indexer starts start) in *. set (ib := find_indexer starts stop') in *.
    unfold zlen in A1, B1. rewrite Hl in A1, B1.
    assert (HB : Forall (fun ind => 0 <= ind < Z.of_nat k) (py_range ia (ib + 1) 1)).
    { apply Forall_forall. intros ind Hin.
      destruct (py_range_bounds ia (ib + 1) 1 ind ltac:(lia) Hin) as [Bd _]. specialize (Bd ltac:(lia)). lia. }
    destruct (slice_chunks_answer start stop' st HPG _ false HB) as [chunks [E1 NE]].
    rewrite E1. cbn [bind]. unfold concat_chunks.
    destruct chunks as [|c0 cr]; [|discriminate].
    exfalso. apply NE; [reflexivity| |reflexivity].
    rewrite py_range_cons by lia. discriminate.
  Qed.

  Lemma combine_parts_ne : combine (combine ps starts) lens <> [].
  Proof. unfold starts, lens. destruct ps as [|p r]; [congruence|]. cbn. discriminate. Qed.

  Lemma concat_mask_head_answers m : zlen m = total ->
    (forall p mm, In p ps -> part_get dt p (AMask mm :: tail) <> Err) ->
    c_head ps dt total S (AMask m) tail <> Err.
  Proof.
    intros Hm HPG. cbn [c_head]. fold lens. fold total. fold starts.
    assert (E : (zlen m =? total) = true) by lia. rewrite E.
    assert (G : forall l, (forall q, In q l -> In (fst (fst q)) ps) ->
                exists chunks, mapM (mask_chunk dt m tail (take_shape S)) l = Ok chunks /\ (l <> [] -> chunks <> [])).
    { induction l as [|q l IH]; intro Hin.
      - exists []. split; [reflexivity|congruence].
      - cbn [mapM]. unfold mask_chunk at 1.
        destruct (part_get dt (fst (fst q)) _) as [sub|] eqn:EG.
        2:{ exfalso. eapply HPG; [|exact EG]. apply Hin. now left. }
        cbn [bind]. unfold reshape_chunk. cbn [bind].
        destruct (IH (fun q' Hq' => Hin q' (or_intror Hq'))) as [rest [E1 _]]. rewrite E1. cbn [bind].
        exists (sub :: rest). split; [reflexivity|discriminate]. }
    destruct (G (combine (combine ps starts) lens)) as [chunks [E1 NE]].
    { intros [[p o] h] Hq. cbn [fst]. apply in_combine_l in Hq. now apply in_combine_l in Hq. }
    rewrite E1. cbn [bind]. unfold concat_chunks.
    destruct chunks as [|c0 cr]; [|discriminate]. exfalso. apply NE; [exact combine_parts_ne|reflexivity].
  Qed.
End Answers.
