(* C05: lemmas about the ConcatenatedLazyIndexer model (Model/ConcatIdx.v). *)
From Coq Require Import ZArith List Bool Lia.
From KV Require Import Base.Sx Base.PySlice Base.AxisIndex Base.NdArray Gen.Generated Model.LazyIdx Model.ConcatIdx.
Import ListNotations.
Open Scope Z_scope.

(* chunk_start of a part that begins after the start of a positive-stride slice:
   off + ((start - off) mod stride) is the FIRST index >= off selected by start::stride. *)
Lemma first_in_part start off stride : 0 < stride -> start < off ->
  let cs := (start - off) mod stride in
  0 <= cs < stride
  /\ (off + cs - start) mod stride = 0
  /\ forall j, off <= j -> (j - start) mod stride = 0 -> off + cs <= j.
Proof.
  intros Hs Hlt cs.
  assert (B : 0 <= cs < stride) by (apply Z.mod_pos_bound; lia).
  split; [exact B|]. split.
  - pose proof (Z.div_mod (start - off) stride ltac:(lia)) as DM. fold cs in DM.
    replace (off + cs - start) with ((- ((start - off) / stride)) * stride) by lia.
    apply Z.mod_mul. lia.
  - intros j Hj Hm. destruct (Z_lt_ge_dec j (off + cs)) as [Hlt'|]; [|lia]. exfalso.
    assert (E : (j - off) mod stride = cs).
    { replace (j - off) with ((j - start) + (start - off)) by lia.
      rewrite Z.add_mod by lia. rewrite Hm. cbn [Z.add]. rewrite Z.mod_mod by lia. reflexivity. }
    rewrite Z.mod_small in E by lia. lia.
Qed.

(* the selected indices inside a part [off, off+len): local positions of slice(cs, stop-off, stride) shifted by off *)
Lemma part_positions_shift start off stride k :
  let cs := (start - off) mod stride in
  0 < stride -> (off + cs + k * stride - start) mod stride = (off + cs - start) mod stride.
Proof. intros cs Hs. replace (off + cs + k * stride - start) with (off + cs - start + k * stride) by lia. apply Z.mod_add. lia. Qed.

(* ---------- witnesses of the open findings (the model follows the code) ---------- *)

Definition two_parts : list craw :=
  [mk_craw [3; 1] [] (arange [3; 1] 0) 0; mk_craw [2; 1] [] (arange [2; 1] 2) 0].

Definition run_concat (raws : list craw) (ix : list aidx) : res arr :=
  c <- c_mk raws [] ;; c_getitem c ix.

(* F10: c[5:2] raises although numpy answers with an empty array *)
Lemma concat_empty_head_slice_refuted :
  run_concat two_parts [ASlice (Some 5) (Some 2) None] = Err
  /\ spec_concat two_parts [] [ASlice (Some 5) (Some 2) None] <> Err.
Proof. split; [vm_compute; reflexivity|vm_compute; discriminate]. Qed.

(* F10b: empty tail selection with a slice head raises *)
Lemma concat_empty_tail_refuted :
  run_concat two_parts [full; ASlice (Some 1) (Some 0) None] = Err
  /\ spec_concat two_parts [] [full; ASlice (Some 1) (Some 0) None] <> Err.
Proof. split; [vm_compute; reflexivity|vm_compute; discriminate]. Qed.

(* supported cases on the same parts agree (the hypotheses of the statements above are not vacuous) *)
Lemma concat_example_supported :
  run_concat two_parts [ASlice (Some 1) None (Some 3)] = spec_concat two_parts [] [ASlice (Some 1) None (Some 3)]
  /\ run_concat two_parts [ASlice (Some 1) None (Some 3)] <> Err
  /\ run_concat two_parts [AList [3; 0; -1]] = spec_concat two_parts [] [AList [3; 0; -1]]
  /\ run_concat two_parts [AMask [true; false; false; true; true]; AInt 0]
     = spec_concat two_parts [] [AMask [true; false; false; true; true]; AInt 0].
Proof. repeat split; vm_compute; try reflexivity; discriminate. Qed.
