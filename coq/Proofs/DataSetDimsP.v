(* C01 (extension round): dimensionality of answers (Model/DataSetDims.v). *)
From Coq Require Import ZArith List Bool Lia.
From KV Require Import Base.Sx Base.SelSlice Base.PySlice Base.AxisIndex Base.NdArray Model.DataSet Model.DataSetDims
  Proofs.DataSetBaseP.
Import ListNotations.
Open Scope Z_scope.

(* ------------------------------------------------------------------ one axis *)

Lemma resolve_keep_np n ix ps : resolve_keep n ix = Ok ps <-> resolve n ix = Ok (ps, is_scalar ix).
Proof.
  unfold resolve_keep, resolve. destruct ix as [z|a b c|m|l]; cbn [is_scalar bind fst].
  - unfold wrap_res. destruct (wrap n z); cbn [bind fst]; split; intro H; try discriminate; injection H as <-; reflexivity.
  - destruct (slice_positions n a b c); cbn [bind fst]; split; intro H; try discriminate; injection H as <-; reflexivity.
  - destruct (zlen m =? n); cbn [bind fst]; split; intro H; try discriminate; injection H as <-; reflexivity.
  - destruct (mapM (wrap_res n) l); cbn [bind fst]; split; intro H; try discriminate; injection H as <-; reflexivity.
Qed.

Lemma resolve_flag n ix ps d : resolve n ix = Ok (ps, d) -> d = is_scalar ix /\ (d = true -> exists p, ps = [p]).
Proof.
  unfold resolve. destruct ix as [z|a b c|m|l]; cbn [is_scalar].
  - unfold wrap_res. destruct (wrap n z); cbn [bind]; intro H; [|discriminate]. injection H as <- <-.
    split; [reflexivity|]. intros _. eexists; reflexivity.
  - destruct (slice_positions n a b c); intro H; [|discriminate]. injection H as <- <-. split; [reflexivity|discriminate].
  - destruct (zlen m =? n); intro H; [|discriminate]. injection H as <- <-. split; [reflexivity|discriminate].
  - destruct (mapM (wrap_res n) l); cbn [bind]; intro H; [|discriminate]. injection H as <- <-.
    split; [reflexivity|discriminate].
Qed.

(* ------------------------------------------------------------------ all axes *)

Definition keepify (sels : list sel) : list sel := map (fun s => (fst s, false)) sels.

Lemma mapM_np_keep : forall (l : list (Z * aidx)) sels,
  mapM (fun p => resolve (fst p) (snd p)) l = Ok sels ->
  mapM (fun p => ps <- resolve_keep (fst p) (snd p) ;; Ok (ps, false)) l = Ok (keepify sels)
  /\ map snd sels = map (fun p => is_scalar (snd p)) l
  /\ Forall (fun s => snd s = true -> exists p, fst s = [p]) sels.
Proof.
  induction l as [|[n ix] l IH]; intros sels H; cbn [mapM] in *.
  - injection H as <-. repeat split. constructor.
  - cbn [fst snd] in *. destruct (resolve n ix) as [[ps d]|] eqn:R; cbn [bind] in H; [|discriminate].
    destruct (mapM (fun p => resolve (fst p) (snd p)) l) as [rest|] eqn:M; cbn [bind] in H; [|discriminate].
    injection H as <-. destruct (IH rest eq_refl) as (I1 & I2 & I3).
    destruct (resolve_flag n ix ps d R) as [Hd Hp].
    assert (K : resolve_keep n ix = Ok ps) by (apply resolve_keep_np; now rewrite <- Hd).
    rewrite K. cbn [bind]. rewrite I1. cbn [bind keepify map fst snd].
    split; [reflexivity|]. split; [now rewrite I2, Hd|]. constructor; [exact Hp|exact I3].
Qed.

Lemma mapM_keep_np : forall (l : list (Z * aidx)) ksels,
  mapM (fun p => ps <- resolve_keep (fst p) (snd p) ;; Ok (ps, false)) l = Ok ksels ->
  exists sels, mapM (fun p => resolve (fst p) (snd p)) l = Ok sels /\ ksels = keepify sels.
Proof.
  induction l as [|[n ix] l IH]; intros ksels H; cbn [mapM] in *.
  - injection H as <-. exists []. split; reflexivity.
  - cbn [fst snd] in *. destruct (resolve_keep n ix) as [ps|] eqn:K; cbn [bind] in H; [|discriminate].
    destruct (mapM _ l) as [rest|] eqn:M; cbn [bind] in H; [|discriminate]. injection H as <-.
    destruct (IH rest eq_refl) as (sels & S1 & S2).
    apply resolve_keep_np in K. rewrite K. cbn [bind]. rewrite S1. cbn [bind].
    eexists. split; [reflexivity|]. cbn [keepify map fst snd]. now rewrite S2.
Qed.

(* ------------------------------------------------------------------ trees *)

Lemma flatten_singleton t : flatten (Node [t]) = flatten t.
Proof. rewrite flatten_node. cbn [flat_map]. apply app_nil_r. Qed.

Lemma take_drop : forall sels t, Forall (fun s => snd s = true -> exists p, fst s = [p]) sels ->
  flatten (take t sels) = flatten (take t (keepify sels))
  /\ take_shape sels = drop_axes (map snd sels) (take_shape (keepify sels)).
Proof.
  induction sels as [|[ps d] rest IH]; intros t H; cbn [keepify map fst snd].
  - split; reflexivity.
  - inversion H as [|? ? Hd Hr]; subst. cbn [fst snd] in Hd. fold (keepify rest).
    destruct d.
    + destruct (Hd eq_refl) as [p ->]. cbn [take take_shape hd drop_axes map].
      destruct (IH (child t p) Hr) as [F Sh]. split.
      * rewrite flatten_singleton. exact F.
      * exact Sh.
    + cbn [take take_shape drop_axes]. split.
      * rewrite !flatten_node, !flat_map_concat_map, !map_map. f_equal. apply map_ext.
        intro p. now destruct (IH (child t p) Hr).
      * f_equal. now destruct (IH t Hr).
Qed.

(* number of elements of a shape *)
Definition size (shape : list Z) : Z := fold_right Z.mul 1 shape.

Lemma force_drop : forall sc shape, List.length sc = List.length shape ->
  Forall2 (fun (b : bool) d => b = true -> d = 1) sc shape ->
  force_full_dim sc (drop_axes sc shape) = shape /\ size (drop_axes sc shape) = size shape
  /\ List.length (drop_axes sc shape) = List.length (filter negb sc).
Proof.
  induction sc as [|b sc IH]; intros [|d shape] L H; try discriminate.
  - repeat split.
  - inversion H as [|? ? ? ? Hb Hr]; subst. injection L as L. destruct (IH shape L Hr) as (I1 & I2 & I3).
    destruct b; cbn [drop_axes force_full_dim filter negb size fold_right List.length].
    + rewrite (Hb eq_refl), I1. fold (size (drop_axes sc shape)). fold (size shape). repeat split; lia.
    + rewrite I1. fold (size (drop_axes sc shape)). fold (size shape). rewrite I2, I3. repeat split.
Qed.

(* ------------------------------------------------------------------ arrays *)

Lemma pad_to_length : forall n ixs, List.length (pad_to n ixs) = n.
Proof. induction n as [|n IH]; intros [|x r]; cbn [pad_to List.length]; try reflexivity; now rewrite IH. Qed.

Lemma map_snd_combine {A B} : forall (l1 : list A) (l2 : list B), List.length l1 = List.length l2 ->
  map snd (combine l1 l2) = l2.
Proof.
  induction l1 as [|a l1 IH]; intros [|b l2] H; try discriminate; [reflexivity|].
  cbn [combine map snd]. f_equal. apply IH. now injection H.
Qed.


(* the numpy answer and the canonical answer of outer indexing: same elements in the same order; the numpy shape is the
   canonical one without the scalar-indexed axes, which have length 1 in the canonical one *)
Lemma oindex_np_keep a ixs out : oindex_keep a ixs = Ok out ->
  exists out', oindex a ixs = Ok out'
    /\ flatten (nd_body out') = flatten (nd_body out)
    /\ nd_shape out' = drop_axes (scalar_axes (List.length (nd_shape a)) ixs) (nd_shape out)
    /\ force_full_dim (scalar_axes (List.length (nd_shape a)) ixs) (nd_shape out') = nd_shape out
    /\ size (nd_shape out') = size (nd_shape out)
    /\ List.length (nd_shape out') = List.length (filter negb (scalar_axes (List.length (nd_shape a)) ixs)).
Proof.
  unfold oindex_keep, oindex, keep_sels, resolve_all. intro H.
  destruct (mapM _ _) as [ksels|] eqn:K in H; cbn [bind] in H; [|discriminate]. injection H as <-.
  destruct (mapM_keep_np _ _ K) as (sels & S1 & ->). rewrite S1. cbn [bind nd_shape nd_body].
  destruct (mapM_np_keep _ _ S1) as (_ & Sc & Sg).
  destruct (take_drop sels (nd_body a) Sg) as [F Sh].
  eexists. split; [reflexivity|]. cbn [nd_shape nd_body].
  assert (E : map snd sels = scalar_axes (List.length (nd_shape a)) ixs).
  { rewrite Sc. unfold scalar_axes. rewrite <- (map_map snd is_scalar). f_equal.
    apply map_snd_combine. now rewrite pad_to_length. }
  rewrite <- E, <- Sh.
  split; [exact F|]. split; [reflexivity|].
  assert (Lk : take_shape (keepify sels) = map (fun s => zlen (fst s)) (keepify sels)).
  { apply take_shape_keep. unfold keepify. apply Forall_forall. intros s Hs. apply in_map_iff in Hs.
    destruct Hs as (s0 & <- & _). reflexivity. }
  assert (FD := force_drop (map snd sels) (take_shape (keepify sels))).
  rewrite Sh. apply FD.
  - rewrite Lk. unfold keepify. now rewrite !map_length.
  - rewrite Lk. unfold keepify. rewrite map_map. cbn [fst].
    clear -Sg. induction Sg as [|s l Hs _ IH]; cbn [map]; constructor; [|exact IH].
    intro Hb. destruct (Hs Hb) as [p ->]. reflexivity.
Qed.

(* ------------------------------------------------------------------ indexers of a data set *)

Lemma stage1_ndim S0 x a1 : stage1 S0 x = Ok a1 -> List.length (nd_shape a1) = S (List.length (ix_tail x)).
Proof.
  unfold stage1. destruct (_ && _); [|discriminate]. intro H. injection H as <-.
  cbn [nd_shape List.length]. unfold tail_sels. now rewrite !map_length.
Qed.

Lemma acquire_ndim c s k : S (List.length (ix_tail (acquire c s k))) = naxes k.
Proof. unfold acquire. destruct (c_fmt c); destruct k; reflexivity. Qed.

(* C01_answer_dimensions *)
Lemma answer_dims c s k S0 ix2 out : index S0 (acquire c s k) ix2 = Ok out ->
  exists out', index_np S0 (acquire c s k) ix2 = Ok out'
    /\ flatten (nd_body out') = flatten (nd_body out)
    /\ nd_shape out' = drop_axes (scalar_axes (naxes k) ix2) (nd_shape out)
    /\ size (nd_shape out') = size (nd_shape out)
    /\ List.length (nd_shape out') = List.length (filter negb (scalar_axes (naxes k) ix2))
    /\ (forall f, answer_shape f false k ix2 (nd_shape out') = nd_shape out')
    /\ (forall f, (f = V2 \/ f = V3) -> k <> KTime -> k <> KRaw ->
          answer_shape f true k ix2 (nd_shape out') = nd_shape out).
Proof.
  unfold index, index_np. destruct (stage1 S0 (acquire c s k)) as [a1|] eqn:E; cbn [bind]; [|discriminate].
  intro H. destruct (oindex_np_keep a1 ix2 out H) as (out' & O & F & Sh & Fd & Sz & Ln).
  rewrite (stage1_ndim _ _ _ E), acquire_ndim in Sh, Fd, Ln.
  exists out'. split; [exact O|]. split; [exact F|]. split; [exact Sh|]. split; [exact Sz|]. split; [exact Ln|].
  split.
  - intro f. unfold answer_shape. destruct f; destruct k; reflexivity.
  - intros f [-> | ->] Hk1 Hk2; unfold answer_shape; destruct k; try congruence; exact Fd.
Qed.

(* the flags answer before the repair: a selection that is scalar on all three axes came back with shape (1,), and with
   keepdims=True with FOUR dimensions *)
Lemma flags_dims_refuted_before_fix :
  answer_shape V3 false KFlags [AInt 0; AInt 0; AInt 0] (flags_np_shape_before_fix []) = [1]
  /\ answer_shape V3 true KFlags [AInt 0; AInt 0; AInt 0] (flags_np_shape_before_fix []) = [1; 1; 1; 1]
  /\ answer_shape V3 false KFlags [AInt 0; AInt 0; AInt 0] [] = []
  /\ answer_shape V3 true KFlags [AInt 0; AInt 0; AInt 0] [] = [1; 1; 1].
Proof. repeat split. Qed.

(* non-vacuity: shapes of d.vis[:, 2, [0, 3]] on a (5, 4, 6) selection *)
Lemma example_dims :
  drop_axes (scalar_axes 3 [full; AInt 2; AList [0; 3]]) [5; 1; 2] = [5; 2]
  /\ answer_shape V3 true KVis [full; AInt 2; AList [0; 3]] [5; 2] = [5; 1; 2]
  /\ answer_shape V3 false KVis [full; AInt 2; AList [0; 3]] [5; 2] = [5; 2]
  /\ answer_shape V4 true KVis [AInt 1] [4; 6] = [4; 6]
  /\ answer_shape V2 true KVis [AInt 1] [4; 6] = [1; 4; 6]
  /\ answer_shape V2 true KTime [AInt 1] [] = [].
Proof. repeat split. Qed.
