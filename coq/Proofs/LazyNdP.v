(* C05: the N-d chunk loop of LazyIndexer (Model/LazyNd.v) refines the outer product of the per-axis gathers
   (Model/LazyIdx.v), whatever the content of the np.empty buffer. *)
From Coq Require Import ZArith List Bool Lia.
From KV Require Import Base.Sx Base.PySlice Base.AxisIndex Base.NdArray Base.LazyDType Gen.Generated
  Model.LazyIdx Model.LazyNd Proofs.LazyIdxP.
Import ListNotations.
Open Scope Z_scope.

(* ------------------------------------------------------------------ generic list facts *)

Lemma fold_left_flat_map {A B C} (f : A -> B -> A) (g : C -> list B) : forall l a,
  fold_left f (flat_map g l) a = fold_left (fun a x => fold_left f (g x) a) l a.
Proof. induction l as [|x r IH]; intro a; cbn; [reflexivity|]. now rewrite fold_left_app, IH. Qed.

Lemma fold_left_map {A B C} (f : A -> B -> A) (g : C -> B) : forall l a,
  fold_left f (map g l) a = fold_left (fun a x => f a (g x)) l a.
Proof. induction l as [|x r IH]; intro a; cbn; [reflexivity|]. now rewrite IH. Qed.

Lemma fold_left_ext {A B} (f g : A -> B -> A) : (forall a x, f a x = g a x) -> forall l a, fold_left f l a = fold_left g l a.
Proof. intros H l. induction l as [|x r IH]; intro a; cbn; [reflexivity|]. now rewrite H, IH. Qed.

Lemma zip_at_vals_nil {A B} (f : A -> B -> A) out o : zip_at f out o [] = out.
Proof. destruct out; reflexivity. Qed.

Lemma zip_at_nil {A B} (f : A -> B -> A) o vals : zip_at f [] o vals = [].
Proof. destruct vals; [reflexivity|]. destruct o; reflexivity. Qed.

Lemma zip_at_length {A B} (f : A -> B -> A) : forall out o vals, List.length (zip_at f out o vals) = List.length out.
Proof.
  induction out as [|h t IH]; intros o vals; [now rewrite zip_at_nil|].
  destruct vals as [|v r]; [reflexivity|]. destruct o; cbn [zip_at List.length]; now rewrite IH.
Qed.

Lemma zip_at_map {A B C} (f : A -> B -> A) (g : C -> B) : forall out o vals,
  zip_at f out o (map g vals) = zip_at (fun a v => f a (g v)) out o vals.
Proof.
  induction out as [|h t IH]; intros o vals; [now rewrite !zip_at_nil|].
  destruct vals as [|v r]; [reflexivity|]. destruct o; cbn [map zip_at]; f_equal.
  - apply IH.
  - apply (IH o (v :: r)).
Qed.

Lemma zip_at_compose {A B} (f1 f2 : A -> B -> A) : forall out o vals,
  zip_at f2 (zip_at f1 out o vals) o vals = zip_at (fun a v => f2 (f1 a v) v) out o vals.
Proof.
  induction out as [|h t IH]; intros o vals; [now rewrite !zip_at_nil|].
  destruct vals as [|v r]; [reflexivity|]. destruct o; cbn [zip_at]; f_equal; apply IH.
Qed.

Lemma zip_at_id {A B} : forall (out : list A) o (vals : list B), zip_at (fun a _ => a) out o vals = out.
Proof.
  induction out as [|h t IH]; intros o vals; [now rewrite zip_at_nil|].
  destruct vals as [|v r]; [reflexivity|]. destruct o; cbn [zip_at]; f_equal; apply IH.
Qed.

Lemma zip_at_ext_in {A B} (f g : A -> B -> A) : forall out o vals,
  (forall a v, In a out -> In v vals -> f a v = g a v) -> zip_at f out o vals = zip_at g out o vals.
Proof.
  induction out as [|h t IH]; intros o vals H; [now rewrite !zip_at_nil|].
  destruct vals as [|v r]; [reflexivity|]. destruct o; cbn [zip_at].
  - rewrite (H h v) by (now left). f_equal. apply IH. intros a w Ha Hw. apply H; now right.
  - f_equal. apply IH. intros a w Ha Hw. apply H; [now right|exact Hw].
Qed.

Lemma zip_at_Forall {A B} (P : A -> Prop) (f : A -> B -> A) : (forall a v, P (f a v)) ->
  forall out o vals, Forall P out -> Forall P (zip_at f out o vals).
Proof.
  intros Hf. induction out as [|h t IH]; intros o vals H; [now rewrite zip_at_nil|].
  inversion H; subst. destruct vals as [|v r]; [exact H|]. destruct o; cbn [zip_at]; constructor; auto.
Qed.

(* folding row updates over a list of chunks updates every row with the fold over the chunks *)
Lemma fold_zip_at {A B C} (F : B -> A -> C -> A) (o : nat) (vals : list B) : forall (P : list C) rows,
  fold_left (fun rows cs => zip_at (fun row p => F p row cs) rows o vals) P rows
  = zip_at (fun row p => fold_left (F p) P row) rows o vals.
Proof.
  induction P as [|cs P IH]; intro rows; cbn [fold_left].
  - symmetry. apply zip_at_id.
  - rewrite IH. apply zip_at_compose.
Qed.

(* writing a block into a buffer that is long enough *)
Lemma zip_at_fill {A B} (F : B -> A) : forall (done : list A) vals rest1 rest2, List.length rest1 = List.length vals ->
  zip_at (fun _ v => F v) (done ++ rest1 ++ rest2) (List.length done) vals = done ++ map F vals ++ rest2.
Proof.
  induction done as [|d done IH]; intros vals rest1 rest2 H.
  - cbn [app List.length]. revert vals H. induction rest1 as [|x rest1 IHr]; intros vals H.
    + destruct vals; [|discriminate]. cbn [app map]. apply zip_at_vals_nil.
    + destruct vals as [|v r]; [discriminate|]. cbn [app zip_at map]. f_equal. apply IHr. cbn in H. lia.
  - destruct vals as [|v r].
    + destruct rest1; [|discriminate]. cbn [app map]. apply zip_at_vals_nil.
    + cbn [app List.length zip_at]. f_equal. apply IH. exact H.
Qed.

(* ------------------------------------------------------------------ shapes *)

Fixpoint shaped (shape : list Z) (t : tree) : Prop :=
  match shape with
  | [] => True
  | d :: r => exists ch, t = Node ch /\ zlen ch = d /\ Forall (shaped r) ch
  end.

Lemma take_shaped : forall sels t, shaped (take_shape sels) (take t sels).
Proof.
  induction sels as [|[ps d] r IH]; intro t; cbn [take take_shape]; [exact Logic.I|].
  destruct d; [apply IH|]. cbn [shaped]. eexists. split; [reflexivity|]. split; [apply zlen_map|].
  apply Forall_forall. intros x Hx. apply in_map_iff in Hx. destruct Hx as [p [<- _]]. apply IH.
Qed.

Lemma const_tree_shaped v : forall shape, Forall (fun d => 0 <= d) shape -> shaped shape (const_tree v shape).
Proof.
  induction 1 as [|d r Hd _ IH]; cbn [const_tree shaped]; [exact Logic.I|].
  eexists. split; [reflexivity|]. split.
  - unfold zlen. rewrite repeat_length. lia.
  - apply Forall_forall. intros x Hx. apply repeat_spec in Hx. now subst.
Qed.

(* ------------------------------------------------------------------ the loop on abstract writes *)

Inductive witem := WScalar (q : Z) | WSeg (o1 : Z) (vals : list Z).

Definition w_sel (w : witem) : sel := match w with WScalar q => ([q], true) | WSeg _ vals => (vals, false) end.

Fixpoint w_ranges (ws : list witem) : list (Z * Z) :=
  match ws with
  | [] => []
  | WScalar _ :: r => w_ranges r
  | WSeg o vals :: r => (o, o + zlen vals) :: w_ranges r
  end.

Definition pure_step (ds out : tree) (ws : list witem) : tree := write_nd (w_ranges ws) out (take ds (map w_sel ws)).
Definition pure_loop (ds : tree) (Ws : list (list witem)) (g : tree) : tree := fold_left (pure_step ds) (product Ws) g.

(* the writes of one kept axis tile [off, off + |G|) with the values G *)
Fixpoint tiles (off : Z) (W : list witem) (G : list Z) : Prop :=
  match W with
  | [] => G = []
  | WSeg o vals :: r => o = off /\ exists G', G = vals ++ G' /\ tiles (off + zlen vals) r G'
  | WScalar _ :: _ => False
  end.

Definition axis_tiled (W : list witem) (G : sel) : Prop :=
  if snd G then exists q, W = [WScalar q] /\ fst G = [q]
  else W <> [] /\ 0 <= 0 /\ tiles 0 W (fst G).

Lemma tiles_write {A} (F : Z -> A) : forall W off G (done rest : list A),
  tiles off W G -> zlen done = off -> List.length rest = List.length G ->
  fold_left (fun rows w => match w with
                           | WSeg o vals => zip_at (fun _ p => F p) rows (Z.to_nat o) vals
                           | WScalar _ => rows
                           end) W (done ++ rest) = done ++ map F G.
Proof.
  induction W as [|w W IH]; intros off G done rest HT Hd Hr; cbn [tiles] in HT.
  - subst G. destruct rest; [|discriminate]. reflexivity.
  - destruct w as [q|o vals]; [contradiction|]. destruct HT as [-> [G' [-> HT]]].
    cbn [fold_left]. rewrite app_length in Hr.
    set (r1 := firstn (List.length vals) rest). set (r2 := skipn (List.length vals) rest).
    assert (Hrest : rest = r1 ++ r2) by (unfold r1, r2; now rewrite firstn_skipn).
    assert (H1 : List.length r1 = List.length vals) by (unfold r1; rewrite firstn_length; lia).
    rewrite Hrest. replace (Z.to_nat off) with (List.length done) by (unfold zlen in Hd; lia).
    rewrite zip_at_fill by exact H1.
    replace (done ++ map F vals ++ r2) with ((done ++ map F vals) ++ r2) by now rewrite app_assoc.
    rewrite (IH (off + zlen vals) G' (done ++ map F vals) r2 HT).
    + rewrite map_app. now rewrite app_assoc.
    + rewrite zlen_app, zlen_map. lia.
    + unfold r2. rewrite skipn_length. lia.
Qed.

Lemma pure_step_scalar ds out q cs : pure_step ds out (WScalar q :: cs) = pure_step (child ds q) out cs.
Proof. reflexivity. Qed.

Lemma pure_step_seg ds rows o vals cs :
  pure_step ds (Node rows) (WSeg o vals :: cs)
  = Node (zip_at (fun row p => pure_step (child ds p) row cs) rows (Z.to_nat o) vals).
Proof.
  unfold pure_step. cbn [w_ranges map w_sel write_nd take children]. f_equal.
  now rewrite zip_at_map.
Qed.

Lemma fold_pure_step_seg ds o vals : forall (P : list (list witem)) rws,
  fold_left (fun a cs => pure_step ds a (WSeg o vals :: cs)) P (Node rws)
  = Node (fold_left (fun rows cs => zip_at (fun row p => pure_step (child ds p) row cs) rows (Z.to_nat o) vals) P rws).
Proof. induction P as [|cs P IHP]; intro rws; cbn [fold_left]; [reflexivity|]. rewrite pure_step_seg. apply IHP. Qed.

(* THE loop theorem on abstract writes: if the writes of every kept axis tile its output range, the loop over all
   combinations of writes turns ANY buffer of the right shape into the outer product take ds Gs *)
Lemma pure_loop_correct : forall Ws Gs, Forall2 axis_tiled Ws Gs ->
  forall ds g, shaped (take_shape Gs) g -> pure_loop ds Ws g = take ds Gs.
Proof.
  induction 1 as [|W [G d] Ws Gs HW _ IH]; intros ds g Hg.
  - reflexivity.
  - unfold pure_loop. cbn [product]. rewrite fold_left_flat_map.
    unfold axis_tiled in HW. cbn [fst snd] in HW. destruct d.
    + (* scalar axis: the dataset row is chosen once *)
      destruct HW as [q [-> ->]]. cbn [fold_left]. rewrite fold_left_map.
      cbn [take_shape] in Hg. cbn [take hd].
      rewrite <- (IH (child ds q) g Hg). unfold pure_loop. apply fold_left_ext. intros a cs. apply pure_step_scalar.
    + destruct HW as [HWne [_ HT]]. cbn [take_shape shaped] in Hg. destruct Hg as [rows [-> [Hlen Hrows]]].
      cbn [take].
      (* every write of this axis replaces its rows by the (N-1)-d result, whatever they held *)
      set (F := fun p => take (child ds p) Gs).
      assert (Hinner : forall (W' : list witem) rows', Forall (shaped (take_shape Gs)) rows' ->
                (forall w, In w W' -> exists o vals, w = WSeg o vals) ->
                fold_left (fun a x => fold_left (pure_step ds) (map (cons x) (product Ws)) a) W' (Node rows')
                = Node (fold_left (fun rows w => match w with
                                                 | WSeg o vals => zip_at (fun _ p => F p) rows (Z.to_nat o) vals
                                                 | WScalar _ => rows
                                                 end) W' rows')).
      { induction W' as [|w W' IHW]; intros rows' Hr Hk; [reflexivity|].
        destruct (Hk w (or_introl eq_refl)) as [o [vals ->]]. cbn [fold_left].
        rewrite fold_left_map.
        assert (E : fold_left (fun a cs => pure_step ds a (WSeg o vals :: cs)) (product Ws) (Node rows')
                    = Node (zip_at (fun _ p => F p) rows' (Z.to_nat o) vals)).
        { transitivity (Node (fold_left (fun rows cs => zip_at (fun row p => pure_step (child ds p) row cs) rows (Z.to_nat o) vals)
                                        (product Ws) rows')).
          - apply fold_pure_step_seg.
          - f_equal. rewrite (fold_zip_at (fun p row cs => pure_step (child ds p) row cs)).
            apply zip_at_ext_in. intros row p Hrow _. unfold F.
            rewrite Forall_forall in Hr. exact (IH (child ds p) row (Hr row Hrow)). }
        rewrite E. apply IHW.
        - (* the buffer keeps its shape *)
          apply zip_at_Forall; [|exact Hr]. intros a v. unfold F. apply take_shaped.
        - intros w Hw. apply Hk. now right. }
      rewrite Hinner; [|exact Hrows|].
      * f_equal. pose proof (tiles_write F W 0 G [] rows HT eq_refl) as TW. cbn [app] in TW. apply TW.
        unfold zlen in Hlen. lia.
      * (* a tiled axis holds segment writes only *)
        clear -HT. revert HT. generalize 0. generalize G. induction W as [|w W IHW]; intros G0 off HT w0 Hin; [contradiction|].
        cbn [tiles] in HT. destruct w as [q|o vals]; [contradiction|]. destruct HT as [_ [G' [_ HT]]].
        destruct Hin as [<-|Hin]; [eauto|]. eapply IHW; eauto.
Qed.

(* ------------------------------------------------------------------ one chunk: read, post-select, write *)

Definition apart : Type := (sel * option (list Z * (Z * Z)))%type.

Definition w_of_part (p : apart) : witem :=
  match p with
  | ((ps, _), Some (idx, (o1, _))) => WSeg o1 (map (znth ps) idx)
  | ((ps, _), None) => WScalar (hd 0 ps)
  end.

Definition part_good (p : apart) : Prop :=
  match p with
  | ((ps, d), Some (idx, (o1, o2))) => d = false /\ in_range (zlen ps) idx /\ zlen idx = o2 - o1
  | ((ps, d), None) => d = true /\ exists q, ps = [q]
  end.

Lemma in_range_list s k x : In x (range_list s 1 k) -> s <= x < s + Z.of_nat k.
Proof.
  revert s. induction k as [|k IH]; intros s H; [contradiction|].
  rewrite range_list_S in H. destruct H as [<-|H]; [lia|]. apply IH in H. lia.
Qed.

Lemma post_sel_in_range len p idx : 0 <= len -> post_sel len p = Ok idx -> in_range len idx.
Proof.
  intros Hl H. destruct p as [| |is]; cbn in H.
  - injection H as <-. apply Forall_forall. intros x Hx. unfold zrange in Hx. apply in_range_list in Hx. lia.
  - injection H as <-. constructor.
  - apply mapM_ok_Forall2 in H. clear Hl. induction H as [|i q r qs Hq _ IH]; constructor; auto.
    unfold wrap_res in Hq. destruct (wrap len i) eqn:W; [|discriminate]. injection Hq as <-. eapply wrap_range; eauto.
Qed.

Lemma axis_part_good n tot c p : axis_part n tot c = Ok p -> part_good p.
Proof.
  destruct c as [z|s]; cbn [axis_part]; intro H.
  - unfold wrap_res in H. destruct (wrap n z) as [q|]; [|discriminate]. cbn [bind] in H. injection H as <-.
    split; [reflexivity|eauto].
  - destruct (ds_read _ _ _ _) as [ps|]; [|discriminate]. cbn [bind] in H.
    destruct (post_sel _ _) as [idx|] eqn:EP; [|discriminate]. cbn [bind] in H. cbv zeta in H.
    pose proof (post_sel_in_range _ _ _ (zlen_nonneg ps) EP) as Hin.
    destruct (zlen idx =? sg_o2 s - sg_o1 s) eqn:E1.
    + cbn [bind] in H. destruct (_ && _) eqn:E in H; [|discriminate]. injection H as <-.
      split; [reflexivity|]. split; [exact Hin|lia].
    + destruct (zlen idx =? 1) eqn:E2; [|discriminate]. cbn [bind] in H.
      destruct (_ && _) eqn:E in H; [|discriminate]. injection H as <-.
      split; [reflexivity|]. split.
      * assert (L1 : List.length idx = 1%nat) by (unfold zlen in E2; lia).
        destruct idx as [|i [|? ?]]; try discriminate L1. inversion Hin; subst. cbn [hd].
        apply Forall_forall. intros x Hx. apply repeat_spec in Hx. now subst.
      * unfold zlen. rewrite repeat_length. lia.
Qed.

(* read followed by post-selection is one outer selection of the dataset; the output slices are those of the writes *)
Lemma chunk_tree_eq : forall (parts : list apart) ds, Forall part_good parts ->
  take (take ds (part_reads parts)) (part_posts parts) = take ds (map w_sel (map w_of_part parts))
  /\ part_ranges parts = w_ranges (map w_of_part parts).
Proof.
  induction parts as [|[[ps d] [[idx [o1 o2]]|]] parts IH]; intros ds HG.
  - split; reflexivity.
  - inversion HG as [|? ? H1 HG']; subst. cbn [part_good] in H1. destruct H1 as [-> [Hin Hlen]].
    cbn [part_reads map fst part_posts part_ranges w_of_part w_sel w_ranges take].
    fold (part_reads parts). split.
    + f_equal. rewrite map_map. apply map_ext_in. intros i Hi.
      unfold in_range in Hin. rewrite Forall_forall in Hin.
      rewrite child_node_map with (d := 0) by (apply Hin; exact Hi).
      exact (proj1 (IH _ HG')).
    + rewrite zlen_map. rewrite (proj2 (IH ds HG')). f_equal. f_equal. lia.
  - inversion HG as [|? ? H1 HG']; subst. cbn [part_good] in H1. destruct H1 as [-> [q ->]].
    cbn [part_reads map fst part_posts part_ranges w_of_part w_sel w_ranges take hd].
    fold (part_reads parts). split; [exact (proj1 (IH _ HG'))|exact (proj2 (IH ds HG'))].
Qed.

Definition axis_w (n tot : Z) (c : cseg) : res witem := p <- axis_part n tot c ;; Ok (w_of_part p).

Lemma mapM_bind_pure {A B C} (f : A -> res B) (g : B -> C) : forall l,
  mapM (fun x => y <- f x ;; Ok (g y)) l = (ys <- mapM f l ;; Ok (map g ys)).
Proof.
  induction l as [|x r IH]; [reflexivity|]. cbn [mapM]. destruct (f x) as [y|]; [|reflexivity]. cbn [bind].
  rewrite IH. destruct (mapM f r); reflexivity.
Qed.

Lemma mapM_Forall_ok {A B} (f : A -> res B) (P : B -> Prop) : (forall x y, f x = Ok y -> P y) ->
  forall l ys, mapM f l = Ok ys -> Forall P ys.
Proof.
  intros H l ys HM. apply mapM_ok_Forall2 in HM. induction HM; constructor; eauto.
Qed.

(* one iteration of the loop is one abstract step *)
Lemma do_chunk_pure axes ds out cs :
  do_chunk axes ds out cs
  = (ws <- mapM (fun p => axis_w (fst (fst p)) (plan_total (snd (fst p))) (snd p)) (combine axes cs) ;;
     Ok (pure_step ds out ws)).
Proof.
  unfold do_chunk, axis_w. rewrite mapM_bind_pure.
  destruct (mapM _ _) as [parts|] eqn:E; [|reflexivity]. cbn [bind].
  assert (HG : Forall part_good parts).
  { eapply mapM_Forall_ok; [|exact E]. intros x y Hx. eapply axis_part_good; exact Hx. }
  destruct (chunk_tree_eq parts ds HG) as [-> ->]. reflexivity.
Qed.

(* ------------------------------------------------------------------ the loop over the product of the segments *)

Definition csegs_of (a : Z * plan) : list cseg := plan_csegs (snd a).
Definition ws_of (axes : list (Z * plan)) (cs : list cseg) : res (list witem) :=
  mapM (fun p => axis_w (fst (fst p)) (plan_total (snd (fst p))) (snd p)) (combine axes cs).
Definition axis_ws (a : Z * plan) : res (list witem) := mapM (axis_w (fst a) (plan_total (snd a))) (csegs_of a).

Lemma ws_of_cons a axes x cs :
  ws_of (a :: axes) (x :: cs) = (w <- axis_w (fst a) (plan_total (snd a)) x ;; ws <- ws_of axes cs ;; Ok (w :: ws)).
Proof. reflexivity. Qed.

Lemma product_ws : forall axes Ws, mapM axis_ws axes = Ok Ws ->
  map (ws_of axes) (product (map csegs_of axes)) = map Ok (product Ws).
Proof.
  induction axes as [|a axes IH]; intros Ws H; cbn [mapM] in H.
  - injection H as <-. reflexivity.
  - destruct (axis_ws a) as [W|] eqn:EA; [|discriminate]. cbn [bind] in H.
    destruct (mapM axis_ws axes) as [Ws'|] eqn:EM; [|discriminate]. cbn [bind] in H. injection H as <-.
    specialize (IH Ws' eq_refl). cbn [map product].
    unfold axis_ws in EA. apply mapM_ok_Forall2 in EA.
    induction EA as [|x w l W' Hx _ IHl]; [reflexivity|].
    cbn [flat_map]. rewrite !map_app, IHl. f_equal.
    rewrite !map_map.
    transitivity (map (fun r => ws <- r ;; Ok (w :: ws)) (map (ws_of axes) (product (map csegs_of axes)))).
    + rewrite map_map. apply map_ext. intro cs. rewrite ws_of_cons, Hx. reflexivity.
    + rewrite IH, map_map. reflexivity.
Qed.

Lemma fold_res_map_ok {A B C} (h : B -> res C) (k : A -> C -> A) : forall l l' a, map h l = map Ok l' ->
  fold_res (fun a x => y <- h x ;; Ok (k a y)) l a = Ok (fold_left k l' a).
Proof.
  induction l as [|x r IH]; intros l' a H; destruct l' as [|y r']; try discriminate; [reflexivity|].
  cbn [map] in H. injection H as Hx Hr. cbn [fold_res fold_left]. rewrite Hx. cbn [bind]. now apply IH.
Qed.

Lemma fold_res_ok_forall {A B C} (h : B -> res C) (k : A -> C -> A) : forall l a t,
  fold_res (fun a x => y <- h x ;; Ok (k a y)) l a = Ok t -> Forall (fun x => h x <> Err) l.
Proof.
  induction l as [|x r IH]; intros a t H; [constructor|]. cbn [fold_res] in H.
  destruct (h x) as [y|] eqn:E; [|discriminate]. cbn [bind] in H. constructor; [congruence|eapply IH; exact H].
Qed.

Lemma mapM_all_ok {A B} (f : A -> res B) : forall l, (forall x, In x l -> f x <> Err) -> exists ys, mapM f l = Ok ys.
Proof.
  induction l as [|x r IH]; intro H; [exists []; reflexivity|].
  destruct (f x) as [y|] eqn:E; [|exfalso; apply (H x (or_introl eq_refl)); exact E].
  destruct IH as [ys Hy]; [intros z Hz; apply H; now right|].
  exists (y :: ys). cbn [mapM]. rewrite E. cbn [bind]. rewrite Hy. reflexivity.
Qed.

Lemma product_nonempty {A} : forall (ls : list (list A)), Forall (fun l => l <> []) ls -> product ls <> [].
Proof.
  induction 1 as [|l ls Hl _ IH]; cbn [product]; [discriminate|].
  destruct l as [|x l]; [congruence|]. cbn [flat_map]. destruct (product ls) as [|c P]; [congruence|discriminate].
Qed.

Lemma in_product_cons {A} (x : A) cs l ls : In x l -> In cs (product ls) -> In (x :: cs) (product (l :: ls)).
Proof. intros Hx Hc. cbn [product]. apply in_flat_map. exists x. split; [exact Hx|]. now apply in_map. Qed.

(* if every iteration succeeds, every segment of every axis could be read, post-selected and written *)
Lemma product_ok_axes : forall axes, Forall (fun a => csegs_of a <> []) axes ->
  Forall (fun cs => ws_of axes cs <> Err) (product (map csegs_of axes)) -> exists Ws, mapM axis_ws axes = Ok Ws.
Proof.
  induction axes as [|a axes IH]; intros Hne HF; [exists []; reflexivity|].
  inversion Hne as [|? ? Ha Hne']; subst. cbn [map] in HF. rewrite Forall_forall in HF.
  assert (HP : product (map csegs_of axes) <> []).
  { apply product_nonempty. clear -Hne'. induction Hne'; cbn; constructor; auto. }
  destruct (product (map csegs_of axes)) as [|cs0 P] eqn:EP; [congruence|].
  destruct (csegs_of a) as [|x0 l] eqn:EL; [congruence|].
  assert (H1 : exists W, axis_ws a = Ok W).
  { unfold axis_ws. rewrite EL. apply mapM_all_ok. intros x Hx E.
    apply (HF (x :: cs0)); [apply in_product_cons; [exact Hx|rewrite EP; now left]|]. rewrite ws_of_cons, E. reflexivity. }
  assert (H2 : exists Ws, mapM axis_ws axes = Ok Ws).
  { apply IH; [exact Hne'|]. apply Forall_forall. intros cs Hcs E.
    apply (HF (x0 :: cs)); [apply in_product_cons; [now left|rewrite EP; exact Hcs]|]. rewrite ws_of_cons, E.
    destruct (axis_w _ _ x0); reflexivity. }
  destruct H1 as [W HW], H2 as [Ws HWs]. exists (W :: Ws). cbn [mapM]. rewrite HW. cbn [bind]. rewrite HWs. reflexivity.
Qed.

(* the chunk loop succeeds exactly with the abstract loop over the writes of the axes *)
Lemma chunk_loop_pure axes ds g t : Forall (fun a => csegs_of a <> []) axes ->
  fold_res (do_chunk axes ds) (product (map csegs_of axes)) g = Ok t ->
  exists Ws, mapM axis_ws axes = Ok Ws /\ t = pure_loop ds Ws g.
Proof.
  intros Hne H.
  assert (E : forall l a, fold_res (do_chunk axes ds) l a = fold_res (fun a x => y <- ws_of axes x ;; Ok (pure_step ds a y)) l a).
  { induction l as [|x r IHl]; intro a; [reflexivity|]. cbn [fold_res]. rewrite do_chunk_pure. fold (ws_of axes x).
    destruct (ws_of axes x); [|reflexivity]. cbn [bind]. apply IHl. }
  rewrite E in H.
  destruct (product_ok_axes axes Hne (fold_res_ok_forall _ _ _ _ _ H)) as [Ws HW].
  exists Ws. split; [exact HW|].
  rewrite (fold_res_map_ok _ _ _ _ g (product_ws axes Ws HW)) in H. now injection H as <-.
Qed.

(* ------------------------------------------------------------------ the plans of LazyIndexer tile their output *)

Fixpoint seg_tiles (off : Z) (l : list seg) : Prop :=
  match l with [] => True | s :: r => sg_o1 s = off /\ seg_tiles (sg_o2 s) r end.

Definition plan_tiled (p : plan) : Prop :=
  match p with PScalar _ => True | PSegs l => l <> [] /\ seg_tiles 0 l end.

Lemma sparse_tiles : forall rs off, seg_tiles off (sparse_segs off rs).
Proof. induction rs as [|[s e] r IH]; intro off; cbn [sparse_segs seg_tiles sg_o1 sg_o2]; auto. Qed.

Lemma adv_plan_tiled n l p : adv_plan n l = Ok p -> plan_tiled p.
Proof.
  unfold adv_plan. destruct l as [|x r].
  - intro H; injection H as <-. cbn. split; [discriminate|auto].
  - destruct (lazy_out_of_range _ _ _); [discriminate|]. intro H; injection H as <-.
    unfold adv_segs. destruct (dense _ _ _).
    + cbn. split; [discriminate|auto].
    + cbn [plan_tiled]. split; [|apply sparse_tiles].
      unfold segments. pose proof (runs_nonempty r x x) as NE.
      destruct (runs x x r) as [|[s e] t]; [congruence|discriminate].
Qed.

Lemma axis_plan_tiled n m p : axis_plan n m = Ok p -> plan_tiled p.
Proof.
  destruct m as [z|a b c|msk|l]; cbn [axis_plan].
  - intro H; injection H as <-. exact Logic.I.
  - destruct (slice_indices n a b c) as [[[s e] st]|]; [|discriminate]. intro H; injection H as <-.
    cbn. split; [discriminate|auto].
  - destruct (zlen msk =? n); [|discriminate]. apply adv_plan_tiled.
  - destruct (sorted_ok l); [|discriminate]. apply adv_plan_tiled.
Qed.

(* ------------------------------------------------------------------ one axis: the writes and the 1-D gather agree *)

Lemma map_znth_range : forall (l pre : list Z),
  map (znth (pre ++ l)) (range_list (zlen pre) 1 (List.length l)) = l.
Proof.
  induction l as [|x l IH]; intro pre; [reflexivity|].
  cbn [List.length]. rewrite range_list_S. cbn [map]. f_equal.
  - unfold znth, zlen. rewrite Nat2Z.id, app_nth2 by lia. now rewrite Nat.sub_diag.
  - replace (pre ++ x :: l) with ((pre ++ [x]) ++ l) by (now rewrite <- app_assoc).
    replace (zlen pre + 1) with (zlen (pre ++ [x])) by (rewrite zlen_app; reflexivity).
    apply IH.
Qed.

Lemma map_znth_zrange (l : list Z) : map (znth l) (zrange (zlen l)) = l.
Proof. unfold zrange, zlen. rewrite Nat2Z.id. exact (map_znth_range l []). Qed.

Lemma post_select_post_sel p chunk :
  post_select p chunk = (idx <- post_sel (zlen chunk) p ;; Ok (map (znth chunk) idx)).
Proof.
  destruct p as [| |is]; cbn [post_select post_sel bind].
  - now rewrite map_znth_zrange.
  - reflexivity.
  - unfold np_take. induction is as [|i r IH]; [reflexivity|]. cbn [mapM].
    unfold np_get at 1, wrap_res at 1. destruct (wrap (zlen chunk) i) as [q|]; [|reflexivity]. cbn [bind].
    rewrite IH. destruct (mapM (wrap_res (zlen chunk)) r); reflexivity.
Qed.

Lemma map_repeat {A B} (f : A -> B) x k : map f (repeat x k) = repeat (f x) k.
Proof. induction k; cbn; [reflexivity|]. now rewrite IHk. Qed.

Lemma axis_w_seg n tot s w : axis_w n tot (CSeg s) = Ok w ->
  exists ps vals vals', ds_read n (sg_start s) (sg_stop s) (sg_step s) = Ok ps /\ post_select (sg_post s) ps = Ok vals
    /\ w = WSeg (sg_o1 s) vals' /\ zlen vals' = sg_o2 s - sg_o1 s
    /\ forall out, assign out (sg_o1 s) (sg_o2 s) vals = Ok (write_at out (Z.to_nat (sg_o1 s)) vals').
Proof.
  unfold axis_w. cbn [axis_part]. intro H.
  destruct (ds_read _ _ _ _) as [ps|]; [|discriminate]. cbn [bind] in H.
  destruct (post_sel _ _) as [idx|] eqn:EP; [|discriminate]. cbn [bind] in H. cbv zeta in H.
  exists ps, (map (znth ps) idx).
  destruct (zlen idx =? sg_o2 s - sg_o1 s) eqn:E1.
  - cbn [bind] in H. destruct (_ && _) eqn:E in H; [|discriminate]. cbn [bind w_of_part] in H. injection H as <-.
    exists (map (znth ps) idx). split; [reflexivity|]. split; [rewrite post_select_post_sel, EP; reflexivity|].
    split; [reflexivity|]. rewrite zlen_map. split; [lia|]. intro out. unfold assign. rewrite zlen_map, E1. reflexivity.
  - destruct (zlen idx =? 1) eqn:E2; [|discriminate]. cbn [bind] in H.
    destruct (_ && _) eqn:E in H; [|discriminate]. cbn [bind w_of_part] in H. injection H as <-.
    eexists. split; [reflexivity|]. split; [rewrite post_select_post_sel, EP; reflexivity|].
    split; [reflexivity|]. rewrite zlen_map. split; [unfold zlen; rewrite repeat_length; lia|].
    intro out. unfold assign. rewrite zlen_map, E1, E2. rewrite map_repeat.
    assert (L1 : List.length idx = 1%nat) by (unfold zlen in E2; lia).
    destruct idx as [|i [|? ?]]; try discriminate L1. reflexivity.
Qed.

Lemma segs_gather n tot : forall l W off done m, seg_tiles off l -> zlen done = off ->
  mapM (axis_w n tot) (map CSeg l) = Ok W ->
  exists G, tiles off W G /\ seg_total l = zlen G
    /\ ((List.length G <= m)%nat ->
        do_segs n (map Some done ++ repeat None m) l = Ok (map Some (done ++ G) ++ repeat None (m - List.length G))).
Proof.
  induction l as [|s r IH]; intros W off done m HT Hd HM.
  - cbn in HM. injection HM as <-. exists []. cbn. split; [reflexivity|]. split; [reflexivity|].
    intros _. now rewrite app_nil_r, Nat.sub_0_r.
  - cbn [seg_tiles] in HT. destruct HT as [Ho HT]. cbn [map mapM] in HM.
    destruct (axis_w n tot (CSeg s)) as [w|] eqn:EW; [|discriminate]. cbn [bind] in HM.
    destruct (mapM _ (map CSeg r)) as [W'|] eqn:EM; [|discriminate]. cbn [bind] in HM. injection HM as <-.
    destruct (axis_w_seg _ _ _ _ EW) as [ps [vals0 [vals [ER [EP [-> [EL EA]]]]]]].
    destruct (IH W' (sg_o2 s) (done ++ vals) (m - List.length vals)%nat HT ltac:(rewrite zlen_app; lia) eq_refl) as [G' [T' [S' D']]].
    exists (vals ++ G'). split.
    + cbn [tiles]. split; [exact Ho|]. exists G'. split; [reflexivity|].
      replace (off + zlen vals) with (sg_o2 s) by lia. exact T'.
    + split.
      * cbn [seg_total fold_right]. fold (seg_total r). rewrite S', zlen_app. lia.
      * intro Hm. rewrite app_length in Hm. cbn [do_segs]. unfold do_seg. rewrite ER. cbn [bind]. rewrite EP. cbn [bind].
        rewrite EA. cbn [bind].
        replace (Z.to_nat (sg_o1 s)) with (List.length done) by (unfold zlen in Hd; lia).
        rewrite write_at_fill by lia. rewrite D' by lia.
        rewrite <- app_assoc, app_length. f_equal. f_equal. f_equal. lia.
Qed.

Definition shape_item (G : sel) : list Z := if snd G then [] else [zlen (fst G)].
Definition plan_shape_item (p : plan) : list Z := match p with PScalar _ => [] | PSegs l => [seg_total l] end.

Lemma take_shape_items : forall Gs, take_shape Gs = flat_map shape_item Gs.
Proof. induction Gs as [|[g d] r IH]; [reflexivity|]. cbn [take_shape flat_map]. unfold shape_item at 1. cbn [fst snd]. destruct d; cbn; now rewrite IH. Qed.

(* one axis: if all its segments can be read, post-selected and written, the 1-D model gathers exactly the tiled values *)
Lemma axis_ws_gather a W : plan_tiled (snd a) -> axis_ws a = Ok W ->
  exists G, axis_gather (fst a) (snd a) = Ok G /\ axis_tiled W G /\ shape_item G = plan_shape_item (snd a).
Proof.
  destruct a as [n p]. cbn [fst snd]. unfold axis_ws, csegs_of. cbn [fst snd]. intros HT HW.
  destruct p as [z|l]; cbn [plan_csegs] in HW.
  - cbn [mapM] in HW. unfold axis_w at 1 in HW. cbn [axis_part] in HW. unfold wrap_res in *.
    cbn [axis_gather]. unfold wrap_res. destruct (wrap n z) as [q|]; [|discriminate].
    cbn [bind w_of_part hd] in HW. injection HW as <-.
    exists ([q], true). split; [reflexivity|]. split; [|reflexivity]. unfold axis_tiled. cbn [fst snd]. eauto.
  - cbn [plan_tiled] in HT. destruct HT as [Hne HT].
    destruct (segs_gather n (plan_total (PSegs l)) l W 0 [] (Z.to_nat (seg_total l)) HT eq_refl HW) as [G [TG [SG DG]]].
    exists (G, false). split; [|split].
    + cbn [axis_gather]. cbn [map app] in DG. rewrite DG by (unfold zlen in SG; lia).
      cbn [bind]. replace (Z.to_nat (seg_total l) - List.length G)%nat with 0%nat by (unfold zlen in SG; lia).
      cbn [repeat]. rewrite app_nil_r, all_filled_some. reflexivity.
    + unfold axis_tiled. cbn [fst snd]. split; [|split; [lia|exact TG]].
      apply mapM_ok_length in HW. rewrite map_length in HW. destruct l; [congruence|]. destruct W; [discriminate|discriminate].
    + unfold shape_item. cbn [fst snd plan_shape_item]. now rewrite SG.
Qed.

Lemma axes_gather : forall axes Ws, Forall (fun a => plan_tiled (snd a)) axes -> mapM axis_ws axes = Ok Ws ->
  exists Gs, mapM (fun a => axis_gather (fst a) (snd a)) axes = Ok Gs /\ Forall2 axis_tiled Ws Gs
    /\ take_shape Gs = out_shape_of (map snd axes).
Proof.
  induction axes as [|a axes IH]; intros Ws HT HM; cbn [mapM] in HM.
  - injection HM as <-. exists []. repeat split. constructor.
  - inversion HT as [|? ? Ha HT']; subst.
    destruct (axis_ws a) as [W|] eqn:EA; [|discriminate]. cbn [bind] in HM.
    destruct (mapM axis_ws axes) as [Ws'|] eqn:EM; [|discriminate]. cbn [bind] in HM. injection HM as <-.
    destruct (axis_ws_gather a W Ha EA) as [G [HG [TG SG]]].
    destruct (IH Ws' HT' eq_refl) as [Gs [HGs [TGs SGs]]].
    exists (G :: Gs). cbn [mapM]. rewrite HG. cbn [bind]. rewrite HGs. cbn [bind]. split; [reflexivity|].
    split; [constructor; assumption|].
    rewrite take_shape_items in *. cbn [flat_map map out_shape_of]. rewrite SGs, SG.
    unfold out_shape_of. destruct (snd a); reflexivity.
Qed.

(* ------------------------------------------------------------------ nd_extract refines the outer product *)

Lemma map_snd_combine {A B} : forall (l : list A) (l' : list B), List.length l' = List.length l -> map snd (combine l l') = l'.
Proof. induction l as [|x l IH]; intros [|y l'] H; try discriminate; [reflexivity|]. cbn. f_equal. apply IH. now injection H. Qed.

Lemma map_fst_combine {A B} : forall (l : list A) (l' : list B), List.length l' = List.length l -> map fst (combine l l') = l.
Proof. induction l as [|x l IH]; intros [|y l'] H; try discriminate; [reflexivity|]. cbn. f_equal. apply IH. now injection H. Qed.

(* THE refinement: whenever the chunk loop (or the all-scalar read) succeeds - for ANY content of the np.empty buffer -
   every axis gathers in the 1-D model and the result is the outer product of the per-axis gathers *)
Lemma nd_extract_sound garbage shape plans ds t :
  List.length plans = List.length shape -> Forall plan_tiled plans ->
  (forall sh, shaped sh (garbage sh)) ->
  nd_extract garbage shape plans ds = Ok t ->
  exists sels, mapM (fun a => axis_gather (fst a) (snd a)) (combine shape plans) = Ok sels
    /\ t = take ds sels /\ take_shape sels = out_shape_of plans.
Proof.
  intros HL HT Hg H. unfold nd_extract in H.
  set (axes := combine shape plans) in *.
  assert (HS : map snd axes = plans) by (unfold axes; now apply map_snd_combine).
  assert (HTa : Forall (fun a => plan_tiled (snd a)) axes).
  { apply Forall_forall. intros a Ha. rewrite Forall_forall in HT. apply HT. rewrite <- HS. now apply in_map. }
  destruct (forallb plan_is_scalar plans) eqn:ES.
  - (* every axis selected by a scalar: one read *)
    destruct (mapM _ axes) as [rs|] eqn:EM in H; [|discriminate]. cbn [bind] in H. injection H as <-.
    assert (HA : forall a, In a axes -> exists z, snd a = PScalar z).
    { intros a Ha. rewrite forallb_forall in ES. specialize (ES (snd a)). rewrite <- HS in ES.
      specialize (ES (in_map _ _ _ Ha)). destruct (snd a); [eauto|discriminate]. }
    exists rs. split; [|split; [reflexivity|]].
    + rewrite <- EM. apply mapM_ext_in. intros a Ha. destruct (HA a Ha) as [z ->]. reflexivity.
    + rewrite <- HS. clear -EM HA. revert rs EM. induction axes as [|a axes IH]; intros rs EM; cbn [mapM] in EM.
      * now injection EM as <-.
      * destruct (HA a (or_introl eq_refl)) as [z Hz]. rewrite Hz in EM. cbn [scalar_sel] in EM.
        destruct (wrap_res (fst a) z); [|discriminate]. cbn [bind] in EM.
        destruct (mapM _ axes) as [rs'|] eqn:E; [|discriminate]. cbn [bind] in EM. injection EM as <-.
        cbn [take_shape map out_shape_of flat_map]. rewrite Hz. cbn [app].
        apply IH; [intros b Hb; apply HA; now right|reflexivity].
  - assert (Hne : Forall (fun a => csegs_of a <> []) axes).
    { apply Forall_forall. intros a Ha. rewrite Forall_forall in HTa. specialize (HTa a Ha).
      unfold csegs_of. destruct (snd a) as [z|l]; cbn [plan_csegs]; [discriminate|].
      cbn [plan_tiled] in HTa. destruct l; [tauto|discriminate]. }
    destruct (chunk_loop_pure axes ds _ t Hne H) as [Ws [HW ->]].
    destruct (axes_gather axes Ws HTa HW) as [Gs [HG [TG SG]]].
    rewrite HS in SG. exists Gs. split; [exact HG|]. split; [|exact SG].
    apply pure_loop_correct; [exact TG|]. rewrite SG. apply Hg.
Qed.

Lemma mapM_bind_combine {A B C} (f : A -> res B) (g : A -> B -> res C) : forall l ys, mapM f l = Ok ys ->
  mapM (fun x => y <- f x ;; g x y) l = mapM (fun p => g (fst p) (snd p)) (combine l ys).
Proof.
  induction l as [|x r IH]; intros ys H; cbn [mapM] in H.
  - injection H as <-. reflexivity.
  - destruct (f x) as [y|] eqn:E; [|discriminate]. cbn [bind] in H.
    destruct (mapM f r) as [ys'|] eqn:E2; [|discriminate]. cbn [bind] in H. injection H as <-.
    cbn [combine mapM fst snd]. rewrite E. cbn [bind]. now rewrite (IH ys' eq_refl).
Qed.

Lemma mapM_combine_map {A B C D} (h : A -> D) (g : D -> B -> res C) : forall (l : list A) (ys : list B),
  mapM (fun p => g (h (fst p)) (snd p)) (combine l ys) = mapM (fun p => g (fst p) (snd p)) (combine (map h l) ys).
Proof. induction l as [|x r IH]; intros [|y ys]; try reflexivity. cbn [map combine mapM fst snd]. now rewrite IH. Qed.

(* getitem_nd (the chunk loop) refines getitem (outer product of the per-axis gathers) *)
Lemma getitem_nd_refines garbage li ds ixs out :
  List.length (li_lookup li) = List.length (li_shape li) ->
  (forall sh, shaped sh (garbage sh)) ->
  getitem_nd garbage li ds ixs = Ok out -> getitem li ds ixs = Ok out.
Proof.
  intros HLk Hg H. unfold getitem_nd in H.
  destruct (lazy_plans li ixs) as [plans|] eqn:EP; [|discriminate]. cbn [bind] in H.
  destruct (nd_extract _ _ _ _) as [t|] eqn:EN; [|discriminate]. cbn [bind] in H.
  unfold lazy_plans in EP.
  set (L3 := combine (combine (li_shape li) (li_lookup li)) (pad_to (List.length (li_shape li)) ixs)) in *.
  assert (HL3 : List.length L3 = List.length (li_shape li)).
  { unfold L3. rewrite !combine_length, pad_to_length. lia. }
  assert (Hlen : List.length plans = List.length (li_shape li)) by (apply mapM_ok_length in EP; lia).
  assert (HT : Forall plan_tiled plans).
  { eapply mapM_Forall_ok; [|exact EP]. intros x y Hx. cbn beta in Hx.
    destruct (map_stage2 _ _) as [m|]; [|discriminate]. cbn [bind] in Hx. eapply axis_plan_tiled; exact Hx. }
  destruct (nd_extract_sound _ _ _ _ _ Hlen HT Hg EN) as [sels [HG [-> HSh]]].
  unfold getitem, lazy_sels. fold L3.
  assert (ES : mapM (fun p => axis_sel (fst (fst p)) (snd (fst p)) (snd p)) L3 = Ok sels).
  { unfold axis_sel.
    transitivity (mapM (fun x => y <- (m <- map_stage2 (snd (fst x)) (snd x) ;; axis_plan (fst (fst x)) m) ;;
                               axis_gather (fst (fst x)) y) L3).
    { apply mapM_ext_in. intros x _. destruct (map_stage2 _ _); reflexivity. }
    rewrite (mapM_bind_combine _ (fun x y => axis_gather (fst (fst x)) y) L3 plans EP).
    rewrite (mapM_combine_map (fun x => fst (fst x)) axis_gather).
    replace (map (fun x => fst (fst x)) L3) with (li_shape li); [exact HG|].
    unfold L3. rewrite <- map_map. rewrite map_fst_combine by (rewrite pad_to_length, combine_length; lia).
    now rewrite map_fst_combine. }
  rewrite ES. cbn [bind]. rewrite HSh. exact H.
Qed.

Lemma mk_lazy_lookup_length shape k1 ts dt li : mk_lazy shape k1 ts dt = Ok li ->
  List.length (li_lookup li) = List.length (li_shape li).
Proof.
  unfold mk_lazy. destruct (mapM _ _) as [lks|] eqn:E; [|discriminate]. cbn [bind].
  destruct (lazy_shape _); [|discriminate]. cbn [bind]. intro H; injection H as <-. cbn [li_lookup li_shape].
  apply mapM_ok_length in E. rewrite E, combine_length, pad_to_length. lia.
Qed.

(* C05_getitem for the indexer WITH its chunk loop: whatever np.empty holds *)
Lemma getitem_nd_correct garbage shape ds k1 ts dt k2 li out a1 :
  Forall (fun d => 0 <= d) shape -> (forall sh, shaped sh (garbage sh)) ->
  mk_lazy shape k1 ts dt = Ok li ->
  oindex_keep (mk_nd shape ds) k1 = Ok a1 ->
  getitem_nd garbage li ds k2 = Ok out ->
  spec_getitem shape ds k1 ts dt k2 = Ok out.
Proof.
  intros Hs Hg HM H1 HG. eapply getitem_correct; eauto.
  eapply getitem_nd_refines; eauto. eapply mk_lazy_lookup_length; eauto.
Qed.

(* the answer does not depend on the garbage: two buffers give the same answer when both loops succeed *)
Lemma getitem_nd_garbage_free g1 g2 li ds ixs o1 o2 :
  List.length (li_lookup li) = List.length (li_shape li) ->
  (forall sh, shaped sh (g1 sh)) -> (forall sh, shaped sh (g2 sh)) ->
  getitem_nd g1 li ds ixs = Ok o1 -> getitem_nd g2 li ds ixs = Ok o2 -> o1 = o2.
Proof.
  intros HL H1 H2 E1 E2. apply (getitem_nd_refines _ _ _ _ _ HL H1) in E1. apply (getitem_nd_refines _ _ _ _ _ HL H2) in E2.
  congruence.
Qed.

(* non-vacuity: dense + sparse + scalar axes, 3-d, through the loop with a sentinel buffer *)
Definition run_lazy_nd (shape : list Z) (k1 k2 : list aidx) : res arr :=
  li <- mk_lazy shape k1 [] 0 ;; getitem_nd (const_tree garbage_value) li (arange shape 0) k2.

Lemma lazy_nd_example :
  run_lazy_nd [12; 3; 4] [ASlice (Some 1) None None; AMask [true; false; true]] [AList [0; 2; 3; 7; 9]; AInt (-1); AList [0; 3]]
  = spec_getitem [12; 3; 4] (arange [12; 3; 4] 0) [ASlice (Some 1) None None; AMask [true; false; true]] [] 0
                 [AList [0; 2; 3; 7; 9]; AInt (-1); AList [0; 3]]
  /\ run_lazy_nd [12; 3; 4] [ASlice (Some 1) None None; AMask [true; false; true]] [AList [0; 2; 3; 7; 9]; AInt (-1); AList [0; 3]] <> Err
  /\ run_lazy_nd [5; 2] [] [AInt 1; AInt 0] = spec_getitem [5; 2] (arange [5; 2] 0) [] [] 0 [AInt 1; AInt 0]
  /\ run_lazy_nd [5; 2] [] [AList []; AInt 5] = Err
  /\ run_lazy_nd [5] [] [ASlice None None (Some (-1))] = Err.
Proof. repeat split; vm_compute; try reflexivity; discriminate. Qed.

(* ------------------------------------------------------------------ completeness: the loop answers whenever the 1-D model does *)

Definition plan_mono (p : plan) : Prop :=
  match p with PScalar _ => True | PSegs l => Forall (fun s => sg_o1 s <= sg_o2 s) l end.

Lemma sparse_mono : forall rs off, Forall (fun p => fst p <= snd p) rs ->
  Forall (fun s => sg_o1 s <= sg_o2 s) (sparse_segs off rs).
Proof.
  induction rs as [|[s e] r IH]; intros off H; cbn [sparse_segs]; [constructor|].
  inversion H; subst. cbn in *. constructor; [cbn; lia|apply IH; assumption].
Qed.

Lemma adv_plan_mono n l p : increasing l = true -> adv_plan n l = Ok p -> plan_mono p.
Proof.
  intro Hinc. unfold adv_plan. destruct l as [|x r].
  - intro H; injection H as <-. cbn. constructor; [cbn; lia|constructor].
  - unfold lazy_out_of_range. destruct ((x <? 0) || (n <=? last (x :: r) 0)) eqn:E; [discriminate|].
    intro H; injection H as <-. unfold adv_segs. destruct (dense _ _ _).
    + cbn [plan_mono]. constructor; [cbn [sg_o1 sg_o2]; apply zlen_nonneg|constructor].
    + cbn [plan_mono]. apply sparse_mono.
      pose proof (increasing_last_ub _ _ Hinc) as Hub.
      assert (Hb : Forall (fun p => 0 <= fst p /\ fst p <= snd p /\ snd p <= last (x :: r) 0 + 1) (segments (x :: r))).
      { unfold segments. apply runs_bounds; auto; try lia.
        eapply Forall_impl; [|exact Hub]. intros a Ha. cbn beta in Ha. lia. }
      eapply Forall_impl; [|exact Hb]. cbn. intros; lia.
Qed.

Lemma axis_plan_mono n m p : 0 <= n -> axis_plan n m = Ok p -> plan_mono p.
Proof.
  intro Hn. destruct m as [z|a b c|msk|l]; cbn [axis_plan].
  - intro H; injection H as <-. exact Logic.I.
  - destruct (slice_indices n a b c) as [[[s e] st]|] eqn:E; [|discriminate]. intro H; injection H as <-.
    destruct (slice_indices_bounds _ _ _ _ _ _ _ Hn E) as [H0 _].
    cbn. constructor; [cbn; pose proof (range_len_nonneg s e st H0); lia|constructor].
  - destruct (zlen msk =? n); [|discriminate]. apply adv_plan_mono. apply nonzero_from_increasing.
  - rewrite sorted_ok_increasing. destruct (increasing l) eqn:E; [|discriminate]. now apply adv_plan_mono.
Qed.

Lemma seg_total_nonneg l : Forall (fun s => sg_o1 s <= sg_o2 s) l -> 0 <= seg_total l.
Proof. induction 1 as [|s r Hs _ IH]; cbn; [lia|]. fold (seg_total r). lia. Qed.

Lemma tiled_bounds : forall l off, seg_tiles off l -> Forall (fun s => sg_o1 s <= sg_o2 s) l ->
  Forall (fun s => off <= sg_o1 s /\ sg_o2 s <= off + seg_total l) l.
Proof.
  induction l as [|s r IH]; intros off HT HM; [constructor|].
  cbn [seg_tiles] in HT. destruct HT as [Ho HT]. inversion HM as [|? ? Hs HM']; subst.
  pose proof (seg_total_nonneg r HM') as Hr.
  cbn [seg_total fold_right]. fold (seg_total r). constructor; [lia|].
  eapply Forall_impl; [|exact (IH (sg_o2 s) HT HM')]. cbn. intros a [A1 A2]. lia.
Qed.

Lemma do_segs_each n : forall l out out', do_segs n out l = Ok out' ->
  Forall (fun s => exists o1 o2, do_seg n o1 s = Ok o2) l.
Proof.
  induction l as [|s r IH]; intros out out' H; [constructor|]. cbn [do_segs] in H.
  destruct (do_seg n out s) as [o|] eqn:E; [|discriminate]. cbn [bind] in H.
  constructor; [eauto|eapply IH; exact H].
Qed.

(* a segment the 1-D model can read, post-select and assign is accepted by the loop *)
Lemma do_seg_axis_w n tot s o1 o2 : do_seg n o1 s = Ok o2 ->
  0 <= sg_o1 s -> sg_o1 s <= sg_o2 s -> sg_o2 s <= tot -> exists w, axis_w n tot (CSeg s) = Ok w.
Proof.
  intros H B1 B2 B3. unfold do_seg in H.
  destruct (ds_read _ _ _ _) as [ps|] eqn:ER; [|discriminate]. cbn [bind] in H.
  rewrite post_select_post_sel in H.
  destruct (post_sel (zlen ps) (sg_post s)) as [idx|] eqn:EP; [|discriminate]. cbn [bind] in H.
  unfold assign in H. rewrite zlen_map in H.
  unfold axis_w. cbn [axis_part]. rewrite ER. cbn [bind]. rewrite EP. cbn [bind]. cbv zeta.
  assert (EB : (0 <=? sg_o1 s) && (sg_o1 s <=? sg_o2 s) && (sg_o2 s <=? tot) = true) by lia.
  destruct (zlen idx =? sg_o2 s - sg_o1 s).
  - cbn [bind]. rewrite EB. cbn [bind]. eauto.
  - destruct (zlen idx =? 1); [|discriminate]. cbn [bind]. rewrite EB. cbn [bind]. eauto.
Qed.

Lemma axis_gather_ws a G : plan_tiled (snd a) -> plan_mono (snd a) -> axis_gather (fst a) (snd a) = Ok G ->
  exists W, axis_ws a = Ok W.
Proof.
  destruct a as [n p]. cbn [fst snd]. intros HT HM HG. unfold axis_ws, csegs_of. cbn [fst snd].
  destruct p as [z|l]; cbn [plan_csegs].
  - cbn [axis_gather] in HG. cbn [mapM]. unfold axis_w. cbn [axis_part].
    destruct (wrap_res n z); [|discriminate]. cbn [bind]. eauto.
  - cbn [plan_tiled plan_mono plan_total] in *. destruct HT as [_ HT].
    cbn [axis_gather] in HG. destruct (do_segs _ _ _) as [out|] eqn:ED; [|discriminate].
    pose proof (do_segs_each _ _ _ _ ED) as HE. pose proof (tiled_bounds l 0 HT HM) as HB.
    apply mapM_all_ok. intros c Hc. apply in_map_iff in Hc. destruct Hc as [s [<- Hs]].
    rewrite Forall_forall in HE, HB, HM. destruct (HE s Hs) as [o1 [o2 Ho]]. destruct (HB s Hs) as [B1 B2].
    destruct (do_seg_axis_w n (seg_total l) s o1 o2 Ho ltac:(lia) (HM s Hs) ltac:(lia)) as [w Hw]. congruence.
Qed.

Lemma nd_extract_complete garbage shape plans ds sels :
  List.length plans = List.length shape -> Forall plan_tiled plans -> Forall plan_mono plans ->
  (forall sh, shaped sh (garbage sh)) ->
  mapM (fun a => axis_gather (fst a) (snd a)) (combine shape plans) = Ok sels ->
  nd_extract garbage shape plans ds = Ok (take ds sels) /\ take_shape sels = out_shape_of plans.
Proof.
  intros HL HT HM Hg HG. unfold nd_extract.
  set (axes := combine shape plans) in *.
  assert (HS : map snd axes = plans) by (unfold axes; now apply map_snd_combine).
  assert (HTa : Forall (fun a => plan_tiled (snd a)) axes).
  { apply Forall_forall. intros a Ha. rewrite Forall_forall in HT. apply HT. rewrite <- HS. now apply in_map. }
  assert (HMa : Forall (fun a => plan_mono (snd a)) axes).
  { apply Forall_forall. intros a Ha. rewrite Forall_forall in HM. apply HM. rewrite <- HS. now apply in_map. }
  (* every axis has its writes *)
  assert (HW : exists Ws, mapM axis_ws axes = Ok Ws).
  { apply mapM_all_ok. intros a Ha E. rewrite Forall_forall in HTa, HMa.
    destruct (mapM_ok_in _ _ _ a HG Ha) as [G EG].
    destruct (axis_gather_ws a G (HTa a Ha) (HMa a Ha) EG) as [W EW]. congruence. }
  destruct HW as [Ws HW].
  destruct (axes_gather axes Ws HTa HW) as [Gs [HG' [TG SG]]].
  rewrite HG in HG'. injection HG' as <-. rewrite HS in SG. split; [|exact SG].
  destruct (forallb plan_is_scalar plans) eqn:ES.
  - assert (E : mapM (fun a => scalar_sel (fst a) (snd a)) axes = Ok sels).
    { rewrite <- HG. apply mapM_ext_in. intros a Ha. rewrite forallb_forall in ES. specialize (ES (snd a)).
      rewrite <- HS in ES. specialize (ES (in_map _ _ _ Ha)). destruct (snd a); [reflexivity|discriminate]. }
    rewrite E. reflexivity.
  - assert (E : forall l a, fold_res (do_chunk axes ds) l a = fold_res (fun a x => y <- ws_of axes x ;; Ok (pure_step ds a y)) l a).
    { induction l as [|x r IHl]; intro a; [reflexivity|]. cbn [fold_res]. rewrite do_chunk_pure. fold (ws_of axes x).
      destruct (ws_of axes x); [|reflexivity]. cbn [bind]. apply IHl. }
    rewrite E. fold (csegs_of). change (map (fun a => plan_csegs (snd a)) axes) with (map csegs_of axes).
    rewrite (fold_res_map_ok _ _ _ _ _ (product_ws axes Ws HW)). f_equal.
    apply pure_loop_correct; [exact TG|]. rewrite SG. apply Hg.
Qed.

(* getitem_nd IS getitem: the chunk loop neither changes an answer nor rejects a request the per-axis model accepts *)
Lemma getitem_nd_equiv garbage shape k1 ts dt li ds ixs :
  Forall (fun d => 0 <= d) shape -> (forall sh, shaped sh (garbage sh)) ->
  mk_lazy shape k1 ts dt = Ok li ->
  getitem_nd garbage li ds ixs = getitem li ds ixs.
Proof.
  intros Hs Hg HM.
  pose proof (mk_lazy_lookup_length _ _ _ _ _ HM) as HLk.
  assert (Hsh : li_shape li = shape).
  { unfold mk_lazy in HM. destruct (mapM _ _); [|discriminate]. cbn [bind] in HM. destruct (lazy_shape _); [|discriminate].
    cbn [bind] in HM. now injection HM as <-. }
  destruct (getitem_nd garbage li ds ixs) as [out|] eqn:EN.
  - symmetry. eapply getitem_nd_refines; eauto.
  - destruct (getitem li ds ixs) as [out|] eqn:EG; [|reflexivity]. exfalso.
    unfold getitem, lazy_sels in EG. unfold getitem_nd, lazy_plans in EN.
    set (L3 := combine (combine (li_shape li) (li_lookup li)) (pad_to (List.length (li_shape li)) ixs)) in *.
    destruct (mapM _ L3) as [sels|] eqn:ES in EG; [|discriminate]. cbn [bind] in EG.
    assert (HP : exists plans, mapM (fun p => m <- map_stage2 (snd (fst p)) (snd p) ;; axis_plan (fst (fst p)) m) L3 = Ok plans).
    { apply mapM_all_ok. intros x Hx E. destruct (mapM_ok_in _ _ _ x ES Hx) as [y Ey]. unfold axis_sel in Ey.
      destruct (map_stage2 _ _) as [m|]; [|discriminate]. cbn [bind] in *. destruct (axis_plan _ m); [discriminate E|discriminate Ey]. }
    destruct HP as [plans EP]. rewrite EP in EN. cbn [bind] in EN.
    assert (HL3 : List.length L3 = List.length (li_shape li)).
    { unfold L3. rewrite !combine_length, pad_to_length. lia. }
    assert (Hlen : List.length plans = List.length (li_shape li)) by (apply mapM_ok_length in EP; lia).
    assert (HFst : map (fun x => fst (fst x)) L3 = li_shape li).
    { unfold L3. rewrite <- map_map. rewrite map_fst_combine by (rewrite pad_to_length, combine_length; lia).
      now rewrite map_fst_combine. }
    assert (HT : Forall plan_tiled plans).
    { eapply mapM_Forall_ok; [|exact EP]. intros x y Hx. cbn beta in Hx.
      destruct (map_stage2 _ _) as [m|]; [|discriminate]. cbn [bind] in Hx. eapply axis_plan_tiled; exact Hx. }
    assert (HMo : Forall plan_mono plans).
    { apply mapM_ok_Forall2 in EP. clear -EP Hs Hsh HFst. rewrite <- Hsh in Hs. rewrite <- HFst in Hs. clear HFst Hsh.
      induction EP as [|x y l l' Hx _ IH]; [constructor|]. cbn [map] in Hs. inversion Hs; subst.
      constructor; [|apply IH; assumption].
      destruct (map_stage2 _ _) as [m|]; [|discriminate]. cbn [bind] in Hx. eapply axis_plan_mono; eauto. }
    assert (HGa : mapM (fun a => axis_gather (fst a) (snd a)) (combine (li_shape li) plans) = Ok sels).
    { rewrite <- ES. unfold axis_sel. symmetry.
      transitivity (mapM (fun x => y <- (m <- map_stage2 (snd (fst x)) (snd x) ;; axis_plan (fst (fst x)) m) ;;
                                 axis_gather (fst (fst x)) y) L3).
      { apply mapM_ext_in. intros x _. destruct (map_stage2 _ _); reflexivity. }
      rewrite (mapM_bind_combine _ (fun x y => axis_gather (fst (fst x)) y) L3 plans EP).
      rewrite (mapM_combine_map (fun x => fst (fst x)) axis_gather). now rewrite HFst. }
    destruct (nd_extract_complete garbage _ _ ds sels Hlen HT HMo Hg HGa) as [EX SH].
    rewrite EX in EN. cbn [bind] in EN. rewrite <- SH in EN. congruence.
Qed.
