(* C12: proofs about the public entry points (Model/SensorApi.v): general keep, templates, katstore fallback. *)
From Coq Require Import ZArith QArith List Bool String Ascii Lia.
From KV Require Import Base.Sx Base.Str Gen.Generated Model.Interp Model.SensorCache Model.SensorKeep Model.SensorTmpl
  Model.SensorApi Proofs.InterpP Proofs.SensorCacheP Proofs.SensorKeepP Proofs.SensorTmplP.
Import ListNotations.
Local Open Scope Q_scope.

Lemma prefix_refl : forall s, String.prefix s s = true.
Proof. induction s as [|a s IH]; simpl; [reflexivity|]. destruct (ascii_dec a a); [exact IH|congruence]. Qed.

Lemma r_del_set_fresh : forall r n v, r_lookup n r = None -> r_del n (r_set n v r) = r.
Proof.
  induction r as [|[k w] t IH]; intros n v H; simpl in *.
  - now rewrite String.eqb_refl.
  - destruct (String.eqb k n) eqn:E; [discriminate|]. simpl. rewrite E. f_equal. now apply IH.
Qed.

Lemma r_lookup_set_fresh_other : forall r n m v, n <> m -> r_lookup n (r_set m v r) = r_lookup n r.
Proof. intros. now apply r_lookup_set_other. Qed.

Section ApiP.
Variable vf : Z -> nat -> list (list qn) -> list Q -> list qn.

(* select=True with extract=False is refused before anything is looked up *)
Lemma api_select_needs_extract : forall x name kw,
  get_x vf x name true false kw = (x, XPlain RErrValue, None).
Proof. reflexivity. Qed.

(* a name present in the cache never consults the templates or the store *)
Lemma api_known : forall x name en select extract kw, select && negb extract = false ->
  r_lookup name (c_raw (x_c x)) = Some en ->
  get_x vf x name select extract kw =
  (let '(c', r) := core_get vf (x_c x) [] name extract kw in
   (with_c x c', post_select (x_keep x) select r, None)).
Proof. intros x name en select extract kw Hs Hl. unfold get_x. rewrite Hs, Hl. reflexivity. Qed.

(* queries are only ever sent for a name that is neither cached nor matched by a template, with a truthy store *)
Lemma api_log : forall x name select extract kw,
  let x' := fst (fst (get_x vf x name select extract kw)) in
  x_log x' = x_log x \/
  (r_lookup name (c_raw (x_c x)) = None /\ resolve (x_tmpl x) name = None /\ store_active (x_store x) = true /\
   is_identifier name = true /\
   exists s e, store_window (c_ts (x_c x)) (x_dp x) = Some (s, e) /\ x_log x' = mkQy name s e :: x_log x).
Proof.
  intros x name select extract kw. unfold get_x.
  destruct (select && negb extract); [left; reflexivity|].
  destruct (r_lookup name (c_raw (x_c x))) eqn:El.
  - destruct (core_get vf (x_c x) [] name extract kw). left. reflexivity.
  - destruct (resolve (x_tmpl x) name) as [[tid b]|] eqn:Er.
    + destruct (core_get vf (x_c x) _ name extract kw). left. reflexivity.
    + destruct (store_active (x_store x)) eqn:Es; [|left; reflexivity].
      destruct (store_window (c_ts (x_c x)) (x_dp x)) as [[s e]|] eqn:Ew; [|left; reflexivity].
      destruct (is_identifier name) eqn:Ei; [|left; reflexivity]. cbn [negb].
      right. repeat split; auto. exists s, e. split; [reflexivity|].
      destruct (store_samples (srv_answer (x_srv x) name s e) name); [reflexivity|].
      destruct (core_get vf _ [] name extract kw). reflexivity.
Qed.

(* ---------------------------------------------------------------- first read of a numeric raw sensor, ANY keep *)
Lemma core_get_numeric : forall c virt name gid g kw,
  r_lookup name (c_raw c) = Some (ERaw gid) -> nth_error (c_store c) gid = Some g ->
  let p := fst (get_props name (c_props c) kw) in
  let cl := clean (g_has_status g) (shift (offset_of p) (g_samples g)) in
  cl <> [] -> decide_cat p (g_dtype g) = false -> (g_dtype g = DFloat \/ g_dtype g = DInt) ->
  let full := map (fun t => Some (interp_d (nodes_of cl) t)) (c_ts c) in
  let '(c', r) := core_get vf c virt name true kw in
  r = RVals full /\ r_lookup name (c_raw c') = Some (EVals full) /\ c_store c' = c_store c /\ c_ts c' = c_ts c.
Proof.
  intros c virt name gid g kw Hl Hg p cl Hne Hc Hd full. unfold core_get.
  pose proof (C12_get vf 1 (core c virt) name gid g false kw Hl Hg Hne Hc Hd) as H.
  pose proof (get_frame vf 1 (core c virt) name false true kw) as F.
  destruct (get vf false 1 (core c virt) name false true kw) as [c' r]. cbn [fst] in F.
  destruct H as [H1 [H2 H3]]. destruct F as [_ [F2 _]].
  unfold core in *. cbn [c_raw c_store c_ts c_props] in *. repeat split; auto.
Qed.

Lemma api_get_numeric : forall x name gid g select kw,
  let c := x_c x in
  r_lookup name (c_raw c) = Some (ERaw gid) -> nth_error (c_store c) gid = Some g ->
  let p := fst (get_props name (c_props c) kw) in
  let cl := clean (g_has_status g) (shift (offset_of p) (g_samples g)) in
  cl <> [] -> decide_cat p (g_dtype g) = false -> (g_dtype g = DFloat \/ g_dtype g = DInt) ->
  let full := map (fun t => Some (interp_d (nodes_of cl) t)) (c_ts c) in
  let '(x', r, cr) := get_x vf x name select true kw in
  r = (if select then XSel (apply_keep (x_keep x) full) else XPlain (RVals full)) /\
  r_lookup name (c_raw (x_c x')) = Some (EVals full) /\ c_store (x_c x') = c_store c /\
  x_log x' = x_log x /\ x_keep x' = x_keep x /\ cr = None.
Proof.
  intros x name gid g select kw c Hl Hg p cl Hne Hc Hd full.
  rewrite (api_known x name (ERaw gid) select true kw) by (rewrite ?andb_false_r; auto).
  pose proof (core_get_numeric c [] name gid g kw Hl Hg Hne Hc Hd) as H. cbv zeta in H.
  fold c. destruct (core_get vf c [] name true kw) as [c' r].
  destruct H as [-> [H2 [H3 _]]]. fold p cl full in H2 |- *.
  unfold post_select. cbn [x_c x_log x_keep with_c]. destruct select; repeat split; auto.
Qed.

(* with a boolean mask of the length of the dump grid the general selection IS the selection of the cache model *)
Lemma api_mask_keep : forall (m : list bool) (f : Q -> qn) (ts : list Q),
  List.length m = List.length ts ->
  apply_keep (KpMask m) (map f ts) = KrVals (select_mask m (map f ts)).
Proof.
  intros m f ts H. rewrite keep_mask_spec, map_length, H, Nat.eqb_refl. reflexivity.
Qed.

(* ---------------------------------------------------------------- virtual sensor created from a template *)
Lemma get_fresh_virtual : forall c name fid s e kw,
  s && negb e = false -> r_lookup name (c_raw c) = None -> c_virt c = [mkV [name] [] fid] ->
  let vals := vf fid 0 [] (c_ts c) in
  get vf false 1 c name s e kw =
  (with_raw c (r_set name (EVals vals) (c_raw c)), RVals (if s then select_mask (c_keep c) vals else vals)).
Proof.
  intros c name fid s e kw Hs Hl Hv vals. cbn [get]. unfold get_body. rewrite Hs, Hl, Hv.
  assert (M : mem_string name [name] = true) by (unfold mem_string; simpl; now rewrite String.eqb_refl).
  cbn [find v_names]. rewrite M. cbn [v_srcs eval_srcs store_all v_fid index_of_name v_names].
  rewrite String.eqb_refl. unfold sel, with_raw. cbn [c_ts c_keep]. reflexivity.
Qed.

Lemma api_template : forall x name select extract kw tid b,
  select && negb extract = false ->
  r_lookup name (c_raw (x_c x)) = None -> resolve (x_tmpl x) name = Some (tid, b) ->
  let vals := vf (Z.of_nat tid) 0 [] (c_ts (x_c x)) in
  let '(x', r, cr) := get_x vf x name select extract kw in
  cr = Some (tid, b) /\ r = post_select (x_keep x) select (RVals vals) /\
  r_lookup name (c_raw (x_c x')) = Some (EVals vals) /\
  (forall n, n <> name -> r_lookup n (c_raw (x_c x')) = r_lookup n (c_raw (x_c x))) /\
  x_log x' = x_log x /\ c_store (x_c x') = c_store (x_c x) /\ x_keep x' = x_keep x.
Proof.
  intros x name select extract kw tid b Hs Hl Hr vals.
  unfold get_x. rewrite Hs, Hl, Hr. unfold core_get.
  rewrite (get_fresh_virtual (core (x_c x) [mkV [name] [] (Z.of_nat tid)]) name (Z.of_nat tid) false extract kw)
    by (auto; reflexivity).
  unfold with_raw, core. cbn [c_raw c_ts c_keep c_props c_virt c_store x_c x_log x_keep with_c].
  fold vals. repeat split; auto.
  - apply r_lookup_set_same.
  - intros n Hn. now apply r_lookup_set_other.
Qed.

(* ---------------------------------------------------------------- unknown names *)
Lemma api_unknown_no_store : forall x name select extract kw,
  r_lookup name (c_raw (x_c x)) = None -> resolve (x_tmpl x) name = None -> store_active (x_store x) = false ->
  select && negb extract = false ->
  get_x vf x name select extract kw = (x, XPlain RErrKey, None).
Proof. intros x name select extract kw Hl Hr Hs Hse. unfold get_x. now rewrite Hse, Hl, Hr, Hs. Qed.

Lemma api_store_not_identifier : forall x name select extract kw t0 rest,
  r_lookup name (c_raw (x_c x)) = None -> resolve (x_tmpl x) name = None -> store_active (x_store x) = true ->
  select && negb extract = false -> c_ts (x_c x) = t0 :: rest -> is_identifier name = false ->
  get_x vf x name select extract kw = (x, XPlain RErrKey, None).
Proof.
  intros x name select extract kw t0 rest Hl Hr Hs Hse Ht Hi. unfold get_x.
  rewrite Hse, Hl, Hr, Hs, Ht. cbn [store_window]. now rewrite Hi.
Qed.

(* the records the extraction sees: exactly those of the store named `name` whose time lies in the window *)
Lemma store_samples_spec : forall srv name s e smp,
  In smp (store_samples (srv_answer srv name s e) name) <->
  exists r, In r srv /\ k_sensor r = name /\ s <= k_t r /\ k_t r <= e /\ smp = mkS (k_t r) (k_v r) (k_st r).
Proof.
  intros srv name s e smp. unfold store_samples, srv_answer. rewrite in_map_iff. split.
  - intros [r [<- Hin]]. apply filter_In in Hin. destruct Hin as [Hin He].
    apply filter_In in Hin. destruct Hin as [Hin Hw].
    apply String.eqb_eq in He. apply andb_prop in Hw. destruct Hw as [Hw H2].
    apply andb_prop in Hw. destruct Hw as [_ H1].
    apply Qle_bool_iff in H1. apply Qle_bool_iff in H2. exists r. repeat split; auto.
  - intros [r [Hin [Hn [H1 [H2 ->]]]]]. exists r. split; [reflexivity|].
    apply filter_In. split; [|now apply String.eqb_eq].
    apply filter_In. split; [exact Hin|].
    subst name. rewrite prefix_refl. cbn [andb].
    apply andb_true_intro. split; now apply Qle_bool_iff.
Qed.

(* the fallback: ONE query over [first dump - dump period - before, last dump + dump period + after]; the records
   named exactly `name` go through the ordinary extraction (status filter included) and the result is cached *)
Lemma api_store_extract : forall x name select kw t0 rest smp,
  let c := x_c x in
  r_lookup name (c_raw c) = None -> resolve (x_tmpl x) name = None -> store_active (x_store x) = true ->
  c_ts c = t0 :: rest -> is_identifier name = true ->
  let s := t0 - x_dp x - inject_Z katstore_before in
  let e := List.last (t0 :: rest) t0 + x_dp x + inject_Z katstore_after in
  store_samples (srv_answer (x_srv x) name s e) name = smp ->
  let p := fst (get_props name (c_props c) kw) in
  let cl := clean true (shift (offset_of p) smp) in
  cl <> [] -> decide_cat p DFloat = false ->
  let full := map (fun t => Some (interp_d (nodes_of cl) t)) (c_ts c) in
  let '(x', r, cr) := get_x vf x name select true kw in
  r = (if select then XSel (apply_keep (x_keep x) full) else XPlain (RVals full)) /\
  r_lookup name (c_raw (x_c x')) = Some (EVals full) /\
  x_log x' = mkQy name s e :: x_log x /\
  c_store (x_c x') = (c_store c ++ [mkG DFloat true smp])%list /\ cr = None.
Proof.
  intros x name select kw t0 rest smp c Hl Hr Hs Ht Hi s e Esmp p cl Hne Hc full.
  unfold get_x. rewrite andb_false_r. fold c. rewrite Hl, Hr, Hs, Ht. cbn [store_window]. rewrite Hi. cbn [negb].
  fold s e. rewrite Esmp.
  assert (Hsm : smp <> []).
  { intro E. apply Hne. unfold cl. rewrite E. reflexivity. }
  destruct smp as [|s0 smp']; [congruence|].
  set (gid := List.length (c_store c)).
  set (g := mkG DFloat true (s0 :: smp')).
  match goal with |- context [core_get vf ?cc [] name true kw] => set (c1 := cc) end.
  assert (Hl1 : r_lookup name (c_raw c1) = Some (ERaw gid)) by apply r_lookup_set_same.
  assert (Hg1 : nth_error (c_store c1) gid = Some g).
  { unfold c1, gid. cbn [c_store]. rewrite nth_error_app2 by lia. now rewrite Nat.sub_diag. }
  pose proof (core_get_numeric c1 [] name gid g kw Hl1 Hg1) as H. cbv zeta in H.
  cbn [g_has_status g_samples g_dtype g c_props c1 c_ts] in H. fold p cl full in H.
  specialize (H Hne Hc (or_introl eq_refl)).
  destruct (core_get vf c1 [] name true kw) as [c2 r]. destruct H as [-> [H2 [H3 _]]].
  unfold post_select. cbn [x_c x_log x_keep with_c with_log].
  destruct select; repeat split; auto; unfold full; rewrite Ht; auto.
Qed.

(* extract=False on the fallback hands out the fresh getter and does NOT enter it in the cache *)
Lemma api_store_raw : forall x name kw t0 rest smp,
  let c := x_c x in
  r_lookup name (c_raw c) = None -> resolve (x_tmpl x) name = None -> store_active (x_store x) = true ->
  c_ts c = t0 :: rest -> is_identifier name = true ->
  let s := t0 - x_dp x - inject_Z katstore_before in
  let e := List.last (t0 :: rest) t0 + x_dp x + inject_Z katstore_after in
  store_samples (srv_answer (x_srv x) name s e) name = smp -> smp <> [] ->
  let '(x', r, cr) := get_x vf x name false false kw in
  r = XPlain (RGetter (List.length (c_store c))) /\ c_raw (x_c x') = c_raw c /\
  x_log x' = mkQy name s e :: x_log x /\ c_store (x_c x') = (c_store c ++ [mkG DFloat true smp])%list.
Proof.
  intros x name kw t0 rest smp c Hl Hr Hs Ht Hi s e Esmp Hsm.
  unfold get_x. cbn [andb]. fold c. rewrite Hl, Hr, Hs, Ht. cbn [store_window]. rewrite Hi. cbn [negb].
  fold s e. rewrite Esmp. destruct smp as [|s0 smp']; [congruence|].
  unfold core_get. cbn [get]. unfold get_body. cbn [andb negb].
  unfold core at 1. cbn [c_raw]. rewrite r_lookup_set_same.
  unfold post_select, with_raw, core. cbn [x_c x_log with_c with_log c_raw c_store c_ts c_keep c_props c_virt].
  rewrite r_del_set_fresh by exact Hl. repeat split; auto.
Qed.

(* the store says nothing usable -> KeyError (after the query) *)
Lemma api_store_no_data : forall x name select extract kw t0 rest,
  let c := x_c x in
  r_lookup name (c_raw c) = None -> resolve (x_tmpl x) name = None -> store_active (x_store x) = true ->
  select && negb extract = false -> c_ts c = t0 :: rest -> is_identifier name = true ->
  let s := t0 - x_dp x - inject_Z katstore_before in
  let e := List.last (t0 :: rest) t0 + x_dp x + inject_Z katstore_after in
  store_samples (srv_answer (x_srv x) name s e) name = [] ->
  get_x vf x name select extract kw = (with_log x (mkQy name s e :: x_log x), XPlain RErrKey, None).
Proof.
  intros x name select extract kw t0 rest c Hl Hr Hs Hse Ht Hi s e Hn.
  unfold get_x. fold c. rewrite Hse, Hl, Hr, Hs, Ht. cbn [store_window]. rewrite Hi. cbn [negb].
  fold s e. rewrite Hn. reflexivity.
Qed.

(* _set_keep(None) leaves the selection alone; cache[name] is get(name, select=True) *)
Lemma api_setkeep : forall x k,
  xstep vf x (XSetKeep None) = (x, XPlain ROk, None) /\
  x_keep (fst (fst (xstep vf x (XSetKeep (Some k))))) = k /\
  x_c (fst (fst (xstep vf x (XSetKeep (Some k))))) = x_c x.
Proof. intros. repeat split. Qed.

Lemma api_item : forall x name, xstep vf x (XItem name) = get_x vf x name true true p_empty.
Proof. reflexivity. Qed.

End ApiP.

(* the constants of the query window, as found in the source *)
Lemma store_window_constants : katstore_before = 600%Z /\ katstore_after = 60%Z.
Proof. split; reflexivity. Qed.

Lemma store_window_example :
  store_window [12; 16; 36] 2 = Some (12 - 2 - 600, 36 + 2 + 60) /\ store_window [] 2 = None.
Proof. split; reflexivity. Qed.

Lemma is_identifier_examples :
  is_identifier "wind_speed" = true /\ is_identifier "_x9" = true /\ is_identifier "a/b" = false /\
  is_identifier "9a" = false /\ is_identifier "" = false /\ is_identifier "a.b" = false /\ is_identifier "a b" = false.
Proof. vm_compute. repeat split. Qed.

Lemma store_active_spec :
  store_active None = false /\ store_active (Some ""%string) = false /\
  forall a s, store_active (Some (String a s)) = true.
Proof. repeat split. Qed.
