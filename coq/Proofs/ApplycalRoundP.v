(* C13: restoration to within a stated rounding bound (Model/ApplycalRound.v). *)
From Coq Require Import ZArith QArith Qabs Qcanon List Bool Lia Lqa.
From KV Require Import Base.Sx Gen.Generated Model.Applycal Proofs.ApplycalP Model.ApplycalRound.
Import ListNotations.

(* ------------------------------------------------------------------ inequalities over Q *)
Local Open Scope Q_scope.
Lemma Qsq_nonneg : forall x : Q, 0 <= x * x.
Proof.
  intros x. destruct (Qlt_le_dec x 0).
  - setoid_replace (x * x) with ((- x) * (- x)) by ring. apply Qmult_le_0_compat; lra.
  - apply Qmult_le_0_compat; lra.
Qed.
Lemma Qsq_le : forall x y : Q, 0 <= y -> x * x <= y * y -> x <= y.
Proof.
  intros x y Hy H. destruct (Qlt_le_dec y x) as [L|L]; [|exact L]. exfalso.
  assert (0 < x) by lra.
  assert (y * y < x * x).
  { apply Qle_lt_trans with (y * x).
    - rewrite (Qmult_comm y x). apply Qmult_le_compat_r; lra.
    - apply Qmult_lt_compat_r; lra. }
  lra.
Qed.
(* triangle inequality for |.| of complex numbers, squared (via Cauchy-Schwarz) *)
Lemma tri_Q : forall a b c d r s : Q, 0 <= r -> 0 <= s -> a * a + b * b <= r * r -> c * c + d * d <= s * s ->
  (a + c) * (a + c) + (b + d) * (b + d) <= (r + s) * (r + s).
Proof.
  intros a b c d r s Hr Hs H1 H2.
  assert (Hrs : 0 <= r * s) by (apply Qmult_le_0_compat; assumption).
  assert (CS : (a * c + b * d) * (a * c + b * d) <= (r * s) * (r * s)).
  { assert (E : (a * c + b * d) * (a * c + b * d)
                == (a * a + b * b) * (c * c + d * d) - (a * d - b * c) * (a * d - b * c)) by ring.
    pose proof (Qsq_nonneg (a * d - b * c)).
    assert ((a * a + b * b) * (c * c + d * d) <= (r * r) * (s * s)).
    { assert (0 <= a * a + b * b) by (pose proof (Qsq_nonneg a); pose proof (Qsq_nonneg b); lra).
      apply Qle_trans with ((a * a + b * b) * (s * s)).
      - rewrite !(Qmult_comm (a * a + b * b)). apply Qmult_le_compat_r; assumption.
      - apply Qmult_le_compat_r; [assumption|]. apply Qmult_le_0_compat; assumption. }
    setoid_replace (r * s * (r * s)) with (r * r * (s * s)) by ring. lra. }
  apply Qsq_le in CS; [|exact Hrs].
  setoid_replace ((a + c) * (a + c) + (b + d) * (b + d))
    with ((a * a + b * b) + (c * c + d * d) + (1 + 1) * (a * c + b * d)) by ring.
  setoid_replace ((r + s) * (r + s)) with (r * r + s * s + (1 + 1) * (r * s)) by ring. lra.
Qed.
Local Close Scope Q_scope.
Local Open Scope Qc_scope.

Ltac toQ := unfold Qcle, Qcplus, Qcmult, Q2Qc in *; cbn [this] in *; rewrite ?Qred_correct in *.

Lemma norm2_add_le : forall a b c d r s : Qc, 0 <= r -> 0 <= s -> norm2 a b <= r * r -> norm2 c d <= s * s ->
  norm2 (a + c) (b + d) <= (r + s) * (r + s).
Proof. intros a b c d r s Hr Hs H1 H2. unfold norm2 in *. toQ. apply tri_Q; assumption. Qed.

Lemma Qc_mul_nonneg : forall x y : Qc, 0 <= x -> 0 <= y -> 0 <= x * y.
Proof. intros x y Hx Hy. toQ. apply Qmult_le_0_compat; assumption. Qed.
Lemma Qc_add_nonneg : forall x y : Qc, 0 <= x -> 0 <= y -> 0 <= x + y.
Proof. intros x y Hx Hy. toQ. lra. Qed.

Lemma mul_le_sq : forall x y r s : Qc, 0 <= x -> 0 <= y -> 0 <= s -> x <= r * r -> y <= s * s ->
  x * y <= (r * s) * (r * s).
Proof.
  intros x y r s Hx Hy Hs H1 H2. replace (r * s * (r * s)) with ((r * r) * (s * s)) by ring.
  apply Qcle_trans with (x * (s * s)).
  - rewrite !(Qcmult_comm x). apply Qcmult_le_compat_r; assumption.
  - apply Qcmult_le_compat_r; [assumption|]. apply Qc_mul_nonneg; assumption.
Qed.

Lemma norm2_mul : forall a b c d : Qc,
  norm2 (a * c - b * d) (a * d + b * c) = norm2 a b * norm2 c d.
Proof. intros. unfold norm2. ring. Qed.

Lemma rbound_nonneg : forall eps n, 0 <= eps -> 0 <= rbound eps n.
Proof.
  induction n as [|k IH]; intros H; cbn [rbound]; [apply Qcle_refl|].
  repeat apply Qc_add_nonneg; auto. apply Qc_mul_nonneg; auto.
Qed.

(* ------------------------------------------------------------------ accumulated relative error *)
Lemma perturb_app : forall l1 l2, perturb (l1 ++ l2) = Cmul (perturb l1) (perturb l2).
Proof. intros. unfold perturb. rewrite map_app. apply Cprod_app. Qed.

(* n rounding steps, each with |e_k| <= eps:  prod (1 + e_k) = 1 + E  with  |E| <= (1 + eps)^n - 1 *)
Lemma perturb_bound : forall eps es, 0 <= eps -> Forall (small eps) es ->
  exists a b, perturb es = CFin (1 + a) b /\
              norm2 a b <= rbound eps (List.length es) * rbound eps (List.length es).
Proof.
  intros eps es He. induction 1 as [|e es Hs Hf IH].
  - exists 0, 0. split; [unfold perturb; cbn; unfold Cone; f_equal; ring|]. cbn. unfold norm2.
    replace (0 * 0 + 0 * 0) with 0 by ring. apply Qcle_refl.
  - destruct IH as [a [b [E Hb]]]. destruct Hs as [u [v [-> Hs]]].
    set (B := rbound eps (List.length es)) in *.
    assert (HB : 0 <= B) by (apply rbound_nonneg; exact He).
    exists (a + u + (a * u - b * v)), (b + v + (a * v + b * u)). split.
    + unfold perturb in *. cbn [map Cprod fold_right]. fold (Cprod (map (Cadd Cone) es)). rewrite E.
      unfold Cone, Cadd, Cmul. f_equal; ring.
    + cbn [List.length rbound]. fold B.
      apply norm2_add_le.
      * apply Qc_add_nonneg; assumption.
      * apply Qc_mul_nonneg; assumption.
      * apply norm2_add_le; assumption.
      * rewrite norm2_mul. apply mul_le_sq; auto using norm2_nonneg.
Qed.

(* ------------------------------------------------------------------ corruption * correction = 1 *)
Lemma corruption_times_factor : forall (prods : list product) (G : product -> nat -> C) t c cp,
  (forall p i, In p prods -> fin_nz (G p i)) ->
  (forall p i, In p prods -> gp t c i p = Cinv (G p i)) ->
  Cmul (Cmul (Cprod (map (fun p => G p (fst cp)) prods)) (Cconj (Cprod (map (fun p => G p (snd cp)) prods))))
       (factor prods t c cp) = Cone.
Proof.
  intros prods G t c cp Hnz Hinv.
  rewrite factor_product, Cconj_prod, map_map.
  rewrite (Cprod_mul_pointwise (fun p => G p (fst cp)) (fun p => Cconj (G p (snd cp)))).
  rewrite (Cprod_mul_pointwise (fun p => Cmul (G p (fst cp)) (Cconj (G p (snd cp))))).
  apply Cprod_all_one. intros p Hp. rewrite !Hinv by assumption. apply pair_inverts; auto.
Qed.

Lemma Cmul_shuffle : forall c A P1 F P2 P3,
  Cmul (Cmul (Cmul (Cmul c A) P1) (Cmul F P2)) P3 = Cmul (Cmul c (Cmul A F)) (Cmul P1 (Cmul P2 P3)).
Proof.
  intros. destruct c, A, P1, F, P2, P3; cbn [Cmul]; try reflexivity. f_equal; ring.
Qed.

(* Restoration with rounding.  clean = x + iy; stored = clean * G(i1) * conj G(i2) (G = product of finite non-zero
   gains over the cal products); corrections 1/G_p.  Rounding steps with relative errors e1 (on the stored value),
   e2 (on the correction factor), e3 (on the final product), all of magnitude <= eps.  Then the corrected
   visibility is clean + d with  |d| <= ((1 + eps)^n - 1) * |clean|,  n the number of rounding steps. *)
Lemma restored_within_rounding : forall (prods : list product) (G : product -> nat -> C) t c cp x y e1 e2 e3 eps,
  (forall p i, In p prods -> fin_nz (G p i)) ->
  (forall p i, In p prods -> gp t c i p = Cinv (G p i)) ->
  0 <= eps -> Forall (small eps) (e1 ++ e2 ++ e3) ->
  let A := Cmul (Cprod (map (fun p => G p (fst cp)) prods)) (Cconj (Cprod (map (fun p => G p (snd cp)) prods))) in
  let n := List.length (e1 ++ e2 ++ e3) in
  exists a b,
    Cmul (apply_vis (Cmul (Cmul (CFin x y) A) (perturb e1)) (Cmul (factor prods t c cp) (perturb e2))) (perturb e3)
    = CFin (x + a) (y + b)
    /\ norm2 a b <= (rbound eps n * rbound eps n) * norm2 x y.
Proof.
  intros prods G t c cp x y e1 e2 e3 eps Hnz Hinv He Hf A n.
  pose proof (corruption_times_factor prods G t c cp Hnz Hinv) as HAF. fold A in HAF.
  destruct (perturb_bound eps _ He Hf) as [a [b [EP Hb]]]. fold n in Hb.
  assert (Hf2 : Forall (small eps) e2).
  { apply Forall_app in Hf. destruct Hf as [_ Hf]. apply Forall_app in Hf. tauto. }
  destruct (perturb_bound eps _ He Hf2) as [a2 [b2 [EP2 _]]].
  assert (HF : exists fa fb, factor prods t c cp = CFin fa fb).
  { destruct (factor prods t c cp) eqn:EF; [|eauto]. rewrite Cmul_nan_r in HAF. discriminate. }
  destruct HF as [fa [fb EF]].
  assert (Hn : is_nan (Cmul (factor prods t c cp) (perturb e2)) = false) by (rewrite EF, EP2; reflexivity).
  unfold apply_vis. rewrite Hn. rewrite Cmul_shuffle, HAF, Cmul_1_r.
  rewrite <- !perturb_app, EP.
  exists (x * a - y * b), (x * b + y * a). split.
  - unfold Cmul. f_equal; ring.
  - rewrite norm2_mul. rewrite Qcmult_comm. apply Qcmult_le_compat_r; [exact Hb|apply norm2_nonneg].
Qed.

(* no rounding (no steps): exactly restored *)
Lemma restored_exact : forall eps, rbound eps 0 = 0.
Proof. reflexivity. Qed.

(* non-vacuity: two rounding steps 1/8 and i/8 (eps = 1/8): prod (1+e) - 1 = 1/8 + i/8 + i/64,
   |.|^2 = 145/4096 <= ((9/8)^2 - 1)^2 = 289/4096; and with eps = 2^-22 (more than complex64 rounding of one
   operation) nine steps stay below the 2^-16 the correspondence uses for three products *)
Example ex_round :
  perturb [CFin (Q2Qc (1 # 8)) 0; CFin 0 (Q2Qc (1 # 8))] = CFin (1 + Q2Qc (1 # 8)) (Q2Qc (1 # 8) + Q2Qc (1 # 64))
  /\ rbound (Q2Qc (1 # 8)) 2 * rbound (Q2Qc (1 # 8)) 2 = Q2Qc (289 # 4096)
  /\ rbound (Q2Qc (1 # 4194304)) 9 <= Q2Qc (1 # 65536).
Proof.
  split; [|split].
  - unfold perturb, Cone. cbn [map Cprod fold_right Cadd Cmul]. unfold Cone. cbn [Cmul].
    f_equal; apply Qc_is_canon; vm_compute; reflexivity.
  - apply Qc_is_canon. vm_compute. reflexivity.
  - unfold Qcle. vm_compute. discriminate.
Qed.
