(* C11: CategoricalData.remove_repeats and CategoricalData.remove against the per-dump specification.
   Self-contained: depends only on the stdlib, Base.Sx and Model.Categorical. *)
From Coq Require Import ZArith List Bool Arith Lia.
From KV Require Import Base.Sx Model.Categorical.
Import ListNotations.
Open Scope nat_scope.

(* ------------------------------------------------------------------ generic list facts *)
Lemma rm_repeat_join {A} (x : A) s e e' : s <= e -> e <= e' ->
  repeat x (e - s) ++ repeat x (e' - e) = repeat x (e' - s).
Proof. intros. rewrite <- repeat_app. f_equal. lia. Qed.

(* start of the next event of a list of (event, index) pairs; N = number of dumps *)
Definition hd_ev (t : list (nat * nat)) (N : nat) : nat :=
  match t with [] => N | p :: _ => fst p end.

(* a well-shaped (ev, idx) is a list of pairs plus the final N *)
Lemma rm_decomp : forall (ix evs : list nat), length evs = S (length ix) ->
  exists t N, evs = map fst t ++ [N] /\ ix = map snd t.
Proof.
  induction ix as [|i ix IH]; intros evs H.
  - destruct evs as [|e [|e' evs]]; simpl in H; try discriminate.
    exists [], e. split; reflexivity.
  - destruct evs as [|e evs]; simpl in H; try discriminate.
    injection H as H. destruct (IH evs H) as (t & N & E1 & E2).
    exists ((e, i) :: t), N. subst. split; reflexivity.
Qed.

Lemma rm_combine_app : forall (t : list (nat * nat)) l, combine (map fst t ++ l) (map snd t) = t.
Proof.
  induction t as [|[e i] t IH]; intros l.
  - destruct l; reflexivity.
  - simpl. f_equal. apply IH.
Qed.

Lemma rm_combine_fs (t : list (nat * nat)) : combine (map fst t) (map snd t) = t.
Proof. rewrite <- (app_nil_r (map fst t)). apply rm_combine_app. Qed.

Lemma rm_chain_lower : forall l s e, s <= e -> chain lt e l -> chain lt s l.
Proof. destruct l; simpl; intuition lia. Qed.

Lemma rm_chain_incr : forall l s, chain lt s l -> incr l.
Proof. destruct l; simpl; intuition. Qed.

Lemma rm_chain_hd : forall (t : list (nat * nat)) N e, chain lt e (map fst t ++ [N]) -> e < hd_ev t N.
Proof. destruct t; simpl; intuition. Qed.

Lemma rm_chain_nth (R : nat -> nat -> Prop) : forall l s k, chain R s l -> S k < length (s :: l) ->
  R (nth k (s :: l) 0) (nth (S k) (s :: l) 0).
Proof.
  induction l as [|a l IH]; intros s k H Hk; simpl in Hk. lia.
  destruct H as [H1 H2]. destruct k. exact H1.
  change (R (nth k (a :: l) 0) (nth (S k) (a :: l) 0)). apply IH; auto. simpl; lia.
Qed.

Lemma rm_nth_map {A B} (g : A -> B) l k d d' : k < length l -> nth k (map g l) d = g (nth k l d').
Proof.
  intros H. rewrite (nth_indep (map g l) d (g d')) by (rewrite map_length; exact H). apply map_nth.
Qed.

(* ------------------------------------------------------------------ rr_aux *)
Lemma rm_chain_rr : forall t p s N, chain lt s (map fst t ++ [N]) -> chain lt s (map fst (rr_aux p t) ++ [N]).
Proof.
  induction t as [|[e i] t IH]; intros p s N H; simpl in *. exact H.
  destruct H as [H1 H2].
  destruct (match p with Some j => i =? j | None => false end); simpl.
  - apply rm_chain_lower with e. lia. apply IH; exact H2.
  - split. exact H1. apply IH; exact H2.
Qed.

Lemma rm_Forall_rr (P : nat -> Prop) : forall t p, Forall P (map snd t) -> Forall P (map snd (rr_aux p t)).
Proof.
  induction t as [|[e i] t IH]; intros p H; simpl in *. exact H.
  inversion H; subst.
  destruct (match p with Some j => i =? j | None => false end); simpl; auto.
Qed.

Lemma rm_rr_neq : forall t i0, chain (fun a b => a <> b) i0 (map snd (rr_aux (Some i0) t)).
Proof.
  induction t as [|[e i] t IH]; intros i0; simpl. constructor.
  destruct (Nat.eqb_spec i i0).
  - subst. apply IH.
  - simpl. split. congruence. apply IH.
Qed.

Section RemoveP.
Context {V : Type} (veqb : V -> V -> bool) (dflt : V)
        (veqb_spec : forall a b, veqb a b = true <-> a = b).

(* per-dump expansion of a list of (event, index) pairs ending at dump N *)
Fixpoint E (f : nat -> V) (t : list (nat * nat)) (N : nat) : list V :=
  match t with
  | [] => []
  | p :: t' => repeat (f (snd p)) (hd_ev t' N - fst p) ++ E f t' N
  end.

Lemma expand_ev_E f : forall t s y N,
  expand_ev s (map fst t ++ [N]) (y :: map f (map snd t)) = repeat y (hd_ev t N - s) ++ E f t N.
Proof.
  induction t as [|[e i] t IH]; intros; simpl.
  - reflexivity.
  - rewrite IH. reflexivity.
Qed.

Lemma expand_evs_E f t N : expand_evs (map fst t ++ [N]) (map f (map snd t)) = E f t N.
Proof.
  destruct t as [|[e i] t].
  - reflexivity.
  - simpl. apply expand_ev_E.
Qed.

Lemma expand_mk_E u t N :
  expand dflt (mk u (map snd t) (map fst t ++ [N])) = E (fun i => nth i u dflt) t N.
Proof. unfold expand, vals. cbn [uv idx ev]. apply expand_evs_E. Qed.

Lemma E_ext f g : forall t N, Forall (fun p => f (snd p) = g (snd p)) t -> E f t N = E g t N.
Proof.
  induction t as [|p t IH]; intros N H. reflexivity.
  inversion H; subst. simpl. rewrite IH by assumption. congruence.
Qed.

(* ================================================================== A. remove_repeats *)
Lemma rr_shape (u : list V) e0 i0 t N :
  remove_repeats (mk u (i0 :: map snd t) (e0 :: map fst t ++ [N]))
  = Some (mk u (i0 :: map snd (rr_aux (Some i0) t)) (e0 :: map fst (rr_aux (Some i0) t) ++ [N])).
Proof.
  unfold remove_repeats, ndumps. cbn [idx ev uv].
  change (combine (e0 :: map fst t ++ [N]) (i0 :: map snd t))
    with ((e0, i0) :: combine (map fst t ++ [N]) (map snd t)).
  rewrite rm_combine_app. cbn [rr_aux map fst snd app].
  rewrite (app_comm_cons (map fst t) [N] e0), last_last. reflexivity.
Qed.

(* every WF container with a non-empty index list has the shape handled by rr_shape *)
Lemma WF_shape (c : @cd V) : WF c ->
  exists t N, c = mk (uv c) (map snd t) (map fst t ++ [N]).
Proof.
  intros (_ & Hl & _). destruct c as [u ix evs]. cbn [uv idx ev] in *.
  destruct (rm_decomp ix evs Hl) as (t & N & -> & ->). exists t, N. reflexivity.
Qed.

Lemma rr_E f : forall t i0 s N, chain lt s (map fst t ++ [N]) ->
  repeat (f i0) (hd_ev (rr_aux (Some i0) t) N - s) ++ E f (rr_aux (Some i0) t) N
  = repeat (f i0) (hd_ev t N - s) ++ E f t N.
Proof.
  induction t as [|[e i] t IH]; intros i0 s N H. reflexivity.
  simpl in H. destruct H as [H1 H2]. pose proof (rm_chain_hd _ _ _ H2) as H3.
  cbn [rr_aux]. destruct (Nat.eqb_spec i i0).
  - subst i0. rewrite IH by (apply rm_chain_lower with e; [lia|exact H2]).
    cbn [E hd_ev fst snd]. rewrite app_assoc, rm_repeat_join by lia. reflexivity.
  - cbn [E hd_ev fst snd]. rewrite IH by exact H2. reflexivity.
Qed.

Theorem remove_repeats_WF : forall (c c' : @cd V), WF c -> remove_repeats c = Some c' ->
  WF c' /\ ndumps c' = ndumps c /\ hd 0 (ev c') = hd 0 (ev c) /\ uv c' = uv c.
Proof.
  intros c c' HW H. destruct (WF_shape c HW) as (t & N & Hc).
  destruct HW as (Hi & Hl & Hf & Hn). rewrite Hc in *. cbn [uv idx ev] in *. clear Hc.
  destruct t as [|[e0 i0] t]. { discriminate H. }
  cbn [map fst snd app] in *. rewrite rr_shape in H. injection H as <-.
  unfold WF, ndumps. cbn [uv idx ev]. repeat split.
  - simpl in *. apply rm_chain_rr. exact Hi.
  - simpl. rewrite app_length, !map_length. simpl. lia.
  - inversion Hf; subst. constructor. assumption. apply rm_Forall_rr. assumption.
  - exact Hn.
  - rewrite !app_comm_cons, !last_last. reflexivity.
Qed.

Theorem remove_repeats_expand : forall (c c' : @cd V), WF c -> remove_repeats c = Some c' ->
  expand dflt c' = expand dflt c.
Proof.
  intros c c' HW H. destruct (WF_shape c HW) as (t & N & Hc).
  destruct HW as (Hi & _). rewrite Hc in *. cbn [uv idx ev] in *.
  destruct t as [|[e0 i0] t]. { discriminate H. }
  cbn [map fst snd app] in *. rewrite rr_shape in H. injection H as <-.
  change (e0 :: map fst t ++ [N]) with (map fst ((e0, i0) :: t) ++ [N]).
  change (i0 :: map snd t) with (map snd ((e0, i0) :: t)).
  change (e0 :: map fst (rr_aux (Some i0) t) ++ [N]) with (map fst ((e0, i0) :: rr_aux (Some i0) t) ++ [N]).
  change (i0 :: map snd (rr_aux (Some i0) t)) with (map snd ((e0, i0) :: rr_aux (Some i0) t)).
  rewrite !expand_mk_E. cbn [E fst snd]. apply (rr_E (fun i => nth i (uv c) dflt)). exact Hi.
Qed.

Theorem remove_repeats_no_repeats : forall (c c' : @cd V), WF c -> remove_repeats c = Some c' ->
  forall k, S k < length (idx c') -> nth k (idx c') 0 <> nth (S k) (idx c') 0.
Proof.
  intros c c' HW H. destruct (WF_shape c HW) as (t & N & Hc).
  rewrite Hc in H.
  destruct t as [|[e0 i0] t]. { discriminate H. }
  cbn [map fst snd app] in *. rewrite rr_shape in H. injection H as <-.
  cbn [idx]. intros k Hk. apply (rm_chain_nth (fun a b => a <> b)). apply rm_rr_neq. exact Hk.
Qed.

Theorem remove_repeats_values_differ : forall (c c' : @cd V), WF c -> remove_repeats c = Some c' ->
  forall k, S k < length (idx c') -> nth k (vals dflt c') dflt <> nth (S k) (vals dflt c') dflt.
Proof.
  intros c c' HW H k Hk.
  pose proof (remove_repeats_no_repeats c c' HW H k Hk) as Hne.
  destruct (remove_repeats_WF c c' HW H) as ((_ & _ & Hf & Hn) & _).
  unfold vals. rewrite (rm_nth_map _ _ k dflt 0) by lia. rewrite (rm_nth_map _ _ (S k) dflt 0) by lia.
  intros Heq. apply Hne.
  rewrite Forall_forall in Hf.
  apply (proj1 (NoDup_nth (uv c') dflt) Hn); auto; apply Hf; apply nth_In; lia.
Qed.

Theorem remove_repeats_some : forall (c : @cd V), idx c <> [] -> exists c', remove_repeats c = Some c'.
Proof.
  intros c H. unfold remove_repeats. destruct (idx c). congruence. eexists; reflexivity.
Qed.

(* ================================================================== B. remove *)
Definition keep (j : nat) (p : nat * nat) : bool := negb (snd p =? j).
Definition remap (j i : nat) : nat := if j <=? i then i - 1 else i.

Lemma index_of_some : forall (l : list V) v j, index_of veqb v l = Some j ->
  j < length l /\ nth j l dflt = v.
Proof.
  induction l as [|x l IH]; intros v j H; simpl in H. discriminate.
  destruct (veqb x v) eqn:Hx.
  - injection H as <-. simpl. split. lia. apply veqb_spec; exact Hx.
  - destruct (index_of veqb v l) as [i|] eqn:Hi; try discriminate.
    injection H as <-. destruct (IH v i Hi) as [H1 H2]. simpl. split. lia. exact H2.
Qed.

Lemma index_of_lt : forall (l : list V) v j, index_of veqb v l = Some j -> j < length l.
Proof.
  induction l as [|x l IH]; intros v j H; simpl in H. discriminate.
  destruct (veqb x v).
  - injection H as <-. simpl. lia.
  - destruct (index_of veqb v l) as [i|] eqn:Hi; try discriminate.
    injection H as <-. specialize (IH v i Hi). simpl. lia.
Qed.

Lemma index_of_none : forall (l : list V) v, index_of veqb v l = None ->
  Forall (fun x => veqb x v = false) l.
Proof.
  induction l as [|x l IH]; intros v H; simpl in H. constructor.
  destruct (veqb x v) eqn:Hx. discriminate.
  destruct (index_of veqb v l) eqn:Hi; try discriminate.
  constructor. exact Hx. apply IH; exact Hi.
Qed.

(* by NoDup the removed value sits at index j only *)
Lemma index_of_cond (l : list V) v j i : NoDup l -> index_of veqb v l = Some j -> i < length l ->
  veqb (nth i l dflt) v = (i =? j).
Proof.
  intros Hn Hj Hi. destruct (index_of_some l v j Hj) as [Hjl Hjv].
  destruct (Nat.eqb_spec i j) as [->|Hne].
  - apply veqb_spec; exact Hjv.
  - destruct (veqb (nth i l dflt) v) eqn:Hv; [|reflexivity].
    exfalso. apply Hne. apply veqb_spec in Hv.
    apply (proj1 (NoDup_nth l dflt) Hn); auto. congruence.
Qed.

Lemma in_del {A} (x : A) : forall l j, In x (firstn j l ++ skipn (S j) l) -> In x l.
Proof.
  induction l as [|a l IH]; intros j H.
  - destruct j; simpl in H; exact H.
  - destruct j as [|j]; simpl in H.
    + right; exact H.
    + destruct H as [H|H]. left; exact H. right. apply IH with j. exact H.
Qed.

Lemma NoDup_del {A} : forall (l : list A) j, NoDup l -> NoDup (firstn j l ++ skipn (S j) l).
Proof.
  induction l as [|a l IH]; intros j H.
  - destruct j; simpl; constructor.
  - inversion H; subst. destruct j as [|j]; simpl.
    + assumption.
    + constructor. intros Hin. apply in_del in Hin. contradiction. apply IH; assumption.
Qed.

Lemma length_del {A} : forall (l : list A) j, j < length l ->
  length (firstn j l ++ skipn (S j) l) = length l - 1.
Proof.
  intros l j H. rewrite app_length, firstn_length, skipn_length. lia.
Qed.

(* the re-mapped index refers to the same value *)
Lemma nth_del {A} (d : A) : forall l i j, i <> j ->
  nth (remap j i) (firstn j l ++ skipn (S j) l) d = nth i l d.
Proof.
  unfold remap. induction l as [|a l IH]; intros i j Hne.
  - rewrite firstn_nil, skipn_nil. simpl. generalize (if j <=? i then i - 1 else i).
    intros n; destruct n, i; reflexivity.
  - destruct j as [|j].
    + destruct i as [|i]. congruence. simpl. rewrite Nat.sub_0_r. reflexivity.
    + destruct i as [|i]. reflexivity.
      change (firstn (S j) (a :: l) ++ skipn (S (S j)) (a :: l)) with (a :: (firstn j l ++ skipn (S j) l)).
      change (S j <=? S i) with (j <=? i).
      assert (Hij : i <> j) by congruence. specialize (IH i j Hij).
      destruct (Nat.leb_spec j i).
      * destruct i as [|i]. lia. simpl. simpl in IH. rewrite Nat.sub_0_r in IH. exact IH.
      * simpl. exact IH.
Qed.

Lemma rm_chain_filter (q : nat * nat -> bool) : forall t s N, chain lt s (map fst t ++ [N]) ->
  chain lt s (map fst (filter q t) ++ [N]).
Proof.
  induction t as [|[e i] t IH]; intros s N H; simpl in *. exact H.
  destruct H as [H1 H2]. destruct (q (e, i)); simpl.
  - split. exact H1. apply IH; exact H2.
  - apply rm_chain_lower with e. lia. apply IH; exact H2.
Qed.

Lemma rm_incr_filter (q : nat * nat -> bool) : forall t N, incr (map fst t ++ [N]) ->
  incr (map fst (filter q t) ++ [N]).
Proof.
  intros [|[e i] t] N H. exact H.
  simpl in H. apply (rm_chain_filter q) in H. simpl. destruct (q (e, i)).
  - exact H.
  - apply rm_chain_incr with e. exact H.
Qed.

Lemma remove_shape (u : list V) t N v j : index_of veqb v u = Some j ->
  remove veqb (mk u (map snd t) (map fst t ++ [N])) v
  = mk (firstn j u ++ skipn (S j) u) (map (remap j) (map snd (filter (keep j) t)))
       (map fst (filter (keep j) t) ++ [N]).
Proof.
  intros H. unfold remove, ndumps. cbn [uv idx ev]. rewrite H.
  rewrite removelast_last, rm_combine_fs, last_last, map_map. reflexivity.
Qed.

Theorem remove_absent : forall (c : @cd V) v, index_of veqb v (uv c) = None -> remove veqb c v = c.
Proof. intros c v H. unfold remove. rewrite H. reflexivity. Qed.

Theorem remove_WF : forall (c : @cd V) v, WF c ->
  WF (remove veqb c v) /\ ndumps (remove veqb c v) = ndumps c.
Proof.
  intros c v HW. destruct (index_of veqb v (uv c)) as [j|] eqn:Hj.
  2:{ rewrite remove_absent by exact Hj. split; [exact HW|reflexivity]. }
  destruct (WF_shape c HW) as (t & N & Hc).
  destruct HW as (Hi & Hl & Hf & Hn). rewrite Hc in *. cbn [uv idx ev] in *. clear Hc.
  pose proof (index_of_lt _ _ _ Hj) as Hjl.
  rewrite (remove_shape _ _ _ _ _ Hj). unfold WF, ndumps. cbn [uv idx ev]. repeat split.
  - apply rm_incr_filter. exact Hi.
  - rewrite app_length, !map_length. simpl. lia.
  - rewrite length_del by exact Hjl. rewrite Forall_forall in *. intros x Hx.
    apply in_map_iff in Hx. destruct Hx as (i & <- & Hx).
    apply in_map_iff in Hx. destruct Hx as (p & <- & Hp).
    apply filter_In in Hp. destruct Hp as [Hp Hk].
    assert (Hr : snd p < length (uv c)) by (apply Hf; apply in_map; exact Hp).
    unfold keep in Hk. unfold remap.
    destruct (Nat.eqb_spec (snd p) j); [discriminate|].
    destruct (Nat.leb_spec j (snd p)); lia.
  - apply NoDup_del. exact Hn.
  - rewrite !last_last. reflexivity.
Qed.

(* ---- forward fill over a block of equal values ---- *)
Lemma ffill_repeat_keep v x : veqb x v = false -> forall n last R, 0 < n ->
  ffill veqb v last (repeat x n ++ R) = repeat x n ++ ffill veqb v (Some x) R.
Proof.
  intros Hx. induction n as [|n IH]; intros last R Hn. lia.
  simpl. rewrite Hx. f_equal. destruct n. reflexivity. apply IH. lia.
Qed.

Lemma ffill_repeat_fill v x y : veqb x v = true -> forall n R,
  ffill veqb v (Some y) (repeat x n ++ R) = repeat y n ++ ffill veqb v (Some y) R.
Proof.
  intros Hx. induction n as [|n IH]; intros R. reflexivity.
  simpl. rewrite Hx. f_equal. apply IH.
Qed.

Lemma ffill_repeat_skip v x : veqb x v = true -> forall n R,
  ffill veqb v None (repeat x n ++ R) = ffill veqb v None R.
Proof.
  intros Hx. induction n as [|n IH]; intros R. reflexivity.
  simpl. rewrite Hx. apply IH.
Qed.

Lemma ffill_id v : forall X last, Forall (fun x => veqb x v = false) X -> ffill veqb v last X = X.
Proof.
  induction X as [|x X IH]; intros last H. reflexivity.
  inversion H; subst. simpl. rewrite H2. f_equal. apply IH. assumption.
Qed.

Lemma E_Forall (P : V -> Prop) f : forall t N, Forall (fun p => P (f (snd p))) t -> Forall P (E f t N).
Proof.
  induction t as [|p t IH]; intros N H. constructor.
  inversion H; subst. simpl. apply Forall_app. split.
  - apply Forall_forall. intros x Hx. apply repeat_spec in Hx. subst. assumption.
  - apply IH. assumption.
Qed.

(* ---- the generalised induction: a value y has been kept, its segment started at s ---- *)
Lemma ffill_E_some f v j N : forall t s y,
  veqb y v = false -> s <= hd_ev t N -> incr (map fst t ++ [N]) ->
  Forall (fun p => veqb (f (snd p)) v = (snd p =? j)) t ->
  repeat y (hd_ev t N - s) ++ ffill veqb v (Some y) (E f t N)
  = repeat y (hd_ev (filter (keep j) t) N - s) ++ E f (filter (keep j) t) N.
Proof.
  induction t as [|[e i] t IH]; intros s y Hy Hs Hinc HF. reflexivity.
  inversion HF as [|? ? Hc HF']; subst. cbn [snd] in Hc.
  simpl in Hinc. pose proof (rm_chain_hd _ _ _ Hinc) as Hlt. apply rm_chain_incr in Hinc.
  cbn [hd_ev fst] in Hs.
  cbn [E filter hd_ev fst snd]. change (keep j (e, i)) with (negb (i =? j)).
  destruct (Nat.eqb_spec i j) as [Hij|Hij]; cbn [negb].
  - rewrite ffill_repeat_fill by exact Hc.
    rewrite app_assoc, rm_repeat_join by lia. apply IH; auto. lia.
  - cbn [E hd_ev fst snd]. rewrite ffill_repeat_keep by (auto; lia). f_equal.
    apply IH; auto. lia.
Qed.

(* no value kept yet: dumps of the removed value disappear *)
Lemma ffill_E_none f v j N : forall t,
  incr (map fst t ++ [N]) ->
  Forall (fun p => veqb (f (snd p)) v = (snd p =? j)) t ->
  ffill veqb v None (E f t N) = E f (filter (keep j) t) N.
Proof.
  induction t as [|[e i] t IH]; intros Hinc HF. reflexivity.
  inversion HF as [|? ? Hc HF']; subst. cbn [snd] in Hc.
  simpl in Hinc. pose proof (rm_chain_hd _ _ _ Hinc) as Hlt. apply rm_chain_incr in Hinc.
  cbn [E filter hd_ev fst snd]. change (keep j (e, i)) with (negb (i =? j)).
  destruct (Nat.eqb_spec i j) as [Hij|Hij]; cbn [negb].
  - rewrite ffill_repeat_skip by exact Hc. apply IH; auto.
  - cbn [E hd_ev fst snd]. rewrite ffill_repeat_keep by (auto; lia).
    apply ffill_E_some; auto. lia.
Qed.

Theorem remove_expand : forall (c : @cd V) v, WF c ->
  expand dflt (remove veqb c v) = spec_remove veqb (expand dflt c) v.
Proof.
  intros c v HW. unfold spec_remove.
  destruct (WF_shape c HW) as (t & N & Hc).
  destruct HW as (Hi & Hl & Hf & Hn).
  destruct (index_of veqb v (uv c)) as [j|] eqn:Hj.
  - rewrite Hc in *. cbn [uv idx ev] in *. clear Hc.
    destruct (index_of_some _ _ _ Hj) as [Hjl _].
    rewrite (remove_shape _ _ _ _ _ Hj). rewrite expand_mk_E.
    unfold expand, vals. cbn [uv idx ev]. rewrite map_map.
    rewrite (expand_evs_E (fun i => nth (remap j i) (firstn j (uv c) ++ skipn (S j) (uv c)) dflt)).
    rewrite (ffill_E_none (fun i => nth i (uv c) dflt) v j N t Hi).
    + apply E_ext. apply Forall_forall. intros p Hp.
      apply filter_In in Hp. destruct Hp as [_ Hk]. unfold keep in Hk.
      destruct (Nat.eqb_spec (snd p) j); [discriminate|]. apply nth_del. assumption.
    + apply Forall_forall. intros p Hp. apply index_of_cond; auto.
      rewrite Forall_forall in Hf. apply Hf. apply in_map. exact Hp.
  - rewrite remove_absent by exact Hj. symmetry. apply ffill_id.
    rewrite Hc in *. cbn [uv idx ev] in *. clear Hc.
    rewrite expand_mk_E. apply E_Forall. apply Forall_forall. intros p Hp.
    pose proof (index_of_none _ _ Hj) as Hnone. rewrite Forall_forall in Hnone, Hf.
    apply Hnone. apply nth_In. apply Hf. apply in_map. exact Hp.
Qed.

End RemoveP.

(* ================================================================== non-vacuity *)
Definition ex_c : @cd nat := mk [7; 8; 9] [0; 1; 0; 2] [0; 2; 5; 6; 10].

Example ex_expand : expand 0 ex_c = [7; 7; 8; 8; 8; 7; 9; 9; 9; 9].
Proof. reflexivity. Qed.

(* removing an inner value: its dumps take the preceding value (the result has a repeated index) *)
Example ex_remove_8 : remove Nat.eqb ex_c 8 = mk [7; 9] [0; 0; 1] [0; 5; 6; 10].
Proof. reflexivity. Qed.
Example ex_remove_8_expand :
  expand 0 (remove Nat.eqb ex_c 8) = [7; 7; 7; 7; 7; 7; 9; 9; 9; 9]
  /\ spec_remove Nat.eqb (expand 0 ex_c) 8 = [7; 7; 7; 7; 7; 7; 9; 9; 9; 9].
Proof. split; reflexivity. Qed.

(* removing the first value: the series then starts at dump 2 *)
Example ex_remove_7 : remove Nat.eqb ex_c 7 = mk [8; 9] [0; 1] [2; 6; 10].
Proof. reflexivity. Qed.
Example ex_remove_7_expand :
  expand 0 (remove Nat.eqb ex_c 7) = [8; 8; 8; 8; 9; 9; 9; 9]
  /\ spec_remove Nat.eqb (expand 0 ex_c) 7 = [8; 8; 8; 8; 9; 9; 9; 9].
Proof. split; reflexivity. Qed.

(* removing an absent value is the identity *)
Example ex_remove_absent : remove Nat.eqb ex_c 5 = ex_c.
Proof. reflexivity. Qed.

(* remove_repeats after remove 8 merges the two 7-events, same expansion *)
Example ex_remove_repeats :
  remove_repeats (remove Nat.eqb ex_c 8) = Some (mk [7; 9] [0; 1] [0; 6; 10])
  /\ expand 0 (mk [7; 9] [0; 1] [0; 6; 10]) = expand 0 (remove Nat.eqb ex_c 8).
Proof. split; reflexivity. Qed.

Example ex_WF : WF ex_c.
Proof.
  unfold WF, ex_c; simpl. repeat split; try lia.
  - repeat constructor; lia.
  - repeat constructor; simpl; intuition discriminate.
Qed.

(* the theorems instantiated on the example (hypotheses are satisfiable) *)
Example ex_remove_thm : expand 0 (remove Nat.eqb ex_c 7) = spec_remove Nat.eqb (expand 0 ex_c) 7.
Proof. apply remove_expand. apply Nat.eqb_eq. apply ex_WF. Qed.
