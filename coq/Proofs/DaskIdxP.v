From Coq Require Import ZArith List Bool Lia ZifyBool.
From KV Require Import Base.Sx Model.DaskIdx.
Import ListNotations.
Open Scope Z_scope.

Lemma f20_witness : d_slice_pos (DS (Some (-6)) (Some 2) (Some (-2))) 5 = Some [].
Proof. reflexivity. Qed.
