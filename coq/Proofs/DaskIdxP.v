(* C04: sequential per-axis indexing (_dask_oindex) is numpy outer indexing. *)
From Coq Require Import ZArith List Bool Lia ZifyBool.
From KV Require Import Base.Sx Model.DaskIdx.
Import ListNotations.
Open Scope Z_scope.

(* ---------- equality of arrays: same shape, same dtype, same element at every in-bounds position ---------- *)
Definition d_inb (shape idx : list Z) : Prop := Forall2 (fun i n => 0 <= i < n) idx shape.
Definition d_eqv (a b : d_arr) : Prop :=
  d_shape a = d_shape b /\ d_dtype a = d_dtype b /\
  forall idx, d_inb (d_shape a) idx -> d_get a idx = d_get b idx.
Definition d_oeqv (x y : option d_arr) : Prop :=
  match x, y with
  | Some a, Some b => d_eqv a b
  | None, None => True
  | _, _ => False
  end.

Lemma d_eqv_refl a : d_eqv a a.
Proof. repeat split; auto. Qed.
Lemma d_eqv_sym a b : d_eqv a b -> d_eqv b a.
Proof. intros (S & T & G). repeat split; auto. intros idx H. symmetry. apply G. rewrite S. exact H. Qed.
Lemma d_eqv_trans a b c : d_eqv a b -> d_eqv b c -> d_eqv a c.
Proof.
  intros (S1 & T1 & G1) (S2 & T2 & G2). repeat split; try congruence.
  intros idx H. rewrite G1 by exact H. apply G2. rewrite <- S1. exact H.
Qed.
Lemma d_oeqv_refl x : d_oeqv x x.
Proof. destruct x; simpl; auto using d_eqv_refl. Qed.
Lemma d_oeqv_sym x y : d_oeqv x y -> d_oeqv y x.
Proof. destruct x, y; simpl; auto using d_eqv_sym. Qed.
Lemma d_oeqv_trans x y z : d_oeqv x y -> d_oeqv y z -> d_oeqv x z.
Proof. destruct x, y, z; simpl; try tauto. apply d_eqv_trans. Qed.

Lemma d_inb_length shape idx : d_inb shape idx -> List.length idx = List.length shape.
Proof. induction 1; simpl; congruence. Qed.

(* ---------- list helpers ---------- *)
Lemma firstn_app_exact {A} (l m : list A) k : List.length l = k -> firstn k (l ++ m) = l.
Proof. intros <-. induction l; simpl; [destruct m; reflexivity|]. f_equal. exact IHl. Qed.
Lemma skipn_app_exact {A} (l m : list A) k : List.length l = k -> skipn k (l ++ m) = m.
Proof. intros <-. induction l; simpl; auto. Qed.
Lemma skipn_nth_error {A} (l : list A) k x : nth_error l k = Some x -> skipn k l = x :: skipn (S k) l.
Proof.
  revert k; induction l as [|y t IH]; intros [|k] H; simpl in *; try discriminate.
  - congruence.
  - rewrite (IH k H). destruct t; reflexivity.
Qed.
Lemma skipn_nth_error_None {A} (l : list A) k : nth_error l k = None -> skipn k l = [].
Proof. intros H. apply skipn_all2. apply nth_error_None. exact H. Qed.
Lemma skipn_add {A} (l : list A) a b : skipn a (skipn b l) = skipn (b + a) l.
Proof.
  revert l; induction b as [|b IH]; intros l; simpl; [reflexivity|].
  destruct l; simpl; [destruct a; reflexivity|]. apply IH.
Qed.
Lemma firstn_length_lt {A} (l : list A) k x : nth_error l k = Some x -> List.length (firstn k l) = k.
Proof.
  intros H. rewrite firstn_length. apply Nat.min_l.
  assert (k < List.length l)%nat by (apply nth_error_Some; congruence). lia.
Qed.
Lemma firstn_S_nth {A} (l : list A) k d : (k < List.length l)%nat -> firstn (S k) l = firstn k l ++ [nth k l d].
Proof.
  revert k; induction l as [|y t IH]; intros k H; simpl in H; [lia|].
  destruct k; simpl; [reflexivity|]. f_equal. apply IH. lia.
Qed.
Lemma skipn_S_nth {A} (l : list A) k d : (k < List.length l)%nat -> skipn k l = nth k l d :: skipn (S k) l.
Proof.
  revert k; induction l as [|y t IH]; intros k H; simpl in H; [lia|].
  destruct k; [reflexivity|]. simpl skipn at 1. rewrite (IH k) by lia. reflexivity.
Qed.

(* ---------- the generalised spec: outer indexing of the axes from k on ---------- *)
Definition d_oindex_at (k : nat) (a : d_arr) (ixs : list d_aidx) : option d_arr :=
  match d_resolve_all (skipn k (d_shape a)) ixs with
  | None => None
  | Some vs => Some (DA (firstn k (d_shape a) ++ d_vshape vs ++ skipn (k + List.length ixs) (d_shape a))
                        (d_dtype a)
                        (fun idx => d_get a (firstn k idx ++ d_remap vs (skipn k idx))))
  end.

Lemma d_oindex_at_0 a ixs : d_oindex_at 0 a ixs = d_oindex a ixs.
Proof. reflexivity. Qed.

Lemma d_resolve_is_int n ix v : d_resolve n ix = Some v ->
  match v with VDrop _ => d_is_int ix = true | VKeep _ => d_is_int ix = false end.
Proof.
  destruct ix; simpl; intros H.
  - destruct (d_inrange n z); inversion H; reflexivity.
  - destruct (d_slice_pos s n); inversion H; reflexivity.
  - destruct (_ =? _); inversion H; reflexivity.
  - destruct (forallb _ _); inversion H; reflexivity.
Qed.

Lemma d_take_unfold a ix k n v : nth_error (d_shape a) k = Some n -> d_resolve n ix = Some v ->
  d_take a ix k = Some (DA (firstn k (d_shape a) ++ d_vshape [v] ++ skipn (S k) (d_shape a)) (d_dtype a)
                           (fun idx => d_get a (firstn k idx ++ d_remap [v] (skipn k idx)))).
Proof. intros Hn Hv. unfold d_take. rewrite Hn, Hv. reflexivity. Qed.

(* one step of the loop followed by the spec on the remaining axes is the spec on all axes *)
Lemma d_take_then_at a ix r k n v a' :
  nth_error (d_shape a) k = Some n -> d_resolve n ix = Some v -> d_take a ix k = Some a' ->
  d_oeqv (d_oindex_at (if d_is_int ix then k else S k) a' r) (d_oindex_at k a (ix :: r)).
Proof.
  intros Hn Hv Ht.
  pose proof (d_take_unfold _ _ _ _ _ Hn Hv) as Hu.
  pose proof (d_resolve_is_int _ _ _ Hv) as Hint.
  pose proof (firstn_length_lt _ _ _ Hn) as Hfl.
  pose proof (skipn_nth_error _ _ _ Hn) as Hsk.
  remember (S k) as k1 eqn:Hk1.
  rewrite Hu in Ht. injection Ht as Ht. subst a'. clear Hu.
  destruct v as [ps|p]; rewrite Hint; cbn [d_vshape].
  - (* kept axis: counter advances *)
    unfold d_oindex_at. cbn [d_shape d_dtype d_get].
    rewrite Hsk. cbn [d_resolve_all]. rewrite Hv.
    replace (firstn k (d_shape a) ++ (Z.of_nat (List.length ps) :: []) ++ skipn k1 (d_shape a))
      with ((firstn k (d_shape a) ++ [Z.of_nat (List.length ps)]) ++ skipn k1 (d_shape a))
      by (rewrite <- app_assoc; reflexivity).
    assert (Hl : List.length (firstn k (d_shape a) ++ [Z.of_nat (List.length ps)]) = k1)
      by (rewrite app_length, Hfl; simpl; lia).
    rewrite (skipn_app_exact _ _ _ Hl).
    destruct (d_resolve_all (skipn k1 (d_shape a)) r) as [vs|]; [|exact Logic.I].
    cbn [d_oeqv]. unfold d_eqv. cbn [d_shape d_dtype d_get d_vshape].
    rewrite (firstn_app_exact _ _ _ Hl).
    rewrite <- skipn_add. rewrite (skipn_app_exact _ _ _ Hl). rewrite skipn_add.
    replace (k1 + List.length r)%nat with (k + List.length (ix :: r))%nat by (simpl; lia).
    split; [rewrite <- !app_assoc; reflexivity|]. split; [reflexivity|].
    intros idx Hin. apply d_inb_length in Hin.
    rewrite app_length, Hl in Hin.
    assert (Hk : (k < List.length idx)%nat) by lia.
    f_equal.
    assert (Hl2 : List.length (firstn k idx) = k) by (rewrite firstn_length; lia).
    assert (E1 : firstn k1 idx = firstn k idx ++ [nth k idx 0]) by (subst k1; apply firstn_S_nth; exact Hk).
    assert (E2 : skipn k idx = nth k idx 0 :: skipn k1 idx) by (subst k1; apply skipn_S_nth; exact Hk).
    rewrite E1, E2. rewrite <- app_assoc.
    rewrite (firstn_app_exact _ _ _ Hl2), (skipn_app_exact _ _ _ Hl2). reflexivity.
  - (* dropped axis: counter stays *)
    unfold d_oindex_at. cbn [d_shape d_dtype d_get].
    rewrite Hsk. cbn [d_resolve_all]. rewrite Hv.
    cbn [app].
    rewrite (skipn_app_exact _ _ _ Hfl).
    destruct (d_resolve_all (skipn k1 (d_shape a)) r) as [vs|]; [|exact Logic.I].
    cbn [d_oeqv]. unfold d_eqv. cbn [d_shape d_dtype d_get d_vshape].
    rewrite (firstn_app_exact _ _ _ Hfl).
    rewrite <- skipn_add. rewrite (skipn_app_exact _ _ _ Hfl). rewrite skipn_add.
    replace (k1 + List.length r)%nat with (k + List.length (ix :: r))%nat by (simpl; lia).
    split; [reflexivity|]. split; [reflexivity|].
    intros idx Hin. apply d_inb_length in Hin.
    rewrite app_length, Hfl in Hin.
    f_equal.
    assert (Hl2 : List.length (firstn k idx) = k) by (rewrite firstn_length; lia).
    rewrite (firstn_app_exact _ _ _ Hl2), (skipn_app_exact _ _ _ Hl2). reflexivity.
Qed.

Lemma d_resolve_all_nil sh : d_resolve_all sh [] = Some [].
Proof. destruct sh; reflexivity. Qed.

Lemma d_oindex_seq_at : forall ixs a k, d_oeqv (d_oindex_seq a ixs k) (d_oindex_at k a ixs).
Proof.
  induction ixs as [|ix r IH]; intros a k.
  - unfold d_oindex_at. rewrite d_resolve_all_nil. cbn [d_oindex_seq d_oeqv d_vshape List.length].
    unfold d_eqv; cbn [d_shape d_dtype d_get app d_remap]. rewrite Nat.add_0_r, firstn_skipn.
    repeat split; auto. intros idx _. rewrite firstn_skipn. reflexivity.
  - cbn [d_oindex_seq].
    destruct (nth_error (d_shape a) k) as [n|] eqn:Hn.
    + destruct (d_resolve n ix) as [v|] eqn:Hv.
      * destruct (d_take a ix k) as [a'|] eqn:Ht.
        -- eapply d_oeqv_trans; [apply IH|]. eapply d_take_then_at; eauto.
        -- unfold d_take in Ht. rewrite Hn, Hv in Ht. discriminate.
      * unfold d_take. rewrite Hn, Hv. unfold d_oindex_at.
        rewrite (skipn_nth_error _ _ _ Hn). cbn [d_resolve_all]. rewrite Hv. exact Logic.I.
    + unfold d_take. rewrite Hn. unfold d_oindex_at.
      rewrite (skipn_nth_error_None _ _ Hn). cbn [d_resolve_all]. exact Logic.I.
Qed.

(* _dask_oindex = numpy outer indexing, for every array, every index list (all kinds), every axis count *)
Lemma d_oindex_seq_is_oindex a ixs : d_oeqv (d_oindex_seq a ixs 0) (d_oindex a ixs).
Proof. rewrite <- d_oindex_at_0. apply d_oindex_seq_at. Qed.

(* non-vacuity: a 2 x 3 array, unsorted repeated list with a negative entry on axis 0, negative int on axis 1 *)
Example d_oindex_seq_example :
  option_map d_values (d_oindex_seq (d_label_arr [2; 3]) [DList [1; -2; 1]; DInt (-1)] 0) = Some [5; 2; 5].
Proof. reflexivity. Qed.
