(* C02, extended model (Model/SelectX.v): the decision constants read from the source, closed forms of the loop
   with its failure state, of the reset blocks and of the whole call; view lemmas. *)
From Coq Require Import ZArith List Bool String Ascii Lia Permutation PeanoNat.
From KV Require Import Base.Sx Base.Str Base.SelSlice Gen.Generated Model.Select Model.SelectX
  Proofs.SelectBaseP Proofs.SelectP.
Import ListNotations.
Open Scope Z_scope.

(* ---------------------------------------------------------------- decisions regenerated from the source *)
Lemma decisions_are_documented :
  sel_spw_range = (0, ("LtE", "Lt"))%string /\ sel_sub_range = (0, ("LtE", "Lt"))%string
  /\ sel_spw_change = ("NotEq", "TF")%string /\ sel_sub_change = ("NotEq", "TB")%string
  /\ sel_init_spw = -1 /\ sel_init_sub = -1
  /\ sel_time_base = [("Observation/spw_index", ("Eq", "spw")); ("Observation/subarray_index", ("Eq", "subarray"))]%string
  /\ sel_timerange = [(0, ("Add", ((1, 2), "GtE"))); (1, ("Sub", ((1, 2), "LtE")))]%string
  /\ sel_freqrange = [(0, ("Add", ((1, 2), "GtE"))); (1, ("Sub", ((1, 2), "LtE")))]%string
  /\ sel_scan_negation = ("Eq"%string, 126) /\ sel_deselection = ("NotEq"%string, 126) /\ sel_list_sep = 44
  /\ sel_auto_cmp = "Eq"%string /\ sel_cross_cmp = "NotEq"%string
  /\ sel_ants_desel = ("NotIn", ("And", "NotIn"))%string /\ sel_ants_sel = ("In", ("And", "In"))%string
  /\ sel_inputs_ops = ("In", ("And", "In"))%string
  /\ sel_pol_single = [104; 118] /\ sel_pol_repeat = 2 /\ sel_pol_nonempty = ("Gt"%string, 0)
  /\ sel_pol_match = (("Eq"%string, 0), ("And"%string, ("Eq"%string, 1))).
Proof. repeat split; reflexivity. Qed.

Lemma in_range_spw : forall z n, in_range sel_spw_range z n = (0 <=? z) && (z <? n).
Proof. reflexivity. Qed.
Lemma in_range_sub : forall z n, in_range sel_sub_range z n = (0 <=? z) && (z <? n).
Proof. reflexivity. Qed.
Lemma spw_change_cmp : forall a b, py_cmp (fst sel_spw_change) a b = negb (a =? b).
Proof. reflexivity. Qed.
Lemma sub_change_cmp : forall a b, py_cmp (fst sel_sub_change) a b = negb (a =? b).
Proof. reflexivity. Qed.

Lemma window_mask_base : forall xo spw sub,
  window_mask xo spw sub = map (fun x => (xd_spw x =? spw) && (xd_sub x =? sub)) (x_dumps xo).
Proof.
  intros. unfold window_mask. apply map_ext. intro d.
  change sel_time_base with [("Observation/spw_index", ("Eq", "spw")); ("Observation/subarray_index", ("Eq", "subarray"))]%string.
  cbn. rewrite andb_true_r. reflexivity.
Qed.

(* ---------------------------------------------------------------- Python list indexing *)
Lemma py_nth_in_range : forall (A : Type) (l : list A) z, 0 <= z < Z.of_nat (List.length l) ->
  py_nth l z = nth_error l (Z.to_nat z).
Proof.
  intros A l z H. unfold py_nth.
  destruct (z <? - Z.of_nat (List.length l)) eqn:E1; [apply Z.ltb_lt in E1; lia|].
  destruct (Z.of_nat (List.length l) <=? z) eqn:E2; [apply Z.leb_le in E2; lia|].
  simpl. destruct (z <? 0) eqn:E3; [apply Z.ltb_lt in E3; lia | reflexivity].
Qed.

Lemma nth_error_in_range : forall (A : Type) (l : list A) z, 0 <= z < Z.of_nat (List.length l) ->
  exists x, nth_error l (Z.to_nat z) = Some x.
Proof.
  intros A l z H. destruct (nth_error l (Z.to_nat z)) eqn:E; [eauto|].
  apply nth_error_None in E. lia.
Qed.

(* ---------------------------------------------------------------- the loop and the state it leaves behind *)
Definition ok_kv (o : obs) (kv : string * value) : bool := negb (is_cerr (crit o (fst kv) (snd kv))).
Fixpoint ok_prefix (o : obs) (l : kwargs) : kwargs :=
  match l with
  | [] => []
  | kv :: t => if ok_kv o kv then kv :: ok_prefix o t else []
  end.

Lemma loop_fn_nil : forall o s, loop_fn o [] s = s.
Proof. intros o s. destruct s; reflexivity. Qed.

Lemma loop_fn_cons : forall o kv l s, loop_fn o (kv :: l) s = loop_fn o l (loop_fn o [kv] s).
Proof.
  intros o kv l s. unfold loop_fn, dmasks, lastw. cbn [flat_map fold_left tk fk bk sel wk flk].
  rewrite !app_nil_r, !fold_left_app. reflexivity.
Qed.

Lemma apply1_closed : forall o s kv,
  apply1 o s kv = if ok_kv o kv then Ok (loop_fn o [kv] s) else Err EFail.
Proof.
  intros o s kv. pose proof (loop_closed o [kv] s) as H. unfold loop in H. cbn [fold_left] in H.
  rewrite H. unfold all_ok, ok_kv. cbn [forallb]. rewrite andb_true_r. reflexivity.
Qed.

Lemma loop_st_closed : forall o l s,
  loop_st o l s = (loop_fn o (ok_prefix o l) s, all_ok o l).
Proof.
  induction l as [|kv l IH]; intro s.
  - cbn. rewrite loop_fn_nil. reflexivity.
  - cbn [loop_st ok_prefix]. rewrite apply1_closed.
    change (all_ok o (kv :: l)) with (ok_kv o kv && all_ok o l).
    destruct (ok_kv o kv); cbn [andb].
    + rewrite IH, <- loop_fn_cons. reflexivity.
    + rewrite loop_fn_nil. reflexivity.
Qed.

Lemma ok_prefix_all : forall o l, all_ok o l = true -> ok_prefix o l = l.
Proof.
  induction l as [|kv l IH]; intro H; [reflexivity|].
  change (all_ok o (kv :: l)) with (ok_kv o kv && all_ok o l) in H. apply andb_true_iff in H. destruct H as [A B].
  cbn. rewrite A, (IH B). reflexivity.
Qed.

Lemma ok_prefix_incl : forall o l kv, In kv (ok_prefix o l) -> In kv l.
Proof.
  induction l as [|x l IH]; intros kv H; [exact H|]. cbn in H. destruct (ok_kv o x); [|contradiction].
  destruct H; [left; assumption | right; apply IH; assumption].
Qed.

Lemma mget_loop_fn : forall o l s d, mget d (loop_fn o l s) = fold_left mand (dmasks o d l) (mget d s).
Proof. intros. destruct d; reflexivity. Qed.

Lemma sel_loop_fn : forall o l s, sel (loop_fn o l s) = sel s.
Proof. reflexivity. Qed.

Lemma wf_loop_fn : forall o l s, wf_st o s -> wf_st o (loop_fn o l s).
Proof.
  intros o l s W d. rewrite mget_loop_fn. apply length_fold_mand; [apply W|].
  intros m H. eapply dmasks_len; eauto.
Qed.

(* any evaluated list of criteria, once applied, holds of the masks: the invariant of Select is re-established by
   every completed loop, whatever the masks were before *)
Lemma inv_loop_fn : forall o l c, wf_st o c -> NoDup (keys l) -> all_ok o l = true ->
  Inv o (loop_fn o l (set_sel l c)).
Proof.
  intros o l c W N A. split.
  - apply wf_loop_fn. intro d. destruct d; [exact (W DT) | exact (W DF) | exact (W DB)].
  - exact N.
  - intros kv H. unfold holds. cbn [sel loop_fn set_sel] in H.
    pose proof (all_ok_in o _ kv A H) as Hc.
    destruct (crit o (fst kv) (snd kv)) as [| |d m] eqn:C; [congruence | exact Logic.I |].
    intros i Hi. rewrite mget_loop_fn, nth_fold_mand, forallb_dmasks in Hi.
    apply andb_true_iff in Hi. destruct Hi as [_ Hi]. rewrite forallb_forall in Hi.
    specialize (Hi kv H). unfold cbit in Hi. rewrite C in Hi. destruct d; simpl in Hi; exact Hi.
  - intros v H. cbn [sel loop_fn set_sel] in H.
    change (wk (loop_fn o l (set_sel l c))) with (lastw "weights" l (wk c)).
    rewrite lastw_lookup by exact N. rewrite H. reflexivity.
  - intros v H. cbn [sel loop_fn set_sel] in H.
    change (flk (loop_fn o l (set_sel l c))) with (lastw "flags" l (flk c)).
    rewrite lastw_lookup by exact N. rewrite H. reflexivity.
Qed.

(* ---------------------------------------------------------------- the reset blocks *)
Definition xclear_fn (xo : xobs) (o : obs) (spw sub : Z) (reset : string) (s : st) : st :=
  {| tk := if has_char "T" reset then window_mask xo spw sub else tk s;
     fk := if has_char "F" reset then ones (dimlen o DF) else fk s;
     bk := if has_char "B" reset then ones (dimlen o DB) else bk s;
     sel := filter (fun p => negb (popped reset (fst p))) (sel s);
     wk := wk s; flk := flk s |}.

Lemma xclear_closed : forall xo o spw sub reset s, xclear xo o spw sub reset s = xclear_fn xo o spw sub reset s.
Proof.
  intros xo o spw sub reset s. unfold xclear, sel_clear_table.
  change sel_time_selectors with (doc_group DT). change sel_freq_selectors with (doc_group DF).
  change sel_corrprod_selectors with (doc_group DB).
  cbn [fold_left]. unfold xclear_row. cbn [fst snd letter_in].
  change (attr_dim "_time_keep") with (Some DT). change (attr_dim "_freq_keep") with (Some DF).
  change (attr_dim "_corrprod_keep") with (Some DB).
  unfold xclear_fn, popped, dims. cbn [existsb].
  change (doc_letter DT) with "T"%char. change (doc_letter DF) with "F"%char. change (doc_letter DB) with "B"%char.
  destruct s as [t f b sl w fl].
  destruct (has_char "T" reset); destruct (has_char "F" reset); destruct (has_char "B" reset);
    unfold set_sel, mset; cbn [tk fk bk sel wk flk andb orb];
    rewrite ?fold_remove_keys, ?filter_filter; f_equal;
    first [ apply filter_ext; intro p; rewrite ?negb_orb, ?orb_false_r, ?andb_true_r; reflexivity
          | symmetry; apply filter_true ].
Qed.

Lemma has_char_append : forall c a b, has_char c (append a b) = has_char c a || has_char c b.
Proof.
  induction a as [|x a IH]; intro b; simpl; [reflexivity|]. rewrite IH, orb_assoc. reflexivity.
Qed.

Lemma popped_gen : forall r k d, mem_string k (doc_group d) = true -> popped r k = has_char (doc_letter d) r.
Proof.
  intros r k d M. unfold popped, dims. cbn [existsb].
  apply key_dim_group in M.
  destruct (mem_string k (doc_group DT)) eqn:A; [apply key_dim_group in A|];
  destruct (mem_string k (doc_group DF)) eqn:B; try apply key_dim_group in B;
  destruct (mem_string k (doc_group DB)) eqn:C; try apply key_dim_group in C;
  try congruence;
  try (assert (d = DT) by congruence); try (assert (d = DF) by congruence); try (assert (d = DB) by congruence);
  subst; rewrite ?andb_true_r, ?andb_false_r, ?orb_false_r; try reflexivity.
  exfalso. unfold key_dim in M. rewrite A, B, C in M. discriminate.
Qed.

Lemma popped_none : forall r k, key_dim k = None -> popped r k = false.
Proof.
  intros r k H. unfold popped, dims. cbn [existsb]. unfold key_dim in H.
  destruct (mem_string k (doc_group DT)); [discriminate|].
  destruct (mem_string k (doc_group DF)); [discriminate|].
  destruct (mem_string k (doc_group DB)); [discriminate|].
  rewrite !andb_false_r. reflexivity.
Qed.

(* ---------------------------------------------------------------- a criterion only looks at its own dimension *)
Lemma crit_dim_ext : forall o o' k v d, key_dim k = Some d ->
  (d = DT -> o_dumps o = o_dumps o' /\ o_half o = o_half o' /\ o_targets o = o_targets o') ->
  (d = DF -> o_freqs o = o_freqs o' /\ o_halfw o = o_halfw o') ->
  (d = DB -> o_cps o = o_cps o') ->
  crit o k v = crit o' k v.
Proof.
  intros o o' k v d K HT HF HB. unfold crit.
  key_cases k;
    try (assert (d = DT) by (unfold key_dim in K; simpl in K; congruence); subst d;
         destruct (HT eq_refl) as [E1 [E2 E3]];
         unfold timerange_mask, scans_mask, compscans_mask, targets_mask, tags_mask, target_indices, enum_targets;
         rewrite ?E1, ?E2, ?E3; reflexivity);
    try (assert (d = DF) by (unfold key_dim in K; simpl in K; congruence); subst d;
         destruct (HF eq_refl) as [E1 E2]; unfold freqrange_mask; rewrite ?E1, ?E2; reflexivity);
    try (assert (d = DB) by (unfold key_dim in K; simpl in K; congruence); subst d;
         pose proof (HB eq_refl) as E1;
         unfold corrprods_mask, ants_mask, inputs_mask, pol_mask; rewrite ?E1; reflexivity).
  exfalso. unfold key_dim, mem_string, doc_group in K. simpl in K.
  repeat match goal with H : k <> _ |- _ => apply String.eqb_neq in H; rewrite H in K; clear H end.
  discriminate.
Qed.

(* ---------------------------------------------------------------- closed form of the call *)
Definition xkw3 (kw : kwargs) (spw sub : Z) : kwargs :=
  set_key "subarray" (VAtom sub) (set_key "spw" (VAtom spw) (remove_key "reset" kw)).

(* the reset string before the window / subarray letters are appended *)
Definition xr1 (kw : kwargs) (spw sub : Z) : string :=
  match kw with
  | [] => "TFB"
  | _ => match lookup "reset" kw with
         | Some (VStr r) => if String.eqb r "auto" then auto_reset (xkw3 kw spw sub) else r
         | _ => auto_reset (xkw3 kw spw sub)
         end
  end.
Definition xreset (cur_spw cur_sub : Z) (kw : kwargs) (spw sub : Z) : string :=
  let r1 := xr1 kw spw sub in
  let r2 := if negb (spw =? cur_spw) then append r1 "TF" else r1 in
  if negb (sub =? cur_sub) then append r2 "TB" else r2.

Definition xsel_of (c : st) (reset : string) (kw3 : kwargs) : kwargs :=
  update (filter (fun p => negb (popped reset (fst p))) (sel c)) kw3.

(* everything that is decided before the data set is touched: the documented rejections and the values that make
   Python raise in these first lines; otherwise the window and subarray of the call *)
Definition xpre (xo : xobs) (cur_spw cur_sub : Z) (kw : kwargs) : outcome + (Z * Z) :=
  let strict := match lookup "strict" kw with Some v => truthy v | None => true end in
  if strict && existsb (fun p => negb (mem_string (fst p) doc_valid)) kw then inl OTypeError else
  match atom_of cur_spw (lookup "spw" kw) with
  | None => inl OFail
  | Some spw =>
    if negb ((0 <=? spw) && (spw <? Z.of_nat (List.length (x_spws xo)))) then inl OIndexError else
    match atom_of cur_sub (lookup "subarray" kw) with
    | None => inl OFail
    | Some sub =>
      if negb ((0 <=? sub) && (sub <? Z.of_nat (List.length (x_subs xo)))) then inl OIndexError else
      if negb (reset_wellformed kw) then inl OFail else inr (spw, sub)
    end
  end.

Definition xstep (xo : xobs) (s : xst) (kw : kwargs) (spw sub : Z) (w : spwin) (sa : subarr) : outcome * xst :=
  let o := view_of xo w sa in
  let r := xreset (x_spw s) (x_sub s) kw spw sub in
  let l := xsel_of (x_core s) r (xkw3 kw spw sub) in
  let c := set_sel l (xclear_fn xo o spw sub r (x_core s)) in
  if all_ok o l then (OOk, with_core (loop_fn o l c) spw sub (pub_of o sa (loop_fn o l c)))
  else (OFail, with_core (loop_fn o (ok_prefix o l) c) spw sub (x_pub s)).

Lemma xpre_range : forall xo a b kw spw sub, xpre xo a b kw = inr (spw, sub) ->
  0 <= spw < Z.of_nat (List.length (x_spws xo)) /\ 0 <= sub < Z.of_nat (List.length (x_subs xo)).
Proof.
  intros xo a b kw spw sub H. unfold xpre in H.
  destruct (_ && existsb _ kw); [discriminate|].
  destruct (atom_of a _) as [z|]; [|discriminate].
  destruct ((0 <=? z) && (z <? _)) eqn:E1; [|discriminate]. cbn [negb] in H.
  destruct (atom_of b _) as [z'|]; [|discriminate].
  destruct ((0 <=? z') && (z' <? _)) eqn:E2; [|discriminate]. cbn [negb] in H.
  destruct (negb (reset_wellformed kw)); [discriminate|]. inversion H; subst.
  apply andb_true_iff in E1. apply andb_true_iff in E2. lia.
Qed.

Lemma xselect_closed : forall xo s xkw,
  xselect xo s xkw =
  let kw := elab_kw (x_vocab xo) xkw in
  match xpre xo (x_spw s) (x_sub s) kw with
  | inl oc => (oc, s)
  | inr (spw, sub) =>
      match nth_error (x_spws xo) (Z.to_nat spw), nth_error (x_subs xo) (Z.to_nat sub) with
      | Some w, Some sa => xstep xo s kw spw sub w sa
      | _, _ => (OFail, s)
      end
  end.
Proof.
  intros xo s xkw. unfold xselect. cbv zeta. set (kw := elab_kw (x_vocab xo) xkw).
  unfold xpre.
  change sel_valid_kwargs with doc_valid. change sel_strict_default with true.
  change sel_noarg_reset with "TFB"%string. change sel_default_reset with "auto"%string.
  destruct (_ && existsb _ kw); [reflexivity|].
  assert (H1 : lookup "spw" (remove_key "reset" kw) = lookup "spw" kw) by (rewrite lookup_remove_key; reflexivity).
  rewrite H1.
  assert (H2 : forall v, lookup "subarray" (set_key "spw" v (remove_key "reset" kw)) = lookup "subarray" kw)
    by (intro v; rewrite lookup_set_key, lookup_remove_key; reflexivity).
  rewrite !H2.
  assert (Hstep : forall spw sub r0,
    0 <= spw < Z.of_nat (List.length (x_spws xo)) -> 0 <= sub < Z.of_nat (List.length (x_subs xo)) ->
    (if String.eqb r0 "auto" then auto_reset (xkw3 kw spw sub) else r0) = xr1 kw spw sub ->
    match py_nth (x_spws xo) spw, py_nth (x_subs xo) sub with
    | Some w, Some sa =>
        let o := view_of xo w sa in
        let r3 := (if py_cmp (fst sel_sub_change) sub (x_sub s)
                   then append (if py_cmp (fst sel_spw_change) spw (x_spw s)
                                then append (if String.eqb r0 "auto" then auto_reset (xkw3 kw spw sub) else r0) (snd sel_spw_change)
                                else (if String.eqb r0 "auto" then auto_reset (xkw3 kw spw sub) else r0)) (snd sel_sub_change)
                   else (if py_cmp (fst sel_spw_change) spw (x_spw s)
                         then append (if String.eqb r0 "auto" then auto_reset (xkw3 kw spw sub) else r0) (snd sel_spw_change)
                         else (if String.eqb r0 "auto" then auto_reset (xkw3 kw spw sub) else r0))) in
        let c1 := xclear xo o spw sub r3 (x_core s) in
        let c2 := set_sel (update (sel c1) (xkw3 kw spw sub)) c1 in
        let r := loop_st o (sel c2) c2 in
        if snd r then (OOk, with_core (fst r) spw sub (pub_of o sa (fst r)))
        else (OFail, with_core (fst r) spw sub (x_pub s))
    | _, _ => (OFail, s)
    end =
    match nth_error (x_spws xo) (Z.to_nat spw), nth_error (x_subs xo) (Z.to_nat sub) with
    | Some w, Some sa => xstep xo s kw spw sub w sa
    | _, _ => (OFail, s)
    end).
  { intros spw sub r0 Rs Rb Hr. rewrite (py_nth_in_range _ _ _ Rs), (py_nth_in_range _ _ _ Rb).
    destruct (nth_error (x_spws xo) (Z.to_nat spw)) as [w|]; [|reflexivity].
    destruct (nth_error (x_subs xo) (Z.to_nat sub)) as [sa|]; [|reflexivity].
    cbv zeta. rewrite Hr. rewrite spw_change_cmp, sub_change_cmp.
    change (snd sel_spw_change) with "TF"%string. change (snd sel_sub_change) with "TB"%string.
    unfold xstep. cbv zeta. fold (xreset (x_spw s) (x_sub s) kw spw sub).
    assert (E : (if negb (sub =? x_sub s)
                 then append (if negb (spw =? x_spw s) then append (xr1 kw spw sub) "TF" else xr1 kw spw sub) "TB"
                 else if negb (spw =? x_spw s) then append (xr1 kw spw sub) "TF" else xr1 kw spw sub)
                = xreset (x_spw s) (x_sub s) kw spw sub) by reflexivity.
    clear E. rewrite xclear_closed. rewrite loop_st_closed. cbn [fst snd sel set_sel xclear_fn].
    fold (xsel_of (x_core s) (xreset (x_spw s) (x_sub s) kw spw sub) (xkw3 kw spw sub)).
    set (l := xsel_of (x_core s) (xreset (x_spw s) (x_sub s) kw spw sub) (xkw3 kw spw sub)).
    destruct (all_ok (view_of xo w sa) l) eqn:A; [rewrite (ok_prefix_all _ _ A)|]; reflexivity. }
  destruct (lookup "spw" kw) as [[| | | | | | | | | | | |spw]|] eqn:Lspw; cbn [atom_of]; try reflexivity;
    rewrite in_range_spw.
  - destruct ((0 <=? spw) && (spw <? Z.of_nat (List.length (x_spws xo)))) eqn:Rs; cbn [negb]; [|reflexivity].
    destruct (lookup "subarray" kw) as [[| | | | | | | | | | | |sub]|] eqn:Lsub; cbn [atom_of]; try reflexivity;
      rewrite in_range_sub.
    + destruct ((0 <=? sub) && (sub <? Z.of_nat (List.length (x_subs xo)))) eqn:Rb; cbn [negb]; [|reflexivity].
      apply andb_true_iff in Rs. apply andb_true_iff in Rb.
      fold (xkw3 kw spw sub). unfold reset_wellformed.
      destruct kw as [|p0 kw0] eqn:Ekw.
      * discriminate.
      * rewrite <- Ekw in *.
        destruct (lookup "reset" kw) as [[| | | | | | | | | | |r|]|] eqn:Lr; cbn [negb]; try reflexivity.
        -- subst kw. apply Hstep; try lia. unfold xr1. rewrite Ekw in Lr |- *. rewrite Lr. reflexivity.
        -- subst kw. apply Hstep; try lia. unfold xr1. rewrite Ekw in Lr |- *. rewrite Lr. reflexivity.
    + destruct ((0 <=? x_sub s) && (x_sub s <? Z.of_nat (List.length (x_subs xo)))) eqn:Rb; cbn [negb]; [|reflexivity].
      apply andb_true_iff in Rs. apply andb_true_iff in Rb.
      fold (xkw3 kw spw (x_sub s)). unfold reset_wellformed.
      destruct kw as [|p0 kw0] eqn:Ekw.
      * discriminate.
      * rewrite <- Ekw in *.
        destruct (lookup "reset" kw) as [[| | | | | | | | | | |r|]|] eqn:Lr; cbn [negb]; try reflexivity.
        -- subst kw. apply Hstep; try lia. unfold xr1. rewrite Ekw in Lr |- *. rewrite Lr. reflexivity.
        -- subst kw. apply Hstep; try lia. unfold xr1. rewrite Ekw in Lr |- *. rewrite Lr. reflexivity.
  - destruct ((0 <=? x_spw s) && (x_spw s <? Z.of_nat (List.length (x_spws xo)))) eqn:Rs; cbn [negb]; [|reflexivity].
    destruct (lookup "subarray" kw) as [[| | | | | | | | | | | |sub]|] eqn:Lsub; cbn [atom_of]; try reflexivity;
      rewrite in_range_sub.
    + destruct ((0 <=? sub) && (sub <? Z.of_nat (List.length (x_subs xo)))) eqn:Rb; cbn [negb]; [|reflexivity].
      apply andb_true_iff in Rs. apply andb_true_iff in Rb.
      fold (xkw3 kw (x_spw s) sub). unfold reset_wellformed.
      destruct kw as [|p0 kw0] eqn:Ekw.
      * discriminate.
      * rewrite <- Ekw in *.
        destruct (lookup "reset" kw) as [[| | | | | | | | | | |r|]|] eqn:Lr; cbn [negb]; try reflexivity.
        -- subst kw. apply Hstep; try lia. unfold xr1. rewrite Ekw in Lr |- *. rewrite Lr. reflexivity.
        -- subst kw. apply Hstep; try lia. unfold xr1. rewrite Ekw in Lr |- *. rewrite Lr. reflexivity.
    + destruct ((0 <=? x_sub s) && (x_sub s <? Z.of_nat (List.length (x_subs xo)))) eqn:Rb; cbn [negb]; [|reflexivity].
      apply andb_true_iff in Rs. apply andb_true_iff in Rb.
      fold (xkw3 kw (x_spw s) (x_sub s)). unfold reset_wellformed.
      destruct kw as [|p0 kw0] eqn:Ekw.
      * cbn [lookup find negb]. apply (Hstep (x_spw s) (x_sub s) "TFB"%string); try lia. reflexivity.
      * rewrite <- Ekw in *.
        destruct (lookup "reset" kw) as [[| | | | | | | | | | |r|]|] eqn:Lr; cbn [negb]; try reflexivity.
        -- subst kw. apply Hstep; try lia. unfold xr1. rewrite Ekw in Lr |- *. rewrite Lr. reflexivity.
        -- subst kw. apply Hstep; try lia. unfold xr1. rewrite Ekw in Lr |- *. rewrite Lr. reflexivity.
Qed.

(* ---------------------------------------------------------------- the comparisons read from the source *)
Lemma gen_agrees : forall o,
  (forall lo hi, gen_timerange_mask o lo hi = timerange_mask o lo hi)
  /\ (forall lo hi, gen_freqrange_mask o lo hi = freqrange_mask o lo hi)
  /\ Some (gen_auto_mask o) = corrprods_mask o VAuto /\ Some (gen_cross_mask o) = corrprods_mask o VCross
  /\ (forall l, gen_ants_mask o l = ants_mask o l)
  /\ (forall l, gen_inputs_mask o l = inputs_mask o l)
  /\ (forall cp p q, gen_pol_keep cp p q = pitem_keep cp (PTwo p q)).
Proof.
  intro o. repeat split.
  - intros lo hi. unfold gen_timerange_mask, timerange_mask. apply map_ext. intro d.
    unfold gen_range_keep, range_bound.
    change sel_timerange with [(0, ("Add", ((1, 2), "GtE"))); (1, ("Sub", ((1, 2), "LtE")))]%string.
    cbn [forallb fst snd]. change (py_cmp "GtE" ?a ?b) with (b <=? a). change (py_cmp "LtE" ?a ?b) with (a <=? b).
    cbn [Z.eqb String.eqb Ascii.eqb Bool.eqb]. rewrite andb_true_r.
    replace (1 * (2 * o_half o) / 2) with (o_half o) by (rewrite Z.mul_1_l, Z.mul_comm, Z.div_mul; lia). reflexivity.
  - intros lo hi. unfold gen_freqrange_mask, freqrange_mask. apply map_ext. intro f.
    unfold gen_range_keep, range_bound.
    change sel_freqrange with [(0, ("Add", ((1, 2), "GtE"))); (1, ("Sub", ((1, 2), "LtE")))]%string.
    cbn [forallb fst snd]. change (py_cmp "GtE" ?a ?b) with (b <=? a). change (py_cmp "LtE" ?a ?b) with (a <=? b).
    cbn [Z.eqb String.eqb Ascii.eqb Bool.eqb]. rewrite andb_true_r.
    replace (1 * (2 * o_halfw o) / 2) with (o_halfw o) by (rewrite Z.mul_1_l, Z.mul_comm, Z.div_mul; lia). reflexivity.
Qed.
