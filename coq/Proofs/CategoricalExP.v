(* C11 (round 2): non-vacuity witnesses (vm_compute on concrete series) for the theorems of Props/C11.v. *)
From Coq Require Import ZArith List Bool Arith Lia.
From KV Require Import Base.Sx Model.Categorical Model.CategoricalX Gen.Generated Proofs.CategoricalP
  Proofs.CategoricalSeqP Proofs.CategoricalTieP.
Import ListNotations.
Open Scope nat_scope.

(* a series whose first event is dump 3 (what remove() of the first value leaves behind) *)
Definition ex_d : @cd nat := mk [7; 8] [0; 1] [3; 6; 10].

Lemma ex_d_WF : WF ex_d /\ ~ start0 ex_d /\ idx ex_d <> [].
Proof.
  split; [|split; [unfold start0; simpl; lia|discriminate]].
  unfold WF, ex_d. cbn [ev idx uv]. split; [simpl; lia|]. split; [reflexivity|]. split.
  - repeat constructor.
  - repeat constructor; simpl; intuition lia.
Qed.

Lemma ex_full_facts :
  expand_full 0 ex_d = [None; None; None; Some 7; Some 7; Some 7; Some 8; Some 8; Some 8; Some 8] /\
  getitem 0 ex_d (KInt 1) = GErr /\ getitem 0 ex_d (KInt 4) = GVal 7 /\
  getitem 0 ex_d (KSlice (Some 2%Z) None (Some 3%Z)) = GErr /\
  getitem 0 ex_d (KSlice (Some 3%Z) None (Some 3%Z)) = GList [7; 8; 8] /\
  getitem 0 ex_d (KMask [false; false; false; true; false; false; true; false; false; true]) = GList [7; 8; 8] /\
  bool_per_dump catg_bpd_init ex_d (Nat.eqb 7) = [false; false; false; true; true; true; false; false; false; false] /\
  bool_per_dump catg_bpd_init ex_d (fun x => negb (Nat.eqb 7 x)) =
    [false; false; false; false; false; false; true; true; true; true].
Proof. vm_compute. repeat split. Qed.

Lemma ex_len_segments :
  cat_len ex_c = 4 /\ segments 0 ex_c = [(0, 2, 7); (2, 5, 8); (5, 6, 7); (6, 10, 9)] /\
  glue_segments (segments 0 ex_c) = expand 0 ex_c.
Proof. vm_compute. repeat split. Qed.

Lemma ex_add_total :
  add Nat.eqb ex_c 11 (Some 5) = None /\ add Nat.eqb ex_c 10 None = None /\ add Nat.eqb ex_d 1 None = None /\
  option_map (fun c => (idx c, ev c)) (add Nat.eqb ex_c 10 (Some 5)) = Some ([0; 1; 0; 2; 3], [0; 2; 5; 6; 10]) /\
  option_map (fun c => getitem 0 c (KInt 3)) (add Nat.eqb ex_c 3 (Some 5)) = Some (GVal 5).
Proof. vm_compute. repeat split. Qed.

Lemma ex_partition_any :
  map (expand 0) (partition ex_d [0; 2; 5; 12]) = [[7; 7]; [7; 7; 7]; [7; 8; 8; 8; 8; 8; 8]] /\
  padded 0 ex_d 12 = [7; 7; 7; 7; 7; 7; 8; 8; 8; 8; 8; 8] /\
  option_map (expand 0) (concatenate Nat.eqb 0 (partition ex_d [0; 5; 10]) false) = Some [7; 7; 7; 7; 7; 7; 8; 8; 8; 8] /\
  partition_x (remove Nat.eqb (remove Nat.eqb ex_d 7) 8) [0; 5; 10] = None /\
  option_map (expand 0) (run_opsx Nat.eqb 0 ex_c
     [ORemove 7; OPartConcat [0; 4; 10] false; OAdd 1 (Some 7); OAlign [0; 5; 10]; ORemoveRepeats])
    = Some [7; 7; 7; 7; 7; 9; 9; 9; 9; 9].
Proof. vm_compute. repeat split. Qed.

Lemma ex_laws :
  expand 0 (remove Nat.eqb ex_c 7) = [8; 8; 8; 8; 9; 9; 9; 9] /\
  remove Nat.eqb (remove Nat.eqb ex_c 7) 7 = remove Nat.eqb ex_c 7 /\
  option_map (fun c => (idx c, ev c)) (remove_repeats (mk [7; 8] [0; 0; 1; 1; 0] [0; 1; 2; 3; 4; 5])) = Some ([0; 1; 0], [0; 2; 4; 5]) /\
  option_map (fun c => (uv c, idx c, ev c)) (align 0 (mk [7; 8; 9] [1; 2] [0; 4; 10]) [0; 4; 10]) = Some ([8; 9], [0; 1], [0; 4; 10]) /\
  option_map (fun c => (uv c, ev c, expand 0 c)) (label_pipeline Nat.eqb 0 ex_c 7 [0; 3; 6; 10])
    = Some ([8; 9; 7], [0; 3; 6; 10], [7; 7; 7; 8; 8; 8; 9; 9; 9; 9]).
Proof. vm_compute. repeat split. Qed.

Lemma ex_mirrors :
  lookup_g ex_c 5 = Some 0 /\ lookup_g ex_c 10 = None /\
  option_map (expand 0) (add_g Nat.eqb ex_c 3 (Some 5)) = Some [7; 7; 8; 5; 5; 7; 9; 9; 9; 9] /\
  expand 0 (remove_g Nat.eqb ex_c 7) = [8; 8; 8; 8; 9; 9; 9; 9] /\
  map (expand 0) (partition_g ex_c [0; 3; 10]) = [[7; 7; 8]; [8; 8; 7; 9; 9; 9; 9]] /\
  option_map ev (rr_g (mk [7; 8] [0; 0; 1; 1; 0] [0; 1; 2; 3; 4; 5])) = Some [0; 2; 4; 5].
Proof. vm_compute. repeat split. Qed.

Lemma ex_more :
  ev (add_unmatched Nat.eqb ex_c [0; 4; 8; 10] 1) = [0; 2; 5; 6; 8; 10] /\
  option_map (fun c => length (ev c)) (align 0 ex_c [0; 4; 10]) = Some 3 /\
  uio_tok Nat.eqb (fun x : nat => x) [7; 8; 7; 9; 8] = ([7; 8; 9], [0; 1; 0; 2; 1]).
Proof. vm_compute. repeat split. Qed.
