(* C14: lemmas about the dispatch by product type (Model/CalDispatch.v). *)
From Coq Require Import ZArith QArith List Bool String.
From KV Require Import Base.Sx Base.Str Gen.Generated Model.Interp Model.CalInterp Model.CalDispatch.
Import ListNotations.
Local Open Scope string_scope.

(* the table regenerated from the source is the documented one *)
Lemma dispatch_table :
  kind_of_type "K" = Some KDelay /\ kind_of_type "B" = Some KBandpass /\
  kind_of_type "G" = Some (KGain true false) /\
  kind_of_type "GPHASE" = Some (KGain false true) /\ kind_of_type "GAMP_PHASE" = Some (KGain false true).
Proof. repeat split; reflexivity. Qed.

(* every known product type has a calculator, nothing else has *)
Lemma dispatch_domain : forall t, (kind_of_type t <> None) <-> In t cal_product_types.
Proof.
  intro t. unfold kind_of_type, cal_dispatch, cal_product_types. cbn [lookup_kind In].
  repeat match goal with
         | |- context [String.eqb ?a t] => destruct (String.eqb_spec a t); [subst; cbn; split; [intros _; tauto | intros _; discriminate]|]
         end.
  split; [intro H; exfalso; apply H; reflexivity | intros H; exfalso; tauto].
Qed.

(* G: flux calibrated, then interpolated over ALL dumps regardless of target *)
Lemma dispatch_G : forall rsqrt N sols names_at tbl targets,
  gain_like_correction rsqrt "G" N sols names_at tbl targets =
  Some (gain_corr N (calibrate_flux rsqrt sols names_at tbl) None).
Proof. reflexivity. Qed.

(* self-calibration products: no flux scaling, interpolated per target *)
Lemma dispatch_selfcal : forall rsqrt t N sols names_at tbl targets, t = "GPHASE" \/ t = "GAMP_PHASE" ->
  gain_like_correction rsqrt t N sols names_at tbl targets = Some (gain_corr N sols (Some targets)).
Proof. intros rsqrt t N sols names_at tbl targets [E|E]; subst; reflexivity. Qed.

Lemma dispatch_is_spec : forall rsqrt t N sols names_at tbl targets,
  gain_like_correction rsqrt t N sols names_at tbl targets =
  spec_gain_like_correction rsqrt t N sols names_at tbl targets.
Proof. reflexivity. Qed.

(* what the model takes from the source besides the tables *)
Lemma interp_edges :
  (bandpass_left_invalid, bandpass_right_invalid) = (true, true) /\
  (gain_left_invalid, gain_right_invalid) = (false, false) /\
  gain_valid_needs_on_target = true /\ skip_group_names = ["all"; "default"] /\ product_loop_shape_checked = true.
Proof. repeat split; reflexivity. Qed.
