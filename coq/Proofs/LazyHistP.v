(* C05: proofs about Model/LazyHist.v - reads leave the memory of the indexer and of the caller alone, histories of
   reads are answered by the pure function, every request sent to the dataset is one h5py accepts. *)
From Coq Require Import ZArith List Bool Lia ZifyBool.
From KV Require Import Base.Sx Base.PySlice Base.AxisIndex Base.NdArray Base.LazyDType Gen.Generated Model.LazyIdx
  Model.LazyNd Model.LazyHist Proofs.LazyIdxP Proofs.LazyNdP.
Import ListNotations.
Open Scope Z_scope.

(* ------------------------------------------------------------------ the generated pieces, as the theorems need them *)

Lemma post_offset_is_difference x first : lazy_post_offset x first = x - first.
Proof. reflexivity. Qed.

Lemma post_not_inplace : lazy_post_inplace = false.
Proof. reflexivity. Qed.

(* __getitem__ stores only through its own output buffer (0) and its local bookkeeping lists (1) *)
Lemma getitem_writes_local : Forall (fun c => c = 0 \/ c = 1) lazy_getitem_writes.
Proof. unfold lazy_getitem_writes. repeat (constructor; [lia|]). constructor. Qed.

Lemma result_is_fresh : result_fresh = true.
Proof. reflexivity. Qed.

(* the model of the dense strategy uses the same offsets *)
Lemma dense_offsets_plan n x r offs : dense_offsets n (MArr (x :: r)) = Some offs ->
  axis_plan n (MArr (x :: r)) =
  Ok (PSegs [mk_seg (fst (hd (0, 0) (segments (x :: r)))) (snd (last (segments (x :: r)) (0, 0))) 1 (PIdx offs) 0 (zlen (x :: r))]).
Proof.
  unfold dense_offsets. destruct (sorted_ok (x :: r)) eqn:E1; [|discriminate].
  destruct (lazy_out_of_range x (last (x :: r) 0) n) eqn:E2; [discriminate|].
  destruct (dense _ _ _) eqn:E3; [|discriminate]. cbn [andb negb]. intro H; injection H as <-.
  unfold axis_plan. rewrite E1. unfold adv_plan. rewrite E2. rewrite E3. unfold adv_segs.
  cbn [hd]. repeat f_equal.
Qed.

(* ------------------------------------------------------------------ one read *)

Lemma axis_effect_false n a : axis_effect false n a = a.
Proof. unfold axis_effect. destruct (map_stage2 _ _); [|reflexivity]. destruct (dense_offsets _ _); reflexivity. Qed.

Lemma axes_effect_false : forall shape lks ixs, axes_effect false shape lks ixs = (lks, ixs).
Proof.
  induction shape as [|n s IH]; intros [|lk lks] [|ix ixs]; try reflexivity.
  cbn [axes_effect]. destruct (axis_plan_of n lk ix); [|reflexivity].
  rewrite IH, axis_effect_false. reflexivity.
Qed.

Lemma set_lookup_same li : set_lookup li (li_lookup li) = li.
Proof. destruct li; reflexivity. Qed.

(* a read changes neither the lookup arrays nor any index array of the caller, and its answer is the pure function *)
Lemma read_preserves_state garbage li ds ixs :
  read_st lazy_post_inplace garbage li ds ixs
  = (getitem_nd garbage li ds ixs, li, pad_to (List.length (li_shape li)) ixs).
Proof.
  unfold read_st. rewrite post_not_inplace, axes_effect_false.
  destruct (all_mapped _ _); cbn [fst snd]; rewrite set_lookup_same; reflexivity.
Qed.

(* ------------------------------------------------------------------ histories *)

Lemma history_pure garbage li ds : forall evs,
  run_history lazy_post_inplace result_fresh garbage li ds evs
  = (map (getitem_nd garbage li ds) (reads_of evs), (li, ds)).
Proof.
  induction evs as [|[ixs|v] r IH]; [reflexivity| |].
  - cbn [run_history reads_of map]. rewrite read_preserves_state. cbn [fst snd]. rewrite IH. reflexivity.
  - cbn [run_history reads_of]. rewrite result_is_fresh. exact IH.
Qed.

(* the answer to a request does not depend on what was asked before it *)
Lemma history_prefix_irrelevant garbage li ds pre ixs :
  last (fst (run_history lazy_post_inplace result_fresh garbage li ds (pre ++ [ERead ixs]))) Err
  = getitem_nd garbage li ds ixs.
Proof.
  rewrite history_pure. cbn [fst].
  assert (H : forall evs, reads_of (evs ++ [ERead ixs]) = reads_of evs ++ [ixs]).
  { induction evs as [|[a|v] r IH]; cbn [app reads_of]; [reflexivity|now rewrite IH|exact IH]. }
  rewrite H, map_app. cbn [map]. apply last_last.
Qed.

(* every answer of a history is the spec's answer for its own request *)
Lemma history_spec garbage shape ds k1 ts dt li a1 evs :
  Forall (fun d => 0 <= d) shape -> (forall sh, shaped sh (garbage sh)) ->
  mk_lazy shape k1 ts dt = Ok li ->
  oindex_keep (mk_nd shape ds) k1 = Ok a1 ->
  Forall2 (fun ixs a => forall out, a = Ok out -> spec_getitem shape ds k1 ts dt ixs = Ok out)
          (reads_of evs) (fst (run_history lazy_post_inplace result_fresh garbage li ds evs))
  /\ snd (run_history lazy_post_inplace result_fresh garbage li ds evs) = (li, ds).
Proof.
  intros Hs Hg HM H1. rewrite history_pure. cbn [fst snd]. split; [|reflexivity].
  induction (reads_of evs) as [|ixs r IH]; cbn [map]; constructor; [|exact IH].
  intros out HO. eapply getitem_nd_correct; eauto.
Qed.

(* non-vacuity of the state model: the SAME indexer with the offsets computed in place answers the second identical
   request with other elements - through a view of the lookup (first stage [1,2,4,5,7,8], request [:]) and through the
   caller's own index array *)
Definition hist_li : lazyidx := mk_lazyidx [10] [Some [1; 2; 4; 5; 7; 8]] [] 0.
Definition hist_ds : tree := arange [10] 0.
Definition hist_g := const_tree garbage_value.

Lemma inplace_breaks_history :
  fst (run_history true true hist_g hist_li hist_ds [ERead [full]; ERead [full]])
  = [Ok (mk_arr 0 (mk_nd [6] (Node (map Leaf [1; 2; 4; 5; 7; 8])))); Ok (mk_arr 0 (mk_nd [6] (Node (map Leaf [0; 1; 3; 4; 6; 7]))))]
  /\ li_lookup (fst (snd (run_history true true hist_g hist_li hist_ds [ERead [full]]))) = [Some [0; 1; 3; 4; 6; 7]]
  /\ snd (read_st true hist_g (mk_lazyidx [10] [None] [] 0) hist_ds [AList [1; 2; 4; 5; 7; 8]]) = [AList [0; 1; 3; 4; 6; 7]]
  /\ fst (run_history lazy_post_inplace result_fresh hist_g hist_li hist_ds [ERead [full]; EScribble 9; ERead [full]])
     = [Ok (mk_arr 0 (mk_nd [6] (Node (map Leaf [1; 2; 4; 5; 7; 8])))); Ok (mk_arr 0 (mk_nd [6] (Node (map Leaf [1; 2; 4; 5; 7; 8]))))]
  /\ fst (run_history false false hist_g hist_li hist_ds [ERead [full]; EScribble 9; ERead [full]])
     = [Ok (mk_arr 0 (mk_nd [6] (Node (map Leaf [1; 2; 4; 5; 7; 8])))); Ok (mk_arr 0 (mk_nd [6] (Node (map Leaf [9; 9; 9; 9; 9; 9]))))].
Proof. vm_compute. repeat split. Qed.

(* ------------------------------------------------------------------ requests *)

Lemma in_product_Forall2 {A} : forall (ls : list (list A)) cs, In cs (product ls) -> Forall2 (fun c l => In c l) cs ls.
Proof.
  induction ls as [|l r IH]; intros cs H; cbn [product] in H.
  - destruct H as [<-|[]]. constructor.
  - apply in_flat_map in H. destruct H as [x [Hx H]]. apply in_map_iff in H. destruct H as [cs' [<- H]].
    constructor; auto.
Qed.

Lemma Forall2_len {A B} (R : A -> B -> Prop) l l' : Forall2 R l l' -> List.length l = List.length l'.
Proof. induction 1; cbn; congruence. Qed.

(* no request ever contains an index list (h5py allows one, strictly increasing): only integers and slices *)
Lemma cseg_req_plain c : is_fancy (cseg_req c) = false.
Proof. destruct c; reflexivity. Qed.

Lemma fancy_count_plain rq : Forall (fun r => is_fancy r = false) rq -> fancy_count rq = 0.
Proof.
  unfold fancy_count. induction 1 as [|r l H _ IH]; [reflexivity|]. cbn [filter]. rewrite H. exact IH.
Qed.

Lemma requests_plain plans rq : In rq (requests plans) -> fancy_count rq = 0 /\ List.length rq = List.length plans.
Proof.
  unfold requests. destruct (forallb _ _).
  - intros [<-|[]]. split; [|apply map_length]. apply fancy_count_plain, Forall_forall. intros r Hr.
    apply in_map_iff in Hr. destruct Hr as [p [<- _]]. apply cseg_req_plain.
  - intro H. apply in_map_iff in H. destruct H as [cs [<- H]]. split.
    + apply fancy_count_plain, Forall_forall. intros r Hr. apply in_map_iff in Hr. destruct Hr as [c [<- _]].
      apply cseg_req_plain.
    + apply in_product_Forall2 in H. rewrite map_length.
      apply Forall2_len in H. now rewrite map_length in H.
Qed.

(* one axis: every entry of selection[axis] is a request item h5py accepts *)
Definition axis_items_ok (n : Z) (p : plan) : Prop := Forall (fun c => h5_item_ok n (cseg_req c) = true) (plan_csegs p).

Lemma items_ok_Forall2 : forall shape rq, Forall2 (fun n r => h5_item_ok n r = true) shape rq -> items_ok shape rq = true.
Proof. induction 1 as [|n r s rq H _ IH]; [reflexivity|]. cbn [items_ok]. now rewrite H, IH. Qed.

Lemma requests_accepted shape plans : Forall2 axis_items_ok shape plans ->
  Forall (fun rq => h5_accepts shape rq = true) (requests plans).
Proof.
  intro HA. apply Forall_forall. intros rq Hin. unfold h5_accepts.
  destruct (requests_plain _ _ Hin) as [-> _]. rewrite andb_true_r.
  apply items_ok_Forall2. unfold requests in Hin. destruct (forallb _ _) eqn:EF.
  - destruct Hin as [<-|[]]. induction HA as [|n p s ps H _ IH]; cbn [map]; constructor.
    + cbn [forallb] in EF. apply andb_prop in EF. destruct EF as [EF _].
      destruct p as [z|l]; [|discriminate]. unfold axis_items_ok in H. cbn [plan_csegs] in H. inversion H; subst.
      assumption.
    + apply IH. cbn [forallb] in EF. apply andb_prop in EF. now destruct EF.
  - apply in_map_iff in Hin. destruct Hin as [cs [<- Hin]]. apply in_product_Forall2 in Hin.
    clear EF. revert cs Hin. induction HA as [|n p s ps H _ IH]; intros cs Hin; cbn [map] in Hin; inversion Hin; subst; cbn [map];
      constructor.
    + unfold axis_items_ok in H. rewrite Forall_forall in H. now apply H.
    + now apply IH.
Qed.

(* advanced selections (masks, integer sequences): every slice sent to the dataset has step 1, is NOT empty and lies
   inside the axis - also for an empty selection, where the code reads slice(0, 1, 1) and drops it afterwards *)
Lemma runs_strict : forall l first prev, first <= prev -> increasing (prev :: l) = true ->
  Forall (fun p => fst p < snd p) (runs first prev l).
Proof.
  induction l as [|x r IH]; intros first prev H Hinc.
  - cbn. constructor; [cbn; lia|constructor].
  - rewrite increasing_cons in Hinc. apply andb_prop in Hinc. destruct Hinc as [H3 H4].
    cbn [runs]. destruct (lazy_jump (x - prev)).
    + constructor; [cbn; lia|]. apply IH; auto; lia.
    + apply IH; auto; lia.
Qed.

Definition seg_inside (n : Z) (s : seg) : Prop := sg_step s = 1 /\ 0 <= sg_start s < sg_stop s /\ sg_stop s <= Z.max n 1.

Lemma sparse_inside n : forall rs off, Forall (fun p => 0 <= fst p /\ fst p < snd p /\ snd p <= n) rs ->
  Forall (seg_inside n) (sparse_segs off rs).
Proof.
  induction rs as [|[s e] r IH]; intros off H; cbn [sparse_segs]; [constructor|].
  inversion H as [|? ? [H1 [H2 H3]] H']; subst. cbn in H1, H2, H3. constructor; [|now apply IH].
  unfold seg_inside; cbn. lia.
Qed.

Lemma adv_plan_inside n l p : increasing l = true -> adv_plan n l = Ok p ->
  exists segs, p = PSegs segs /\ Forall (seg_inside n) segs.
Proof.
  intros Hinc. unfold adv_plan. destruct l as [|x r].
  - intro H; injection H as <-. eexists; split; [reflexivity|]. constructor; [|constructor]. unfold seg_inside; cbn. lia.
  - destruct (lazy_out_of_range x (last (x :: r) 0) n) eqn:E; [discriminate|]. intro H; injection H as <-.
    unfold lazy_out_of_range in E.
    assert (Hub : Forall (fun y => y < n) (x :: r)).
    { pose proof (increasing_last_ub _ _ Hinc) as HU. eapply Forall_impl; [|exact HU]. intros y Hy. cbn beta in Hy. lia. }
    assert (HB : Forall (fun p => 0 <= fst p /\ fst p <= snd p /\ snd p <= n) (runs x x r)).
    { apply runs_bounds; auto; lia. }
    assert (HS : Forall (fun p => fst p < snd p) (runs x x r)) by (apply runs_strict; auto; lia).
    eexists; split; [reflexivity|]. unfold adv_segs, segments.
    destruct (dense _ _ _).
    + constructor; [|constructor]. unfold seg_inside; cbn [sg_step sg_start sg_stop].
      rewrite runs_hd, runs_last.
      assert (x <= last (x :: r) 0).
      { pose proof (increasing_last_ub _ _ Hinc) as HU. inversion HU; subst. assumption. }
      lia.
    + apply sparse_inside. rewrite Forall_forall in *. intros q Hq. specialize (HB q Hq). specialize (HS q Hq). lia.
Qed.

Lemma axis_plan_adv_inside n m p : 0 <= n -> (match m with MMask _ | MArr _ => True | _ => False end) ->
  axis_plan n m = Ok p -> exists segs, p = PSegs segs /\ Forall (seg_inside n) segs.
Proof.
  intros Hn Hm. destruct m as [z|a b c|mk|l]; try contradiction; cbn [axis_plan].
  - destruct (zlen mk =? n); [|discriminate]. apply adv_plan_inside. apply nonzero_from_increasing.
  - destruct (sorted_ok l) eqn:E; [|discriminate]. apply adv_plan_inside. now rewrite <- sorted_ok_increasing.
Qed.

(* a slice is handed on with the step the user wrote (1 when omitted) *)
Lemma slice_plan_step n a b c p : axis_plan n (MSlice a b c) = Ok p ->
  exists s e, p = PSegs [mk_seg s e (match c with Some st => st | None => 1 end) PAll 0
                                (range_len s e (match c with Some st => st | None => 1 end))]
              /\ slice_indices n a b c = Some (s, e, match c with Some st => st | None => 1 end).
Proof.
  cbn [axis_plan]. destruct (slice_indices n a b c) as [[[s e] st]|] eqn:E; [|discriminate].
  intro H; injection H as <-. unfold slice_indices in E.
  destruct ((match c with Some s0 => s0 | None => 1 end) =? 0); [discriminate|].
  injection E as <- <- <-. eexists _, _. split; reflexivity.
Qed.

Lemma axis_pos_step n lk ix m p : 0 <= n -> ix_pos_step ix -> map_stage2 lk ix = Ok m -> axis_plan n m = Ok p -> plan_pos_step p.
Proof.
  intros Hn Hix HM HP.
  destruct m as [z|a b c|mk|l].
  - cbn in HP. injection HP as <-. exact Logic.I.
  - assert (ix = ASlice a b c).
    { destruct lk as [l0|]; destruct ix; cbn in HM; try discriminate; try (injection HM; intros; subst; reflexivity).
      - destruct (np_get l0 z); discriminate.
      - destruct (slice_positions _ _ _ _); discriminate.
      - destruct (zlen m =? zlen l0); discriminate.
      - destruct (np_take l0 l); discriminate. }
    subst ix. destruct (slice_plan_step _ _ _ _ _ HP) as [s [e [-> _]]]. cbn. constructor; [|constructor].
    unfold seg_pos_step; cbn. destruct c; cbn in Hix; lia.
  - destruct (axis_plan_adv_inside n (MMask mk) p Hn Logic.I HP) as [segs [-> HS]]. cbn.
    eapply Forall_impl; [|exact HS]. unfold seg_inside, seg_pos_step. intros; lia.
  - destruct (axis_plan_adv_inside n (MArr l) p Hn Logic.I HP) as [segs [-> HS]]. cbn.
    eapply Forall_impl; [|exact HS]. unfold seg_inside, seg_pos_step. intros; lia.
Qed.

Lemma axis_items n p s : plan_pos_step p -> axis_gather n p = Ok s -> axis_items_ok n p.
Proof.
  intros HP HG. unfold axis_items_ok. destruct p as [z|l]; cbn [plan_csegs].
  - constructor; [|constructor]. cbn in HG. unfold wrap_res, wrap in HG. cbn [cseg_req h5_item_ok].
    destruct ((0 <=? z) && (z <? n)) eqn:E1; [lia|]. destruct ((- n <=? z) && (z <? 0)) eqn:E2; [lia|discriminate].
  - apply Forall_forall. intros c Hc. apply in_map_iff in Hc. destruct Hc as [sg [<- Hs]].
    cbn in HP. rewrite Forall_forall in HP. specialize (HP sg Hs). unfold seg_pos_step in HP. cbn. lia.
Qed.

Lemma pad_to_Forall (P : aidx -> Prop) : P full -> forall k ixs, Forall P ixs -> Forall P (pad_to k ixs).
Proof.
  intros Hf. induction k as [|k IH]; intros ixs H; cbn [pad_to]; [constructor|].
  destruct ixs as [|i r].
  - constructor; [exact Hf|]. apply IH. constructor.
  - inversion H; subst. constructor; [assumption|]. now apply IH.
Qed.

Lemma axes_items_ok : forall shape lks pd plans,
  Forall (fun d => 0 <= d) shape -> List.length lks = List.length shape -> List.length pd = List.length shape ->
  Forall ix_pos_step pd ->
  (forall n lk ix, In (n, lk, ix) (combine (combine shape lks) pd) -> exists s, axis_sel n lk ix = Ok s) ->
  Forall2 (fun (x : Z * lookup * aidx) (y : plan) =>
             (m <- map_stage2 (snd (fst x)) (snd x) ;; axis_plan (fst (fst x)) m) = Ok y)
          (combine (combine shape lks) pd) plans ->
  Forall2 axis_items_ok shape plans.
Proof.
  induction shape as [|n s IH]; intros lks pd plans Hs HLk HPl HPad HAx EP.
  - cbn in EP. inversion EP. constructor.
  - destruct lks as [|lk lks]; [discriminate|]. destruct pd as [|ix pd]; [discriminate|].
    cbn [combine] in EP. inversion EP as [|? p ? ps Hp EP']; subst. cbn [fst snd] in Hp.
    inversion Hs; subst. inversion HPad; subst.
    constructor.
    + destruct (HAx n lk ix (or_introl eq_refl)) as [sel Hsel]. unfold axis_sel in Hsel.
      destruct (map_stage2 lk ix) as [m|] eqn:Em; [|discriminate]. cbn [bind] in Hsel, Hp. rewrite Hp in Hsel.
      cbn [bind] in Hsel.
      eapply axis_items; [|exact Hsel]. eapply axis_pos_step; eauto.
    + apply (IH lks pd ps); auto.
      intros n' lk' ix' Hin. apply HAx. right. exact Hin.
Qed.

(* every request of an indexer that answers is accepted by h5py, when no second-stage slice has a negative step *)
Lemma lazy_requests_accepted garbage shape k1 ts dt li ds ixs out rqs :
  Forall (fun d => 0 <= d) shape -> (forall sh, shaped sh (garbage sh)) ->
  mk_lazy shape k1 ts dt = Ok li ->
  Forall ix_pos_step ixs ->
  getitem_nd garbage li ds ixs = Ok out ->
  lazy_requests li ixs = Ok rqs ->
  Forall (fun rq => h5_accepts (li_shape li) rq = true /\ fancy_count rq = 0) rqs.
Proof.
  intros Hs Hg HM Hix HG HR.
  pose proof (mk_lazy_lookup_length _ _ _ _ _ HM) as HLk.
  assert (Hsh : li_shape li = shape).
  { unfold mk_lazy in HM. destruct (mapM _ _); [|discriminate]. cbn [bind] in HM. destruct (lazy_shape _); [|discriminate].
    injection HM as <-. reflexivity. }
  rewrite (getitem_nd_equiv _ _ _ _ _ _ _ _ Hs Hg HM) in HG.
  unfold lazy_requests in HR. destruct (lazy_plans li ixs) as [plans|] eqn:EP; [|discriminate]. injection HR as <-.
  assert (HA : Forall2 axis_items_ok (li_shape li) plans).
  { unfold lazy_plans in EP. apply mapM_ok_Forall2 in EP.
    pose proof (getitem_ok_axes _ _ _ _ HG) as HAx.
    apply (axes_items_ok (li_shape li) (li_lookup li) (pad_to (List.length (li_shape li)) ixs) plans); auto.
    - now rewrite Hsh.
    - apply pad_to_length.
    - apply pad_to_Forall; [exact Logic.I|assumption]. }
  pose proof (requests_accepted _ _ HA) as HF. rewrite Forall_forall in *. intros rq Hin. split; [now apply HF|].
  now destruct (requests_plain _ _ Hin).
Qed.

(* h5py's restrictions add no rejection: on such requests the indexer over an h5py dataset is the indexer *)
Lemma getitem_h5_same garbage shape k1 ts dt li ds ixs :
  Forall (fun d => 0 <= d) shape -> (forall sh, shaped sh (garbage sh)) ->
  mk_lazy shape k1 ts dt = Ok li ->
  Forall ix_pos_step ixs ->
  getitem_h5 garbage li ds ixs = getitem_nd garbage li ds ixs.
Proof.
  intros Hs Hg HM Hix. unfold getitem_h5.
  destruct (lazy_plans li ixs) as [plans|] eqn:EP; cbn [bind].
  - destruct (getitem_nd garbage li ds ixs) as [out|] eqn:EG; [|now destruct (forallb _ _)].
    assert (HR : lazy_requests li ixs = Ok (requests plans)) by (unfold lazy_requests; now rewrite EP).
    pose proof (lazy_requests_accepted _ _ _ _ _ _ _ _ _ _ Hs Hg HM Hix EG HR) as HF.
    replace (forallb (h5_accepts (li_shape li)) (requests plans)) with true; [reflexivity|].
    symmetry. apply forallb_forall. rewrite Forall_forall in HF. intros rq Hin. now destruct (HF rq Hin).
  - unfold getitem_nd. now rewrite EP.
Qed.

(* a negative step on an axis without first-stage selection is a request h5py refuses (the h5py side of finding F30):
   rejected, never answered *)
Lemma h5_negative_step_rejected : 
  getitem_h5 hist_g (mk_lazyidx [5] [None] [] 0) (arange [5] 0) [ASlice (Some 3) (Some 0) (Some (-1))] = Err
  /\ getitem_nd hist_g (mk_lazyidx [5] [None] [] 0) (arange [5] 0) [ASlice (Some 3) (Some 0) (Some (-1))]
     = Ok (mk_arr 0 (mk_nd [3] (Node (map Leaf [3; 2; 1]))))
  /\ lazy_requests (mk_lazyidx [5] [None] [] 0) [ASlice (Some 3) (Some 0) (Some (-1))] = Ok [[RSlice 3 0 (-1)]].
Proof. vm_compute. repeat split. Qed.

(* non-vacuity: 2-d, dense x sparse: 1 x 2 requests of slices only; a request with two index lists, or with an
   unsorted one, is what h5py refuses *)
Lemma requests_example :
  lazy_requests (mk_lazyidx [10; 20] [None; None] [] 0) [AList [1; 2; 4; 5]; AList [0; 1; 7]]
  = Ok [[RSlice 1 6 1; RSlice 0 2 1]; [RSlice 1 6 1; RSlice 7 8 1]]
  /\ lazy_requests (mk_lazyidx [10; 20] [None; None] [] 0) [AInt (-1); AList []] = Ok [[RInt (-1); RSlice 0 1 1]]
  /\ lazy_requests (mk_lazyidx [10; 20] [None; None] [] 0) [AInt 3; AInt (-2)] = Ok [[RInt 3; RInt (-2)]]
  /\ h5_accepts [10; 20] [RSlice 1 6 1; RSlice 7 8 1] = true
  /\ h5_accepts [10; 20] [RList [1; 2; 4; 5]; RList [0; 1; 7]] = false
  /\ h5_accepts [10; 20] [RList [1; 2; 4; 5]; RSlice 0 2 1] = true
  /\ h5_accepts [10; 20] [RList [2; 1]; RSlice 0 2 1] = false
  /\ h5_accepts [10; 20] [RInt 10; RSlice 0 2 1] = false.
Proof. vm_compute. repeat split. Qed.
