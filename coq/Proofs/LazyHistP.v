(* C05: proofs about Model/LazyHist.v - reads leave the memory of the indexer and of the caller alone, histories of
   reads are answered by the pure function, every request sent to the dataset is one h5py accepts. *)
From Coq Require Import ZArith List Bool Lia ZifyBool.
From KV Require Import Base.Sx Base.PySlice Base.AxisIndex Base.NdArray Base.LazyDType Gen.Generated Model.LazyIdx
  Model.LazyNd Model.LazyHist Proofs.LazyIdxP Proofs.LazyNdP.
Import ListNotations.
Open Scope Z_scope.

(* ------------------------------------------------------------------ the generated pieces, as the theorems need them *)

Lemma post_offset_is_difference x first : lazy_post_offset x first = x - first.
Proof. reflexivity. Qed.

Lemma post_not_inplace : lazy_post_inplace = false.
Proof. reflexivity. Qed.

(* __getitem__ stores only through its own output buffer (0) and its local bookkeeping lists (1) *)
Lemma getitem_writes_local : Forall (fun c => c = 0 \/ c = 1) lazy_getitem_writes.
Proof. unfold lazy_getitem_writes. repeat (constructor; [lia|]). constructor. Qed.

Lemma result_is_fresh : result_fresh = true.
Proof. reflexivity. Qed.

(* the model of the dense strategy uses the same offsets *)
Lemma dense_offsets_plan n x r offs : dense_offsets n (MArr (x :: r)) = Some offs ->
  axis_plan n (MArr (x :: r)) =
  Ok (PSegs [mk_seg (fst (hd (0, 0) (segments (x :: r)))) (snd (last (segments (x :: r)) (0, 0))) 1 (PIdx offs) 0 (zlen (x :: r))]).
Proof.
  unfold dense_offsets. destruct (sorted_ok (x :: r)) eqn:E1; [|discriminate].
  destruct (lazy_out_of_range x (last (x :: r) 0) n) eqn:E2; [discriminate|].
  destruct (dense _ _ _) eqn:E3; [|discriminate]. cbn [andb negb]. intro H; injection H as <-.
  unfold axis_plan. rewrite E1. unfold adv_plan. rewrite E2. rewrite E3. unfold adv_segs.
  cbn [hd]. repeat f_equal.
Qed.

(* ------------------------------------------------------------------ one read *)

Lemma axis_effect_false n a : axis_effect false n a = a.
Proof. unfold axis_effect. destruct (map_stage2 _ _); [|reflexivity]. destruct (dense_offsets _ _); reflexivity. Qed.

Lemma axes_effect_false : forall shape lks ixs, axes_effect false shape lks ixs = (lks, ixs).
Proof.
  induction shape as [|n s IH]; intros [|lk lks] [|ix ixs]; try reflexivity.
  cbn [axes_effect]. destruct (axis_plan_of n lk ix); [|reflexivity].
  rewrite IH, axis_effect_false. reflexivity.
Qed.

Lemma set_lookup_same li : set_lookup li (li_lookup li) = li.
Proof. destruct li; reflexivity. Qed.

(* a read changes neither the lookup arrays nor any index array of the caller, and its answer is the pure function *)
Lemma read_preserves_state garbage li ds ixs :
  read_st lazy_post_inplace garbage li ds ixs
  = (getitem_nd garbage li ds ixs, li, pad_to (List.length (li_shape li)) ixs).
Proof.
  unfold read_st. rewrite post_not_inplace, axes_effect_false.
  destruct (all_mapped _ _); cbn [fst snd]; rewrite set_lookup_same; reflexivity.
Qed.

(* ------------------------------------------------------------------ histories *)

Lemma history_pure garbage li ds : forall evs,
  run_history lazy_post_inplace result_fresh garbage li ds evs
  = (map (getitem_nd garbage li ds) (reads_of evs), (li, ds)).
Proof.
  induction evs as [|[ixs|v] r IH]; [reflexivity| |].
  - cbn [run_history reads_of map]. rewrite read_preserves_state. cbn [fst snd]. rewrite IH. reflexivity.
  - cbn [run_history reads_of]. rewrite result_is_fresh. exact IH.
Qed.

(* the answer to a request does not depend on what was asked before it *)
Lemma history_prefix_irrelevant garbage li ds pre ixs :
  last (fst (run_history lazy_post_inplace result_fresh garbage li ds (pre ++ [ERead ixs]))) Err
  = getitem_nd garbage li ds ixs.
Proof.
  rewrite history_pure. cbn [fst].
  assert (H : forall evs, reads_of (evs ++ [ERead ixs]) = reads_of evs ++ [ixs]).
  { induction evs as [|[a|v] r IH]; cbn [app reads_of]; [reflexivity|now rewrite IH|exact IH]. }
  rewrite H, map_app. cbn [map]. apply last_last.
Qed.

(* every answer of a history is the spec's answer for its own request *)
Lemma history_spec garbage shape ds k1 ts dt li a1 evs :
  Forall (fun d => 0 <= d) shape -> (forall sh, shaped sh (garbage sh)) ->
  mk_lazy shape k1 ts dt = Ok li ->
  oindex_keep (mk_nd shape ds) k1 = Ok a1 ->
  Forall2 (fun ixs a => forall out, a = Ok out -> spec_getitem shape ds k1 ts dt ixs = Ok out)
          (reads_of evs) (fst (run_history lazy_post_inplace result_fresh garbage li ds evs))
  /\ snd (run_history lazy_post_inplace result_fresh garbage li ds evs) = (li, ds).
Proof.
  intros Hs Hg HM H1. rewrite history_pure. cbn [fst snd]. split; [|reflexivity].
  induction (reads_of evs) as [|ixs r IH]; cbn [map]; constructor; [|exact IH].
  intros out HO. eapply getitem_nd_correct; eauto.
Qed.

(* non-vacuity of the state model: the SAME indexer with the offsets computed in place answers the second identical
   request with other elements - through a view of the lookup (first stage [1,2,4,5,7,8], request [:]) and through the
   caller's own index array *)
Definition hist_li : lazyidx := mk_lazyidx [10] [Some [1; 2; 4; 5; 7; 8]] [] 0.
Definition hist_ds : tree := arange [10] 0.
Definition hist_g := const_tree garbage_value.

Lemma inplace_breaks_history :
  fst (run_history true true hist_g hist_li hist_ds [ERead [full]; ERead [full]])
  = [Ok (mk_arr 0 (mk_nd [6] (Node (map Leaf [1; 2; 4; 5; 7; 8])))); Ok (mk_arr 0 (mk_nd [6] (Node (map Leaf [0; 1; 3; 4; 6; 7]))))]
  /\ li_lookup (fst (snd (run_history true true hist_g hist_li hist_ds [ERead [full]]))) = [Some [0; 1; 3; 4; 6; 7]]
  /\ snd (read_st true hist_g (mk_lazyidx [10] [None] [] 0) hist_ds [AList [1; 2; 4; 5; 7; 8]]) = [AList [0; 1; 3; 4; 6; 7]]
  /\ fst (run_history lazy_post_inplace result_fresh hist_g hist_li hist_ds [ERead [full]; EScribble 9; ERead [full]])
     = [Ok (mk_arr 0 (mk_nd [6] (Node (map Leaf [1; 2; 4; 5; 7; 8])))); Ok (mk_arr 0 (mk_nd [6] (Node (map Leaf [1; 2; 4; 5; 7; 8]))))]
  /\ fst (run_history false false hist_g hist_li hist_ds [ERead [full]; EScribble 9; ERead [full]])
     = [Ok (mk_arr 0 (mk_nd [6] (Node (map Leaf [1; 2; 4; 5; 7; 8])))); Ok (mk_arr 0 (mk_nd [6] (Node (map Leaf [9; 9; 9; 9; 9; 9]))))].
Proof. vm_compute. repeat split. Qed.
