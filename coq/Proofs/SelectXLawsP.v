(* C02, extended model: laws over histories derived through the refinement - whole-history refinement, keyword
   order, idempotence (on the level of the documented rule, then transported to the model of the code). *)
From Coq Require Import ZArith List Bool String Ascii Lia Permutation PeanoNat.
From KV Require Import Base.Sx Base.Str Base.SelSlice Gen.Generated Model.Select Model.SelectX
  Proofs.SelectBaseP Proofs.SelectP Proofs.SelectLawsP Proofs.SelectXP Proofs.SelectXRefP.
Import ListNotations.
Open Scope Z_scope.

(* ---------------------------------------------------------------- algebra of mand *)
Lemma mand_comm : forall a b, mand a b = mand b a.
Proof. induction a as [|x a IH]; intros [|y b]; simpl; auto. rewrite andb_comm, IH. reflexivity. Qed.

Lemma mand_assoc : forall a b c, mand (mand a b) c = mand a (mand b c).
Proof.
  induction a as [|x a IH]; intros [|y b] [|z c]; simpl; auto. rewrite andb_assoc, IH. reflexivity.
Qed.

Lemma mand_rcomm : forall b x y, mand (mand b x) y = mand (mand b y) x.
Proof. intros. rewrite !mand_assoc, (mand_comm x y). reflexivity. Qed.

Lemma mand_idem_r : forall b x, mand (mand b x) x = mand b x.
Proof.
  induction b as [|u b IH]; intros [|v x]; simpl; auto. rewrite IH. f_equal. destruct u, v; reflexivity.
Qed.

Lemma fold_mand_perm : forall ms ms', Permutation ms ms' -> forall b, fold_left mand ms b = fold_left mand ms' b.
Proof.
  induction 1; intro b; simpl; auto.
  - rewrite mand_rcomm. reflexivity.
  - rewrite IHPermutation1. apply IHPermutation2.
Qed.

Lemma fold_mand_push : forall ms b x, mand (fold_left mand ms b) x = fold_left mand ms (mand b x).
Proof.
  induction ms as [|m ms IH]; intros b x; simpl; [reflexivity|]. rewrite IH, mand_rcomm. reflexivity.
Qed.

Lemma fold_mand_twice : forall ms b, fold_left mand ms (fold_left mand ms b) = fold_left mand ms b.
Proof.
  induction ms as [|m ms IH]; intro b; simpl; [reflexivity|].
  rewrite fold_mand_push, mand_idem_r. apply IH.
Qed.

(* ---------------------------------------------------------------- the documented rule does not see keyword order *)
Lemma elab_kw_perm : forall vc a b, Permutation a b -> Permutation (elab_kw vc a) (elab_kw vc b).
Proof. intros. unfold elab_kw. apply Permutation_map. assumption. Qed.

Lemma spec_reset_perm : forall kw kw' d, Permutation kw kw' -> NoDup (keys kw) -> spec_reset kw d = spec_reset kw' d.
Proof.
  intros kw kw' d P N. unfold spec_reset.
  rewrite <- (perm_lookup _ _ P N "reset"). unfold hits. rewrite <- (existsb_perm _ _ _ _ P).
  destruct kw as [|p kw]; [apply Permutation_nil in P; subst; reflexivity|].
  destruct kw' as [|p' kw']; [apply Permutation_sym, Permutation_nil in P; discriminate|]. reflexivity.
Qed.

Lemma xpre_perm : forall xo a b kw kw', Permutation kw kw' -> NoDup (keys kw) -> xpre xo a b kw = xpre xo a b kw'.
Proof.
  intros xo a b kw kw' P N. unfold xpre, reset_wellformed.
  rewrite <- !(perm_lookup _ _ P N). rewrite <- (existsb_perm _ _ _ _ P). reflexivity.
Qed.

Lemma xspec_masks_perm : forall xo m kw kw' spw sub, Permutation kw kw' -> NoDup (keys kw) ->
  xspec_masks xo m kw spw sub = xspec_masks xo m kw' spw sub.
Proof.
  intros xo m kw kw' spw sub P N. unfold xspec_masks. cbv zeta. f_equal. f_equal;
    (unfold xspec_reset; rewrite <- (spec_reset_perm kw kw' _ P N); apply fold_mand_perm;
     unfold spec_crit_masks; apply Permutation_flat_map; exact P).
Qed.

Lemma xspec_perm : forall xo m xkw xkw', Permutation xkw xkw' -> NoDup (map fst xkw) ->
  xspec_select xo m xkw = xspec_select xo m xkw'.
Proof.
  intros xo m xkw xkw' P N. rewrite !xspec_closed. cbv zeta.
  pose proof (elab_kw_perm (x_vocab xo) _ _ P) as Pk.
  assert (Nk : NoDup (keys (elab_kw (x_vocab xo) xkw))) by (rewrite keys_elab_kw; exact N).
  rewrite <- (xpre_perm xo _ _ _ _ Pk Nk).
  destruct (xpre xo (xm_spw m) (xm_sub m) (elab_kw (x_vocab xo) xkw)) as [oc|[spw sub]]; [reflexivity|].
  unfold all_ok. rewrite <- (forallb_perm _ _ _ _ Pk). rewrite <- (xspec_masks_perm xo m _ _ spw sub Pk Nk).
  reflexivity.
Qed.

(* ---------------------------------------------------------------- repeating a call changes nothing *)
Lemma xpre_stable : forall xo a b kw spw sub, xpre xo a b kw = inr (spw, sub) -> xpre xo spw sub kw = inr (spw, sub).
Proof.
  intros xo a b kw spw sub H. unfold xpre in *.
  destruct (_ && existsb _ kw); [discriminate|].
  destruct (lookup "spw" kw) as [[| | | | | | | | | | | |z]|]; cbn [atom_of] in *; try discriminate.
  - destruct (negb ((0 <=? z) && _)) eqn:R1; [discriminate|].
    destruct (lookup "subarray" kw) as [[| | | | | | | | | | | |z']|]; cbn [atom_of] in *; try discriminate.
    + destruct (negb ((0 <=? z') && _)) eqn:R2; [discriminate|].
      destruct (negb (reset_wellformed kw)); [discriminate|]. exact H.
    + destruct (negb ((0 <=? b) && _)) eqn:R2; [discriminate|].
      destruct (negb (reset_wellformed kw)); [discriminate|]. inversion H; subst. rewrite R2. reflexivity.
  - destruct (negb ((0 <=? a) && _)) eqn:R1; [discriminate|].
    destruct (lookup "subarray" kw) as [[| | | | | | | | | | | |z']|]; cbn [atom_of] in *; try discriminate.
    + destruct (negb ((0 <=? z') && _)) eqn:R2; [discriminate|].
      destruct (negb (reset_wellformed kw)); [discriminate|]. inversion H; subst. rewrite R1. reflexivity.
    + destruct (negb ((0 <=? b) && _)) eqn:R2; [discriminate|].
      destruct (negb (reset_wellformed kw)); [discriminate|]. inversion H; subst. rewrite R1, R2. reflexivity.
Qed.

Lemma xspec_idempotent : forall xo m xkw m1, xspec_select xo m xkw = (OOk, m1) -> xspec_select xo m1 xkw = (OOk, m1).
Proof.
  intros xo m xkw m1 H. rewrite xspec_closed in *. cbv zeta in *. set (kw := elab_kw (x_vocab xo) xkw) in *.
  destruct (xpre xo (xm_spw m) (xm_sub m) kw) as [oc|[spw sub]] eqn:P.
  - exfalso. inversion H; subst. unfold xpre in P.
    destruct (_ && existsb _ _); [discriminate|].
    destruct (atom_of _ _); [|discriminate]. destruct (negb _); [discriminate|].
    destruct (atom_of _ _); [|discriminate]. destruct (negb _); [discriminate|].
    destruct (negb _); discriminate.
  - destruct (all_ok (view_at xo spw sub) kw) eqn:A; [|discriminate]. inversion H; subst m1. clear H.
    change (xm_spw (xspec_masks xo m kw spw sub)) with spw. change (xm_sub (xspec_masks xo m kw spw sub)) with sub.
    rewrite (xpre_stable _ _ _ _ _ _ P), A. f_equal.
    unfold xspec_masks at 1. cbv zeta. rewrite !Z.eqb_refl. cbn [negb].
    unfold xspec_masks. cbv zeta. cbn [xm_masks mk m_t m_f m_b xm_spw xm_sub]. f_equal. f_equal;
      rewrite xspec_reset_same; unfold xspec_reset;
      (destruct (spec_reset kw _); cbn [orb]; [reflexivity | apply fold_mand_twice]).
Qed.

(* ---------------------------------------------------------------- histories *)
(* outcome and masks / window / subarray after every call of a history: the model of the code ... *)
Fixpoint xrun (xo : xobs) (s : xst) (calls : list xkwargs) : list (outcome * xmasks) :=
  match calls with
  | [] => []
  | c :: rest => let r := xselect xo s c in (fst r, xm_of (snd r)) :: xrun xo (snd r) rest
  end.
(* ... and the documented rule *)
Fixpoint xspec_run (xo : xobs) (m : xmasks) (calls : list xkwargs) : list (outcome * xmasks) :=
  match calls with
  | [] => []
  | c :: rest => let r := xspec_select xo m c in r :: xspec_run xo (snd r) rest
  end.

Definition no_partway_failure (l : list (outcome * xmasks)) : Prop := Forall (fun r => fst r <> OFail) l.

Lemma xselect_XInv_any : forall xo s xkw, XInv xo s -> NoDup (map fst xkw) -> fst (xselect xo s xkw) <> OFail ->
  XInv xo (snd (xselect xo s xkw)).
Proof.
  intros xo s xkw I N H. destruct (xselect xo s xkw) as [oc s'] eqn:E. cbn [fst snd] in *.
  destruct oc.
  - eapply xselect_XInv; eauto. apply (xi_weak _ _ I).
  - rewrite (rejected_untouched _ _ _ _ _ E (or_introl eq_refl)). exact I.
  - rewrite (rejected_untouched _ _ _ _ _ E (or_intror eq_refl)). exact I.
  - congruence.
Qed.

(* whole-history refinement: as long as no call raises part-way, the model of the code and the documented rule
   agree on the outcome of every call and on the selection after it *)
Lemma xhistory_refines : forall xo calls s, XInv xo s -> Forall (fun c => NoDup (map fst c)) calls ->
  no_partway_failure (xspec_run xo (xm_of s) calls) -> xrun xo s calls = xspec_run xo (xm_of s) calls.
Proof.
  induction calls as [|c rest IH]; intros s I N F; [reflexivity|].
  inversion N as [|? ? Nc Nr]; subst. cbn [xrun xspec_run] in *. inversion F as [|? ? Fc Fr]; subst.
  destruct (xrefines xo s c I Nc) as [Ho Hm].
  assert (Hne : fst (xselect xo s c) <> OFail) by (rewrite Ho; exact Fc).
  specialize (Hm Hne).
  assert (E : (fst (xselect xo s c), xm_of (snd (xselect xo s c))) = xspec_select xo (xm_of s) c).
  { rewrite Ho, Hm. destruct (xspec_select xo (xm_of s) c); reflexivity. }
  rewrite E. f_equal. rewrite <- Hm in Fr |- *. apply IH; auto.
  apply xselect_XInv_any; assumption.
Qed.

(* keyword order is irrelevant, now and after any continuation *)
Lemma xkw_order : forall xo s xkw xkw' rest, XInv xo s -> Permutation xkw xkw' -> NoDup (map fst xkw) ->
  Forall (fun c => NoDup (map fst c)) rest ->
  no_partway_failure (xspec_run xo (xm_of s) (xkw :: rest)) ->
  xrun xo s (xkw :: rest) = xrun xo s (xkw' :: rest).
Proof.
  intros xo s xkw xkw' rest I P N Nr F.
  assert (N' : NoDup (map fst xkw')) by (eapply Permutation_NoDup; [apply Permutation_map; exact P | exact N]).
  assert (Es : xspec_run xo (xm_of s) (xkw :: rest) = xspec_run xo (xm_of s) (xkw' :: rest)).
  { cbn [xspec_run]. rewrite (xspec_perm xo (xm_of s) xkw xkw' P N). reflexivity. }
  rewrite (xhistory_refines xo (xkw :: rest) s I (Forall_cons _ N Nr) F).
  rewrite (xhistory_refines xo (xkw' :: rest) s I (Forall_cons _ N' Nr)); [exact Es | rewrite <- Es; exact F].
Qed.

Lemma pub_of_masks : forall o sa c c', masks_of c = masks_of c' -> pub_of o sa c = pub_of o sa c'.
Proof.
  intros o sa c c' H. unfold masks_of in H. inversion H as [[Ht Hf Hb]]. unfold pub_of. rewrite Ht, Hf, Hb. reflexivity.
Qed.

(* repeating an accepted call is accepted again and changes neither the selection nor the public attributes *)
Lemma xidempotent : forall xo s xkw s1, XInv xo s -> NoDup (map fst xkw) -> xselect xo s xkw = (OOk, s1) ->
  exists s2, xselect xo s1 xkw = (OOk, s2) /\ xm_of s2 = xm_of s1 /\ x_pub s2 = x_pub s1.
Proof.
  intros xo s xkw s1 I N H.
  destruct (xrefines xo s xkw I N) as [Ho Hm]. rewrite H in Ho, Hm. cbn [fst snd] in *.
  assert (Hs : xspec_select xo (xm_of s) xkw = (OOk, xm_of s1)).
  { destruct (xspec_select xo (xm_of s) xkw) as [oc m]. cbn [fst snd] in *. subst oc. rewrite Hm; [reflexivity | discriminate]. }
  pose proof (xspec_idempotent _ _ _ _ Hs) as Hs1.
  assert (I1 : XInv xo s1) by (eapply xselect_XInv; eauto; apply (xi_weak _ _ I)).
  destruct (xrefines xo s1 xkw I1 N) as [Ho1 Hm1]. rewrite Hs1 in Ho1, Hm1. cbn [fst snd] in *.
  destruct (xselect xo s1 xkw) as [oc2 s2] eqn:E2. cbn [fst snd] in *. subst oc2.
  exists s2. split; [reflexivity|]. assert (Hx : xm_of s2 = xm_of s1) by (apply Hm1; discriminate).
  split; [exact Hx|].
  assert (I2 : XInv xo s2) by (eapply xselect_XInv; eauto; apply (xi_weak _ _ I1)).
  rewrite (xi_pub _ _ I2), (xi_pub _ _ I1).
  assert (Hmk : masks_of (x_core s2) = masks_of (x_core s1))
    by (change (xm_masks (xm_of s2) = xm_masks (xm_of s1)); rewrite Hx; reflexivity).
  assert (Hspw : x_spw s2 = x_spw s1) by (change (xm_spw (xm_of s2) = xm_spw (xm_of s1)); rewrite Hx; reflexivity).
  assert (Hsub : x_sub s2 = x_sub s1) by (change (xm_sub (xm_of s2) = xm_sub (xm_of s1)); rewrite Hx; reflexivity).
  rewrite Hspw, Hsub. apply pub_of_masks. exact Hmk.
Qed.

(* ---------------------------------------------------------------- the selection after an accepted call, spelled out *)
Lemma xselect_ok_masks : forall xo s xkw s', XInv xo s -> NoDup (map fst xkw) -> xselect xo s xkw = (OOk, s') ->
  xm_of s' = xspec_masks xo (xm_of s) (elab_kw (x_vocab xo) xkw) (x_spw s') (x_sub s').
Proof.
  intros xo s xkw s' I N H. destruct (xrefines xo s xkw I N) as [Ho Hm]. rewrite H in Ho, Hm. cbn [fst snd] in *.
  assert (Hx : xm_of s' = snd (xspec_select xo (xm_of s) xkw)) by (apply Hm; discriminate).
  rewrite xspec_closed in Ho, Hx. cbv zeta in Ho, Hx.
  destruct (xpre xo (xm_spw (xm_of s)) (xm_sub (xm_of s)) (elab_kw (x_vocab xo) xkw)) as [oc|[spw sub]] eqn:P.
  - exfalso. cbn [fst] in Ho. subst oc. unfold xpre in P.
    destruct (_ && existsb _ _); [discriminate|].
    destruct (atom_of _ _); [|discriminate]. destruct (negb _); [discriminate|].
    destruct (atom_of _ _); [|discriminate]. destruct (negb _); [discriminate|].
    destruct (negb _); discriminate.
  - destruct (all_ok (view_at xo spw sub) (elab_kw (x_vocab xo) xkw)); [|discriminate]. cbn [snd] in Hx.
    assert (Es : x_spw s' = spw) by (change (xm_spw (xm_of s') = spw); rewrite Hx; reflexivity).
    assert (Eb : x_sub s' = sub) by (change (xm_sub (xm_of s') = sub); rewrite Hx; reflexivity).
    rewrite Es, Eb. exact Hx.
Qed.

Lemma xspec_masks_dim : forall xo m kw spw sub d,
  mk d (xm_masks (xspec_masks xo m kw spw sub))
  = fold_left mand (spec_crit_masks (view_at xo spw sub) d kw)
                   (if xspec_reset kw (negb (spw =? xm_spw m)) (negb (sub =? xm_sub m)) d
                    then xbase xo (view_at xo spw sub) spw sub d else mk d (xm_masks m)).
Proof. intros. destruct d; reflexivity. Qed.

(* what an accepted call does per dimension; what a change of window / subarray forces; what it must leave alone *)
Lemma xselect_dims : forall xo s xkw s', XInv xo s -> NoDup (map fst xkw) -> xselect xo s xkw = (OOk, s') ->
  let kw := elab_kw (x_vocab xo) xkw in
  let chg_spw := negb (x_spw s' =? x_spw s) in
  let chg_sub := negb (x_sub s' =? x_sub s) in
  let o := view_at xo (x_spw s') (x_sub s') in
  (forall d, mget d (x_core s') = fold_left mand (spec_crit_masks o d kw)
                (if xspec_reset kw chg_spw chg_sub d then xbase xo o (x_spw s') (x_sub s') d else mget d (x_core s)))
  /\ (chg_spw = true -> xspec_reset kw chg_spw chg_sub DT = true /\ xspec_reset kw chg_spw chg_sub DF = true)
  /\ (chg_sub = true -> xspec_reset kw chg_spw chg_sub DT = true /\ xspec_reset kw chg_spw chg_sub DB = true)
  /\ (forall d, xspec_reset kw chg_spw chg_sub d = false -> hits kw (doc_group d) = false ->
        mget d (x_core s') = mget d (x_core s)).
Proof.
  intros xo s xkw s' I N H kw chg_spw chg_sub o.
  pose proof (xselect_ok_masks xo s xkw s' I N H) as Hx. fold kw in Hx.
  assert (Hd : forall d, mget d (x_core s') = fold_left mand (spec_crit_masks o d kw)
                (if xspec_reset kw chg_spw chg_sub d then xbase xo o (x_spw s') (x_sub s') d else mget d (x_core s))).
  { intro d. rewrite <- mk_mget. change (masks_of (x_core s')) with (xm_masks (xm_of s')). rewrite Hx.
    rewrite xspec_masks_dim. rewrite <- mk_mget. reflexivity. }
  split; [exact Hd|]. split; [|split].
  - intro E. rewrite E. unfold xspec_reset, chg_sub.
    destruct (spec_reset kw DT); destruct (spec_reset kw DF); destruct (negb (x_sub s' =? x_sub s)); split; reflexivity.
  - intro E. rewrite E. unfold xspec_reset, chg_spw.
    destruct (spec_reset kw DT); destruct (spec_reset kw DB); destruct (negb (x_spw s' =? x_spw s)); split; reflexivity.
  - intros d Hr Hh. rewrite Hd, Hr. rewrite (no_hits_no_masks o d kw Hh). reflexivity.
Qed.

(* an index outside 0 .. n-1 (negative ones included) is rejected before anything is touched *)
Lemma window_out_of_range : forall xo s xkw z,
  let kw := elab_kw (x_vocab xo) xkw in
  (lookup "spw" kw = Some (VAtom z) /\ ~ (0 <= z < Z.of_nat (List.length (x_spws xo)))
   \/ (atom_of (x_spw s) (lookup "spw" kw) <> None /\ lookup "subarray" kw = Some (VAtom z)
       /\ ~ (0 <= z < Z.of_nat (List.length (x_subs xo))))) ->
  (fst (xselect xo s xkw) = OIndexError \/ fst (xselect xo s xkw) = OTypeError) /\ snd (xselect xo s xkw) = s.
Proof.
  intros xo s xkw z kw H.
  assert (G : fst (xselect xo s xkw) = OIndexError \/ fst (xselect xo s xkw) = OTypeError).
  { destruct (xselect_cases xo s xkw) as [[oc [P E]]|[spw [sub [P [Rs [Rb E]]]]]]; fold kw in P.
    - rewrite E. cbn [fst]. unfold xpre in P.
      destruct (_ && existsb _ kw); [inversion P; right; reflexivity|].
      destruct H as [[L R]|[A [L R]]].
      + rewrite L in P. cbn [atom_of] in P.
        destruct ((0 <=? z) && (z <? Z.of_nat (List.length (x_spws xo)))) eqn:C.
        * exfalso. apply R. apply andb_true_iff in C. destruct C as [C1 C2]. apply Z.leb_le in C1. apply Z.ltb_lt in C2. lia.
        * cbn [negb] in P. inversion P. left. reflexivity.
      + destruct (atom_of (x_spw s) (lookup "spw" kw)) as [spw|]; [|congruence].
        destruct (negb _); [inversion P; left; reflexivity|].
        rewrite L in P. cbn [atom_of] in P.
        destruct ((0 <=? z) && (z <? Z.of_nat (List.length (x_subs xo)))) eqn:C.
        * exfalso. apply R. apply andb_true_iff in C. destruct C as [C1 C2]. apply Z.leb_le in C1. apply Z.ltb_lt in C2. lia.
        * cbn [negb] in P. inversion P. left. reflexivity.
    - exfalso. destruct (xpre_atoms _ _ _ _ _ _ P) as [A B].
      destruct H as [[L R]|[_ [L R]]].
      + rewrite L in A. cbn [atom_of] in A. inversion A. subst. lia.
      + rewrite L in B. cbn [atom_of] in B. inversion B. subst. lia. }
  split; [exact G|].
  destruct (xselect xo s xkw) as [oc s'] eqn:E. cbn [fst snd] in *.
  apply (rejected_untouched _ _ _ _ _ E). tauto.
Qed.

(* weights= / flags= in the extended model: an accepted call sets exactly the selection it names and keeps the other *)
Lemma xselect_weights_flags : forall xo s xkw s', XInv xo s -> NoDup (map fst xkw) -> xselect xo s xkw = (OOk, s') ->
  let kw := elab_kw (x_vocab xo) xkw in
  wk (x_core s') = match lookup "weights" kw with Some v => v | None => wk (x_core s) end
  /\ flk (x_core s') = match lookup "flags" kw with Some v => v | None => flk (x_core s) end.
Proof.
  intros xo s xkw s' [W I _] N H kw.
  assert (Nk : NoDup (keys kw)) by (unfold kw; rewrite keys_elab_kw; exact N).
  destruct (xselect_cases xo s xkw) as [[oc [P E]]|[spw [sub [P [Rs [Rb E]]]]]]; fold kw in P; rewrite E in H.
  - exfalso. inversion H; subst. unfold xpre in P.
    destruct (_ && existsb _ _); [discriminate|].
    destruct (atom_of _ _); [|discriminate]. destruct (negb _); [discriminate|].
    destruct (atom_of _ _); [|discriminate]. destruct (negb _); [discriminate|].
    destruct (negb _); discriminate.
  - unfold xstep in H. cbv zeta in H. fold kw in H. destruct (all_ok _ _); [|discriminate]. inversion H; subst s'.
    cbn [x_core with_core].
    set (r := xreset (x_spw s) (x_sub s) kw spw sub). set (l := xsel_of (x_core s) r (xkw3 kw spw sub)).
    assert (Nl : NoDup (keys l)) by (apply NoDup_xsel_of; apply (w_nodup _ _ W)).
    assert (L : forall key, key = "weights"%string \/ key = "flags"%string ->
                lookup key l = match lookup key kw with Some v => Some v | None => lookup key (sel (x_core s)) end).
    { intros key Hk. unfold l. rewrite lookup_xsel_of by (apply NoDup_xkw3; exact Nk). rewrite lookup_xkw3.
      assert (Hp : popped r key = false) by (apply popped_none; destruct Hk; subst; reflexivity).
      rewrite Hp. destruct Hk; subst; cbn [String.eqb Ascii.eqb Bool.eqb negb]; destruct (lookup _ kw); reflexivity. }
    split.
    + change (wk (loop_fn ?o l ?c)) with (lastw "weights" l (wk c)). cbn [wk set_sel xclear_fn].
      rewrite lastw_lookup by exact Nl. rewrite (L "weights"%string (or_introl eq_refl)).
      destruct (lookup "weights" kw); [reflexivity|].
      destruct (lookup "weights" (sel (x_core s))) eqn:R; [symmetry; apply (inv_wk _ _ I); exact R | reflexivity].
    + change (flk (loop_fn ?o l ?c)) with (lastw "flags" l (flk c)). cbn [flk set_sel xclear_fn].
      rewrite lastw_lookup by exact Nl. rewrite (L "flags"%string (or_intror eq_refl)).
      destruct (lookup "flags" kw); [reflexivity|].
      destruct (lookup "flags" (sel (x_core s))) eqn:R; [symmetry; apply (inv_flk _ _ I); exact R | reflexivity].
Qed.
