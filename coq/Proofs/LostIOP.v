(* C06 round 2: index handling, errors option / getters, store histories, chunk_info records. *)
From Coq Require Import ZArith List Bool Lia ZifyBool String Permutation.
From KV Require Import Gen.Generated Base.Sx Base.Str Model.Prune Model.LostMap Model.LostIO
                       Proofs.PruneP Proofs.LostMapP Proofs.LostMapNdP Proofs.C06P.
Import ListNotations.
Open Scope Z_scope.

(* ================================================================================================ *)
(* 1. index handling *)

Lemma py_bound_range n dflt v : 0 <= n -> 0 <= dflt <= n -> 0 <= py_bound n dflt v <= n.
Proof. intros Hn Hd. unfold py_bound. destruct v as [z|]; [destruct (z <? 0) eqn:E|]; lia. Qed.

(* whatever the raw bounds: the window _prune_chunks works with is inside the axis, is not the full axis (that is
   None: axis skipped), and contains exactly the elements Python's range(n)[a:b] contains *)
Lemma norm_window_spec n a b : 0 <= n ->
  match norm_window n a b with
  | None => forall x, 0 <= x < n -> py_selected n a b x
  | Some (lo, hi) => 0 <= lo /\ lo <= hi /\ hi <= n /\ (lo <> 0 \/ hi < n) /\
                     forall x, lo <= x < hi <-> py_selected n a b x
  end.
Proof.
  intro Hn. unfold norm_window, dask_norm, py_indices, py_selected, py_lower, py_upper.
  pose proof (py_bound_range n 0 a Hn ltac:(lia)) as Ra.
  pose proof (py_bound_range n n b Hn ltac:(lia)) as Rb.
  assert (La : forall x, 0 <= x < n -> (py_bound n 0 a <= x <->
                match a with None => True | Some z => if z <? 0 then z + n <= x else z <= x end)).
  { intros x Hx. unfold py_bound. destruct a as [z|]; [destruct (z <? 0) eqn:E|]; lia. }
  assert (Lb : forall x, 0 <= x < n -> (x < py_bound n n b <->
                match b with None => True | Some z => if z <? 0 then x < z + n else x < z end)).
  { intros x Hx. unfold py_bound. destruct b as [z|]; [destruct (z <? 0) eqn:E|]; lia. }
  set (s := py_bound n 0 a) in *. set (e := py_bound n n b) in *. clearbody s e.
  assert (Fin : forall lo hi, 0 <= lo -> lo <= hi -> hi <= n -> (lo <> 0 \/ hi < n) ->
                 (forall x, 0 <= x < n -> (lo <= x <-> s <= x)) -> (forall x, 0 <= x < n -> (x < hi <-> x < e)) ->
                 0 <= lo /\ lo <= hi /\ hi <= n /\ (lo <> 0 \/ hi < n) /\
                 forall x, lo <= x < hi <->
                   0 <= x < n /\ match a with None => True | Some z => if z <? 0 then z + n <= x else z <= x end /\
                                 match b with None => True | Some z => if z <? 0 then x < z + n else x < z end).
  { intros lo hi H1 H2 H3 H4 H5 H6. split; [exact H1|]. split; [exact H2|]. split; [exact H3|]. split; [exact H4|].
    intro x. split.
    - intro Hx. assert (R : 0 <= x < n) by lia. split; [exact R|]. split.
      + apply (La x R). apply (H5 x R). lia.
      + apply (Lb x R). apply (H6 x R). lia.
    - intros (R & A & B). apply (La x R) in A. apply (Lb x R) in B. apply (H5 x R) in A. apply (H6 x R) in B. lia. }
  destruct (s =? 0) eqn:Es; destruct (n <=? e) eqn:Ee.
  - intros x Hx. split; [lia|]. split; [apply La|apply Lb]; lia.
  - cbn [py_bound]. destruct (e <? 0) eqn:E1; [lia|].
    apply Fin; try lia; intros x Hx; lia.
  - cbn [py_bound]. destruct (s <? 0) eqn:E1; [lia|].
    apply Fin; try lia; intros x Hx; lia.
  - cbn [py_bound]. destruct (s <? 0) eqn:E1; [lia|].
    destruct (e <? s) eqn:E2.
    + rewrite E1. replace (Z.min s n) with s by lia.
      split; [lia|]. split; [lia|]. split; [lia|]. split; [lia|].
      intro x. split; [lia|]. intros (R & A & B). apply (La x R) in A. apply (Lb x R) in B. lia.
    + destruct (e <? 0) eqn:E3; [lia|]. apply Fin; try lia; intros x Hx; lia.
Qed.

(* in particular a non-empty result is a window in the sense of Model.Prune.win_ok *)
Lemma norm_window_win_ok cs a b : allpos cs ->
  0 < wsize cs (norm_window (zsum cs) a b) -> win_ok cs (norm_window (zsum cs) a b).
Proof.
  intros P H. pose proof (norm_window_spec (zsum cs) a b (zsum_nonneg cs P)) as S.
  destruct (norm_window (zsum cs) a b) as [[lo hi]|]; simpl in *; [|exact Logic.I]. lia.
Qed.

Lemma optZ_eqb_eq a b : optZ_eqb a b = true <-> a = b.
Proof.
  destruct a as [x|], b as [y|]; simpl; split; intro H; try discriminate; try reflexivity.
  - apply Z.eqb_eq in H. congruence.
  - inversion H. apply Z.eqb_refl.
Qed.

Lemma step_ok_prune s : step_ok gen_prune_ok_steps s = true <-> s = None \/ s = Some 1.
Proof.
  unfold step_ok, gen_prune_ok_steps. cbn [existsb]. rewrite !orb_true_iff, !optZ_eqb_eq. intuition discriminate.
Qed.

Lemma step_ok_preselect s : step_ok gen_preselect_ok_steps s = true <-> s = None \/ s = Some 1.
Proof.
  unfold step_ok, gen_preselect_ok_steps. cbn [existsb]. rewrite !orb_true_iff, !optZ_eqb_eq. intuition discriminate.
Qed.

Definition unit_slice (i : pidx) : Prop := exists a b s, i = PSlice a b s /\ (s = None \/ s = Some 1).

Lemma elt_ok_prune i : elt_ok gen_prune_ok_steps i = true <-> unit_slice i.
Proof.
  destruct i as [a b s|z|]; cbn [elt_ok].
  - rewrite step_ok_prune. split.
    + intro H. exists a, b, s. auto.
    + intros (a' & b' & s' & E & H). inversion E; subst. exact H.
  - split; [discriminate|]. intros (a & b & s & E & _). discriminate.
  - split; [discriminate|]. intros (a & b & s & E & _). discriminate.
Qed.

Lemma elt_ok_preselect i : elt_ok gen_preselect_ok_steps i = true <-> unit_slice i.
Proof.
  destruct i as [a b s|z|]; cbn [elt_ok].
  - rewrite step_ok_preselect. split.
    + intro H. exists a, b, s. auto.
    + intros (a' & b' & s' & E & H). inversion E; subst. exact H.
  - split; [discriminate|]. intros (a & b & s & E & _). discriminate.
  - split; [discriminate|]. intros (a & b & s & E & _). discriminate.
Qed.

(* _prune_chunks answers iff there are no more index elements than axes and every one is a unit-step slice *)
Lemma prune_index_ok_iff ndim index :
  prune_index_ok ndim index = true <-> (List.length index <= ndim)%nat /\ Forall unit_slice index.
Proof.
  unfold prune_index_ok. rewrite andb_true_iff, Nat.leb_le, forallb_forall, Forall_forall.
  split; intros [A B]; split; auto; intros i Hi; apply elt_ok_prune; auto.
Qed.

Lemma prune_chunks_rejects chunks index :
  prune_chunks chunks index = None <-> ~ ((List.length index <= List.length chunks)%nat /\ Forall unit_slice index).
Proof.
  unfold prune_chunks. rewrite <- prune_index_ok_iff.
  destruct (prune_index_ok (List.length chunks) index); split; intro H; try discriminate; try reflexivity.
  exfalso. apply H. reflexivity.
Qed.

(* ... and when it answers, axis k carries prune_axis of the normalised window of the k-th index element (axes
   beyond the index are untouched) *)
Lemma prune_chunks_axis chunks index r k cs : prune_chunks chunks index = Some r -> nth_error chunks k = Some cs ->
  let w := elt_window (zsum cs) (nth k index full_slice) in
  nth_error r k = Some (let '(cs', st, sp, off) := prune_axis cs w in
                        (cs', match w with None => None | Some _ => Some (st, sp) end, off)).
Proof.
  unfold prune_chunks. destruct (prune_index_ok (List.length chunks) index) eqn:E; [|discriminate].
  intros R Hk. inversion R; subst r; clear R.
  apply prune_index_ok_iff in E. destruct E as [HL _].
  assert (Hlen : (k < List.length chunks)%nat) by (apply nth_error_Some; congruence).
  assert (HP : nth_error (pad_index (List.length chunks) index) k = Some (nth k index full_slice)).
  { unfold pad_index. destruct (Nat.lt_ge_cases k (List.length index)) as [Hi|Hi].
    - rewrite nth_error_app1 by exact Hi. apply nth_error_nth'. exact Hi.
    - rewrite nth_error_app2 by exact Hi. rewrite (nth_overflow index) by exact Hi.
      rewrite nth_error_repeat by lia. reflexivity. }
  assert (HC : nth_error (combine chunks (pad_index (List.length chunks) index)) k = Some (cs, nth k index full_slice)).
  { revert HP Hk. generalize (pad_index (List.length chunks) index) as pi. generalize (nth k index full_slice) as v.
    clear. revert k. induction chunks as [|c t IH]; intros [|k] v [|p pi] HP Hk; simpl in *; try discriminate.
    - inversion HP; inversion Hk; subst. reflexivity.
    - apply IH; assumption. }
  cbv zeta. erewrite map_nth_error by exact HC. cbn [fst snd]. reflexivity.
Qed.

(* get_dask_array: an empty index leaves every axis whole; otherwise as _prune_chunks *)
Lemma gda_windows_rejects chunks index : index <> [] ->
  (gda_windows chunks index = None <-> ~ ((List.length index <= List.length chunks)%nat /\ Forall unit_slice index)).
Proof.
  intro N. unfold gda_windows. destruct index as [|i t]; [congruence|].
  rewrite <- prune_index_ok_iff.
  destruct (prune_index_ok (List.length chunks) (i :: t)); split; intro H; try discriminate; try reflexivity.
  exfalso. apply H. reflexivity.
Qed.

Lemma gda_windows_nil chunks : gda_windows chunks [] = Some [].
Proof. reflexivity. Qed.

(* every window get_dask_array works with is None or 0 <= lo <= hi <= axis List.length *)
Definition win_norm (cs : list Z) (w : option (Z * Z)) : Prop :=
  match w with None => True | Some (lo, hi) => 0 <= lo /\ lo <= hi /\ hi <= zsum cs end.

Lemma elt_window_norm cs i : allpos cs -> win_norm cs (elt_window (zsum cs) i).
Proof.
  intro P. destruct i as [a b s|z|]; simpl; try exact Logic.I.
  pose proof (norm_window_spec (zsum cs) a b (zsum_nonneg cs P)) as S.
  destruct (norm_window (zsum cs) a b) as [[lo hi]|]; simpl; [lia|exact Logic.I].
Qed.

Lemma gda_windows_norm : forall chunks index win, Forall allpos chunks -> gda_windows chunks index = Some win ->
  Forall2 win_norm (firstn (List.length win) chunks) win.
Proof.
  intros chunks index win P. unfold gda_windows. destruct index as [|i0 t0]; [intro H; inversion H; constructor|].
  destruct (prune_index_ok (List.length chunks) (i0 :: t0)); [|discriminate].
  intro H. inversion H; subst win; clear H.
  generalize (i0 :: t0) as index. clear i0 t0.
  induction chunks as [|cs chunks IH]; intros [|i index]; simpl; try constructor.
  - inversion P; subst. apply elt_window_norm. assumption.
  - inversion P; subst. apply IH. assumption.
Qed.

(* a window that is normalised and has an element is win_ok *)
Lemma win_norm_ok cs w x : win_norm cs w -> 0 <= x < wsize cs w -> win_ok cs w.
Proof. destruct w as [[lo hi]|]; simpl; [lia|trivial]. Qed.

(* ---------- TelstateDataSource(preselect=...) ---------- *)
Lemma mem_preselect_keys k : mem_string k gen_preselect_keys = true <-> k = "dumps"%string \/ k = "channels"%string.
Proof.
  unfold mem_string, gen_preselect_keys. cbn [existsb]. rewrite !orb_true_iff, !String.eqb_eq. intuition discriminate.
Qed.

Definition preselect_valid (pre : list (string * pidx)) : Prop :=
  forall k v, In (k, v) pre -> (k = "dumps"%string \/ k = "channels"%string) /\ unit_slice v.

Lemma preselect_ok_iff pre : preselect_ok pre = true <-> preselect_valid pre.
Proof.
  unfold preselect_ok, preselect_valid. rewrite andb_true_iff, !forallb_forall. split.
  - intros [A B] k v Hin. split.
    + apply mem_preselect_keys. exact (A (k, v) Hin).
    + apply elt_ok_preselect. exact (B (k, v) Hin).
  - intro H. split; intros [k v] Hin; destruct (H k v Hin) as [A B]; cbn [fst snd].
    + apply mem_preselect_keys. exact A.
    + apply elt_ok_preselect. exact B.
Qed.

(* a preselection is refused iff it has a key other than dumps / channels or a value that is not a unit-step slice *)
Lemma preselect_index_rejects pre : preselect_index pre = None <-> ~ preselect_valid pre.
Proof.
  unfold preselect_index. rewrite <- preselect_ok_iff.
  destruct (preselect_ok pre); split; intro H; try discriminate; try reflexivity.
  exfalso. apply H. reflexivity.
Qed.

(* accepted: no preselection -> index (); else (dumps slice or [:], channels slice or [:]) in that order *)
Lemma preselect_index_value pre idx : preselect_index pre = Some idx ->
  (pre = [] /\ idx = []) \/
  (pre <> [] /\ idx = [match dict_get "dumps" pre with Some i => i | None => full_slice end;
                       match dict_get "channels" pre with Some i => i | None => full_slice end]).
Proof.
  unfold preselect_index. destruct (preselect_ok pre); [|discriminate]. intro H. inversion H; subst; clear H.
  destruct pre as [|kv t]; [left; auto|right]. split; [discriminate|reflexivity].
Qed.

Lemma dict_get_in k d v : dict_get k d = Some v -> In (k, v) d.
Proof.
  induction d as [|[k' v'] t IH]; simpl; [discriminate|].
  destruct (String.eqb k k') eqn:E.
  - apply String.eqb_eq in E. intro H. inversion H; subst. left. reflexivity.
  - intro H. right. apply IH. exact H.
Qed.

(* whatever is accepted reaches _prune_chunks as unit-step slices and is never refused there (arrays have >= 2 axes) *)
Lemma source_windows_accepts chunks pre : (2 <= List.length chunks)%nat -> preselect_valid pre ->
  exists win, source_windows chunks pre = Some win /\
    (pre = [] -> win = []) /\
    (pre <> [] -> win = map (fun ci => elt_window (zsum (fst ci)) (snd ci))
                            (combine chunks [match dict_get "dumps" pre with Some i => i | None => full_slice end;
                                             match dict_get "channels" pre with Some i => i | None => full_slice end])).
Proof.
  intros HL V. unfold source_windows.
  destruct (preselect_index pre) as [idx|] eqn:E.
  - destruct (preselect_index_value pre idx E) as [[A B]|[A B]]; subst idx.
    + exists []. split; [reflexivity|]. split; [reflexivity|]. intro X. congruence.
    + assert (OK : prune_index_ok (List.length chunks)
               [match dict_get "dumps" pre with Some i => i | None => full_slice end;
                match dict_get "channels" pre with Some i => i | None => full_slice end] = true).
      { apply prune_index_ok_iff. split; [simpl; lia|].
        assert (U : forall k, unit_slice match dict_get k pre with Some i => i | None => full_slice end).
        { intro k. destruct (dict_get k pre) as [i|] eqn:G.
          - apply dict_get_in in G. exact (proj2 (V k i G)).
          - exists None, None, None. auto. }
        repeat constructor; apply U. }
      eexists. unfold gda_windows. rewrite OK. split; [reflexivity|]. split; [intro X; congruence|reflexivity].
  - apply preselect_index_rejects in E. contradiction.
Qed.

Lemma source_windows_rejects chunks pre : ~ preselect_valid pre -> source_windows chunks pre = None.
Proof. intro H. unfold source_windows. apply preselect_index_rejects in H. rewrite H. reflexivity. Qed.

(* ================================================================================================ *)
(* 2. the errors option and the getters *)

Lemma getter_of_placeholder : getter_of (EStr "placeholder") = GPlaceholder false.
Proof. reflexivity. Qed.
Lemma getter_of_dryrun : getter_of (EStr "dryrun") = GPlaceholder true.
Proof. reflexivity. Qed.
Lemma getter_of_raise : getter_of (EStr "raise") = GRaise.
Proof. reflexivity. Qed.
Lemma getter_of_num v : getter_of (ENum v) = GDefault v.
Proof. reflexivity. Qed.
Lemma getter_of_other s : s <> "placeholder"%string -> s <> "dryrun"%string -> s <> "raise"%string ->
  getter_of (EStr s) = GBadErrors.
Proof.
  intros A B C. unfold getter_of, gen_errors_mode. cbn [existsb andb].
  apply String.eqb_neq in A, B, C. rewrite A, B, C. reflexivity.
Qed.

(* what a block evaluates to, per mode *)
Lemma read_block_modes present v :
  read_block (getter_of (EStr "placeholder")) present = (if present then BData else BPlaceholder) /\
  read_block (getter_of (EStr "dryrun")) present = BPlaceholder /\
  read_block (getter_of (EStr "raise")) present = (if present then BData else BRaise) /\
  read_block (getter_of (ENum v)) present = (if present then BData else BFill v).
Proof. destruct present; repeat split; reflexivity. Qed.

Lemma read_block_bad s present : s <> "placeholder"%string -> s <> "dryrun"%string -> s <> "raise"%string ->
  read_block (getter_of (EStr s)) present = BRaise.
Proof. intros A B C. rewrite getter_of_other by assumption. reflexivity. Qed.

(* ChunkStoreVisFlagsWeights: an absent flags chunk is a DATA_LOST-filled array, an absent chunk of any other array
   a PlaceholderChunk; a present chunk is the stored chunk; no block ever raises *)
Lemma vfw_block_cases c a J :
  vfw_block c a J = if placeholder c a J then (if Nat.eqb a A_FLAGS then BFill DATA_LOST else BPlaceholder) else BData.
Proof.
  unfold vfw_block, vfw_errors, placeholder.
  destruct (Nat.eqb a A_FLAGS); destruct (c_miss c a (blk_ids (darr c a) J)); reflexivity.
Qed.

Lemma vfw_block_never_raises c a J : vfw_block c a J <> BRaise.
Proof. rewrite vfw_block_cases. destruct (placeholder c a J), (Nat.eqb a A_FLAGS); discriminate. Qed.

Lemma io_filled_refines c a p : a <> A_FLAGS -> io_filled c a p = Some (filled c a p).
Proof.
  intro N. unfold io_filled, filled. rewrite vfw_block_cases.
  apply Nat.eqb_neq in N. rewrite N.
  destruct (placeholder c a (map fst (locs (chunks_of (darr c a)) p))); reflexivity.
Qed.

Lemma io_vis_refines c p : io_vis c p = Some (model_vis c p).
Proof. apply io_filled_refines. discriminate. Qed.

Lemma io_weights_refines c p : io_weights c p = Some (model_weights c p).
Proof. unfold io_weights, model_weights. rewrite !io_filled_refines by discriminate. reflexivity. Qed.

Lemma apply_data_lost_ext ph1 ph2 : forall lost orig q,
  (forall e, In e lost -> ph1 (fst (fst e)) (snd (fst e)) = ph2 (fst (fst e)) (snd (fst e))) ->
  apply_data_lost ph1 orig lost q = apply_data_lost ph2 orig lost q.
Proof.
  unfold apply_data_lost. induction lost as [|e lost IH]; intros orig q H; [reflexivity|].
  cbn [fold_left]. rewrite (H e (or_introl eq_refl)). apply IH. intros e' Hin. apply H. right. exact Hin.
Qed.

Lemma entries_of_name fl name d e : In e (entries_of fl name d) -> fst (fst e) = name.
Proof.
  unfold entries_of. rewrite in_flat_map. intros (kp & _ & Hin). rewrite in_map_iff in Hin.
  destruct Hin as (pc & <- & _). reflexivity.
Qed.

Lemma the_entries_names c e : In e (the_entries c) -> fst (fst e) <> A_FLAGS.
Proof.
  unfold the_entries, all_entries. cbn [flat_map fst snd]. rewrite app_nil_r, !in_app_iff.
  intros [H|[H|H]]; apply entries_of_name in H; rewrite H; discriminate.
Qed.

Lemma io_flags_refines c p : io_flags c p = Some (model_flags c p).
Proof.
  unfold io_flags, model_flags, model_flags_with. rewrite vfw_block_cases.
  change (Nat.eqb A_FLAGS A_FLAGS) with true. cbv iota.
  set (I := map fst (locs (chunks_of (darr c A_FLAGS)) p)).
  assert (E : forall orig, apply_data_lost (fun a J => is_placeholder (vfw_block c a J)) orig
                             (lost_map_at (the_entries c) I) (map snd (locs (chunks_of (darr c A_FLAGS)) p)) =
                           apply_data_lost (placeholder c) orig
                             (lost_map_at (the_entries c) I) (map snd (locs (chunks_of (darr c A_FLAGS)) p))).
  { intro orig. apply apply_data_lost_ext. intros e Hin. unfold lost_map_at in Hin. apply filter_In in Hin.
    destruct Hin as [Hin _]. apply the_entries_names in Hin. rewrite vfw_block_cases.
    apply Nat.eqb_neq in Hin. rewrite Hin. destruct (placeholder c (fst (fst e)) (snd (fst e))); reflexivity. }
  destruct (placeholder c A_FLAGS I); cbn [block_value]; rewrite E; reflexivity.
Qed.

(* ================================================================================================ *)
(* 3. histories *)

Lemma zs_eqb_refl l : zs_eqb l l = true.
Proof. induction l as [|x l IH]; simpl; [reflexivity|]. rewrite Z.eqb_refl, IH. reflexivity. Qed.

Lemma zs_eqb_eq : forall a b, zs_eqb a b = true <-> a = b.
Proof.
  induction a as [|x a IH]; intros [|y b]; simpl; split; intro H; try discriminate; try reflexivity.
  - apply andb_true_iff in H. destruct H as [H1 H2]. apply Z.eqb_eq in H1. apply IH in H2. congruence.
  - inversion H; subst. rewrite Z.eqb_refl. apply zs_eqb_refl.
Qed.

Lemma last_write_app h1 h2 a id : last_write (h1 ++ h2) a id = fold_left (step a id) h2 (last_write h1 a id).
Proof. unfold last_write. apply fold_left_app. Qed.

(* the last operation on a chunk decides; operations on other chunks do not matter *)
Lemma last_write_put h a id v : last_write (h ++ [Put a id v]) a id = Some v.
Proof. rewrite last_write_app. cbn [fold_left]. unfold step, op_hits. rewrite Nat.eqb_refl, zs_eqb_refl. reflexivity. Qed.

Lemma last_write_del h a id : last_write (h ++ [Del a id]) a id = None.
Proof. rewrite last_write_app. cbn [fold_left]. unfold step, op_hits. rewrite Nat.eqb_refl, zs_eqb_refl. reflexivity. Qed.

Lemma last_write_other h o a id : op_hits o a id = false -> last_write (h ++ [o]) a id = last_write h a id.
Proof. intro H. rewrite last_write_app. cbn [fold_left]. unfold step. rewrite H. reflexivity. Qed.

Lemma last_write_nil a id : last_write [] a id = None.
Proof. reflexivity. Qed.

(* cfg_ok only looks at the chunkings and the window *)
Lemma cfg_ok_hist chunks win vals1 vals2 h1 h2 p :
  cfg_ok (hist_cfg chunks win vals1 h1) p -> cfg_ok (hist_cfg chunks win vals2 h2) p.
Proof. intro H. exact H. Qed.

Definition hist_id (chunks : list (list (list Z))) (win : list (option (Z * Z))) (a : nat) (p : list Z) : list Z :=
  let c := hist_cfg chunks win (fun _ _ _ => 0) [] in chunk_id (arr_chunks c a) (gpos c (own c a p)).
Definition hist_pos (chunks : list (list (list Z))) (win : list (option (Z * Z))) (a : nat) (p : list Z) : list Z :=
  let c := hist_cfg chunks win (fun _ _ _ => 0) [] in gpos c (own c a p).

Lemma hist_lost_in chunks win vals h a p :
  lost_in (hist_cfg chunks win vals h) a p =
  match last_write h a (hist_id chunks win a p) with None => true | Some _ => false end.
Proof. reflexivity. Qed.

Lemma hist_stored chunks win vals h a p :
  stored (hist_cfg chunks win vals h) a p =
  match last_write h a (hist_id chunks win a p) with Some v => vals v a (hist_pos chunks win a p) | None => 0 end.
Proof. reflexivity. Qed.

(* a load at any point of a history: every element shows the version last written to its chunk, or is lost *)
Lemma hist_vis chunks win vals h p : cfg_ok (hist_cfg chunks win vals h) p ->
  model_vis (hist_cfg chunks win vals h) p =
  match last_write h A_VIS (hist_id chunks win A_VIS p) with
  | Some v => vals v A_VIS (hist_pos chunks win A_VIS p) | None => 0 end.
Proof.
  intro OK. rewrite (vis_model_is_spec _ _ OK). unfold spec_vis. rewrite hist_lost_in, hist_stored.
  destruct (last_write h A_VIS (hist_id chunks win A_VIS p)); reflexivity.
Qed.

Lemma hist_weights chunks win vals h p : cfg_ok (hist_cfg chunks win vals h) p ->
  model_weights (hist_cfg chunks win vals h) p =
  match last_write h A_W (hist_id chunks win A_W p), last_write h A_WC (hist_id chunks win A_WC p) with
  | Some v, Some v' => vals v A_W (hist_pos chunks win A_W p) * vals v' A_WC (hist_pos chunks win A_WC p)
  | _, _ => 0 end.
Proof.
  intro OK. rewrite (weights_model_is_spec _ _ OK). unfold spec_weights. rewrite !hist_lost_in, !hist_stored.
  destruct (last_write h A_W (hist_id chunks win A_W p)), (last_write h A_WC (hist_id chunks win A_WC p)); reflexivity.
Qed.

Definition absent (h : list op) (a : nat) (id : list Z) : bool :=
  match last_write h a id with None => true | Some _ => false end.

Lemma hist_flags chunks win vals h p : cfg_ok (hist_cfg chunks win vals h) p ->
  model_flags (hist_cfg chunks win vals h) p =
  Z.lor (match last_write h A_FLAGS (hist_id chunks win A_FLAGS p) with
         | Some v => vals v A_FLAGS (hist_pos chunks win A_FLAGS p) | None => DATA_LOST end)
        (if absent h A_VIS (hist_id chunks win A_VIS p) || absent h A_W (hist_id chunks win A_W p) ||
            absent h A_WC (hist_id chunks win A_WC p) then DATA_LOST else 0).
Proof.
  intro OK. rewrite (flags_model_is_spec _ _ OK). unfold spec_flags, absent. rewrite !hist_lost_in, !hist_stored.
  destruct (last_write h A_FLAGS (hist_id chunks win A_FLAGS p)); reflexivity.
Qed.

(* two histories that leave the same chunks in the store give the same load *)
Lemma hist_final_state chunks win vals h1 h2 p :
  (forall a id, last_write h1 a id = last_write h2 a id) -> cfg_ok (hist_cfg chunks win vals h1) p ->
  model_vis (hist_cfg chunks win vals h1) p = model_vis (hist_cfg chunks win vals h2) p /\
  model_weights (hist_cfg chunks win vals h1) p = model_weights (hist_cfg chunks win vals h2) p /\
  model_flags (hist_cfg chunks win vals h1) p = model_flags (hist_cfg chunks win vals h2) p.
Proof.
  intros E OK. pose proof (cfg_ok_hist chunks win vals vals h1 h2 p OK) as OK2.
  rewrite (hist_vis _ _ _ _ _ OK), (hist_vis _ _ _ _ _ OK2), (hist_weights _ _ _ _ _ OK), (hist_weights _ _ _ _ _ OK2),
          (hist_flags _ _ _ _ _ OK), (hist_flags _ _ _ _ _ OK2).
  unfold absent. rewrite !E. repeat split; reflexivity.
Qed.

(* a chunk that arrives later is seen by the next load; a chunk removed later is lost in the next load *)
Lemma hist_put_seen chunks win vals h v p : cfg_ok (hist_cfg chunks win vals h) p ->
  model_vis (hist_cfg chunks win vals (h ++ [Put A_VIS (hist_id chunks win A_VIS p) v])) p =
  vals v A_VIS (hist_pos chunks win A_VIS p).
Proof.
  intro OK. rewrite hist_vis by exact (cfg_ok_hist _ _ vals vals h _ _ OK). rewrite last_write_put. reflexivity.
Qed.

Lemma hist_del_lost chunks win vals h a p : cfg_ok (hist_cfg chunks win vals h) p ->
  (a = A_VIS \/ a = A_W \/ a = A_WC \/ a = A_FLAGS) ->
  let c := hist_cfg chunks win vals (h ++ [Del a (hist_id chunks win a p)]) in
  Z.testbit (model_flags c p) 3 = true /\ (a = A_VIS -> model_vis c p = 0) /\
  (a = A_W \/ a = A_WC -> model_weights c p = 0).
Proof.
  intros OK Ha c.
  assert (OK2 : cfg_ok c p) by exact (cfg_ok_hist _ _ vals vals h _ _ OK).
  assert (L : lost_in c a p = true).
  { unfold c. rewrite hist_lost_in, last_write_del. reflexivity. }
  split; [|split].
  - destruct (flag_bits c p OK2) as [B _]. rewrite B. unfold any_lost.
    destruct Ha as [->|[->|[->| ->]]]; rewrite L; rewrite ?orb_true_r; reflexivity.
  - intros ->. rewrite (vis_model_is_spec c p OK2). unfold spec_vis. rewrite L. reflexivity.
  - intros [-> | ->]; rewrite (weights_model_is_spec c p OK2); unfold spec_weights; rewrite L; rewrite ?orb_true_r; reflexivity.
Qed.

(* ================================================================================================ *)
(* 4. chunk_info records: _align_chunk_info, _upgrade_chunk_info *)

Lemma fold_max_ge : forall l x, In x l -> x <= fold_right Z.max 0 l.
Proof.
  induction l as [|y l IH]; intros x H; [destruct H|]. destruct H as [->|H]; simpl; [lia|]. specialize (IH x H). lia.
Qed.

Lemma fold_max_nonneg l : 0 <= fold_right Z.max 0 l.
Proof. induction l as [|y l IH]; simpl; lia. Qed.

Lemma fold_max_const : forall l m, 0 <= m -> l <> [] -> (forall x, In x l -> x = m) -> fold_right Z.max 0 l = m.
Proof.
  induction l as [|y l IH]; intros m Hm N H; [congruence|]. simpl.
  rewrite (H y (or_introl eq_refl)). destruct l as [|z l]; [simpl; lia|].
  rewrite (IH m Hm) by (try discriminate; intros x Hx; apply H; right; exact Hx). lia.
Qed.

Lemma info_dumps_le all i : In i all -> info_dumps i <= info_max_dumps all.
Proof. intro H. apply fold_max_ge. apply in_map. exact H. Qed.

(* after alignment every array has the dump count of the longest one *)
Lemma align_info_one_dumps maxd i : info_dumps i <= maxd -> info_dumps (align_info_one maxd i) = maxd.
Proof.
  intro H. unfold align_info_one, gen_align_pads. destruct (info_dumps i <? maxd) eqn:E.
  - reflexivity.
  - lia.
Qed.

Lemma align_info_dumps all i : In i (align_info all) -> info_dumps i = info_max_dumps all.
Proof.
  unfold align_info. rewrite in_map_iff. intros (j & <- & Hj). apply align_info_one_dumps. apply info_dumps_le. exact Hj.
Qed.

(* nothing that was described as stored is dropped: the dump-axis chunks are the given ones followed by
   (max_dumps - n_dumps) phantom chunks of one dump; the other axes are untouched *)
Lemma align_info_one_chunks maxd i :
  hd [] (i_chunks (align_info_one maxd i)) = hd [] (i_chunks i) ++ repeat 1 (Z.to_nat (maxd - info_dumps i)) /\
  tl (i_chunks (align_info_one maxd i)) = tl (i_chunks i) /\
  tl (i_shape (align_info_one maxd i)) = tl (i_shape i).
Proof.
  unfold align_info_one, gen_align_pads, gen_align_phantom_size, gen_align_phantom_count.
  destruct (info_dumps i <? maxd) eqn:E; cbn [i_chunks i_shape hd tl].
  - repeat split; reflexivity.
  - replace (Z.to_nat (maxd - info_dumps i)) with 0%nat by lia. cbn [repeat]. rewrite app_nil_r. repeat split; reflexivity.
Qed.

Lemma align_info_idempotent all : align_info (align_info all) = align_info all.
Proof.
  assert (M : info_max_dumps (align_info all) = info_max_dumps all \/ all = []).
  { destruct all as [|i0 t]; [right; reflexivity|left].
    unfold info_max_dumps at 1. apply fold_max_const.
    - apply fold_max_nonneg.
    - discriminate.
    - intros x Hx. rewrite in_map_iff in Hx. destruct Hx as (j & <- & Hj). apply align_info_dumps. exact Hj. }
  destruct M as [M| ->]; [|reflexivity].
  unfold align_info at 1. rewrite M.
  rewrite <- (map_id (align_info all)) at 2. apply map_ext_in. intros i Hi.
  pose proof (align_info_dumps all i Hi) as D.
  unfold align_info_one, gen_align_pads. rewrite D. rewrite Z.ltb_irrefl. reflexivity.
Qed.

(* on consistent records (shape = sums of the chunks) the chunk lists are Model.LostMap.align of the chunk lists,
   and the records stay consistent *)
Lemma consistent_dumps i : info_consistent i -> info_dumps i = n_dumps (i_chunks i).
Proof.
  intros [S N]. unfold info_dumps, n_dumps. rewrite S. destruct (i_chunks i) as [|t r]; [congruence|reflexivity].
Qed.

Lemma consistent_max all : Forall info_consistent all -> info_max_dumps all = max_dumps (map i_chunks all).
Proof.
  intro F. unfold info_max_dumps, max_dumps. rewrite map_map. f_equal. apply map_ext_in. intros i Hi.
  rewrite Forall_forall in F. apply consistent_dumps. apply F. exact Hi.
Qed.

Lemma align_info_one_consistent maxd i : info_consistent i -> info_dumps i <= maxd ->
  i_chunks (align_info_one maxd i) = align_one maxd (i_chunks i) /\ info_consistent (align_info_one maxd i).
Proof.
  intros C Hle. pose proof (consistent_dumps i C) as D. destruct C as [S N].
  unfold align_info_one, gen_align_pads, gen_align_phantom_size, gen_align_phantom_count.
  destruct (i_chunks i) as [|t r] eqn:EC; [congruence|].
  unfold n_dumps in D. cbn [hd] in D.
  destruct (info_dumps i <? maxd) eqn:E; cbn [i_chunks i_shape hd tl align_one].
  - rewrite D. split; [reflexivity|]. unfold info_consistent. cbn [i_shape i_chunks]. split; [|discriminate].
    rewrite S. cbn [i_shape i_chunks map tl]. f_equal. rewrite zsum_app.
    assert (R : forall k, zsum (repeat 1 k) = Z.of_nat k).
    { induction k as [|k IH]; [reflexivity|]. cbn [repeat]. change (zsum (1 :: repeat 1 k)) with (1 + zsum (repeat 1 k)).
      rewrite IH. lia. }
    rewrite R. lia.
  - rewrite EC. replace (Z.to_nat (maxd - zsum t)) with 0%nat by lia. cbn [repeat]. rewrite app_nil_r.
    split; [reflexivity|]. split; [rewrite EC; exact S|rewrite EC; discriminate].
Qed.

Lemma align_info_consistent all : Forall info_consistent all ->
  map i_chunks (align_info all) = align (map i_chunks all) /\ Forall info_consistent (align_info all).
Proof.
  intro F. unfold align_info, align. rewrite <- (consistent_max all F). rewrite !map_map.
  split.
  - apply map_ext_in. intros i Hi. rewrite Forall_forall in F.
    apply (align_info_one_consistent _ i (F i Hi) (info_dumps_le all i Hi)).
  - rewrite Forall_forall. intros j Hj. rewrite in_map_iff in Hj. destruct Hj as (i & <- & Hi).
    rewrite Forall_forall in F. apply (align_info_one_consistent _ i (F i Hi) (info_dumps_le all i Hi)).
Qed.

(* _upgrade_chunk_info *)
Lemma set_nth_same {A} : forall n (x : A) l, (n < List.length l)%nat -> nth_error (set_nth n x l) n = Some x.
Proof. induction n as [|n IH]; intros x [|y l] H; simpl in *; try lia; [reflexivity|]. apply IH. lia. Qed.

Lemma set_nth_other {A} : forall n k (x : A) l, k <> n -> nth_error (set_nth n x l) k = nth_error l k.
Proof.
  induction n as [|n IH]; intros [|k] x [|y l] H; simpl; try reflexivity; try congruence.
  apply IH. congruence.
Qed.

Lemma set_nth_length {A} : forall n (x : A) l, List.length (set_nth n x l) = List.length l.
Proof. induction n as [|n IH]; intros x [|y l]; simpl; try reflexivity. rewrite IH. reflexivity. Qed.

(* refused iff the shapes differ beyond the dump axis; otherwise the WHOLE improved record (all its chunks, its own
   dump count) replaces the entry and every other entry is untouched *)
Lemma upgrade_info_spec all key imp orig : nth_error all key = Some orig ->
  (tl (i_shape imp) <> tl (i_shape orig) -> upgrade_info all key imp = None) /\
  (tl (i_shape imp) = tl (i_shape orig) ->
     exists r, upgrade_info all key imp = Some r /\ nth_error r key = Some imp /\
               List.length r = List.length all /\ forall k, k <> key -> nth_error r k = nth_error all k).
Proof.
  intro H. unfold upgrade_info, gen_upgrade_compares_shape_from. rewrite H.
  change (skipn 1 (i_shape imp)) with (tl (i_shape imp)). change (skipn 1 (i_shape orig)) with (tl (i_shape orig)).
  split; intro E.
  - destruct (zs_eqb (tl (i_shape imp)) (tl (i_shape orig))) eqn:Z; [|reflexivity].
    apply zs_eqb_eq in Z. contradiction.
  - rewrite E, zs_eqb_refl. eexists. split; [reflexivity|]. split; [|split].
    + apply set_nth_same. apply nth_error_Some. congruence.
    + apply set_nth_length.
    + intros k Hk. apply set_nth_other. exact Hk.
Qed.

Lemma skipn1_tl {A} (l : list A) : skipn 1 l = tl l.
Proof. destruct l; reflexivity. Qed.

(* a flags stream of its own: the data set gets the dump count of the longest of ALL arrays (the L1 flags included),
   and the flags array keeps every chunk of the flags stream, padded with phantom chunks if L0 is longer *)
Lemma source_info_flags_stream l0 f orig : nth_error l0 A_FLAGS = Some orig -> tl (i_shape f) = tl (i_shape orig) ->
  exists u r fl, upgrade_info l0 A_FLAGS f = Some u /\ source_info l0 (Some f) = Some r /\
    nth_error r A_FLAGS = Some fl /\
    (forall i, In i r -> info_dumps i = info_max_dumps u) /\
    info_dumps f <= info_max_dumps u /\
    (forall k i, k <> A_FLAGS -> nth_error l0 k = Some i -> info_dumps i <= info_max_dumps u) /\
    hd [] (i_chunks fl) = hd [] (i_chunks f) ++ repeat 1 (Z.to_nat (info_max_dumps u - info_dumps f)) /\
    tl (i_chunks fl) = tl (i_chunks f).
Proof.
  intros H E. destruct (upgrade_info_spec l0 A_FLAGS f orig H) as [_ U]. destruct (U E) as (u & Hu & Hf & HL & Ho).
  exists u, (align_info u), (align_info_one (info_max_dumps u) f).
  split; [exact Hu|]. split; [unfold source_info; rewrite Hu; reflexivity|].
  split; [unfold align_info; apply map_nth_error; exact Hf|].
  split; [intros i Hi; apply align_info_dumps; exact Hi|].
  split; [apply info_dumps_le; apply nth_error_In with A_FLAGS; exact Hf|].
  split.
  - intros k i Hk Hi. apply info_dumps_le. apply nth_error_In with k. rewrite Ho by exact Hk. exact Hi.
  - destruct (align_info_one_chunks (info_max_dumps u) f) as (A & B & _). split; assumption.
Qed.

(* ================================================================================================ *)
(* 5. laws that follow from model = spec *)

(* _apply_data_lost: the order of the (chunk, slices) pairs does not matter, applying the list twice changes
   nothing, pairs whose chunk is not a placeholder are ignored *)
Lemma existsb_perm {A} (f : A -> bool) l l' : Permutation l l' -> existsb f l = existsb f l'.
Proof.
  induction 1; simpl; try congruence.
  - destruct (f x), (f y); reflexivity.
Qed.

Lemma apply_data_lost_perm ph orig l l' q : Permutation l l' ->
  apply_data_lost ph orig l q = apply_data_lost ph orig l' q.
Proof. intro P. rewrite !apply_data_lost_spec. rewrite (existsb_perm _ l l' P). reflexivity. Qed.

Lemma apply_data_lost_idem ph orig l q :
  apply_data_lost ph (apply_data_lost ph orig l q) l q = apply_data_lost ph orig l q.
Proof.
  rewrite !apply_data_lost_spec. rewrite <- Z.lor_assoc.
  rewrite Z.lor_diag. reflexivity.
Qed.

Lemma apply_data_lost_none ph orig l q :
  (forall e, In e l -> ph (fst (fst e)) (snd (fst e)) = false) -> apply_data_lost ph orig l q = orig.
Proof.
  intro H. rewrite apply_data_lost_spec.
  replace (existsb _ l) with false; [apply Z.lor_0_r|].
  symmetry. apply not_true_is_false. intro X. apply existsb_exists in X. destruct X as (e & Hin & He).
  rewrite (H e Hin) in He. discriminate.
Qed.

(* nothing absent: the load returns exactly what is stored *)
Lemma no_loss_identity c p : cfg_ok c p -> (forall a id, c_miss c a id = false) ->
  model_vis c p = stored c A_VIS p /\ model_weights c p = stored c A_W p * stored c A_WC p /\
  model_flags c p = stored c A_FLAGS p.
Proof.
  intros OK H. rewrite (vis_model_is_spec c p OK), (weights_model_is_spec c p OK), (flags_model_is_spec c p OK).
  unfold spec_vis, spec_weights, spec_flags, lost_in. rewrite !H. cbn [orb]. rewrite Z.lor_0_r. repeat split; reflexivity.
Qed.

(* losing more chunks never clears data_lost and never changes an element that is still delivered *)
Definition with_miss (c : cfg) (m : nat -> list Z -> bool) : cfg :=
  {| c_chunks := c_chunks c; c_win := c_win c; c_miss := m; c_dat := c_dat c |}.

Lemma loss_monotone c m p : cfg_ok c p -> (forall a id, c_miss c a id = true -> m a id = true) ->
  (Z.testbit (model_flags c p) 3 = true -> Z.testbit (model_flags (with_miss c m) p) 3 = true) /\
  (model_vis (with_miss c m) p <> 0 -> model_vis (with_miss c m) p = model_vis c p) /\
  (model_weights (with_miss c m) p <> 0 -> model_weights (with_miss c m) p = model_weights c p).
Proof.
  intros OK H.
  assert (OK2 : cfg_ok (with_miss c m) p) by exact OK.
  assert (L : forall a, lost_in c a p = true -> lost_in (with_miss c m) a p = true).
  { intros a. unfold lost_in. apply H. }
  assert (S : forall a, stored (with_miss c m) a p = stored c a p) by reflexivity.
  split; [|split].
  - destruct (flag_bits c p OK) as [B _]. destruct (flag_bits (with_miss c m) p OK2) as [B2 _].
    rewrite B, B2. unfold any_lost. rewrite S.
    pose proof (L A_FLAGS) as L0. pose proof (L A_VIS) as L1. pose proof (L A_W) as L2. pose proof (L A_WC) as L3.
    destruct (lost_in c A_FLAGS p), (lost_in c A_VIS p), (lost_in c A_W p), (lost_in c A_WC p);
      cbn [orb negb andb]; intro X;
      rewrite ?(L0 eq_refl), ?(L1 eq_refl), ?(L2 eq_refl), ?(L3 eq_refl); cbn [orb negb andb];
      rewrite ?orb_true_r; try reflexivity; try discriminate.
    destruct (lost_in (with_miss c m) A_FLAGS p); cbn [orb negb andb]; [reflexivity|].
    rewrite X. rewrite orb_true_r. reflexivity.
  - rewrite (vis_model_is_spec c p OK), (vis_model_is_spec _ p OK2). unfold spec_vis. rewrite S.
    pose proof (L A_VIS) as L1.
    destruct (lost_in c A_VIS p); [rewrite (L1 eq_refl); congruence|].
    destruct (lost_in (with_miss c m) A_VIS p); congruence.
  - rewrite (weights_model_is_spec c p OK), (weights_model_is_spec _ p OK2). unfold spec_weights. rewrite !S.
    pose proof (L A_W) as L2. pose proof (L A_WC) as L3.
    destruct (lost_in c A_W p); [rewrite (L2 eq_refl); cbn [orb]; congruence|].
    destruct (lost_in c A_WC p); [rewrite (L3 eq_refl), orb_true_r; congruence|].
    destruct (lost_in (with_miss c m) A_W p || lost_in (with_miss c m) A_WC p); cbn [orb]; congruence.
Qed.

(* ================================================================================================ *)
(* 6. a store that serves views of its own arrays *)

Lemma cstart_last_le cs j : allpos cs -> (j <= List.length cs)%nat -> cstart cs j <= zsum cs.
Proof. intros P H. rewrite <- (cstart_all cs). apply cstart_mono; auto. Qed.

(* an array for which only the dumps of the chunk list t were written, asked for the chunks of the ALIGNED chunk list
   t ++ k one-dump phantom chunks: every chunk of t is found, every phantom chunk is reported not found - never a
   malformed chunk; this is what makes trailing dumps "absent" rather than an error (finding C06-F2, fixed) *)
Lemma dict_store_dump_axis t k j rest_shape rest_sl : allpos t -> (j < List.length t + k)%nat ->
  dict_get_chunk rest_shape rest_sl = Found ->
  dict_get_chunk (zsum t :: rest_shape) (chunk_slice (t ++ repeat 1 k) j :: rest_sl) =
  if Nat.ltb j (List.length t) then Found else NotFound.
Proof.
  intros P Hj R. unfold dict_get_chunk in *. cbn [combine existsb forallb fst snd].
  destruct (existsb _ (combine rest_sl rest_shape)) eqn:E1; [discriminate|].
  destruct (forallb _ (combine rest_sl rest_shape)) eqn:E2; [|discriminate].
  unfold chunk_slice, gen_dict_outside. cbn [fst snd].
  assert (PA : allpos (t ++ repeat 1 k)).
  { apply allpos_app. split; [exact P|]. clear. induction k; simpl; constructor; [lia|assumption]. }
  assert (LA : List.length (t ++ repeat 1 k) = (List.length t + k)%nat) by (rewrite app_length, repeat_length; reflexivity).
  destruct (Nat.ltb j (List.length t)) eqn:L.
  - apply Nat.ltb_lt in L.
    assert (A : cstart (t ++ repeat 1 k) j = cstart t j).
    { unfold cstart. rewrite firstn_app. replace (j - List.length t)%nat with 0%nat by lia. simpl. rewrite app_nil_r. reflexivity. }
    assert (B : cstart (t ++ repeat 1 k) (S j) = cstart t (S j)).
    { unfold cstart. rewrite firstn_app. replace (S j - List.length t)%nat with 0%nat by lia. simpl. rewrite app_nil_r. reflexivity. }
    rewrite A, B.
    pose proof (cstart_last_le t (S j) P ltac:(lia)) as H1.
    pose proof (cstart_nonneg t j P) as H0.
    assert (H2 : cstart t j < cstart t (S j)).
    { rewrite cstart_S by lia. pose proof (nth_pos t j P L). lia. }
    replace (cstart t j >=? zsum t) with false by lia. cbn [andb orb].
    replace ((0 <=? cstart t j) && (cstart t j <=? cstart t (S j)) &&
             ((cstart t j =? cstart t (S j)) || (cstart t (S j) <=? zsum t))) with true by lia.
    reflexivity.
  - apply Nat.ltb_ge in L.
    assert (A : zsum t <= cstart (t ++ repeat 1 k) j).
    { rewrite <- (cstart_all t). replace (cstart t (List.length t)) with (cstart (t ++ repeat 1 k) (List.length t)).
      - apply cstart_mono; [exact PA|exact L|lia].
      - unfold cstart. rewrite firstn_app. replace (List.length t - List.length t)%nat with 0%nat by lia.
        simpl. rewrite app_nil_r. reflexivity. }
    assert (B : cstart (t ++ repeat 1 k) j < cstart (t ++ repeat 1 k) (S j)).
    { rewrite cstart_S by lia. pose proof (nth_pos _ j PA ltac:(lia)). lia. }
    replace (cstart (t ++ repeat 1 k) j >=? zsum t) with true by lia.
    replace (cstart (t ++ repeat 1 k) (S j) >? cstart (t ++ repeat 1 k) j) with true by lia.
    reflexivity.
Qed.

Lemma ex_dict_store :
  dict_get_chunk [3; 4] [(2, 3); (0, 4)] = Found /\ dict_get_chunk [3; 4] [(3, 4); (0, 4)] = NotFound /\
  dict_get_chunk [3; 4] [(2, 4); (0, 4)] = Malformed /\ dict_get_chunk [3; 4] [(1, 1); (4, 4)] = Found /\
  chunk_slice ([2; 1] ++ repeat 1 2) 3 = (4, 5).
Proof. vm_compute. repeat split; reflexivity. Qed.
