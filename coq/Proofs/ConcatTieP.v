(* C19: the constants of ConcatenatedDataSet.__init__ re-read from the source have the values Model/Concat.v assumes. *)
From Coq Require Import ZArith List Bool String.
From KV Require Import Gen.Generated.
Import ListNotations.

Lemma concat_constants_ok :
  concat_sort_ascending_by_start = true /\ concat_max_dump_periods = 1%nat /\
  concat_merged_sensors = ["Observation/subarray"; "Observation/spw"; "Observation/target"]%string /\
  concat_running_sensors = ["Observation/scan_index"; "Observation/compscan_index"]%string /\
  concat_running_start = 0%nat /\ concat_running_step_is_num_unique = true /\
  concat_default_selection = [("spw"%string, 0%Z); ("subarray"%string, 0%Z)] /\
  concat_parts_get_mask_slices = true /\
  obs_label_allow_repeats = true /\ obs_scan_state_allow_repeats = true /\ obs_other_allow_repeats = [].
Proof. repeat split; reflexivity. Qed.


(* DataSet.select as Model/ConcatMulti.v assumes it: the time mask is reset to (spw_index == spw) & (subarray_index ==
   subarray); every product list / channel grid read in select() is the one of the CURRENT subarray / window;
   indices beyond the merged lists raise IndexError *)
Lemma select_sw_constants_ok :
  select_time_reset_sensors = ["Observation/spw_index"; "Observation/subarray_index"]%string /\
  select_reads_only_current_subarray = true /\ select_reads_only_current_spw = true /\
  select_sw_out_of_range_raises_indexerror = true.
Proof. repeat split; reflexivity. Qed.
