(* C14: multi-part products — completeness of the stitched union and the exact content of every stitched value
   (Model/CalInterp.v `stitch`; soundness and ordering are in CalInterpP.v). *)
From Coq Require Import ZArith QArith List Bool Lia Lqa Sorting.Sorted.
From KV Require Import Base.Sx Model.Interp Model.CalInterp Proofs.InterpP Proofs.CalInterpP.
Import ListNotations.
Open Scope Q_scope.

Lemma min_ts_none_empty : forall ps, min_ts ps = None -> forall p, In p ps -> p = [].
Proof.
  induction ps as [|q ps IH]; intros H p Hin; [inversion Hin|].
  cbn [min_ts fold_right] in H. fold (min_ts ps) in H. destruct Hin as [E|Hin].
  - subst q. destruct p as [|s0 r]; [reflexivity|]. simpl in H. destruct (min_ts ps); discriminate.
  - apply IH; [|exact Hin]. destruct (head_ts q), (min_ts ps); try discriminate; reflexivity.
Qed.

Lemma advance_len : forall t (p : part), (List.length (advance t p) <= List.length p)%nat.
Proof. intros t [|s0 r]; [apply le_n|]. simpl. destruct (Qeq_bool (fst s0) t); simpl; lia. Qed.

Lemma total_len_cons : forall p ps, total_len (p :: ps) = (List.length p + total_len ps)%nat.
Proof. reflexivity. Qed.

Lemma total_len_advance_le : forall t ps, (total_len (map (advance t) ps) <= total_len ps)%nat.
Proof.
  intros t ps. induction ps as [|p ps IH]; [apply le_n|]. cbn [map]. rewrite !total_len_cons.
  pose proof (advance_len t p). lia.
Qed.

Lemma total_len_advance_lt : forall t ps p0, In p0 ps -> (List.length (advance t p0) < List.length p0)%nat ->
  (total_len (map (advance t) ps) < total_len ps)%nat.
Proof.
  intros t ps p0. induction ps as [|p ps IH]; intros Hin Hlt; [inversion Hin|].
  cbn [map]. rewrite !total_len_cons. destruct Hin as [E|Hin].
  - subst p. pose proof (total_len_advance_le t ps). lia.
  - pose proof (advance_len t p). pose proof (IH Hin Hlt). lia.
Qed.

(* the minimum timestamp is the head of some part, which `advance` then removes *)
Lemma min_ts_step : forall ps t, Forall sorted_part ps -> min_ts ps = Some t ->
  (total_len (map (advance t) ps) < total_len ps)%nat.
Proof.
  intros ps t Hs Em. destruct (min_ts_spec ps t Hs Em) as [[p0 [s0 [Hp0 [Hs0 Et]]]] Hle].
  apply (total_len_advance_lt t ps p0 Hp0).
  destruct p0 as [|h r]; [inversion Hs0|].
  assert (Hh : fst h == t).
  { rewrite Forall_forall in Hs. pose proof (sorted_head_le (h :: r) h r s0 (Hs _ Hp0) Hs0) as H1.
    pose proof (Hle (h :: r) h Hp0 (or_introl eq_refl)) as H2. rewrite Et in H1. lra. }
  apply Qeq_bool_iff in Hh. simpl. rewrite Hh. simpl. lia.
Qed.

Lemma total_len_zero : forall ps, total_len ps = O -> forall p, In p ps -> p = [].
Proof.
  induction ps as [|q ps IH]; intros H p Hin; [inversion Hin|]. rewrite total_len_cons in H.
  destruct Hin as [E|Hin].
  - subst q. destruct p; [reflexivity | simpl in H; lia].
  - apply IH; [lia | exact Hin].
Qed.

Lemma nth_in_or_nil : forall (ps : list part) i, nth i ps [] = [] \/ In (nth i ps []) ps.
Proof.
  intros ps i. destruct (Nat.lt_ge_cases i (List.length ps)) as [L|L].
  - right. apply nth_In. exact L.
  - left. apply nth_overflow. exact L.
Qed.

Lemma nth_advance : forall t ps i, nth i (map (advance t) ps) [] = advance t (nth i ps []).
Proof. intros t ps i. change (@nil sample) with (advance t []) at 1. apply map_nth. Qed.

Lemma nth_piece : forall t ps i, nth i (map (piece_at t) ps) None = piece_at t (nth i ps []).
Proof. intros t ps i. change (@None (list (option pv))) with (piece_at t []) at 1. apply map_nth. Qed.

Lemma advance_cases : forall t (p : part) s, In s p ->
  In s (advance t p) \/ (exists r, p = s :: r /\ Qeq_bool (fst s) t = true).
Proof.
  intros t [|h r] s Hin; [inversion Hin|]. simpl. destruct (Qeq_bool (fst h) t) eqn:E.
  - destruct Hin as [Eq|Hin]; [right; subst; exists r; split; [reflexivity | exact E] | left; exact Hin].
  - left. exact Hin.
Qed.

(* COMPLETENESS: with enough fuel every sample of every part shows up, at its own timestamp, as the piece of its part *)
Lemma stitch_fuel_complete : forall f ps, Forall sorted_part ps -> (total_len ps <= f)%nat ->
  forall i s', In s' (nth i ps []) ->
  exists s pcs, In s (stitch_fuel f ps) /\ fst s == fst s' /\ snd s = assemble pcs /\
                List.length pcs = List.length ps /\ nth i pcs None = Some (snd s').
Proof.
  induction f as [|f IH]; intros ps Hs Hf i s' Hin.
  - exfalso. destruct (nth_in_or_nil ps i) as [E|E]; [rewrite E in Hin; inversion Hin|].
    assert (Z0 : total_len ps = O) by lia.
    rewrite (total_len_zero ps Z0 _ E) in Hin. inversion Hin.
  - cbn [stitch_fuel]. destruct (min_ts ps) as [t|] eqn:Em.
    + assert (Hs' : Forall sorted_part (map (advance t) ps)).
      { apply Forall_forall. intros q Hq. apply in_map_iff in Hq. destruct Hq as [p [E Hp]]. subst q.
        apply advance_sorted. rewrite Forall_forall in Hs. apply Hs. exact Hp. }
      pose proof (min_ts_step ps t Hs Em) as Hlt.
      destruct (advance_cases t _ s' Hin) as [Hadv | [r [Ep Et]]].
      * rewrite <- nth_advance in Hadv.
        destruct (IH (map (advance t) ps) Hs' ltac:(lia) i s' Hadv) as [s [pcs [H1 [H2 [H3 [H4 H5]]]]]].
        exists s, pcs. split; [right; exact H1|]. split; [exact H2|]. split; [exact H3|].
        split; [rewrite H4; apply map_length | exact H5].
      * exists (t, assemble (map (piece_at t) ps)), (map (piece_at t) ps).
        split; [left; reflexivity|]. split; [apply Qeq_bool_iff in Et; simpl; lra|].
        split; [reflexivity|]. split; [apply map_length|].
        rewrite nth_piece, Ep. simpl. rewrite Et. reflexivity.
    + exfalso. destruct (nth_in_or_nil ps i) as [E|E]; [rewrite E in Hin; inversion Hin|].
      rewrite (min_ts_none_empty ps Em _ E) in Hin. inversion Hin.
Qed.

(* every stitched sample lies strictly after the timestamp that was just consumed *)
Lemma stitch_fuel_after : forall f ps t, Forall sorted_part ps ->
  (forall p s, In p ps -> In s p -> t <= fst s) ->
  forall s, In s (stitch_fuel f (map (advance t) ps)) -> t < fst s.
Proof.
  intros f ps t Hs Hle s Hin.
  assert (Hs' : Forall sorted_part (map (advance t) ps)).
  { apply Forall_forall. intros q Hq. apply in_map_iff in Hq. destruct Hq as [p [E Hp]]. subst q.
    apply advance_sorted. rewrite Forall_forall in Hs. apply Hs. exact Hp. }
  destruct (stitch_fuel_props f _ Hs') as [_ Hsound].
  destruct (Hsound s Hin) as [q [s'' [Hq [Hs'' Ef]]]]. rewrite <- Ef.
  apply in_map_iff in Hq. destruct Hq as [p [E Hp]]. subst q.
  apply (advance_gt t p s''); [rewrite Forall_forall in Hs; apply Hs; exact Hp | intros x Hx; apply (Hle p x Hp Hx) | exact Hs''].
Qed.

(* CONTENT of every stitched value: the concatenation (assemble) of one piece per part, in part order; the piece
   of part i is that part's value at this timestamp if it has one, and INVALID (None) exactly when the part has no
   sample at this timestamp *)
Definition piece_ok (p : part) (t : Q) (pc : option (list (option pv))) : Prop :=
  match pc with
  | Some v => exists s', In s' p /\ fst s' == t /\ snd s' = v
  | None => forall s', In s' p -> ~ fst s' == t
  end.

Lemma piece_at_ok : forall t (p : part), sorted_part p -> (forall s, In s p -> t <= fst s) -> piece_ok p t (piece_at t p).
Proof.
  intros t [|h r] Hs Hle; [intros s' []|]. simpl. destruct (Qeq_bool (fst h) t) eqn:E.
  - apply Qeq_bool_iff in E. exists h. split; [left; reflexivity|]. split; [exact E | reflexivity].
  - intros s' Hin K.
    assert (N : ~ fst h == t) by (intro K'; apply Qeq_bool_iff in K'; congruence).
    pose proof (Hle h (or_introl eq_refl)) as H0.
    pose proof (sorted_head_le (h :: r) h r s' Hs Hin) as H1. apply N. lra.
Qed.

Lemma piece_ok_advance : forall t t2 (p : part) pc, t < t2 -> (forall s, In s p -> t <= fst s) ->
  piece_ok (advance t p) t2 pc -> piece_ok p t2 pc.
Proof.
  intros t t2 p pc Hlt Hle H. destruct pc as [v|]; simpl in *.
  - destruct H as [s' [Hin [Et Ev]]]. exists s'. split; [eapply advance_incl; exact Hin | split; assumption].
  - intros s' Hin K. destruct (advance_cases t p s' Hin) as [Ha | [r [Ep Eq]]].
    + exact (H s' Ha K).
    + apply Qeq_bool_iff in Eq. lra.
Qed.

Lemma stitch_fuel_content : forall f ps, Forall sorted_part ps ->
  forall s, In s (stitch_fuel f ps) ->
  exists pcs, snd s = assemble pcs /\ List.length pcs = List.length ps /\
              forall i, piece_ok (nth i ps []) (fst s) (nth i pcs None).
Proof.
  induction f as [|f IH]; intros ps Hs s Hin; [inversion Hin|].
  cbn [stitch_fuel] in Hin. destruct (min_ts ps) as [t|] eqn:Em; [|inversion Hin].
  destruct (min_ts_spec ps t Hs Em) as [_ Hle].
  assert (Hs' : Forall sorted_part (map (advance t) ps)).
  { apply Forall_forall. intros q Hq. apply in_map_iff in Hq. destruct Hq as [p [E Hp]]. subst q.
    apply advance_sorted. rewrite Forall_forall in Hs. apply Hs. exact Hp. }
  assert (Hnth : forall i, sorted_part (nth i ps []) /\ (forall x, In x (nth i ps []) -> t <= fst x)).
  { intro i. destruct (nth_in_or_nil ps i) as [E|E].
    - rewrite E. split; [constructor | intros x []].
    - split; [rewrite Forall_forall in Hs; apply Hs; exact E | intros x Hx; exact (Hle _ x E Hx)]. }
  destruct Hin as [E|Hin].
  - subst s. exists (map (piece_at t) ps). split; [reflexivity|]. split; [apply map_length|].
    intro i. cbn [fst]. rewrite nth_piece. destruct (Hnth i) as [H1 H2]. apply piece_at_ok; assumption.
  - pose proof (stitch_fuel_after f ps t Hs Hle s Hin) as Hafter.
    destruct (IH _ Hs' s Hin) as [pcs [H1 [H2 H3]]]. exists pcs. split; [exact H1|].
    split; [rewrite H2; apply map_length|]. intro i. specialize (H3 i). rewrite nth_advance in H3.
    destruct (Hnth i) as [_ H5]. exact (piece_ok_advance t (fst s) _ _ Hafter H5 H3).
Qed.

(* THE FULL STATEMENT: the stitched product is the timestamp-sorted union of the parts; every value is the
   concatenation in part (= channel) order of the parts' pieces at that time, absent pieces INVALID *)
Theorem stitch_sorted_union : forall ps out,
  Forall (fun p => StronglySorted Qlt (map fst p)) ps -> stitch ps = Some out ->
  StronglySorted Qlt (map fst out) /\
  (forall s, In s out -> exists p s', In p ps /\ In s' p /\ fst s' = fst s) /\
  (forall i s', In s' (nth i ps []) -> exists s, In s out /\ fst s == fst s') /\
  (forall s, In s out -> exists pcs, snd s = assemble pcs /\ List.length pcs = List.length ps /\
                                     forall i, piece_ok (nth i ps []) (fst s) (nth i pcs None)).
Proof.
  intros ps out Hs H. destruct (stitch_sorted_sound ps out Hs H) as [H1 H2].
  unfold stitch in H. destruct (stitch_fuel (total_len ps) ps) as [|o0 l0] eqn:E; [discriminate|]. inversion H; subst out.
  rewrite <- E. rewrite <- E in H1, H2. split; [exact H1|]. split; [exact H2|]. split.
  - intros i s' Hin. destruct (stitch_fuel_complete (total_len ps) ps Hs (le_n _) i s' Hin) as [s [pcs [K1 [K2 _]]]].
    exists s. split; assumption.
  - intros s Hin. apply (stitch_fuel_content _ ps Hs s Hin).
Qed.

(* and the only way to get no product at all (KeyError) is that no part has any sample *)
Theorem stitch_none_iff : forall ps, Forall (fun p => StronglySorted Qlt (map fst p)) ps ->
  (stitch ps = None <-> forall p, In p ps -> p = []).
Proof.
  intros ps Hs. split.
  - intros H p Hin. destruct p as [|s' r] eqn:Ep; [reflexivity|]. exfalso.
    destruct (In_nth ps p [] ltac:(subst; exact Hin)) as [i [_ Ei]].
    assert (Hin' : In s' (nth i ps [])) by (rewrite Ei, Ep; left; reflexivity).
    destruct (stitch_fuel_complete (total_len ps) ps Hs (le_n _) i s' Hin') as [s [_ [K _]]].
    unfold stitch in H. destruct (stitch_fuel (total_len ps) ps); [inversion K | discriminate].
  - intro H. exact (proj2 (stitch_channel_order []) ps H).
Qed.

(* several substreams: a part that one substream lacks is absent altogether; a part all substreams have is their
   time-ordered concatenation (a single substream: the sensor itself) *)
Lemma part_of_substreams_absent : forall subs, In None subs -> part_of_substreams subs = [].
Proof.
  intros subs H. unfold part_of_substreams.
  assert (E : forallb is_some subs = false).
  { apply not_true_is_false. intro K. rewrite forallb_forall in K. specialize (K None H). discriminate. }
  rewrite E. reflexivity.
Qed.

Lemma fmap_id_some : forall ps : list part, fmap (fun o : option part => o) (map Some ps) = ps.
Proof. induction ps as [|p t IH]; [reflexivity|]. cbn [map fmap]. rewrite IH. reflexivity. Qed.

Lemma part_of_substreams_present : forall ps,
  part_of_substreams (map Some ps) = match ps with [p] => p | _ => merge_substreams ps end.
Proof.
  intro ps. unfold part_of_substreams.
  assert (E : forallb is_some (map (@Some part) ps) = true).
  { apply forallb_forall. intros x Hx. apply in_map_iff in Hx. destruct Hx as [p [Ep _]]. subst x. reflexivity. }
  rewrite E.
  pose proof (fmap_id_some ps) as F.
  destruct ps as [|p [|q t]]; [reflexivity | reflexivity |].
  change (map Some (p :: q :: t)) with (Some p :: Some q :: map Some t). cbn iota.
  change (Some p :: Some q :: map Some t) with (map (@Some part) (p :: q :: t)). rewrite F. reflexivity.
Qed.

Theorem stitch_substreams_spec :
  (forall parts, stitch_substreams parts = stitch (map part_of_substreams parts)) /\
  (forall subs, In None subs -> part_of_substreams subs = []) /\
  (forall ps, part_of_substreams (map Some ps) = match ps with [p] => p | _ => merge_substreams ps end).
Proof. split; [reflexivity|]. split; [exact part_of_substreams_absent | exact part_of_substreams_present]. Qed.
