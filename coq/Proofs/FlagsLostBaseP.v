(* C16 round 3: the lemmas of C06 that the C16 theorems about the exact lost sets stand on.

   VERBATIM COPY of Proofs/C06P.v, lines 7 .. (the end of Lemma flag_bits): windows, blocks, apply_data_lost_spec,
   cfg_ok, vis / weights / flags model = spec, flag_bits.  Proofs/C06P.v itself ends with `generated_agree`, the
   comparison of C06's model with the constructs C06's translator items read from the source; importing it would put
   C06's strict source templates of _apply_data_lost / _prune_chunks into the cone of Props/C16.v, and a
   behaviour-preserving rewrite of that code (e.g. /verif/benign/C08-3) would then break `./check C16`.  C16 ties the
   lost-map code behaviourally (wire 163) and by its own translator facts (item_v4_flag_consts), so only the
   source-independent part is taken.  The definitions (Model/Prune.v, Model/LostMap.v) and the lemma files
   Proofs/PruneP.v, LostMapP.v, LostMapNdP.v (no use of C06's generated constants) are imported unchanged. *)
From Coq Require Import ZArith List Bool Lia ZifyBool.
From KV Require Import Gen.Generated Base.Sx Model.Prune Model.LostMap Proofs.PruneP Proofs.LostMapP Proofs.LostMapNdP.
Import ListNotations.
Open Scope Z_scope.


(* ---------- windows ---------- *)
Lemma firstn_pad : forall m n1 n2 (win : list (option (Z * Z))), (m <= n1)%nat -> (m <= n2)%nat ->
  firstn m (win ++ repeat None n1) = firstn m (win ++ repeat None n2).
Proof.
  induction m as [|m IH]; intros n1 n2 win H1 H2; [reflexivity|].
  destruct win as [|w win].
  - destruct n1 as [|n1]; [lia|]. destruct n2 as [|n2]; [lia|]. cbn [app repeat firstn]. f_equal.
    apply (IH n1 n2 []); lia.
  - cbn [app firstn]. f_equal. apply IH; lia.
Qed.

Lemma pad_win_firstn win m n : (m <= n)%nat -> pad_win win m = firstn m (pad_win win n).
Proof.
  intro H. unfold pad_win. rewrite firstn_firstn. replace (Nat.min m n) with m by lia.
  apply firstn_pad; lia.
Qed.

Lemma pad_win_length win n : length (pad_win win n) = n.
Proof. unfold pad_win. rewrite firstn_length, app_length, repeat_length. lia. Qed.

Lemma combine_firstn_r {A B} : forall (l : list A) (l' : list B), combine l (firstn (length l) l') = combine l l'.
Proof. induction l as [|a l IH]; intros [|b l']; simpl; try reflexivity. rewrite IH. reflexivity. Qed.

(* ---------- per array: axes, windows, position ---------- *)
Fixpoint axes_ok (chs : list (list Z)) (ws : list (option (Z * Z))) (p : list Z) : Prop :=
  match chs, ws, p with
  | [], _, _ => True
  | cs :: chs', w :: ws', x :: p' => allpos cs /\ win_ok cs w /\ 0 <= x < wsize cs w /\ axes_ok chs' ws' p'
  | _, _, _ => False
  end.

Fixpoint sums_agree (fl a : list (list Z)) : Prop :=
  match fl, a with
  | _, [] => True
  | f :: fl', d :: a' => zsum f = zsum d /\ sums_agree fl' a'
  | [], _ :: _ => False
  end.

Definition gmap (ws : list (option (Z * Z))) (p : list Z) : list Z :=
  map (fun wx => wlo (fst wx) + snd wx) (combine ws p).

Lemma axes_ids : forall chs ws p, axes_ok chs ws p ->
  blk_ids (map (fun cw => mk_axis (fst cw) (snd cw)) (combine chs ws))
          (map fst (locs (chunks_of (map (fun cw => mk_axis (fst cw) (snd cw)) (combine chs ws))) p))
  = chunk_id chs (gmap ws p) /\
  blk_src (map (fun cw => mk_axis (fst cw) (snd cw)) (combine chs ws))
          (locs (chunks_of (map (fun cw => mk_axis (fst cw) (snd cw)) (combine chs ws))) p)
  = firstn (length chs) (gmap ws p).
Proof.
  unfold blk_ids, blk_src, locs, chunks_of, chunk_id, gmap.
  induction chs as [|cs chs IH]; intros ws p OK; [split; reflexivity|].
  destruct ws as [|w ws]; [simpl in OK; contradiction|]. destruct p as [|x p]; [simpl in OK; contradiction|].
  cbn [axes_ok] in OK. destruct OK as (P & W & Hx & OK).
  destruct (IH ws p OK) as [A B].
  destruct (axis_spec cs w x P W Hx) as [C D].
  cbn [combine map fst snd length firstn]. split; f_equal; assumption.
Qed.

Lemma axes_nd_ok : forall flc ac ws p, axes_ok flc ws p -> axes_ok ac ws p -> sums_agree flc ac ->
  length p = length flc ->
  nd_ok (chunks_of (map (fun cw => mk_axis (fst cw) (snd cw)) (combine flc ws)))
        (chunks_of (map (fun cw => mk_axis (fst cw) (snd cw)) (combine ac ws))) p.
Proof.
  unfold chunks_of.
  induction flc as [|f flc IH]; intros ac ws p OKf OKa S HL.
  - destruct p; [|discriminate]. destruct ac; [reflexivity|simpl in S; contradiction].
  - destruct ws as [|w ws]; [simpl in OKf; contradiction|]. destruct p as [|x p]; [simpl in OKf; contradiction|].
    cbn [axes_ok] in OKf. destruct OKf as (Pf & Wf & Hx & OKf).
    destruct (axis_sizes f w Pf Wf) as [Af Bf].
    cbn [combine map fst snd nd_ok]. split; [exact Af|]. split; [rewrite Bf; exact Hx|].
    destruct ac as [|a ac].
    + cbn [combine map]. apply (IH [] ws p OKf); [exact Logic.I|destruct flc; exact Logic.I|simpl in HL; lia].
    + cbn [axes_ok] in OKa. destruct OKa as (Pa & Wa & Hxa & OKa). cbn [sums_agree] in S. destruct S as [Sz S].
      destruct (axis_sizes a w Pa Wa) as [Aa Ba].
      cbn [combine map fst snd]. split; [exact Aa|]. split.
      * rewrite Bf, Ba. unfold wsize. destruct w as [[lo hi]|]; lia.
      * apply IH; auto; simpl in HL; lia.
Qed.

(* ---------- _apply_data_lost ---------- *)
Lemma existsb_filter {A} (f g : A -> bool) l : existsb f (filter g l) = existsb (fun a => g a && f a) l.
Proof. induction l as [|a l IH]; simpl; [reflexivity|]. destruct (g a); simpl; rewrite IH; reflexivity. Qed.

Lemma apply_data_lost_spec ph : forall lost orig q,
  apply_data_lost ph orig lost q =
  Z.lor orig (if existsb (fun e : entry => ph (fst (fst e)) (snd (fst e)) && in_slices (snd e) q) lost
              then DATA_LOST else 0).
Proof.
  unfold apply_data_lost.
  induction lost as [|e lost IH]; intros orig q; cbn [fold_left existsb].
  - rewrite Z.lor_0_r. reflexivity.
  - rewrite IH. destruct (ph (fst (fst e)) (snd (fst e)) && in_slices (snd e) q); cbn [orb].
    + destruct (existsb _ lost).
      * rewrite <- Z.lor_assoc, Z.lor_diag. reflexivity.
      * rewrite Z.lor_0_r. reflexivity.
    + reflexivity.
Qed.

(* ---------- the configuration the theorems are about ---------- *)
Definition nd (c : cfg) : nat := length (arr_chunks c A_FLAGS).
Definition arr_ok (c : cfg) (a : nat) (p : list Z) : Prop :=
  (length (arr_chunks c a) <= nd c)%nat /\
  axes_ok (arr_chunks c a) (pad_win (c_win c) (nd c)) p /\
  sums_agree (arr_chunks c A_FLAGS) (arr_chunks c a).
(* every array chunked into positive chunks, same shape on the axes it has, a non-empty normalised window on
   every axis (or no window), p an element of the window *)
Definition cfg_ok (c : cfg) (p : list Z) : Prop :=
  length p = nd c /\ arr_ok c A_VIS p /\ arr_ok c A_FLAGS p /\ arr_ok c A_W p /\ arr_ok c A_WC p.

Lemma darr_eq c a : (length (arr_chunks c a) <= nd c)%nat ->
  darr c a = map (fun cw => mk_axis (fst cw) (snd cw)) (combine (arr_chunks c a) (pad_win (c_win c) (nd c))).
Proof.
  intro H. unfold darr, get_dask_array. rewrite (pad_win_firstn _ _ _ H).
  rewrite <- (combine_firstn_r (arr_chunks c a) (pad_win (c_win c) (nd c))). reflexivity.
Qed.

Lemma gpos_own c a p : length p = nd c -> (length (arr_chunks c a) <= nd c)%nat ->
  gpos c (own c a p) = firstn (length (arr_chunks c a)) (gmap (pad_win (c_win c) (nd c)) p).
Proof.
  intros HL H. unfold gpos, own, gmap.
  rewrite firstn_length. replace (Nat.min (length (arr_chunks c a)) (length p)) with (length (arr_chunks c a)) by lia.
  rewrite (pad_win_firstn _ _ _ H).
  set (m := length (arr_chunks c a)). set (ws := pad_win (c_win c) (nd c)).
  assert (G : forall (m : nat) (ws : list (option (Z * Z))) (p : list Z),
              map (fun wx => wlo (fst wx) + snd wx) (combine (firstn m ws) (firstn m p)) =
              firstn m (map (fun wx => wlo (fst wx) + snd wx) (combine ws p))).
  { induction m0 as [|m0 IH]; intros ws0 p0; [reflexivity|].
    destruct ws0 as [|w ws0]; [reflexivity|]. destruct p0 as [|x p0]; [reflexivity|].
    cbn [firstn combine map]. f_equal. apply IH. }
  apply G.
Qed.

Lemma chunk_id_firstn chs g : chunk_id chs (firstn (length chs) g) = chunk_id chs g.
Proof. unfold chunk_id. rewrite combine_firstn_r. reflexivity. Qed.

(* the block of darray[a] that holds element p is a placeholder iff the stored chunk covering p is absent;
   and the element read from that block is the stored element *)
Lemma block_of c a p : length p = nd c -> arr_ok c a p ->
  placeholder c a (map fst (locs (chunks_of (darr c a)) p)) = lost_in c a p /\
  c_dat c a (blk_src (darr c a) (locs (chunks_of (darr c a)) p)) = stored c a p.
Proof.
  intros HL (Hm & OK & _). unfold placeholder, lost_in, stored.
  rewrite (gpos_own c a p HL Hm). rewrite (darr_eq c a Hm).
  destruct (axes_ids _ _ _ OK) as [A B]. rewrite A, B. rewrite chunk_id_firstn. split; reflexivity.
Qed.

Lemma nd_ok_of c a p : length p = nd c -> arr_ok c A_FLAGS p -> arr_ok c a p ->
  nd_ok (chunks_of (darr c A_FLAGS)) (chunks_of (darr c a)) p.
Proof.
  intros HL (Hf & OKf & _) (Hm & OK & S). rewrite (darr_eq c a Hm), (darr_eq c A_FLAGS Hf).
  apply axes_nd_ok; auto.
Qed.

Lemma locs_firstn chs p : locs chs (firstn (length chs) p) = locs chs p.
Proof. unfold locs. rewrite combine_firstn_r. reflexivity. Qed.

(* ---------- MAIN ---------- *)
Lemma vis_model_is_spec c p : cfg_ok c p -> model_vis c p = spec_vis c p.
Proof.
  intros (HL & V & _). unfold model_vis, spec_vis, filled.
  destruct (block_of c A_VIS p HL V) as [A B]. rewrite A, B. reflexivity.
Qed.

Lemma filled_firstn c a p : length p = nd c -> arr_ok c a p ->
  filled c a (firstn (length (arr_chunks c a)) p) = if lost_in c a p then 0 else stored c a p.
Proof.
  intros HL OK. unfold filled.
  assert (E : locs (chunks_of (darr c a)) (firstn (length (arr_chunks c a)) p) = locs (chunks_of (darr c a)) p).
  { destruct OK as (Hm & _). rewrite <- (locs_firstn (chunks_of (darr c a)) p).
    f_equal. f_equal. unfold chunks_of, darr, get_dask_array.
    rewrite !map_length, combine_length, pad_win_length. lia. }
  rewrite E. destruct (block_of c a p HL OK) as [A B]. rewrite A, B. reflexivity.
Qed.

Lemma weights_model_is_spec c p : cfg_ok c p -> model_weights c p = spec_weights c p.
Proof.
  intros (HL & _ & _ & W & WC). unfold model_weights, spec_weights.
  rewrite (filled_firstn c A_WC p HL WC).
  unfold filled. destruct (block_of c A_W p HL W) as [A B]. rewrite A, B.
  destruct (lost_in c A_W p), (lost_in c A_WC p); cbn [orb]; lia.
Qed.

Lemma flags_model_is_spec c p : cfg_ok c p -> model_flags c p = spec_flags c p.
Proof.
  intros (HL & V & F & W & WC). unfold model_flags, model_flags_with, spec_flags.
  destruct (block_of c A_FLAGS p HL F) as [A B]. rewrite A, B.
  rewrite apply_data_lost_spec. f_equal.
  unfold lost_map_at. rewrite existsb_filter. unfold the_entries, all_entries.
  cbn [flat_map fst snd]. rewrite app_nil_r, !existsb_app.
  rewrite (entries_exists (placeholder c) _ A_VIS _ p (nd_ok_of c A_VIS p HL F V)).
  rewrite (entries_exists (placeholder c) _ A_W _ p (nd_ok_of c A_W p HL F W)).
  rewrite (entries_exists (placeholder c) _ A_WC _ p (nd_ok_of c A_WC p HL F WC)).
  destruct (block_of c A_VIS p HL V) as [A1 _]. destruct (block_of c A_W p HL W) as [A2 _].
  destruct (block_of c A_WC p HL WC) as [A3 _]. rewrite A1, A2, A3, orb_assoc. reflexivity.
Qed.

(* ---------- flag bits ---------- *)
Definition any_lost (c : cfg) (p : list Z) : bool :=
  lost_in c A_FLAGS p || lost_in c A_VIS p || lost_in c A_W p || lost_in c A_WC p.

(* data_lost is set exactly where something was lost (or where the stored flags already had it);
   every other bit is the stored bit when the flags chunk itself is present, and 0 when it is absent *)
Lemma flag_bits c p : cfg_ok c p ->
  Z.testbit (model_flags c p) 3 = any_lost c p || (negb (lost_in c A_FLAGS p) && Z.testbit (stored c A_FLAGS p) 3) /\
  forall i, 0 <= i -> i <> 3 ->
    Z.testbit (model_flags c p) i = negb (lost_in c A_FLAGS p) && Z.testbit (stored c A_FLAGS p) i.
Proof.
  intro OK. rewrite (flags_model_is_spec c p OK). unfold spec_flags, any_lost. rewrite data_lost_is_bit3.
  assert (B8 : forall i, 0 <= i -> Z.testbit 8 i = Z.eqb i 3).
  { intros i Hi. change 8 with (2 ^ 3). rewrite Z.pow2_bits_eqb by lia. apply Z.eqb_sym. }
  split.
  - rewrite Z.lor_spec.
    destruct (lost_in c A_FLAGS p), (lost_in c A_VIS p), (lost_in c A_W p), (lost_in c A_WC p);
      cbn [orb negb andb]; rewrite ?B8, ?Z.bits_0 by lia; cbn; rewrite ?orb_true_r, ?orb_false_r; reflexivity.
  - intros i Hi N. rewrite Z.lor_spec.
    assert (E : Z.testbit 8 i = false) by (rewrite B8 by lia; apply Z.eqb_neq; exact N).
    destruct (lost_in c A_FLAGS p), (lost_in c A_VIS p), (lost_in c A_W p), (lost_in c A_WC p);
      cbn [orb negb andb]; rewrite ?E, ?Z.bits_0; cbn; rewrite ?orb_false_r; reflexivity.
Qed.

